/-
  Sipsp.Proofs.UriCmpPerm — property C15 ON THE URI TEXT: order invariance, letter-case invariance, case-sensitivity of
  user / password and the presence rule for URIParseCmp (URIRawCmp), stated on byte strings built from their parts.

  THE RENDERING (`UcpmParts`, `ucpmText` / `ucpmRaw`): scheme (`sip:` / `sips:` in any letter case), optional
  `user[:password]@`, a host name, optional `:port`, a LIST of parameter items `name[=value]` joined with `;` (behind a
  leading `;`), a LIST of header items `name[=value]` joined with `&` (behind `?`).  This is the simplest well-formed
  shape: names and values are plain tokens — no white space, no quoted strings, no empty items, no `name=` with an
  empty value; the host is a name (no `[…]` reference).  Side conditions `UcpmOk`:
    * user / password bytes: none of `@ : ; ? [ ]` (`ucTok`); a password only behind a user; host not empty, none of
      `@ : ; ? [ ] &`; port: decimal digits of value ≤ 65535;
    * item names not empty; name and value bytes are the bytes ParseTokenParam continues a token with (`PChar`):
      letters, digits, `-_.!~*'()%[]/:+$`, plus `&` in parameters and `?` in headers (C17 `allowed_bytes_documented`);
    * parameter names duplicate-free up to letter case, header names likewise (`UcpmNoDup`), at most 100 items each,
      the whole text at most 65,535 bytes.
  PROVED for ALL such parts (any lengths within those limits) and EVERY flag value (any `Nat`):
    * `ucpm_ucURI`, `ucpm_parse`: the rendering is a URI of the grammar `UcURI` of C14; ParseURI accepts it, consumes
      it to the end, does not panic and returns exactly the components `ucpmURI` (by `parseURI_complete`);
      `ucpm_gets`: user, password, host, parameter string, header string read back as the parts;
    * `ucpm_glist`: the joined item list is a `GList` of the grammar of C17 for both separators; `ucpm_params_parse`,
      `ucpm_hdrs_parse`: ParseAllURIParams / ParseAllURIHdrs store the items in order, each with the type of its name
      (an EMPTY list is stored as ONE item with empty name and value: `ucpmEff`);
    * `ucpm_paramsEq_spec`, `ucpm_hdrsEq_spec`: URIParamsEq / URIHdrsEq on two rendered lists: no panic, no error, and
      the verdict in terms of the items (`UcpmParamsEqv`, `UcpmHdrsEqv`); `ucpm_paramsEqv_eff`, `ucpm_hdrsEqv_eff`:
      the one empty item of an empty list never changes a verdict;
    * EXPORT C15 `uriParseCmp_text_spec`: for any two renderings, URIParseCmp does not panic, reports no error, hands
      back the two parsed URIs, and says "equal" EXACTLY when (`UcpmSpec`): scheme type equal or skipped; port NUMBER
      equal or skipped; user bytes identical or skipped; password bytes identical or skipped; hosts equal up to case;
      parameters skipped or { each of user / ttl / method / maddr (any case) a name of both lists or of neither, and
      items with the same name up to case have the same value up to case }; headers skipped or { same count and every
      header of the first occurs in the second with the same name and value up to case };
    * EXPORT C15 `uriParseCmp_perm_text` (2): same parts with the parameter items and / or header items in any other
      order ⇒ verdict true, no error, both orders of the arguments (`UcpmOk.perm`: the side conditions carry over);
    * EXPORT C15 `uriParseCmp_case_text`, `uriParseCmp_case_text_gen` (3): other letter case of scheme, host, parameter
      names / values, header names / values (`UcpmCaseVar`) ⇒ equal; verdict against any third rendering unchanged;
      `uriParseCmp_congr_text`, `uriParseCmp_same_text`: order and letter case together (`UcpmSameParts`);
    * EXPORT C15 `uriParseCmp_user_case_text`, `uriParseCmp_pass_case_text`, `uriParseCmp_user_skip_text` (4): different
      user / password bytes (e.g. another letter case) ⇒ verdict false unless the flags skip that comparison, in which
      case renderings that agree otherwise are equal;
    * EXPORT C15 `uriParseCmp_presence_text`, `uriParseCmp_extra_param_text` (5): a user / ttl / method / maddr item (any
      case) in only one of the two ⇒ verdict false in both argument orders (parameters not skipped); an item of any
      OTHER name in only one of the two, anywhere in the list ⇒ verdict true in both orders.
  Tests at the end (`decide +kernel`): `UcpmOk`, `UcpmCaseVar` are satisfiable, every theorem is applied to a concrete
  URI with user, password, port, three parameters and two headers, and evaluation of the model agrees.

  NOT proved here:
    * texts outside the rendering: white space / folds, empty items (`;;`), quoted values, `name=` with an empty
      value, `[…]` hosts, user parts containing `;` or `?`, tel: URIs, more than 100 items (only the first 100 are
      stored and compared), duplicate names (the laws are false there: C15 `symm_needs_nodup`);
    * that the header VALUES matter only up to letter case is part of the statements (the model compares them with
      CmpEq), although the property text speaks of header names only.
  Behaviour worth knowing, all consequences of `uriParseCmp_text_spec` (tests at the end): a written but empty
  password (`sip:u:@h`) equals no password; ports are compared by NUMBER (`:5060` = `:05060`, no port = `:` = `:0`);
  a parameter without value has the empty value: `;lr` = `;lr=` but `;lr` ≠ `;lr=x`; header values, like header
  names, are compared up to letter case (`?a=X` = `?A=x`).
-/
import Sipsp.Proofs.UriCmpLink
import Sipsp.Proofs.UriComplete
namespace Sipsp

/-- the byte list `m` stands at position `p` of `b` -/
def UcpmAt (b : Buf) (p : Nat) (m : List UInt8) : Prop := ∀ j c, m[j]? = some c → b[p + j]? = some c

theorem UcpmAt.self (l : List UInt8) : UcpmAt l.toArray 0 l := by
  intro j c h
  rw [Nat.zero_add, List.getElem?_toArray]; exact h

theorem UcpmAt.append {b : Buf} {p : Nat} {m1 m2 : List UInt8} (h : UcpmAt b p (m1 ++ m2)) :
    UcpmAt b p m1 ∧ UcpmAt b (p + m1.length) m2 := by
  constructor
  · intro j c hj
    apply h j c
    have hlt : j < m1.length := by
      rcases Nat.lt_or_ge j m1.length with h' | h'
      · exact h'
      · rw [List.getElem?_eq_none h'] at hj; cases hj
    rw [List.getElem?_append_left hlt]; exact hj
  · intro j c hj
    have := h (m1.length + j) c (by rw [List.getElem?_append_right (by omega)]; simpa using hj)
    rw [← Nat.add_assoc] at this; exact this

theorem UcpmAt.cons {b : Buf} {p : Nat} {c : UInt8} {m : List UInt8} (h : UcpmAt b p (c :: m)) :
    b[p]? = some c ∧ UcpmAt b (p + 1) m := by
  constructor
  · exact h 0 c rfl
  · intro j d hj
    have := h (j + 1) d (by simpa using hj)
    rw [show p + (j + 1) = p + 1 + j by omega] at this; exact this

theorem UcpmAt.get {b : Buf} {p : Nat} {m : List UInt8} (h : UcpmAt b p m) {k : Nat} (h1 : p ≤ k) (h2 : k < p + m.length) :
    ∃ c, b[k]? = some c ∧ c ∈ m := by
  have hlt : k - p < m.length := by omega
  refine ⟨m[k - p], ?_, List.getElem_mem hlt⟩
  have := h (k - p) m[k - p] (List.getElem?_eq_getElem hlt)
  rw [show p + (k - p) = k by omega] at this; exact this

theorem UcpmAt.all {b : Buf} {p : Nat} {m : List UInt8} (h : UcpmAt b p m) {f : UInt8 → Bool}
    (hf : ∀ c ∈ m, f c = true) : UcAll b p (p + m.length) f := by
  intro j h1 h2 c hc
  obtain ⟨d, hd, hm⟩ := h.get h1 h2
  rw [hd] at hc; cases hc; exact hf _ hm

theorem UcpmAt.prun {b : Buf} {p : Nat} {m : List UInt8} (h : UcpmAt b p m) {flags : Nat}
    (hf : ∀ c ∈ m, PChar flags c) : PRun b flags p (p + m.length) := by
  intro k h1 h2
  obtain ⟨d, hd, hm⟩ := h.get h1 h2
  exact ⟨d, hd, hf _ hm⟩

theorem UcpmAt.extract {b : Buf} {p : Nat} {m : List UInt8} (h : UcpmAt b p m) (hle : p + m.length ≤ b.size) :
    b.extract p (p + m.length) = m.toArray := by
  apply Array.ext_getElem?
  intro i
  rw [Array.getElem?_extract]
  by_cases hi : i < m.length
  · rw [if_pos (by omega), h i _ (List.getElem?_eq_getElem hi)]
    simp [hi]
  · rw [if_neg (by omega)]
    simp only [List.getElem?_toArray]
    rw [List.getElem?_eq_none (by omega)]


/-! ### list items -/

structure UcpmItem where
  name : List UInt8
  val : List UInt8
  deriving DecidableEq, Repr

def UcpmItem.text (it : UcpmItem) : List UInt8 := if it.val = [] then it.name else it.name ++ 61 :: it.val

def ucpmJoin (sep : UInt8) : List UcpmItem → List UInt8
  | [] => []
  | [it] => it.text
  | it :: it' :: rest => it.text ++ sep :: ucpmJoin sep (it' :: rest)

def ucpmTp (o : Nat) (it : UcpmItem) (st : TPState) : PTokParam :=
  if it.val = [] then { name := ⟨o, it.name.length⟩, all := ⟨o, it.name.length⟩, state := st }
  else { name := ⟨o, it.name.length⟩, val := ⟨o + it.name.length + 1, it.val.length⟩,
         all := ⟨o, it.name.length + 1 + it.val.length⟩, state := st }

def ucpmTps (o : Nat) : List UcpmItem → List PTokParam
  | [] => []
  | [it] => [ucpmTp o it .fin]
  | it :: it' :: rest => ucpmTp o it .initNxtVal :: ucpmTps (o + it.text.length + 1) (it' :: rest)

structure UcpmItemOk (flags : Nat) (it : UcpmItem) : Prop where
  ne : it.name ≠ []
  name : ∀ c ∈ it.name, PChar flags c
  val : ∀ c ∈ it.val, PChar flags c

theorem ucpm_gparam {b : Buf} {flags o o' : Nat} {e : Err} {st : TPState} (it : UcpmItem) (hok : UcpmItemOk flags it)
    (hat : UcpmAt b o it.text) (hE : Ending b flags (o + it.text.length) o' e st) :
    GParam b flags o o' e (ucpmTp o it st) := by
  have hn : 0 < it.name.length := List.length_pos_iff.2 hok.ne
  unfold ucpmTp
  unfold UcpmItem.text at hat hE
  by_cases hv : it.val = []
  · rw [if_pos hv] at hat hE ⊢
    have h := GParam.noValue o o o (o + it.name.length) o' e st (Pad.nil o) (Lws.nil o) (hat.prun hok.name) (by omega) hE
    rw [Nat.add_sub_cancel_left] at h
    exact h
  · rw [if_neg hv] at hat hE ⊢
    have hvl : 0 < it.val.length := List.length_pos_iff.2 hv
    obtain ⟨h1, h2⟩ := hat.append
    obtain ⟨h61, h3⟩ := h2.cons
    have e1 : o + (it.name ++ 61 :: it.val).length = o + it.name.length + 1 + it.val.length := by
      simp only [List.length_append, List.length_cons]; omega
    rw [e1] at hE
    have h := GParam.token o o o (o + it.name.length) (o + it.name.length) (o + it.name.length + 1)
      (o + it.name.length + 1 + it.val.length) o' e st (Pad.nil o) (Lws.nil o) (h1.prun hok.name) (by omega)
      (Lws.nil _) h61 (Lws.nil _) (h3.prun hok.val) (by omega) hE
    rw [Nat.add_sub_cancel_left, Nat.add_sub_cancel_left,
      show o + it.name.length + 1 + it.val.length - o = it.name.length + 1 + it.val.length by omega] at h
    exact h

theorem ucpm_join_head (sep : UInt8) (it : UcpmItem) (rest : List UcpmItem) {c : UInt8} {t : List UInt8}
    (h : it.name = c :: t) : ∃ tl, ucpmJoin sep (it :: rest) = c :: tl := by
  have ht : ∃ tl, it.text = c :: tl := by
    unfold UcpmItem.text
    split
    · exact ⟨t, h⟩
    · exact ⟨t ++ 61 :: it.val, by rw [h]; rfl⟩
  obtain ⟨tl, htl⟩ := ht
  cases rest with
  | nil => exact ⟨tl, by rw [ucpmJoin, htl]⟩
  | cons it' r => exact ⟨tl ++ sep :: ucpmJoin sep (it' :: r), by rw [ucpmJoin, htl]; rfl⟩

theorem ucpm_glist {b : Buf} {flags : Nat} (hend : hasFlag flags POptInputEndF = true) :
    ∀ (items : List UcpmItem) (o : Nat), items ≠ [] → (∀ it ∈ items, UcpmItemOk flags it) →
      UcpmAt b o (ucpmJoin (tpSep flags) items) → o + (ucpmJoin (tpSep flags) items).length = b.size →
      GList b flags o (ucpmTps o items) b.size .eoh := by
  intro items
  induction items with
  | nil => intro o h; exact absurd rfl h
  | cons it rest ih =>
    intro o _ hok hat hsz
    cases rest with
    | nil =>
      rw [ucpmJoin] at hat hsz
      rw [ucpmTps]
      refine GList.last o b.size .eoh _ (ucpm_gparam it (hok it List.mem_cons_self) hat ?_) (Or.inr rfl)
      exact Ending.inputEnd _ _ hend (Lws.nil _) (EndTail.none _ (Array.getElem?_eq_none (by omega)))
    | cons it' r =>
      rw [ucpmJoin] at hat hsz
      rw [ucpmTps]
      obtain ⟨h1, h2⟩ := hat.append
      obtain ⟨hs, h3⟩ := h2.cons
      have hok' := hok it' (List.mem_cons_of_mem _ List.mem_cons_self)
      obtain ⟨c, t, hct⟩ : ∃ c t, it'.name = c :: t := by
        rcases hn : it'.name with _ | ⟨c, t⟩
        · exact absurd hn hok'.ne
        · exact ⟨c, t, rfl⟩
      obtain ⟨tl, htl⟩ := ucpm_join_head (tpSep flags) it' r hct
      have hc : b[o + it.text.length + 1]? = some c := by
        have := h3 0 c (by rw [htl]; rfl)
        exact this
      have hpc : PChar flags c := hok'.name c (by rw [hct]; exact List.mem_cons_self)
      refine GList.cons o (o + it.text.length + 1) _ _ b.size .eoh
        (ucpm_gparam it (hok it List.mem_cons_self) h1 ?_) ?_
      · exact Ending.sep _ _ _ .moreValues .initNxtVal (Lws.nil _) hs
          (AfterSep.more _ _ _ c (Pad.nil _) (Lws.nil _) hc hpc.1 hpc.2.1 hpc.2.2)
      · refine ih _ (by simp) (fun x hx => hok x (List.mem_cons_of_mem _ hx)) h3 ?_
        simp only [List.length_append, List.length_cons] at hsz
        omega


/-! ### what the stored objects say about the items -/

/-- element-wise relation of two lists of the same length -/
inductive UcpmAll2 {α β : Type} (R : α → β → Prop) : List α → List β → Prop
  | nil : UcpmAll2 R [] []
  | cons {a : α} {b : β} {l1 : List α} {l2 : List β} : R a b → UcpmAll2 R l1 l2 → UcpmAll2 R (a :: l1) (b :: l2)

structure UcpmRep (b : Buf) (tp : PTokParam) (it : UcpmItem) : Prop where
  name : tp.name.get? b = some it.name.toArray
  val : tp.val.get? b = some it.val.toArray
  nameOf : nameOf b tp = it.name.toArray

theorem ucpm_rep_tp {b : Buf} {o : Nat} {st : TPState} (it : UcpmItem) (hfit : b.size ≤ 65535)
    (hat : UcpmAt b o it.text) (hle : o + it.text.length ≤ b.size) : UcpmRep b (ucpmTp o it st) it := by
  unfold ucpmTp
  unfold UcpmItem.text at hat hle
  by_cases hv : it.val = []
  · rw [if_pos hv] at hat hle ⊢
    refine ⟨?_, ?_, ?_⟩
    · show PField.get? b ⟨o, it.name.length⟩ = _
      rw [field_get? b o _ hle hfit, hat.extract hle]
    · show PField.get? b ⟨0, 0⟩ = _
      rw [field_get? b 0 0 (Nat.zero_le _) hfit, hv]
      simp
    · show b.extract o (o + it.name.length) = _
      exact hat.extract hle
  · rw [if_neg hv] at hat hle ⊢
    obtain ⟨h1, h2⟩ := hat.append
    obtain ⟨_, h3⟩ := h2.cons
    simp only [List.length_append, List.length_cons] at hle
    refine ⟨?_, ?_, ?_⟩
    · show PField.get? b ⟨o, it.name.length⟩ = _
      rw [field_get? b o _ (by omega) hfit, h1.extract (by omega)]
    · show PField.get? b ⟨o + it.name.length + 1, it.val.length⟩ = _
      rw [field_get? b _ _ (by omega) hfit, h3.extract (by omega)]
    · show b.extract o (o + it.name.length) = _
      exact h1.extract (by omega)

theorem ucpm_rep_tps {b : Buf} (sep : UInt8) (hfit : b.size ≤ 65535) :
    ∀ (items : List UcpmItem) (o : Nat), UcpmAt b o (ucpmJoin sep items) → o + (ucpmJoin sep items).length ≤ b.size →
      UcpmAll2 (UcpmRep b) (ucpmTps o items) items := by
  intro items
  induction items with
  | nil => intro o _ _; exact UcpmAll2.nil
  | cons it rest ih =>
    intro o hat hsz
    cases rest with
    | nil =>
      rw [ucpmJoin] at hat hsz
      rw [ucpmTps]
      exact UcpmAll2.cons (ucpm_rep_tp it hfit hat hsz) UcpmAll2.nil
    | cons it' r =>
      rw [ucpmJoin] at hat hsz
      rw [ucpmTps]
      obtain ⟨h1, h2⟩ := hat.append
      obtain ⟨_, h3⟩ := h2.cons
      simp only [List.length_append, List.length_cons] at hsz
      exact UcpmAll2.cons (ucpm_rep_tp it hfit h1 (by omega)) (ih _ h3 (by omega))

theorem ucpm_forall2_left {α β : Type} {R : α → β → Prop} {l1 : List α} {l2 : List β} (h : UcpmAll2 R l1 l2) :
    ∀ a ∈ l1, ∃ b ∈ l2, R a b := by
  induction h with
  | nil => intro a ha; cases ha
  | cons hab _ ih =>
    intro a ha
    rcases List.mem_cons.1 ha with rfl | ha
    · exact ⟨_, List.mem_cons_self, hab⟩
    · obtain ⟨b, hb, hr⟩ := ih a ha
      exact ⟨b, List.mem_cons_of_mem _ hb, hr⟩

theorem ucpm_forall2_right {α β : Type} {R : α → β → Prop} {l1 : List α} {l2 : List β} (h : UcpmAll2 R l1 l2) :
    ∀ b ∈ l2, ∃ a ∈ l1, R a b := by
  induction h with
  | nil => intro a ha; cases ha
  | cons hab _ ih =>
    intro b hb
    rcases List.mem_cons.1 hb with rfl | hb
    · exact ⟨_, List.mem_cons_self, hab⟩
    · obtain ⟨a, ha, hr⟩ := ih b hb
      exact ⟨a, List.mem_cons_of_mem _ ha, hr⟩

theorem ucpm_forall2_length {α β : Type} {R : α → β → Prop} {l1 : List α} {l2 : List β} (h : UcpmAll2 R l1 l2) :
    l1.length = l2.length := by
  induction h with
  | nil => rfl
  | cons _ _ ih => simp only [List.length_cons, ih]

theorem ucpm_forall2_pairwise {α β : Type} {R : α → β → Prop} {S : β → β → Prop} {T : α → α → Prop}
    {l1 : List α} {l2 : List β} (h : UcpmAll2 R l1 l2)
    (hst : ∀ a b a' b', R a b → R a' b' → S b b' → T a a') (hp : l2.Pairwise S) : l1.Pairwise T := by
  induction h with
  | nil => exact List.Pairwise.nil
  | cons hab hrest ih =>
    rw [List.pairwise_cons] at hp ⊢
    refine ⟨fun a' ha' => ?_, ih hp.2⟩
    obtain ⟨b', hb', hr'⟩ := ucpm_forall2_left hrest a' ha'
    exact hst _ _ _ _ hab hr' (hp.1 b' hb')

theorem ucpm_forall2_map {α β γ : Type} {R : α → β → Prop} {S : γ → β → Prop} {l1 : List α} {l2 : List β} (f : α → γ)
    (h : UcpmAll2 R l1 l2) (hrs : ∀ a b, R a b → S (f a) b) : UcpmAll2 S (l1.map f) l2 := by
  induction h with
  | nil => exact UcpmAll2.nil
  | cons hab _ ih => exact UcpmAll2.cons (hrs _ _ hab) ih

/-! ### the pushed lists -/

theorem ucpm_plist_foldl (items : List URIParam) (k : Nat) (h : items.length ≤ k) :
    (items.foldl URIParamsLst.push ({ params := Array.replicate k {} } : URIParamsLst)).plist = items := by
  have hn := foldl_push_n items ({ params := Array.replicate k {} } : URIParamsLst)
  have hs := foldl_push_size items ({ params := Array.replicate k {} } : URIParamsLst)
  simp only [Array.size_replicate, Nat.zero_add] at hn hs
  unfold URIParamsLst.plist URIParamsLst.pNo
  rw [hn, hs, if_neg (by omega)]
  apply List.ext_getElem?
  intro i
  rw [List.getElem?_take]
  by_cases hi : i < items.length
  · rw [if_pos hi, Array.getElem?_toList]
    have := foldl_push_get items ({ params := Array.replicate k {} } : URIParamsLst) i items[i]
      (List.getElem?_eq_getElem hi) (by simp only [Array.size_replicate, Nat.zero_add]; omega)
    simp only [Nat.zero_add] at this
    rw [this, List.getElem?_eq_getElem hi]
  · rw [if_neg hi, List.getElem?_eq_none (by omega)]

theorem ucpm_hlist_foldl (items : List PTokParam) (k : Nat) (h : items.length ≤ k) :
    (items.foldl URIHdrsLst.push ({ hdrs := Array.replicate k {} } : URIHdrsLst)).hlist = items := by
  have hn := foldl_hpush_n items ({ hdrs := Array.replicate k {} } : URIHdrsLst)
  have hs := foldl_hpush_size items ({ hdrs := Array.replicate k {} } : URIHdrsLst)
  simp only [Array.size_replicate, Nat.zero_add] at hn hs
  unfold URIHdrsLst.hlist URIHdrsLst.hNo
  rw [hn, hs, if_neg (by omega)]
  apply List.ext_getElem?
  intro i
  rw [List.getElem?_take]
  by_cases hi : i < items.length
  · rw [if_pos hi, Array.getElem?_toList]
    have := foldl_hpush_get items ({ hdrs := Array.replicate k {} } : URIHdrsLst) i items[i]
      (List.getElem?_eq_getElem hi) (by simp only [Array.size_replicate, Nat.zero_add]; omega)
    simp only [Nat.zero_add] at this
    rw [this, List.getElem?_eq_getElem hi]
  · rw [if_neg hi, List.getElem?_eq_none (by omega)]


/-! ### ParseAllURIParams / ParseAllURIHdrs on a rendered list -/

/-- the option word URIParamsEq / URICmp hand to ParseTokenParam (the wrapper's `;` option included) -/
def ucpmPF : Nat := (POptTokURIParamF ||| POptInputEndF) ||| POptParamSemiSepF
/-- … and for the headers -/
def ucpmHF : Nat := (POptTokURIHdrF ||| POptInputEndF) ||| POptParamAmpSepF ||| POptTokURIHdrF

/-- what the list parsers report for an item list: the items, or ONE empty item for the empty list -/
def ucpmEff (items : List UcpmItem) : List UcpmItem := if items = [] then [⟨[], []⟩] else items

structure UcpmRepP (b : Buf) (p : URIParam) (it : UcpmItem) : Prop where
  name : p.param.name.get? b = some it.name.toArray
  val : p.param.val.get? b = some it.val.toArray
  t : p.t = uriParamResolve it.name.toArray

structure UcpmRepH (b : Buf) (p : PTokParam) (it : UcpmItem) : Prop where
  name : p.name.get? b = some it.name.toArray
  val : p.val.get? b = some it.val.toArray

theorem ucpm_fresh_p (k : Nat) : ({ params := Array.replicate k {} } : URIParamsLst).Fresh := by
  refine ⟨fun i x _ hx => ?_, rfl⟩
  rw [Array.getElem?_replicate] at hx
  split at hx
  · cases hx; rfl
  · cases hx

theorem ucpm_fresh_h (k : Nat) : ({ hdrs := Array.replicate k {} } : URIHdrsLst).Fresh := by
  refine ⟨fun i x _ hx => ?_, rfl⟩
  rw [Array.getElem?_replicate] at hx
  split at hx
  · cases hx; rfl
  · cases hx

theorem ucpm_params_parse (items : List UcpmItem) (hok : ∀ it ∈ items, UcpmItemOk ucpmPF it)
    (hlen : items.length ≤ 100) (hfit : (ucpmJoin 59 items).length ≤ 65535) :
    errOkOrEOH (uriParamsParse (ucpmJoin 59 items).toArray 0).1 = true ∧
    (uriParamsParse (ucpmJoin 59 items).toArray 0).2.pnc = false ∧
    (uriParamsParse (ucpmJoin 59 items).toArray 0).2.more = false ∧
    UcpmAll2 (UcpmRepP (ucpmJoin 59 items).toArray) (uriParamsParse (ucpmJoin 59 items).toArray 0).2.plist
      (ucpmEff items) := by
  by_cases hne : items = []
  · subst hne
    have e : (ucpmJoin 59 []).toArray = #[] := rfl
    rw [e]
    refine ⟨by decide +kernel, by decide +kernel, by decide +kernel, ?_⟩
    have hp : (uriParamsParse #[] 0).2.plist = [{ param := {}, t := 64 }] := by decide +kernel
    rw [hp]
    exact UcpmAll2.cons ⟨by decide +kernel, by decide +kernel, by decide +kernel⟩ UcpmAll2.nil
  · have hsep : tpSep ucpmPF = 59 := by decide
    have hfit' : (ucpmJoin 59 items).toArray.size ≤ 65535 := by simpa using hfit
    have H := ucpm_glist (b := (ucpmJoin 59 items).toArray) (flags := ucpmPF) (by decide) items 0 hne hok
      (by rw [hsep]; exact UcpmAt.self _) (by rw [hsep]; simp)
    have hL := uriParamsLoop_seq (H.paramSeq hfit') ({ params := Array.replicate 100 {} } : URIParamsLst) 0
      (ucpm_fresh_p 100)
    have hP : uriParamsParse (ucpmJoin 59 items).toArray 0 =
        (Err.eoh, ((ucpmTps 0 items).map (typed (ucpmJoin 59 items).toArray)).foldl URIParamsLst.push
          ({ params := Array.replicate 100 {} } : URIParamsLst)) := by
      unfold uriParamsParse parseAllURIParams
      have : POptTokURIParamF ||| POptInputEndF ||| POptParamSemiSepF = ucpmPF := rfl
      rw [this, hL]
    have hR := ucpm_rep_tps (b := (ucpmJoin 59 items).toArray) 59 hfit' items 0 (UcpmAt.self _) (by simp)
    have hlen' : ((ucpmTps 0 items).map (typed (ucpmJoin 59 items).toArray)).length ≤ 100 := by
      rw [List.length_map, ucpm_forall2_length hR]; exact hlen
    rw [hP]
    refine ⟨rfl, ?_, ?_, ?_⟩
    · show URIParamsLst.pnc (List.foldl _ _ _) = false
      rw [foldl_push_pnc]
    · show URIParamsLst.more (List.foldl _ _ _) = false
      unfold URIParamsLst.more
      rw [foldl_push_n, foldl_push_size]
      simp only [Array.size_replicate, Nat.zero_add, decide_eq_false_iff_not]
      omega
    · show UcpmAll2 _ (URIParamsLst.plist (List.foldl _ _ _)) _
      rw [ucpm_plist_foldl _ 100 hlen']
      unfold ucpmEff
      rw [if_neg hne]
      exact ucpm_forall2_map _ hR (fun tp it h => ⟨h.name, h.val, by show uriParamResolve _ = _; rw [h.nameOf]⟩)

theorem ucpm_hdrs_parse (items : List UcpmItem) (hok : ∀ it ∈ items, UcpmItemOk ucpmHF it)
    (hlen : items.length ≤ 100) (hfit : (ucpmJoin 38 items).length ≤ 65535) :
    errOkOrEOH (uriHdrsParse (ucpmJoin 38 items).toArray 0).1 = true ∧
    (uriHdrsParse (ucpmJoin 38 items).toArray 0).2.hNo = (ucpmEff items).length ∧
    UcpmAll2 (UcpmRepH (ucpmJoin 38 items).toArray) (uriHdrsParse (ucpmJoin 38 items).toArray 0).2.hlist
      (ucpmEff items) := by
  by_cases hne : items = []
  · subst hne
    have e : (ucpmJoin 38 []).toArray = #[] := rfl
    rw [e]
    refine ⟨by decide +kernel, by decide +kernel, ?_⟩
    have hp : (uriHdrsParse #[] 0).2.hlist = [{}] := by decide +kernel
    rw [hp]
    exact UcpmAll2.cons ⟨by decide +kernel, by decide +kernel⟩ UcpmAll2.nil
  · have hsep : tpSep ucpmHF = 38 := by decide
    have hfit' : (ucpmJoin 38 items).toArray.size ≤ 65535 := by simpa using hfit
    have H := ucpm_glist (b := (ucpmJoin 38 items).toArray) (flags := ucpmHF) (by decide) items 0 hne hok
      (by rw [hsep]; exact UcpmAt.self _) (by rw [hsep]; simp)
    have hL := uriHdrsLoop_seq (H.hdrSeq hfit') ({ hdrs := Array.replicate 100 {} } : URIHdrsLst) 0
      (ucpm_fresh_h 100)
    have hP : uriHdrsParse (ucpmJoin 38 items).toArray 0 =
        (Err.eoh, (ucpmTps 0 items).foldl URIHdrsLst.push ({ hdrs := Array.replicate 100 {} } : URIHdrsLst)) := by
      unfold uriHdrsParse parseAllURIHdrs
      have : POptTokURIHdrF ||| POptInputEndF ||| POptParamAmpSepF ||| POptTokURIHdrF = ucpmHF := rfl
      rw [this, hL]
    have hR := ucpm_rep_tps (b := (ucpmJoin 38 items).toArray) 38 hfit' items 0 (UcpmAt.self _) (by simp)
    have hlen' : (ucpmTps 0 items).length ≤ 100 := by
      rw [ucpm_forall2_length hR]; exact hlen
    rw [hP]
    have hl : (List.foldl URIHdrsLst.push ({ hdrs := Array.replicate 100 {} } : URIHdrsLst) (ucpmTps 0 items)).hlist =
        ucpmTps 0 items := ucpm_hlist_foldl _ 100 hlen'
    unfold ucpmEff
    rw [if_neg hne]
    refine ⟨rfl, ?_, ?_⟩
    · show URIHdrsLst.hNo (List.foldl _ _ _) = _
      rw [← URIHdrsLst.hlist_length, hl, ucpm_forall2_length hR]
    · show UcpmAll2 _ (URIHdrsLst.hlist (List.foldl _ _ _)) _
      rw [hl]
      have := ucpm_forall2_map (S := UcpmRepH (ucpmJoin 38 items).toArray) id hR (fun tp it h => ⟨h.name, h.val⟩)
      rw [List.map_id] at this
      exact this


/-! ### the presence mask, bit by bit -/

theorem ucpm_and_pow (t k : Nat) : (t &&& 2 ^ k ≠ 0) ↔ t.testBit k = true := by
  constructor
  · intro h
    cases hb : t.testBit k with
    | true => rfl
    | false =>
      exfalso; apply h
      apply Nat.eq_of_testBit_eq
      intro i
      rw [Nat.testBit_and, Nat.testBit_two_pow, Nat.zero_testBit]
      by_cases hki : k = i
      · subst hki; rw [hb]; rfl
      · simp [hki]
  · intro h h0
    have : (t &&& 2 ^ k).testBit k = true := by
      rw [Nat.testBit_and, Nat.testBit_two_pow, h]; simp
    rw [h0, Nat.zero_testBit] at this
    cases this

theorem ucpm_mask_iff (t1 t2 : Nat) :
    (t1 &&& uriParamsBMask) = (t2 &&& uriParamsBMask) ↔
      ∀ x ∈ [URIParamUserF, URIParamTTLF, URIParamMethodF, URIParamMaddrF], ((t1 &&& x) ≠ 0 ↔ (t2 &&& x) ≠ 0) := by
  constructor
  · intro h x hx
    rw [← bmask_and t1 x hx, ← bmask_and t2 x hx, h]
  · intro h
    have h1 := h URIParamUserF (by simp)
    have h2 := h URIParamMethodF (by simp)
    have h3 := h URIParamTTLF (by simp)
    have h4 := h URIParamMaddrF (by simp)
    rw [show URIParamUserF = 2 ^ 1 from rfl, ucpm_and_pow, ucpm_and_pow] at h1
    rw [show URIParamMethodF = 2 ^ 2 from rfl, ucpm_and_pow, ucpm_and_pow] at h2
    rw [show URIParamTTLF = 2 ^ 3 from rfl, ucpm_and_pow, ucpm_and_pow] at h3
    rw [show URIParamMaddrF = 2 ^ 4 from rfl, ucpm_and_pow, ucpm_and_pow] at h4
    have e : uriParamsBMask = 30 := by decide
    rw [e]
    apply Nat.eq_of_testBit_eq
    intro i
    rw [Nat.testBit_and, Nat.testBit_and]
    by_cases hi : i < 5
    · have : i = 0 ∨ i = 1 ∨ i = 2 ∨ i = 3 ∨ i = 4 := by omega
      rcases this with rfl | rfl | rfl | rfl | rfl
      · have : Nat.testBit 30 0 = false := by decide
        rw [this]; simp
      · rw [Bool.eq_iff_iff.2 h1]
      · rw [Bool.eq_iff_iff.2 h2]
      · rw [Bool.eq_iff_iff.2 h3]
      · rw [Bool.eq_iff_iff.2 h4]
    · have : Nat.testBit 30 i = false :=
        Nat.testBit_lt_two_pow (Nat.lt_of_lt_of_le (by decide : 30 < 2 ^ 5) (Nat.pow_le_pow_right (by decide) (by omega)))
      rw [this]; simp

/-! ### URIParamsEq / URIHdrsEq on two rendered lists, in terms of the items -/

/-- the verdict of URIParamsEq in terms of the items: each of user / ttl / method / maddr (any letter case) is a name
    of both lists or of neither, and items with the same name (up to case) have the same value (up to case; an item
    without value has the empty value) -/
def UcpmParamsEqv (ps qs : List UcpmItem) : Prop :=
  (∀ s ∈ [sUser, sTtl, sMethod, sMaddr], (∃ i ∈ ps, lowerL i.name = s) ↔ (∃ j ∈ qs, lowerL j.name = s)) ∧
  (∀ i ∈ ps, ∀ j ∈ qs, lowerL i.name = lowerL j.name → lowerL i.val = lowerL j.val)

/-- the verdict of URIHdrsEq in terms of the items: same number of headers and every header of the first list occurs
    in the second with the same name and value up to case -/
def UcpmHdrsEqv (hs ks : List UcpmItem) : Prop :=
  hs.length = ks.length ∧ ∀ h ∈ hs, ∃ k ∈ ks, lowerL h.name = lowerL k.name ∧ lowerL h.val = lowerL k.val

/-- no two items have the same name up to letter case -/
def UcpmNoDup (l : List UcpmItem) : Prop := l.Pairwise (fun i j => lowerL i.name ≠ lowerL j.name)

theorem ucpm_feq {f1 : PField} {b1 : Buf} {f2 : PField} {b2 : Buf} {x y : List UInt8}
    (h1 : f1.get? b1 = some x.toArray) (h2 : f2.get? b2 = some y.toArray) :
    FEq f1 b1 f2 b2 ↔ lowerL x = lowerL y := by
  constructor
  · rintro ⟨a, c, ha, hc, hac⟩
    rw [h1] at ha; rw [h2] at hc; cases ha; cases hc
    exact hac
  · intro h
    exact ⟨_, _, h1, h2, h⟩

theorem ucpm_pmatch_iff {b1 b2 : Buf} {p q : URIParam} {i j : UcpmItem} (hp : UcpmRepP b1 p i) (hq : UcpmRepP b2 q j) :
    PMatch b1 p b2 q ↔ lowerL i.name = lowerL j.name := by
  constructor
  · rintro ⟨ht, ho⟩
    by_cases hot : p.t = URIParamOtherF
    · exact (ucpm_feq hp.name hq.name).1 (ho hot)
    · rw [hp.t, hq.t, uriParamResolve_lower, uriParamResolve_lower] at ht
      rw [hp.t, uriParamResolve_lower] at hot
      exact ucl_ofLower_inj ht hot
  · intro h
    refine ⟨?_, fun _ => (ucpm_feq hp.name hq.name).2 h⟩
    rw [hp.t, hq.t, uriParamResolve_lower, uriParamResolve_lower]
    show uriParamOfLower (lowerL i.name) = uriParamOfLower (lowerL j.name)
    rw [h]

theorem ucpm_hasType_iff {b : Buf} {l : List URIParam} {E : List UcpmItem} (hA : UcpmAll2 (UcpmRepP b) l E) (x : Nat)
    (s : List UInt8) (hxs : ∀ s', uriParamOfLower s' = x ↔ s' = s) :
    (∃ p ∈ l, p.t = x) ↔ (∃ i ∈ E, lowerL i.name = s) := by
  constructor
  · rintro ⟨p, hp, ht⟩
    obtain ⟨i, hi, hr⟩ := ucpm_forall2_left hA p hp
    refine ⟨i, hi, ?_⟩
    rw [hr.t, uriParamResolve_lower] at ht
    exact (hxs _).1 ht
  · rintro ⟨i, hi, hs⟩
    obtain ⟨p, hp, hr⟩ := ucpm_forall2_right hA i hi
    refine ⟨p, hp, ?_⟩
    rw [hr.t, uriParamResolve_lower]
    exact (hxs _).2 hs

theorem ucpm_nodup_eff {l : List UcpmItem} (h : UcpmNoDup l) : UcpmNoDup (ucpmEff l) := by
  unfold ucpmEff
  split
  · exact List.pairwise_singleton _ _
  · exact h

theorem ucpm_paramsAgree_iff {l1 l2 : URIParamsLst} {b1 b2 : Buf} {E1 E2 : List UcpmItem}
    (A1 : UcpmAll2 (UcpmRepP b1) l1.plist E1) (A2 : UcpmAll2 (UcpmRepP b2) l2.plist E2)
    (t1 : TypesOk l1) (t2 : TypesOk l2) : ParamsAgree l1 b1 l2 b2 ↔ UcpmParamsEqv E1 E2 := by
  have k := ucl_ofLower_eq_iff
  have hmask : (l1.types &&& uriParamsBMask) = (l2.types &&& uriParamsBMask) ↔
      (∀ s ∈ [sUser, sTtl, sMethod, sMaddr], (∃ i ∈ E1, lowerL i.name = s) ↔ (∃ j ∈ E2, lowerL j.name = s)) := by
    rw [ucpm_mask_iff]
    have e1 := fun x hx => (t1 x hx)
    have e2 := fun x hx => (t2 x hx)
    constructor
    · intro h s hs
      simp only [List.mem_cons, List.not_mem_nil, or_false] at hs
      rcases hs with rfl | rfl | rfl | rfl
      · rw [← ucpm_hasType_iff A1 URIParamUserF sUser (fun s' => (k s').1),
          ← ucpm_hasType_iff A2 URIParamUserF sUser (fun s' => (k s').1), ← e1 _ (by simp), ← e2 _ (by simp)]
        exact h _ (by simp)
      · rw [← ucpm_hasType_iff A1 URIParamTTLF sTtl (fun s' => (k s').2.1),
          ← ucpm_hasType_iff A2 URIParamTTLF sTtl (fun s' => (k s').2.1), ← e1 _ (by simp), ← e2 _ (by simp)]
        exact h _ (by simp)
      · rw [← ucpm_hasType_iff A1 URIParamMethodF sMethod (fun s' => (k s').2.2.1),
          ← ucpm_hasType_iff A2 URIParamMethodF sMethod (fun s' => (k s').2.2.1), ← e1 _ (by simp), ← e2 _ (by simp)]
        exact h _ (by simp)
      · rw [← ucpm_hasType_iff A1 URIParamMaddrF sMaddr (fun s' => (k s').2.2.2),
          ← ucpm_hasType_iff A2 URIParamMaddrF sMaddr (fun s' => (k s').2.2.2), ← e1 _ (by simp), ← e2 _ (by simp)]
        exact h _ (by simp)
    · intro h x hx
      simp only [List.mem_cons, List.not_mem_nil, or_false] at hx
      rcases hx with rfl | rfl | rfl | rfl
      · rw [e1 _ (by simp), e2 _ (by simp), ucpm_hasType_iff A1 URIParamUserF sUser (fun s' => (k s').1),
          ucpm_hasType_iff A2 URIParamUserF sUser (fun s' => (k s').1)]
        exact h _ (by simp)
      · rw [e1 _ (by simp), e2 _ (by simp), ucpm_hasType_iff A1 URIParamTTLF sTtl (fun s' => (k s').2.1),
          ucpm_hasType_iff A2 URIParamTTLF sTtl (fun s' => (k s').2.1)]
        exact h _ (by simp)
      · rw [e1 _ (by simp), e2 _ (by simp), ucpm_hasType_iff A1 URIParamMethodF sMethod (fun s' => (k s').2.2.1),
          ucpm_hasType_iff A2 URIParamMethodF sMethod (fun s' => (k s').2.2.1)]
        exact h _ (by simp)
      · rw [e1 _ (by simp), e2 _ (by simp), ucpm_hasType_iff A1 URIParamMaddrF sMaddr (fun s' => (k s').2.2.2),
          ucpm_hasType_iff A2 URIParamMaddrF sMaddr (fun s' => (k s').2.2.2)]
        exact h _ (by simp)
  unfold ParamsAgree UcpmParamsEqv
  rw [hmask]
  apply and_congr_right
  intro _
  constructor
  · intro h i hi j hj hn
    obtain ⟨p, hp, rp⟩ := ucpm_forall2_right A1 i hi
    obtain ⟨q, hq, rq⟩ := ucpm_forall2_right A2 j hj
    exact (ucpm_feq rp.val rq.val).1 (h p hp q hq ((ucpm_pmatch_iff rp rq).2 hn))
  · intro h p hp q hq hm
    obtain ⟨i, hi, rp⟩ := ucpm_forall2_left A1 p hp
    obtain ⟨j, hj, rq⟩ := ucpm_forall2_left A2 q hq
    exact (ucpm_feq rp.val rq.val).2 (h i hi j hj ((ucpm_pmatch_iff rp rq).1 hm))


/-- **URIParamsEq on two rendered parameter lists**: no panic, no error, and the verdict is `UcpmParamsEqv` of the
    items (of the ONE empty item for an empty list) -/
theorem ucpm_paramsEq_spec (ps qs : List UcpmItem) (okp : ∀ it ∈ ps, UcpmItemOk ucpmPF it)
    (okq : ∀ it ∈ qs, UcpmItemOk ucpmPF it) (lenp : ps.length ≤ 100) (lenq : qs.length ≤ 100)
    (fitp : (ucpmJoin 59 ps).length ≤ 65535) (fitq : (ucpmJoin 59 qs).length ≤ 65535) (hnd : UcpmNoDup qs) :
    ∃ r, uriParamsEq (ucpmJoin 59 ps).toArray 0 (ucpmJoin 59 qs).toArray 0 = some (r, Err.ok) ∧
      (r = true ↔ UcpmParamsEqv (ucpmEff ps) (ucpmEff qs)) := by
  obtain ⟨ok1, pnc1, more1, A1⟩ := ucpm_params_parse ps okp lenp fitp
  obtain ⟨ok2, pnc2, more2, A2⟩ := ucpm_params_parse qs okq lenq fitq
  have t1 : TypesOk (uriParamsParse (ucpmJoin 59 ps).toArray 0).2 :=
    (parseAllURIParams_ucl (ucpmJoin 59 ps).toArray 0 100 (POptTokURIParamF ||| POptInputEndF) (by simpa using fitp)
      (Nat.zero_le _)).2.2 more1
  have t2 : TypesOk (uriParamsParse (ucpmJoin 59 qs).toArray 0).2 :=
    (parseAllURIParams_ucl (ucpmJoin 59 qs).toArray 0 100 (POptTokURIParamF ||| POptInputEndF) (by simpa using fitq)
      (Nat.zero_le _)).2.2 more2
  have hin1 : ∀ p ∈ (uriParamsParse (ucpmJoin 59 ps).toArray 0).2.plist, ParamIn (ucpmJoin 59 ps).toArray p := by
    intro p hp
    obtain ⟨i, _, r⟩ := ucpm_forall2_left A1 p hp
    exact ⟨by rw [r.name]; rfl, by rw [r.val]; rfl⟩
  have hin2 : ∀ p ∈ (uriParamsParse (ucpmJoin 59 qs).toArray 0).2.plist, ParamIn (ucpmJoin 59 qs).toArray p := by
    intro p hp
    obtain ⟨i, _, r⟩ := ucpm_forall2_left A2 p hp
    exact ⟨by rw [r.name]; rfl, by rw [r.val]; rfl⟩
  have hnd2 : ParamsNoDup (ucpmJoin 59 qs).toArray (uriParamsParse (ucpmJoin 59 qs).toArray 0).2.plist :=
    ucpm_forall2_pairwise A2 (fun a b a' b' r r' hs hm => hs ((ucpm_pmatch_iff r r').1 hm)) (ucpm_nodup_eff hnd)
  obtain ⟨r, hr, hrs⟩ := uriParamsLstEq_spec _ _ _ _ hin1 hin2 hnd2
  refine ⟨r, ?_, hrs.trans (ucpm_paramsAgree_iff A1 A2 t1 t2)⟩
  rw [uriParamsEq_eq]
  simp only [pnc1, pnc2, ok1, ok2, Bool.not_true, Bool.false_eq_true, ↓reduceIte]
  rw [hr]
  rfl

theorem ucpm_hdrsAgree_iff {l1 l2 : URIHdrsLst} {b1 b2 : Buf} {E1 E2 : List UcpmItem}
    (A1 : UcpmAll2 (UcpmRepH b1) l1.hlist E1) (A2 : UcpmAll2 (UcpmRepH b2) l2.hlist E2)
    (n1 : l1.hNo = E1.length) (n2 : l2.hNo = E2.length) : HdrsAgree l1 b1 l2 b2 ↔ UcpmHdrsEqv E1 E2 := by
  unfold HdrsAgree UcpmHdrsEqv
  rw [n1, n2]
  apply and_congr_right
  intro _
  constructor
  · intro h i hi
    obtain ⟨p, hp, rp⟩ := ucpm_forall2_right A1 i hi
    obtain ⟨q, hq, hs⟩ := h p hp
    obtain ⟨j, hj, rq⟩ := ucpm_forall2_left A2 q hq
    exact ⟨j, hj, (ucpm_feq rp.name rq.name).1 hs.1, (ucpm_feq rp.val rq.val).1 hs.2⟩
  · intro h p hp
    obtain ⟨i, hi, rp⟩ := ucpm_forall2_left A1 p hp
    obtain ⟨j, hj, hn, hv⟩ := h i hi
    obtain ⟨q, hq, rq⟩ := ucpm_forall2_right A2 j hj
    exact ⟨q, hq, (ucpm_feq rp.name rq.name).2 hn, (ucpm_feq rp.val rq.val).2 hv⟩

/-- **URIHdrsEq on two rendered header lists** -/
theorem ucpm_hdrsEq_spec (hs ks : List UcpmItem) (okh : ∀ it ∈ hs, UcpmItemOk ucpmHF it)
    (okk : ∀ it ∈ ks, UcpmItemOk ucpmHF it) (lenh : hs.length ≤ 100) (lenk : ks.length ≤ 100)
    (fith : (ucpmJoin 38 hs).length ≤ 65535) (fitk : (ucpmJoin 38 ks).length ≤ 65535) (hnd : UcpmNoDup ks) :
    ∃ r, uriHdrsEq (ucpmJoin 38 hs).toArray 0 (ucpmJoin 38 ks).toArray 0 = some (r, Err.ok) ∧
      (r = true ↔ UcpmHdrsEqv (ucpmEff hs) (ucpmEff ks)) := by
  obtain ⟨ok1, n1, A1⟩ := ucpm_hdrs_parse hs okh lenh fith
  obtain ⟨ok2, n2, A2⟩ := ucpm_hdrs_parse ks okk lenk fitk
  have hin1 : ∀ p ∈ (uriHdrsParse (ucpmJoin 38 hs).toArray 0).2.hlist, HdrIn (ucpmJoin 38 hs).toArray p := by
    intro p hp
    obtain ⟨i, _, r⟩ := ucpm_forall2_left A1 p hp
    exact ⟨by rw [r.name]; rfl, by rw [r.val]; rfl⟩
  have hin2 : ∀ p ∈ (uriHdrsParse (ucpmJoin 38 ks).toArray 0).2.hlist, HdrIn (ucpmJoin 38 ks).toArray p := by
    intro p hp
    obtain ⟨i, _, r⟩ := ucpm_forall2_left A2 p hp
    exact ⟨by rw [r.name]; rfl, by rw [r.val]; rfl⟩
  have hnd2 : HdrsNoDup (ucpmJoin 38 ks).toArray (uriHdrsParse (ucpmJoin 38 ks).toArray 0).2.hlist :=
    ucpm_forall2_pairwise A2 (fun a b a' b' r r' hs hm => hs ((ucpm_feq r.name r'.name).1 hm)) (ucpm_nodup_eff hnd)
  obtain ⟨r, hr, hrs⟩ := uriHdrsLstEq_spec _ _ _ _ hin1 hin2 hnd2
  refine ⟨r, ?_, hrs.trans (ucpm_hdrsAgree_iff A1 A2 n1 n2)⟩
  rw [uriHdrsEq_eq]
  simp only [ok1, ok2, Bool.not_true, Bool.false_eq_true, ↓reduceIte]
  rw [hr]
  rfl

/-! ### the ONE empty item of an empty list does not change the verdicts -/

theorem ucpm_eff_mem {l : List UcpmItem} {i : UcpmItem} (h : i ∈ ucpmEff l) : i ∈ l ∨ (l = [] ∧ i = ⟨[], []⟩) := by
  unfold ucpmEff at h
  split at h
  · rename_i hl
    exact Or.inr ⟨hl, by simpa using h⟩
  · exact Or.inl h

theorem ucpm_mem_eff {l : List UcpmItem} {i : UcpmItem} (h : i ∈ l) : i ∈ ucpmEff l := by
  unfold ucpmEff
  rw [if_neg (List.ne_nil_of_mem h)]
  exact h

theorem ucpm_lower_nil {x : List UInt8} (h : lowerL x = []) : x = [] := by
  cases x with
  | nil => rfl
  | cons a t => simp [lowerL] at h

theorem ucpm_paramsEqv_eff (ps qs : List UcpmItem) (hp : ∀ i ∈ ps, i.name ≠ []) (hq : ∀ i ∈ qs, i.name ≠ []) :
    UcpmParamsEqv (ucpmEff ps) (ucpmEff qs) ↔ UcpmParamsEqv ps qs := by
  have key : ∀ (l : List UcpmItem) (s : List UInt8), s ≠ [] →
      ((∃ i ∈ ucpmEff l, lowerL i.name = s) ↔ (∃ i ∈ l, lowerL i.name = s)) := by
    intro l s hs
    constructor
    · rintro ⟨i, hi, h⟩
      rcases ucpm_eff_mem hi with hi | ⟨_, rfl⟩
      · exact ⟨i, hi, h⟩
      · exact absurd h.symm hs
    · rintro ⟨i, hi, h⟩
      exact ⟨i, ucpm_mem_eff hi, h⟩
  unfold UcpmParamsEqv
  constructor
  · rintro ⟨h1, h2⟩
    refine ⟨fun s hs => ?_, fun i hi j hj => h2 i (ucpm_mem_eff hi) j (ucpm_mem_eff hj)⟩
    have hne : s ≠ [] := by
      simp only [List.mem_cons, List.not_mem_nil, or_false] at hs
      rcases hs with rfl | rfl | rfl | rfl <;> decide
    rw [← key ps s hne, ← key qs s hne]
    exact h1 s hs
  · rintro ⟨h1, h2⟩
    refine ⟨fun s hs => ?_, fun i hi j hj hn => ?_⟩
    · have hne : s ≠ [] := by
        simp only [List.mem_cons, List.not_mem_nil, or_false] at hs
        rcases hs with rfl | rfl | rfl | rfl <;> decide
      rw [key ps s hne, key qs s hne]
      exact h1 s hs
    · rcases ucpm_eff_mem hi with hi | ⟨_, rfl⟩
      · rcases ucpm_eff_mem hj with hj | ⟨_, rfl⟩
        · exact h2 i hi j hj hn
        · exact absurd (ucpm_lower_nil hn) (hp i hi)
      · rcases ucpm_eff_mem hj with hj | ⟨_, rfl⟩
        · exact absurd (ucpm_lower_nil hn.symm) (hq j hj)
        · rfl

theorem ucpm_hdrsEqv_eff (hs ks : List UcpmItem) (hh : ∀ i ∈ hs, i.name ≠ []) (hk : ∀ i ∈ ks, i.name ≠ []) :
    UcpmHdrsEqv (ucpmEff hs) (ucpmEff ks) ↔ UcpmHdrsEqv hs ks := by
  unfold UcpmHdrsEqv
  by_cases e1 : hs = []
  · by_cases e2 : ks = []
    · subst e1; subst e2
      simp [ucpmEff]
    · subst e1
      have hl : 0 < ks.length := List.length_pos_iff.2 e2
      constructor
      · rintro ⟨_, h⟩
        obtain ⟨k, hk', hn, _⟩ := h ⟨[], []⟩ (by simp [ucpmEff])
        rcases ucpm_eff_mem hk' with hk' | ⟨h0, _⟩
        · exact absurd (ucpm_lower_nil hn.symm) (hk k hk')
        · exact absurd h0 e2
      · rintro ⟨h, _⟩
        simp only [List.length_nil] at h
        omega
  · by_cases e2 : ks = []
    · subst e2
      have hl : 0 < hs.length := List.length_pos_iff.2 e1
      constructor
      · rintro ⟨_, h⟩
        obtain ⟨i, hi⟩ := List.exists_mem_of_ne_nil hs e1
        obtain ⟨k, hk', hn, _⟩ := h i (ucpm_mem_eff hi)
        rcases ucpm_eff_mem hk' with hk' | ⟨_, rfl⟩
        · cases hk'
        · exact absurd (ucpm_lower_nil hn) (hh i hi)
      · rintro ⟨h, _⟩
        simp only [List.length_nil] at h
        omega
    · simp only [ucpmEff, if_neg e1, if_neg e2]


theorem ucpm_par_nat : ∀ a, a < 256 → tokAllowedChar (UInt8.ofNat a) ucpmPF = true →
    ucPar (UInt8.ofNat a) = true ∧ UInt8.ofNat a ≠ 59 ∧ UInt8.ofNat a ≠ 63 := by decide +kernel
theorem ucpm_hdr_nat : ∀ a, a < 256 → tokAllowedChar (UInt8.ofNat a) ucpmHF = true →
    ucHdr (UInt8.ofNat a) = true ∧ UInt8.ofNat a ≠ 38 ∧ UInt8.ofNat a ≠ 0 := by decide +kernel
theorem ucpm_low_nat : ∀ a, a < 256 →
    (lowerB (UInt8.ofNat a) = 115 → ucLow (UInt8.ofNat a) = 115) ∧
    (lowerB (UInt8.ofNat a) = 105 → ucLow (UInt8.ofNat a) = 105) ∧
    (lowerB (UInt8.ofNat a) = 112 → ucLow (UInt8.ofNat a) = 112) ∧
    (lowerB (UInt8.ofNat a) = 58 → UInt8.ofNat a = 58) := by decide +kernel

theorem ucpm_par (c : UInt8) (h : tokAllowedChar c ucpmPF = true) : ucPar c = true ∧ c ≠ 59 ∧ c ≠ 63 := by
  have := ucpm_par_nat c.toNat (UInt8.toNat_lt c)
  simpa using this (by simpa using h)
theorem ucpm_hdr (c : UInt8) (h : tokAllowedChar c ucpmHF = true) : ucHdr c = true ∧ c ≠ 38 ∧ c ≠ 0 := by
  have := ucpm_hdr_nat c.toNat (UInt8.toNat_lt c)
  simpa using this (by simpa using h)
theorem ucpm_low (c : UInt8) : (lowerB c = 115 → ucLow c = 115) ∧ (lowerB c = 105 → ucLow c = 105) ∧
    (lowerB c = 112 → ucLow c = 112) ∧ (lowerB c = 58 → c = 58) := by
  have := ucpm_low_nat c.toNat (UInt8.toNat_lt c)
  simpa using this

theorem ucpm_join_all (f : UInt8 → Bool) (sep : UInt8) (hsep : f sep = true) (h61 : f 61 = true) :
    ∀ (items : List UcpmItem), (∀ it ∈ items, (∀ c ∈ it.name, f c = true) ∧ (∀ c ∈ it.val, f c = true)) →
      ∀ c ∈ ucpmJoin sep items, f c = true := by
  have htext : ∀ it : UcpmItem, ((∀ c ∈ it.name, f c = true) ∧ (∀ c ∈ it.val, f c = true)) → ∀ c ∈ it.text, f c = true := by
    intro it h c hc
    unfold UcpmItem.text at hc
    split at hc
    · exact h.1 c hc
    · rcases List.mem_append.1 hc with hc | hc
      · exact h.1 c hc
      · rcases List.mem_cons.1 hc with rfl | hc
        · exact h61
        · exact h.2 c hc
  intro items
  induction items with
  | nil => intro _ c hc; cases hc
  | cons it rest ih =>
    intro h c hc
    cases rest with
    | nil =>
      rw [ucpmJoin] at hc
      exact htext it (h it List.mem_cons_self) c hc
    | cons it' r =>
      rw [ucpmJoin] at hc
      rcases List.mem_append.1 hc with hc | hc
      · exact htext it (h it List.mem_cons_self) c hc
      · rcases List.mem_cons.1 hc with rfl | hc
        · exact hsep
        · exact ih (fun x hx => h x (List.mem_cons_of_mem _ hx)) c hc

/-! ### the rendering of a URI from its parts -/

/-- the parts of a `sip:` / `sips:` URI of the simplest well-formed shape: scheme, optional `user[:password]@`, a host
    name, optional `:port`, parameter items `name[=value]` (joined with `;`), header items `name[=value]` (joined
    with `&`); names and values are plain tokens (no white space, no quotes) -/
structure UcpmParts where
  sips : Bool
  scheme : List UInt8
  user : List UInt8
  pass : Option (List UInt8)
  host : List UInt8
  port : Option (List UInt8)
  params : List UcpmItem
  hdrs : List UcpmItem

def ucpmUiText (p : UcpmParts) : List UInt8 :=
  if p.user = [] then []
  else match p.pass with
    | none => p.user ++ [64]
    | some pw => p.user ++ 58 :: (pw ++ [64])
def ucpmPoText (p : UcpmParts) : List UInt8 :=
  match p.port with
  | none => []
  | some d => 58 :: d
def ucpmPaText (p : UcpmParts) : List UInt8 := if p.params = [] then [] else 59 :: ucpmJoin 59 p.params
def ucpmHdText (p : UcpmParts) : List UInt8 := if p.hdrs = [] then [] else 63 :: ucpmJoin 38 p.hdrs

/-- the URI text -/
def ucpmText (p : UcpmParts) : List UInt8 :=
  p.scheme ++ (ucpmUiText p ++ (p.host ++ (ucpmPoText p ++ (ucpmPaText p ++ ucpmHdText p))))

def ucpmRaw (p : UcpmParts) : Buf := (ucpmText p).toArray

/-- offsets: start of the host, end of the host, end of the port, end of the parameters -/
def ucpmHs (p : UcpmParts) : Nat := p.scheme.length + (ucpmUiText p).length
def ucpmHe (p : UcpmParts) : Nat := ucpmHs p + p.host.length
def ucpmPe (p : UcpmParts) : Nat := ucpmHe p + (ucpmPoText p).length
def ucpmQe (p : UcpmParts) : Nat := ucpmPe p + (ucpmPaText p).length

def ucpmUserF (p : UcpmParts) : PField := if p.user = [] then ⟨0, 0⟩ else ⟨p.scheme.length, p.user.length⟩
def ucpmPassF (p : UcpmParts) : PField :=
  if p.user = [] then ⟨0, 0⟩
  else match p.pass with
    | none => ⟨0, 0⟩
    | some pw => ⟨p.scheme.length + p.user.length + 1, pw.length⟩
def ucpmPortF (p : UcpmParts) : PField :=
  match p.port with
  | none => ⟨0, 0⟩
  | some d => ⟨ucpmHe p + 1, d.length⟩
def ucpmPortNo (p : UcpmParts) : Nat :=
  match p.port with
  | none => 0
  | some d => decOf d
def ucpmParamsF (p : UcpmParts) : PField :=
  if p.params = [] then ⟨0, 0⟩ else ⟨ucpmPe p + 1, (ucpmJoin 59 p.params).length⟩
def ucpmHdrsF (p : UcpmParts) : PField :=
  if p.hdrs = [] then ⟨0, 0⟩ else ⟨ucpmQe p + 1, (ucpmJoin 38 p.hdrs).length⟩

/-- the URI object ParseURI returns for the rendering -/
def ucpmURI (p : UcpmParts) : PsipURI :=
  { uriType := if p.sips then SIPSuri else SIPuri, scheme := ⟨0, p.scheme.length⟩, user := ucpmUserF p,
    pass := ucpmPassF p, host := ⟨ucpmHs p, p.host.length⟩, port := ucpmPortF p, params := ucpmParamsF p,
    headers := ucpmHdrsF p, portNo := ucpmPortNo p }

/-- host byte: none of `@ : ; ? [ ] &` -/
def ucpmHostCh (c : UInt8) : Bool := ucTok c && !(c == 38)

/-- the side conditions of the rendering -/
structure UcpmOk (p : UcpmParts) : Prop where
  scheme : lowerL p.scheme = if p.sips then [115, 105, 112, 115, 58] else [115, 105, 112, 58]
  user : ∀ c ∈ p.user, ucTok c = true
  passUser : p.user = [] → p.pass = none
  pass : ∀ pw, p.pass = some pw → ∀ c ∈ pw, ucTok c = true
  hostNe : p.host ≠ []
  host : ∀ c ∈ p.host, ucpmHostCh c = true
  port : ∀ d, p.port = some d → (∀ c ∈ d, isDigit c = true) ∧ decOf d ≤ 65535
  params : ∀ it ∈ p.params, UcpmItemOk ucpmPF it
  hdrs : ∀ it ∈ p.hdrs, UcpmItemOk ucpmHF it
  paramsLen : p.params.length ≤ 100
  hdrsLen : p.hdrs.length ≤ 100
  paramsNoDup : UcpmNoDup p.params
  hdrsNoDup : UcpmNoDup p.hdrs
  fit : (ucpmText p).length ≤ 65535

theorem ucpm_size (p : UcpmParts) : (ucpmRaw p).size = ucpmQe p + (ucpmHdText p).length := by
  unfold ucpmRaw ucpmText ucpmQe ucpmPe ucpmHe ucpmHs
  simp only [List.size_toArray, List.length_append]
  omega

theorem ucpm_hd {b : Buf} (p : UcpmParts) (hok : UcpmOk p) (hat : UcpmAt b (ucpmQe p) (ucpmHdText p))
    (hsz : b.size = ucpmQe p + (ucpmHdText p).length) : UcHd b (ucpmQe p) (ucpmHdrsF p) := by
  unfold ucpmHdText at hat hsz
  unfold ucpmHdrsF
  by_cases h : p.hdrs = []
  · rw [if_pos h] at hat hsz ⊢
    exact Or.inl ⟨by simpa using hsz.symm, rfl⟩
  · rw [if_neg h] at hat hsz ⊢
    obtain ⟨h63, h2⟩ := hat.cons
    simp only [List.length_cons] at hsz
    refine Or.inr ⟨h63, ?_, ?_⟩
    · rw [show b.size - (ucpmQe p + 1) = (ucpmJoin 38 p.hdrs).length by omega]
    · rw [show b.size = ucpmQe p + 1 + (ucpmJoin 38 p.hdrs).length by omega]
      refine h2.all (ucpm_join_all ucHdr 38 (by decide) (by decide) p.hdrs (fun it hit => ?_))
      have ho := hok.hdrs it hit
      exact ⟨fun c hc => (ucpm_hdr c (ho.name c hc).1).1, fun c hc => (ucpm_hdr c (ho.val c hc).1).1⟩

theorem ucpm_pa {b : Buf} (p : UcpmParts) (hok : UcpmOk p)
    (hat : UcpmAt b (ucpmPe p) (ucpmPaText p ++ ucpmHdText p))
    (hsz : b.size = ucpmQe p + (ucpmHdText p).length) : UcPa b (ucpmPe p) (ucpmParamsF p) (ucpmHdrsF p) := by
  obtain ⟨h1, h2⟩ := hat.append
  have hhd := ucpm_hd p hok h2 hsz
  have hq : ucpmQe p = ucpmPe p + (ucpmPaText p).length := rfl
  unfold ucpmPaText at h1 hq
  unfold ucpmParamsF
  by_cases h : p.params = []
  · rw [if_pos h] at h1 hq ⊢
    rw [hq] at hhd
    exact Or.inl ⟨rfl, hhd⟩
  · rw [if_neg h] at h1 hq ⊢
    obtain ⟨h59, h3⟩ := h1.cons
    simp only [List.length_cons] at hq
    refine Or.inr ⟨h59, ucpmQe p, by omega, ?_, ?_, hhd⟩
    · rw [show ucpmQe p - (ucpmPe p + 1) = (ucpmJoin 59 p.params).length by omega]
    · rw [show ucpmQe p = ucpmPe p + 1 + (ucpmJoin 59 p.params).length by omega]
      refine h3.all (ucpm_join_all ucPar 59 (by decide) (by decide) p.params (fun it hit => ?_))
      have ho := hok.params it hit
      exact ⟨fun c hc => (ucpm_par c (ho.name c hc).1).1, fun c hc => (ucpm_par c (ho.val c hc).1).1⟩

theorem ucpm_po {b : Buf} (p : UcpmParts) (hok : UcpmOk p)
    (hat : UcpmAt b (ucpmHe p) (ucpmPoText p ++ (ucpmPaText p ++ ucpmHdText p)))
    (hsz : b.size = ucpmQe p + (ucpmHdText p).length) :
    UcPo b (ucpmHe p) (ucpmPortF p) (ucpmPortNo p) (ucpmParamsF p) (ucpmHdrsF p) := by
  obtain ⟨h1, h2⟩ := hat.append
  have hpe : ucpmPe p = ucpmHe p + (ucpmPoText p).length := rfl
  rw [← hpe] at h2
  have hpa := ucpm_pa p hok h2 hsz
  unfold ucpmPoText at h1 hpe
  unfold ucpmPortF ucpmPortNo
  rcases hp : p.port with _ | d
  · rw [hp] at h1 hpe
    simp only [List.length_nil, Nat.add_zero] at hpe
    rw [hpe] at hpa
    exact Or.inl ⟨rfl, rfl, hpa⟩
  · rw [hp] at h1 hpe
    simp only [List.length_cons] at hpe
    obtain ⟨h58, h3⟩ := h1.cons
    obtain ⟨hd, hv⟩ := hok.port d hp
    have hq : ucpmPe p ≤ ucpmQe p := Nat.le_add_right _ _
    have hex : b.extract (ucpmHe p + 1) (ucpmHe p + 1 + d.length) = d.toArray := h3.extract (by omega)
    refine Or.inr ⟨h58, ucpmPe p, by omega, ?_, ?_, ?_, hv, hpa⟩
    · simp only
      rw [show ucpmPe p - (ucpmHe p + 1) = d.length by omega]
    · rw [show ucpmPe p = ucpmHe p + 1 + d.length by omega]
      exact h3.all hd
    · simp only
      unfold digitsOf
      rw [show ucpmPe p = ucpmHe p + 1 + d.length by omega, hex]


theorem ucpm_hostCh_nat : ∀ a, a < 256 → ucpmHostCh (UInt8.ofNat a) = true →
    ucTok (UInt8.ofNat a) = true ∧ ucFirst (UInt8.ofNat a) = true ∧ ucHost0 (UInt8.ofNat a) = true ∧
    ucHost (UInt8.ofNat a) = true := by decide +kernel
theorem ucpm_hostCh (c : UInt8) (h : ucpmHostCh c = true) :
    ucTok c = true ∧ ucFirst c = true ∧ ucHost0 c = true ∧ ucHost c = true := by
  have := ucpm_hostCh_nat c.toNat (UInt8.toNat_lt c)
  simpa using this (by simpa using h)
theorem ucpm_tok_first_nat : ∀ a, a < 256 → ucTok (UInt8.ofNat a) = true → ucFirst (UInt8.ofNat a) = true := by
  decide +kernel
theorem ucpm_tok_first (c : UInt8) (h : ucTok c = true) : ucFirst c = true := by
  have := ucpm_tok_first_nat c.toNat (UInt8.toNat_lt c)
  simpa using this (by simpa using h)

theorem ucpm_lower_cons {l : List UInt8} {a : UInt8} {t : List UInt8} (h : lowerL l = a :: t) :
    ∃ c l', l = c :: l' ∧ lowerB c = a ∧ lowerL l' = t := by
  cases l with
  | nil => simp [lowerL] at h
  | cons c l' =>
    simp only [lowerL, List.map_cons, List.cons.injEq] at h
    exact ⟨c, l', rfl, h.1, h.2⟩

theorem ucpm_firstTok {b : Buf} {k : Nat} {m : List UInt8} (hat : UcpmAt b k m) (hne : m ≠ [])
    (hm : ∀ c ∈ m, ucTok c = true) : UcFirstTok b k (k + m.length) := by
  have hl : 0 < m.length := List.length_pos_iff.2 hne
  have hall := hat.all hm
  exact ⟨by omega, (hall.sub (Nat.le_refl _) (by omega)).mono ucpm_tok_first, hall.sub (by omega) (Nat.le_refl _)⟩

theorem ucpm_rest {b : Buf} (p : UcpmParts) (hok : UcpmOk p)
    (hat : UcpmAt b p.scheme.length (ucpmUiText p ++ (p.host ++ (ucpmPoText p ++ (ucpmPaText p ++ ucpmHdText p)))))
    (hsz : b.size = ucpmQe p + (ucpmHdText p).length) : UcRest b p.scheme.length (ucpmURI p) := by
  obtain ⟨h1, h2⟩ := hat.append
  have hhs : ucpmHs p = p.scheme.length + (ucpmUiText p).length := rfl
  rw [← hhs] at h2
  obtain ⟨h3, h4⟩ := h2.append
  have hhe : ucpmHe p = ucpmHs p + p.host.length := rfl
  rw [← hhe] at h4
  have hpo := ucpm_po p hok h4 hsz
  have hhl : 0 < p.host.length := List.length_pos_iff.2 hok.hostNe
  unfold ucpmUiText at h1 hhs
  by_cases hu : p.user = []
  · rw [if_pos hu] at h1 hhs
    simp only [List.length_nil, Nat.add_zero] at hhs
    left
    refine ⟨by simp only [ucpmURI, ucpmUserF, if_pos hu], by simp only [ucpmURI, ucpmPassF, if_pos hu], ucpmHe p, Or.inl ?_,
      ?_, hpo⟩
    · rw [hhe, hhs]
      rw [hhs] at h3
      exact ucpm_firstTok h3 hok.hostNe (fun c hc => (ucpm_hostCh c (hok.host c hc)).1)
    · show (⟨ucpmHs p, p.host.length⟩ : PField) = _
      rw [hhe, hhs, Nat.add_sub_cancel_left]
  · rw [if_neg hu] at h1 hhs
    have hul : 0 < p.user.length := List.length_pos_iff.2 hu
    right
    have hhost : UcNameHost b (ucpmHs p) (ucpmHe p) := by
      have hall0 := h3.all (fun c hc => (ucpm_hostCh c (hok.host c hc)).2.2.1)
      have hall1 := h3.all (fun c hc => (ucpm_hostCh c (hok.host c hc)).2.2.2)
      rw [← hhe] at hall0 hall1
      exact ⟨by omega, hall0.sub (Nat.le_refl _) (by omega), hall1.sub (by omega) (Nat.le_refl _)⟩
    rcases hp : p.pass with _ | pw
    · rw [hp] at h1 hhs
      simp only [List.length_append, List.length_cons, List.length_nil] at hhs
      obtain ⟨h5, h6⟩ := h1.append
      obtain ⟨h64, _⟩ := h6.cons
      refine ⟨p.scheme.length + p.user.length, ucpmHe p, h64, Or.inl ?_, ?_, ?_, hpo⟩
      · refine ⟨p.scheme.length + p.user.length, ucpm_firstTok h5 hu hok.user, ?_, Or.inl ⟨rfl, ?_⟩⟩
        · simp only [ucpmURI, ucpmUserF, if_neg hu, Nat.add_sub_cancel_left]
        · simp only [ucpmURI, ucpmPassF, if_neg hu, hp]
      · rw [show p.scheme.length + p.user.length + 1 = ucpmHs p by omega]
        exact Or.inl hhost
      · show (⟨ucpmHs p, p.host.length⟩ : PField) = _
        rw [show p.scheme.length + p.user.length + 1 = ucpmHs p by omega, hhe, Nat.add_sub_cancel_left]
    · rw [hp] at h1 hhs
      simp only [List.length_append, List.length_cons, List.length_nil] at hhs
      obtain ⟨h5, h6⟩ := h1.append
      obtain ⟨h58, h7⟩ := h6.cons
      obtain ⟨h8, h9⟩ := h7.append
      obtain ⟨h64, _⟩ := h9.cons
      refine ⟨p.scheme.length + p.user.length + 1 + pw.length, ucpmHe p, h64, Or.inl ?_, ?_, ?_, hpo⟩
      · refine ⟨p.scheme.length + p.user.length, ucpm_firstTok h5 hu hok.user, ?_, Or.inr ⟨h58, by omega, ?_, ?_⟩⟩
        · simp only [ucpmURI, ucpmUserF, if_neg hu, Nat.add_sub_cancel_left]
        · simp only [ucpmURI, ucpmPassF, if_neg hu, hp, Nat.add_sub_cancel_left]
        · exact h8.all (hok.pass pw hp)
      · rw [show p.scheme.length + p.user.length + 1 + pw.length + 1 = ucpmHs p by omega]
        exact Or.inl hhost
      · show (⟨ucpmHs p, p.host.length⟩ : PField) = _
        rw [show p.scheme.length + p.user.length + 1 + pw.length + 1 = ucpmHs p by omega, hhe, Nat.add_sub_cancel_left]

/-- [EXPORT C15] **the rendering is a URI of the grammar of C14, with the components `ucpmURI`** -/
theorem ucpm_ucURI (p : UcpmParts) (hok : UcpmOk p) : UcURI (ucpmRaw p) (ucpmURI p) := by
  have hat : UcpmAt (ucpmRaw p) 0 (ucpmText p) := UcpmAt.self _
  unfold ucpmText at hat
  obtain ⟨h1, h2⟩ := hat.append
  rw [Nat.zero_add] at h2
  have hrest := ucpm_rest p hok h2 (ucpm_size p)
  have hs := hok.scheme
  by_cases hb : p.sips = true
  · rw [if_pos hb] at hs
    obtain ⟨c0, l0, e0, g0, hs⟩ := ucpm_lower_cons hs
    obtain ⟨c1, l1, e1, g1, hs⟩ := ucpm_lower_cons hs
    obtain ⟨c2, l2, e2, g2, hs⟩ := ucpm_lower_cons hs
    obtain ⟨c3, l3, e3, g3, hs⟩ := ucpm_lower_cons hs
    obtain ⟨c4, l4, e4, g4, hs⟩ := ucpm_lower_cons hs
    have e5 := ucpm_lower_nil hs
    have hsch : p.scheme = [c0, c1, c2, c3, c4] := by rw [e0, e1, e2, e3, e4, e5]
    have hlen : p.scheme.length = 5 := by rw [hsch]; rfl
    rw [hsch] at h1
    have g4' := (ucpm_low c4).2.2.2 g4
    right
    refine ⟨⟨⟨c0, c1, c2, c3, h1 0 c0 rfl, h1 1 c1 rfl, h1 2 c2 rfl, h1 3 c3 rfl, (ucpm_low c0).1 g0,
      (ucpm_low c1).2.1 g1, (ucpm_low c2).2.2.1 g2, (ucpm_low c3).1 g3⟩, by rw [← g4']; exact h1 4 c4 rfl⟩, ?_, ?_, ?_⟩
    · simp only [ucpmURI, hb, if_true]
    · simp only [ucpmURI, hlen]
    · rw [← hlen]; exact hrest
  · rw [if_neg hb] at hs
    obtain ⟨c0, l0, e0, g0, hs⟩ := ucpm_lower_cons hs
    obtain ⟨c1, l1, e1, g1, hs⟩ := ucpm_lower_cons hs
    obtain ⟨c2, l2, e2, g2, hs⟩ := ucpm_lower_cons hs
    obtain ⟨c3, l3, e3, g3, hs⟩ := ucpm_lower_cons hs
    have e5 := ucpm_lower_nil hs
    have hsch : p.scheme = [c0, c1, c2, c3] := by rw [e0, e1, e2, e3, e5]
    have hlen : p.scheme.length = 4 := by rw [hsch]; rfl
    rw [hsch] at h1
    have g3' := (ucpm_low c3).2.2.2 g3
    left
    refine ⟨⟨c0, c1, c2, c3, h1 0 c0 rfl, h1 1 c1 rfl, h1 2 c2 rfl, h1 3 c3 rfl, (ucpm_low c0).1 g0,
      (ucpm_low c1).2.1 g1, (ucpm_low c2).2.2.1 g2, by rw [g3']; rfl⟩, ?_, ?_, ?_⟩
    · simp only [ucpmURI, hb, Bool.false_eq_true, if_false]
    · simp only [ucpmURI, hlen]
    · rw [← hlen]; exact hrest

/-- [EXPORT C15] **ParseURI on the rendering**: accepted, consumed to the end, no panic, the components are `ucpmURI` -/
theorem ucpm_parse (p : UcpmParts) (hok : UcpmOk p) :
    parseURI (ucpmRaw p) {} = (UErr.none, (ucpmRaw p).size, ucpmURI p, false) :=
  parseURI_complete _ (by simpa [ucpmRaw] using hok.fit) _ (ucpm_ucURI p hok)


theorem ucpm_get_at {b : Buf} {o : Nat} {m : List UInt8} (hfit : b.size ≤ 65535) (hat : UcpmAt b o m)
    (hle : o + m.length ≤ b.size) : PField.get? b ⟨o, m.length⟩ = some m.toArray := by
  rw [field_get? b o _ hle hfit, hat.extract hle]

theorem ucpm_get_zero {b : Buf} (hfit : b.size ≤ 65535) : PField.get? b ⟨0, 0⟩ = some ([] : List UInt8).toArray := by
  rw [field_get? b 0 0 (Nat.zero_le _) hfit]
  simp

/-- where the pieces of the rendering stand -/
theorem ucpm_segs (p : UcpmParts) :
    UcpmAt (ucpmRaw p) p.scheme.length (ucpmUiText p) ∧ UcpmAt (ucpmRaw p) (ucpmHs p) p.host ∧
    UcpmAt (ucpmRaw p) (ucpmHe p) (ucpmPoText p) ∧ UcpmAt (ucpmRaw p) (ucpmPe p) (ucpmPaText p) ∧
    UcpmAt (ucpmRaw p) (ucpmQe p) (ucpmHdText p) := by
  have hat : UcpmAt (ucpmRaw p) 0 (ucpmText p) := UcpmAt.self _
  unfold ucpmText at hat
  obtain ⟨_, h2⟩ := hat.append
  rw [Nat.zero_add] at h2
  obtain ⟨h3, h4⟩ := h2.append
  obtain ⟨h5, h6⟩ := h4.append
  obtain ⟨h7, h8⟩ := h6.append
  obtain ⟨h9, h10⟩ := h8.append
  exact ⟨h3, h5, h7, h9, h10⟩

/-- the password bytes URICmp reads: none when no password is written -/
def ucpmPassBytes (p : UcpmParts) : List UInt8 :=
  match p.pass with
  | none => []
  | some pw => pw

/-- **the components of the parsed rendering read back as the parts** -/
theorem ucpm_gets (p : UcpmParts) (hok : UcpmOk p) :
    (ucpmURI p).user.get? (ucpmRaw p) = some p.user.toArray ∧
    (ucpmURI p).pass.get? (ucpmRaw p) = some (ucpmPassBytes p).toArray ∧
    (ucpmURI p).host.get? (ucpmRaw p) = some p.host.toArray ∧
    (ucpmURI p).params.get? (ucpmRaw p) = some (ucpmJoin 59 p.params).toArray ∧
    (ucpmURI p).headers.get? (ucpmRaw p) = some (ucpmJoin 38 p.hdrs).toArray := by
  have hfit : (ucpmRaw p).size ≤ 65535 := by simpa [ucpmRaw] using hok.fit
  obtain ⟨s1, s2, s3, s4, s5⟩ := ucpm_segs p
  have hsz := ucpm_size p
  have e1 : ucpmHs p = p.scheme.length + (ucpmUiText p).length := rfl
  have e2 : ucpmHe p = ucpmHs p + p.host.length := rfl
  have e3 : ucpmPe p = ucpmHe p + (ucpmPoText p).length := rfl
  have e4 : ucpmQe p = ucpmPe p + (ucpmPaText p).length := rfl
  refine ⟨?_, ?_, ?_, ?_, ?_⟩
  · show PField.get? _ (ucpmUserF p) = _
    unfold ucpmUserF
    unfold ucpmUiText at s1 e1
    by_cases hu : p.user = []
    · rw [if_pos hu, hu]; exact ucpm_get_zero hfit
    · rw [if_neg hu]
      rw [if_neg hu] at s1 e1
      rcases hp : p.pass with _ | pw
      · rw [hp] at s1 e1
        simp only [List.length_append] at e1
        exact ucpm_get_at hfit s1.append.1 (by omega)
      · rw [hp] at s1 e1
        simp only [List.length_append] at e1
        exact ucpm_get_at hfit s1.append.1 (by omega)
  · show PField.get? _ (ucpmPassF p) = _
    unfold ucpmPassF ucpmPassBytes
    unfold ucpmUiText at s1 e1
    by_cases hu : p.user = []
    · rw [if_pos hu, hok.passUser hu]; exact ucpm_get_zero hfit
    · rw [if_neg hu]
      rw [if_neg hu] at s1 e1
      rcases hp : p.pass with _ | pw
      · exact ucpm_get_zero hfit
      · rw [hp] at s1 e1
        simp only [List.length_append, List.length_cons] at e1
        exact ucpm_get_at hfit s1.append.2.cons.2.append.1 (by omega)
  · exact ucpm_get_at hfit s2 (by omega)
  · show PField.get? _ (ucpmParamsF p) = _
    unfold ucpmParamsF
    unfold ucpmPaText at s4 e4
    by_cases h : p.params = []
    · rw [if_pos h, h]; exact ucpm_get_zero hfit
    · rw [if_neg h]
      rw [if_neg h] at s4 e4
      simp only [List.length_cons] at e4
      exact ucpm_get_at hfit s4.cons.2 (by omega)
  · show PField.get? _ (ucpmHdrsF p) = _
    unfold ucpmHdrsF
    unfold ucpmHdText at s5 hsz
    by_cases h : p.hdrs = []
    · rw [if_pos h, h]; exact ucpm_get_zero hfit
    · rw [if_neg h]
      rw [if_neg h] at s5 hsz
      simp only [List.length_cons] at hsz
      exact ucpm_get_at hfit s5.cons.2 (by omega)

theorem ucpm_join_le (p : UcpmParts) :
    (ucpmJoin 59 p.params).length ≤ (ucpmText p).length ∧ (ucpmJoin 38 p.hdrs).length ≤ (ucpmText p).length := by
  have h1 : (ucpmJoin 59 p.params).length ≤ (ucpmPaText p).length := by
    unfold ucpmPaText
    split
    · rename_i h; rw [h]; exact Nat.le_refl _
    · simp
  have h2 : (ucpmJoin 38 p.hdrs).length ≤ (ucpmHdText p).length := by
    unfold ucpmHdText
    split
    · rename_i h; rw [h]; exact Nat.le_refl _
    · simp
  unfold ucpmText
  simp only [List.length_append]
  omega


/-! ### URIParseCmp on two renderings, in terms of the parts -/

/-- what "equal" means for two renderings, in terms of their parts, under the flag set `f` -/
def UcpmSpec (p q : UcpmParts) (f : Nat) : Prop :=
  (hasFlag f URICmpSkipScheme = true ∨ p.sips = q.sips) ∧
  (hasFlag f URICmpSkipPort = true ∨ ucpmPortNo p = ucpmPortNo q) ∧
  (hasFlag f URICmpSkipUser = true ∨ p.user = q.user) ∧
  (hasFlag f URICmpSkipPass = true ∨ ucpmPassBytes p = ucpmPassBytes q) ∧
  lowerL p.host = lowerL q.host ∧
  (hasFlag f URICmpSkipParams = true ∨ UcpmParamsEqv p.params q.params) ∧
  (hasFlag f URICmpSkipHeaders = true ∨ UcpmHdrsEqv p.hdrs q.hdrs)

theorem ucpm_some_eq {x y : List UInt8} :
    (∃ a c : Buf, some x.toArray = some a ∧ some y.toArray = some c ∧ a = c) ↔ x = y := by
  constructor
  · rintro ⟨a, c, ha, hc, hac⟩
    cases ha; cases hc
    simpa using hac
  · intro h; exact ⟨_, _, rfl, rfl, by rw [h]⟩

theorem ucpm_some_caseEq {x y : List UInt8} :
    (∃ a c : Buf, some x.toArray = some a ∧ some y.toArray = some c ∧ CaseEq a c) ↔ lowerL x = lowerL y := by
  constructor
  · rintro ⟨a, c, ha, hc, hac⟩
    cases ha; cases hc
    exact hac
  · intro h; exact ⟨_, _, rfl, rfl, h⟩

theorem ucpm_paramsPart (p q : UcpmParts) (hp : UcpmOk p) (hq : UcpmOk q) :
    uriCmpParamsPart (ucpmURI p) (ucpmRaw p) (ucpmURI q) (ucpmRaw q) = some true ↔ UcpmParamsEqv p.params q.params := by
  obtain ⟨r, hr, hrs⟩ := ucpm_paramsEq_spec p.params q.params hp.params hq.params hp.paramsLen hq.paramsLen
    (Nat.le_trans (ucpm_join_le p).1 hp.fit) (Nat.le_trans (ucpm_join_le q).1 hq.fit) hq.paramsNoDup
  unfold uriCmpParamsPart
  rw [(ucpm_gets p hp).2.2.2.1, (ucpm_gets q hq).2.2.2.1]
  simp only [hr, Option.map_some, Option.some.injEq]
  rw [hrs]
  exact ucpm_paramsEqv_eff _ _ (fun i hi => (hp.params i hi).ne) (fun i hi => (hq.params i hi).ne)

theorem ucpm_hdrsPart (p q : UcpmParts) (hp : UcpmOk p) (hq : UcpmOk q) :
    uriCmpHdrsPart (ucpmURI p) (ucpmRaw p) (ucpmURI q) (ucpmRaw q) = some true ↔ UcpmHdrsEqv p.hdrs q.hdrs := by
  obtain ⟨r, hr, hrs⟩ := ucpm_hdrsEq_spec p.hdrs q.hdrs hp.hdrs hq.hdrs hp.hdrsLen hq.hdrsLen
    (Nat.le_trans (ucpm_join_le p).2 hp.fit) (Nat.le_trans (ucpm_join_le q).2 hq.fit) hq.hdrsNoDup
  unfold uriCmpHdrsPart
  rw [(ucpm_gets p hp).2.2.2.2, (ucpm_gets q hq).2.2.2.2]
  simp only [hr, Option.map_some, Option.some.injEq]
  rw [hrs]
  exact ucpm_hdrsEqv_eff _ _ (fun i hi => (hp.hdrs i hi).ne) (fun i hi => (hq.hdrs i hi).ne)

/-- URICmp on the two parsed renderings says "equal" exactly when the parts are equal in the sense of `UcpmSpec` -/
theorem ucpm_uriCmp_true_iff (p q : UcpmParts) (hp : UcpmOk p) (hq : UcpmOk q) (f : Nat) :
    uriCmp (ucpmURI p) (ucpmRaw p) (ucpmURI q) (ucpmRaw q) f = some true ↔ UcpmSpec p q f := by
  obtain ⟨gu, gp, gh, _, _⟩ := ucpm_gets p hp
  obtain ⟨gu', gp', gh', _, _⟩ := ucpm_gets q hq
  rw [uriCmp_true_iff, uriCmpShort_true_iff, ucpm_paramsPart p q hp hq, ucpm_hdrsPart p q hp hq, gu, gu', gp, gp', gh,
    gh', ucpm_some_eq, ucpm_some_eq, ucpm_some_caseEq]
  unfold UcpmSpec
  have ht : (ucpmURI p).uriType = (ucpmURI q).uriType ↔ p.sips = q.sips := by
    show (if p.sips then SIPSuri else SIPuri) = (if q.sips then SIPSuri else SIPuri) ↔ _
    cases p.sips <;> cases q.sips <;> decide
  rw [ht]
  show (_ ∧ (_ ∨ ucpmPortNo p = ucpmPortNo q) ∧ _) ∧ _ ↔ _
  constructor
  · rintro ⟨⟨a1, a2, a3, a4, a5⟩, a6, a7⟩
    exact ⟨a1, a2, a3, a4, a5, a6, a7⟩
  · rintro ⟨a1, a2, a3, a4, a5, a6, a7⟩
    exact ⟨⟨a1, a2, a3, a4, a5⟩, a6, a7⟩

/-- [EXPORT C15] **URIParseCmp on two renderings**: no panic, no error, both parsed URIs handed back (they are `ucpmURI`), and the
    verdict is "equal" exactly when the parts are equal in the sense of `UcpmSpec` — for every flag value -/
theorem uriParseCmp_text_spec (p q : UcpmParts) (hp : UcpmOk p) (hq : UcpmOk q) (f : Nat) :
    ∃ r, uriParseCmp (ucpmRaw p) (ucpmRaw q) f = some (r, UErr.none, 0, some (ucpmURI p), some (ucpmURI q)) ∧
      (r = true ↔ UcpmSpec p q f) := by
  have fp : (ucpmRaw p).size ≤ 65535 := by simpa [ucpmRaw] using hp.fit
  have fq : (ucpmRaw q).size ≤ 65535 := by simpa [ucpmRaw] using hq.fit
  have g1 : SrUriGet (ucpmRaw p) (ucpmURI p) := by
    have := srUriGet_parse (ucpmRaw p) fp (by rw [ucpm_parse p hp])
    rw [ucpm_parse p hp] at this
    exact this
  have g2 : SrUriGet (ucpmRaw q) (ucpmURI q) := by
    have := srUriGet_parse (ucpmRaw q) fq (by rw [ucpm_parse q hq])
    rw [ucpm_parse q hq] at this
    exact this
  obtain ⟨r, hr⟩ := uriCmp_some (ucpmURI p) (ucpmRaw p) (ucpmURI q) (ucpmRaw q) f fp fq g1 g2
  refine ⟨r, ?_, ?_⟩
  · rw [uriParseCmp_ok _ _ f (ucpm_parse p hp) (ucpm_parse q hq), hr]
    rfl
  · rw [← ucpm_uriCmp_true_iff p q hp hq f, hr]
    simp


/-! ### the same parts up to order and letter case -/

/-- two item lists hold the same items up to order and up to the letter case of names and values -/
structure UcpmSameItems (l l' : List UcpmItem) : Prop where
  len : l.length = l'.length
  fwd : ∀ i ∈ l, ∃ j ∈ l', lowerL i.name = lowerL j.name ∧ lowerL i.val = lowerL j.val
  bwd : ∀ j ∈ l', ∃ i ∈ l, lowerL i.name = lowerL j.name ∧ lowerL i.val = lowerL j.val

theorem UcpmSameItems.refl (l : List UcpmItem) : UcpmSameItems l l :=
  ⟨rfl, fun i hi => ⟨i, hi, rfl, rfl⟩, fun i hi => ⟨i, hi, rfl, rfl⟩⟩

theorem UcpmSameItems.symm {l l' : List UcpmItem} (h : UcpmSameItems l l') : UcpmSameItems l' l :=
  ⟨h.len.symm, fun j hj => by obtain ⟨i, hi, a, b⟩ := h.bwd j hj; exact ⟨i, hi, a.symm, b.symm⟩,
   fun i hi => by obtain ⟨j, hj, a, b⟩ := h.fwd i hi; exact ⟨j, hj, a.symm, b.symm⟩⟩

/-- a permutation -/
theorem UcpmSameItems.of_perm {l l' : List UcpmItem} (h : l.Perm l') : UcpmSameItems l l' :=
  ⟨h.length_eq, fun i hi => ⟨i, h.mem_iff.1 hi, rfl, rfl⟩, fun i hi => ⟨i, h.mem_iff.2 hi, rfl, rfl⟩⟩

/-- the same items in the same order, names and values re-cased -/
theorem UcpmSameItems.of_all2 {l l' : List UcpmItem}
    (h : UcpmAll2 (fun i j => lowerL i.name = lowerL j.name ∧ lowerL i.val = lowerL j.val) l l') : UcpmSameItems l l' :=
  ⟨ucpm_forall2_length h, ucpm_forall2_left h, ucpm_forall2_right h⟩

/-- `p'` is `p` up to the order of the parameter items and of the header items and up to the letter case of scheme,
    host, parameter names / values and header names / values (the port may be written differently as long as its
    number is the same); user and password are the same bytes -/
structure UcpmSameParts (p p' : UcpmParts) : Prop where
  sips : p.sips = p'.sips
  portNo : ucpmPortNo p = ucpmPortNo p'
  user : p.user = p'.user
  pass : ucpmPassBytes p = ucpmPassBytes p'
  host : lowerL p.host = lowerL p'.host
  params : UcpmSameItems p.params p'.params
  hdrs : UcpmSameItems p.hdrs p'.hdrs

theorem UcpmSameParts.refl (p : UcpmParts) : UcpmSameParts p p :=
  ⟨rfl, rfl, rfl, rfl, rfl, UcpmSameItems.refl _, UcpmSameItems.refl _⟩

theorem UcpmSameParts.symm {p p' : UcpmParts} (h : UcpmSameParts p p') : UcpmSameParts p' p :=
  ⟨h.sips.symm, h.portNo.symm, h.user.symm, h.pass.symm, h.host.symm, h.params.symm, h.hdrs.symm⟩

theorem ucpm_paramsEqv_congr {ps ps' qs qs' : List UcpmItem} (s1 : UcpmSameItems ps ps') (s2 : UcpmSameItems qs qs')
    (h : UcpmParamsEqv ps qs) : UcpmParamsEqv ps' qs' := by
  have key : ∀ {l l' : List UcpmItem}, UcpmSameItems l l' → ∀ s : List UInt8,
      ((∃ i ∈ l, lowerL i.name = s) ↔ (∃ j ∈ l', lowerL j.name = s)) := by
    intro l l' hs s
    constructor
    · rintro ⟨i, hi, h⟩
      obtain ⟨j, hj, a, _⟩ := hs.fwd i hi
      exact ⟨j, hj, a ▸ h⟩
    · rintro ⟨j, hj, h⟩
      obtain ⟨i, hi, a, _⟩ := hs.bwd j hj
      exact ⟨i, hi, a.trans h⟩
  refine ⟨fun s hs => ?_, fun i' hi' j' hj' hn => ?_⟩
  · rw [← key s1 s, ← key s2 s]
    exact h.1 s hs
  · obtain ⟨i, hi, a1, b1⟩ := s1.bwd i' hi'
    obtain ⟨j, hj, a2, b2⟩ := s2.bwd j' hj'
    have := h.2 i hi j hj (a1.trans (hn.trans a2.symm))
    exact b1.symm.trans (this.trans b2)

theorem ucpm_hdrsEqv_congr {hs hs' ks ks' : List UcpmItem} (s1 : UcpmSameItems hs hs') (s2 : UcpmSameItems ks ks')
    (h : UcpmHdrsEqv hs ks) : UcpmHdrsEqv hs' ks' := by
  refine ⟨by rw [← s1.len, ← s2.len]; exact h.1, fun i' hi' => ?_⟩
  obtain ⟨i, hi, a1, b1⟩ := s1.bwd i' hi'
  obtain ⟨k, hk, a2, b2⟩ := h.2 i hi
  obtain ⟨k', hk', a3, b3⟩ := s2.fwd k hk
  exact ⟨k', hk', a1.symm.trans (a2.trans a3), b1.symm.trans (b2.trans b3)⟩

/-- the verdict depends on the parts only up to `UcpmSameParts` -/
theorem ucpm_spec_congr {p p' q q' : UcpmParts} (s1 : UcpmSameParts p p') (s2 : UcpmSameParts q q') (f : Nat) :
    UcpmSpec p q f ↔ UcpmSpec p' q' f := by
  have one : ∀ {p p' q q' : UcpmParts}, UcpmSameParts p p' → UcpmSameParts q q' → UcpmSpec p q f → UcpmSpec p' q' f := by
    intro p p' q q' s1 s2 h
    obtain ⟨a1, a2, a3, a4, a5, a6, a7⟩ := h
    refine ⟨a1.imp id (fun h => ?_), a2.imp id (fun h => ?_), a3.imp id (fun h => ?_), a4.imp id (fun h => ?_), ?_,
      a6.imp id (ucpm_paramsEqv_congr s1.params s2.params), a7.imp id (ucpm_hdrsEqv_congr s1.hdrs s2.hdrs)⟩
    · rw [← s1.sips, ← s2.sips]; exact h
    · rw [← s1.portNo, ← s2.portNo]; exact h
    · rw [← s1.user, ← s2.user]; exact h
    · rw [← s1.pass, ← s2.pass]; exact h
    · rw [← s1.host, ← s2.host]; exact a5
  exact ⟨one s1 s2, one s1.symm s2.symm⟩

theorem ucpm_nodup_eq {l : List UcpmItem} (h : UcpmNoDup l) {i j : UcpmItem} (hi : i ∈ l) (hj : j ∈ l)
    (hn : lowerL i.name = lowerL j.name) : i = j := by
  induction l with
  | nil => cases hi
  | cons a t ih =>
    have hc := List.pairwise_cons.1 h
    rcases List.mem_cons.1 hi with hia | hit
    · rcases List.mem_cons.1 hj with hja | hjt
      · rw [hia, hja]
      · rw [hia] at hn; exact absurd hn (hc.1 j hjt)
    · rcases List.mem_cons.1 hj with hja | hjt
      · rw [hja] at hn; exact absurd hn.symm (hc.1 i hit)
      · exact ih hc.2 hit hjt

theorem ucpm_paramsEqv_refl {l : List UcpmItem} (h : UcpmNoDup l) : UcpmParamsEqv l l :=
  ⟨fun _ _ => Iff.rfl, fun i hi j hj hn => by rw [ucpm_nodup_eq h hi hj hn]⟩

theorem ucpm_hdrsEqv_refl (l : List UcpmItem) : UcpmHdrsEqv l l := ⟨rfl, fun i hi => ⟨i, hi, rfl, rfl⟩⟩

theorem ucpm_spec_refl (p : UcpmParts) (hp : UcpmOk p) (f : Nat) : UcpmSpec p p f :=
  ⟨Or.inr rfl, Or.inr rfl, Or.inr rfl, Or.inr rfl, rfl, Or.inr (ucpm_paramsEqv_refl hp.paramsNoDup),
    Or.inr (ucpm_hdrsEqv_refl _)⟩

/-- [EXPORT C15] **ORDER AND LETTER CASE ON THE TEXT, general form**: the verdict of URIParseCmp on two renderings is unchanged when
    either one is replaced by a rendering of the same parts up to the order of the parameter / header items and the
    letter case of scheme, host, parameter names / values and header names / values; no panic, no error, each call
    hands back the URIs parsed from its own two texts -/
theorem uriParseCmp_congr_text (p p' q q' : UcpmParts) (hp : UcpmOk p) (hp' : UcpmOk p') (hq : UcpmOk q) (hq' : UcpmOk q')
    (s1 : UcpmSameParts p p') (s2 : UcpmSameParts q q') (f : Nat) :
    ∃ r, uriParseCmp (ucpmRaw p) (ucpmRaw q) f = some (r, UErr.none, 0, some (ucpmURI p), some (ucpmURI q)) ∧
      uriParseCmp (ucpmRaw p') (ucpmRaw q') f = some (r, UErr.none, 0, some (ucpmURI p'), some (ucpmURI q')) := by
  obtain ⟨r, hr, hrs⟩ := uriParseCmp_text_spec p q hp hq f
  obtain ⟨r', hr', hrs'⟩ := uriParseCmp_text_spec p' q' hp' hq' f
  have : r' = r := by
    rw [Bool.eq_iff_iff, hrs, hrs']
    exact (ucpm_spec_congr s1 s2 f).symm
  subst this
  exact ⟨r', hr, hr'⟩

/-- [EXPORT C15] … in particular two renderings of the same parts compare EQUAL under every flag set -/
theorem uriParseCmp_same_text (p p' : UcpmParts) (hp : UcpmOk p) (hp' : UcpmOk p') (s : UcpmSameParts p p') (f : Nat) :
    uriParseCmp (ucpmRaw p) (ucpmRaw p') f = some (true, UErr.none, 0, some (ucpmURI p), some (ucpmURI p')) := by
  obtain ⟨r, hr, hrs⟩ := uriParseCmp_text_spec p p' hp hp' f
  have : r = true := hrs.2 ((ucpm_spec_congr (UcpmSameParts.refl p) s f).1 (ucpm_spec_refl p hp f))
  rw [hr, this]


/-! ### the side conditions are kept by a permutation of the items -/

theorem ucpm_join_len (sep : UInt8) (l : List UcpmItem) :
    (ucpmJoin sep l).length + (if l = [] then 0 else 1) = (l.map (fun it => it.text.length + 1)).sum := by
  induction l with
  | nil => rfl
  | cons it rest ih =>
    cases rest with
    | nil => simp [ucpmJoin]
    | cons it' r =>
      rw [ucpmJoin]
      rw [if_neg (by simp)] at ih
      simp only [List.length_append, List.length_cons, List.map_cons, List.sum_cons, List.cons_ne_nil, if_false] at ih ⊢
      omega

theorem ucpm_sepjoin_len_perm (c sep : UInt8) {l l' : List UcpmItem} (h : l.Perm l') :
    (if l = [] then [] else c :: ucpmJoin sep l).length = (if l' = [] then [] else c :: ucpmJoin sep l').length := by
  have hs := (h.map (fun it : UcpmItem => it.text.length + 1)).sum_nat
  have h1 := ucpm_join_len sep l
  have h2 := ucpm_join_len sep l'
  by_cases e : l = []
  · subst e
    rw [← h.nil_eq]
  · have e' : l' ≠ [] := fun e' => e (by subst e'; exact h.eq_nil)
    rw [if_neg e] at h1 ⊢
    rw [if_neg e'] at h2 ⊢
    simp only [List.length_cons]
    omega

theorem ucpm_nodup_perm {l l' : List UcpmItem} (h : l.Perm l') (hn : UcpmNoDup l) : UcpmNoDup l' :=
  (h.pairwise_iff (R := fun i j : UcpmItem => lowerL i.name ≠ lowerL j.name)
    (fun {x y} (hxy : lowerL x.name ≠ lowerL y.name) (e : lowerL y.name = lowerL x.name) => hxy e.symm)).1 hn

/-- [EXPORT C15] reordering the parameter items and the header items keeps the side conditions -/
theorem UcpmOk.perm {p : UcpmParts} (hp : UcpmOk p) {ps' hs' : List UcpmItem} (h1 : p.params.Perm ps')
    (h2 : p.hdrs.Perm hs') : UcpmOk { p with params := ps', hdrs := hs' } where
  scheme := hp.scheme
  user := hp.user
  passUser := hp.passUser
  pass := hp.pass
  hostNe := hp.hostNe
  host := hp.host
  port := hp.port
  params := fun it hit => hp.params it (h1.mem_iff.2 hit)
  hdrs := fun it hit => hp.hdrs it (h2.mem_iff.2 hit)
  paramsLen := by rw [← h1.length_eq]; exact hp.paramsLen
  hdrsLen := by rw [← h2.length_eq]; exact hp.hdrsLen
  paramsNoDup := ucpm_nodup_perm h1 hp.paramsNoDup
  hdrsNoDup := ucpm_nodup_perm h2 hp.hdrsNoDup
  fit := by
    have e1 := ucpm_sepjoin_len_perm 59 59 h1
    have e2 := ucpm_sepjoin_len_perm 63 38 h2
    have hf := hp.fit
    unfold ucpmText at hf ⊢
    simp only [List.length_append] at hf ⊢
    have a1 : (ucpmPaText { p with params := ps', hdrs := hs' }).length = (ucpmPaText p).length := e1.symm
    have a2 : (ucpmHdText { p with params := ps', hdrs := hs' }).length = (ucpmHdText p).length := e2.symm
    have a3 : (ucpmUiText { p with params := ps', hdrs := hs' }).length = (ucpmUiText p).length := rfl
    have a4 : (ucpmPoText { p with params := ps', hdrs := hs' }).length = (ucpmPoText p).length := rfl
    rw [a1, a2, a3, a4]
    exact hf

/-! ### the laws in the words of the property, on the URI text -/

/-- [EXPORT C15] **(2) ORDER OF PARAMETERS AND HEADERS, on the text**: a rendering and the rendering of the same parts with the
    parameter items and / or the header items in another order compare EQUAL under `uriParseCmp` (URIParseCmp /
    URIRawCmp) for every flag set: verdict true, no error, no panic, both parsed URIs handed back. -/
theorem uriParseCmp_perm_text (p : UcpmParts) (hp : UcpmOk p) (ps' hs' : List UcpmItem) (h1 : p.params.Perm ps')
    (h2 : p.hdrs.Perm hs') (f : Nat) :
    uriParseCmp (ucpmRaw p) (ucpmRaw { p with params := ps', hdrs := hs' }) f =
      some (true, UErr.none, 0, some (ucpmURI p), some (ucpmURI { p with params := ps', hdrs := hs' })) ∧
    uriParseCmp (ucpmRaw { p with params := ps', hdrs := hs' }) (ucpmRaw p) f =
      some (true, UErr.none, 0, some (ucpmURI { p with params := ps', hdrs := hs' }), some (ucpmURI p)) := by
  have s : UcpmSameParts p { p with params := ps', hdrs := hs' } :=
    ⟨rfl, rfl, rfl, rfl, rfl, UcpmSameItems.of_perm h1, UcpmSameItems.of_perm h2⟩
  exact ⟨uriParseCmp_same_text p _ hp (hp.perm h1 h2) s f, uriParseCmp_same_text _ p (hp.perm h1 h2) hp s.symm f⟩

/-- `p'` is `p` with other letter case in scheme, host, parameter names / values, header names / values: same user,
    password and port, items in the same order -/
structure UcpmCaseVar (p p' : UcpmParts) : Prop where
  sips : p.sips = p'.sips
  user : p.user = p'.user
  pass : p.pass = p'.pass
  host : lowerL p.host = lowerL p'.host
  port : p.port = p'.port
  params : UcpmAll2 (fun i j => lowerL i.name = lowerL j.name ∧ lowerL i.val = lowerL j.val) p.params p'.params
  hdrs : UcpmAll2 (fun i j => lowerL i.name = lowerL j.name ∧ lowerL i.val = lowerL j.val) p.hdrs p'.hdrs

theorem UcpmCaseVar.same {p p' : UcpmParts} (v : UcpmCaseVar p p') : UcpmSameParts p p' :=
  ⟨v.sips, by unfold ucpmPortNo; rw [v.port], v.user, by unfold ucpmPassBytes; rw [v.pass], v.host,
    UcpmSameItems.of_all2 v.params, UcpmSameItems.of_all2 v.hdrs⟩

/-- [EXPORT C15] **(3) LETTER CASE, on the text**: two renderings that differ only in the letter case of scheme, host, parameter
    names / values and header names / values compare EQUAL for every flag set. -/
theorem uriParseCmp_case_text (p p' : UcpmParts) (hp : UcpmOk p) (hp' : UcpmOk p') (v : UcpmCaseVar p p') (f : Nat) :
    uriParseCmp (ucpmRaw p) (ucpmRaw p') f = some (true, UErr.none, 0, some (ucpmURI p), some (ucpmURI p')) :=
  uriParseCmp_same_text p p' hp hp' v.same f

/-- [EXPORT C15] … and re-casing either side does not change the verdict against any third rendering -/
theorem uriParseCmp_case_text_gen (p p' q q' : UcpmParts) (hp : UcpmOk p) (hp' : UcpmOk p') (hq : UcpmOk q)
    (hq' : UcpmOk q') (v1 : UcpmCaseVar p p') (v2 : UcpmCaseVar q q') (f : Nat) :
    ∃ r, uriParseCmp (ucpmRaw p) (ucpmRaw q) f = some (r, UErr.none, 0, some (ucpmURI p), some (ucpmURI q)) ∧
      uriParseCmp (ucpmRaw p') (ucpmRaw q') f = some (r, UErr.none, 0, some (ucpmURI p'), some (ucpmURI q')) :=
  uriParseCmp_congr_text p p' q q' hp hp' hq hq' v1.same v2.same f

theorem ucpm_verdict_false {p q : UcpmParts} (hp : UcpmOk p) (hq : UcpmOk q) {f : Nat} (h : ¬ UcpmSpec p q f) :
    uriParseCmp (ucpmRaw p) (ucpmRaw q) f = some (false, UErr.none, 0, some (ucpmURI p), some (ucpmURI q)) := by
  obtain ⟨r, hr, hrs⟩ := uriParseCmp_text_spec p q hp hq f
  cases r with
  | false => exact hr
  | true => exact absurd (hrs.1 rfl) h

theorem ucpm_verdict_true {p q : UcpmParts} (hp : UcpmOk p) (hq : UcpmOk q) {f : Nat} (h : UcpmSpec p q f) :
    uriParseCmp (ucpmRaw p) (ucpmRaw q) f = some (true, UErr.none, 0, some (ucpmURI p), some (ucpmURI q)) := by
  obtain ⟨r, hr, hrs⟩ := uriParseCmp_text_spec p q hp hq f
  rw [hr, hrs.2 h]

/-- [EXPORT C15] **(4) USER, on the text**: renderings with different user bytes (e.g. another letter case) compare UNEQUAL when
    the user comparison is not skipped -/
theorem uriParseCmp_user_case_text (p q : UcpmParts) (hp : UcpmOk p) (hq : UcpmOk q) (f : Nat)
    (hf : hasFlag f URICmpSkipUser = false) (hne : p.user ≠ q.user) :
    uriParseCmp (ucpmRaw p) (ucpmRaw q) f = some (false, UErr.none, 0, some (ucpmURI p), some (ucpmURI q)) := by
  apply ucpm_verdict_false hp hq
  rintro ⟨_, _, h, _⟩
  rcases h with h | h
  · rw [hf] at h; cases h
  · exact hne h

/-- [EXPORT C15] **(4) PASSWORD, on the text** -/
theorem uriParseCmp_pass_case_text (p q : UcpmParts) (hp : UcpmOk p) (hq : UcpmOk q) (f : Nat)
    (hf : hasFlag f URICmpSkipPass = false) (hne : ucpmPassBytes p ≠ ucpmPassBytes q) :
    uriParseCmp (ucpmRaw p) (ucpmRaw q) f = some (false, UErr.none, 0, some (ucpmURI p), some (ucpmURI q)) := by
  apply ucpm_verdict_false hp hq
  rintro ⟨_, _, _, h, _⟩
  rcases h with h | h
  · rw [hf] at h; cases h
  · exact hne h

/-- [EXPORT C15] **(4) … unless skipped**: renderings that agree in everything but user and password compare EQUAL when the
    flags skip each of the two that differs -/
theorem uriParseCmp_user_skip_text (p q : UcpmParts) (hp : UcpmOk p) (hq : UcpmOk q) (f : Nat)
    (hu : hasFlag f URICmpSkipUser = true ∨ p.user = q.user)
    (hw : hasFlag f URICmpSkipPass = true ∨ ucpmPassBytes p = ucpmPassBytes q)
    (hs : p.sips = q.sips) (hn : ucpmPortNo p = ucpmPortNo q) (hh : lowerL p.host = lowerL q.host)
    (hpa : UcpmSameItems p.params q.params) (hhd : UcpmSameItems p.hdrs q.hdrs) :
    uriParseCmp (ucpmRaw p) (ucpmRaw q) f = some (true, UErr.none, 0, some (ucpmURI p), some (ucpmURI q)) := by
  apply ucpm_verdict_true hp hq
  exact ⟨Or.inr hs, Or.inr hn, hu, hw, hh,
    Or.inr (ucpm_paramsEqv_congr (UcpmSameItems.refl _) hpa (ucpm_paramsEqv_refl hp.paramsNoDup)),
    Or.inr (ucpm_hdrsEqv_congr (UcpmSameItems.refl _) hhd (ucpm_hdrsEqv_refl _))⟩

/-- [EXPORT C15] **(5) PRESENCE RULE, on the text**: a rendering with a `user` / `ttl` / `method` / `maddr` parameter item (any
    letter case) and a rendering without one compare UNEQUAL, in either order, when the parameters are not skipped -/
theorem uriParseCmp_presence_text (p q : UcpmParts) (hp : UcpmOk p) (hq : UcpmOk q) (f : Nat)
    (hf : hasFlag f URICmpSkipParams = false) (s : List UInt8) (hs : s ∈ [sUser, sTtl, sMethod, sMaddr])
    (h1 : ∃ i ∈ p.params, lowerL i.name = s) (h2 : ¬ ∃ j ∈ q.params, lowerL j.name = s) :
    uriParseCmp (ucpmRaw p) (ucpmRaw q) f = some (false, UErr.none, 0, some (ucpmURI p), some (ucpmURI q)) ∧
    uriParseCmp (ucpmRaw q) (ucpmRaw p) f = some (false, UErr.none, 0, some (ucpmURI q), some (ucpmURI p)) := by
  constructor
  · apply ucpm_verdict_false hp hq
    rintro ⟨_, _, _, _, _, h, _⟩
    rcases h with h | h
    · rw [hf] at h; cases h
    · exact h2 ((h.1 s hs).1 h1)
  · apply ucpm_verdict_false hq hp
    rintro ⟨_, _, _, _, _, h, _⟩
    rcases h with h | h
    · rw [hf] at h; cases h
    · exact h2 ((h.1 s hs).2 h1)

theorem ucpm_paramsEqv_extra {ps : List UcpmItem} {it : UcpmItem} (hn : UcpmNoDup (it :: ps))
    (ho : lowerL it.name ∉ [sUser, sTtl, sMethod, sMaddr]) :
    UcpmParamsEqv ps (it :: ps) ∧ UcpmParamsEqv (it :: ps) ps := by
  have key : ∀ s ∈ [sUser, sTtl, sMethod, sMaddr],
      ((∃ i ∈ ps, lowerL i.name = s) ↔ (∃ j ∈ it :: ps, lowerL j.name = s)) := by
    intro s hs
    constructor
    · rintro ⟨i, hi, h⟩; exact ⟨i, List.mem_cons_of_mem _ hi, h⟩
    · rintro ⟨j, hj, h⟩
      rcases List.mem_cons.1 hj with rfl | hj
      · rw [h] at ho; exact absurd hs ho
      · exact ⟨j, hj, h⟩
  refine ⟨⟨key, fun i hi j hj h => ?_⟩, ⟨fun s hs => (key s hs).symm, fun i hi j hj h => ?_⟩⟩
  · rw [ucpm_nodup_eq hn (List.mem_cons_of_mem _ hi) hj h]
  · rw [ucpm_nodup_eq hn hi (List.mem_cons_of_mem _ hj) h]

/-- [EXPORT C15] **(5) … while a parameter with any OTHER name present in only one of the two does not matter**: a rendering and
    the rendering with one more parameter item (anywhere in the list) whose name is none of user / ttl / method /
    maddr compare EQUAL, in either order, for every flag set -/
theorem uriParseCmp_extra_param_text (p : UcpmParts) (it : UcpmItem) (ps' : List UcpmItem)
    (hperm : (it :: p.params).Perm ps') (hp : UcpmOk p) (hq : UcpmOk { p with params := ps' })
    (ho : lowerL it.name ∉ [sUser, sTtl, sMethod, sMaddr]) (f : Nat) :
    uriParseCmp (ucpmRaw p) (ucpmRaw { p with params := ps' }) f =
      some (true, UErr.none, 0, some (ucpmURI p), some (ucpmURI { p with params := ps' })) ∧
    uriParseCmp (ucpmRaw { p with params := ps' }) (ucpmRaw p) f =
      some (true, UErr.none, 0, some (ucpmURI { p with params := ps' }), some (ucpmURI p)) := by
  have hn : UcpmNoDup (it :: p.params) := ucpm_nodup_perm hperm.symm hq.paramsNoDup
  obtain ⟨e1, e2⟩ := ucpm_paramsEqv_extra hn ho
  have s := UcpmSameItems.of_perm hperm
  constructor
  · apply ucpm_verdict_true hp hq
    exact ⟨Or.inr rfl, Or.inr rfl, Or.inr rfl, Or.inr rfl, rfl,
      Or.inr (ucpm_paramsEqv_congr (UcpmSameItems.refl _) s e1), Or.inr (ucpm_hdrsEqv_refl _)⟩
  · apply ucpm_verdict_true hq hp
    exact ⟨Or.inr rfl, Or.inr rfl, Or.inr rfl, Or.inr rfl, rfl,
      Or.inr (ucpm_paramsEqv_congr s (UcpmSameItems.refl _) e2), Or.inr (ucpm_hdrsEqv_refl _)⟩


/-! ### tests / non-vacuity (closed computations, `decide +kernel`) -/

section UcpmTests

instance ucpmDecPChar (f : Nat) (c : UInt8) : Decidable (PChar f c) :=
  inferInstanceAs (Decidable (tokAllowedChar c f = true ∧ c ≠ tpSep f ∧ c ≠ tpTerm f))

instance ucpmDecItemOk (f : Nat) (it : UcpmItem) : Decidable (UcpmItemOk f it) :=
  decidable_of_iff (it.name ≠ [] ∧ (∀ c ∈ it.name, PChar f c) ∧ (∀ c ∈ it.val, PChar f c))
    ⟨fun ⟨a, b, c⟩ => ⟨a, b, c⟩, fun ⟨a, b, c⟩ => ⟨a, b, c⟩⟩

instance ucpmDecNoDup (l : List UcpmItem) : Decidable (UcpmNoDup l) :=
  inferInstanceAs (Decidable (l.Pairwise (fun i j => lowerL i.name ≠ lowerL j.name)))

/-- the bytes of a string literal -/
def ucpmB (s : String) : List UInt8 := s.toUTF8.data.toList

/-- `sip:Alice:pw@Example.COM:5060;transport=udp;Foo=Bar;lr?a=1&B=2` -/
def ucpmExA : UcpmParts :=
  { sips := false, scheme := ucpmB "sip:", user := ucpmB "Alice", pass := some (ucpmB "pw"), host := ucpmB "Example.COM",
    port := some (ucpmB "5060"),
    params := [⟨ucpmB "transport", ucpmB "udp"⟩, ⟨ucpmB "Foo", ucpmB "Bar"⟩, ⟨ucpmB "lr", []⟩],
    hdrs := [⟨ucpmB "a", ucpmB "1"⟩, ⟨ucpmB "B", ucpmB "2"⟩] }

/-- test: the rendering is the expected text -/
example : ucpmRaw ucpmExA = "sip:Alice:pw@Example.COM:5060;transport=udp;Foo=Bar;lr?a=1&B=2".toUTF8.data := by
  decide +kernel

/-- non-vacuity of `UcpmOk` (a URI with user, password, port, three parameters, two headers) -/
theorem ucpmExA_ok : UcpmOk ucpmExA where
  scheme := by decide +kernel
  user := by decide +kernel
  passUser := by decide +kernel
  pass := fun pw h => by cases h; decide +kernel
  hostNe := by decide +kernel
  host := by decide +kernel
  port := fun d h => by cases h; decide +kernel
  params := by decide +kernel
  hdrs := by decide +kernel
  paramsLen := by decide +kernel
  hdrsLen := by decide +kernel
  paramsNoDup := by decide +kernel
  hdrsNoDup := by decide +kernel
  fit := by decide +kernel

/-- test: evaluation of the model agrees with `ucpm_parse` -/
example : parseURI (ucpmRaw ucpmExA) {} = (UErr.none, 62, ucpmURI ucpmExA, false) := by decide +kernel

/-- `sip:Alice:pw@Example.COM:5060;lr;transport=udp;Foo=Bar?B=2&a=1`: the items in another order -/
example : ucpmRaw { ucpmExA with params := [⟨ucpmB "lr", []⟩, ⟨ucpmB "transport", ucpmB "udp"⟩, ⟨ucpmB "Foo", ucpmB "Bar"⟩],
                                 hdrs := [⟨ucpmB "B", ucpmB "2"⟩, ⟨ucpmB "a", ucpmB "1"⟩] } =
    "sip:Alice:pw@Example.COM:5060;lr;transport=udp;Foo=Bar?B=2&a=1".toUTF8.data := by decide +kernel

/-- `uriParseCmp_perm_text` applied: equal under every flag value -/
example (f : Nat) :
    (uriParseCmp "sip:Alice:pw@Example.COM:5060;transport=udp;Foo=Bar;lr?a=1&B=2".toUTF8.data
      "sip:Alice:pw@Example.COM:5060;lr;transport=udp;Foo=Bar?B=2&a=1".toUTF8.data f).map (·.1) = some true := by
  have h := (uriParseCmp_perm_text ucpmExA ucpmExA_ok
    [⟨ucpmB "lr", []⟩, ⟨ucpmB "transport", ucpmB "udp"⟩, ⟨ucpmB "Foo", ucpmB "Bar"⟩]
    [⟨ucpmB "B", ucpmB "2"⟩, ⟨ucpmB "a", ucpmB "1"⟩]
    (by decide +kernel) (by decide +kernel) f).1
  have e1 : ucpmRaw ucpmExA = "sip:Alice:pw@Example.COM:5060;transport=udp;Foo=Bar;lr?a=1&B=2".toUTF8.data := by
    decide +kernel
  have e2 : ucpmRaw { ucpmExA with
        params := [⟨ucpmB "lr", []⟩, ⟨ucpmB "transport", ucpmB "udp"⟩, ⟨ucpmB "Foo", ucpmB "Bar"⟩],
        hdrs := [⟨ucpmB "B", ucpmB "2"⟩, ⟨ucpmB "a", ucpmB "1"⟩] } =
      "sip:Alice:pw@Example.COM:5060;lr;transport=udp;Foo=Bar?B=2&a=1".toUTF8.data := by decide +kernel
  rw [e1, e2] at h
  rw [h]; rfl


/-- the same URI with other letter case in scheme, host, parameter names / values, header names / values -/
def ucpmExA' : UcpmParts :=
  { sips := false, scheme := ucpmB "SIP:", user := ucpmB "Alice", pass := some (ucpmB "pw"), host := ucpmB "eXAMPLE.com",
    port := some (ucpmB "5060"),
    params := [⟨ucpmB "TRANSPORT", ucpmB "UDP"⟩, ⟨ucpmB "fOO", ucpmB "bAR"⟩, ⟨ucpmB "LR", []⟩],
    hdrs := [⟨ucpmB "A", ucpmB "1"⟩, ⟨ucpmB "b", ucpmB "2"⟩] }

example : ucpmRaw ucpmExA' = "SIP:Alice:pw@eXAMPLE.com:5060;TRANSPORT=UDP;fOO=bAR;LR?A=1&b=2".toUTF8.data := by
  decide +kernel

theorem ucpmExA'_ok : UcpmOk ucpmExA' where
  scheme := by decide +kernel
  user := by decide +kernel
  passUser := by decide +kernel
  pass := fun pw h => by cases h; decide +kernel
  hostNe := by decide +kernel
  host := by decide +kernel
  port := fun d h => by cases h; decide +kernel
  params := by decide +kernel
  hdrs := by decide +kernel
  paramsLen := by decide +kernel
  hdrsLen := by decide +kernel
  paramsNoDup := by decide +kernel
  hdrsNoDup := by decide +kernel
  fit := by decide +kernel

/-- non-vacuity of `UcpmCaseVar` (with real changes everywhere it allows them) -/
theorem ucpmExA_var : UcpmCaseVar ucpmExA ucpmExA' where
  sips := rfl
  user := rfl
  pass := rfl
  host := by decide +kernel
  port := rfl
  params := UcpmAll2.cons (by decide +kernel) (UcpmAll2.cons (by decide +kernel) (UcpmAll2.cons (by decide +kernel)
    UcpmAll2.nil))
  hdrs := UcpmAll2.cons (by decide +kernel) (UcpmAll2.cons (by decide +kernel) UcpmAll2.nil)

/-- `uriParseCmp_case_text` applied -/
example (f : Nat) : uriParseCmp (ucpmRaw ucpmExA) (ucpmRaw ucpmExA') f =
    some (true, UErr.none, 0, some (ucpmURI ucpmExA), some (ucpmURI ucpmExA')) :=
  uriParseCmp_case_text ucpmExA ucpmExA' ucpmExA_ok ucpmExA'_ok ucpmExA_var f

/-- test: evaluation of the model agrees (flags 0) -/
example : (uriParseCmp (ucpmRaw ucpmExA) (ucpmRaw ucpmExA') 0).map (·.1) = some true := by decide +kernel

/-- the user in another letter case: `sip:alice:pw@…` -/
def ucpmExU : UcpmParts := { ucpmExA with user := ucpmB "alice" }

theorem ucpmExU_ok : UcpmOk ucpmExU where
  scheme := by decide +kernel
  user := by decide +kernel
  passUser := by decide +kernel
  pass := fun pw h => by cases h; decide +kernel
  hostNe := by decide +kernel
  host := by decide +kernel
  port := fun d h => by cases h; decide +kernel
  params := by decide +kernel
  hdrs := by decide +kernel
  paramsLen := by decide +kernel
  hdrsLen := by decide +kernel
  paramsNoDup := by decide +kernel
  hdrsNoDup := by decide +kernel
  fit := by decide +kernel

/-- `uriParseCmp_user_case_text` / `uriParseCmp_user_skip_text` applied: unequal unless the user is skipped -/
example (f : Nat) (hf : hasFlag f URICmpSkipUser = false) : uriParseCmp (ucpmRaw ucpmExA) (ucpmRaw ucpmExU) f =
    some (false, UErr.none, 0, some (ucpmURI ucpmExA), some (ucpmURI ucpmExU)) :=
  uriParseCmp_user_case_text ucpmExA ucpmExU ucpmExA_ok ucpmExU_ok f hf (by decide +kernel)
example (f : Nat) (hf : hasFlag f URICmpSkipUser = true) : uriParseCmp (ucpmRaw ucpmExA) (ucpmRaw ucpmExU) f =
    some (true, UErr.none, 0, some (ucpmURI ucpmExA), some (ucpmURI ucpmExU)) :=
  uriParseCmp_user_skip_text ucpmExA ucpmExU ucpmExA_ok ucpmExU_ok f (Or.inl hf) (Or.inr rfl) rfl rfl rfl
    (UcpmSameItems.refl _) (UcpmSameItems.refl _)
/-- test: evaluation of the model agrees -/
example : (uriParseCmp (ucpmRaw ucpmExA) (ucpmRaw ucpmExU) 0).map (·.1) = some false ∧
    (uriParseCmp (ucpmRaw ucpmExA) (ucpmRaw ucpmExU) URICmpSkipUser).map (·.1) = some true := by decide +kernel

/-- one more parameter: `…;transport=udp;Foo=Bar;USER=phone;lr?…` -/
def ucpmExP : UcpmParts :=
  { ucpmExA with params := [⟨ucpmB "transport", ucpmB "udp"⟩, ⟨ucpmB "Foo", ucpmB "Bar"⟩, ⟨ucpmB "USER", ucpmB "phone"⟩,
      ⟨ucpmB "lr", []⟩] }
/-- … and `…;transport=udp;Foo=Bar;x-y;lr?…` -/
def ucpmExX : UcpmParts :=
  { ucpmExA with params := [⟨ucpmB "transport", ucpmB "udp"⟩, ⟨ucpmB "Foo", ucpmB "Bar"⟩, ⟨ucpmB "x-y", []⟩,
      ⟨ucpmB "lr", []⟩] }

theorem ucpmExP_ok : UcpmOk ucpmExP where
  scheme := by decide +kernel
  user := by decide +kernel
  passUser := by decide +kernel
  pass := fun pw h => by cases h; decide +kernel
  hostNe := by decide +kernel
  host := by decide +kernel
  port := fun d h => by cases h; decide +kernel
  params := by decide +kernel
  hdrs := by decide +kernel
  paramsLen := by decide +kernel
  hdrsLen := by decide +kernel
  paramsNoDup := by decide +kernel
  hdrsNoDup := by decide +kernel
  fit := by decide +kernel

theorem ucpmExX_ok : UcpmOk ucpmExX where
  scheme := by decide +kernel
  user := by decide +kernel
  passUser := by decide +kernel
  pass := fun pw h => by cases h; decide +kernel
  hostNe := by decide +kernel
  host := by decide +kernel
  port := fun d h => by cases h; decide +kernel
  params := by decide +kernel
  hdrs := by decide +kernel
  paramsLen := by decide +kernel
  hdrsLen := by decide +kernel
  paramsNoDup := by decide +kernel
  hdrsNoDup := by decide +kernel
  fit := by decide +kernel

/-- `uriParseCmp_presence_text` applied: a `USER` parameter in only one of the two ⇒ unequal, both orders -/
example (f : Nat) (hf : hasFlag f URICmpSkipParams = false) :
    uriParseCmp (ucpmRaw ucpmExP) (ucpmRaw ucpmExA) f =
      some (false, UErr.none, 0, some (ucpmURI ucpmExP), some (ucpmURI ucpmExA)) ∧
    uriParseCmp (ucpmRaw ucpmExA) (ucpmRaw ucpmExP) f =
      some (false, UErr.none, 0, some (ucpmURI ucpmExA), some (ucpmURI ucpmExP)) :=
  uriParseCmp_presence_text ucpmExP ucpmExA ucpmExP_ok ucpmExA_ok f hf sUser (by simp) (by decide +kernel)
    (by decide +kernel)

/-- `uriParseCmp_extra_param_text` applied: an `x-y` parameter in only one of the two does not matter -/
example (f : Nat) :
    uriParseCmp (ucpmRaw ucpmExA) (ucpmRaw ucpmExX) f =
      some (true, UErr.none, 0, some (ucpmURI ucpmExA), some (ucpmURI ucpmExX)) ∧
    uriParseCmp (ucpmRaw ucpmExX) (ucpmRaw ucpmExA) f =
      some (true, UErr.none, 0, some (ucpmURI ucpmExX), some (ucpmURI ucpmExA)) :=
  uriParseCmp_extra_param_text ucpmExA ⟨ucpmB "x-y", []⟩ ucpmExX.params (by decide +kernel) ucpmExA_ok ucpmExX_ok
    (by decide +kernel) f

/-- tests: evaluation of the model agrees (flags 0) -/
example : (uriParseCmp (ucpmRaw ucpmExP) (ucpmRaw ucpmExA) 0).map (·.1) = some false ∧
    (uriParseCmp (ucpmRaw ucpmExA) (ucpmRaw ucpmExX) 0).map (·.1) = some true := by decide +kernel

/-- behaviour worth knowing (tests): an empty password written (`u:@h`) equals no password; a port written with
    leading zeros, `:0` or an empty port `:` equals the same number / no port; header values are compared up to
    letter case; a parameter without value has the empty value -/
example : (uriParseCmp "sip:u@h".toUTF8.data "sip:u:@h".toUTF8.data 0).map (·.1) = some true ∧
    (uriParseCmp "sip:h:5060".toUTF8.data "sip:h:05060".toUTF8.data 0).map (·.1) = some true ∧
    (uriParseCmp "sip:h".toUTF8.data "sip:h:".toUTF8.data 0).map (·.1) = some true ∧
    (uriParseCmp "sip:h?a=X".toUTF8.data "sip:h?A=x".toUTF8.data 0).map (·.1) = some true ∧
    (uriParseCmp "sip:h;lr".toUTF8.data "sip:h;lr=".toUTF8.data 0).map (·.1) = some true ∧
    (uriParseCmp "sip:h;lr".toUTF8.data "sip:h;lr=x".toUTF8.data 0).map (·.1) = some false := by decide +kernel

end UcpmTests
end Sipsp
