/-
  Sipsp.Proofs.ShiftLists — position independence (property C11) of the value-list wrappers
  ParseAllContactValues / `contactsLoop` (Contact) and ParseAllPAIValues / `paisLoop` (P-Asserted-Identity).

  Setting as in Sipsp.Proofs.Shift / ShiftNA: the text `t` is parsed at its own start (buffer `t`, offset `o`) and
  after `k = pre.size` arbitrary bytes (buffer `pre ++ t`, offset `k + o`), with `pre.size + t.size ≤ 65535`.

  THE TRANSLATION. `shCt k c` / `shPa k c`: every element of the list object — the stored values, the element in
  progress, `last`, `first` — is moved with `shNa k` (ShiftNA); the running extent `lastHVal` is moved unless it is
  the zero field (`shO k`, the Go convention "zero value = not set"); counts, header number, min / max expires and the
  panic flag are unchanged. `shCt_new` / `shPa_new`: identity on new objects (any capacity). `shCt_scalars`,
  `shCt_getContact`, `shPa_scalars`, `shPa_getPAI`: what the accessors return for the moved object.

  LEGITIMATE OBJECTS. `CtShift t o c` / `PaShift t o c`: unused slots are zero (`CtClean`), `lastHVal` ends at or before
  some `lo ≤ o` from which on the value of the element in progress lies (`VLo`), and the element in progress is a
  legitimate argument of ParseNameAddrPVal at `o` (`SlEl`: `NaEntry` of SafeNA, the invariant `NaPos` of ShiftNA on set
  positions, and `SlNz`, see below). Holds for new objects of any capacity at any offset (`CtShift_new`,
  `PaShift_new`), for the object returned with MoreBytes at the returned offset (`…_shiftEntry`), in a longer buffer
  (`CtShift.append`), at the start of a new header line after an OK line (`CtShift.start` from `CtIdle`), and follows
  from the invariant `CtSafe` of SafeContacts plus the two position invariants of the element (`CtShift.ofSafe`).

  PROVED (all inputs, any capacity, no size bound other than the 16-bit limit):
  * `slNzFact`: a value completed by ParseNameAddrPVal (OK / MoreValues) is never the zero field (`1 ≤ v.offs + v.len`),
    from any legitimate object — the fact that makes `lastHVal`'s "zero = not set" unambiguous when the text starts at
    buffer offset 0 (invariant `SlNz` through all 33 states: `naStep_slnz`, `naEOH_slnz`).
  * `sl_lhv`, `shCt_account`, `shPa_account`: the `lastHVal` bookkeeping (`isEmpty`, `extend`, `endT` in 16-bit
    arithmetic) commutes with the translation, nothing wraps (bounds from `VLo` / `NaOut`).
  * `contactsLoop_shift`, `parseAllContactValues_shift`, `paisLoop_shift`, `parseAllPAIValues_shift`:
    from a legitimate object the call on `pre ++ t` at `k + o` with the moved object returns the moved result
    (`slCtRes` / `slPaRes`): returned offset + k, the same verdict, and the object is
      - exactly the moved object after OK and MoreBytes (`…_shift_exact`: the plain `shRes k (shCt k)` form),
      - the moved object up to the saved restart offset `soffs` of the element in progress (`ctObsCur` / `paObsCur`)
        after every other verdict: ParseNameAddrPVal does not write that never-reported field on error exits, so it
        is stale (see ShiftNA; a `decide` test below shows the plain form is false there).
    `…_shift_new`: from new objects; `…_shift_resume`: for the call resumed after MoreBytes.
  * `parseOnePAI_shiftX`: ParseOnePAI (the `*` → ErrHdrValBad wrapper).
  NOT proved here: the header-line level (ParseHdrLine / ParseHeaders / ParseSIPMsg), which needs these theorems for
  its Contact / PAI branches.
-/
import Sipsp.Proofs.ShiftNA
import Sipsp.Proofs.SafeContacts
import Sipsp.Proofs.SafePAIs

namespace Sipsp

/-! ### the translation of a contacts object -/

/-- **the contacts object moved by `k`**: every element (stored values, the element in progress, `last`, `first`)
    moved with `shNa k`; the running extent `lastHVal` moved unless it is the zero field; numbers unchanged -/
def shCt (k : Nat) (c : PContacts) : PContacts :=
  { c with vals := c.vals.map (shNa k), last := shNa k c.last, first := shNa k c.first, lastHVal := shO k c.lastHVal }

theorem shCt_new (k m : Nat) : shCt k ({ vals := Array.replicate m {} } : PContacts) = { vals := Array.replicate m {} } := by
  unfold shCt
  simp only [Array.map_replicate, shNa_new, shO_zero]

theorem shCt_cur (k : Nat) (c : PContacts) : (shCt k c).cur = shNa k c.cur := by
  unfold PContacts.cur shCt
  simp only [Array.size_map]
  split
  · rename_i h; simp [h]
  · rfl

theorem shCt_setCur (k : Nat) (c : PContacts) (pf : PFromBody) :
    shCt k (c.setCur pf) = (shCt k c).setCur (shNa k pf) := by
  unfold PContacts.setCur shCt
  simp only [Array.size_map]
  split
  · simp only [Array.set!_eq_setIfInBounds, Array.map_setIfInBounds]
  · rfl

theorem PContacts.slExt {a b : PContacts} (h1 : a.vals = b.vals) (h2 : a.n = b.n) (h3 : a.hNo = b.hNo)
    (h4 : a.maxExpires = b.maxExpires) (h5 : a.minExpires = b.minExpires) (h6 : a.lastHVal = b.lastHVal)
    (h7 : a.last = b.last) (h8 : a.first = b.first) (h9 : a.pnc = b.pnc) : a = b := by
  cases a; cases b; simp_all

/-! ### the running extent of the header value -/

theorem sl_shO_isEmpty (k : Nat) (f : PField) : (shO k f).isEmpty = f.isEmpty := by
  unfold shO; split <;> rfl

theorem sl_shO_of_pos (k : Nat) (f : PField) (h : 1 ≤ f.offs + f.len) : shO k f = shF k f := by
  unfold shO; rw [if_neg (by omega)]

theorem sl_shF_endT (k : Nat) (v : PField) (o' : Nat) (hv : v.inside o') (hfit : k + o' ≤ 65535) :
    (shF k v).endT = k + v.endT := by
  unfold PField.inside at hv
  unfold PField.endT shF trunc16
  simp only
  rw [Nat.mod_eq_of_lt (by omega), Nat.mod_eq_of_lt (by omega)]
  omega

/-- the bookkeeping of `lastHVal` after a completed value whose extent `v` is not the zero field and lies after the
    running extent: nothing wraps, the new extent is the moved one -/
theorem sl_lhv (k : Nat) (L v : PField) (lo o' : Nat) (hL : L.inside lo) (hlo : lo ≤ v.offs) (hv : v.inside o')
    (hfit : k + o' ≤ 65535) (hnz : 1 ≤ v.offs + v.len) :
    (if (shO k L).isEmpty then shF k v else (shO k L).extend (shF k v).endT) =
        shO k (if L.isEmpty then v else L.extend v.endT) ∧
      (shO k L).extendPanics (shF k v).endT = L.extendPanics v.endT := by
  have hend : v.endT = v.offs + v.len := by
    unfold PField.inside at hv; unfold PField.endT; exact trunc16_of_lt (by omega)
  have hL' : L.offs + L.len ≤ lo := hL
  have hv' : v.offs + v.len ≤ o' := hv
  rw [sl_shO_isEmpty, sl_shF_endT k v o' hv hfit]
  refine ⟨?_, ?_⟩
  · by_cases he : L.isEmpty = true
    · rw [if_pos he, if_pos he, sl_shO_of_pos k v hnz]
    · rw [if_neg he, if_neg he]
      have hlen : L.len ≠ 0 := by
        intro h0; apply he; unfold PField.isEmpty; rw [h0]; rfl
      rw [sl_shO_of_pos k L (by omega), extend_shift k L v.endT (by omega) (by omega)]
      rw [sl_shO_of_pos]
      show 1 ≤ L.offs + (trunc16 v.endT + 65536 - L.offs) % 65536
      unfold trunc16
      omega
  · unfold shO
    split
    · rename_i hz
      unfold PField.extendPanics
      rw [hz.1]
      exact decide_eq_decide.mpr ⟨fun h => by omega, fun h => by omega⟩
    · exact extendPanics_shift k L v.endT

theorem sl_shNa_fin_v (k : Nat) (pf : PFromBody) (hf : pf.state = .fin) : (shNa k pf).v = shF k pf.v := by
  rw [shNa_fin k pf hf]

theorem sl_shNa_expires (k : Nat) (pf : PFromBody) : (shNa k pf).expires = pf.expires := rfl

/-- the bookkeeping after a completed value commutes with the translation -/
theorem shCt_account (k : Nat) (c : PContacts) (pf : PFromBody) (lo o' : Nat) (hf : pf.state = .fin)
    (hL : c.lastHVal.inside lo) (hlo : lo ≤ pf.v.offs) (hv : pf.v.inside o') (hfit : k + o' ≤ 65535)
    (hnz : 1 ≤ pf.v.offs + pf.v.len) :
    (shCt k c).account (shNa k pf) = shCt k (c.account pf) := by
  have key := sl_lhv k c.lastHVal pf.v lo o' hL hlo hv hfit hnz
  apply PContacts.slExt
  · rw [account_vals]; show _ = (c.account pf).vals.map (shNa k); rw [account_vals]; rfl
  · rw [account_n]; show _ = (c.account pf).n; rw [account_n]; rfl
  · rw [account_hNo]; show _ = (c.account pf).hNo; rw [account_hNo]; rfl
  · rw [account_maxE]; show _ = (c.account pf).maxExpires; rw [account_maxE]; rfl
  · rw [account_minE]; show _ = (c.account pf).minExpires; rw [account_minE]; rfl
  · rw [account_lhv, sl_shNa_fin_v k pf hf]
    show _ = shO k (c.account pf).lastHVal
    rw [account_lhv]
    exact key.1
  · rw [account_last]; show _ = shNa k (c.account pf).last; rw [account_last]; rfl
  · rw [account_first]; show _ = shNa k (c.account pf).first; rw [account_first]
    show (if c.n = 0 ∧ (c.vals.map (shNa k)).size = 0 then shNa k pf else shNa k c.first) = _
    rw [Array.size_map]
    split <;> rfl
  · rw [account_pnc, sl_shNa_fin_v k pf hf]
    show _ = (c.account pf).pnc
    rw [account_pnc]
    show (if (shO k c.lastHVal).isEmpty then c.pnc else _) = _
    rw [sl_shO_isEmpty]
    show (if c.lastHVal.isEmpty then c.pnc else (c.pnc || (shO k c.lastHVal).extendPanics (shF k pf.v).endT)) = _
    rw [key.2]

/-! ### the value of a completed element is not the zero field -/

/-- states in which the end-of-header code reports the value field as it is (without extending it) -/
def slS : FBState → Bool
  | .nameOrURIEnd | .uriFound | .star | .fin => true
  | _ => false

/-- in those states the value field is not the zero field (so "zero = not set" is unambiguous for `lastHVal`) -/
def SlNz (pf : PFromBody) : Prop := slS pf.state = true → 1 ≤ pf.v.offs + pf.v.len

theorem SlNz_new : SlNz {} := by intro h; cases h

/-- the statement proved in this section (`slNzFact`): a completed value is not the zero field; after MoreBytes
    `SlNz` holds again -/
def SlNzFact : Prop :=
  ∀ (h : Nat) (t : Buf) (o : Nat) (pf : PFromBody), t.size ≤ 65535 → NaEntry t o pf →
    (pf.state ≠ .fin → NaPos o (naLoad pf)) → SlNz pf →
    ∀ {o' : Nat} {e : Err} {pf' : PFromBody}, parseNameAddrPVal h t o pf = (o', e, pf') →
      (Err.complete e → 1 ≤ pf'.v.offs + pf'.v.len) ∧ (e = .moreBytes → SlNz pf')


theorem sl_ext (f : PField) (e : Nat) (h1 : f.offs ≤ e) (h2 : 1 ≤ e) (h3 : e ≤ 65535) :
    1 ≤ (f.extend e).offs + (f.extend e).len := by
  unfold PField.extend trunc16; simp only; omega

/-- what a step has to establish -/
def SlStepOK : Step PFromBody → Prop
  | .cont _ st => SlNz st
  | .done _ e st => (Err.complete e → 1 ≤ st.v.offs + st.v.len) ∧ (e = .moreBytes → SlNz st)

theorem SlNz.ofState {pf : PFromBody} (h : slS pf.state = false) : SlNz pf := fun hh => by rw [h] at hh; cases hh

theorem SlStepOK.err {o : Nat} {e : Err} {st : PFromBody} (h1 : e ≠ .ok) (h2 : e ≠ .moreValues) (h3 : e ≠ .moreBytes) :
    SlStepOK (.done o e st) :=
  ⟨(fun hc => by rcases hc with hc | hc; exact absurd hc h1; exact absurd hc h2), fun hh => absurd hh h3⟩

theorem SlStepOK.more {o : Nat} {st : PFromBody} (h : SlNz st) : SlStepOK (.done o .moreBytes st) :=
  ⟨(fun hc => by rcases hc with hc | hc <;> cases hc), fun _ => h⟩

theorem sl_naEOHParamName_v (b : Buf) (pf : PFromBody) (e : Nat) : (naEOHParamName b pf e).v = pf.v.extend e := by
  unfold naEOHParamName
  simp only
  show PField.extend _ e = _
  congr 1
  repeat' split
  all_goals first
    | rfl
    | (simp only [PFromBody.extParams, setFromParamVal_v])

theorem naEOH_slnz (h : Nat) (b : Buf) (pf : PFromBody) (e n crl : Nat) (r : Err) (hN : SlNz pf)
    (he1 : pf.state ≠ .init → 1 ≤ e) (hv : pf.v.offs ≤ e) (he : e ≤ 65535)
    (hc : Err.complete (naEOH h b pf e n crl r).2.1) :
    1 ≤ (naEOH h b pf e n crl r).2.2.v.offs + (naEOH h b pf e n crl r).2.2.v.len := by
  have hx := sl_ext pf.v e hv
  unfold naEOH at hc ⊢
  cases hst : pf.state <;> simp only [hst, naFinish] at hc ⊢
  all_goals first
    | (rcases hc with hc | hc <;> (cases hc; done))
    | exact hN (by rw [hst]; rfl)
    | (rw [sl_naEOHParamName_v]; exact hx (he1 (by rw [hst]; decide)) he)
    | (simp only [naEOHVal, PFromBody.extV, PFromBody.extParams, PFromBody.setURI, setFromParamVal_v]
       exact hx (he1 (by rw [hst]; decide)) he)

theorem naLWS_slnz (h : Nat) (b : Buf) (i : Nat) (pf : PFromBody) (hi : i ≤ 65535) (hN : SlNz pf)
    (he1 : pf.state ≠ .init → 1 ≤ i) (hv : pf.v.offs ≤ i) : SlStepOK (naLWS h b i pf) := by
  unfold naLWS lwsStd
  rcases hsk : skipLWS b i 0 with ⟨n, crl, e1⟩
  have hv' := skipLWS_verdicts b i 0 hsk
  rcases hv' with rfl | rfl | rfl | rfl <;> simp only
  · exact hN
  · exact ⟨naEOH_slnz h b pf i n crl .ok hN he1 hv hi,
      fun hh => absurd hh (naEOH_ne_more h b pf i n crl .ok (by decide))⟩
  · exact SlStepOK.err (by decide) (by decide) (by decide)
  · exact SlStepOK.more hN

theorem naMoreValues_slnz (h : Nat) (b : Buf) (pf : PFromBody) (i : Nat) (hi : i ≤ 65535) (hN : SlNz pf)
    (he1 : pf.state ≠ .init → 1 ≤ i) (hv : pf.v.offs ≤ i) : SlStepOK (naMoreValues h b pf i) := by
  unfold naMoreValues
  exact ⟨naEOH_slnz h b pf i i 1 .moreValues hN he1 hv hi,
    fun hh => absurd hh (naEOH_ne_more h b pf i i 1 .moreValues (by decide))⟩

theorem naCommaAfterWS_slnz (h : Nat) (b : Buf) (pf : PFromBody) (i e : Nat) (he : e ≤ 65535) (hN : SlNz pf)
    (he1 : pf.state ≠ .init → 1 ≤ e) (hv : pf.v.offs ≤ e) : SlStepOK (naCommaAfterWS h b pf i e) := by
  unfold naCommaAfterWS
  split
  · exact ⟨naEOH_slnz h b pf e i 1 .moreValues hN he1 hv he,
      fun hh => absurd hh (naEOH_ne_more h b pf e i 1 .moreValues (by decide))⟩
  · exact SlStepOK.err (by decide) (by decide) (by decide)

theorem naStepA_slnz (h : Nat) (b : Buf) (i : Nat) (c : UInt8) (pf : PFromBody)
    (hg : pf.state = .init ∨ pf.state = .name ∨ pf.state = .nameOrURI ∨ pf.state = .nameOrURIEnd)
    (hi : i + 1 ≤ 65535) (hv : pf.v.offs ≤ i) (h1 : pf.state ≠ .init → 1 ≤ i) (hN : SlNz pf) :
    SlStepOK (naStepA h b i c pf) := by
  have hx := sl_ext pf.v
  unfold naStepA
  rcases hg with hst | hst | hst | hst
  all_goals
    st_goal hst
    repeat' split
    all_goals first
      | exact naLWS_slnz h b i _ (by omega) hN h1 hv
      | exact naLWS_slnz h b i _ (by omega) (fun _ => hx i hv (h1 (by rw [hst]; decide)) (by omega))
          (fun _ => h1 (by rw [hst]; decide)) hv
      | exact naMoreValues_slnz h b pf i (by omega) hN h1 hv
      | exact SlStepOK.err (by decide) (by decide) (by decide)
      | exact hN
      | (show SlNz _; exact SlNz.ofState rfl)
      | (show SlNz _
         intro _
         show 1 ≤ (PField.set i (i + 1)).offs + (PField.set i (i + 1)).len
         unfold PField.set trunc16
         simp only
         omega)

theorem naStepQ_slnz (h : Nat) (b : Buf) (i : Nat) (c : UInt8) (pf : PFromBody)
    (hg : pf.state = .quoted ∨ pf.state = .quotedVal ∨ pf.state = .quotedPossibleVal)
    (hi : i + 1 ≤ 65535) (hv : pf.v.offs ≤ i) (h1 : pf.state ≠ .init → 1 ≤ i) (hN : SlNz pf) :
    SlStepOK (naStepQ h b i c pf) := by
  unfold naStepQ
  rcases hg with hst | hst | hst
  all_goals
    st_goal hst
    repeat' split
    all_goals first
      | exact naLWS_slnz h b i _ (by omega) hN h1 hv
      | exact SlStepOK.err (by decide) (by decide) (by decide)
      | exact SlStepOK.more hN
      | exact hN
      | (show SlNz _; exact SlNz.ofState rfl)

theorem naStepU_slnz (i : Nat) (c : UInt8) (pf : PFromBody) (hi : i + 1 ≤ 65535) (hv : pf.v.offs ≤ i) (hN : SlNz pf) :
    SlStepOK (naStepU i c pf) := by
  have hx := sl_ext pf.v
  unfold naStepU
  repeat' split
  all_goals first
    | exact SlStepOK.err (by decide) (by decide) (by decide)
    | exact hN
    | (show SlNz _
       intro _
       exact hx (i + 1) (by omega) (by omega) (by omega))

theorem naStepUF_slnz (h : Nat) (b : Buf) (i : Nat) (c : UInt8) (pf : PFromBody)
    (hi : i + 1 ≤ 65535) (hv : pf.v.offs ≤ i) (h1 : pf.state ≠ .init → 1 ≤ i) (hN : SlNz pf) :
    SlStepOK (naStepUF h b i c pf) := by
  unfold naStepUF
  repeat' split
  all_goals first
    | exact naLWS_slnz h b i _ (by omega) hN h1 hv
    | exact naMoreValues_slnz h b pf i (by omega) hN h1 hv
    | exact hN
    | (show SlNz _; exact SlNz.ofState rfl)

theorem naStepStar_slnz (h : Nat) (b : Buf) (i : Nat) (c : UInt8) (pf : PFromBody)
    (hi : i + 1 ≤ 65535) (hv : pf.v.offs ≤ i) (h1 : pf.state ≠ .init → 1 ≤ i) (hN : SlNz pf) :
    SlStepOK (naStepStar h b i c pf) := by
  unfold naStepStar
  split
  · exact naLWS_slnz h b i _ (by omega) hN h1 hv
  · exact SlStepOK.err (by decide) (by decide) (by decide)

theorem sl_naNameWS_sv (pf : PFromBody) (i : Nat) (hs : slS pf.state = false) :
    slS (naNameWS pf i).state = false ∧ (naNameWS pf i).v = pf.v := by
  unfold naNameWS
  repeat' split
  all_goals first
    | exact ⟨hs, rfl⟩
    | exact ⟨rfl, rfl⟩

theorem sl_naValWS_sv (pf : PFromBody) (i n : Nat) (ok : Bool) (hs : slS pf.state = false) :
    slS (naValWS pf i n ok).state = false ∧ (naValWS pf i n ok).v = pf.v := by
  unfold naValWS
  repeat' split
  all_goals first
    | exact ⟨hs, rfl⟩
    | exact ⟨rfl, rfl⟩

theorem sl_naParam_sv (pf : PFromBody) (i : Nat) (hs : slS pf.state = false) :
    slS (naParamsOffs (naParamStart pf i) i).state = false := by
  unfold naParamsOffs naParamStart
  repeat' split
  all_goals first
    | exact hs
    | rfl

/-- the white-space branch of the parameter-name / parameter-value states -/
theorem naPV_site_slnz (h : Nat) (b : Buf) (i : Nat) (pf pf1 : PFromBody) (hi : i ≤ 65535) (hi1 : 1 ≤ i)
    (hN : SlNz pf) (hs1 : slS pf1.state = false) (hv1 : pf1.v.offs ≤ i) :
    SlStepOK (match skipLWS b i 0 with
      | (_, _, .moreBytes) => Step.done i .moreBytes pf.saveS
      | (n, _, .ok) => .cont n pf1
      | (n, crl, .eoh) => let r := naEOH h b pf1 i n crl .ok; .done r.1 r.2.1 r.2.2
      | (n, _, e) => .done n e pf1) := by
  rcases hsk : skipLWS b i 0 with ⟨n, crl, e1⟩
  have hv' := skipLWS_verdicts b i 0 hsk
  rcases hv' with rfl | rfl | rfl | rfl <;> simp only
  · exact SlNz.ofState hs1
  · exact ⟨naEOH_slnz h b pf1 i n crl .ok (SlNz.ofState hs1) (fun _ => hi1) hv1 hi,
      fun hh => absurd hh (naEOH_ne_more h b pf1 i n crl .ok (by decide))⟩
  · exact SlStepOK.err (by decide) (by decide) (by decide)
  · exact SlStepOK.more hN

theorem naStepP_slnz (h : Nat) (b : Buf) (i : Nat) (c : UInt8) (pf : PFromBody)
    (hg : pf.state = .newParam ∨ pf.state = .newPossibleParam ∨ pf.state = .paramName ∨ pf.state = .possibleParamName)
    (hi : i + 1 ≤ 65535) (hv : pf.v.offs ≤ i) (h1 : pf.state ≠ .init → 1 ≤ i) (hN : SlNz pf) :
    SlStepOK (naStepP h b i c pf) := by
  have hs : slS pf.state = false := by rcases hg with g | g | g | g <;> rw [g] <;> rfl
  have hi1 : 1 ≤ i := h1 (by rcases hg with g | g | g | g <;> rw [g] <;> decide)
  unfold naStepP
  split
  · have := sl_naNameWS_sv pf i hs
    exact naPV_site_slnz h b i pf (naNameWS pf i) (by omega) hi1 hN this.1 (by rw [this.2]; exact hv)
  · rcases hg with hst | hst | hst | hst
    all_goals
      st_goal hst
      repeat' split
      all_goals first
        | exact naMoreValues_slnz h b pf i (by omega) hN h1 hv
        | exact SlStepOK.err (by decide) (by decide) (by decide)
        | exact hN
        | (show SlNz _; exact SlNz.ofState rfl)
        | (show SlNz _; exact SlNz.ofState (by rw [setFromParamVal_state]; rfl))
        | (show SlNz _; exact SlNz.ofState (sl_naParam_sv pf i hs))

theorem naStepPE_slnz (h : Nat) (b : Buf) (i : Nat) (c : UInt8) (pf : PFromBody)
    (hg : pf.state = .paramNameEnd ∨ pf.state = .possibleParamNameEnd)
    (hpe : pf.v.offs ≤ pf.pend) (hpe1 : 1 ≤ pf.pend) (hpe2 : pf.pend ≤ 65535) (hN : SlNz pf) :
    SlStepOK (naStepPE h b i c pf) := by
  unfold naStepPE
  rcases hg with hst | hst
  all_goals
    st_goal hst
    repeat' split
    all_goals first
      | exact naCommaAfterWS_slnz h b pf i pf.pend hpe2 hN (fun _ => hpe1) hpe
      | exact SlStepOK.err (by decide) (by decide) (by decide)
      | (show SlNz _; exact SlNz.ofState rfl)
      | (show SlNz _; exact SlNz.ofState (by rw [setFromParamVal_state]; rfl))

theorem naStepVE_slnz (h : Nat) (b : Buf) (i : Nat) (c : UInt8) (pf : PFromBody)
    (hg : pf.state = .paramValEnd ∨ pf.state = .possibleValEnd)
    (hve : pf.v.offs ≤ pf.vend) (hve1 : 1 ≤ pf.vend) (hve2 : pf.vend ≤ 65535) (hN : SlNz pf) :
    SlStepOK (naStepVE h b i c pf) := by
  unfold naStepVE
  rcases hg with hst | hst
  all_goals
    st_goal hst
    repeat' split
    all_goals first
      | exact naCommaAfterWS_slnz h b pf i pf.vend hve2 hN (fun _ => hve1) hve
      | exact SlStepOK.err (by decide) (by decide) (by decide)
      | (show SlNz _; exact SlNz.ofState rfl)
      | (show SlNz _; exact SlNz.ofState (by rw [setFromParamVal_state]; rfl))

theorem naStepV_slnz (h : Nat) (b : Buf) (i : Nat) (c : UInt8) (pf : PFromBody)
    (hg : pf.state = .newParamVal ∨ pf.state = .newPossibleVal ∨ pf.state = .paramVal ∨ pf.state = .possibleVal)
    (hi : i + 1 ≤ 65535) (hv : pf.v.offs ≤ i) (h1 : pf.state ≠ .init → 1 ≤ i) (hN : SlNz pf) :
    SlStepOK (naStepV h b i c pf) := by
  have hs : slS pf.state = false := by rcases hg with g | g | g | g <;> rw [g] <;> rfl
  have hi1 : 1 ≤ i := h1 (by rcases hg with g | g | g | g <;> rw [g] <;> decide)
  unfold naStepV
  split
  · rcases hsk : skipLWS b i 0 with ⟨n, crl, e1⟩
    have hv' := skipLWS_verdicts b i 0 hsk
    have t1 := sl_naValWS_sv pf i n true hs
    have t2 := sl_naValWS_sv pf i n false hs
    rcases hv' with rfl | rfl | rfl | rfl <;> simp only
    · exact SlNz.ofState t1.1
    · exact ⟨naEOH_slnz h b _ i n crl .ok (SlNz.ofState t2.1) (fun _ => hi1) (by rw [t2.2]; exact hv) (by omega),
        fun hh => absurd hh (naEOH_ne_more h b _ i n crl .ok (by decide))⟩
    · exact SlStepOK.err (by decide) (by decide) (by decide)
    · exact SlStepOK.more hN
  · rcases hg with hst | hst | hst | hst
    all_goals
      st_goal hst
      repeat' split
      all_goals first
        | exact naMoreValues_slnz h b pf i (by omega) hN h1 hv
        | exact SlStepOK.err (by decide) (by decide) (by decide)
        | exact hN
        | (show SlNz _; exact SlNz.ofState rfl)
        | (show SlNz _; exact SlNz.ofState (by rw [setFromParamVal_state]; rfl))

theorem naStep_slnz (h : Nat) (b : Buf) (i : Nat) (c : UInt8) (pf : PFromBody) (hb : b[i]? = some c)
    (hfit : b.size ≤ 65535) (hS : NaSafe b i pf) (hP : NaPos i pf) (hN : SlNz pf) : SlStepOK (naStep h b i c pf) := by
  have hlt := get?_lt hb
  have hi : i + 1 ≤ 65535 := by omega
  have hv : pf.v.offs ≤ i := hS.toNaCore.voffs
  have h1 := hP.pos
  have hpe := hS.pend
  have hve := hS.vend
  unfold naStep
  cases hst : pf.state <;> simp only
  all_goals first
    | exact naStepA_slnz h b i c pf (by simp [hst]) hi hv h1 hN
    | exact naStepQ_slnz h b i c pf (by simp [hst]) hi hv h1 hN
    | exact naStepU_slnz i c pf hi hv hN
    | exact naStepUF_slnz h b i c pf hi hv h1 hN
    | exact naStepP_slnz h b i c pf (by simp [hst]) hi hv h1 hN
    | exact naStepPE_slnz h b i c pf (by simp [hst]) (hS.endP (by simp [hst])).1
        (by have := (hS.endP (by simp [hst])).2; have := (hP.started (by rw [hst]; rfl)).1; omega) (by omega) hN
    | exact naStepV_slnz h b i c pf (by simp [hst]) hi hv h1 hN
    | exact naStepVE_slnz h b i c pf (by simp [hst]) (hS.endV (by simp [hst])).1
        (by have := (hS.endV (by simp [hst])).2; have := (hP.started (by rw [hst]; rfl)).1; omega) (by omega) hN
    | exact naStepStar_slnz h b i c pf hi hv h1 hN
    | exact hN

/-- **a completed value is never the zero field** (65,535-byte limit), and after MoreBytes the invariant holds again -/
theorem slNzFact : SlNzFact := by
  intro h t o pf hfit hE hpos hN o' e pf' hr
  by_cases hf : pf.state = .fin
  · unfold parseNameAddrPVal at hr
    rw [if_pos hf] at hr
    cases hr
    exact ⟨fun _ => hN (by rw [hf]; rfl), fun hh => by cases hh⟩
  · rcases hE with hE | hE
    · exact absurd hE.1 hf
    · rw [parseNameAddrPVal_notfin h t o pf hf] at hr
      have key := runLoop_inv (naMachine h) t (fun i st => NaSafe t i st ∧ NaPos i st ∧ SlNz st)
        (fun r => (Err.complete r.2.1 → 1 ≤ r.2.2.v.offs + r.2.2.v.len) ∧ (r.2.1 = .moreBytes → SlNz r.2.2))
        (by
          intro i c st i' st' hb hI hs
          refine ⟨fun hlt => ⟨na_safeCont h t i c st i' st' hb hI.1 hs hlt, na_posCont h t i c st hb hfit hI.2.1 hs, ?_⟩,
            fun _ => ⟨(fun hc => by rcases hc with hc | hc <;> cases hc), fun hh => by cases hh⟩⟩
          have := naStep_slnz h t i c st hb hfit hI.1 hI.2.1 hI.2.2
          rw [show naStep h t i c st = _ from hs] at this
          exact this)
        (by
          intro i c st o1 e1 st1 hb hI hs
          have := naStep_slnz h t i c st hb hfit hI.1 hI.2.1 hI.2.2
          rw [show naStep h t i c st = _ from hs] at this
          exact this)
        (by
          intro i st _ hI
          exact ⟨(fun hc => by rcases hc with hc | hc <;> cases hc), fun _ => hI.2.2⟩)
        o (naLoad pf) ⟨hE.2, hpos hf, hN⟩
      rcases hl : runLoop (naMachine h) t o (naLoad pf) with ⟨o1, e1, p1⟩
      rw [hl] at key hr
      simp only [naWrap, Prod.mk.injEq] at hr
      obtain ⟨rfl, rfl, rfl⟩ := hr
      have ev : ∀ s e p, (naExit s e p).v = p.v := by
        intro s e p; unfold naExit; split <;> rfl
      refine ⟨fun hc => by rw [ev]; exact key.1 hc, fun hm hh => ?_⟩
      rw [ev]
      rw [naExit_state] at hh
      exact key.2 hm hh

/-! ### one element -/

/-- what the list theorems need of the element in progress, at offset `o`, with `lo` a lower bound of its value -/
structure SlEl (t : Buf) (o lo : Nat) (pf : PFromBody) : Prop where
  ho : o ≤ t.size
  entry : NaEntry t o pf
  pos : pf.state ≠ .fin → NaPos o (naLoad pf)
  nz : SlNz pf
  le : lo ≤ o
  vlo : VLo lo pf

theorem SlEl_new (t : Buf) (o lo : Nat) (ho : o ≤ t.size) (hlo : lo ≤ o) : SlEl t o lo {} := by
  refine ⟨ho, NaEntry_new t o ho, fun _ => ?_, SlNz_new, hlo, Or.inl rfl⟩
  rcases NaShiftEntry_new t o ho with hh | hh
  · cases hh
  · exact hh.2

theorem SlEl.shiftEntry {t : Buf} {o lo : Nat} {pf : PFromBody} (h : SlEl t o lo pf) : NaShiftEntry t o pf := by
  by_cases hf : pf.state = .fin
  · exact Or.inl hf
  · rcases h.entry with he | he
    · exact absurd he.1 hf
    · exact Or.inr ⟨he.2, h.pos hf⟩

/-- facts about the result of parsing one element -/
structure SlOne (t : Buf) (o lo next : Nat) (e : Err) (pf : PFromBody) : Prop where
  out : NaOut t next pf
  fin : Err.complete e → pf.state = .fin ∧ o ≤ next ∧ lo ≤ pf.v.offs ∧ 1 ≤ pf.v.offs + pf.v.len
  more : e = .moreBytes → SlEl t next lo pf ∧ o ≤ next

theorem sl_one (h : Nat) (t : Buf) (o lo : Nat) (pf : PFromBody) (hfit : t.size ≤ 65535)
    (hel : SlEl t o lo pf) {next : Nat} {e : Err} {pf' : PFromBody}
    (hr : parseNameAddrPVal h t o pf = (next, e, pf')) : SlOne t o lo next e pf' := by
  have hsafe := parseNameAddrPVal_safe h t o pf hel.entry hr
  have hnz := slNzFact h t o pf hfit hel.entry hel.pos hel.nz hr
  have hvd : VDone lo e pf' := by
    by_cases hf : pf.state = .fin
    · have : parseNameAddrPVal h t o pf = (o, .ok, pf) := by
        unfold parseNameAddrPVal; rw [if_pos hf]
      rw [this] at hr
      simp only [Prod.mk.injEq] at hr
      obtain ⟨rfl, rfl, rfl⟩ := hr
      refine ⟨fun _ => ?_, (fun hh => by cases hh)⟩
      rcases hel.vlo with h0 | h0
      · rw [hf] at h0; cases h0
      · exact h0
    · exact parseNameAddrPVal_vlo h t o lo pf hfit hel.le hf hel.vlo hr
  refine ⟨hsafe.1, fun hc => ?_, fun hm => ?_⟩
  · have hrg := naPVal_ok_range h t o pf hel.ho hr hc
    exact ⟨hrg.1, hrg.2.1, hvd.1 hc, hnz.1 hc⟩
  · subst hm
    have hrg := parseNameAddrPVal_more_range h t o pf (by
      rcases hel.entry with hc | hc
      · exact Or.inl hc.1
      · exact Or.inr ⟨hc.2.hi, hc.2.pend, hc.2.vend⟩) hr
    have hE := parseNameAddrPVal_shiftEntry h t o pf hfit hel.shiftEntry hr
    refine ⟨⟨hrg.2, hsafe.2 rfl, fun hf => ?_, hnz.2 rfl, by have := hel.le; omega, hvd.2 rfl⟩, hrg.1⟩
    rcases hE with hE | hE
    · exact absurd hE hf
    · exact hE.2

theorem sl_shResNa_wrote (k : Nat) (pf0 : PFromBody) (n : Nat) (e : Err) (p : PFromBody) (hw : naWrote e = true) :
    shResNa k pf0 (n, e, p) = (k + n, e, shNa k p) := by
  unfold shResNa; simp only [hw, ↓reduceIte]

theorem sl_shResNa_stale (k : Nat) (pf0 : PFromBody) (n : Nat) (e : Err) (p : PFromBody) (hw : naWrote e = false) :
    shResNa k pf0 (n, e, p) = (k + n, e, { shNa k p with soffs := shS k pf0.state pf0.soffs }) := by
  unfold shResNa; simp only [hw, Bool.false_eq_true, ↓reduceIte]

/-! ### the contact-values loop -/

/-- the observation after an error verdict: everything but the (never reported, stale) saved restart offset of the
    element in progress -/
def ctObsCur (c : PContacts) : PContacts := c.setCur c.cur.obs

theorem ctObsCur_setCur (c : PContacts) (p : PFromBody) : ctObsCur (c.setCur p) = c.setCur p.obs := by
  unfold ctObsCur; rw [setCur_cur, setCur_setCur]

/-- the result `r'` is the result `r` moved by `k`: offset moved, same verdict; the object is the moved object
    after OK / MoreBytes, and the moved object up to the restart offset of the element in progress in any case -/
def slCtRes (k : Nat) (r' r : Nat × Err × PContacts) : Prop :=
  r'.1 = k + r.1 ∧ r'.2.1 = r.2.1 ∧ ((r.2.1 = .ok ∨ r.2.1 = .moreBytes) → r'.2.2 = shCt k r.2.2) ∧
    ctObsCur r'.2.2 = ctObsCur (shCt k r.2.2)

/-- **a legitimate contacts object** for the loop at offset `o` of `t`: unused slots are zero, the running extent
    `lastHVal` ends before the value of the element in progress begins, and the element in progress is a legitimate
    argument of ParseNameAddrPVal (`SlEl`) -/
structure CtShift (t : Buf) (o : Nat) (c : PContacts) : Prop where
  clean : CtClean c
  el : ∃ lo, c.lastHVal.inside lo ∧ SlEl t o lo c.cur

theorem sl_err_case (k : Nat) (c : PContacts) (pf X : PFromBody) (hX : X.obs = (shNa k pf).obs) :
    ctObsCur (if (shCt k c).n < (shCt k c).vals.size then (shCt k c).setCur X else { shCt k c with last := {} }) =
      ctObsCur (shCt k (if c.n < c.vals.size then c.setCur pf else { c with last := {} })) := by
  have hsz : (shCt k c).n < (shCt k c).vals.size ↔ c.n < c.vals.size := by
    show c.n < (c.vals.map _).size ↔ _; rw [Array.size_map]
  by_cases hin : c.n < c.vals.size
  · rw [if_pos (hsz.mpr hin), if_pos hin, shCt_setCur, ctObsCur_setCur, ctObsCur_setCur, hX]
  · rw [if_neg (fun hh => hin (hsz.mp hh)), if_neg hin]
    rfl

theorem sl_setCur_clean (c : PContacts) (pf : PFromBody) (h : CtClean c) : CtClean (c.setCur pf) := by
  refine ⟨fun k h1 h2 => ?_, fun h1 => ?_⟩
  · rw [setCur_n] at h1; rw [setCur_size] at h2
    rw [setCur_vals_ne c pf k (by omega)]; exact h.1 k h1 h2
  · rw [setCur_n, setCur_size] at h1
    rw [setCur_last_in c pf h1]; exact h.2 h1

theorem contactsLoop_shift' (pre t : Buf) (o : Nat) (c : PContacts)
    (hfit : pre.size + t.size ≤ 65535) (h : CtShift t o c) :
    slCtRes pre.size (contactsLoop (pre ++ t) (pre.size + o) (shCt pre.size c)) (contactsLoop t o c) ∧
    ((contactsLoop t o c).2.1 = .moreBytes → CtShift t (contactsLoop t o c).1 (contactsLoop t o c).2.2) := by
  induction hk : t.size - o using Nat.strongRecOn generalizing o c with
  | _ k ih =>
    obtain ⟨lo, hL, hel⟩ := h.el
    rw [contactsLoop.eq_1 t o c, contactsLoop.eq_1 (pre ++ t) (pre.size + o) (shCt pre.size c)]
    rw [shCt_cur]
    unfold parseOneContact
    rw [parseNameAddrPVal_shift HdrContact pre t o c.cur hfit hel.shiftEntry]
    rcases hp : parseNameAddrPVal HdrContact t o c.cur with ⟨next, e1, pf⟩
    have one := sl_one HdrContact t o lo c.cur (by omega) hel hp
    have hnb := one.out.ho
    have hsz : (shCt pre.size c).n < (shCt pre.size c).vals.size ↔ c.n < c.vals.size := by
      show c.n < (c.vals.map _).size ↔ _; rw [Array.size_map]
    have hacc : Err.complete e1 → ((shCt pre.size c).setCur (shNa pre.size pf)).account (shNa pre.size pf) =
        shCt pre.size ((c.setCur pf).account pf) := by
      intro hc
      obtain ⟨f1, f2, f3, f4⟩ := one.fin hc
      rw [← shCt_setCur]
      exact shCt_account pre.size (c.setCur pf) pf lo next f1 (by rw [(setCur_scalars c pf).2.2.2.1]; exact hL) f3
        one.out.v (by omega) f4
    cases e1
    case ok =>
      rw [sl_shResNa_wrote _ _ _ _ _ (by rfl)]
      simp only
      rw [hacc (Or.inl rfl)]
      exact ⟨⟨rfl, rfl, fun _ => rfl, rfl⟩, fun hh => by cases hh⟩
    case moreValues =>
      rw [sl_shResNa_wrote _ _ _ _ _ (by rfl)]
      simp only
      rw [hacc (Or.inr rfl)]
      have hnx : (if c.n < c.vals.size then (c.setCur pf).account pf
          else { (c.setCur pf).account pf with last := {} }) = c.next pf := rfl
      have hnx' : (if (shCt pre.size c).n < (shCt pre.size c).vals.size then shCt pre.size ((c.setCur pf).account pf)
          else { shCt pre.size ((c.setCur pf).account pf) with last := {} }) = shCt pre.size (c.next pf) := by
        unfold PContacts.next
        by_cases hin : c.n < c.vals.size
        · rw [if_pos (hsz.mpr hin), if_pos hin]
        · rw [if_neg (fun hh => hin (hsz.mp hh)), if_neg hin]; rfl
      rw [hnx, hnx']
      by_cases hg : o < next ∧ next ≤ t.size
      · rw [if_pos hg, if_pos (by rw [Array.size_append]; omega)]
        obtain ⟨f1, f2, f3, f4⟩ := one.fin (Or.inr rfl)
        have hcl := next_clean c pf h.clean
        have hlh : (c.next pf).lastHVal.inside next := by
          have s1 := setCur_scalars c pf
          have : ((c.setCur pf).account pf).lastHVal.inside next := by
            rw [account_lhv, s1.2.2.2.1]
            have hend := endT_eq pf.v next one.out.v (by omega)
            have hvi : pf.v.offs + pf.v.len ≤ next := one.out.v
            have hL' : c.lastHVal.offs + c.lastHVal.len ≤ lo := hL
            split
            · exact one.out.v
            · exact extend_inside _ _ _ (by rw [hend]; omega) (by rw [hend]; exact hvi)
          unfold PContacts.next; split <;> exact this
        exact ih (t.size - next) (by omega) next (c.next pf)
          ⟨hcl.1, ⟨next, hlh, by rw [hcl.2]; exact SlEl_new t next next hg.2 (Nat.le_refl _)⟩⟩ rfl
      · rw [if_neg hg, if_neg (by rw [Array.size_append]; omega)]
        exact ⟨⟨rfl, rfl, (fun hh => by rcases hh with hh | hh <;> cases hh), rfl⟩, fun hh => by cases hh⟩
    case moreBytes =>
      rw [sl_shResNa_wrote _ _ _ _ _ (by rfl)]
      simp only
      rw [← shCt_setCur]
      refine ⟨⟨rfl, rfl, fun _ => rfl, rfl⟩, fun _ => ?_⟩
      obtain ⟨m1, m2⟩ := one.more rfl
      exact ⟨sl_setCur_clean c pf h.clean, ⟨lo, by rw [(setCur_scalars c pf).2.2.2.1]; exact hL, by rw [setCur_cur]; exact m1⟩⟩
    all_goals
      rw [sl_shResNa_stale _ _ _ _ _ (by rfl)]
      simp only
      exact ⟨⟨rfl, rfl, (fun hh => by rcases hh with hh | hh <;> cases hh), sl_err_case pre.size c pf _ rfl⟩,
        fun hh => by cases hh⟩

/-! ### ParseAllContactValues -/

theorem shCt_wrap (k : Nat) (c : PContacts) : (shCt k c).wrap = shCt k c.wrap := by
  unfold PContacts.wrap
  have h1 : (decide ((shCt k c).n ≥ (shCt k c).vals.size) && (shCt k c).last.parsed) =
      (decide (c.n ≥ c.vals.size) && c.last.parsed) := by
    show (decide (c.n ≥ (c.vals.map _).size) && _) = _
    rw [Array.size_map]; rfl
  rw [h1]
  split <;> rfl

theorem CtShift.wrap {t : Buf} {o : Nat} {c : PContacts} (h : CtShift t o c) : CtShift t o c.wrap := by
  unfold PContacts.wrap
  split
  · rename_i hc
    simp only [Bool.and_eq_true, decide_eq_true_eq] at hc
    have hcur : ({ c with last := {} } : PContacts).cur = {} := by
      unfold PContacts.cur; rw [if_neg (by show ¬ c.n < c.vals.size; omega)]
    obtain ⟨lo, hL, hel⟩ := h.el
    exact ⟨⟨h.clean.1, fun _ => rfl⟩, ⟨lo, hL, by rw [hcur]; exact SlEl_new t o lo hel.ho hel.le⟩⟩
  · exact h

/-- a new object of any capacity is legitimate at any offset inside the buffer -/
theorem CtShift_new (t : Buf) (o : Nat) (ho : o ≤ t.size) (m : Nat) :
    CtShift t o ({ vals := Array.replicate m {} } : PContacts) := by
  have hcur : (({ vals := Array.replicate m {} } : PContacts)).cur = {} := by
    unfold PContacts.cur; split
    · rename_i h; simp at h; simp [h]
    · rfl
  refine ⟨⟨fun j _ hj => ?_, fun _ => rfl⟩, ⟨o, PField.inside_zero o, by rw [hcur]; exact SlEl_new t o o ho (Nat.le_refl _)⟩⟩
  simp at hj; simp [hj]

/-- the invariant of SafeContacts (which ParseAllContactValues maintains) gives a legitimate object as soon as the
    element in progress satisfies the two invariants on set positions -/
theorem CtShift.ofSafe {t : Buf} {o : Nat} {c : PContacts} (h : CtSafe t o c)
    (hpos : c.cur.state ≠ .fin → NaPos o (naLoad c.cur)) (hnz : SlNz c.cur) : CtShift t o c := by
  obtain ⟨lo, h1, h2, h3⟩ := h.lo
  exact ⟨h.clean, ⟨lo, h1, ⟨h.ho, h.cur, hpos, hnz, h2, h3⟩⟩⟩

/-- between header lines (`CtIdle`: the next value goes into a zero element): the object with which the value list
    of a new Contact header line is parsed (header counter set, running extent cleared) is legitimate -/
theorem CtShift.start {t : Buf} {c : PContacts} (h : CtIdle t c) (o : Nat) (ho : o ≤ t.size) (m : Nat) :
    CtShift t o { c.wrap with hNo := m, lastHVal := {} } := by
  refine ⟨h.clean, ⟨o, PField.inside_zero o, ?_⟩⟩
  show SlEl t o o c.wrap.cur
  rw [h.cur]; exact SlEl_new t o o ho (Nat.le_refl _)

theorem parseAllContactValues_shift' (pre t : Buf) (o : Nat) (c : PContacts)
    (hfit : pre.size + t.size ≤ 65535) (h : CtShift t o c) :
    slCtRes pre.size (parseAllContactValues (pre ++ t) (pre.size + o) (shCt pre.size c)) (parseAllContactValues t o c) ∧
    ((parseAllContactValues t o c).2.1 = .moreBytes →
      CtShift t (parseAllContactValues t o c).1 (parseAllContactValues t o c).2.2) := by
  rw [parseAllContactValues_eq_wrap, parseAllContactValues_eq_wrap, shCt_wrap]
  exact contactsLoop_shift' pre t o c.wrap hfit h.wrap

/-! ### P-Asserted-Identity: translation -/

/-- **the identity-list object moved by `k`** (as `shCt`) -/
def shPa (k : Nat) (c : PPAIs) : PPAIs :=
  { c with vals := c.vals.map (shNa k), last := shNa k c.last, lastHVal := shO k c.lastHVal }

theorem shPa_new (k : Nat) : shPa k {} = {} := by
  unfold shPa
  simp [shNa_new, shO_zero]

theorem shPa_cur (k : Nat) (c : PPAIs) : (shPa k c).cur = shNa k c.cur := by
  unfold PPAIs.cur shPa
  simp only [Array.size_map]
  split
  · rename_i h; simp [h]
  · rfl

theorem shPa_setCur (k : Nat) (c : PPAIs) (pf : PFromBody) :
    shPa k (c.setCur pf) = (shPa k c).setCur (shNa k pf) := by
  unfold PPAIs.setCur shPa
  simp only [Array.size_map]
  split
  · simp only [Array.set!_eq_setIfInBounds, Array.map_setIfInBounds]
  · rfl

theorem PPAIs.slExt {a b : PPAIs} (h1 : a.vals = b.vals) (h2 : a.n = b.n) (h3 : a.hNo = b.hNo)
    (h6 : a.lastHVal = b.lastHVal) (h7 : a.last = b.last) (h9 : a.pnc = b.pnc) : a = b := by
  cases a; cases b; simp_all

theorem shPa_account (k : Nat) (c : PPAIs) (pf : PFromBody) (lo o' : Nat) (hf : pf.state = .fin)
    (hL : c.lastHVal.inside lo) (hlo : lo ≤ pf.v.offs) (hv : pf.v.inside o') (hfit : k + o' ≤ 65535)
    (hnz : 1 ≤ pf.v.offs + pf.v.len) :
    (shPa k c).account (shNa k pf) = shPa k (c.account pf) := by
  have key := sl_lhv k c.lastHVal pf.v lo o' hL hlo hv hfit hnz
  apply PPAIs.slExt
  · rw [paAccount_vals]; show _ = (c.account pf).vals.map (shNa k); rw [paAccount_vals]; rfl
  · rw [paAccount_n]; show _ = (c.account pf).n; rw [paAccount_n]; rfl
  · rw [paAccount_hNo]; show _ = (c.account pf).hNo; rw [paAccount_hNo]; rfl
  · rw [paAccount_lhv, sl_shNa_fin_v k pf hf]
    show _ = shO k (c.account pf).lastHVal
    rw [paAccount_lhv]
    exact key.1
  · rw [paAccount_last]; show _ = shNa k (c.account pf).last; rw [paAccount_last]; rfl
  · rw [paAccount_pnc, sl_shNa_fin_v k pf hf]
    show _ = (c.account pf).pnc
    rw [paAccount_pnc]
    show (if (shO k c.lastHVal).isEmpty then c.pnc else _) = _
    rw [sl_shO_isEmpty]
    show (if c.lastHVal.isEmpty then c.pnc else (c.pnc || (shO k c.lastHVal).extendPanics (shF k pf.v).endT)) = _
    rw [key.2]

/-! ### ParseOnePAI -/

/-- ParseOnePAI is position independent: offset moved, same verdict, the object moved up to the stale restart offset
    (exactly after OK / MoreValues / MoreBytes) -/
theorem parseOnePAI_shiftX (pre t : Buf) (o : Nat) (pf : PFromBody) (hfit : pre.size + t.size ≤ 65535)
    (hE : NaShiftEntry t o pf) {next : Nat} {e : Err} {pf' : PFromBody} (hp : parseOnePAI t o pf = (next, e, pf')) :
    ∃ X, parseOnePAI (pre ++ t) (pre.size + o) (shNa pre.size pf) = (pre.size + next, e, X) ∧
      X.obs = (shNa pre.size pf').obs ∧ (naWrote e = true → X = shNa pre.size pf') := by
  unfold parseOnePAI at hp ⊢
  rw [parseNameAddrPVal_shift HdrPAI pre t o pf hfit hE]
  rcases hq : parseNameAddrPVal HdrPAI t o pf with ⟨n, e0, p⟩
  rw [hq] at hp
  simp only at hp
  by_cases hc : ((e0 == .ok || e0 == .moreValues) && p.star) = true
  · have hA : (e0 == .ok || e0 == .moreValues) = true := by
      simp only [Bool.and_eq_true] at hc; exact hc.1
    have hw : naWrote e0 = true := by
      cases e0 <;> first | rfl | (exfalso; revert hA; decide)
    rw [sl_shResNa_wrote _ _ _ _ _ hw]
    simp only
    have hc' : ((e0 == .ok || e0 == .moreValues) && (shNa pre.size p).star) = true := hc
    rw [if_pos hc']
    rw [if_pos hc] at hp
    cases hp
    exact ⟨_, rfl, rfl, fun _ => rfl⟩
  · rw [if_neg hc] at hp
    cases hp
    by_cases hw : naWrote e = true
    · rw [sl_shResNa_wrote _ _ _ _ _ hw]
      simp only
      have hc' : ¬ ((e == .ok || e == .moreValues) && (shNa pre.size pf').star) = true := hc
      rw [if_neg hc']
      exact ⟨_, rfl, rfl, fun _ => rfl⟩
    · have hw' : naWrote e = false := by simpa using hw
      rw [sl_shResNa_stale _ _ _ _ _ hw']
      simp only
      have hc' : ¬ ((e == .ok || e == .moreValues) &&
          ({ shNa pre.size pf' with soffs := shS pre.size pf.state pf.soffs } : PFromBody).star) = true := hc
      rw [if_neg hc']
      exact ⟨_, rfl, rfl, fun hh => absurd hh hw⟩

theorem sl_onePAI (t : Buf) (o lo : Nat) (pf : PFromBody) (hfit : t.size ≤ 65535)
    (hel : SlEl t o lo pf) {next : Nat} {e : Err} {pf' : PFromBody}
    (hr : parseOnePAI t o pf = (next, e, pf')) : SlOne t o lo next e pf' := by
  obtain ⟨e0, h0, a1, a2, a3⟩ := parseOnePAI_under t o pf hr
  have one := sl_one HdrPAI t o lo pf hfit hel h0
  refine ⟨one.out, fun hc => one.fin ?_, fun hm => one.more (a3 hm)⟩
  rcases hc with hc | hc
  · exact Or.inl (a1 hc)
  · exact Or.inr (a2 hc)

/-! ### the identity-values loop -/

def paObsCur (c : PPAIs) : PPAIs := c.setCur c.cur.obs

theorem paObsCur_setCur (c : PPAIs) (p : PFromBody) : paObsCur (c.setCur p) = c.setCur p.obs := by
  unfold paObsCur; rw [paSetCur_cur, paSetCur_setCur]

/-- as `slCtRes` -/
def slPaRes (k : Nat) (r' r : Nat × Err × PPAIs) : Prop :=
  r'.1 = k + r.1 ∧ r'.2.1 = r.2.1 ∧ ((r.2.1 = .ok ∨ r.2.1 = .moreBytes) → r'.2.2 = shPa k r.2.2) ∧
    paObsCur r'.2.2 = paObsCur (shPa k r.2.2)

/-- **a legitimate identity-list object** for the loop at offset `o` of `t` (as `CtShift`) -/
structure PaShift (t : Buf) (o : Nat) (c : PPAIs) : Prop where
  clean : PaClean c
  el : ∃ lo, c.lastHVal.inside lo ∧ SlEl t o lo c.cur

theorem sl_err_casePa (k : Nat) (c : PPAIs) (pf X : PFromBody) (hX : X.obs = (shNa k pf).obs) :
    paObsCur (if (shPa k c).n < (shPa k c).vals.size then (shPa k c).setCur X else { shPa k c with last := {} }) =
      paObsCur (shPa k (if c.n < c.vals.size then c.setCur pf else { c with last := {} })) := by
  have hsz : (shPa k c).n < (shPa k c).vals.size ↔ c.n < c.vals.size := by
    show c.n < (c.vals.map _).size ↔ _; rw [Array.size_map]
  by_cases hin : c.n < c.vals.size
  · rw [if_pos (hsz.mpr hin), if_pos hin, shPa_setCur, paObsCur_setCur, paObsCur_setCur, hX]
  · rw [if_neg (fun hh => hin (hsz.mp hh)), if_neg hin]
    rfl

theorem sl_paSetCur_clean (c : PPAIs) (pf : PFromBody) (h : PaClean c) : PaClean (c.setCur pf) := by
  refine ⟨fun k h1 h2 => ?_, fun h1 => ?_⟩
  · rw [paSetCur_n] at h1; rw [paSetCur_size] at h2
    rw [paSetCur_vals_ne c pf k (by omega)]; exact h.1 k h1 h2
  · rw [paSetCur_n, paSetCur_size] at h1
    rw [paSetCur_last_in c pf h1]; exact h.2 h1

theorem paisLoop_shift' (pre t : Buf) (o : Nat) (c : PPAIs)
    (hfit : pre.size + t.size ≤ 65535) (h : PaShift t o c) :
    slPaRes pre.size (paisLoop (pre ++ t) (pre.size + o) (shPa pre.size c)) (paisLoop t o c) ∧
    ((paisLoop t o c).2.1 = .moreBytes → PaShift t (paisLoop t o c).1 (paisLoop t o c).2.2) := by
  induction hk : t.size - o using Nat.strongRecOn generalizing o c with
  | _ k ih =>
    obtain ⟨lo, hL, hel⟩ := h.el
    rw [paisLoop.eq_1 t o c, paisLoop.eq_1 (pre ++ t) (pre.size + o) (shPa pre.size c)]
    rw [shPa_cur]
    rcases hp : parseOnePAI t o c.cur with ⟨next, e1, pf⟩
    obtain ⟨X, hX1, hX2, hX3⟩ := parseOnePAI_shiftX pre t o c.cur hfit hel.shiftEntry hp
    rw [hX1]
    have one := sl_onePAI t o lo c.cur (by omega) hel hp
    have hnb := one.out.ho
    have hsz : (shPa pre.size c).n < (shPa pre.size c).vals.size ↔ c.n < c.vals.size := by
      show c.n < (c.vals.map _).size ↔ _; rw [Array.size_map]
    have hacc : Err.complete e1 → ((shPa pre.size c).setCur (shNa pre.size pf)).account (shNa pre.size pf) =
        shPa pre.size ((c.setCur pf).account pf) := by
      intro hc
      obtain ⟨f1, f2, f3, f4⟩ := one.fin hc
      rw [← shPa_setCur]
      exact shPa_account pre.size (c.setCur pf) pf lo next f1 (by rw [(paSetCur_scalars c pf).2.1]; exact hL) f3
        one.out.v (by omega) f4
    cases e1
    case ok =>
      obtain rfl := hX3 (by rfl)
      simp only
      rw [hacc (Or.inl rfl)]
      exact ⟨⟨rfl, rfl, fun _ => rfl, rfl⟩, fun hh => by cases hh⟩
    case moreValues =>
      obtain rfl := hX3 (by rfl)
      simp only
      rw [hacc (Or.inr rfl)]
      have hnx : (if c.n < c.vals.size then (c.setCur pf).account pf
          else { (c.setCur pf).account pf with last := {} }) = c.next pf := rfl
      have hnx' : (if (shPa pre.size c).n < (shPa pre.size c).vals.size then shPa pre.size ((c.setCur pf).account pf)
          else { shPa pre.size ((c.setCur pf).account pf) with last := {} }) = shPa pre.size (c.next pf) := by
        unfold PPAIs.next
        by_cases hin : c.n < c.vals.size
        · rw [if_pos (hsz.mpr hin), if_pos hin]
        · rw [if_neg (fun hh => hin (hsz.mp hh)), if_neg hin]; rfl
      rw [hnx, hnx']
      by_cases hg : o < next ∧ next ≤ t.size
      · rw [if_pos hg, if_pos (by rw [Array.size_append]; omega)]
        obtain ⟨f1, f2, f3, f4⟩ := one.fin (Or.inr rfl)
        have hcl := paNext_clean c pf h.clean
        have hlh : (c.next pf).lastHVal.inside next := by
          have s1 := paSetCur_scalars c pf
          have : ((c.setCur pf).account pf).lastHVal.inside next := by
            rw [paAccount_lhv, s1.2.1]
            have hend := endT_eq pf.v next one.out.v (by omega)
            have hvi : pf.v.offs + pf.v.len ≤ next := one.out.v
            have hL' : c.lastHVal.offs + c.lastHVal.len ≤ lo := hL
            split
            · exact one.out.v
            · exact extend_inside _ _ _ (by rw [hend]; omega) (by rw [hend]; exact hvi)
          unfold PPAIs.next; split <;> exact this
        exact ih (t.size - next) (by omega) next (c.next pf)
          ⟨hcl.1, ⟨next, hlh, by rw [hcl.2]; exact SlEl_new t next next hg.2 (Nat.le_refl _)⟩⟩ rfl
      · rw [if_neg hg, if_neg (by rw [Array.size_append]; omega)]
        exact ⟨⟨rfl, rfl, (fun hh => by rcases hh with hh | hh <;> cases hh), rfl⟩, fun hh => by cases hh⟩
    case moreBytes =>
      obtain rfl := hX3 (by rfl)
      simp only
      rw [← shPa_setCur]
      refine ⟨⟨rfl, rfl, fun _ => rfl, rfl⟩, fun _ => ?_⟩
      obtain ⟨m1, m2⟩ := one.more rfl
      exact ⟨sl_paSetCur_clean c pf h.clean, ⟨lo, by rw [(paSetCur_scalars c pf).2.1]; exact hL, by rw [paSetCur_cur]; exact m1⟩⟩
    all_goals
      simp only
      exact ⟨⟨rfl, rfl, (fun hh => by rcases hh with hh | hh <;> cases hh), sl_err_casePa pre.size c pf X hX2⟩,
        fun hh => by cases hh⟩

/-! ### ParseAllPAIValues -/

theorem shPa_wrap (k : Nat) (c : PPAIs) : (shPa k c).wrap = shPa k c.wrap := by
  unfold PPAIs.wrap
  have h1 : (decide ((shPa k c).n ≥ (shPa k c).vals.size) && (shPa k c).last.parsed) =
      (decide (c.n ≥ c.vals.size) && c.last.parsed) := by
    show (decide (c.n ≥ (c.vals.map _).size) && _) = _
    rw [Array.size_map]; rfl
  rw [h1]
  split <;> rfl

theorem PaShift.wrap {t : Buf} {o : Nat} {c : PPAIs} (h : PaShift t o c) : PaShift t o c.wrap := by
  unfold PPAIs.wrap
  split
  · rename_i hc
    simp only [Bool.and_eq_true, decide_eq_true_eq] at hc
    have hcur : ({ c with last := {} } : PPAIs).cur = {} := by
      unfold PPAIs.cur; rw [if_neg (by show ¬ c.n < c.vals.size; omega)]
    obtain ⟨lo, hL, hel⟩ := h.el
    exact ⟨⟨h.clean.1, fun _ => rfl⟩, ⟨lo, hL, by rw [hcur]; exact SlEl_new t o lo hel.ho hel.le⟩⟩
  · exact h

/-- a new object is legitimate at any offset inside the buffer -/
theorem PaShift_new (t : Buf) (o : Nat) (ho : o ≤ t.size) : PaShift t o ({} : PPAIs) := by
  have hi := PaIdle_new t
  have hw : (({} : PPAIs)).wrap = {} := by unfold PPAIs.wrap; simp [PFromBody.parsed]
  have hc := hi.clean
  have hcur := hi.cur
  rw [hw] at hc hcur
  exact ⟨hc, ⟨o, PField.inside_zero o, by rw [hcur]; exact SlEl_new t o o ho (Nat.le_refl _)⟩⟩

theorem PaShift.ofSafe {t : Buf} {o : Nat} {c : PPAIs} (h : PaSafe t o c)
    (hpos : c.cur.state ≠ .fin → NaPos o (naLoad c.cur)) (hnz : SlNz c.cur) : PaShift t o c := by
  obtain ⟨lo, h1, h2, h3⟩ := h.lo
  exact ⟨h.clean, ⟨lo, h1, ⟨h.ho, h.cur, hpos, hnz, h2, h3⟩⟩⟩

theorem PaShift.start {t : Buf} {c : PPAIs} (h : PaIdle t c) (o : Nat) (ho : o ≤ t.size) (m : Nat) :
    PaShift t o { c.wrap with hNo := m, lastHVal := {} } := by
  refine ⟨h.clean, ⟨o, PField.inside_zero o, ?_⟩⟩
  show SlEl t o o c.wrap.cur
  rw [h.cur]; exact SlEl_new t o o ho (Nat.le_refl _)

theorem parseAllPAIValues_shift' (pre t : Buf) (o : Nat) (c : PPAIs)
    (hfit : pre.size + t.size ≤ 65535) (h : PaShift t o c) :
    slPaRes pre.size (parseAllPAIValues (pre ++ t) (pre.size + o) (shPa pre.size c)) (parseAllPAIValues t o c) ∧
    ((parseAllPAIValues t o c).2.1 = .moreBytes →
      PaShift t (parseAllPAIValues t o c).1 (parseAllPAIValues t o c).2.2) := by
  rw [parseAllPAIValues_eq_wrap, parseAllPAIValues_eq_wrap, shPa_wrap]
  exact paisLoop_shift' pre t o c.wrap hfit h.wrap

/-! ### final statements -/

theorem slCtRes_exact {k : Nat} {r' r : Nat × Err × PContacts} (h : slCtRes k r' r)
    (hv : r.2.1 = .ok ∨ r.2.1 = .moreBytes) : r' = shRes k (shCt k) r :=
  Prod.ext h.1 (Prod.ext h.2.1 (h.2.2.1 hv))

theorem slPaRes_exact {k : Nat} {r' r : Nat × Err × PPAIs} (h : slPaRes k r' r)
    (hv : r.2.1 = .ok ∨ r.2.1 = .moreBytes) : r' = shRes k (shPa k) r :=
  Prod.ext h.1 (Prod.ext h.2.1 (h.2.2.1 hv))

/-- **the contact-values loop is position independent**: from a legitimate object, the run on `pre ++ t` at
    `pre.size + o` from the moved object returns the moved result (`slCtRes`: offset + k, same verdict, the moved
    object exactly after OK / MoreBytes and up to the stale restart offset of the element in progress otherwise) -/
theorem contactsLoop_shift (pre t : Buf) (o : Nat) (c : PContacts) (hfit : pre.size + t.size ≤ 65535)
    (h : CtShift t o c) :
    slCtRes pre.size (contactsLoop (pre ++ t) (pre.size + o) (shCt pre.size c)) (contactsLoop t o c) :=
  (contactsLoop_shift' pre t o c hfit h).1

/-- … and after MoreBytes the returned object is legitimate again at the returned offset -/
theorem contactsLoop_shiftEntry (t : Buf) (o : Nat) (c : PContacts) (hfit : t.size ≤ 65535) (h : CtShift t o c)
    (hm : (contactsLoop t o c).2.1 = .moreBytes) : CtShift t (contactsLoop t o c).1 (contactsLoop t o c).2.2 :=
  (contactsLoop_shift' #[] t o c (by simpa using hfit) h).2 hm

/-- **ParseAllContactValues is position independent** -/
theorem parseAllContactValues_shift (pre t : Buf) (o : Nat) (c : PContacts) (hfit : pre.size + t.size ≤ 65535)
    (h : CtShift t o c) :
    slCtRes pre.size (parseAllContactValues (pre ++ t) (pre.size + o) (shCt pre.size c)) (parseAllContactValues t o c) :=
  (parseAllContactValues_shift' pre t o c hfit h).1

theorem parseAllContactValues_shiftEntry (t : Buf) (o : Nat) (c : PContacts) (hfit : t.size ≤ 65535)
    (h : CtShift t o c) (hm : (parseAllContactValues t o c).2.1 = .moreBytes) :
    CtShift t (parseAllContactValues t o c).1 (parseAllContactValues t o c).2.2 :=
  (parseAllContactValues_shift' #[] t o c (by simpa using hfit) h).2 hm

/-- … in the plain form after OK / MoreBytes -/
theorem parseAllContactValues_shift_exact (pre t : Buf) (o : Nat) (c : PContacts) (hfit : pre.size + t.size ≤ 65535)
    (h : CtShift t o c)
    (hv : (parseAllContactValues t o c).2.1 = .ok ∨ (parseAllContactValues t o c).2.1 = .moreBytes) :
    parseAllContactValues (pre ++ t) (pre.size + o) (shCt pre.size c) =
      shRes pre.size (shCt pre.size) (parseAllContactValues t o c) :=
  slCtRes_exact (parseAllContactValues_shift pre t o c hfit h) hv

/-- … from a new object of any capacity, at any start offset -/
theorem parseAllContactValues_shift_new (pre t : Buf) (o : Nat) (ho : o ≤ t.size) (m : Nat)
    (hfit : pre.size + t.size ≤ 65535) :
    slCtRes pre.size (parseAllContactValues (pre ++ t) (pre.size + o) { vals := Array.replicate m {} })
      (parseAllContactValues t o { vals := Array.replicate m {} }) := by
  have := parseAllContactValues_shift pre t o { vals := Array.replicate m {} } hfit (CtShift_new t o ho m)
  rw [shCt_new] at this
  exact this

theorem NaOut.slAppend {b : Buf} {o : Nat} {pf : PFromBody} (h : NaOut b o pf) (s : Buf) : NaOut (b ++ s) o pf :=
  ⟨by have := h.ho; rw [Array.size_append]; omega, h.name, h.uri, h.tag, h.params, h.v, h.pnc⟩

theorem SlEl.append {t : Buf} {o lo : Nat} {pf : PFromBody} (h : SlEl t o lo pf) (s : Buf) : SlEl (t ++ s) o lo pf := by
  refine ⟨by have := h.ho; rw [Array.size_append]; omega, ?_, h.pos, h.nz, h.le, h.vlo⟩
  rcases h.entry with he | he
  · exact Or.inl ⟨he.1, he.2.slAppend s⟩
  · exact Or.inr ⟨he.1, he.2.append s⟩

/-- a legitimate object stays legitimate when more bytes arrive -/
theorem CtShift.append {t : Buf} {o : Nat} {c : PContacts} (h : CtShift t o c) (s : Buf) : CtShift (t ++ s) o c := by
  obtain ⟨lo, hL, hel⟩ := h.el
  exact ⟨h.clean, ⟨lo, hL, hel.append s⟩⟩

theorem PaShift.append {t : Buf} {o : Nat} {c : PPAIs} (h : PaShift t o c) (s : Buf) : PaShift (t ++ s) o c := by
  obtain ⟨lo, hL, hel⟩ := h.el
  exact ⟨h.clean, ⟨lo, hL, hel.append s⟩⟩

/-- **the resumed call is position independent too**: a value list that ran out of bytes in `t` (parsed from a new
    object) and is resumed at the returned offset with the returned object once more bytes `s` have arrived -/
theorem parseAllContactValues_shift_resume (pre t s : Buf) (o : Nat) (ho : o ≤ t.size) (m : Nat)
    (hfit : pre.size + (t ++ s).size ≤ 65535) {o1 : Nat} {c1 : PContacts}
    (hr : parseAllContactValues t o { vals := Array.replicate m {} } = (o1, Err.moreBytes, c1)) :
    slCtRes pre.size (parseAllContactValues (pre ++ (t ++ s)) (pre.size + o1) (shCt pre.size c1))
      (parseAllContactValues (t ++ s) o1 c1) := by
  have hE := parseAllContactValues_shiftEntry t o { vals := Array.replicate m {} }
    (by rw [Array.size_append] at hfit; omega) (CtShift_new t o ho m) (by rw [hr])
  rw [hr] at hE
  exact parseAllContactValues_shift pre (t ++ s) o1 c1 hfit (hE.append s)

/-- what a caller reads from the moved object: the same counts and numbers … -/
theorem shCt_scalars (k : Nat) (c : PContacts) :
    (shCt k c).n = c.n ∧ (shCt k c).hNo = c.hNo ∧ (shCt k c).maxExpires = c.maxExpires ∧
    (shCt k c).minExpires = c.minExpires ∧ (shCt k c).pnc = c.pnc ∧ (shCt k c).vals.size = c.vals.size ∧
    (shCt k c).vNo = c.vNo ∧ (shCt k c).more = c.more ∧ (shCt k c).lastHVal = shO k c.lastHVal := by
  refine ⟨rfl, rfl, rfl, rfl, rfl, Array.size_map .., ?_, ?_, rfl⟩
  · unfold PContacts.vNo shCt; simp only [Array.size_map]
  · unfold PContacts.more shCt; simp only [Array.size_map]

/-- … and `GetContact(j)` of the moved object is the moved `GetContact(j)` -/
theorem shCt_getContact (k : Nat) (c : PContacts) (j : Nat) :
    (shCt k c).getContact j = (c.getContact j).map (shNa k) := by
  unfold PContacts.getContact
  rw [(shCt_scalars k c).2.2.2.2.2.2.1]
  have h1 : (shCt k c).isEmpty = c.isEmpty := rfl
  have h2 : (shCt k c).n = c.n := rfl
  rw [h1, h2]
  split
  · show (c.vals.map (shNa k))[j]? = _
    rw [Array.getElem?_map]
  · repeat' split
    all_goals rfl

/-! #### P-Asserted-Identity -/

/-- **the identity-values loop is position independent** -/
theorem paisLoop_shift (pre t : Buf) (o : Nat) (c : PPAIs) (hfit : pre.size + t.size ≤ 65535) (h : PaShift t o c) :
    slPaRes pre.size (paisLoop (pre ++ t) (pre.size + o) (shPa pre.size c)) (paisLoop t o c) :=
  (paisLoop_shift' pre t o c hfit h).1

theorem paisLoop_shiftEntry (t : Buf) (o : Nat) (c : PPAIs) (hfit : t.size ≤ 65535) (h : PaShift t o c)
    (hm : (paisLoop t o c).2.1 = .moreBytes) : PaShift t (paisLoop t o c).1 (paisLoop t o c).2.2 :=
  (paisLoop_shift' #[] t o c (by simpa using hfit) h).2 hm

/-- **ParseAllPAIValues is position independent** -/
theorem parseAllPAIValues_shift (pre t : Buf) (o : Nat) (c : PPAIs) (hfit : pre.size + t.size ≤ 65535)
    (h : PaShift t o c) :
    slPaRes pre.size (parseAllPAIValues (pre ++ t) (pre.size + o) (shPa pre.size c)) (parseAllPAIValues t o c) :=
  (parseAllPAIValues_shift' pre t o c hfit h).1

theorem parseAllPAIValues_shiftEntry (t : Buf) (o : Nat) (c : PPAIs) (hfit : t.size ≤ 65535)
    (h : PaShift t o c) (hm : (parseAllPAIValues t o c).2.1 = .moreBytes) :
    PaShift t (parseAllPAIValues t o c).1 (parseAllPAIValues t o c).2.2 :=
  (parseAllPAIValues_shift' #[] t o c (by simpa using hfit) h).2 hm

theorem parseAllPAIValues_shift_exact (pre t : Buf) (o : Nat) (c : PPAIs) (hfit : pre.size + t.size ≤ 65535)
    (h : PaShift t o c)
    (hv : (parseAllPAIValues t o c).2.1 = .ok ∨ (parseAllPAIValues t o c).2.1 = .moreBytes) :
    parseAllPAIValues (pre ++ t) (pre.size + o) (shPa pre.size c) =
      shRes pre.size (shPa pre.size) (parseAllPAIValues t o c) :=
  slPaRes_exact (parseAllPAIValues_shift pre t o c hfit h) hv

theorem parseAllPAIValues_shift_new (pre t : Buf) (o : Nat) (ho : o ≤ t.size) (hfit : pre.size + t.size ≤ 65535) :
    slPaRes pre.size (parseAllPAIValues (pre ++ t) (pre.size + o) {}) (parseAllPAIValues t o {}) := by
  have := parseAllPAIValues_shift pre t o {} hfit (PaShift_new t o ho)
  rw [shPa_new] at this
  exact this

theorem parseAllPAIValues_shift_resume (pre t s : Buf) (o : Nat) (ho : o ≤ t.size)
    (hfit : pre.size + (t ++ s).size ≤ 65535) {o1 : Nat} {c1 : PPAIs}
    (hr : parseAllPAIValues t o {} = (o1, Err.moreBytes, c1)) :
    slPaRes pre.size (parseAllPAIValues (pre ++ (t ++ s)) (pre.size + o1) (shPa pre.size c1))
      (parseAllPAIValues (t ++ s) o1 c1) := by
  have hE := parseAllPAIValues_shiftEntry t o {} (by rw [Array.size_append] at hfit; omega) (PaShift_new t o ho)
    (by rw [hr])
  rw [hr] at hE
  exact parseAllPAIValues_shift pre (t ++ s) o1 c1 hfit (hE.append s)

theorem shPa_scalars (k : Nat) (c : PPAIs) :
    (shPa k c).n = c.n ∧ (shPa k c).hNo = c.hNo ∧ (shPa k c).pnc = c.pnc ∧ (shPa k c).vals.size = c.vals.size ∧
    (shPa k c).vNo = c.vNo ∧ (shPa k c).more = c.more ∧ (shPa k c).lastHVal = shO k c.lastHVal := by
  refine ⟨rfl, rfl, rfl, Array.size_map .., ?_, ?_, rfl⟩
  · unfold PPAIs.vNo shPa; simp only [Array.size_map]
  · unfold PPAIs.more shPa; simp only [Array.size_map]

theorem shPa_getPAI (k : Nat) (c : PPAIs) (j : Nat) : (shPa k c).getPAI j = (c.getPAI j).map (shNa k) := by
  unfold PPAIs.getPAI
  rw [(shPa_scalars k c).2.2.2.2.1]
  split
  · show (c.vals.map (shNa k))[j]? = _
    rw [Array.getElem?_map]
  · rfl

/-! ### non-vacuity (tests, `decide +kernel` on concrete inputs; the general claims are the theorems above) -/

/-- field-wise equality of two contacts objects (the structure has no `DecidableEq` instance) -/
def slCtEq (a b : PContacts) : Prop :=
  a.vals = b.vals ∧ a.n = b.n ∧ a.hNo = b.hNo ∧ a.maxExpires = b.maxExpires ∧ a.minExpires = b.minExpires ∧
    a.lastHVal = b.lastHVal ∧ a.last = b.last ∧ a.first = b.first ∧ a.pnc = b.pnc

instance (a b : PContacts) : Decidable (slCtEq a b) := by unfold slCtEq; infer_instance

def slPaEq (a b : PPAIs) : Prop :=
  a.vals = b.vals ∧ a.n = b.n ∧ a.hNo = b.hNo ∧ a.lastHVal = b.lastHVal ∧ a.last = b.last ∧ a.pnc = b.pnc

instance (a b : PPAIs) : Decidable (slPaEq a b) := by unfold slPaEq; infer_instance

-- two contacts (capacity 1: the second one goes to `last`), the text starts at buffer offset 0: after 3 junk bytes
-- the same verdict and counts, offset + 3, every element and the running extent (`lastHVal`, offset 0 → 3) moved
example :
    let t := "<sip:a@b>;expires=5, \"B\" <sip:c@d>;q=0.5\r\nX".toUTF8.data
    let r := parseAllContactValues t 0 { vals := Array.replicate 1 {} }
    let r' := parseAllContactValues ("xyz".toUTF8.data ++ t) 3 { vals := Array.replicate 1 {} }
    r.2.1 = Err.ok ∧ r.2.2.n = 2 ∧ r.2.2.lastHVal = ⟨0, 40⟩ ∧ r'.1 = 3 + r.1 ∧ r'.2.1 = r.2.1 ∧
      slCtEq r'.2.2 (shCt 3 r.2.2) ∧ r'.2.2.lastHVal = ⟨3, 40⟩ ∧ r'.2.2.maxExpires = 5 := by decide +kernel

-- an error verdict: the stale restart offset of the element in progress is not moved, everything else is
example :
    let t := "a <b<".toUTF8.data
    let r := parseAllContactValues t 0 { vals := Array.replicate 1 {} }
    let r' := parseAllContactValues ("xyz".toUTF8.data ++ t) 3 { vals := Array.replicate 1 {} }
    r.2.1 = Err.badChar ∧ r'.1 = 3 + r.1 ∧ r'.2.1 = r.2.1 ∧ ¬ slCtEq r'.2.2 (shCt 3 r.2.2) ∧
      slCtEq (ctObsCur r'.2.2) (ctObsCur (shCt 3 r.2.2)) := by decide +kernel

-- a list that runs out of bytes inside the second value (capacity 1: element in progress is `last`) and is
-- resumed after 3 junk bytes with the moved object
example :
    let t := "<sip:a@b>, <sip:c".toUTF8.data
    let ts := "<sip:a@b>, <sip:c@d>\r\nX".toUTF8.data
    let r1 := parseAllContactValues t 0 { vals := Array.replicate 1 {} }
    let r := parseAllContactValues ts r1.1 r1.2.2
    let r' := parseAllContactValues ("xyz".toUTF8.data ++ ts) (3 + r1.1) (shCt 3 r1.2.2)
    r1.2.1 = Err.moreBytes ∧ r1.2.2.last.soffs = 12 ∧ (shCt 3 r1.2.2).last.soffs = 15 ∧ r.2.1 = Err.ok ∧ r.2.2.n = 2 ∧
      r'.1 = 3 + r.1 ∧ r'.2.1 = r.2.1 ∧ slCtEq r'.2.2 (shCt 3 r.2.2) := by decide +kernel

-- P-Asserted-Identity: two identities; and the `*` value, which ParseOnePAI turns into ErrHdrValBad
example :
    let t := "<sip:a@b>, <tel:1>\r\nX".toUTF8.data
    let r := parseAllPAIValues t 0 {}
    let r' := parseAllPAIValues ("xyz".toUTF8.data ++ t) 3 {}
    r.2.1 = Err.ok ∧ r.2.2.n = 2 ∧ r'.1 = 3 + r.1 ∧ r'.2.1 = r.2.1 ∧ slPaEq r'.2.2 (shPa 3 r.2.2) ∧
      r'.2.2.lastHVal = ⟨3, 18⟩ := by decide +kernel

example :
    let t := "<sip:a@b>, *\r\nX".toUTF8.data
    let r := parseAllPAIValues t 0 {}
    let r' := parseAllPAIValues ("xyz".toUTF8.data ++ t) 3 {}
    r.2.1 = Err.valBad ∧ r'.1 = 3 + r.1 ∧ r'.2.1 = r.2.1 ∧ slPaEq r'.2.2 (shPa 3 r.2.2) := by decide +kernel

end Sipsp
