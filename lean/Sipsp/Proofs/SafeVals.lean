/-
  Sipsp.Proofs.SafeVals — ParseCallIDVal, ParseUIntVal / ParseCLenVal, ParseCSeqVal never panic, and the fields
  they report can be dereferenced (the CSeq method lookup needs the documented 65,535-byte limit).
-/
import Sipsp.Proofs.SafeNA
import Sipsp.Proofs.Range

namespace Sipsp

variable {σ : Type}

/-- the four things the standard white-space pattern can do -/
theorem lwsStd_class (b : Buf) (i : Nat) (st : σ) (eoh : σ → Nat → Nat → Nat → Nat × Err × σ) (mb : σ → σ)
    (hi : i ≤ b.size) :
    (∃ n, i ≤ n ∧ n ≤ b.size ∧ lwsStd b i st eoh mb = .cont n st) ∨
    (∃ n crl, i ≤ n ∧ n + crl ≤ b.size ∧ 1 ≤ crl ∧
      lwsStd b i st eoh mb = .done (eoh st i n crl).1 (eoh st i n crl).2.1 (eoh st i n crl).2.2) ∨
    (∃ n, i ≤ n ∧ n ≤ b.size ∧ lwsStd b i st eoh mb = .done n .moreBytes (mb st)) ∨
    (∃ n, i ≤ n ∧ n ≤ b.size ∧ lwsStd b i st eoh mb = .done n .noCR st) := by
  unfold lwsStd
  rcases hsk : skipLWS b i 0 with ⟨n, crl, e⟩
  have hr := skipLWS_range b i 0 hsk
  have hv := skipLWS_verdicts b i 0 hsk
  rcases hv with rfl | rfl | rfl | rfl
  · exact Or.inl ⟨n, hr.1, hr.2 hi, rfl⟩
  · have hrg := skipLWS_eoh_range b i 0 hsk (by decide)
    exact Or.inr (Or.inl ⟨n, crl, hr.1, by omega, hrg.2.2, rfl⟩)
  · exact Or.inr (Or.inr (Or.inr ⟨n, hr.1, hr.2 hi, rfl⟩))
  · exact Or.inr (Or.inr (Or.inl ⟨n, hr.1, hr.2 hi, rfl⟩))

/-! ### Call-ID -/

structure CiSafe (b : Buf) (i : Nat) (st : PCallIDBody) : Prop where
  hi : i ≤ b.size
  soffs : st.soffs ≤ i
  fld : st.callID.inside i
  pnc : st.pnc = false

theorem CiSafe.mono {b : Buf} {i j : Nat} {st : PCallIDBody} (h : CiSafe b i st) (hij : i ≤ j) (hj : j ≤ b.size) :
    CiSafe b j st := ⟨hj, by have := h.soffs; omega, PField.inside_mono h.fld hij, h.pnc⟩

theorem ciSetCallID_safe {b : Buf} {i : Nat} {st : PCallIDBody} (h : CiSafe b i st) (x : CIState) :
    CiSafe b i { ciSetCallID st i with state := x } :=
  ⟨h.hi, h.soffs, set_inside _ _ _ h.soffs (Nat.le_refl _),
   by show (st.pnc || PField.setPanics st.soffs i) = false; rw [h.pnc, setPanics_false _ _ h.soffs]; rfl⟩

theorem ciEOH_safe (b : Buf) (st : PCallIDBody) (i n crl : Nat) (h : CiSafe b i st) (hin : i ≤ n + crl)
    (hn : n + crl ≤ b.size) : CiSafe b (ciEOH st i n crl).1 (ciEOH st i n crl).2.2 := by
  unfold ciEOH
  cases st.state <;> simp only
  · exact h.mono hin hn
  · have := (ciSetCallID_safe h .fin).mono hin hn
    exact ⟨this.hi, Nat.zero_le _, this.fld, this.pnc⟩
  · have := h.mono hin hn
    exact ⟨this.hi, Nat.zero_le _, this.fld, this.pnc⟩
  · exact h.mono hin hn

/-- the property holds of the state a step moves to, at the position it moves to -/
def StepAll (S : Nat → σ → Prop) : Step σ → Prop
  | .cont i' st' => S i' st'
  | .done o _ st' => S o st'

theorem lwsStd_all (b : Buf) (i : Nat) (s1 : σ) (eoh : σ → Nat → Nat → Nat → Nat × Err × σ) (mb : σ → σ)
    (S : Nat → σ → Prop) (hi : i ≤ b.size)
    (hmono : ∀ n, i ≤ n → n ≤ b.size → S n s1)
    (hmb : ∀ n, i ≤ n → n ≤ b.size → S n (mb s1))
    (heoh : ∀ n crl, i ≤ n → n + crl ≤ b.size → 1 ≤ crl → S (eoh s1 i n crl).1 (eoh s1 i n crl).2.2) :
    StepAll S (lwsStd b i s1 eoh mb) := by
  rcases lwsStd_class b i s1 eoh mb hi with ⟨n, a1, a2, a3⟩ | ⟨n, crl, a1, a2, a4, a3⟩ | ⟨n, a1, a2, a3⟩ | ⟨n, a1, a2, a3⟩ <;> rw [a3]
  · exact hmono n a1 a2
  · exact heoh n crl a1 a2 a4
  · exact hmb n a1 a2
  · exact hmono n a1 a2

/-- every step of the Call-ID machine keeps the invariant, at the position it moves to -/
theorem ciStep_safe (b : Buf) (i : Nat) (c : UInt8) (st : PCallIDBody) (hb : b[i]? = some c) (h : CiSafe b i st) :
    StepAll (CiSafe b) (ciStep b i c st) := by
  have hlt := get?_lt hb
  have key : ∀ s1 : PCallIDBody, CiSafe b i s1 → StepAll (CiSafe b) (lwsStd b i s1 ciEOH id) := by
    intro s1 h1
    exact lwsStd_all b i s1 ciEOH id (CiSafe b) h1.hi (fun n a1 a2 => h1.mono a1 a2) (fun n a1 a2 => h1.mono a1 a2)
      (fun n crl a1 a2 a4 => ciEOH_safe b s1 i n crl h1 (by omega) a2)
  unfold ciStep
  by_cases hl : isLWSch c = true
  · rw [if_pos hl]
    cases hst : st.state <;> simp only
    · exact key _ h
    · exact key _ (ciSetCallID_safe h .fend)
    · exact key _ h
    · exact h.mono (by omega) (by omega)
  · rw [if_neg hl]
    cases hst : st.state <;> simp only
    · exact ⟨by omega, by simp, PField.inside_mono h.fld (by omega), h.pnc⟩
    · exact h.mono (by omega) (by omega)
    · exact h
    · exact h.mono (by omega) (by omega)

theorem runLoop_safe (m : Machine σ) (b : Buf) (S : Nat → σ → Prop) (hp : Progress m)
    (hstep : ∀ i c st, b[i]? = some c → S i st → StepAll S (m.step b i c st))
    (heob : ∀ i st, S i st → S (m.eob b i st).1 (m.eob b i st).2.2)
    (i : Nat) (st : σ) (h : S i st) : S (runLoop m b i st).1 (runLoop m b i st).2.2 :=
  runLoop_inv m b S (fun r => S r.1 r.2.2)
    (by
      intro j c s j' s' hb hP hs
      have := hstep j c s hb hP
      rw [hs] at this
      exact ⟨fun _ => this, fun hn => absurd (hp b j c s j' s' hb hs) hn⟩)
    (by
      intro j c s o e s' hb hP hs
      have := hstep j c s hb hP
      rw [hs] at this
      exact this)
    (by intro j s _ hP; exact heob j s hP)
    i st h

/-- **ParseCallIDVal never panics; the reported field lies before the returned offset, inside the buffer; the
    returned object is again a legitimate argument** -/
theorem parseCallIDVal_safe (b : Buf) (o : Nat) (st : PCallIDBody) (h : CiSafe b o st) :
    CiSafe b (parseCallIDVal b o st).1 (parseCallIDVal b o st).2.2 := by
  unfold parseCallIDVal
  split
  · exact h
  · exact runLoop_safe ciMachine b (CiSafe b) ci_progress (fun i c s hb hs => ciStep_safe b i c s hb hs)
      (fun i st hs => hs) o st h

/-! ### unsigned values (Expires, Content-Length) -/

structure ClSafe (b : Buf) (i : Nat) (st : PUIntBody) : Prop where
  hi : i ≤ b.size
  soffs : st.soffs ≤ i
  fld : st.sVal.inside i
  pnc : st.pnc = false

theorem ClSafe.mono {b : Buf} {i j : Nat} {st : PUIntBody} (h : ClSafe b i st) (hij : i ≤ j) (hj : j ≤ b.size) :
    ClSafe b j st := ⟨hj, by have := h.soffs; omega, PField.inside_mono h.fld hij, h.pnc⟩

theorem clSetSVal_safe {b : Buf} {i : Nat} {st : PUIntBody} (h : ClSafe b i st) (x : CLState) :
    ClSafe b i { clSetSVal st i with state := x } :=
  ⟨h.hi, h.soffs, set_inside _ _ _ h.soffs (Nat.le_refl _),
   by show (st.pnc || PField.setPanics st.soffs i) = false; rw [h.pnc, setPanics_false _ _ h.soffs]; rfl⟩

theorem clEOH_safe (b : Buf) (st : PUIntBody) (i n crl : Nat) (h : ClSafe b i st) (hin : i ≤ n + crl)
    (hn : n + crl ≤ b.size) : ClSafe b (clEOH st i n crl).1 (clEOH st i n crl).2.2 := by
  unfold clEOH
  cases st.state <;> simp only
  · exact h.mono hin hn
  · have := (clSetSVal_safe h .fin).mono hin hn
    exact ⟨this.hi, Nat.zero_le _, this.fld, this.pnc⟩
  · have := h.mono hin hn
    exact ⟨this.hi, Nat.zero_le _, this.fld, this.pnc⟩
  · exact h.mono hin hn

theorem clStep_safe (b : Buf) (i : Nat) (c : UInt8) (st : PUIntBody) (hb : b[i]? = some c) (h : ClSafe b i st) :
    StepAll (ClSafe b) (clStep b i c st) := by
  have hlt := get?_lt hb
  have key : ∀ s1 : PUIntBody, ClSafe b i s1 → StepAll (ClSafe b) (lwsStd b i s1 clEOH id) := by
    intro s1 h1
    exact lwsStd_all b i s1 clEOH id (ClSafe b) h1.hi (fun n a1 a2 => h1.mono a1 a2) (fun n a1 a2 => h1.mono a1 a2)
      (fun n crl a1 a2 a4 => clEOH_safe b s1 i n crl h1 (by omega) a2)
  unfold clStep
  by_cases hl : isLWSch c = true
  · rw [if_pos hl]
    cases hst : st.state <;> simp only
    · exact key _ h
    · exact key _ (clSetSVal_safe h .fend)
    · exact key _ h
    · exact h.mono (by omega) (by omega)
  · rw [if_neg hl]
    by_cases hd : isDigit c = true
    · rw [if_pos hd]
      cases hst : st.state <;> simp only
      · exact ⟨by omega, by simp, PField.inside_mono h.fld (by omega), h.pnc⟩
      · split
        · exact h
        · exact ⟨by omega, by have := h.soffs; simp; omega, PField.inside_mono h.fld (by omega), h.pnc⟩
      · exact h
      · exact h.mono (by omega) (by omega)
    · rw [if_neg hd]; exact h

theorem parseUIntVal_safe (b : Buf) (o : Nat) (st : PUIntBody) (h : ClSafe b o st) :
    ClSafe b (parseUIntVal b o st).1 (parseUIntVal b o st).2.2 := by
  unfold parseUIntVal
  split
  · exact h
  · exact runLoop_safe clMachine b (ClSafe b) cl_progress (fun i c s hb hs => clStep_safe b i c s hb hs)
      (fun i st hs => hs) o st h

/-- what a caller can rely on whatever the verdict: the field can be dereferenced, nothing panicked -/
def ClOut (b : Buf) (st : PUIntBody) : Prop := st.sVal.inside b.size ∧ st.pnc = false

theorem ClSafe.out {b : Buf} {i : Nat} {st : PUIntBody} (h : ClSafe b i st) : ClOut b st :=
  ⟨PField.inside_mono h.fld h.hi, h.pnc⟩

/-- ParseCLenVal: on its own "number too big" exit the offset points back at the value; otherwise as ParseUIntVal -/
theorem parseCLenVal_safe (b : Buf) (o : Nat) (st : PUIntBody) (h : ClSafe b o st) :
    ClOut b (parseCLenVal b o st).2.2 ∧
    ((parseCLenVal b o st).2.1 ≠ .numTooBig → ClSafe b (parseCLenVal b o st).1 (parseCLenVal b o st).2.2) ∧
    (parseCLenVal b o st).1 ≤ b.size := by
  have hs := parseUIntVal_safe b o st h
  unfold parseCLenVal
  rcases hp : parseUIntVal b o st with ⟨o1, e1, s1⟩
  rw [hp] at hs
  cases e1 <;> simp only
  case ok =>
    split
    · exact ⟨hs.out, (fun hh => absurd rfl hh),
        (by have h0 : s1.sVal.offs + s1.sVal.len ≤ b.size := hs.out.1; show s1.sVal.offs ≤ b.size; omega)⟩
    · exact ⟨hs.out, (fun _ => hs), hs.hi⟩
  all_goals exact ⟨hs.out, (fun _ => hs), hs.hi⟩

/-! ### CSeq -/

structure CsSafe (b : Buf) (i : Nat) (st : PCSeqBody) : Prop where
  hi : i ≤ b.size
  soffs : st.soffs ≤ i
  cseq : st.cseq.inside i
  method : st.method.inside i
  v : st.v.inside i
  pnc : st.pnc = false

theorem CsSafe.mono {b : Buf} {i j : Nat} {st : PCSeqBody} (h : CsSafe b i st) (hij : i ≤ j) (hj : j ≤ b.size) :
    CsSafe b j st :=
  ⟨hj, by have := h.soffs; omega, PField.inside_mono h.cseq hij, PField.inside_mono h.method hij,
   PField.inside_mono h.v hij, h.pnc⟩

def CsOut (b : Buf) (st : PCSeqBody) : Prop :=
  st.cseq.inside b.size ∧ st.method.inside b.size ∧ st.v.inside b.size ∧ st.pnc = false

theorem CsSafe.out {b : Buf} {i : Nat} {st : PCSeqBody} (h : CsSafe b i st) : CsOut b st :=
  ⟨PField.inside_mono h.cseq h.hi, PField.inside_mono h.method h.hi, PField.inside_mono h.v h.hi, h.pnc⟩

/-- what a finishing step guarantees: the object is sane, and — unless the offset points back at a number that
    is too big — the invariant holds at the returned offset -/
def CsT (b : Buf) (o : Nat) (e : Err) (st : PCSeqBody) : Prop :=
  CsOut b st ∧ o ≤ b.size ∧ (e ≠ .numTooBig → CsSafe b o st)

theorem CsT.of_safe {b : Buf} {o : Nat} {e : Err} {st : PCSeqBody} (h : CsSafe b o st) : CsT b o e st :=
  ⟨h.out, h.hi, fun _ => h⟩

theorem csSetMethod_safe {b : Buf} {i : Nat} {st : PCSeqBody} (h : CsSafe b i st) (x : CSState) :
    CsSafe b i { csSetMethod st i with state := x } := by
  have hv : st.v.offs ≤ i := by have := h.v; unfold PField.inside at this; omega
  exact ⟨h.hi, h.soffs, h.cseq, set_inside _ _ _ h.soffs (Nat.le_refl _), extend_inside _ _ _ hv (Nat.le_refl _),
    by show ((st.pnc || PField.setPanics st.soffs i) || st.v.extendPanics i) = false
       rw [h.pnc, setPanics_false _ _ h.soffs, extendPanics_false _ _ hv]; rfl⟩

theorem field_get?_some (b : Buf) (f : PField) (h : f.inside b.size) (hfit : b.size ≤ 65535) :
    ∃ x, f.get? b = some x := by
  unfold PField.get? PField.endT
  unfold PField.inside at h
  rw [trunc16_of_lt (by omega)]
  rw [if_pos ⟨by omega, h⟩]
  exact ⟨_, rfl⟩

theorem csFinish_safe (b : Buf) (st : PCSeqBody) (i n crl : Nat) (hfit : b.size ≤ 65535) (h : CsSafe b i st)
    (hin : i ≤ n + crl) (hn : n + crl ≤ b.size) :
    CsT b (csFinish st b n crl).1 (csFinish st b n crl).2.1 (csFinish st b n crl).2.2 := by
  unfold csFinish
  have h' := h.mono hin hn
  simp only
  split
  · exact ⟨⟨h'.out.1, h'.out.2.1, h'.out.2.2.1, h.pnc⟩,
      (by have h0 : st.cseq.offs + st.cseq.len ≤ b.size := h'.out.1; show st.cseq.offs ≤ b.size; omega), fun hh => absurd rfl hh⟩
  · obtain ⟨x, hx⟩ := field_get?_some b st.method (PField.inside_mono h.method h.hi) hfit
    rw [hx]
    exact CsT.of_safe ⟨h'.hi, Nat.zero_le _, h'.cseq, h'.method, h'.v, h'.pnc⟩

theorem csEOH_safe (b : Buf) (st : PCSeqBody) (i n crl : Nat) (hfit : b.size ≤ 65535) (h : CsSafe b i st)
    (hin : i ≤ n + crl) (hn : n + crl ≤ b.size) :
    CsT b (csEOH b st i n crl).1 (csEOH b st i n crl).2.1 (csEOH b st i n crl).2.2 := by
  unfold csEOH
  cases st.state <;> simp only
  all_goals first
    | exact csFinish_safe b st i n crl hfit h hin hn
    | exact csFinish_safe b _ i n crl hfit (csSetMethod_safe h st.state) hin hn
    | exact CsT.of_safe (h.mono hin hn)

/-- `S` at the position a continuing step moves to, `T` of what a finishing step returns -/
def StepAll2 (S : Nat → σ → Prop) (T : Nat → Err → σ → Prop) : Step σ → Prop
  | .cont i' st' => S i' st'
  | .done o e st' => T o e st'

theorem lwsStd_all2 (b : Buf) (i : Nat) (s1 : σ) (eoh : σ → Nat → Nat → Nat → Nat × Err × σ) (mb : σ → σ)
    (S : Nat → σ → Prop) (T : Nat → Err → σ → Prop) (hi : i ≤ b.size)
    (hcont : ∀ n, i ≤ n → n ≤ b.size → S n s1)
    (herr : ∀ n, i ≤ n → n ≤ b.size → T n .noCR s1)
    (hmb : ∀ n, i ≤ n → n ≤ b.size → T n .moreBytes (mb s1))
    (heoh : ∀ n crl, i ≤ n → n + crl ≤ b.size → 1 ≤ crl →
      T (eoh s1 i n crl).1 (eoh s1 i n crl).2.1 (eoh s1 i n crl).2.2) :
    StepAll2 S T (lwsStd b i s1 eoh mb) := by
  rcases lwsStd_class b i s1 eoh mb hi with ⟨n, a1, a2, a3⟩ | ⟨n, crl, a1, a2, a4, a3⟩ | ⟨n, a1, a2, a3⟩ | ⟨n, a1, a2, a3⟩ <;> rw [a3]
  · exact hcont n a1 a2
  · exact heoh n crl a1 a2 a4
  · exact hmb n a1 a2
  · exact herr n a1 a2

theorem runLoop_safe2 (m : Machine σ) (b : Buf) (S : Nat → σ → Prop) (T : Nat → Err → σ → Prop) (hp : Progress m)
    (hstep : ∀ i c st, b[i]? = some c → S i st → StepAll2 S T (m.step b i c st))
    (heob : ∀ i st, S i st → T (m.eob b i st).1 (m.eob b i st).2.1 (m.eob b i st).2.2)
    (i : Nat) (st : σ) (h : S i st) : T (runLoop m b i st).1 (runLoop m b i st).2.1 (runLoop m b i st).2.2 :=
  runLoop_inv m b S (fun r => T r.1 r.2.1 r.2.2)
    (by
      intro j c s j' s' hb hP hs
      have := hstep j c s hb hP
      rw [hs] at this
      exact ⟨fun _ => this, fun hn => absurd (hp b j c s j' s' hb hs) hn⟩)
    (by
      intro j c s o e s' hb hP hs
      have := hstep j c s hb hP
      rw [hs] at this
      exact this)
    (by intro j s _ hP; exact heob j s hP)
    i st h

theorem csStep_safe (b : Buf) (i : Nat) (c : UInt8) (st : PCSeqBody) (hfit : b.size ≤ 65535) (hb : b[i]? = some c)
    (h : CsSafe b i st) : StepAll2 (CsSafe b) (CsT b) (csStep b i c st) := by
  have hlt := get?_lt hb
  have key : ∀ s1 : PCSeqBody, CsSafe b i s1 → StepAll2 (CsSafe b) (CsT b) (lwsStd b i s1 (csEOH b) id) := by
    intro s1 h1
    exact lwsStd_all2 b i s1 (csEOH b) id (CsSafe b) (CsT b) h1.hi (fun n a1 a2 => h1.mono a1 a2)
      (fun n a1 a2 => CsT.of_safe (h1.mono a1 a2)) (fun n a1 a2 => CsT.of_safe (h1.mono a1 a2))
      (fun n crl a1 a2 a4 => csEOH_safe b s1 i n crl hfit h1 (by omega) a2)
  unfold csStep
  by_cases hl : isLWSch c = true
  · rw [if_pos hl]
    cases hst : st.state <;> simp only
    · exact key _ h
    · refine key _ ⟨h.hi, h.soffs, set_inside _ _ _ h.soffs (Nat.le_refl _), h.method,
        set_inside _ _ _ h.soffs (Nat.le_refl _), ?_⟩
      show (st.pnc || PField.setPanics st.soffs i) = false
      rw [h.pnc, setPanics_false _ _ h.soffs]; rfl
    · exact key _ h
    · exact key _ (csSetMethod_safe h .fend)
    · exact key _ h
    · exact h.mono (by omega) (by omega)
  · rw [if_neg hl]
    have hstepi : ∀ x : PCSeqBody, x.cseq = st.cseq → x.method = st.method → x.v = st.v → x.pnc = st.pnc →
        x.soffs ≤ i + 1 → CsSafe b (i + 1) x := by
      intro x e1 e2 e3 e4 e5
      exact ⟨by omega, e5, by rw [e1]; exact PField.inside_mono h.cseq (by omega),
        by rw [e2]; exact PField.inside_mono h.method (by omega), by rw [e3]; exact PField.inside_mono h.v (by omega),
        by rw [e4]; exact h.pnc⟩
    by_cases hd : isDigit c = true
    · rw [if_pos hd]
      cases hst : st.state <;> simp only
      · exact hstepi _ rfl rfl rfl rfl (by simp)
      · split
        · exact CsT.of_safe h
        · exact hstepi _ rfl rfl rfl rfl (by have := h.soffs; simp; omega)
      · exact hstepi _ rfl rfl rfl rfl (by simp)
      · exact h.mono (by omega) (by omega)
      · exact CsT.of_safe h
      · exact h.mono (by omega) (by omega)
    · rw [if_neg hd]
      cases hst : st.state <;> simp only
      · exact CsT.of_safe h
      · exact CsT.of_safe h
      · exact hstepi _ rfl rfl rfl rfl (by simp)
      · exact h.mono (by omega) (by omega)
      · exact CsT.of_safe h
      · exact h.mono (by omega) (by omega)

/-- **ParseCSeqVal never panics (buffers within the 65,535-byte limit); all reported fields can be dereferenced;
    unless it rejected an oversized number, the returned object is a legitimate argument at the returned offset** -/
theorem parseCSeqVal_safe (b : Buf) (o : Nat) (st : PCSeqBody) (hfit : b.size ≤ 65535) (h : CsSafe b o st) :
    CsT b (parseCSeqVal b o st).1 (parseCSeqVal b o st).2.1 (parseCSeqVal b o st).2.2 := by
  unfold parseCSeqVal
  split
  · exact CsT.of_safe h
  · exact runLoop_safe2 csMachine b (CsSafe b) (CsT b) cs_progress
      (fun i c s hb hs => csStep_safe b i c s hfit hb hs) (fun i st hs => CsT.of_safe hs) o st h

end Sipsp
