/-
  Sipsp.Proofs.SafeNA — ParseNameAddrPVal never panics and every field it reports can be dereferenced: the loop
  invariant `NaSafe` (saved positions and all reported fields lie before the current position, no panic so far)
  is preserved by every step.
-/
import Sipsp.Proofs.NameAddrRR

namespace Sipsp

/-- the field ends at or before position `n` (so it can be sliced out of any buffer of at least `n` bytes) -/
def PField.inside (f : PField) (n : Nat) : Prop := f.offs + f.len ≤ n

theorem PField.inside_mono {f : PField} {n m : Nat} (h : f.inside n) (hnm : n ≤ m) : f.inside m := by
  unfold PField.inside at *; omega

theorem set_inside (s e n : Nat) (h1 : s ≤ e) (h2 : e ≤ n) : (PField.set s e).inside n := by
  unfold PField.inside PField.set trunc16
  simp only
  have := Nat.mod_le s 65536
  have := Nat.mod_le (e - s) 65536
  omega

theorem extend_inside (p : PField) (e n : Nat) (h1 : p.offs ≤ e) (h2 : e ≤ n) : (p.extend e).inside n := by
  unfold PField.inside PField.extend trunc16
  simp only
  omega

theorem setPanics_false (s e : Nat) (h : s ≤ e) : PField.setPanics s e = false := by
  unfold PField.setPanics; simp; omega

theorem extendPanics_false (p : PField) (e : Nat) (h : p.offs ≤ e) : p.extendPanics e = false := by
  unfold PField.extendPanics; simp; omega

theorem PField.inside_zero (n : Nat) : ({} : PField).inside n := by unfold PField.inside; simp

/-- loop invariant: saved positions and reported fields lie at or before the current position; no panic so far -/
structure NaCore (b : Buf) (i : Nat) (pf : PFromBody) : Prop where
  hi : i ≤ b.size
  pend : pf.pend ≤ i
  vend : pf.vend ≤ i
  s : pf.s ≤ i
  name : pf.name.inside i
  uri : pf.uri.inside i
  tag : pf.tag.inside i
  params : pf.params.offs ≤ i ∧ pf.params.len = 0
  v : pf.v.inside i
  pnc : pf.pnc = false

structure NaSafe (b : Buf) (i : Nat) (pf : PFromBody) : Prop extends NaCore b i pf where
  /-- after white space following a parameter name / value, the value and parameter starts lie before the saved end -/
  endP : (pf.state = .paramNameEnd ∨ pf.state = .possibleParamNameEnd) → pf.v.offs ≤ pf.pend ∧ pf.params.offs ≤ pf.pend
  endV : (pf.state = .paramValEnd ∨ pf.state = .possibleValEnd) → pf.v.offs ≤ pf.vend ∧ pf.params.offs ≤ pf.vend

theorem NaCore.mono {b : Buf} {i j : Nat} {pf : PFromBody} (h : NaCore b i pf) (hij : i ≤ j) (hj : j ≤ b.size) :
    NaCore b j pf :=
  ⟨hj, by have := h.pend; omega, by have := h.vend; omega, by have := h.s; omega, PField.inside_mono h.name hij,
   PField.inside_mono h.uri hij, PField.inside_mono h.tag hij, ⟨by have := h.params.1; omega, h.params.2⟩,
   PField.inside_mono h.v hij, h.pnc⟩

theorem NaSafe.mono {b : Buf} {i j : Nat} {pf : PFromBody} (h : NaSafe b i pf) (hij : i ≤ j) (hj : j ≤ b.size) :
    NaSafe b j pf := ⟨h.toNaCore.mono hij hj, h.endP, h.endV⟩

macro "na_leaf" : tactic =>
  `(tactic| first | assumption | omega | (apply decide_eq_false; omega))

/-- arithmetic core: unfold the field updates and hand the inequalities to `omega` -/
macro "na_arith" : tactic =>
  `(tactic| (try dsimp only at *
             try simp only [PFromBody.setURI, PFromBody.setName, PFromBody.setV, PFromBody.extV, PFromBody.extParams,
               PFromBody.resetUPT, PFromBody.saveS, PField.inside, PField.set, PField.extend, PField.setPanics,
               PField.extendPanics, trunc16, Bool.or_eq_false_iff, Nat.not_lt,
               Bool.false_or, and_true, true_and] at *
             repeat' (apply And.intro)
             all_goals na_leaf))

/-- discharges one field of `NaSafe` for an updated object -/
macro "na_fld" : tactic =>
  `(tactic| first
      | assumption
      | omega
      | (dsimp only at *; assumption)
      | (intro hh
         rcases hh with hh | hh <;> first | (cases hh; done) | na_arith)
      | na_arith)

theorem naLWS_safe (h : Nat) (b : Buf) (i : Nat) (pf : PFromBody) (hI : NaSafe b i pf)
    {i' : Nat} {st' : PFromBody} (hs : naLWS h b i pf = .cont i' st') : NaSafe b i' st' := by
  unfold naLWS lwsStd at hs
  rcases hsk : skipLWS b i 0 with ⟨n, crl, e⟩
  rw [hsk] at hs
  cases e <;> simp only at hs <;> cases hs
  have hr := skipLWS_range b i 0 hsk
  exact hI.mono hr.1 (hr.2 hI.hi)

theorem naStepA_safe (h : Nat) (b : Buf) (i : Nat) (c : UInt8) (pf : PFromBody) (hb : b[i]? = some c)
    (hI : NaSafe b i pf) {i' : Nat} {st' : PFromBody} (hs : naStepA h b i c pf = .cont i' st') :
    NaSafe b i' st' := by
  have hib := get?_lt hb
  obtain ⟨⟨h1, h2, h3, h4, h5, h6, h7, h8, h9, h10⟩, h11, h12⟩ := hI
  unfold naStepA at hs
  repeat' (split at hs)
  all_goals first
    | (refine naLWS_safe h b i _ ?_ hs
       refine ⟨⟨?_, ?_, ?_, ?_, ?_, ?_, ?_, ?_, ?_, ?_⟩, ?_, ?_⟩ <;> na_fld)
    | exact absurd hs (naMoreValues_not_cont h b _ i)
    | (cases hs
       refine ⟨⟨?_, ?_, ?_, ?_, ?_, ?_, ?_, ?_, ?_, ?_⟩, ?_, ?_⟩ <;> na_fld)
    | cases hs

theorem slice?_some (b : Buf) (lo hi : Nat) (h1 : lo ≤ hi) (h2 : hi ≤ b.size) :
    slice? b lo hi = some (b.extract lo hi) := by
  unfold slice?; rw [if_pos ⟨h1, h2⟩]

theorem setQ_same (pf : PFromBody) (val : List UInt8) :
    (setQ pf val).name = pf.name ∧ (setQ pf val).uri = pf.uri ∧ (setQ pf val).tag = pf.tag ∧
    (setQ pf val).params = pf.params ∧ (setQ pf val).v = pf.v ∧ (setQ pf val).s = pf.s ∧ (setQ pf val).pnc = pf.pnc := by
  unfold setQ; dsimp only; repeat' split
  all_goals exact ⟨rfl, rfl, rfl, rfl, rfl, rfl, rfl⟩

/-- storing a parameter value keeps the invariant (the name and value ranges lie inside the buffer, so slicing
    them cannot panic) -/
theorem setFromParamVal_safe (b : Buf) (i : Nat) (pf : PFromBody) (h : NaCore b i pf) :
    NaCore b i (setFromParamVal b pf) := by
  obtain ⟨h1, h2, h3, h4, h5, h6, h7, h8, h9, h10⟩ := h
  unfold setFromParamVal
  by_cases c1 : (decide (pf.pstart < pf.pend) && decide (pf.vstart < pf.vend)) = true
  · rw [if_pos c1]
    simp only [Bool.and_eq_true, decide_eq_true_eq] at c1
    rw [slice?_some b pf.pstart pf.pend (by omega) (by omega), slice?_some b pf.vstart pf.vend (by omega) (by omega)]
    simp only
    have hq := setQ_same pf (b.extract pf.vstart pf.vend).toList
    repeat' split
    all_goals
      constructor <;>
        first
          | assumption
          | (simp only [PFromBody.clearPV, setExpires]; first | assumption | omega)
          | (simp only [PFromBody.clearPV]; exact set_inside _ _ _ (by omega) (by omega))
          | (simp only [PFromBody.clearPV, hq.1, hq.2.1, hq.2.2.1, hq.2.2.2.1, hq.2.2.2.2.1, hq.2.2.2.2.2.1, hq.2.2.2.2.2.2]
             first | assumption | omega)
  · rw [if_neg c1]
    by_cases c2 : (decide (pf.pstart < pf.pend) && pf.vstart == pf.vend) = true
    · rw [if_pos c2]
      simp only [Bool.and_eq_true, decide_eq_true_eq] at c2
      rw [slice?_some b pf.pstart pf.pend (by omega) (by omega)]
      simp only
      split
      all_goals
        constructor <;>
          first
            | assumption
            | (simp only [PFromBody.clearPV]; first | assumption | omega)
    · rw [if_neg c2]
      constructor <;>
        first
          | assumption
          | (simp only [PFromBody.clearPV]; first | assumption | omega)

/-- … used when a parameter has just been completed: the state is "new parameter", so the conditional fields
    of the invariant are vacuous -/
theorem setFromParamVal_safe' (b : Buf) (i : Nat) (pf : PFromBody) (h : NaCore b i pf)
    (hst : pf.state = .newParam ∨ pf.state = .newPossibleParam) : NaSafe b i (setFromParamVal b pf) := by
  refine ⟨setFromParamVal_safe b i pf h, ?_, ?_⟩
  · rw [setFromParamVal_state]; intro hh
    rcases hst with hst | hst <;> rw [hst] at hh <;> rcases hh with hh | hh <;> cases hh
  · rw [setFromParamVal_state]; intro hh
    rcases hst with hst | hst <;> rw [hst] at hh <;> rcases hh with hh | hh <;> cases hh

theorem naStepQ_safe (h : Nat) (b : Buf) (i : Nat) (c : UInt8) (pf : PFromBody) (hb : b[i]? = some c)
    (hI : NaSafe b i pf) {i' : Nat} {st' : PFromBody} (hs : naStepQ h b i c pf = .cont i' st') :
    NaSafe b i' st' := by
  have hib := get?_lt hb
  have hI' := hI
  obtain ⟨⟨h1, h2, h3, h4, h5, h6, h7, h8, h9, h10⟩, h11, h12⟩ := hI
  unfold naStepQ at hs
  repeat' (split at hs)
  all_goals first
    | exact naLWS_safe h b i _ hI' hs
    | (cases hs; rename_i hb1 _; have := get?_lt hb1; exact hI'.mono (by omega) (by omega))
    | (cases hs
       refine ⟨⟨?_, ?_, ?_, ?_, ?_, ?_, ?_, ?_, ?_, ?_⟩, ?_, ?_⟩ <;> na_fld)
    | cases hs

theorem naStepU_safe (b : Buf) (i : Nat) (c : UInt8) (pf : PFromBody) (hb : b[i]? = some c)
    (hI : NaSafe b i pf) {i' : Nat} {st' : PFromBody} (hs : naStepU i c pf = .cont i' st') :
    NaSafe b i' st' := by
  have hib := get?_lt hb
  obtain ⟨⟨h1, h2, h3, h4, h5, h6, h7, h8, h9, h10⟩, h11, h12⟩ := hI
  unfold naStepU at hs
  repeat' (split at hs)
  all_goals first
    | (cases hs
       refine ⟨⟨?_, ?_, ?_, ?_, ?_, ?_, ?_, ?_, ?_, ?_⟩, ?_, ?_⟩ <;> na_fld)
    | cases hs

theorem naStepUF_safe (h : Nat) (b : Buf) (i : Nat) (c : UInt8) (pf : PFromBody) (hb : b[i]? = some c)
    (hI : NaSafe b i pf) {i' : Nat} {st' : PFromBody} (hs : naStepUF h b i c pf = .cont i' st') :
    NaSafe b i' st' := by
  have hib := get?_lt hb
  have hI' := hI
  obtain ⟨⟨h1, h2, h3, h4, h5, h6, h7, h8, h9, h10⟩, h11, h12⟩ := hI
  unfold naStepUF at hs
  repeat' (split at hs)
  all_goals first
    | exact naLWS_safe h b i _ hI' hs
    | exact absurd hs (naMoreValues_not_cont h b _ i)
    | (cases hs
       refine ⟨⟨?_, ?_, ?_, ?_, ?_, ?_, ?_, ?_, ?_, ?_⟩, ?_, ?_⟩ <;> na_fld)
    | cases hs

theorem naStepStar_safe (h : Nat) (b : Buf) (i : Nat) (c : UInt8) (pf : PFromBody)
    (hI : NaSafe b i pf) {i' : Nat} {st' : PFromBody} (hs : naStepStar h b i c pf = .cont i' st') :
    NaSafe b i' st' := by
  unfold naStepStar at hs
  split at hs
  · exact naLWS_safe h b i _ hI hs
  · cases hs

theorem naNameWS_safe (b : Buf) (i n : Nat) (pf : PFromBody) (hI : NaSafe b i pf) (hin : i ≤ n) (hn : n ≤ b.size) :
    NaSafe b n (naNameWS pf i) := by
  obtain ⟨⟨h1, h2, h3, h4, h5, h6, h7, h8, h9, h10⟩, h11, h12⟩ := hI
  unfold naNameWS
  repeat' split
  all_goals
    refine ⟨⟨?_, ?_, ?_, ?_, ?_, ?_, ?_, ?_, ?_, ?_⟩, ?_, ?_⟩ <;> na_fld

theorem naValWS_safe (b : Buf) (i n : Nat) (pf : PFromBody) (ok : Bool) (hI : NaSafe b i pf) (hin : i ≤ n)
    (hn : n ≤ b.size) : NaSafe b n (naValWS pf i n ok) := by
  obtain ⟨⟨h1, h2, h3, h4, h5, h6, h7, h8, h9, h10⟩, h11, h12⟩ := hI
  unfold naValWS
  repeat' split
  all_goals
    refine ⟨⟨?_, ?_, ?_, ?_, ?_, ?_, ?_, ?_, ?_, ?_⟩, ?_, ?_⟩ <;> na_fld

theorem naParam_state (pf : PFromBody) (i : Nat)
    (hg : pf.state = .newParam ∨ pf.state = .newPossibleParam ∨ pf.state = .paramName ∨ pf.state = .possibleParamName) :
    (naParamsOffs (naParamStart pf i) i).state = .paramName ∨ (naParamsOffs (naParamStart pf i) i).state = .possibleParamName := by
  unfold naParamsOffs naParamStart
  rcases hg with g | g | g | g <;> simp only [g] <;> (repeat' split) <;> simp_all

theorem naParam_safe (b : Buf) (i : Nat) (pf : PFromBody) (hI : NaSafe b i pf) (hlt : i < b.size)
    (hg : pf.state = .newParam ∨ pf.state = .newPossibleParam ∨ pf.state = .paramName ∨ pf.state = .possibleParamName) :
    NaSafe b (i + 1) (naParamsOffs (naParamStart pf i) i) := by
  have hst := naParam_state pf i hg
  refine ⟨?_, ?_, ?_⟩
  · obtain ⟨⟨h1, h2, h3, h4, h5, h6, h7, h8, h9, h10⟩, h11, h12⟩ := hI
    unfold naParamsOffs naParamStart
    have hm := Nat.mod_le i 65536
    repeat' split
    all_goals
      refine ⟨?_, ?_, ?_, ?_, ?_, ?_, ?_, ?_, ?_, ?_⟩ <;> na_fld
  · intro hh; rcases hst with g | g <;> rw [g] at hh <;> rcases hh with hh | hh <;> cases hh
  · intro hh; rcases hst with g | g <;> rw [g] at hh <;> rcases hh with hh | hh <;> cases hh

theorem naStepP_safe (h : Nat) (b : Buf) (i : Nat) (c : UInt8) (pf : PFromBody) (hb : b[i]? = some c)
    (hg : pf.state = .newParam ∨ pf.state = .newPossibleParam ∨ pf.state = .paramName ∨ pf.state = .possibleParamName)
    (hI : NaSafe b i pf) {i' : Nat} {st' : PFromBody} (hs : naStepP h b i c pf = .cont i' st') :
    NaSafe b i' st' := by
  have hib := get?_lt hb
  have hI' := hI
  obtain ⟨⟨h1, h2, h3, h4, h5, h6, h7, h8, h9, h10⟩, h11, h12⟩ := hI
  unfold naStepP at hs
  split at hs
  · rcases hsk : skipLWS b i 0 with ⟨n, crl, e⟩
    rw [hsk] at hs
    cases e <;> simp only at hs <;> cases hs
    have hr := skipLWS_range b i 0 hsk
    exact naNameWS_safe b i _ pf hI' hr.1 (hr.2 h1)
  · repeat' (split at hs)
    all_goals first
      | exact absurd hs (naMoreValues_not_cont h b _ i)
      | (cases hs
         refine setFromParamVal_safe' b _ _ ?_ (by first | exact Or.inl rfl | exact Or.inr rfl)
         refine ⟨?_, ?_, ?_, ?_, ?_, ?_, ?_, ?_, ?_, ?_⟩ <;> na_fld)
      | (cases hs; exact naParam_safe b i pf hI' hib hg)
      | (cases hs
         refine ⟨⟨?_, ?_, ?_, ?_, ?_, ?_, ?_, ?_, ?_, ?_⟩, ?_, ?_⟩ <;> na_fld)
      | cases hs

theorem naStepPE_safe (h : Nat) (b : Buf) (i : Nat) (c : UInt8) (pf : PFromBody) (hb : b[i]? = some c)
    (hI : NaSafe b i pf) {i' : Nat} {st' : PFromBody} (hs : naStepPE h b i c pf = .cont i' st') :
    NaSafe b i' st' := by
  have hib := get?_lt hb
  obtain ⟨⟨h1, h2, h3, h4, h5, h6, h7, h8, h9, h10⟩, h11, h12⟩ := hI
  unfold naStepPE at hs
  repeat' (split at hs)
  all_goals first
    | exact absurd hs (naCommaAfterWS_not_cont h b _ i _)
    | (cases hs
       refine setFromParamVal_safe' b _ _ ?_ (by first | exact Or.inl rfl | exact Or.inr rfl)
       refine ⟨?_, ?_, ?_, ?_, ?_, ?_, ?_, ?_, ?_, ?_⟩ <;> na_fld)
    | (cases hs
       refine ⟨⟨?_, ?_, ?_, ?_, ?_, ?_, ?_, ?_, ?_, ?_⟩, ?_, ?_⟩ <;> na_fld)
    | cases hs

theorem naStepV_safe (h : Nat) (b : Buf) (i : Nat) (c : UInt8) (pf : PFromBody) (hb : b[i]? = some c)
    (hI : NaSafe b i pf) {i' : Nat} {st' : PFromBody} (hs : naStepV h b i c pf = .cont i' st') :
    NaSafe b i' st' := by
  have hib := get?_lt hb
  have hI' := hI
  obtain ⟨⟨h1, h2, h3, h4, h5, h6, h7, h8, h9, h10⟩, h11, h12⟩ := hI
  unfold naStepV at hs
  split at hs
  · rcases hsk : skipLWS b i 0 with ⟨n, crl, e⟩
    rw [hsk] at hs
    cases e <;> simp only at hs <;> cases hs
    have hr := skipLWS_range b i 0 hsk
    exact naValWS_safe b i _ pf true hI' hr.1 (hr.2 h1)
  · repeat' (split at hs)
    all_goals first
      | exact absurd hs (naMoreValues_not_cont h b _ i)
      | (cases hs
         refine setFromParamVal_safe' b _ _ ?_ (by first | exact Or.inl rfl | exact Or.inr rfl)
         refine ⟨?_, ?_, ?_, ?_, ?_, ?_, ?_, ?_, ?_, ?_⟩ <;> na_fld)
      | (cases hs
         refine ⟨⟨?_, ?_, ?_, ?_, ?_, ?_, ?_, ?_, ?_, ?_⟩, ?_, ?_⟩ <;> na_fld)
      | cases hs

theorem naStepVE_safe (h : Nat) (b : Buf) (i : Nat) (c : UInt8) (pf : PFromBody) (hb : b[i]? = some c)
    (hI : NaSafe b i pf) {i' : Nat} {st' : PFromBody} (hs : naStepVE h b i c pf = .cont i' st') :
    NaSafe b i' st' := by
  have hib := get?_lt hb
  obtain ⟨⟨h1, h2, h3, h4, h5, h6, h7, h8, h9, h10⟩, h11, h12⟩ := hI
  unfold naStepVE at hs
  repeat' (split at hs)
  all_goals first
    | exact absurd hs (naCommaAfterWS_not_cont h b _ i _)
    | (cases hs
       refine setFromParamVal_safe' b _ _ ?_ (by first | exact Or.inl rfl | exact Or.inr rfl)
       refine ⟨?_, ?_, ?_, ?_, ?_, ?_, ?_, ?_, ?_, ?_⟩ <;> na_fld)
    | (cases hs
       refine ⟨⟨?_, ?_, ?_, ?_, ?_, ?_, ?_, ?_, ?_, ?_⟩, ?_, ?_⟩ <;> na_fld)
    | cases hs

/-- **the invariant is preserved by every continuing step** -/
theorem na_safeCont (h : Nat) (b : Buf) : InvCont (naMachine h) b (NaSafe b) := by
  intro i c pf i' st' hb hI hs _
  change naStep h b i c pf = .cont i' st' at hs
  unfold naStep at hs
  split at hs
  all_goals first
    | exact naStepA_safe h b i c pf hb hI hs
    | exact naStepQ_safe h b i c pf hb hI hs
    | exact naStepU_safe b i c pf hb hI hs
    | exact naStepUF_safe h b i c pf hb hI hs
    | exact naStepP_safe h b i c pf hb (by simp [*]) hI hs
    | exact naStepPE_safe h b i c pf hb hI hs
    | exact naStepV_safe h b i c pf hb hI hs
    | exact naStepVE_safe h b i c pf hb hI hs
    | exact naStepStar_safe h b i c pf hI hs
    | (cases hs; have := get?_lt hb; exact hI.mono (by omega) (by omega))

/-! ### what a returned object looks like -/

/-- every reported field ends at or before `o`, which lies inside the buffer; no panic happened -/
structure NaOut (b : Buf) (o : Nat) (pf : PFromBody) : Prop where
  ho : o ≤ b.size
  name : pf.name.inside o
  uri : pf.uri.inside o
  tag : pf.tag.inside o
  params : pf.params.inside o
  v : pf.v.inside o
  pnc : pf.pnc = false

theorem NaCore.out {b : Buf} {i : Nat} {pf : PFromBody} (h : NaCore b i pf) : NaOut b i pf :=
  ⟨h.hi, h.name, h.uri, h.tag, by have := h.params; unfold PField.inside; omega, h.v, h.pnc⟩

theorem NaSafe.out {b : Buf} {i : Nat} {pf : PFromBody} (h : NaSafe b i pf) : NaOut b i pf := h.toNaCore.out

theorem NaOut.mono {b : Buf} {i j : Nat} {pf : PFromBody} (h : NaOut b i pf) (hij : i ≤ j) (hj : j ≤ b.size) :
    NaOut b j pf :=
  ⟨hj, PField.inside_mono h.name hij, PField.inside_mono h.uri hij, PField.inside_mono h.tag hij,
   PField.inside_mono h.params hij, PField.inside_mono h.v hij, h.pnc⟩

theorem NaOut.extV {b : Buf} {i : Nat} {pf : PFromBody} (h : NaOut b i pf) (e : Nat) (he : e ≤ i)
    (hv : pf.v.offs ≤ e) : NaOut b i (pf.extV e) := by
  obtain ⟨h1, h2, h3, h4, h5, h6, h7⟩ := h
  exact ⟨h1, h2, h3, h4, h5, extend_inside _ _ _ hv he,
    by show (pf.pnc || pf.v.extendPanics e) = false; rw [h7, extendPanics_false _ _ hv]; rfl⟩

theorem NaOut.extParams {b : Buf} {i : Nat} {pf : PFromBody} (h : NaOut b i pf) (e : Nat) (he : e ≤ i)
    (hp : pf.params.offs ≤ e) : NaOut b i (pf.extParams e) := by
  obtain ⟨h1, h2, h3, h4, h5, h6, h7⟩ := h
  exact ⟨h1, h2, h3, h4, extend_inside _ _ _ hp he, h6,
    by show (pf.pnc || pf.params.extendPanics e) = false; rw [h7, extendPanics_false _ _ hp]; rfl⟩

theorem NaOut.setURI {b : Buf} {i : Nat} {pf : PFromBody} (h : NaOut b i pf) (s e : Nat) (hs : s ≤ e) (he : e ≤ i) :
    NaOut b i (pf.setURI s e) := by
  obtain ⟨h1, h2, h3, h4, h5, h6, h7⟩ := h
  exact ⟨h1, h2, set_inside _ _ _ hs he, h4, h5, h6,
    by show (pf.pnc || PField.setPanics s e) = false; rw [h7, setPanics_false _ _ hs]; rfl⟩

theorem setFromParamVal_vp (b : Buf) (pf : PFromBody) :
    (setFromParamVal b pf).v = pf.v ∧ (setFromParamVal b pf).params = pf.params := by
  unfold setFromParamVal
  have hq := fun val => setQ_same pf val
  repeat' split
  all_goals first
    | exact ⟨rfl, rfl⟩
    | (simp only [PFromBody.clearPV, setExpires]; exact ⟨rfl, rfl⟩)
    | (simp only [PFromBody.clearPV]; exact ⟨(hq _).2.2.2.2.1, (hq _).2.2.2.1⟩)

/-- the end-of-value code, run with the value end `e` (the current position, or the position before trailing
    white space): every field of the result ends at or before the current position `i` -/
theorem naEOHParamName_out (b : Buf) (pf : PFromBody) (i e : Nat) (hI : NaCore b i pf) (he : e ≤ i)
    (hv : pf.v.offs ≤ e) (hp : pf.params.offs ≤ e) : NaOut b i (naEOHParamName b pf e) := by
  unfold naEOHParamName
  have h1 : NaCore b i (if pf.state == .paramName || pf.state == .possibleParamName then { pf with pend := e } else pf) ∧
      (if pf.state == .paramName || pf.state == .possibleParamName then { pf with pend := e } else pf).v = pf.v ∧
      (if pf.state == .paramName || pf.state == .possibleParamName then { pf with pend := e } else pf).params = pf.params := by
    split
    · obtain ⟨h1, h2, h3, h4, h5, h6, h7, h8, h9, h10⟩ := hI
      exact ⟨by refine ⟨?_, ?_, ?_, ?_, ?_, ?_, ?_, ?_, ?_, ?_⟩ <;> na_fld, rfl, rfl⟩
    · exact ⟨hI, rfl, rfl⟩
  simp only
  generalize (if pf.state == .paramName || pf.state == .possibleParamName then { pf with pend := e } else pf) = pf1 at h1 ⊢
  obtain ⟨h1, h1v, h1p⟩ := h1
  have h2 : NaCore b i (if pf1.pstart < pf1.pend then setFromParamVal b pf1 else pf1) ∧
      (if pf1.pstart < pf1.pend then setFromParamVal b pf1 else pf1).v = pf.v ∧
      (if pf1.pstart < pf1.pend then setFromParamVal b pf1 else pf1).params = pf.params := by
    split
    · have := setFromParamVal_vp b pf1
      exact ⟨setFromParamVal_safe b i pf1 h1, by rw [this.1, h1v], by rw [this.2, h1p]⟩
    · exact ⟨h1, h1v, h1p⟩
  generalize (if pf1.pstart < pf1.pend then setFromParamVal b pf1 else pf1) = pf2 at h2 ⊢
  obtain ⟨h2, h2v, h2p⟩ := h2
  split
  · exact (h2.out.extParams e he (by rw [h2p]; exact hp)).extV e he (by show pf2.v.offs ≤ e; rw [h2v]; exact hv)
  · exact h2.out.extV e he (by rw [h2v]; exact hv)

theorem naEOHVal_out (b : Buf) (pf : PFromBody) (i e : Nat) (hI : NaCore b i pf) (he : e ≤ i)
    (hv : pf.v.offs ≤ e) (hp : pf.params.offs ≤ e) : NaOut b i (naEOHVal b pf e) := by
  unfold naEOHVal
  have sfp := setFromParamVal_vp b { pf with vend := e }
  have hc : NaCore b i { pf with vend := e } := by
    obtain ⟨h1, h2, h3, h4, h5, h6, h7, h8, h9, h10⟩ := hI
    refine ⟨?_, ?_, ?_, ?_, ?_, ?_, ?_, ?_, ?_, ?_⟩ <;> na_fld
  exact ((setFromParamVal_safe b i _ hc).out.extParams e he (by rw [sfp.2]; exact hp)).extV e he
    (by show (setFromParamVal b _).v.offs ≤ e; rw [sfp.1]; exact hv)

theorem naEOH_out (h : Nat) (b : Buf) (pf : PFromBody) (i e n crl : Nat) (r : Err) (hI : NaCore b i pf) (he : e ≤ i)
    (hv : pf.v.offs ≤ e) (hp : pf.params.offs ≤ e) (hs : pf.state = .nameOrURI → pf.s ≤ e)
    (hin : i ≤ n + crl) (hn : n + crl ≤ b.size) :
    NaOut b (naEOH h b pf e n crl r).1 (naEOH h b pf e n crl r).2.2 := by
  rw [naEOH_fst]
  have fin_out : ∀ p : PFromBody, NaOut b i p → NaOut b (n + crl) { p with state := .fin, soffs := 0, type := h } := by
    intro p hp
    have := hp.mono hin hn
    exact ⟨this.ho, this.name, this.uri, this.tag, this.params, this.v, this.pnc⟩
  have sfp := setFromParamVal_vp b
  unfold naEOH
  cases hst : pf.state <;> simp only [naFinish]
  all_goals first
    | exact fin_out _ hI.out
    | exact fin_out _ ((hI.out.setURI pf.s e (hs hst) he).extV e he hv)
    | exact fin_out _ (naEOHParamName_out b pf i e hI he hv hp)
    | exact fin_out _ (((setFromParamVal_safe b i pf hI).out.extParams e he (by rw [(sfp pf).2]; exact hp)).extV e he
        (by show (setFromParamVal b pf).v.offs ≤ e; rw [(sfp pf).1]; exact hv))
    | exact fin_out _ (naEOHVal_out b pf i e hI he hv hp)
    | (refine fin_out _ (naEOHVal_out b _ i e ?_ he hv hp)
       obtain ⟨h1, h2, h3, h4, h5, h6, h7, h8, h9, h10⟩ := hI
       refine ⟨?_, ?_, ?_, ?_, ?_, ?_, ?_, ?_, ?_, ?_⟩ <;> na_fld)
    | exact hI.out.mono hin hn
    | (have := hI.out.mono hin hn
       exact ⟨this.ho, this.name, this.v, this.tag, this.params, this.v, this.pnc⟩)

/-! ### every exit of the loop body -/

/-- what holds of a finishing step: the returned object is sane at the returned offset, and after MoreBytes it
    satisfies the loop invariant there (so the next call starts from a legitimate object) -/
def NaDone (b : Buf) (o : Nat) (e : Err) (st' : PFromBody) : Prop :=
  NaOut b o st' ∧ (e = .moreBytes → NaSafe b o st' ∧ st'.soffs = st'.s)

theorem NaSafe.saveS {b : Buf} {i : Nat} {pf : PFromBody} (h : NaSafe b i pf) : NaSafe b i pf.saveS :=
  ⟨⟨h.hi, h.pend, h.vend, h.s, h.name, h.uri, h.tag, h.params, h.v, h.pnc⟩, h.endP, h.endV⟩

theorem NaDone.err {b : Buf} {i : Nat} {e : Err} {pf : PFromBody} (h : NaSafe b i pf) (he : e ≠ .moreBytes) :
    NaDone b i e pf := ⟨h.out, fun hh => absurd hh he⟩

theorem naEOH_done (h : Nat) (b : Buf) (pf : PFromBody) (i e n crl : Nat) (r : Err) (hr : r ≠ .moreBytes)
    (hI : NaCore b i pf) (he : e ≤ i) (hv : pf.v.offs ≤ e) (hp : pf.params.offs ≤ e)
    (hs : pf.state = .nameOrURI → pf.s ≤ e) (hin : i ≤ n + crl) (hn : n + crl ≤ b.size) :
    NaDone b (naEOH h b pf e n crl r).1 (naEOH h b pf e n crl r).2.1 (naEOH h b pf e n crl r).2.2 :=
  ⟨naEOH_out h b pf i e n crl r hI he hv hp hs hin hn, fun hh => absurd hh (naEOH_ne_more h b pf e n crl r hr)⟩

theorem NaCore.voffs {b : Buf} {i : Nat} {pf : PFromBody} (h : NaCore b i pf) : pf.v.offs ≤ i := by
  have := h.v; unfold PField.inside at this; omega

theorem naLWS_done (h : Nat) (b : Buf) (i : Nat) (pf : PFromBody) (hI : NaSafe b i pf)
    {o : Nat} {e : Err} {st' : PFromBody} (hs : naLWS h b i pf = .done o e st') : NaDone b o e st' := by
  unfold naLWS lwsStd at hs
  rcases hsk : skipLWS b i 0 with ⟨n, crl, e1⟩
  rw [hsk] at hs
  have hr := skipLWS_range b i 0 hsk
  have hv := skipLWS_verdicts b i 0 hsk
  rcases hv with rfl | rfl | rfl | rfl <;> simp only at hs
  · cases hs
  · simp only [Step.done.injEq] at hs
    obtain ⟨rfl, rfl, rfl⟩ := hs
    have hrg := skipLWS_eoh_range b i 0 hsk (by decide)
    exact naEOH_done h b pf i i n crl .ok (by decide) hI.toNaCore (Nat.le_refl _) hI.toNaCore.voffs hI.params.1
      (fun _ => hI.s) (by omega) (by omega)
  · cases hs; exact NaDone.err (hI.mono hr.1 (hr.2 hI.hi)) (by decide)
  · cases hs; exact ⟨(hI.mono hr.1 (hr.2 hI.hi)).saveS.out, fun _ => ⟨(hI.mono hr.1 (hr.2 hI.hi)).saveS, rfl⟩⟩

theorem naMoreValues_done (h : Nat) (b : Buf) (pf : PFromBody) (i : Nat) (hlt : i < b.size) (hI : NaSafe b i pf)
    {o : Nat} {e : Err} {st' : PFromBody} (hs : naMoreValues h b pf i = .done o e st') : NaDone b o e st' := by
  unfold naMoreValues at hs
  simp only [Step.done.injEq] at hs
  obtain ⟨rfl, rfl, rfl⟩ := hs
  exact naEOH_done h b pf i i i 1 .moreValues (by decide) hI.toNaCore (Nat.le_refl _) hI.toNaCore.voffs hI.params.1
    (fun _ => hI.s) (by omega) (by omega)

theorem naCommaAfterWS_done (h : Nat) (b : Buf) (pf : PFromBody) (i e : Nat) (hlt : i < b.size) (hI : NaSafe b i pf)
    (he : e ≤ i) (hv : pf.v.offs ≤ e) (hp : pf.params.offs ≤ e) (hst : pf.state ≠ .nameOrURI)
    {o : Nat} {e' : Err} {st' : PFromBody} (hs : naCommaAfterWS h b pf i e = .done o e' st') : NaDone b o e' st' := by
  unfold naCommaAfterWS at hs
  split at hs
  · simp only [Step.done.injEq] at hs
    obtain ⟨rfl, rfl, rfl⟩ := hs
    exact naEOH_done h b pf i e i 1 .moreValues (by decide) hI.toNaCore he hv hp (fun hh => absurd hh hst) (by omega) (by omega)
  · cases hs; exact NaDone.err hI (by decide)

theorem naStepA_done (h : Nat) (b : Buf) (i : Nat) (c : UInt8) (pf : PFromBody) (hb : b[i]? = some c)
    (hI : NaSafe b i pf) {o : Nat} {e : Err} {st' : PFromBody} (hs : naStepA h b i c pf = .done o e st') :
    NaDone b o e st' := by
  have hib := get?_lt hb
  have hI' := hI
  obtain ⟨⟨h1, h2, h3, h4, h5, h6, h7, h8, h9, h10⟩, h11, h12⟩ := hI
  unfold naStepA at hs
  repeat' (split at hs)
  all_goals first
    | exact naLWS_done h b i _ hI' hs
    | (refine naLWS_done h b i _ ?_ hs
       refine ⟨⟨?_, ?_, ?_, ?_, ?_, ?_, ?_, ?_, ?_, ?_⟩, ?_, ?_⟩ <;> na_fld)
    | exact naMoreValues_done h b _ i hib hI' hs
    | (cases hs <;> exact NaDone.err hI' (by decide))

theorem naStepQ_done (h : Nat) (b : Buf) (i : Nat) (c : UInt8) (pf : PFromBody) (hb : b[i]? = some c)
    (hI : NaSafe b i pf) {o : Nat} {e : Err} {st' : PFromBody} (hs : naStepQ h b i c pf = .done o e st') :
    NaDone b o e st' := by
  have hib := get?_lt hb
  unfold naStepQ at hs
  repeat' (split at hs)
  all_goals first
    | exact naLWS_done h b i _ hI hs
    | (cases hs; rename_i hb1 _; have := get?_lt hb1; exact NaDone.err (hI.mono (by omega) (by omega)) (by decide))
    | (cases hs; exact ⟨hI.saveS.out, fun _ => ⟨hI.saveS, rfl⟩⟩)
    | (cases hs <;> exact NaDone.err hI (by decide))

theorem naStepU_done (b : Buf) (i : Nat) (c : UInt8) (pf : PFromBody)
    (hI : NaSafe b i pf) {o : Nat} {e : Err} {st' : PFromBody} (hs : naStepU i c pf = .done o e st') :
    NaDone b o e st' := by
  unfold naStepU at hs
  repeat' (split at hs)
  all_goals (cases hs <;> exact NaDone.err hI (by decide))

theorem naStepUF_done (h : Nat) (b : Buf) (i : Nat) (c : UInt8) (pf : PFromBody) (hb : b[i]? = some c)
    (hI : NaSafe b i pf) {o : Nat} {e : Err} {st' : PFromBody} (hs : naStepUF h b i c pf = .done o e st') :
    NaDone b o e st' := by
  have hib := get?_lt hb
  unfold naStepUF at hs
  repeat' (split at hs)
  all_goals first
    | exact naLWS_done h b i _ hI hs
    | exact naMoreValues_done h b _ i hib hI hs
    | (cases hs <;> exact NaDone.err hI (by decide))

theorem naStepStar_done (h : Nat) (b : Buf) (i : Nat) (c : UInt8) (pf : PFromBody)
    (hI : NaSafe b i pf) {o : Nat} {e : Err} {st' : PFromBody} (hs : naStepStar h b i c pf = .done o e st') :
    NaDone b o e st' := by
  unfold naStepStar at hs
  split at hs
  · exact naLWS_done h b i _ hI hs
  · cases hs; exact NaDone.err hI (by decide)

theorem naValWS_false (pf : PFromBody) (i n : Nat) : naValWS pf i n false = naValWS pf i i false := by
  unfold naValWS; cases pf.state <;> rfl

theorem naStepP_done (h : Nat) (b : Buf) (i : Nat) (c : UInt8) (pf : PFromBody) (hb : b[i]? = some c)
    (hI : NaSafe b i pf) {o : Nat} {e : Err} {st' : PFromBody} (hs : naStepP h b i c pf = .done o e st') :
    NaDone b o e st' := by
  have hib := get?_lt hb
  unfold naStepP at hs
  split at hs
  · rcases hsk : skipLWS b i 0 with ⟨n, crl, e1⟩
    rw [hsk] at hs
    have hr := skipLWS_range b i 0 hsk
    have hv := skipLWS_verdicts b i 0 hsk
    have hX := naNameWS_safe b i i pf hI (Nat.le_refl _) hI.hi
    rcases hv with rfl | rfl | rfl | rfl <;> simp only at hs
    · cases hs
    · simp only [Step.done.injEq] at hs
      obtain ⟨rfl, rfl, rfl⟩ := hs
      have hrg := skipLWS_eoh_range b i 0 hsk (by decide)
      exact naEOH_done h b _ i i n crl .ok (by decide) hX.toNaCore (Nat.le_refl _) hX.toNaCore.voffs hX.params.1
        (fun _ => hX.s) (by omega) (by omega)
    · cases hs; exact NaDone.err (hX.mono hr.1 (hr.2 hI.hi)) (by decide)
    · cases hs; exact ⟨hI.saveS.out, fun _ => ⟨hI.saveS, rfl⟩⟩
  · repeat' (split at hs)
    all_goals first
      | exact naMoreValues_done h b _ i hib hI hs
      | (cases hs <;> exact NaDone.err hI (by decide))

theorem naStepV_done (h : Nat) (b : Buf) (i : Nat) (c : UInt8) (pf : PFromBody) (hb : b[i]? = some c)
    (hI : NaSafe b i pf) {o : Nat} {e : Err} {st' : PFromBody} (hs : naStepV h b i c pf = .done o e st') :
    NaDone b o e st' := by
  have hib := get?_lt hb
  unfold naStepV at hs
  split at hs
  · rcases hsk : skipLWS b i 0 with ⟨n, crl, e1⟩
    rw [hsk] at hs
    have hr := skipLWS_range b i 0 hsk
    have hv := skipLWS_verdicts b i 0 hsk
    have hX := naValWS_safe b i i pf false hI (Nat.le_refl _) hI.hi
    rw [← naValWS_false pf i n] at hX
    rcases hv with rfl | rfl | rfl | rfl <;> simp only at hs
    · cases hs
    · simp only [Step.done.injEq] at hs
      obtain ⟨rfl, rfl, rfl⟩ := hs
      have hrg := skipLWS_eoh_range b i 0 hsk (by decide)
      exact naEOH_done h b _ i i n crl .ok (by decide) hX.toNaCore (Nat.le_refl _) hX.toNaCore.voffs hX.params.1
        (fun _ => hX.s) (by omega) (by omega)
    · cases hs; exact NaDone.err (hX.mono hr.1 (hr.2 hI.hi)) (by decide)
    · cases hs; exact ⟨hI.saveS.out, fun _ => ⟨hI.saveS, rfl⟩⟩
  · repeat' (split at hs)
    all_goals first
      | exact naMoreValues_done h b _ i hib hI hs
      | (cases hs <;> exact NaDone.err hI (by decide))

theorem naStepPE_done (h : Nat) (b : Buf) (i : Nat) (c : UInt8) (pf : PFromBody) (hb : b[i]? = some c)
    (hg : pf.state = .paramNameEnd ∨ pf.state = .possibleParamNameEnd)
    (hI : NaSafe b i pf) {o : Nat} {e : Err} {st' : PFromBody} (hs : naStepPE h b i c pf = .done o e st') :
    NaDone b o e st' := by
  have hib := get?_lt hb
  have hE := hI.endP hg
  unfold naStepPE at hs
  repeat' (split at hs)
  all_goals first
    | exact naCommaAfterWS_done h b pf i pf.pend hib hI hI.pend hE.1 hE.2
        (by rcases hg with g | g <;> rw [g] <;> decide) hs
    | (cases hs <;> exact NaDone.err hI (by decide))

theorem naStepVE_done (h : Nat) (b : Buf) (i : Nat) (c : UInt8) (pf : PFromBody) (hb : b[i]? = some c)
    (hg : pf.state = .paramValEnd ∨ pf.state = .possibleValEnd)
    (hI : NaSafe b i pf) {o : Nat} {e : Err} {st' : PFromBody} (hs : naStepVE h b i c pf = .done o e st') :
    NaDone b o e st' := by
  have hib := get?_lt hb
  have hE := hI.endV hg
  unfold naStepVE at hs
  repeat' (split at hs)
  all_goals first
    | exact naCommaAfterWS_done h b pf i pf.vend hib hI hI.vend hE.1 hE.2
        (by rcases hg with g | g <;> rw [g] <;> decide) hs
    | (cases hs <;> exact NaDone.err hI (by decide))

/-- **every exit of the loop body returns a sane object** -/
theorem naStep_done (h : Nat) (b : Buf) (i : Nat) (c : UInt8) (pf : PFromBody) (hb : b[i]? = some c)
    (hI : NaSafe b i pf) {o : Nat} {e : Err} {st' : PFromBody} (hs : naStep h b i c pf = .done o e st') :
    NaDone b o e st' := by
  unfold naStep at hs
  split at hs
  all_goals first
    | exact naStepA_done h b i c pf hb hI hs
    | exact naStepQ_done h b i c pf hb hI hs
    | exact naStepU_done b i c pf hI hs
    | exact naStepUF_done h b i c pf hb hI hs
    | exact naStepP_done h b i c pf hb hI hs
    | exact naStepPE_done h b i c pf hb (by simp [*]) hI hs
    | exact naStepV_done h b i c pf hb hI hs
    | exact naStepVE_done h b i c pf hb (by simp [*]) hI hs
    | exact naStepStar_done h b i c pf hI hs
    | cases hs

/-! ### ParseNameAddrPVal -/

/-- what a caller may pass: a finished object whose fields lie before the offset, or an object (new, or returned
    with MoreBytes by an earlier call) that satisfies the loop invariant once the saved restart offset is loaded -/
def NaEntry (b : Buf) (o : Nat) (pf : PFromBody) : Prop :=
  (pf.state = .fin ∧ NaOut b o pf) ∨ (pf.state ≠ .fin ∧ NaSafe b o { pf with s := pf.soffs, soffs := 0 })

theorem NaEntry_new (b : Buf) (o : Nat) (ho : o ≤ b.size) : NaEntry b o {} := by
  right
  refine ⟨by decide, ⟨⟨ho, Nat.zero_le _, Nat.zero_le _, Nat.zero_le _, ?_, ?_, ?_, ⟨Nat.zero_le _, rfl⟩, ?_, rfl⟩, ?_, ?_⟩⟩
  all_goals first
    | (unfold PField.inside; simp)
    | (intro hh; rcases hh with hh | hh <;> cases hh)

/-- **ParseNameAddrPVal never panics; every field it reports can be sliced out of the buffer; after MoreBytes the
    object is again a legitimate argument** (any header kind, any buffer, any offset inside it) -/
theorem parseNameAddrPVal_safe (h : Nat) (b : Buf) (o : Nat) (pf : PFromBody) (hE : NaEntry b o pf)
    {o' : Nat} {e : Err} {pf' : PFromBody} (hr : parseNameAddrPVal h b o pf = (o', e, pf')) :
    NaOut b o' pf' ∧ (e = .moreBytes → NaEntry b o' pf') := by
  unfold parseNameAddrPVal at hr
  split at hr
  · rename_i hf
    cases hr
    rcases hE with hE | hE
    · exact ⟨hE.2, fun hh => by cases hh⟩
    · exact absurd hf hE.1
  · rename_i hf
    rcases hE with hE | hE
    · exact absurd hE.1 hf
    · simp only [Prod.mk.injEq] at hr
      obtain ⟨rfl, rfl, rfl⟩ := hr
      have key := runLoop_inv (naMachine h) b (NaSafe b)
        (fun r => NaOut b r.1 r.2.2 ∧ (r.2.1 = .moreBytes → NaSafe b r.1 r.2.2))
        (by
          intro i c st i' st' hb hP hs
          refine ⟨fun hlt => na_safeCont h b i c st i' st' hb hP hs hlt, fun hn => ?_⟩
          exact absurd (na_progress h b i c st i' st' hb hs) hn)
        (by
          intro i c st o1 e1 st1 hb hP hs
          have := naStep_done h b i c st hb hP hs
          exact ⟨this.1, fun hm => (this.2 hm).1⟩)
        (by
          intro i st _ hP
          exact ⟨hP.saveS.out, fun _ => hP.saveS⟩)
        o _ hE.2
      rcases hrl : runLoop (naMachine h) b o { pf with s := pf.soffs, soffs := 0 } with ⟨o1, e1, p1⟩
      rw [hrl] at key
      simp only at key ⊢
      have hout : NaOut b o1 (naExit pf.soffs e1 p1) := by
        unfold naExit
        split <;> exact ⟨key.1.ho, key.1.name, key.1.uri, key.1.tag, key.1.params, key.1.v, key.1.pnc⟩
      refine ⟨hout, fun hm => ?_⟩
      subst hm
      have hS := key.2 rfl
      have hI2 : naInv2 b o { pf with s := pf.soffs, soffs := 0 } := ⟨⟨hE.2.hi, hE.2.pend, hE.2.vend⟩, rfl⟩
      have hm := na_more_inv h b o _ hI2 hf hrl
      right
      refine ⟨hm.2.1, ?_⟩
      show NaSafe b o1 { naExit pf.soffs Err.moreBytes p1 with s := (naExit pf.soffs Err.moreBytes p1).soffs, soffs := 0 }
      have : ({ naExit pf.soffs Err.moreBytes p1 with s := (naExit pf.soffs Err.moreBytes p1).soffs, soffs := 0 } : PFromBody) =
          { p1 with soffs := 0 } := by
        show ({ p1 with s := p1.soffs, soffs := 0 } : PFromBody) = { p1 with soffs := 0 }
        rw [hm.2.2]
      rw [this]
      exact ⟨⟨hS.hi, hS.pend, hS.vend, hS.s, hS.name, hS.uri, hS.tag, hS.params, hS.v, hS.pnc⟩, hS.endP, hS.endV⟩

end Sipsp
