/-
  Sipsp.Proofs.Progress — every loop body moves forward: the progress artefact of `runLoop` (`lbug`) never
  fires; this is also the termination argument of the Go loops.
-/
import Sipsp.Proofs.CallID
import Sipsp.Proofs.UInt
import Sipsp.Proofs.SkipQuoted
import Sipsp.Model.Msg

namespace Sipsp

/-- a `lwsStd` continuation moves forward when it was entered on a white space byte -/
theorem lwsStd_cont_gt {σ : Type} (b : Buf) (i : Nat) (c : UInt8) (st : σ)
    (eoh : σ → Nat → Nat → Nat → Nat × Err × σ) (mb : σ → σ) (hb : b[i]? = some c) (hl : isLWSch c = true)
    {i' : Nat} {st' : σ} (h : lwsStd b i st eoh mb = .cont i' st') : i < i' := by
  unfold lwsStd at h
  rcases hsk : skipLWS b i 0 with ⟨n, crl, e⟩
  rw [hsk] at h
  cases e <;> simp only at h <;> cases h
  exact skipLWS_ok_gt b i 0 hb hl hsk

theorem cs_progress : Progress csMachine := by
  intro b i c st i' st' hb hs
  change csStep b i c st = .cont i' st' at hs
  unfold csStep at hs
  by_cases hl : isLWSch c = true
  · rw [if_pos hl] at hs
    cases hst : st.state <;> rw [hst] at hs <;> simp only at hs <;>
      first
        | exact lwsStd_cont_gt b i c _ _ _ hb hl hs
        | (cases hs; omega)
  · rw [if_neg hl] at hs
    split at hs
    · cases hst : st.state <;> rw [hst] at hs <;> simp only at hs <;> (try split at hs) <;> cases hs <;> omega
    · cases hst : st.state <;> rw [hst] at hs <;> simp only at hs <;> cases hs <;> omega

theorem skipToken_ge (b : Buf) (i : Nat) : i ≤ skipToken b i := by
  fun_induction skipToken b i with
  | case1 i hb => exact Nat.le_refl _
  | case2 i c hb hl => exact Nat.le_refl _
  | case3 i c hb hl ih => omega

theorem skipTokenDelim_ge (b : Buf) (i : Nat) (d : UInt8) : i ≤ skipTokenDelim b i d := by
  fun_induction skipTokenDelim b i d with
  | case1 i hb => exact Nat.le_refl _
  | case2 i c hb hl => exact Nat.le_refl _
  | case3 i c hb hl ih => omega

theorem skipWS_ge (b : Buf) (i : Nat) : i ≤ skipWS b i := by
  fun_induction skipWS b i with
  | case1 i hb => exact Nat.le_refl _
  | case2 i c hb hl ih => omega
  | case3 i c hb hl => exact Nat.le_refl _

theorem skipToEOL_ge (b : Buf) (i : Nat) : i ≤ skipToEOL b i := by
  fun_induction skipToEOL b i with
  | case1 i hb => exact Nat.le_refl _
  | case2 i c hb hl => exact Nat.le_refl _
  | case3 i c hb hl ih => omega

theorem skipLWS_ok_ge (b : Buf) (i f : Nat) {n crl : Nat} {e : Err} (h : skipLWS b i f = (n, crl, e)) : i ≤ n :=
  (skipLWS_range b i f h).1

theorem hlAfterColon_cont (b : Buf) (j : Nat) (h : Hdr) (hb : Option PHdrVals) {i' : Nat} {st' : HLσ}
    (hs : hlAfterColon b j h hb = .cont i' st') : i' = j := by
  unfold hlAfterColon at hs
  split at hs
  · cases hs
  · simp only at hs
    split at hs
    · cases hs
    · cases hs; rfl

theorem hlValEnd_cont (b : Buf) (j : Nat) (h : Hdr) (hb : Option PHdrVals) {i' : Nat} {st' : HLσ}
    (hs : hlValEnd b j h hb = .cont i' st') : j < i' := by
  unfold hlValEnd at hs
  rcases hsk : skipLWS b j 0 with ⟨n, crl, e⟩
  rw [hsk] at hs
  cases e <;> simp only at hs <;> cases hs
  have := skipLWS_ok_ge b j 0 hsk; omega

theorem hlName_cont (b : Buf) (i : Nat) (h : Hdr) (hb : Option PHdrVals) {i' : Nat} {st' : HLσ}
    (hs : hlName b i h hb = .cont i' st') : i < i' := by
  unfold hlName at hs
  have hge := skipTokenDelim_ge b i 58
  simp only at hs
  split at hs
  · cases hs
  · split at hs
    · split at hs
      · cases hs
      · cases hs; omega
    · split at hs
      · split at hs
        · cases hs
        · have := hlAfterColon_cont _ _ _ _ hs; omega
      · cases hs

theorem hl_progress : Progress hlMachine := by
  intro b i c st i' st' hb hs
  change hlStep b i c st = .cont i' st' at hs
  obtain ⟨h, hbv⟩ := st
  unfold hlStep at hs
  simp only at hs
  cases hst : h.state <;> rw [hst] at hs <;> simp only at hs
  case init =>
    split at hs
    · split at hs
      · cases hs
      · split at hs <;> cases hs
    · split at hs
      · cases hs
      · exact hlName_cont _ _ _ _ hs
  case name => exact hlName_cont _ _ _ _ hs
  case nameEnd =>
    have hge := skipWS_ge b i
    split at hs
    · cases hs
    · split at hs
      · have := hlAfterColon_cont _ _ _ _ hs; omega
      · cases hs
  case bodyStart =>
    rcases hsk : skipLWS b i 0 with ⟨n, crl, e⟩
    rw [hsk] at hs
    cases e <;> simp only at hs <;> cases hs
    have := skipLWS_ok_ge b i 0 hsk; omega
  case val =>
    have hge := skipToken_ge b i
    split at hs
    · cases hs
    · -- b[j] exists and ends the token; the scan of the white space after it moves on
      have := hlValEnd_cont _ _ _ _ hs; omega
  case valEnd => exact Nat.lt_of_le_of_lt (Nat.le_refl _) (hlValEnd_cont _ _ _ _ hs)
  case fin => cases hs
  all_goals
    unfold hlCont at hs
    split at hs
    · cases hs
    · rw [hst] at hs; simp only at hs; cases hs

end Sipsp
