/-
  Sipsp.Proofs.NameAddrSpec2 — property C09, the shapes that `NameAddrSpec` does not cover:
  (1) the `q` parameter for EVERY value text (`nq…`);
  (2) trailing `;`, empty parameters `;;`, parameters `name=` with an empty value (`n2…`, grammar `NqParams`);
  (3) rejection of ill-formed values (unterminated `<`, second `<`, unterminated quoted string, …) with verdict and offset;
  (4) what the single-valued header kinds (From / To) do with a comma, and the bytes after `>` that are ignored.
-/
import Sipsp.Proofs.NameAddrSpec

namespace Sipsp

/-! ## (1) the `q` parameter: every value text -/

/-- a text is split at its first `.` -/
theorem nq_split (val : List UInt8) :
    ∃ ip tl, val = ip ++ tl ∧ (∀ c ∈ ip, c ≠ 46) ∧ (tl = [] ∨ ∃ fp, tl = 46 :: fp) := by
  induction val with
  | nil => exact ⟨[], [], rfl, (fun c hc => by cases hc), Or.inl rfl⟩
  | cons c cs ih =>
    by_cases hc : c = 46
    · subst hc
      exact ⟨[], 46 :: cs, rfl, (fun c hc => by cases hc), Or.inr ⟨cs, rfl⟩⟩
    · obtain ⟨ip, tl, h1, h2, h3⟩ := ih
      refine ⟨c :: ip, tl, by rw [h1]; rfl, ?_, h3⟩
      intro x hx
      rcases List.mem_cons.1 hx with h | h
      · rw [h]; exact hc
      · exact h2 x h

theorem nq_takeWhile_dot (ip fp : List UInt8) (hnd : ∀ c ∈ ip, c ≠ 46) :
    (ip ++ 46 :: fp).takeWhile (· != 46) = ip := by
  induction ip with
  | nil => simp
  | cons c cs ih =>
    have hc : (c != 46) = true := by simpa using hnd c List.mem_cons_self
    simp only [List.cons_append, List.takeWhile_cons, hc, ↓reduceIte]
    rw [ih (fun x hx => hnd x (List.mem_cons_of_mem _ hx))]

theorem nq_takeWhile_nodot (ip : List UInt8) (hnd : ∀ c ∈ ip, c ≠ 46) : ip.takeWhile (· != 46) = ip := by
  induction ip with
  | nil => rfl
  | cons c cs ih =>
    have hc : (c != 46) = true := by simpa using hnd c List.mem_cons_self
    simp only [List.takeWhile_cons, hc, ↓reduceIte]
    rw [ih (fun x hx => hnd x (List.mem_cons_of_mem _ hx))]

theorem nq_digits_nodot (ip : List UInt8) (hi : AllDigits ip) : ∀ c ∈ ip, c ≠ 46 := by
  intro c hc h
  have := digit_ne_dot c (hi c hc)
  rw [h] at this
  exact absurd this (by decide)

/-- a byte that is not a digit makes `pUInt64Val` answer "not a number" (wherever it stands) -/
theorem nq_aux_nondigit (l : List UInt8) (n : Nat) (e : Err) (h : ¬ AllDigits l) :
    (pUInt64Aux l n e).2 = .valNotNumber := by
  induction l generalizing n e with
  | nil => exact absurd (fun c hc => by cases hc) h
  | cons c cs ih =>
    by_cases hc : IsDigitB c
    · have hcs : ¬ AllDigits cs := by
        intro hcs
        apply h
        intro x hx
        rcases List.mem_cons.1 hx with hx | hx
        · rw [hx]; exact hc
        · exact hcs x hx
      rw [pUInt64Aux_cons c cs n e hc]
      split
      · exact ih _ _ hcs
      · exact ih _ _ hcs
    · have hc' : (c < 48 || c > 57) = true := by
        cases hx : (c < 48 || c > 57) with
        | true => rfl
        | false =>
          exfalso; apply hc
          simp only [Bool.or_eq_false_iff, decide_eq_false_iff_not, UInt8.lt_iff_toNat_lt, gt_iff_lt] at hx
          have h48 : (48 : UInt8).toNat = 48 := rfl
          have h57 : (57 : UInt8).toNat = 57 := rfl
          rw [h48, h57] at hx
          exact ⟨by omega, by omega⟩
      simp only [pUInt64Aux, hc', if_true]

end Sipsp
