/-
  Sipsp.Proofs.NameAddrSpec2 — property C09, the shapes that `NameAddrSpec` does not cover.  Everything is about
  `parseNameAddrPVal h b o {}` (a new object), ALL buffers within the 65,535-byte limit, ALL offsets, ALL header kinds
  `h` unless a hypothesis on `multipleValsOk h` says otherwise.  Grammar predicates reused from `NameAddrSpec`:
  `AddrPrefix`, `NameTail`, `NaQBody`, `ParamAt`, `PList`, `PVal`, `Term`, `Lws`, `Eol`, `Run`.

  (1) the `q` parameter, EVERY value text.
    * `NqQText val ip fp`: `val` = digits `ip`, optionally `.` and at most three digits `fp`, value at most 1.  The
      integer part may be EMPTY (`.5`) and may have leading zeros (`001`, `00.5`): the code accepts those.
    * `nq_setQ_accept`: on a `q` text `setQ` sets Q to the value in thousandths (`qValue`) and nothing else.
    * `nq_setQ_long`, `nq_setQ_int_nondigit`, `nq_setQ_int_huge`, `nq_setQ_frac_nondigit`, `nq_setQ_range`: which error
      for which text: more than three bytes after the first dot -> "too long" at the END of the value; a non-digit
      (second dot, sign, letter) -> "not a number" at the start; integer part above 2^64-1 -> "too long" at the start;
      value above 1 -> "bad value" at the start.
    * `nq_setQ_total`: every text is either a `q` text (Q set) or not (Q untouched, error indication set, offset = start
      or end of the value); `nq_setQ_ok_iff`: the error indication stays clear IFF the text is a `q` text.
    * `nq_param_q_any`: the same for the effect of the parameter `q=value` (`paramEffect`, the unit of `accAll`).
  (2) trailing `;`, empty parameters `;;`, `name=` with an empty value.
    * `NqParams h b i L ve o' e'`: everything after the first `;` up to the end of the value, allowing all of these;
      `NqEnd`: how the value ends right after a `;` / `=`.  `n2_of_plist`: the old `PList` + `Term` is a special case.
    * `n2_bracket_params`, `n2_bare_params`: such a value is ACCEPTED (verdict OK / "more values" as the end says); an
      empty value acts like no value (`vs = ve = 0` in the span list: only `lr` is recognised, `tag=` / `q=` / `expires=`
      set nothing and raise no error); empty parameters are skipped; the reported parameter span runs from the first
      named parameter to `ve`, the reported value from its first byte to `ve`, where `ve` INCLUDES a trailing `;` / `=`
      (not the white space after it) when the line ends, and runs up to the comma (white space included) when a comma
      ends the value; no named parameter at all -> empty parameter span.
    * `n2_uri_trailing_semi`, `n2_params_trailing_semi`, `n2_empty_value`: the three shapes spelled out.
  (3) rejection (verdict, offset, and that the offset lies inside the buffer after the start of the value).
    * `n3_uri_unterminated`: SP / HT / CR / LF / `<` between `<` and `>` -> "bad character" at that byte.
    * `n3_empty_uri`: `<>` is NOT rejected: accepted with an empty URI span.
    * `n3_name_quote_unterminated`, `n3_name_quote_esc_crlf`: a quoted string of the display name (`NqNameOpen`: at
      the start of the value or after name tokens / closed quoted strings) that is not closed before the line end ->
      "bad header" (ErrHdrBad) with the offset AFTER the line end; backslash + CR / LF -> "bad character" at the CR / LF.
    * `n3_param_name_bad`, `n3_param_value_bad`, `n3_param_quote_unterminated`: after any well-formed front part
      (`NqHeadP`, `NqSeps`): `<` / `>` in a parameter name, `=` / `<` / `>` in a parameter value -> "bad character" at
      that byte; unterminated quoted parameter value -> "bad header", offset after the line end (offset and verdict
      only; the partial object is not described).
    * `n3_name_without_uri`: a display name (two or more tokens / quoted strings, `NqNameOnly`) that is never followed
      by `<uri>` -> "bad header", offset after the line end.
  (4) bytes after `>`; the comma in the single-valued header kinds.
    * `n4_bracket_junk`, `n4_bracket_junk_params`: after `>` every byte other than `;`, white space, line end (and `,`
      for the multi-valued kinds) is SKIPPED (`NqJunk`), e.g. a second `<uri>`; parameters that follow are attached to
      the first URI.
    * `n4_single_comma_ignored` (`n4_single_from_to`: From and To are single-valued): `<uri> , anything-without-";"` is
      accepted and reported exactly as `<uri>`; `n4_bare_comma`: in a bare URI the comma is a URI byte;
      `n4_single_comma_after_ws`: `;param[=value] LWS ,` -> "bad character" at the comma.
  NOT proved here: commas inside parameter names / values of the single-valued kinds in general (they are ordinary
  bytes, except as first byte, where they are dropped: only tests); the object left behind by the rejections inside a
  parameter (offset and verdict only); comma-separated lists (`ValList`) whose values use the shapes of (2) / (4);
  `HNo` and several header lines of one message.
-/
import Sipsp.Proofs.NameAddrSpec

namespace Sipsp

/-! ## (1) the `q` parameter: every value text -/

/-- a text is split at its first `.` -/
theorem nq_split (val : List UInt8) :
    ∃ ip tl, val = ip ++ tl ∧ (∀ c ∈ ip, c ≠ 46) ∧ (tl = [] ∨ ∃ fp, tl = 46 :: fp) := by
  induction val with
  | nil => exact ⟨[], [], rfl, (fun c hc => by cases hc), Or.inl rfl⟩
  | cons c cs ih =>
    by_cases hc : c = 46
    · subst hc
      exact ⟨[], 46 :: cs, rfl, (fun c hc => by cases hc), Or.inr ⟨cs, rfl⟩⟩
    · obtain ⟨ip, tl, h1, h2, h3⟩ := ih
      refine ⟨c :: ip, tl, by rw [h1]; rfl, ?_, h3⟩
      intro x hx
      rcases List.mem_cons.1 hx with h | h
      · rw [h]; exact hc
      · exact h2 x h

theorem nq_takeWhile_dot (ip fp : List UInt8) (hnd : ∀ c ∈ ip, c ≠ 46) :
    (ip ++ 46 :: fp).takeWhile (· != 46) = ip := by
  induction ip with
  | nil => simp
  | cons c cs ih =>
    have hc : (c != 46) = true := by simpa using hnd c List.mem_cons_self
    simp only [List.cons_append, List.takeWhile_cons, hc, ↓reduceIte]
    rw [ih (fun x hx => hnd x (List.mem_cons_of_mem _ hx))]

theorem nq_takeWhile_nodot (ip : List UInt8) (hnd : ∀ c ∈ ip, c ≠ 46) : ip.takeWhile (· != 46) = ip := by
  induction ip with
  | nil => rfl
  | cons c cs ih =>
    have hc : (c != 46) = true := by simpa using hnd c List.mem_cons_self
    simp only [List.takeWhile_cons, hc, ↓reduceIte]
    rw [ih (fun x hx => hnd x (List.mem_cons_of_mem _ hx))]

theorem nq_digits_nodot (ip : List UInt8) (hi : AllDigits ip) : ∀ c ∈ ip, c ≠ 46 := by
  intro c hc h
  have := digit_ne_dot c (hi c hc)
  rw [h] at this
  exact absurd this (by decide)

/-- a byte that is not a digit makes `pUInt64Val` answer "not a number" (wherever it stands) -/
theorem nq_aux_nondigit (l : List UInt8) (n : Nat) (e : Err) (h : ¬ AllDigits l) :
    (pUInt64Aux l n e).2 = .valNotNumber := by
  induction l generalizing n e with
  | nil => exact absurd (fun c hc => by cases hc) h
  | cons c cs ih =>
    by_cases hc : IsDigitB c
    · have hcs : ¬ AllDigits cs := by
        intro hcs
        apply h
        intro x hx
        rcases List.mem_cons.1 hx with hx | hx
        · rw [hx]; exact hc
        · exact hcs x hx
      rw [pUInt64Aux_cons c cs n e hc]
      split
      · exact ih _ _ hcs
      · exact ih _ _ hcs
    · have hc' : (c < 48 || c > 57) = true := by
        cases hx : (c < 48 || c > 57) with
        | true => rfl
        | false =>
          exfalso; apply hc
          simp only [Bool.or_eq_false_iff, decide_eq_false_iff_not, UInt8.lt_iff_toNat_lt, gt_iff_lt] at hx
          have h48 : (48 : UInt8).toNat = 48 := rfl
          have h57 : (57 : UInt8).toNat = 57 := rfl
          rw [h48, h57] at hx
          exact ⟨by omega, by omega⟩
      simp only [pUInt64Aux, hc', if_true]

/-- what `setQ` computes on a text with a dot: integer part `ip` (no dot in it), the rest `fp` -/
theorem nq_setQ_dot (pf : PFromBody) (ip fp : List UInt8) (hnd : ∀ c ∈ ip, c ≠ 46) :
    setQ pf (ip ++ 46 :: fp) =
      if fp.length ≤ 3 then
        if ((if (pUInt64Val ip).2 == .ok then pUInt64Val fp else (0, (pUInt64Val ip).2)).2 == .ok) = true then
          if ((pUInt64Val ip).1 > 1 || (if (pUInt64Val ip).2 == .ok then pUInt64Val fp else (0, (pUInt64Val ip).2)).1 > 999 ||
              ((pUInt64Val ip).1 == 1 && (if (pUInt64Val ip).2 == .ok then pUInt64Val fp else (0, (pUInt64Val ip).2)).1 > 0)) = true then
            { pf with paramErr := .valBad, errOffs := trunc16 pf.vstart }
          else { pf with q := ((pUInt64Val ip).1 * 1000 +
              (if fp.length == 1 then (if (pUInt64Val ip).2 == .ok then pUInt64Val fp else (0, (pUInt64Val ip).2)).1 * 100
               else if fp.length == 2 then (if (pUInt64Val ip).2 == .ok then pUInt64Val fp else (0, (pUInt64Val ip).2)).1 * 10
               else (if (pUInt64Val ip).2 == .ok then pUInt64Val fp else (0, (pUInt64Val ip).2)).1)) % 65536 }
        else { pf with paramErr := (if (pUInt64Val ip).2 == .ok then pUInt64Val fp else (0, (pUInt64Val ip).2)).2,
                       errOffs := trunc16 pf.vstart }
      else { pf with paramErr := .valTooLong, errOffs := trunc16 pf.vend } := by
  unfold setQ
  simp only [nq_takeWhile_dot ip fp hnd, List.length_append, List.length_cons, List.take_left']
  have hdrop : List.drop (ip.length + 1) (ip ++ 46 :: fp) = fp := by
    rw [List.drop_append, List.drop_eq_nil_of_le (by omega)]
    simp
  have hlt : decide (ip.length < ip.length + (fp.length + 1)) = true := by simp
  have hnd' : ip.length + (fp.length + 1) - (ip.length + 1) = fp.length := by omega
  have hlen : (ip.length + (fp.length + 1) - ip.length ≤ 4) = (fp.length ≤ 3) := by
    apply propext; omega
  simp only [hdrop, hlt, hnd', hlen, Bool.and_true, Bool.true_and]

/-- what `setQ` computes on a text without a dot -/
theorem nq_setQ_nodot (pf : PFromBody) (ip : List UInt8) (hnd : ∀ c ∈ ip, c ≠ 46) :
    setQ pf ip =
      if ((pUInt64Val ip).2 == .ok) = true then
        if decide ((pUInt64Val ip).1 > 1) = true then { pf with paramErr := .valBad, errOffs := trunc16 pf.vstart }
        else { pf with q := ((pUInt64Val ip).1 * 1000) % 65536 }
      else { pf with paramErr := (pUInt64Val ip).2, errOffs := trunc16 pf.vstart } := by
  unfold setQ
  simp only [nq_takeWhile_nodot ip hnd, Nat.sub_self, Nat.zero_le, ↓reduceIte, List.take_length, Nat.lt_irrefl,
    decide_false, Bool.and_false, Bool.false_eq_true]
  cases h1 : ((pUInt64Val ip).2 == .ok)
  · simp only [Bool.false_eq_true, ↓reduceIte]
  · simp only [↓reduceIte, Nat.reduceGT, decide_false, Bool.or_false, Bool.false_and, Bool.false_eq_true, Nat.add_zero]

/-- **accepted**: the value is a `q` text: digits, optionally a dot and at most three digits, value at most 1 -/
structure NqQText (val ip fp : List UInt8) : Prop where
  di : AllDigits ip
  df : AllDigits fp
  len : fp.length ≤ 3
  le1 : decOf ip ≤ 1
  one : decOf ip = 1 → decOf fp = 0
  shape : (val = ip ∧ fp = []) ∨ val = ip ++ 46 :: fp

theorem nq_decOf_nil : decOf [] = 0 := by unfold decOf; rw [decFrom_nil]

theorem nq_setQ_accept (pf : PFromBody) (val ip fp : List UInt8) (H : NqQText val ip fp) :
    setQ pf val = { pf with q := qValue ip fp } := by
  rcases H.shape with ⟨h1, h2⟩ | h1
  · rw [h1, h2, setQ_int pf ip H.di H.le1]
    unfold qValue
    rw [nq_decOf_nil]; simp
  · rw [h1]; exact setQ_frac pf ip fp H.di H.df H.len H.le1 H.one

/-- more than three bytes after the first dot (whatever they are): "value too long", reported at the END of the value -/
theorem nq_setQ_long (pf : PFromBody) (ip fp : List UInt8) (hnd : ∀ c ∈ ip, c ≠ 46) (hl : 3 < fp.length) :
    setQ pf (ip ++ 46 :: fp) = { pf with paramErr := .valTooLong, errOffs := trunc16 pf.vend } := by
  rw [nq_setQ_dot pf ip fp hnd, if_neg (by omega)]

theorem nq_pU_nondigit (l : List UInt8) (h : ¬ AllDigits l) : (pUInt64Val l).2 = .valNotNumber :=
  nq_aux_nondigit l 0 .ok h

/-- a byte other than a digit in front of the first dot (or no dot at all): "not a number", reported at the start -/
theorem nq_setQ_int_nondigit (pf : PFromBody) (ip fp : List UInt8) (hnd : ∀ c ∈ ip, c ≠ 46) (hi : ¬ AllDigits ip)
    (hl : fp.length ≤ 3) :
    setQ pf ip = { pf with paramErr := .valNotNumber, errOffs := trunc16 pf.vstart } ∧
    setQ pf (ip ++ 46 :: fp) = { pf with paramErr := .valNotNumber, errOffs := trunc16 pf.vstart } := by
  have h1 := nq_pU_nondigit ip hi
  constructor
  · rw [nq_setQ_nodot pf ip hnd, h1]; rfl
  · rw [nq_setQ_dot pf ip fp hnd, if_pos hl, h1]; rfl

/-- an integer part that does not fit in 64 bits: "value too long", reported at the start -/
theorem nq_setQ_int_huge (pf : PFromBody) (ip fp : List UInt8) (hi : AllDigits ip) (hbig : decOf ip > maxU64)
    (hl : fp.length ≤ 3) :
    setQ pf ip = { pf with paramErr := .valTooLong, errOffs := trunc16 pf.vstart } ∧
    setQ pf (ip ++ 46 :: fp) = { pf with paramErr := .valTooLong, errOffs := trunc16 pf.vstart } := by
  have h1 := (pUInt64Val_spec ip hi).2 hbig
  have hnd := nq_digits_nodot ip hi
  constructor
  · rw [nq_setQ_nodot pf ip hnd, h1]; rfl
  · rw [nq_setQ_dot pf ip fp hnd, if_pos hl, h1]; rfl

/-- a byte other than a digit after the first dot (a second dot included): "not a number", reported at the start -/
theorem nq_setQ_frac_nondigit (pf : PFromBody) (ip fp : List UInt8) (hi : AllDigits ip) (hfit : decOf ip ≤ maxU64)
    (hf : ¬ AllDigits fp) (hl : fp.length ≤ 3) :
    setQ pf (ip ++ 46 :: fp) = { pf with paramErr := .valNotNumber, errOffs := trunc16 pf.vstart } := by
  have h1 := (pUInt64Val_spec ip hi).1 hfit
  have h2 := nq_pU_nondigit fp hf
  rw [nq_setQ_dot pf ip fp (nq_digits_nodot ip hi), if_pos hl, h1]
  simp only [beq_self_eq_true, ↓reduceIte, h2]
  rfl

/-- a number above 1 (`2`, `1.5`, `1.001`, …): "bad value", reported at the start -/
theorem nq_setQ_range (pf : PFromBody) (ip fp : List UInt8) (hi : AllDigits ip) (hf : AllDigits fp) (hfit : decOf ip ≤ maxU64)
    (hl : fp.length ≤ 3) (hbad : decOf ip > 1 ∨ (decOf ip = 1 ∧ decOf fp > 0)) :
    (decOf ip > 1 → setQ pf ip = { pf with paramErr := .valBad, errOffs := trunc16 pf.vstart }) ∧
    setQ pf (ip ++ 46 :: fp) = { pf with paramErr := .valBad, errOffs := trunc16 pf.vstart } := by
  have h1 := (pUInt64Val_spec ip hi).1 hfit
  have hd := decOf_le3 fp hf hl
  have h2 := (pUInt64Val_spec fp hf).1 (by unfold maxU64; omega)
  have hnd := nq_digits_nodot ip hi
  constructor
  · intro hgt
    rw [nq_setQ_nodot pf ip hnd, h1]
    simp only [beq_self_eq_true, ↓reduceIte, hgt, decide_true]
  · rw [nq_setQ_dot pf ip fp hnd, if_pos hl, h1]
    simp only [beq_self_eq_true, ↓reduceIte, h2]
    have hb : (decide (decOf ip > 1) || decide (decOf fp > 999) || decOf ip == 1 && decide (decOf fp > 0)) = true := by
      rcases hbad with h | ⟨h, h'⟩
      · simp [h]
      · simp [h, h']
    simp only [hb, ↓reduceIte]

/-- the decomposition of a `q` text is unique: the integer part is everything in front of the first dot -/
theorem nq_unique (val ip tl ip' fp' : List UInt8) (hv : val = ip ++ tl) (hnd : ∀ c ∈ ip, c ≠ 46)
    (htl : tl = [] ∨ ∃ fp, tl = 46 :: fp) (H : NqQText val ip' fp') :
    ip' = ip ∧ ((tl = [] ∧ fp' = []) ∨ tl = 46 :: fp') := by
  have hnd' := nq_digits_nodot ip' H.di
  have t1 : val.takeWhile (· != 46) = ip := by
    rcases htl with h | ⟨fp, h⟩
    · rw [hv, h, List.append_nil]; exact nq_takeWhile_nodot ip hnd
    · rw [hv, h]; exact nq_takeWhile_dot ip fp hnd
  have t2 : val.takeWhile (· != 46) = ip' := by
    rcases H.shape with ⟨h, _⟩ | h
    · rw [h]; exact nq_takeWhile_nodot ip' hnd'
    · rw [h]; exact nq_takeWhile_dot ip' fp' hnd'
  have hip : ip' = ip := by rw [← t2, t1]
  refine ⟨hip, ?_⟩
  rcases H.shape with ⟨h, h2⟩ | h
  · rw [hip, hv] at h
    have : tl = [] := by
      have := congrArg List.length h
      rw [List.length_append] at this
      exact List.eq_nil_of_length_eq_zero (by omega)
    exact Or.inl ⟨this, h2⟩
  · rw [hip, hv] at h
    exact Or.inr (List.append_cancel_left h)

/-- **the `q` value, every text**: either the text is a `q` text (`NqQText`: digits, optionally a dot and at most three
    digits, value at most 1 — the integer part may be empty or have leading zeros) and Q is set to its value in
    thousandths, nothing else changes; or it is not, Q is left alone and the parameter-error indication is set: one of
    "not a number", "too long", "bad value" with the offset of the START of the value — except for more than three bytes
    after the first dot: "too long" with the offset of the END of the value. -/
theorem nq_setQ_total (pf : PFromBody) (val : List UInt8) :
    (∃ ip fp, NqQText val ip fp ∧ setQ pf val = { pf with q := qValue ip fp }) ∨
    ((¬ ∃ ip fp, NqQText val ip fp) ∧
      ∃ e, (e = .valNotNumber ∨ e = .valTooLong ∨ e = .valBad) ∧
        (setQ pf val = { pf with paramErr := e, errOffs := trunc16 pf.vstart } ∨
         (e = .valTooLong ∧ setQ pf val = { pf with paramErr := e, errOffs := trunc16 pf.vend }))) := by
  obtain ⟨ip, tl, hv, hnd, htl⟩ := nq_split val
  have huniq := nq_unique val ip tl
  by_cases hi : AllDigits ip
  · by_cases hfit : decOf ip ≤ maxU64
    · rcases htl with h0 | ⟨fp, h0⟩
      · -- no dot
        have hval : val = ip := by rw [hv, h0, List.append_nil]
        by_cases h1 : decOf ip ≤ 1
        · have H : NqQText val ip [] :=
            ⟨hi, (fun c hc => by cases hc), by simp, h1, (fun _ => nq_decOf_nil), Or.inl ⟨hval, rfl⟩⟩
          exact Or.inl ⟨ip, [], H, nq_setQ_accept pf val ip [] H⟩
        · refine Or.inr ⟨?_, .valBad, Or.inr (Or.inr rfl), Or.inl ?_⟩
          · rintro ⟨ip', fp', H⟩
            have := (huniq ip' fp' hv hnd (Or.inl h0) H).1
            have := H.le1
            subst ip'; omega
          · rw [hval]
            exact (nq_setQ_range pf ip [] hi (fun c hc => by cases hc) hfit (by simp) (Or.inl (by omega))).1 (by omega)
      · -- a dot
        have hval : val = ip ++ 46 :: fp := by rw [hv, h0]
        by_cases hl : fp.length ≤ 3
        · by_cases hf : AllDigits fp
          · by_cases hok : decOf ip ≤ 1 ∧ (decOf ip = 1 → decOf fp = 0)
            · have H : NqQText val ip fp := ⟨hi, hf, hl, hok.1, hok.2, Or.inr hval⟩
              exact Or.inl ⟨ip, fp, H, nq_setQ_accept pf val ip fp H⟩
            · refine Or.inr ⟨?_, .valBad, Or.inr (Or.inr rfl), Or.inl ?_⟩
              · rintro ⟨ip', fp', H⟩
                obtain ⟨e1, e2⟩ := huniq ip' fp' hv hnd (Or.inr ⟨fp, h0⟩) H
                rcases e2 with ⟨e2, _⟩ | e2
                · rw [h0] at e2; cases e2
                · rw [h0] at e2; cases e2
                  subst ip'
                  exact hok ⟨H.le1, H.one⟩
              · rw [hval]
                refine (nq_setQ_range pf ip fp hi hf hfit hl ?_).2
                by_cases h1 : decOf ip ≤ 1
                · have h2 : ¬ (decOf ip = 1 → decOf fp = 0) := fun h => hok ⟨h1, h⟩
                  by_cases h3 : decOf ip = 1
                  · exact Or.inr ⟨h3, by
                      rcases Nat.eq_zero_or_pos (decOf fp) with h4 | h4
                      · exact absurd (fun _ => h4) h2
                      · exact h4⟩
                  · exact absurd (fun h => absurd h h3) h2
                · exact Or.inl (by omega)
          · refine Or.inr ⟨?_, .valNotNumber, Or.inl rfl, Or.inl ?_⟩
            · rintro ⟨ip', fp', H⟩
              obtain ⟨e1, e2⟩ := huniq ip' fp' hv hnd (Or.inr ⟨fp, h0⟩) H
              rcases e2 with ⟨e2, _⟩ | e2
              · rw [h0] at e2; cases e2
              · rw [h0] at e2; cases e2
                exact hf H.df
            · rw [hval]; exact nq_setQ_frac_nondigit pf ip fp hi hfit hf hl
        · refine Or.inr ⟨?_, .valTooLong, Or.inr (Or.inl rfl), Or.inr ⟨rfl, ?_⟩⟩
          · rintro ⟨ip', fp', H⟩
            obtain ⟨e1, e2⟩ := huniq ip' fp' hv hnd (Or.inr ⟨fp, h0⟩) H
            rcases e2 with ⟨e2, _⟩ | e2
            · rw [h0] at e2; cases e2
            · rw [h0] at e2; cases e2
              exact hl H.len
          · rw [hval]; exact nq_setQ_long pf ip fp hnd (by omega)
    · -- integer part too big for 64 bits
      have hno : ¬ ∃ ip' fp', NqQText val ip' fp' := by
        rintro ⟨ip', fp', H⟩
        have := (huniq ip' fp' hv hnd htl H).1
        have := H.le1
        subst ip'; unfold maxU64 at hfit; omega
      rcases htl with h0 | ⟨fp, h0⟩
      · refine Or.inr ⟨hno, .valTooLong, Or.inr (Or.inl rfl), Or.inl ?_⟩
        rw [hv, h0, List.append_nil]
        exact (nq_setQ_int_huge pf ip [] hi (by omega) (by simp)).1
      · by_cases hl : fp.length ≤ 3
        · refine Or.inr ⟨hno, .valTooLong, Or.inr (Or.inl rfl), Or.inl ?_⟩
          rw [hv, h0]
          exact (nq_setQ_int_huge pf ip fp hi (by omega) hl).2
        · refine Or.inr ⟨hno, .valTooLong, Or.inr (Or.inl rfl), Or.inr ⟨rfl, ?_⟩⟩
          rw [hv, h0]; exact nq_setQ_long pf ip fp hnd (by omega)
  · have hno : ¬ ∃ ip' fp', NqQText val ip' fp' := by
      rintro ⟨ip', fp', H⟩
      have := (huniq ip' fp' hv hnd htl H).1
      subst ip'; exact hi H.di
    rcases htl with h0 | ⟨fp, h0⟩
    · refine Or.inr ⟨hno, .valNotNumber, Or.inl rfl, Or.inl ?_⟩
      rw [hv, h0, List.append_nil]
      exact (nq_setQ_int_nondigit pf ip [] hnd hi (by simp)).1
    · by_cases hl : fp.length ≤ 3
      · refine Or.inr ⟨hno, .valNotNumber, Or.inl rfl, Or.inl ?_⟩
        rw [hv, h0]
        exact (nq_setQ_int_nondigit pf ip fp hnd hi hl).2
      · refine Or.inr ⟨hno, .valTooLong, Or.inr (Or.inl rfl), Or.inr ⟨rfl, ?_⟩⟩
        rw [hv, h0]; exact nq_setQ_long pf ip fp hnd (by omega)


/-- **iff**: on an object without a pending parameter error, `setQ` leaves the error indication clear exactly for the
    `q` texts -/
theorem nq_setQ_ok_iff (pf : PFromBody) (val : List UInt8) (hok : pf.paramErr = .ok) :
    (setQ pf val).paramErr = .ok ↔ ∃ ip fp, NqQText val ip fp := by
  rcases nq_setQ_total pf val with ⟨ip, fp, H, _⟩ | ⟨hno, e, he, hs | ⟨_, hs⟩⟩
  · exact ⟨fun _ => ⟨ip, fp, H⟩, fun _ => by rw [nq_setQ_accept pf val ip fp H]; exact hok⟩
  · refine ⟨fun h => ?_, fun h => absurd h hno⟩
    rw [hs] at h
    rcases he with he | he | he <;> (rw [he] at h; cases h)
  · refine ⟨fun h => ?_, fun h => absurd h hno⟩
    rw [hs] at h
    rcases he with he | he | he <;> (rw [he] at h; cases h)

/-- non-vacuity: `0`, `1`, `0.`, `0.5`, `1.000` are `q` texts — and so are `.5` (empty integer part) and `001` (leading
    zeros): the code accepts them -/
theorem nq_qtext_examples :
    NqQText [48] [48] [] ∧ NqQText [49] [49] [] ∧ NqQText [48, 46] [48] [] ∧ NqQText [48, 46, 53] [48] [53] ∧
    NqQText [49, 46, 48, 48, 48] [49] [48, 48, 48] ∧ NqQText [46, 53] [] [53] ∧ NqQText [48, 48, 49] [48, 48, 49] [] := by
  have d0 : IsDigitB 48 := by unfold IsDigitB; decide
  have d1 : IsDigitB 49 := by unfold IsDigitB; decide
  have d5 : IsDigitB 53 := by unfold IsDigitB; decide
  have hd : ∀ l : List UInt8, (∀ c ∈ l, c = 48 ∨ c = 49 ∨ c = 53) → AllDigits l := by
    intro l hl c hc
    rcases hl c hc with h | h | h <;> (rw [h]; assumption)
  refine ⟨⟨hd _ (by simp), hd _ (by simp), by simp, ?_, ?_, Or.inl ⟨rfl, rfl⟩⟩,
    ⟨hd _ (by simp), hd _ (by simp), by simp, ?_, ?_, Or.inl ⟨rfl, rfl⟩⟩,
    ⟨hd _ (by simp), hd _ (by simp), by simp, ?_, ?_, Or.inr rfl⟩,
    ⟨hd _ (by simp), hd _ (by simp), by simp, ?_, ?_, Or.inr rfl⟩,
    ⟨hd _ (by simp), hd _ (by simp), by simp, ?_, ?_, Or.inr rfl⟩,
    ⟨hd _ (by simp), hd _ (by simp), by simp, ?_, ?_, Or.inr rfl⟩,
    ⟨hd _ (by simp), hd _ (by simp), by simp, ?_, ?_, Or.inl ⟨rfl, rfl⟩⟩⟩ <;>
  simp [decOf, decFrom, dval_def]

/-- **`q=value`, every value**: lifted to the effect of the parameter on the object -/
theorem nq_param_q_any (b : Buf) (ps pe vs ve : Nat) (a : PAcc) (h1 : ps < pe) (h2 : vs < ve) (h3 : pe ≤ b.size)
    (h4 : ve ≤ b.size) (hfit : b.size ≤ 65535) (hn : cmpEqL (b.extract ps pe) sQ = true) :
    (∃ ip fp, NqQText (b.extract vs ve).toList ip fp ∧ paramEffect b ps pe vs ve a = { a with q := qValue ip fp }) ∨
    ((¬ ∃ ip fp, NqQText (b.extract vs ve).toList ip fp) ∧
      ∃ e, (e = .valNotNumber ∨ e = .valTooLong ∨ e = .valBad) ∧
        (paramEffect b ps pe vs ve a = { a with paramErr := e, errOffs := vs } ∨
         (e = .valTooLong ∧ paramEffect b ps pe vs ve a = { a with paramErr := e, errOffs := ve }))) := by
  have hlen := cmpEqL_len hn
  have t1 : cmpEqL (b.extract ps pe) sTag = false := cmpEqL_false_of_len (by rw [hlen]; decide)
  have t2 : cmpEqL (b.extract ps pe) sExpires = false := cmpEqL_false_of_len (by rw [hlen]; decide)
  have hpe : paramEffect b ps pe vs ve a =
      (setQ { (({} : PFromBody).withAcc a) with pstart := ps, pend := pe, vstart := vs, vend := ve }
          (b.extract vs ve).toList).acc := by
    rw [paramEffect_valued b ps pe vs ve a h1 h2 h3 h4, t1, t2, if_neg (by decide), if_neg (by decide), if_pos hn]
  rw [hpe]
  rcases nq_setQ_total { (({} : PFromBody).withAcc a) with pstart := ps, pend := pe, vstart := vs, vend := ve }
    (b.extract vs ve).toList with ⟨ip, fp, H, hs⟩ | ⟨hno, e, he, hs | ⟨he2, hs⟩⟩
  · exact Or.inl ⟨ip, fp, H, by rw [hs]; rfl⟩
  · refine Or.inr ⟨hno, e, he, Or.inl ?_⟩
    rw [hs]
    show ({ a with paramErr := e, errOffs := trunc16 vs } : PAcc) = _
    rw [trunc16_id (by omega)]
  · refine Or.inr ⟨hno, e, he, Or.inr ⟨he2, ?_⟩⟩
    rw [hs]
    show ({ a with paramErr := e, errOffs := trunc16 ve } : PAcc) = _
    rw [trunc16_id (by omega)]


/-- the hypotheses of `nq_param_q_any` are satisfiable: `Q=.5` (name in upper case, empty integer part) -/
example : paramEffect "Q=.5".toUTF8.data 0 1 2 4 {} = { q := 500 } := by
  have hv : ("Q=.5".toUTF8.data.extract 2 4).toList = [46, 53] := by decide +kernel
  have hq : NqQText [46, 53] [] [53] := nq_qtext_examples.2.2.2.2.2.1
  rcases nq_param_q_any "Q=.5".toUTF8.data 0 1 2 4 {} (by decide) (by decide) (by decide) (by decide) (by decide)
    (by decide +kernel) with ⟨ip, fp, H, he⟩ | ⟨hno, _⟩
  · rw [hv] at H
    obtain ⟨e1, e2⟩ := nq_unique [46, 53] [] [46, 53] ip fp rfl (fun c hc => by cases hc) (Or.inr ⟨[53], rfl⟩) H
    rcases e2 with ⟨e2, _⟩ | e2
    · cases e2
    · cases e2; subst e1
      rw [he]
      simp [qValue, decOf, decFrom, dval_def]
  · rw [hv] at hno
    exact absurd ⟨[], [53], hq⟩ hno

/-- tests (evaluation on concrete texts): `0.5000` -> too long, reported at the end of the value; `2`, `1.001` -> bad
    value; `0.a`, `-1`, `0..` -> not a number; `.5` -> 500 -/
example : (setQ { vstart := 10, vend := 16 } [48, 46, 53, 48, 48, 48]) =
    { vstart := 10, vend := 16, paramErr := .valTooLong, errOffs := 16 } := by decide +kernel
example : (setQ { vstart := 10, vend := 11 } [50]) = { vstart := 10, vend := 11, paramErr := .valBad, errOffs := 10 } := by
  decide +kernel
example : (setQ { vstart := 10, vend := 15 } [49, 46, 48, 48, 49]) =
    { vstart := 10, vend := 15, paramErr := .valBad, errOffs := 10 } := by decide +kernel
example : (setQ { vstart := 10, vend := 13 } [48, 46, 97]) =
    { vstart := 10, vend := 13, paramErr := .valNotNumber, errOffs := 10 } := by decide +kernel
example : (setQ { vstart := 10, vend := 13 } [48, 46, 46]) =
    { vstart := 10, vend := 13, paramErr := .valNotNumber, errOffs := 10 } := by decide +kernel
example : (setQ { vstart := 10, vend := 12 } [46, 53]) = { vstart := 10, vend := 12, q := 500 } := by decide +kernel

/-! ## (2) trailing `;`, empty parameters, `name=` without a value -/

/-! #### more steps of the parameter automaton -/

theorem n2_stepNP_semi (h : Nat) (b : Buf) (i : Nat) (pf : PFromBody) (q : Bool) (hst : pf.state = stNP q) :
    naStep h b i 59 pf = .cont (i + 1) pf := by
  cases q <;>
  · simp only [stNP] at hst
    unfold naStep; simp only [hst]
    unfold naStepP
    simp +decide only [hst, ↓reduceIte]

theorem n2_stepNP_eoh (h : Nat) (b : Buf) (i p crl : Nat) (c : UInt8) (pf : PFromBody) (q : Bool) (hst : pf.state = stNP q)
    (hc : isLWSch c = true) (hs : skipLWS b i 0 = (p, crl, .eoh)) :
    naStep h b i c pf = .done (p + crl) .ok { naEOHParamName b pf i with state := .fin, soffs := 0, type := h } := by
  cases q <;>
  · simp only [stNP] at hst
    unfold naStep; simp only [hst]
    unfold naStepP; simp only [hc, ↓reduceIte]
    rw [hs]
    simp +decide only [naNameWS, hst, ↓reduceIte]
    unfold naEOH
    simp only [hst]
    rfl

theorem n2_stepNP_comma (h : Nat) (b : Buf) (i : Nat) (pf : PFromBody) (q : Bool) (hst : pf.state = stNP q)
    (hm : multipleValsOk h = true) :
    naStep h b i 44 pf = .done (i + 1) .moreValues { naEOHParamName b pf i with state := .fin, soffs := 0, type := h } := by
  cases q <;>
  · simp only [stNP] at hst
    unfold naStep; simp only [hst]
    unfold naStepP
    simp +decide only [hm, ↓reduceIte]
    unfold naMoreValues naEOH
    simp only [hst]
    rfl

theorem n2_stepNV_semi (h : Nat) (b : Buf) (i : Nat) (pf : PFromBody) (q : Bool) (hst : pf.state = stNV q) :
    naStep h b i 59 pf = .cont (i + 1) (setFromParamVal b { pf with state := stNP q, vend := i }) := by
  cases q <;>
  · simp only [stNV] at hst
    unfold naStep; simp only [hst]
    unfold naStepV
    simp +decide only [hst, ↓reduceIte]
    rfl

theorem n2_stepNV_eoh (h : Nat) (b : Buf) (i p crl : Nat) (c : UInt8) (pf : PFromBody) (q : Bool) (hst : pf.state = stNV q)
    (hc : isLWSch c = true) (hs : skipLWS b i 0 = (p, crl, .eoh)) :
    naStep h b i c pf = .done (p + crl) .ok
      { naEOHVal b { pf with vstart := i } i with state := .fin, soffs := 0, type := h } := by
  cases q <;>
  · simp only [stNV] at hst
    unfold naStep; simp only [hst]
    unfold naStepV; simp only [hc, ↓reduceIte]
    rw [hs]
    have hv : naValWS pf i p false = pf := by unfold naValWS; simp only [hst]; rfl
    simp only [hv]
    unfold naEOH
    simp only [hst]
    rfl

theorem n2_stepNV_comma (h : Nat) (b : Buf) (i : Nat) (pf : PFromBody) (q : Bool) (hst : pf.state = stNV q)
    (hm : multipleValsOk h = true) :
    naStep h b i 44 pf = .done (i + 1) .moreValues
      { naEOHVal b { pf with vstart := i } i with state := .fin, soffs := 0, type := h } := by
  cases q <;>
  · simp only [stNV] at hst
    unfold naStep; simp only [hst]
    unfold naStepV
    simp +decide only [hm, ↓reduceIte]
    unfold naMoreValues naEOH
    simp only [hst]
    rfl

/-! #### how a value ends after a `;` or after an `=` -/

/-- the end of a value right after a `;` or an `=` at `i - 1`: optional white space and a line end that is not a fold
    (verdict OK, offset after the line end; the reported spans end at `i`, i.e. they include the `;` / `=` but not the
    white space), or — header kinds with several values — optional white space and a comma (verdict "more values",
    offset after the comma; the reported spans end AT THE COMMA, i.e. they include the white space) -/
def NqEnd (h : Nat) (b : Buf) (i ve o' : Nat) (e' : Err) : Prop :=
  (∃ p c2, Lws b i p ∧ Eol b p o' ∧ b[o']? = some c2 ∧ isWS c2 = false ∧ e' = .ok ∧ ve = i) ∨
  (∃ m, Lws b i m ∧ b[m]? = some 44 ∧ multipleValsOk h = true ∧ o' = m + 1 ∧ e' = .moreValues ∧ ve = m)

theorem NqEnd.bounds {h : Nat} {b : Buf} {i ve o' : Nat} {e' : Err} (H : NqEnd h b i ve o' e') :
    i ≤ ve ∧ ve < o' ∧ o' ≤ b.size ∧ (e' = .ok ∨ e' = .moreValues) := by
  rcases H with ⟨p, c2, hl, he, h2, _, rfl, rfl⟩ | ⟨m, hl, hm, _, rfl, rfl, rfl⟩
  · have := hl.le; have := he.gt; have := get?_lt h2
    exact ⟨Nat.le_refl _, by omega, by omega, Or.inl rfl⟩
  · have := hl.le; have := get?_lt hm
    exact ⟨by omega, by omega, by omega, Or.inr rfl⟩

/-- the finished object when the parameter span may be absent (`po = 0`: no parameter was seen) -/
def nqFin (h : Nat) (base : PFromBody) (po ve : Nat) (a : PAcc) : PFromBody :=
  if po = 0 then { (pst base .fin 0 0 0 0 0 a).extV ve with soffs := 0, type := h } else finP h base po ve a

theorem n2_np_fin (h : Nat) (b : Buf) (q : Bool) (base : PFromBody) (po : Nat) (a : PAcc) (i : Nat) :
    ({ naEOHParamName b (pst base (stNP q) po 0 0 0 0 a) i with state := .fin, soffs := 0, type := h } : PFromBody) =
      nqFin h base po i a := by
  unfold naEOHParamName nqFin
  have e1 : ((pst base (stNP q) po 0 0 0 0 a).state == .paramName || (pst base (stNP q) po 0 0 0 0 a).state == .possibleParamName) = false := by
    cases q <;> rfl
  have e2 : ¬ ((pst base (stNP q) po 0 0 0 0 a).pstart < (pst base (stNP q) po 0 0 0 0 a).pend) := by
    show ¬ (0 < 0); omega
  simp only [e1, e2, Bool.false_eq_true, ↓reduceIte]
  by_cases hpo : po = 0
  · subst hpo
    have e3 : ((pst base (stNP q) 0 0 0 0 0 a).params.offs != 0) = false := rfl
    simp only [e3, Bool.false_eq_true, ↓reduceIte]
    rfl
  · have e3 : ((pst base (stNP q) po 0 0 0 0 a).params.offs != 0) = true := by
      show (po != 0) = true; simpa using hpo
    simp only [e3, ↓reduceIte, hpo]
    rfl

/-- after a `;` (no parameter name started): the end of the value -/
theorem n2_np_end (h : Nat) (b : Buf) (q : Bool) (base : PFromBody) (po : Nat) (a : PAcc) {i ve o' : Nat} {e' : Err}
    (H : NqEnd h b i ve o' e') :
    runLoop (naMachine h) b i (pst base (stNP q) po 0 0 0 0 a) = (o', e', nqFin h base po ve a) := by
  rcases H with ⟨p, c2, hl, he, h2, hw2, rfl, rfl⟩ | ⟨m, hl, hm, hmv, rfl, rfl, rfl⟩
  · obtain ⟨c0, hc0, hl0⟩ := lws_eol_first hl he
    have hgt := he.gt
    refine runLoop_done (naMachine h) hc0 ?_
    show naStep h b ve c0 _ = _
    rw [n2_stepNP_eoh h b ve p (o' - p) c0 _ q rfl hl0 (skipLWS_of_lws_eol hl he h2 hw2)]
    have : p + (o' - p) = o' := by omega
    rw [this, n2_np_fin]
  · have hle := hl.le
    have hskip : runLoop (naMachine h) b i (pst base (stNP q) po 0 0 0 0 a) =
        runLoop (naMachine h) b ve (pst base (stNP q) po 0 0 0 0 a) := by
      by_cases h1 : i < ve
      · obtain ⟨c0, hc0, hl0⟩ := hl.first h1
        rw [runLoop_cont (naMachine h) hc0 (by exact stepNP_lws h b i ve c0 _ q rfl hl0 (skipLWS_of_lws hl hm (by decide))),
          if_pos h1]
      · have : i = ve := by omega
        rw [this]
    rw [hskip]
    refine runLoop_done (naMachine h) hm ?_
    show naStep h b ve 44 _ = _
    rw [n2_stepNP_comma h b ve _ q rfl hmv, n2_np_fin]

/-- an empty value acts like no value -/
theorem n2_paramEffect_vv (b : Buf) (ps pe v : Nat) (a : PAcc) (h1 : ps < pe) :
    paramEffect b ps pe v v a = paramEffect b ps pe 0 0 a := by
  unfold paramEffect setFromParamVal
  have c1 : (decide (ps < pe) && decide (v < v)) = false := by simp
  have c1' : (decide (ps < pe) && decide (0 < 0)) = false := by simp
  have c2 : (decide (ps < pe) && v == v) = true := by simp [h1]
  have c2' : (decide (ps < pe) && (0 : Nat) == 0) = true := by simp [h1]
  simp only [PFromBody.withAcc, c1, c1', c2, c2', Bool.false_eq_true, ↓reduceIte]
  cases slice? b ps pe with
  | none => rfl
  | some nm =>
    simp only
    cases cmpEqL nm sLr <;> rfl

theorem n2_nv_fin (h : Nat) (b : Buf) (q : Bool) (base : PFromBody) (po ps pe vs0 i : Nat) (a : PAcc) (h1 : ps < pe)
    (h2 : pe ≤ i) (h3 : i ≤ b.size) :
    ({ naEOHVal b { pst base (stNV q) po ps pe vs0 0 a with vstart := i } i with state := .fin, soffs := 0, type := h } : PFromBody) =
      finP h base po i (paramEffect b ps pe 0 0 a) := by
  unfold naEOHVal
  have : ({ ({ pst base (stNV q) po ps pe vs0 0 a with vstart := i } : PFromBody) with vend := i } : PFromBody) =
      pst base (stNV q) po ps pe i i a := rfl
  rw [this, sfp_pst b base _ po ps pe i i a (by omega) h3, n2_paramEffect_vv b ps pe i a h1]
  rfl

/-- after `name =` (no value byte yet): the end of the value -/
theorem n2_nv_end (h : Nat) (b : Buf) (q : Bool) (base : PFromBody) (po ps pe : Nat) (a : PAcc) {i ve o' : Nat} {e' : Err}
    (h1 : ps < pe) (h2 : pe ≤ i) (H : NqEnd h b i ve o' e') :
    runLoop (naMachine h) b i (pst base (stNV q) po ps pe i 0 a) =
      (o', e', finP h base po ve (paramEffect b ps pe 0 0 a)) := by
  have hb := H.bounds
  rcases H with ⟨p, c2, hl, he, h2', hw2, rfl, rfl⟩ | ⟨m, hl, hm, hmv, rfl, rfl, rfl⟩
  · obtain ⟨c0, hc0, hl0⟩ := lws_eol_first hl he
    have hgt := he.gt
    refine runLoop_done (naMachine h) hc0 ?_
    show naStep h b ve c0 _ = _
    rw [n2_stepNV_eoh h b ve p (o' - p) c0 _ q rfl hl0 (skipLWS_of_lws_eol hl he h2' hw2)]
    have : p + (o' - p) = o' := by omega
    rw [this, n2_nv_fin h b q base po ps pe ve ve a h1 h2 (by omega)]
  · have hle := hl.le
    have hskip : runLoop (naMachine h) b i (pst base (stNV q) po ps pe i 0 a) =
        runLoop (naMachine h) b ve (pst base (stNV q) po ps pe ve 0 a) := by
      by_cases h1 : i < ve
      · obtain ⟨c0, hc0, hl0⟩ := hl.first h1
        have hstep := stepNV_lws h b i ve c0 (pst base (stNV q) po ps pe i 0 a) q rfl hl0 (skipLWS_of_lws hl hm (by decide))
        exact (runLoop_cont (naMachine h) hc0 (by exact hstep)).trans (if_pos h1)
      · have : i = ve := by omega
        rw [this]
    rw [hskip]
    refine runLoop_done (naMachine h) hm ?_
    show naStep h b ve 44 _ = _
    rw [n2_stepNV_comma h b ve _ q rfl hmv, n2_nv_fin h b q base po ps pe ve ve a h1 (by omega) (by omega)]

/-- end of a parameter name, optional white space, `=`: up to the byte after the `=` -/
theorem n2_peq_run (h : Nat) (b : Buf) (q : Bool) (base : PFromBody) (po ps pe eq : Nat) (a : PAcc)
    (hl : Lws b pe eq) (heq : b[eq]? = some 61) :
    runLoop (naMachine h) b pe (pst base (stPN q) po ps 0 0 0 a) =
      runLoop (naMachine h) b (eq + 1) (pst base (stNV q) po ps pe (eq + 1) 0 a) := by
  have hle := hl.le
  by_cases h1 : pe < eq
  · obtain ⟨c0, hc0, hl0⟩ := hl.first h1
    rw [runLoop_cont (naMachine h) hc0
      (by exact stepPN_lws h b pe eq c0 _ q rfl hl0 (skipLWS_of_lws hl heq (by decide))), if_pos h1]
    exact (runLoop_cont (naMachine h) heq
      (by exact stepPNE_eq h b eq (pst base (stPNE q) po ps pe 0 0 a) q rfl)).trans (if_pos (by omega))
  · have : pe = eq := by omega
    subst this
    exact (runLoop_cont (naMachine h) heq
      (by exact stepPN_eq h b pe (pst base (stPN q) po ps 0 0 0 a) q rfl)).trans (if_pos (by omega))

/-- `name =` with an empty value, then optional white space and `;` -/
theorem n2_nv_sep (h : Nat) (b : Buf) (q : Bool) (base : PFromBody) (po ps pe i m : Nat) (a : PAcc) (h1 : ps < pe)
    (h2 : pe ≤ i) (hl : Lws b i m) (hm : b[m]? = some 59) :
    runLoop (naMachine h) b i (pst base (stNV q) po ps pe i 0 a) =
      runLoop (naMachine h) b (m + 1) (pst base (stNP q) po 0 0 0 0 (paramEffect b ps pe 0 0 a)) := by
  have hsz := get?_lt hm
  have hle := hl.le
  have hskip : runLoop (naMachine h) b i (pst base (stNV q) po ps pe i 0 a) =
      runLoop (naMachine h) b m (pst base (stNV q) po ps pe m 0 a) := by
    by_cases h1 : i < m
    · obtain ⟨c0, hc0, hl0⟩ := hl.first h1
      have hstep := stepNV_lws h b i m c0 (pst base (stNV q) po ps pe i 0 a) q rfl hl0 (skipLWS_of_lws hl hm (by decide))
      exact (runLoop_cont (naMachine h) hc0 (by exact hstep)).trans (if_pos h1)
    · have : i = m := by omega
      rw [this]
  rw [hskip]
  have hstep : naStep h b m 59 (pst base (stNV q) po ps pe m 0 a) =
      .cont (m + 1) (pst base (stNP q) po 0 0 0 0 (paramEffect b ps pe 0 0 a)) := by
    rw [n2_stepNV_semi h b m _ q rfl]
    show Step.cont (m + 1) (setFromParamVal b (pst base (stNP q) po ps pe m m a)) = _
    rw [sfp_pst b base _ po ps pe m m a (by omega) (by omega), n2_paramEffect_vv b ps pe m a h1]
  exact (runLoop_cont (naMachine h) hm (by exact hstep)).trans (if_pos (by omega))

/-! #### the grammar of a parameter list with empty parameters, empty values and a trailing `;` -/

/-- everything after the first `;` of a value (read from the byte after it, at `i`), up to and including the end of the
    value: `L` = the parameters with a name (an empty value is recorded as "no value": `vs = ve = 0`), `ve` = the end of
    the reported parameter span and of the reported value, `o'` / `e'` = returned offset / verdict.
    * `done`: nothing but the end of the value (a trailing `;`);
    * `skip`: an empty parameter: optional white space and another `;`;
    * `last`: a parameter of the old grammar (`ParamAt`) and the end of the value (`Term`);
    * `lastEq`: `name [LWS] =` with an empty value, and the end of the value;
    * `cons`, `consEq`: the same two followed by optional white space, `;` and the rest. -/
inductive NqParams (h : Nat) (b : Buf) : Nat → List PSpan → Nat → Nat → Err → Prop
  | done (i ve o' : Nat) (e' : Err) : NqEnd h b i ve o' e' → NqParams h b i [] ve o' e'
  | skip (i m : Nat) (L : List PSpan) (ve o' : Nat) (e' : Err) : Lws b i m → b[m]? = some 59 →
      NqParams h b (m + 1) L ve o' e' → NqParams h b i L ve o' e'
  | last (i w : Nat) (x : PSpan) (o' : Nat) (e' : Err) : ParamAt b i x w → Term h b w o' e' → NqParams h b i [x] w o' e'
  | lastEq (i ps pe eq ve o' : Nat) (e' : Err) : Lws b i ps → Run isPNch b ps pe → ps < pe → Lws b pe eq →
      b[eq]? = some 61 → NqEnd h b (eq + 1) ve o' e' → NqParams h b i [⟨ps, pe, 0, 0⟩] ve o' e'
  | cons (i w m : Nat) (x : PSpan) (L : List PSpan) (ve o' : Nat) (e' : Err) : ParamAt b i x w → Lws b w m →
      b[m]? = some 59 → NqParams h b (m + 1) L ve o' e' → NqParams h b i (x :: L) ve o' e'
  | consEq (i ps pe eq m : Nat) (L : List PSpan) (ve o' : Nat) (e' : Err) : Lws b i ps → Run isPNch b ps pe → ps < pe →
      Lws b pe eq → b[eq]? = some 61 → Lws b (eq + 1) m → b[m]? = some 59 → NqParams h b (m + 1) L ve o' e' →
      NqParams h b i (⟨ps, pe, 0, 0⟩ :: L) ve o' e'

theorem n2_firstPs_ne (po : Nat) (x : PSpan) (L : List PSpan) (hx : x.ps ≠ 0) : firstPs po (x :: L) ≠ 0 := by
  show poNext po x.ps ≠ 0
  unfold poNext; split <;> omega

theorem n2_firstPs_idem (p : Nat) (L : List PSpan) (hp : p ≠ 0) : firstPs p L = p := by
  cases L with
  | nil => rfl
  | cons y L' => show poNext p y.ps = p; unfold poNext; rw [if_neg hp]

theorem n2_nqFin_ne (h : Nat) (base : PFromBody) (po ve : Nat) (a : PAcc) (hpo : po ≠ 0) :
    nqFin h base po ve a = finP h base po ve a := by
  unfold nqFin; rw [if_neg hpo]

/-- **the generalised parameter list**: from the byte after the first `;` to the end of the value -/
theorem n2_params_run (h : Nat) (b : Buf) (q : Bool) (base : PFromBody) (hfit : b.size ≤ 65535) {i ve o' : Nat}
    {e' : Err} {L : List PSpan} (H : NqParams h b i L ve o' e') :
    ∀ (po : Nat) (a : PAcc), 0 < i →
      runLoop (naMachine h) b i (pst base (stNP q) po 0 0 0 0 a) = (o', e', nqFin h base (firstPs po L) ve (accAll b L a)) := by
  induction H with
  | done i ve o' e' hend =>
    intro po a _
    exact n2_np_end h b q base po a hend
  | skip i m L ve o' e' hl hm _ ih =>
    intro po a h0
    have hle := hl.le
    have hskip : runLoop (naMachine h) b i (pst base (stNP q) po 0 0 0 0 a) =
        runLoop (naMachine h) b m (pst base (stNP q) po 0 0 0 0 a) := by
      by_cases h1 : i < m
      · obtain ⟨c0, hc0, hl0⟩ := hl.first h1
        rw [runLoop_cont (naMachine h) hc0 (by exact stepNP_lws h b i m c0 _ q rfl hl0 (skipLWS_of_lws hl hm (by decide))),
          if_pos h1]
      · have : i = m := by omega
        rw [this]
    rw [hskip, runLoop_cont (naMachine h) hm (by exact n2_stepNP_semi h b m _ q rfl), if_pos (by omega)]
    exact ih po a (by omega)
  | last i w x o' e' hx T =>
    intro po a h0
    have hb := hx.bounds
    rw [na_param_term h b q base po a hx T h0 hfit, n2_nqFin_ne h base _ w _ (n2_firstPs_ne po x [] (by omega))]
    rfl
  | lastEq i ps pe eq ve o' e' hl hn hlt hl2 heq hend =>
    intro po a h0
    have := hl.le; have := hl2.le
    have hne : poNext po ps ≠ 0 := by unfold poNext; split <;> omega
    rw [na_pname_run h b q base po a i ps pe hl hn hlt (by omega) hfit, n2_peq_run h b q base _ ps pe eq a hl2 heq,
      n2_nv_end h b q base _ ps pe a hlt (by omega) hend, n2_nqFin_ne h base _ ve _ (by exact hne)]
    rfl
  | cons i w m x L ve o' e' hx hl hm _ ih =>
    intro po a h0
    have hb := hx.bounds
    have hne : poNext po x.ps ≠ 0 := by unfold poNext; split <;> omega
    rw [na_param_sep h b q base po a hx hl hm h0 hfit, ih _ _ (by omega), n2_firstPs_idem _ L hne]
    rfl
  | consEq i ps pe eq m L ve o' e' hl hn hlt hl2 heq hl3 hm _ ih =>
    intro po a h0
    have := hl.le; have := hl2.le
    have hne : poNext po ps ≠ 0 := by unfold poNext; split <;> omega
    rw [na_pname_run h b q base po a i ps pe hl hn hlt (by omega) hfit, n2_peq_run h b q base _ ps pe eq a hl2 heq,
      n2_nv_sep h b q base _ ps pe (eq + 1) m a hlt (by omega) hl3 hm, ih _ _ (by omega), n2_firstPs_idem _ L hne]
    rfl

theorem NqParams.bounds {h : Nat} {b : Buf} {i ve o' : Nat} {e' : Err} {L : List PSpan} (H : NqParams h b i L ve o' e') :
    i ≤ ve ∧ ve < o' ∧ o' ≤ b.size ∧ (e' = .ok ∨ e' = .moreValues) ∧ (L = [] ∨ (i ≤ firstPs 0 L ∧ firstPs 0 L < ve)) := by
  induction H with
  | done i ve o' e' hend =>
    obtain ⟨h1, h2, h3, h4⟩ := hend.bounds
    exact ⟨h1, h2, h3, h4, Or.inl rfl⟩
  | skip i m L ve o' e' hl hm _ ih =>
    obtain ⟨h1, h2, h3, h4, h5⟩ := ih
    have := hl.le
    refine ⟨by omega, h2, h3, h4, ?_⟩
    rcases h5 with h5 | h5
    · exact Or.inl h5
    · exact Or.inr ⟨by omega, h5.2⟩
  | last i w x o' e' hx T =>
    have hb := hx.bounds; have hr := T.range
    exact ⟨by omega, hr.1, hr.2, T.complete, Or.inr ⟨hb.1, by show x.ps < w; omega⟩⟩
  | lastEq i ps pe eq ve o' e' hl hn hlt hl2 heq hend =>
    obtain ⟨h1, h2, h3, h4⟩ := hend.bounds
    have := hl.le; have := hl2.le
    exact ⟨by omega, h2, h3, h4, Or.inr ⟨by show i ≤ ps; omega, by show ps < ve; omega⟩⟩
  | cons i w m x L ve o' e' hx hl hm _ ih =>
    obtain ⟨h1, h2, h3, h4, _⟩ := ih
    have hb := hx.bounds; have := hl.le
    exact ⟨by omega, h2, h3, h4, Or.inr ⟨hb.1, by show x.ps < ve; omega⟩⟩
  | consEq i ps pe eq m L ve o' e' hl hn hlt hl2 heq hl3 hm _ ih =>
    obtain ⟨h1, h2, h3, h4, _⟩ := ih
    have := hl.le; have := hl2.le; have := hl3.le
    exact ⟨by omega, h2, h3, h4, Or.inr ⟨by show i ≤ ps; omega, by show ps < ve; omega⟩⟩

/-- the reported parameter span: empty when no parameter with a name was seen -/
def nqSpan (po ve : Nat) : PField := if po = 0 then {} else ⟨po, ve - po⟩

theorem n2_nqFin_result (h : Nat) (base : PFromBody) (po w : Nat) (a : PAcc) (hs : base.star = false) (hp : base.pnc = false)
    (hpl : base.params.len = 0) (hv : base.v.offs ≤ w) (hpo : po ≤ w) (hw : w ≤ 65535) :
    ({ nqFin h base po w a with s := 0 } : PFromBody) =
      naResult h base.name base.uri (nqSpan po w) ⟨base.v.offs, w - base.v.offs⟩ a := by
  by_cases h0 : po = 0
  · subst h0
    unfold nqFin nqSpan
    rw [if_pos rfl, if_pos rfl]
    unfold pst PFromBody.extV naResult
    simp only [extend_eq base.v w hv hw, hs, hp, hpl, extendPanics_false base.v w hv, Bool.or_false]
  · unfold nqSpan
    rw [n2_nqFin_ne h base po w a h0, if_neg h0]
    exact finP_result h base po w a hs hp hv hpo hw


/-! #### the whole value -/

/-- **`[display-name] <uri> [LWS] ;` and ANY generalised parameter list** (`NqParams`: parameters with / without value,
    empty values `name=`, empty parameters `;;`, trailing `;`): accepted; the parameter span runs from the first byte of
    the first parameter name to `ve` (empty if there is no named parameter), the value from its first byte to `ve` -/
theorem n2_bracket_params (h : Nat) (b : Buf) (o a g m ve o' : Nat) (e' : Err) (nm : PField) (L : List PSpan)
    (hfit : b.size ≤ 65535) (hp : AddrPrefix b o nm a) (hu : Run isURIch b (a + 1) g) (hag : a + 1 ≤ g)
    (hg : b[g]? = some 62) (hl : Lws b (g + 1) m) (hm : b[m]? = some 59) (hL : NqParams h b (m + 1) L ve o' e') :
    parseNameAddrPVal h b o {} =
      (o', e', naResult h nm ⟨a + 1, g - (a + 1)⟩ (nqSpan (firstPs 0 L) ve) ⟨o, ve - o⟩ (accAll b L {})) := by
  obtain ⟨hoa, x, hrun⟩ := hp.run h hfit
  obtain ⟨hb1, hb2, hb3, hb4, hb5⟩ := hL.bounds
  have hle := hl.le
  have hpo : firstPs 0 L ≤ ve := by
    rcases hb5 with h5 | h5
    · rw [h5]; exact Nat.zero_le _
    · omega
  have hloop : runLoop (naMachine h) b o {} =
      (o', e', nqFin h { ufBase nm o a g with s := 0 } (firstPs 0 L) ve (accAll b L {})) := by
    rw [hrun, na_uri_to_uf h b nm o x a g hoa hag hu hg hfit, na_uf_sep h b _ rfl hl hm]
    exact n2_params_run h b false { ufBase nm o a g with s := 0 } hfit hL 0 {} (by omega)
  rw [parse_of_loop h b o hloop hb4]
  rw [n2_nqFin_result h _ (firstPs 0 L) ve _ rfl rfl rfl (by show o ≤ ve; omega) hpo (by omega)]
  rfl

/-- **bare URI `[LWS] ;` and ANY generalised parameter list**: they are header parameters -/
theorem n2_bare_params (h : Nat) (b : Buf) (o t m ve o' : Nat) (e' : Err) (L : List PSpan)
    (hfit : b.size ≤ 65535) {c : UInt8} (hc : b[o]? = some c) (h1 : isTok1 c = true)
    (hr : Run isTokch b (o + 1) t) (hot : o + 1 ≤ t) (hl : Lws b t m) (hm : b[m]? = some 59)
    (hL : NqParams h b (m + 1) L ve o' e') :
    parseNameAddrPVal h b o {} =
      (o', e', naResult h {} ⟨o, t - o⟩ (nqSpan (firstPs 0 L) ve) ⟨o, ve - o⟩ (accAll b L {})) := by
  obtain ⟨hb1, hb2, hb3, hb4, hb5⟩ := hL.bounds
  have hle := hl.le
  have hpo : firstPs 0 L ≤ ve := by
    rcases hb5 with h5 | h5
    · rw [h5]; exact Nat.zero_le _
    · omega
  obtain ⟨x, s', hsep⟩ := na_nu_sep h b o t m hfit (by omega) hl hm
  have hloop : runLoop (naMachine h) b o {} =
      (o', e', nqFin h (bareBase o t x s') (firstPs 0 L) ve (accAll b L {})) := by
    rw [na_tok_run h b o t hfit hc h1 hr hot, hsep]
    exact n2_params_run h b true (bareBase o t x s') hfit hL 0 {} (by omega)
  rw [parse_of_loop h b o hloop hb4]
  rw [n2_nqFin_result h _ (firstPs 0 L) ve _ rfl rfl rfl (by show o ≤ ve; omega) hpo (by omega)]
  rfl

/-- the old grammar is a special case: a `PList` followed by `Term` -/
theorem n2_of_plist {h : Nat} {b : Buf} {i w o' : Nat} {e' : Err} {L : List PSpan} (H : PList b i L w)
    (T : Term h b w o' e') : NqParams h b i L w o' e' := by
  induction H with
  | last i w x hx => exact .last i w x o' e' hx T
  | cons i w m w' x L hx hl hm _ ih => exact .cons i w m x L w' o' e' hx hl hm (ih T)

/-- a `PList`, optional white space, a trailing `;` and the end of the value -/
theorem n2_of_plist_semi {h : Nat} {b : Buf} {i w m ve o' : Nat} {e' : Err} {L : List PSpan} (H : PList b i L w)
    (hl : Lws b w m) (hm : b[m]? = some 59) (E : NqEnd h b (m + 1) ve o' e') : NqParams h b i L ve o' e' := by
  induction H with
  | last i w x hx => exact .cons i w m x [] ve o' e' hx hl hm (.done (m + 1) ve o' e' E)
  | cons i w m' w' x L hx hl' hm' _ ih => exact .cons i w m' x L ve o' e' hx hl' hm' (ih hl)

/-! #### the shapes spelled out -/

/-- `<uri> ;` and the line end: accepted, no parameters; the reported value INCLUDES the `;` -/
theorem n2_uri_trailing_semi (h : Nat) (b : Buf) (o g m p e : Nat) (hfit : b.size ≤ 65535) (h0 : b[o]? = some 60)
    (hu : Run isURIch b (o + 1) g) (hog : o + 1 ≤ g) (hg : b[g]? = some 62) (hl : Lws b (g + 1) m) (hm : b[m]? = some 59)
    (hl2 : Lws b (m + 1) p) (he : Eol b p e) {c2 : UInt8} (h2 : b[e]? = some c2) (hw2 : isWS c2 = false) :
    parseNameAddrPVal h b o {} =
      (e, .ok, { uri := ⟨o + 1, g - (o + 1)⟩, v := ⟨o, m + 1 - o⟩, type := h, state := .fin }) :=
  n2_bracket_params h b o o g m (m + 1) e .ok {} [] hfit (.none h0) hu hog hg hl hm
    (.done (m + 1) (m + 1) e .ok (Or.inl ⟨p, c2, hl2, he, h2, hw2, rfl, rfl⟩))

/-- `<uri> ;params ;` and the line end: accepted; the reported parameter span and value INCLUDE the trailing `;` (and
    the white space in front of it) -/
theorem n2_params_trailing_semi (h : Nat) (b : Buf) (o a g m w m2 p e : Nat) (nm : PField) (L : List PSpan)
    (hfit : b.size ≤ 65535) (hp : AddrPrefix b o nm a) (hu : Run isURIch b (a + 1) g) (hag : a + 1 ≤ g)
    (hg : b[g]? = some 62) (hl : Lws b (g + 1) m) (hm : b[m]? = some 59) (hL : PList b (m + 1) L w)
    (hl2 : Lws b w m2) (hm2 : b[m2]? = some 59) (hl3 : Lws b (m2 + 1) p) (he : Eol b p e) {c2 : UInt8}
    (h2 : b[e]? = some c2) (hw2 : isWS c2 = false) :
    parseNameAddrPVal h b o {} =
      (e, .ok, naResult h nm ⟨a + 1, g - (a + 1)⟩ ⟨firstPs 0 L, m2 + 1 - firstPs 0 L⟩ ⟨o, m2 + 1 - o⟩ (accAll b L {})) := by
  have hN := n2_of_plist_semi (h := h) hL hl2 hm2 (Or.inl ⟨p, c2, hl3, he, h2, hw2, rfl, rfl⟩)
  rw [n2_bracket_params h b o a g m (m2 + 1) e .ok nm L hfit hp hu hag hg hl hm hN]
  have hb := hL.bounds
  have : firstPs 0 L ≠ 0 := by omega
  unfold nqSpan; rw [if_neg this]

/-- `<uri> ;name=` and the line end (an `=` without a value as the only parameter): accepted; the parameter acts like
    `;name` (only `lr` is recognised: `tag=`, `q=`, `expires=` set nothing and raise no error); the reported spans
    INCLUDE the `=` -/
theorem n2_empty_value (h : Nat) (b : Buf) (o a g m ps pe eq p e : Nat) (nm : PField)
    (hfit : b.size ≤ 65535) (hp : AddrPrefix b o nm a) (hu : Run isURIch b (a + 1) g) (hag : a + 1 ≤ g)
    (hg : b[g]? = some 62) (hl : Lws b (g + 1) m) (hm : b[m]? = some 59) (hl1 : Lws b (m + 1) ps)
    (hn : Run isPNch b ps pe) (hlt : ps < pe) (hl2 : Lws b pe eq) (heq : b[eq]? = some 61)
    (hl3 : Lws b (eq + 1) p) (he : Eol b p e) {c2 : UInt8} (h2 : b[e]? = some c2) (hw2 : isWS c2 = false) :
    parseNameAddrPVal h b o {} =
      (e, .ok, naResult h nm ⟨a + 1, g - (a + 1)⟩ ⟨ps, eq + 1 - ps⟩ ⟨o, eq + 1 - o⟩
        (if cmpEqL (b.extract ps pe) sLr then { lr := true } else {})) := by
  have hN : NqParams h b (m + 1) [⟨ps, pe, 0, 0⟩] (eq + 1) e .ok :=
    .lastEq (m + 1) ps pe eq (eq + 1) e .ok hl1 hn hlt hl2 heq (Or.inl ⟨p, c2, hl3, he, h2, hw2, rfl, rfl⟩)
  rw [n2_bracket_params h b o a g m (eq + 1) e .ok nm _ hfit hp hu hag hg hl hm hN]
  have := hl1.le; have := hl2.le; have := get?_lt heq
  have hps : ps ≠ 0 := by omega
  have e1 : nqSpan (firstPs 0 [(⟨ps, pe, 0, 0⟩ : PSpan)]) (eq + 1) = ⟨ps, eq + 1 - ps⟩ := by
    show nqSpan (poNext 0 ps) (eq + 1) = _
    unfold nqSpan poNext; rw [if_pos rfl, if_neg hps]
  rw [e1, accAll_cons, accAll_nil, paramEffect_flag b ps pe {} hlt (by omega)]

/-! #### non-vacuity and tests -/

/-- the hypotheses of `n2_bracket_params` are satisfiable: `<a>;x;;y= ;` and CR LF — a parameter, an empty parameter, a
    parameter with `=` and no value, a trailing `;` -/
example : parseNameAddrPVal HdrFrom "<a>;x;;y= ;\r\nX".toUTF8.data 0 {} =
    (13, .ok, naResult HdrFrom {} ⟨1, 1⟩ ⟨4, 7⟩ ⟨0, 11⟩ {}) := by
  have hx : ParamAt "<a>;x;;y= ;\r\nX".toUTF8.data (3 + 1) ⟨4, 5, 0, 0⟩ 5 :=
    .flag 4 5 (.nil 4) (run_of_check (by decide)) (by decide)
  have hN : NqParams HdrFrom "<a>;x;;y= ;\r\nX".toUTF8.data (3 + 1) [⟨4, 5, 0, 0⟩, ⟨7, 8, 0, 0⟩] 11 13 .ok :=
    .cons 4 5 5 _ _ 11 13 .ok hx (.nil 5) (by decide)
      (.skip 6 6 _ 11 13 .ok (.nil 6) (by decide)
        (.consEq 7 7 8 8 10 [] 11 13 .ok (.nil 7) (run_of_check (by decide)) (by decide) (.nil 8) (by decide)
          (.ws 9 10 32 (by decide) (by decide) (.nil 10)) (by decide)
          (.done 11 11 13 .ok (Or.inl ⟨11, 88, .nil 11, .crlf 11 (by decide) (by decide), by decide, by decide, rfl, rfl⟩))))
  have := n2_bracket_params HdrFrom _ 0 0 2 3 11 13 .ok {} _ (by decide) (.none (by decide)) (run_of_check (by decide))
    (by decide) (by decide) (.nil 3) (by decide) hN
  rw [this]
  decide +kernel

/-- tests (evaluation): trailing `;` before a comma — the reported value includes the white space before the comma -/
example : (parseNameAddrPVal HdrContact "<a>;lr; ,<x>\r\nX".toUTF8.data 0 {}) =
    (9, .moreValues, { uri := ⟨1, 1⟩, params := ⟨4, 4⟩, v := ⟨0, 8⟩, lr := true, type := HdrContact, state := .fin }) := by
  decide +kernel

example : (parseNameAddrPVal HdrContact "<a>;tag=\r\nX".toUTF8.data 0 {}) =
    (10, .ok, { uri := ⟨1, 1⟩, params := ⟨4, 4⟩, v := ⟨0, 8⟩, type := HdrContact, state := .fin }) := by
  decide +kernel


/-! ## (3) rejection of ill-formed values: verdict and offset -/

/-- the whole call on a new object when the loop stops with an error -/
theorem n3_parse_of_loop_err (h : Nat) (b : Buf) (o : Nat) {o' : Nat} {e : Err} {st : PFromBody}
    (hr : runLoop (naMachine h) b o {} = (o', e, st)) (he : e = .badChar ∨ e = .bad) :
    parseNameAddrPVal h b o {} = (o', e, { st with s := 0, soffs := 0 }) := by
  unfold parseNameAddrPVal
  rw [if_neg (by decide)]
  show ((runLoop (naMachine h) b o {}).1, (runLoop (naMachine h) b o {}).2.1,
    naExit 0 (runLoop (naMachine h) b o {}).2.1 (runLoop (naMachine h) b o {}).2.2) = _
  rw [hr]
  unfold naExit
  rcases he with rfl | rfl <;> rfl

/-! #### inside the angle brackets -/

theorem n3_stepU_bad (h : Nat) (b : Buf) (i : Nat) (c : UInt8) (pf : PFromBody) (hst : pf.state = .uri)
    (hc : c = 60 ∨ isLWSch c = true) : naStep h b i c pf = .done i .badChar pf := by
  unfold naStep; simp only [hst]
  unfold naStepU
  rcases hc with rfl | hc
  · simp +decide only [↓reduceIte]
  · have h62 : (c == 62) = false := by
      unfold isLWSch at hc; simp only [Bool.or_eq_true, beq_iff_eq] at hc
      rcases hc with ((hc | hc) | hc) | hc <;> (rw [hc]; decide)
    simp only [h62, hc, Bool.or_true, Bool.false_eq_true, ↓reduceIte]

/-- **unterminated `<` / a second `<`**: `[display-name] <` followed by URI bytes and then — instead of `>` — a space,
    a tab, a CR, a LF (the line end) or another `<`: verdict "bad character", the offset is that of the offending byte
    (inside the value), the object is left in the "inside the URI" state with only the display name recorded -/
theorem n3_uri_unterminated (h : Nat) (b : Buf) (o a g : Nat) (nm : PField) (hfit : b.size ≤ 65535)
    (hp : AddrPrefix b o nm a) (hu : Run isURIch b (a + 1) g) (hag : a + 1 ≤ g) {c : UInt8} (hg : b[g]? = some c)
    (hc : c = 60 ∨ isLWSch c = true) :
    (∃ x, parseNameAddrPVal h b o {} = (g, .badChar, { name := nm, v := ⟨o, x⟩, state := .uri })) ∧ o < g ∧ g < b.size := by
  obtain ⟨hoa, x, hrun⟩ := hp.run h hfit
  refine ⟨⟨x, ?_⟩, by omega, get?_lt hg⟩
  have hloop : runLoop (naMachine h) b o {} = (g, .badChar, uriSt nm o x a) := by
    rw [hrun, runLoop_run (naMachine h) b isURIch (uriSt nm o x a) (fun k c' _ hc' => naStep_uri_ch h b k c' (uriSt nm o x a) rfl hc') (a + 1) g hag hu]
    exact runLoop_done (naMachine h) hg (by exact n3_stepU_bad h b g c (uriSt nm o x a) rfl hc)
  rw [n3_parse_of_loop_err h b o hloop (Or.inl rfl)]
  rfl

/-- **empty URI `<>`**: NOT rejected — the value is accepted with an empty URI span (instance of the bracket form) -/
theorem n3_empty_uri (h : Nat) (b : Buf) (o a o' : Nat) (e' : Err) (nm : PField) (hfit : b.size ≤ 65535)
    (hp : AddrPrefix b o nm a) (hg : b[a + 1]? = some 62) (T : Term h b (a + 2) o' e') :
    parseNameAddrPVal h b o {} = (o', e', naResult h nm ⟨a + 1, 0⟩ {} ⟨o, a + 2 - o⟩ {}) := by
  have := parseNameAddr_bracket h b o a (a + 1) o' e' nm hfit hp (fun k h1 h2 => by omega) (Nat.le_refl _) hg T
  rw [this, Nat.sub_self]

/-! #### quoted strings that are not closed -/

/-- the inside of a quoted string from `i` up to `w`, where it is NOT closed: ordinary bytes, `\x` pairs and linear white
    space followed by a byte that is not white space (as in `NaQBody`, without the closing quote) -/
inductive NqQOpen (b : Buf) : Nat → Nat → Prop
  | nil (w : Nat) : NqQOpen b w w
  | ch (i j : Nat) (c : UInt8) : b[i]? = some c → isQch c = true → NqQOpen b (i + 1) j → NqQOpen b i j
  | esc (i j : Nat) (c1 : UInt8) : b[i]? = some 92 → b[i + 1]? = some c1 → isCRLFch c1 = false → NqQOpen b (i + 2) j →
      NqQOpen b i j
  | lws (i n j : Nat) (c : UInt8) : Lws b i n → i < n → b[n]? = some c → isLWSch c = false → NqQOpen b n j → NqQOpen b i j

theorem NqQOpen.le {b : Buf} {i j : Nat} (H : NqQOpen b i j) : i ≤ j := by
  induction H with
  | nil i => exact Nat.le_refl _
  | ch i j c _ _ _ ih => omega
  | esc i j c1 _ _ _ _ ih => omega
  | lws i n j c _ hlt _ _ _ ih => omega

theorem n3_qopen_run (h : Nat) {b : Buf} {i j : Nat} (H : NqQOpen b i j) (pf : PFromBody) (hst : IsQState pf.state) :
    runLoop (naMachine h) b i pf = runLoop (naMachine h) b j pf := by
  induction H with
  | nil i => rfl
  | ch i j c hc hq _ ih =>
    rw [runLoop_cont (naMachine h) hc (by exact stepQ_ch h b i c pf hst hq), if_pos (by omega)]; exact ih
  | esc i j c1 h0 h1 hc1 _ ih =>
    rw [runLoop_cont (naMachine h) h0 (by exact stepQ_esc h b i c1 pf hst h1 hc1), if_pos (by omega)]; exact ih
  | lws i n j c hl hlt hn hc _ ih =>
    obtain ⟨c0, h0, hl0⟩ := hl.first hlt
    rw [runLoop_cont (naMachine h) h0 (by exact stepQ_lws h b i n c0 pf hst hl0 (skipLWS_of_lws hl hn hc)), if_pos hlt]
    exact ih

theorem n3_lws_not_q {c : UInt8} (hc : isLWSch c = true) : (c == 34) = false ∧ (c == 92) = false := by
  unfold isLWSch at hc; simp only [Bool.or_eq_true, beq_iff_eq] at hc
  rcases hc with ((hc | hc) | hc) | hc <;> (rw [hc]; decide)

/-- inside a quoted string (display name or parameter value): the line end -> verdict "bad header", offset after the line
    end, object untouched -/
theorem n3_q_eol (h : Nat) (b : Buf) (pf : PFromBody) (hst : IsQState pf.state) {w p e : Nat} (hl : Lws b w p)
    (he : Eol b p e) {c2 : UInt8} (h2 : b[e]? = some c2) (hw2 : isWS c2 = false) :
    runLoop (naMachine h) b w pf = (e, .bad, pf) := by
  obtain ⟨c0, hc0, hl0⟩ := lws_eol_first hl he
  have hgt := he.gt
  obtain ⟨h34, h92⟩ := n3_lws_not_q hl0
  refine runLoop_done (naMachine h) hc0 ?_
  show naStep h b w c0 pf = _
  rw [naStep_q h b w c0 pf hst]
  unfold naStepQ
  simp only [h34, h92, hl0, Bool.false_eq_true, ↓reduceIte]
  rw [naLWS_eoh pf (skipLWS_of_lws_eol hl he h2 hw2)]
  have : p + (e - p) = e := by omega
  unfold naEOH
  rcases hst with hst | hst | hst <;> simp only [hst, this]

/-- inside a quoted string: a backslash in front of CR / LF -> "bad character" at the CR / LF -/
theorem n3_q_esc_crlf (h : Nat) (b : Buf) (pf : PFromBody) (hst : IsQState pf.state) {w : Nat} (h0 : b[w]? = some 92)
    {c1 : UInt8} (h1 : b[w + 1]? = some c1) (hc1 : isCRLFch c1 = true) :
    runLoop (naMachine h) b w pf = (w + 1, .badChar, pf) := by
  refine runLoop_done (naMachine h) h0 ?_
  show naStep h b w 92 pf = _
  rw [naStep_q h b w 92 pf hst]
  unfold naStepQ
  simp +decide only [h1, hc1, ↓reduceIte]


/-! #### an unterminated quoted string in the display name -/

theorem n3_stepA_nu_quote (h : Nat) (b : Buf) (i : Nat) (pf : PFromBody) (hst : pf.state = .nameOrURI) :
    naStep h b i 34 pf = .cont (i + 1) { pf.resetUPT with state := .quoted } := by
  unfold naStep; simp only [hst]
  unfold naStepA
  simp +decide only [hst, ↓reduceIte]

/-- the object inside a quoted string of a display name that started at `o` -/
def nqQSt (o x : Nat) : PFromBody := { v := ⟨o, x⟩, s := o, state := .quoted }

/-- the rest of a display name from `i` up to an opening quote at `k` (token bytes, white space, closed quoted strings) -/
inductive NqTailQ (b : Buf) : Nat → Nat → Prop
  | opn (k : Nat) : b[k]? = some 34 → NqTailQ b k k
  | ch (i k : Nat) (c : UInt8) : b[i]? = some c → isTokch c = true → NqTailQ b (i + 1) k → NqTailQ b i k
  | lws (i n k : Nat) (c : UInt8) : Lws b i n → i < n → b[n]? = some c → isLWSch c = false → NqTailQ b n k → NqTailQ b i k
  | q (i k1 k : Nat) : b[i]? = some 34 → NaQBody b (i + 1) k1 → NqTailQ b (k1 + 1) k → NqTailQ b i k

theorem NqTailQ.le {b : Buf} {i k : Nat} (H : NqTailQ b i k) : i ≤ k := by
  induction H with
  | opn k _ => exact Nat.le_refl _
  | ch i k c _ _ _ ih => omega
  | lws i n k c _ _ _ _ _ ih => omega
  | q i k1 k _ hq _ ih => have := hq.le; omega

theorem n3_tailq_run (h : Nat) (b : Buf) (o x : Nat) {i k : Nat} (H : NqTailQ b i k) :
    runLoop (naMachine h) b i (nmSt o x) = runLoop (naMachine h) b (k + 1) (nqQSt o x) := by
  induction H with
  | opn k hk =>
    have hstep : naStep h b k 34 (nmSt o x) = .cont (k + 1) (nqQSt o x) := by
      rw [stepA_nm_quote h b k _ rfl]; rfl
    exact (runLoop_cont (naMachine h) hk (by exact hstep)).trans (if_pos (by omega))
  | ch i k c hc ht _ ih =>
    rw [runLoop_cont (naMachine h) hc (by exact stepA_nm_tok h b i c (nmSt o x) rfl ht), if_pos (by omega)]
    exact ih
  | lws i n k c hl hlt hn hcl _ ih =>
    rw [na_skip_lws h b _ hl hn hcl (fun c' hc' => stepA_nm_lws h b i c' _ rfl hc')]
    exact ih
  | q i k1 k hc hq _ ih =>
    have := hq.le
    have hstep : naStep h b i 34 (nmSt o x) = .cont (i + 1) ({ v := ⟨o, x⟩, s := o, state := .quoted } : PFromBody) := by
      rw [stepA_nm_quote h b i _ rfl]; rfl
    rw [runLoop_cont (naMachine h) hc (by exact hstep), if_pos (by omega), na_name_quoted h b o x hq]
    exact ih

/-- after a first token and white space: the rest of the display name up to the opening quote -/
theorem n3_nue_tailq (h : Nat) (b : Buf) (o t : Nat) {n k : Nat} (H : NqTailQ b n k) {c' : UInt8} (hn : b[n]? = some c')
    (hcl : isLWSch c' = false) (h42 : (c' == 42) = false) :
    runLoop (naMachine h) b n (nueSt o t) = runLoop (naMachine h) b (k + 1) (nqQSt o (t - o)) := by
  rcases H with ⟨_, hk⟩ | ⟨_, _, c'', hc, htk, H'⟩ | ⟨_, n', _, c'', hl', hlt', hn', hcl', H'⟩ | ⟨_, k1, _, hc, hq, H'⟩
  · have hstep : naStep h b n 34 (nueSt o t) = .cont (n + 1) (nqQSt o (t - o)) := by
      rw [stepA_nue_quote h b n _ rfl]; rfl
    exact (runLoop_cont (naMachine h) hk (by exact hstep)).trans (if_pos (by omega))
  · rw [hn] at hc; cases hc
    have hstep : naStep h b n c' (nueSt o t) = .cont (n + 1) (nmSt o (t - o)) := by
      rw [stepA_nue_tok h b n c' _ rfl (isTok1_iff.2 ⟨htk, h42⟩)]; rfl
    rw [runLoop_cont (naMachine h) hn (by exact hstep), if_pos (by omega)]
    exact n3_tailq_run h b o (t - o) H'
  · obtain ⟨c0, hc0, hl0⟩ := hl'.first hlt'
    rw [hn] at hc0; cases hc0
    rw [hcl] at hl0; cases hl0
  · have := hq.le
    have hstep : naStep h b n 34 (nueSt o t) = .cont (n + 1) ({ v := ⟨o, t - o⟩, s := o, state := .quoted } : PFromBody) := by
      rw [stepA_nue_quote h b n _ rfl]; rfl
    rw [runLoop_cont (naMachine h) hc (by exact hstep), if_pos (by omega), na_name_quoted h b o (t - o) hq]
    exact n3_tailq_run h b o (t - o) H'

/-- the part of a value in front of a quoted string of the display name that opens at `k`: nothing; a closed quoted string
    and more name; a token immediately followed by the quote; a token, white space and more name -/
inductive NqNameOpen (b : Buf) (o : Nat) : Nat → Prop
  | first : b[o]? = some 34 → NqNameOpen b o o
  | afterQ (k1 k : Nat) : b[o]? = some 34 → NaQBody b (o + 1) k1 → NqTailQ b (k1 + 1) k → NqNameOpen b o k
  | tokQ (t : Nat) (c : UInt8) : b[o]? = some c → isTok1 c = true → Run isTokch b (o + 1) t → o + 1 ≤ t →
      b[t]? = some 34 → NqNameOpen b o t
  | tok (t n k : Nat) (c c' : UInt8) : b[o]? = some c → isTok1 c = true → Run isTokch b (o + 1) t → o + 1 ≤ t →
      Lws b t n → t < n → b[n]? = some c' → isLWSch c' = false → (c' == 42) = false → NqTailQ b n k → NqNameOpen b o k

theorem NqNameOpen.run (h : Nat) {b : Buf} {o k : Nat} (H : NqNameOpen b o k) (hfit : b.size ≤ 65535) :
    o ≤ k ∧ ∃ x, runLoop (naMachine h) b o {} = runLoop (naMachine h) b (k + 1) (nqQSt o x) := by
  rcases H with h0 | ⟨k1, _, h0, hq, ht⟩ | ⟨t, c, h0, h1, hr, hot, ht⟩ | ⟨t, n, _, c, c', h0, h1, hr, hot, hl, hlt, hn, hcl, h42, ht⟩
  · refine ⟨Nat.le_refl _, 0, ?_⟩
    have hsz := get?_lt h0
    have hstep : naStep h b o 34 {} = .cont (o + 1) (nqQSt o 0) := by
      rw [stepA_init_quote h b o {} rfl]
      unfold PFromBody.setV nqQSt
      simp only [set_eq o o (Nat.le_refl _) (by omega), setPanics_false o o (Nat.le_refl _), Nat.sub_self]
      rfl
    exact (runLoop_cont (naMachine h) h0 (by exact hstep)).trans (if_pos (by omega))
  · have := hq.le; have := ht.le
    refine ⟨by omega, 0, ?_⟩
    have hsz := get?_lt h0
    have hstep : naStep h b o 34 {} = .cont (o + 1) ({ v := ⟨o, 0⟩, s := o, state := .quoted } : PFromBody) := by
      rw [stepA_init_quote h b o {} rfl]
      unfold PFromBody.setV
      simp only [set_eq o o (Nat.le_refl _) (by omega), setPanics_false o o (Nat.le_refl _), Nat.sub_self]
      rfl
    rw [runLoop_cont (naMachine h) h0 (by exact hstep), if_pos (by omega), na_name_quoted h b o 0 hq]
    exact n3_tailq_run h b o 0 ht
  · refine ⟨by omega, 0, ?_⟩
    rw [na_tok_run h b o k hfit h0 h1 hr hot]
    have hstep : naStep h b k 34 (nuSt o) = .cont (k + 1) (nqQSt o 0) := by
      rw [n3_stepA_nu_quote h b k _ rfl]; rfl
    exact (runLoop_cont (naMachine h) ht (by exact hstep)).trans (if_pos (by omega))
  · have := ht.le
    refine ⟨by omega, t - o, ?_⟩
    rw [na_tok_run h b o t hfit h0 h1 hr hot, na_nu_lws h b o t n hfit (by omega) hl hlt hn hcl]
    exact n3_nue_tailq h b o t ht hn hcl h42

theorem n3_isQ_nqQSt (o x : Nat) : IsQState (nqQSt o x).state := Or.inl rfl

/-- **unterminated quoted string in the display name**: a quote opens at `k` (at the start of the value or after name
    tokens / closed quoted strings) and the line ends before it is closed: verdict "bad header" (ErrHdrBad), the
    returned offset is the one after the line end (it is NOT the offset of the quote), nothing but the start of the
    value is recorded -/
theorem n3_name_quote_unterminated (h : Nat) (b : Buf) (o k w p e : Nat) (hfit : b.size ≤ 65535)
    (hpre : NqNameOpen b o k) (hq : NqQOpen b (k + 1) w) (hl : Lws b w p) (he : Eol b p e) {c2 : UInt8}
    (h2 : b[e]? = some c2) (hw2 : isWS c2 = false) :
    (∃ x, parseNameAddrPVal h b o {} = (e, .bad, { v := ⟨o, x⟩, state := .quoted })) ∧ o < e ∧ e ≤ b.size := by
  obtain ⟨hok, x, hrun⟩ := hpre.run h hfit
  have := hq.le; have := hl.le; have := he.gt; have := get?_lt h2
  refine ⟨⟨x, ?_⟩, by omega, by omega⟩
  have hloop : runLoop (naMachine h) b o {} = (e, .bad, nqQSt o x) := by
    rw [hrun, n3_qopen_run h hq _ (n3_isQ_nqQSt o x)]
    exact n3_q_eol h b _ (n3_isQ_nqQSt o x) hl he h2 hw2
  rw [n3_parse_of_loop_err h b o hloop (Or.inr rfl)]
  rfl

/-- … and a backslash in front of the CR / LF inside it: "bad character" at the CR / LF -/
theorem n3_name_quote_esc_crlf (h : Nat) (b : Buf) (o k w : Nat) (hfit : b.size ≤ 65535)
    (hpre : NqNameOpen b o k) (hq : NqQOpen b (k + 1) w) (h0 : b[w]? = some 92) {c1 : UInt8} (h1 : b[w + 1]? = some c1)
    (hc1 : isCRLFch c1 = true) :
    (∃ x, parseNameAddrPVal h b o {} = (w + 1, .badChar, { v := ⟨o, x⟩, state := .quoted })) ∧ o < w + 1 ∧ w + 1 < b.size := by
  obtain ⟨hok, x, hrun⟩ := hpre.run h hfit
  have := hq.le; have := get?_lt h1
  refine ⟨⟨x, ?_⟩, by omega, by omega⟩
  have hloop : runLoop (naMachine h) b o {} = (w + 1, .badChar, nqQSt o x) := by
    rw [hrun, n3_qopen_run h hq _ (n3_isQ_nqQSt o x)]
    exact n3_q_esc_crlf h b _ (n3_isQ_nqQSt o x) h0 h1 hc1
  rw [n3_parse_of_loop_err h b o hloop (Or.inl rfl)]
  rfl


/-! #### ill-formed parameters -/

/-- the front part of a value up to its first `;` at `m`: `[display-name] <uri> [LWS] ;` or `bare-uri [LWS] ;` -/
inductive NqHeadP (b : Buf) (o : Nat) : Nat → Prop
  | bracket (a g m : Nat) (nm : PField) : AddrPrefix b o nm a → Run isURIch b (a + 1) g → a + 1 ≤ g → b[g]? = some 62 →
      Lws b (g + 1) m → b[m]? = some 59 → NqHeadP b o m
  | bare (t m : Nat) (c : UInt8) : b[o]? = some c → isTok1 c = true → Run isTokch b (o + 1) t → o + 1 ≤ t → Lws b t m →
      b[m]? = some 59 → NqHeadP b o m

theorem NqHeadP.run (h : Nat) {b : Buf} {o m : Nat} (H : NqHeadP b o m) (hfit : b.size ≤ 65535) :
    o < m ∧ ∃ q base, runLoop (naMachine h) b o {} = runLoop (naMachine h) b (m + 1) (pst base (stNP q) 0 0 0 0 0 {}) := by
  rcases H with ⟨a, g, _, nm, hp, hu, hag, hg, hl, hm⟩ | ⟨t, _, c, hc, h1, hr, hot, hl, hm⟩
  · obtain ⟨hoa, x, hrun⟩ := hp.run h hfit
    have := hl.le
    refine ⟨by omega, false, { ufBase nm o a g with s := 0 }, ?_⟩
    rw [hrun, na_uri_to_uf h b nm o x a g hoa hag hu hg hfit, na_uf_sep h b _ rfl hl hm]
    rfl
  · have := hl.le
    obtain ⟨x, s', hsep⟩ := na_nu_sep h b o t m hfit (by omega) hl hm
    refine ⟨by omega, true, bareBase o t x s', ?_⟩
    rw [na_tok_run h b o t hfit hc h1 hr hot, hsep]

/-- zero or more parameters of the old grammar, each followed by optional white space and `;`; `j` = the byte after the
    last `;` -/
inductive NqSeps (b : Buf) : Nat → List PSpan → Nat → Prop
  | nil (i : Nat) : NqSeps b i [] i
  | cons (i w m j : Nat) (x : PSpan) (L : List PSpan) : ParamAt b i x w → Lws b w m → b[m]? = some 59 →
      NqSeps b (m + 1) L j → NqSeps b i (x :: L) j

theorem NqSeps.le {b : Buf} {i j : Nat} {L : List PSpan} (H : NqSeps b i L j) : i ≤ j := by
  induction H with
  | nil i => exact Nat.le_refl _
  | cons i w m j x L hx hl _ _ ih => have := hx.bounds; have := hl.le; omega

theorem n3_seps_run (h : Nat) (b : Buf) (q : Bool) (base : PFromBody) (hfit : b.size ≤ 65535) {i j : Nat}
    {L : List PSpan} (H : NqSeps b i L j) :
    ∀ (po : Nat) (a : PAcc), 0 < i →
      runLoop (naMachine h) b i (pst base (stNP q) po 0 0 0 0 a) =
        runLoop (naMachine h) b j (pst base (stNP q) (firstPs po L) 0 0 0 0 (accAll b L a)) := by
  induction H with
  | nil i => intro po a _; rfl
  | cons i w m j x L hx hl hm _ ih =>
    intro po a h0
    have hb := hx.bounds
    have hne : poNext po x.ps ≠ 0 := by unfold poNext; split <;> omega
    rw [na_param_sep h b q base po a hx hl hm h0 hfit, ih _ _ (by omega), n2_firstPs_idem _ L hne]
    rfl

/-- offset and verdict of the call are those of the loop -/
theorem n3_parse_fst_snd (h : Nat) (b : Buf) (o : Nat) {o' : Nat} {e : Err} {st : PFromBody}
    (hr : runLoop (naMachine h) b o {} = (o', e, st)) :
    (parseNameAddrPVal h b o {}).1 = o' ∧ (parseNameAddrPVal h b o {}).2.1 = e := by
  unfold parseNameAddrPVal
  rw [if_neg (by decide)]
  show (runLoop (naMachine h) b o {}).1 = o' ∧ (runLoop (naMachine h) b o {}).2.1 = e
  rw [hr]; exact ⟨rfl, rfl⟩

theorem n3_stepNP_bad (h : Nat) (b : Buf) (i : Nat) (c : UInt8) (pf : PFromBody) (q : Bool) (hst : pf.state = stNP q)
    (hc : c = 60 ∨ c = 62) : naStep h b i c pf = .done i .badChar pf := by
  cases q <;>
  · simp only [stNP] at hst
    unfold naStep; simp only [hst]
    unfold naStepP
    rcases hc with rfl | rfl <;> simp +decide only [↓reduceIte]

theorem n3_stepPN_bad (h : Nat) (b : Buf) (i : Nat) (c : UInt8) (pf : PFromBody) (q : Bool) (hst : pf.state = stPN q)
    (hc : c = 60 ∨ c = 62) : naStep h b i c pf = .done i .badChar pf := by
  cases q <;>
  · simp only [stPN] at hst
    unfold naStep; simp only [hst]
    unfold naStepP
    rcases hc with rfl | rfl <;> simp +decide only [↓reduceIte]

theorem n3_stepNV_bad (h : Nat) (b : Buf) (i : Nat) (c : UInt8) (pf : PFromBody) (q : Bool) (hst : pf.state = stNV q)
    (hc : c = 61 ∨ c = 60 ∨ c = 62) : naStep h b i c pf = .done i .badChar pf := by
  cases q <;>
  · simp only [stNV] at hst
    unfold naStep; simp only [hst]
    unfold naStepV
    rcases hc with rfl | rfl | rfl <;> simp +decide only [↓reduceIte]

theorem n3_stepPV_bad (h : Nat) (b : Buf) (i : Nat) (c : UInt8) (pf : PFromBody) (q : Bool) (hst : pf.state = stPV q)
    (hc : c = 61 ∨ c = 60 ∨ c = 62) : naStep h b i c pf = .done i .badChar pf := by
  cases q <;>
  · simp only [stPV] at hst
    unfold naStep; simp only [hst]
    unfold naStepV
    rcases hc with rfl | rfl | rfl <;> simp +decide only [↓reduceIte]

/-- **`<` or `>` where a parameter name is expected or inside a parameter name** (after any number of well-formed
    parameters): "bad character" at that byte -/
theorem n3_param_name_bad (h : Nat) (b : Buf) (o m j ps k : Nat) (L : List PSpan) (hfit : b.size ≤ 65535)
    (hh : NqHeadP b o m) (hs : NqSeps b (m + 1) L j) (hl : Lws b j ps) (hn : Run isPNch b ps k) (hpk : ps ≤ k)
    {c : UInt8} (hk : b[k]? = some c) (hc : c = 60 ∨ c = 62) :
    (parseNameAddrPVal h b o {}).1 = k ∧ (parseNameAddrPVal h b o {}).2.1 = .badChar ∧ o < k ∧ k < b.size := by
  obtain ⟨hom, q, base, hrun⟩ := hh.run h hfit
  have := hs.le; have := hl.le
  have hcl : isLWSch c = false := by rcases hc with rfl | rfl <;> decide
  have hloop : ∃ st, runLoop (naMachine h) b o {} = (k, .badChar, st) := by
    rw [hrun, n3_seps_run h b q base hfit hs 0 {} (by omega)]
    by_cases hlt : ps < k
    · rw [na_pname_run h b q base _ _ j ps k hl hn hlt (by omega) hfit]
      exact ⟨_, runLoop_done (naMachine h) hk (by exact n3_stepPN_bad h b k c _ q rfl hc)⟩
    · have hpk' : ps = k := by omega
      subst hpk'
      have hskip : runLoop (naMachine h) b j (pst base (stNP q) (firstPs 0 L) 0 0 0 0 (accAll b L {})) =
          runLoop (naMachine h) b ps (pst base (stNP q) (firstPs 0 L) 0 0 0 0 (accAll b L {})) := by
        by_cases h1 : j < ps
        · obtain ⟨c0, hc0, hl0⟩ := hl.first h1
          rw [runLoop_cont (naMachine h) hc0 (by exact stepNP_lws h b j ps c0 _ q rfl hl0 (skipLWS_of_lws hl hk hcl)),
            if_pos h1]
        · have : j = ps := by omega
          rw [this]
      rw [hskip]
      exact ⟨_, runLoop_done (naMachine h) hk (by exact n3_stepNP_bad h b ps c _ q rfl hc)⟩
  obtain ⟨st, hloop⟩ := hloop
  obtain ⟨r1, r2⟩ := n3_parse_fst_snd h b o hloop
  exact ⟨r1, r2, by omega, get?_lt hk⟩

/-- the parameter `name [LWS] = [LWS]` and the beginning of its value up to `k` (nothing, or a well-formed value) -/
def NqValPre (b : Buf) (i ps pe vs k : Nat) : Prop :=
  ∃ eq, Lws b i ps ∧ Run isPNch b ps pe ∧ ps < pe ∧ Lws b pe eq ∧ b[eq]? = some 61 ∧ Lws b (eq + 1) vs ∧
    (vs = k ∨ PVal b vs k)

/-- the run up to `k`: the automaton is at the start of the value or inside it -/
theorem n3_valpre_run (h : Nat) (b : Buf) (q : Bool) (base : PFromBody) (po : Nat) (a : PAcc) (hfit : b.size ≤ 65535)
    {i ps pe vs k : Nat} (H : NqValPre b i ps pe vs k) (h0 : 0 < i) {c : UInt8} (hk : b[k]? = some c)
    (hcl : isLWSch c = false) :
    i ≤ k ∧ ∃ st vs', (st = stNV q ∨ st = stPV q) ∧
      runLoop (naMachine h) b i (pst base (stNP q) po 0 0 0 0 a) =
        runLoop (naMachine h) b k (pst base st (poNext po ps) ps pe vs' 0 a) ∧ (st = stNV q → vs = k) := by
  obtain ⟨eq, hl, hn, hlt, hl2, heq, hl3, hv⟩ := H
  have := hl.le; have := hl2.le; have := hl3.le
  rcases hv with rfl | hv
  · refine ⟨by omega, stNV q, vs, Or.inl rfl, ?_, fun _ => rfl⟩
    rw [na_pname_run h b q base po a i ps pe hl hn hlt (by omega) hfit,
      na_peq_run h b q base _ ps pe eq vs a hl2 heq hl3 hk hcl]
  · obtain ⟨c1, hc1, hcl1⟩ := hv.first
    have := hv.lt
    refine ⟨by omega, stPV q, vs, Or.inr rfl, ?_, fun hst => ?_⟩
    · rw [na_pname_run h b q base po a i ps pe hl hn hlt (by omega) hfit,
        na_peq_run h b q base _ ps pe eq vs a hl2 heq hl3 hc1 hcl1, na_pval_run h hv q base _ ps pe vs a]
    · cases q <;> cases hst

/-- **`=`, `<` or `>` inside (or in place of) a parameter value**: "bad character" at that byte -/
theorem n3_param_value_bad (h : Nat) (b : Buf) (o m j ps pe vs k : Nat) (L : List PSpan) (hfit : b.size ≤ 65535)
    (hh : NqHeadP b o m) (hs : NqSeps b (m + 1) L j) (hv : NqValPre b j ps pe vs k)
    {c : UInt8} (hk : b[k]? = some c) (hc : c = 61 ∨ c = 60 ∨ c = 62) :
    (parseNameAddrPVal h b o {}).1 = k ∧ (parseNameAddrPVal h b o {}).2.1 = .badChar ∧ o < k ∧ k < b.size := by
  obtain ⟨hom, q, base, hrun⟩ := hh.run h hfit
  have := hs.le
  have hcl : isLWSch c = false := by rcases hc with rfl | rfl | rfl <;> decide
  obtain ⟨hjk, st, vs', hst, hrun2, _⟩ := n3_valpre_run h b q base (firstPs 0 L) (accAll b L {}) hfit hv (by omega) hk hcl
  have hloop : ∃ st', runLoop (naMachine h) b o {} = (k, .badChar, st') := by
    rw [hrun, n3_seps_run h b q base hfit hs 0 {} (by omega), hrun2]
    rcases hst with rfl | rfl
    · exact ⟨_, runLoop_done (naMachine h) hk (by exact n3_stepNV_bad h b k c _ q rfl hc)⟩
    · exact ⟨_, runLoop_done (naMachine h) hk (by exact n3_stepPV_bad h b k c _ q rfl hc)⟩
  obtain ⟨st', hloop⟩ := hloop
  obtain ⟨r1, r2⟩ := n3_parse_fst_snd h b o hloop
  exact ⟨r1, r2, by omega, get?_lt hk⟩

/-- **unterminated quoted string in a parameter value** (the quote opens at `k`, at the start of the value or after
    well-formed value text): verdict "bad header" (ErrHdrBad), offset after the line end -/
theorem n3_param_quote_unterminated (h : Nat) (b : Buf) (o m j ps pe vs k w p e : Nat) (L : List PSpan)
    (hfit : b.size ≤ 65535) (hh : NqHeadP b o m) (hs : NqSeps b (m + 1) L j) (hv : NqValPre b j ps pe vs k)
    (hk : b[k]? = some 34) (hq : NqQOpen b (k + 1) w) (hl : Lws b w p) (he : Eol b p e) {c2 : UInt8}
    (h2 : b[e]? = some c2) (hw2 : isWS c2 = false) :
    (parseNameAddrPVal h b o {}).1 = e ∧ (parseNameAddrPVal h b o {}).2.1 = .bad ∧ o < e ∧ e ≤ b.size := by
  obtain ⟨hom, q, base, hrun⟩ := hh.run h hfit
  have := hs.le; have := hq.le; have := hl.le; have := he.gt; have := get?_lt h2
  obtain ⟨hjk, st, vs', hst, hrun2, _⟩ :=
    n3_valpre_run h b q base (firstPs 0 L) (accAll b L {}) hfit hv (by omega) hk (by decide)
  have hloop : ∃ st', runLoop (naMachine h) b o {} = (e, .bad, st') := by
    rw [hrun, n3_seps_run h b q base hfit hs 0 {} (by omega), hrun2]
    rcases hst with rfl | rfl
    · rw [runLoop_cont (naMachine h) hk (by exact stepNV_quote h b k _ q rfl), if_pos (by omega),
        n3_qopen_run h hq _ (stQV_isQ q)]
      exact ⟨_, n3_q_eol h b _ (stQV_isQ q) hl he h2 hw2⟩
    · rw [runLoop_cont (naMachine h) hk (by exact stepPV_quote h b k _ q rfl), if_pos (by omega),
        n3_qopen_run h hq _ (stQV_isQ q)]
      exact ⟨_, n3_q_eol h b _ (stQV_isQ q) hl he h2 hw2⟩
  obtain ⟨st', hloop⟩ := hloop
  obtain ⟨r1, r2⟩ := n3_parse_fst_snd h b o hloop
  exact ⟨r1, r2, by omega, by omega⟩


/-! #### non-vacuity and tests for (3) -/

/-- `Bob <sip:a` CR LF: the hypotheses of `n3_uri_unterminated` are satisfiable; "bad character" at the CR (offset 10) -/
example : ∃ x, parseNameAddrPVal HdrFrom "Bob <sip:a\r\nX".toUTF8.data 0 {} =
    (10, .badChar, { name := ⟨0, 4⟩, v := ⟨0, x⟩, state := .uri }) :=
  (n3_uri_unterminated HdrFrom "Bob <sip:a\r\nX".toUTF8.data 0 4 10 ⟨0, 4 - 0⟩ (by decide)
    (.token 3 4 4 66 60 (by decide) (by decide) (run_of_check (by decide)) (by decide)
      (.ws 3 4 32 (by decide) (by decide) (.nil 4)) (by decide) (by decide) (by decide) (by decide) (.done 4 (by decide)))
    (run_of_check (by decide)) (by decide) (c := 13) (by decide) (Or.inr (by decide))).1

/-- `A "B c` CR LF: the hypotheses of `n3_name_quote_unterminated` are satisfiable; "bad header", offset 8 (after CR LF) -/
example : ∃ x, parseNameAddrPVal HdrFrom "A \"B c\r\nX".toUTF8.data 0 {} = (8, .bad, { v := ⟨0, x⟩, state := .quoted }) :=
  (n3_name_quote_unterminated HdrFrom "A \"B c\r\nX".toUTF8.data 0 2 6 6 8 (by decide)
    (.tok 1 2 2 65 34 (by decide) (by decide) (run_of_check (by decide)) (by decide)
      (.ws 1 2 32 (by decide) (by decide) (.nil 2)) (by decide) (by decide) (by decide) (by decide) (.opn 2 (by decide)))
    (.ch 3 6 66 (by decide) (by decide)
      (.lws 4 5 6 99 (.ws 4 5 32 (by decide) (by decide) (.nil 5)) (by decide) (by decide) (by decide)
        (.ch 5 6 99 (by decide) (by decide) (.nil 6))))
    (.nil 6) (.crlf 6 (by decide) (by decide)) (c2 := 88) (by decide) (by decide)).1

/-- `<a>;x;y<` : the hypotheses of `n3_param_name_bad` are satisfiable; "bad character" at offset 7 -/
example : (parseNameAddrPVal HdrFrom "<a>;x;y<\r\nX".toUTF8.data 0 {}).1 = 7 ∧
    (parseNameAddrPVal HdrFrom "<a>;x;y<\r\nX".toUTF8.data 0 {}).2.1 = .badChar ∧ 0 < 7 ∧
    7 < "<a>;x;y<\r\nX".toUTF8.data.size :=
  n3_param_name_bad HdrFrom "<a>;x;y<\r\nX".toUTF8.data 0 3 6 6 7 [⟨4, 5, 0, 0⟩] (by decide)
    (.bracket 0 2 3 {} (.none (by decide)) (run_of_check (by decide)) (by decide) (by decide) (.nil 3) (by decide))
    (.cons 4 5 5 6 _ _ (.flag 4 5 (.nil 4) (run_of_check (by decide)) (by decide)) (.nil 5) (by decide) (.nil 6))
    (.nil 6) (run_of_check (by decide)) (by decide) (c := 60) (by decide) (Or.inl rfl)

/-- `a:b;t=x=` : the hypotheses of `n3_param_value_bad` are satisfiable (bare URI); "bad character" at offset 7 -/
example : (parseNameAddrPVal HdrTo "a:b;t=x=\r\nX".toUTF8.data 0 {}).1 = 7 ∧
    (parseNameAddrPVal HdrTo "a:b;t=x=\r\nX".toUTF8.data 0 {}).2.1 = .badChar ∧ 0 < 7 ∧
    7 < "a:b;t=x=\r\nX".toUTF8.data.size :=
  n3_param_value_bad HdrTo "a:b;t=x=\r\nX".toUTF8.data 0 3 4 4 5 6 7 [] (by decide)
    (.bare 3 3 97 (by decide) (by decide) (run_of_check (by decide)) (by decide) (.nil 3) (by decide))
    (.nil 4)
    ⟨5, .nil 4, run_of_check (by decide), by decide, .nil 5, by decide, .nil 6, Or.inr (Or.inl ⟨120, by decide, by decide, .nil 7⟩)⟩
    (c := 61) (by decide) (Or.inl rfl)

/-- `<a>;t="x` CR LF: the hypotheses of `n3_param_quote_unterminated` are satisfiable; "bad header", offset 10 -/
example : (parseNameAddrPVal HdrContact "<a>;t=\"x\r\nX".toUTF8.data 0 {}).1 = 10 ∧
    (parseNameAddrPVal HdrContact "<a>;t=\"x\r\nX".toUTF8.data 0 {}).2.1 = .bad ∧ 0 < 10 ∧
    10 ≤ "<a>;t=\"x\r\nX".toUTF8.data.size :=
  n3_param_quote_unterminated HdrContact "<a>;t=\"x\r\nX".toUTF8.data 0 3 4 4 5 6 6 8 8 10 [] (by decide)
    (.bracket 0 2 3 {} (.none (by decide)) (run_of_check (by decide)) (by decide) (by decide) (.nil 3) (by decide))
    (.nil 4) ⟨5, .nil 4, run_of_check (by decide), by decide, .nil 5, by decide, .nil 6, Or.inl rfl⟩
    (by decide) (.ch 7 8 120 (by decide) (by decide) (.nil 8)) (.nil 8) (.crlf 8 (by decide) (by decide)) (c2 := 88)
    (by decide) (by decide)

/-- test (evaluation): `<>` is accepted with an empty URI -/
example : parseNameAddrPVal HdrFrom "<>\r\nX".toUTF8.data 0 {} =
    (4, .ok, { uri := ⟨1, 0⟩, v := ⟨0, 2⟩, type := HdrFrom, state := .fin }) := by decide +kernel


/-! #### a display name that is never followed by `<` -/

/-- more display name from `i` up to `w` (token bytes, white space followed by more name, closed quoted strings) -/
inductive NqTailE (b : Buf) : Nat → Nat → Prop
  | stop (w : Nat) : NqTailE b w w
  | ch (i w : Nat) (c : UInt8) : b[i]? = some c → isTokch c = true → NqTailE b (i + 1) w → NqTailE b i w
  | lws (i n w : Nat) (c : UInt8) : Lws b i n → i < n → b[n]? = some c → isLWSch c = false → NqTailE b n w → NqTailE b i w
  | q (i k1 w : Nat) : b[i]? = some 34 → NaQBody b (i + 1) k1 → NqTailE b (k1 + 1) w → NqTailE b i w

theorem NqTailE.le {b : Buf} {i w : Nat} (H : NqTailE b i w) : i ≤ w := by
  induction H with
  | stop w => exact Nat.le_refl _
  | ch i w c _ _ _ ih => omega
  | lws i n w c _ _ _ _ _ ih => omega
  | q i k1 w _ hq _ ih => have := hq.le; omega

theorem n3_taile_run (h : Nat) (b : Buf) (o x : Nat) {i w : Nat} (H : NqTailE b i w) :
    runLoop (naMachine h) b i (nmSt o x) = runLoop (naMachine h) b w (nmSt o x) := by
  induction H with
  | stop w => rfl
  | ch i w c hc ht _ ih =>
    rw [runLoop_cont (naMachine h) hc (by exact stepA_nm_tok h b i c (nmSt o x) rfl ht), if_pos (by omega)]
    exact ih
  | lws i n w c hl hlt hn hcl _ ih =>
    rw [na_skip_lws h b _ hl hn hcl (fun c' hc' => stepA_nm_lws h b i c' _ rfl hc')]
    exact ih
  | q i k1 w hc hq _ ih =>
    have := hq.le
    have hstep : naStep h b i 34 (nmSt o x) = .cont (i + 1) ({ v := ⟨o, x⟩, s := o, state := .quoted } : PFromBody) := by
      rw [stepA_nm_quote h b i _ rfl]; rfl
    rw [runLoop_cont (naMachine h) hc (by exact hstep), if_pos (by omega), na_name_quoted h b o x hq]
    exact ih

/-- a value that is a display name and nothing else, up to `w`: a quoted string and more name; or a token, white space,
    and then a token byte or a quoted string and more name -/
inductive NqNameOnly (b : Buf) (o : Nat) : Nat → Prop
  | afterQ (k1 w : Nat) : b[o]? = some 34 → NaQBody b (o + 1) k1 → NqTailE b (k1 + 1) w → NqNameOnly b o w
  | tokTok (t n w : Nat) (c c' : UInt8) : b[o]? = some c → isTok1 c = true → Run isTokch b (o + 1) t → o + 1 ≤ t →
      Lws b t n → t < n → b[n]? = some c' → isTok1 c' = true → NqTailE b (n + 1) w → NqNameOnly b o w
  | tokQ (t n k1 w : Nat) (c : UInt8) : b[o]? = some c → isTok1 c = true → Run isTokch b (o + 1) t → o + 1 ≤ t →
      Lws b t n → t < n → b[n]? = some 34 → NaQBody b (n + 1) k1 → NqTailE b (k1 + 1) w → NqNameOnly b o w

theorem NqNameOnly.run (h : Nat) {b : Buf} {o w : Nat} (H : NqNameOnly b o w) (hfit : b.size ≤ 65535) :
    o < w ∧ ∃ x, runLoop (naMachine h) b o {} = runLoop (naMachine h) b w (nmSt o x) := by
  rcases H with ⟨k1, _, h0, hq, ht⟩ | ⟨t, n, _, c, c', h0, h1, hr, hot, hl, hlt, hn, h1', ht⟩ |
    ⟨t, n, k1, _, c, h0, h1, hr, hot, hl, hlt, hn, hq, ht⟩
  · have := hq.le; have := ht.le
    refine ⟨by omega, 0, ?_⟩
    have hsz := get?_lt h0
    have hstep : naStep h b o 34 {} = .cont (o + 1) ({ v := ⟨o, 0⟩, s := o, state := .quoted } : PFromBody) := by
      rw [stepA_init_quote h b o {} rfl]
      unfold PFromBody.setV
      simp only [set_eq o o (Nat.le_refl _) (by omega), setPanics_false o o (Nat.le_refl _), Nat.sub_self]
      rfl
    rw [runLoop_cont (naMachine h) h0 (by exact hstep), if_pos (by omega), na_name_quoted h b o 0 hq]
    exact n3_taile_run h b o 0 ht
  · have := ht.le
    have hcl : isLWSch c' = false := (isTokch_iff.1 (isTok1_iff.1 h1').1).1
    refine ⟨by omega, t - o, ?_⟩
    rw [na_tok_run h b o t hfit h0 h1 hr hot, na_nu_lws h b o t n hfit (by omega) hl hlt hn hcl]
    have hstep : naStep h b n c' (nueSt o t) = .cont (n + 1) (nmSt o (t - o)) := by
      rw [stepA_nue_tok h b n c' _ rfl h1']; rfl
    rw [runLoop_cont (naMachine h) hn (by exact hstep), if_pos (by omega)]
    exact n3_taile_run h b o (t - o) ht
  · have := ht.le; have := hq.le
    refine ⟨by omega, t - o, ?_⟩
    rw [na_tok_run h b o t hfit h0 h1 hr hot, na_nu_lws h b o t n hfit (by omega) hl hlt hn (by decide)]
    have hstep : naStep h b n 34 (nueSt o t) = .cont (n + 1) ({ v := ⟨o, t - o⟩, s := o, state := .quoted } : PFromBody) := by
      rw [stepA_nue_quote h b n _ rfl]; rfl
    rw [runLoop_cont (naMachine h) hn (by exact hstep), if_pos (by omega), na_name_quoted h b o (t - o) hq]
    exact n3_taile_run h b o (t - o) ht

/-- **a display name that is never followed by `<uri>`** (`Bob sip:a@b`, `"Bob" sip:a@b`, … — two or more tokens /
    quoted strings and then the line end): verdict "bad header" (ErrHdrBad), offset after the line end -/
theorem n3_name_without_uri (h : Nat) (b : Buf) (o w p e : Nat) (hfit : b.size ≤ 65535) (hn : NqNameOnly b o w)
    (hl : Lws b w p) (he : Eol b p e) {c2 : UInt8} (h2 : b[e]? = some c2) (hw2 : isWS c2 = false) :
    (∃ x, parseNameAddrPVal h b o {} = (e, .bad, { v := ⟨o, x⟩, state := .name })) ∧ o < e ∧ e ≤ b.size := by
  obtain ⟨how, x, hrun⟩ := hn.run h hfit
  have := hl.le; have hgt := he.gt; have := get?_lt h2
  refine ⟨⟨x, ?_⟩, by omega, by omega⟩
  obtain ⟨c0, hc0, hl0⟩ := lws_eol_first hl he
  have hloop : runLoop (naMachine h) b o {} = (e, .bad, nmSt o x) := by
    rw [hrun]
    refine runLoop_done (naMachine h) hc0 ?_
    show naStep h b w c0 (nmSt o x) = _
    rw [stepA_nm_lws h b w c0 _ rfl hl0, naLWS_eoh _ (skipLWS_of_lws_eol hl he h2 hw2)]
    have : p + (e - p) = e := by omega
    unfold naEOH nmSt
    simp only [this]
  rw [n3_parse_of_loop_err h b o hloop (Or.inr rfl)]
  rfl

/-- `Bob sip:a` CR LF: the hypotheses of `n3_name_without_uri` are satisfiable; "bad header", offset 11 -/
example : ∃ x, parseNameAddrPVal HdrFrom "Bob sip:a\r\nX".toUTF8.data 0 {} = (11, .bad, { v := ⟨0, x⟩, state := .name }) :=
  (n3_name_without_uri HdrFrom "Bob sip:a\r\nX".toUTF8.data 0 9 9 11 (by decide)
    (.tokTok 3 4 9 66 115 (by decide) (by decide) (run_of_check (by decide)) (by decide)
      (.ws 3 4 32 (by decide) (by decide) (.nil 4)) (by decide) (by decide) (by decide)
      (.ch 5 9 105 (by decide) (by decide) (.ch 6 9 112 (by decide) (by decide) (.ch 7 9 58 (by decide) (by decide)
        (.ch 8 9 97 (by decide) (by decide) (.stop 9))))))
    (.nil 9) (.crlf 9 (by decide) (by decide)) (c2 := 88) (by decide) (by decide)).1


/-! ## (4) bytes after `>` that are ignored; the comma in the single-valued header kinds (From / To) -/

theorem n4_stepUF_other (h : Nat) (b : Buf) (i : Nat) (c : UInt8) (pf : PFromBody) (hst : pf.state = .uriFound)
    (hc : isLWSch c = false) (h59 : (c == 59) = false) (h44 : c = 44 → multipleValsOk h = false) :
    naStep h b i c pf = .cont (i + 1) pf := by
  unfold naStep; simp only [hst]
  unfold naStepUF
  by_cases hcm : c = 44
  · subst hcm
    simp +decide only [h44 rfl, Bool.false_eq_true, ↓reduceIte]
  · have : (c == 44) = false := by simpa using hcm
    simp only [hc, this, h59, Bool.false_eq_true, ↓reduceIte]

/-- bytes between `>` and the `;` / the end of the value that the parser skips without looking at them: any byte other
    than `;`, white space, line ends — and other than `,` for the header kinds that take several values — and linear
    white space in front of such a byte -/
inductive NqJunk (h : Nat) (b : Buf) : Nat → Nat → Prop
  | nil (i : Nat) : NqJunk h b i i
  | ch (i j : Nat) (c : UInt8) : b[i]? = some c → isLWSch c = false → (c == 59) = false →
      (c = 44 → multipleValsOk h = false) → NqJunk h b (i + 1) j → NqJunk h b i j
  | lws (i n j : Nat) (c : UInt8) : Lws b i n → i < n → b[n]? = some c → isLWSch c = false → NqJunk h b n j →
      NqJunk h b i j

theorem NqJunk.le {h : Nat} {b : Buf} {i j : Nat} (H : NqJunk h b i j) : i ≤ j := by
  induction H with
  | nil i => exact Nat.le_refl _
  | ch i j c _ _ _ _ _ ih => omega
  | lws i n j c _ _ _ _ _ ih => omega

theorem n4_junk_run (h : Nat) {b : Buf} {i j : Nat} (H : NqJunk h b i j) (pf : PFromBody) (hst : pf.state = .uriFound) :
    runLoop (naMachine h) b i pf = runLoop (naMachine h) b j pf := by
  induction H with
  | nil i => rfl
  | ch i j c hc hcl h59 h44 _ ih =>
    rw [runLoop_cont (naMachine h) hc (by exact n4_stepUF_other h b i c pf hst hcl h59 h44), if_pos (by omega)]
    exact ih
  | lws i n j c hl hlt hn hcl _ ih =>
    rw [na_skip_lws h b pf hl hn hcl (fun c' hc' => stepUF_lws h b i c' pf hst hc')]
    exact ih

/-- **`[display-name] <uri>` followed by ignored bytes** and the end of the value: accepted exactly like `<uri>` alone;
    the ignored bytes are in no reported span (the value ends at the `>`). A second `<…>` after the first is such a
    run of ignored bytes. -/
theorem n4_bracket_junk (h : Nat) (b : Buf) (o a g w o' : Nat) (e' : Err) (nm : PField) (hfit : b.size ≤ 65535)
    (hp : AddrPrefix b o nm a) (hu : Run isURIch b (a + 1) g) (hag : a + 1 ≤ g) (hg : b[g]? = some 62)
    (hj : NqJunk h b (g + 1) w) (T : Term h b w o' e') :
    parseNameAddrPVal h b o {} = (o', e', naResult h nm ⟨a + 1, g - (a + 1)⟩ {} ⟨o, g + 1 - o⟩ {}) := by
  obtain ⟨hoa, x, hrun⟩ := hp.run h hfit
  have hloop : runLoop (naMachine h) b o {} =
      (o', e', { ufBase nm o a g with state := .fin, soffs := 0, type := h }) := by
    rw [hrun, na_uri_to_uf h b nm o x a g hoa hag hu hg hfit, n4_junk_run h hj _ rfl]
    exact na_uf_term h b _ rfl T
  rw [parse_of_loop h b o hloop T.complete]
  rfl

/-- … and then `;` and a (generalised) parameter list: the parameters are attached to the FIRST `<uri>`; the reported
    value then covers the ignored bytes -/
theorem n4_bracket_junk_params (h : Nat) (b : Buf) (o a g w m ve o' : Nat) (e' : Err) (nm : PField) (L : List PSpan)
    (hfit : b.size ≤ 65535) (hp : AddrPrefix b o nm a) (hu : Run isURIch b (a + 1) g) (hag : a + 1 ≤ g)
    (hg : b[g]? = some 62) (hj : NqJunk h b (g + 1) w) (hl : Lws b w m) (hm : b[m]? = some 59)
    (hL : NqParams h b (m + 1) L ve o' e') :
    parseNameAddrPVal h b o {} =
      (o', e', naResult h nm ⟨a + 1, g - (a + 1)⟩ (nqSpan (firstPs 0 L) ve) ⟨o, ve - o⟩ (accAll b L {})) := by
  obtain ⟨hoa, x, hrun⟩ := hp.run h hfit
  obtain ⟨hb1, hb2, hb3, hb4, hb5⟩ := hL.bounds
  have hle := hl.le; have hjl := hj.le
  have hpo : firstPs 0 L ≤ ve := by
    rcases hb5 with h5 | h5
    · rw [h5]; exact Nat.zero_le _
    · omega
  have hloop : runLoop (naMachine h) b o {} =
      (o', e', nqFin h { ufBase nm o a g with s := 0 } (firstPs 0 L) ve (accAll b L {})) := by
    rw [hrun, na_uri_to_uf h b nm o x a g hoa hag hu hg hfit, n4_junk_run h hj _ rfl, na_uf_sep h b _ rfl hl hm]
    exact n2_params_run h b false { ufBase nm o a g with s := 0 } hfit hL 0 {} (by omega)
  rw [parse_of_loop h b o hloop hb4]
  rw [n2_nqFin_result h _ (firstPs 0 L) ve _ rfl rfl rfl (by show o ≤ ve; omega) hpo (by omega)]
  rfl

theorem n4_single_from_to : multipleValsOk HdrFrom = false ∧ multipleValsOk HdrTo = false := by decide

/-- **From / To: a comma after `<uri>` is NOT a separator and NOT an error**: `<uri> [LWS] , anything-without-";"` up to
    the line end is accepted and reported exactly as `<uri>` alone — the second value is silently ignored
    (e.g. `From: <sip:a@b>, <sip:c@d>`) -/
theorem n4_single_comma_ignored (h : Nat) (b : Buf) (o a g m w p e : Nat) (nm : PField) (hfit : b.size ≤ 65535)
    (hmv : multipleValsOk h = false) (hp : AddrPrefix b o nm a) (hu : Run isURIch b (a + 1) g) (hag : a + 1 ≤ g)
    (hg : b[g]? = some 62) (hl : Lws b (g + 1) m) (hm : b[m]? = some 44) (hj : NqJunk h b (m + 1) w)
    (hl2 : Lws b w p) (he : Eol b p e) {c2 : UInt8} (h2 : b[e]? = some c2) (hw2 : isWS c2 = false) :
    parseNameAddrPVal h b o {} = (e, .ok, naResult h nm ⟨a + 1, g - (a + 1)⟩ {} ⟨o, g + 1 - o⟩ {}) := by
  have hle := hl.le
  have hj' : NqJunk h b (g + 1) w := by
    have hc : NqJunk h b m w := .ch m w 44 hm (by decide) (by decide) (fun _ => hmv) hj
    by_cases h1 : g + 1 < m
    · exact .lws (g + 1) m w 44 hl h1 hm (by decide) hc
    · have : g + 1 = m := by omega
      rw [this]; exact hc
  exact n4_bracket_junk h b o a g w e .ok nm hfit hp hu hag hg hj' (.eol p e c2 hl2 he h2 hw2)

/-! #### bare URI in a single-valued header kind: the comma is an ordinary byte -/

/-- a byte of a bare URI for the single-valued header kinds: a token byte or a comma -/
def isTokchS (c : UInt8) : Bool := isTokch c || c == 44

theorem n4_stepA_nu_tokS (h : Nat) (b : Buf) (i : Nat) (c : UInt8) (pf : PFromBody) (hst : pf.state = .nameOrURI)
    (hmv : multipleValsOk h = false) (hc : isTokchS c = true) : naStep h b i c pf = .cont (i + 1) pf := by
  unfold isTokchS at hc
  by_cases hcm : c = 44
  · subst hcm
    unfold naStep; simp only [hst]
    unfold naStepA
    simp +decide only [hmv, Bool.false_eq_true, ↓reduceIte]
  · have h44 : (c == 44) = false := by simpa using hcm
    rw [h44, Bool.or_false] at hc
    exact stepA_nu_tok h b i c pf hst hc

/-- **From / To with a bare URI: commas inside it belong to the URI** (`From: sip:a@b,sip:c@d` reports the one URI
    `sip:a@b,sip:c@d`) -/
theorem n4_bare_comma (h : Nat) (b : Buf) (o t o' : Nat) (e' : Err) (hfit : b.size ≤ 65535)
    (hmv : multipleValsOk h = false) {c : UInt8} (hc : b[o]? = some c) (h1 : isTok1 c = true)
    (hr : Run isTokchS b (o + 1) t) (hot : o + 1 ≤ t) (T : Term h b t o' e') :
    parseNameAddrPVal h b o {} = (o', e', naResult h {} ⟨o, t - o⟩ {} ⟨o, t - o⟩ {}) := by
  have hsz := get?_lt hc
  have hstep : naStep h b o c {} = .cont (o + 1) (nuSt o) := by
    rw [stepA_init_tok h b o c {} rfl h1]
    unfold nuSt PFromBody.setV
    simp only [set_eq o o (Nat.le_refl _) (by omega), setPanics_false o o (Nat.le_refl _), Nat.sub_self]
    rfl
  have hloop : runLoop (naMachine h) b o {} = (o', e', { nueSt o t with state := .fin, soffs := 0, type := h }) := by
    rw [runLoop_cont (naMachine h) hc (by exact hstep), if_pos (by omega),
      runLoop_run (naMachine h) b isTokchS (nuSt o) (fun k c' _ hc' => n4_stepA_nu_tokS h b k c' (nuSt o) rfl hmv hc')
        (o + 1) t hot hr]
    exact na_nu_term h b o t hfit (by omega) T
  rw [parse_of_loop h b o hloop T.complete]
  rfl

/-! #### non-vacuity and tests for (4) -/

/-- `From: <a>, <b>` CR LF: the hypotheses of `n4_single_comma_ignored` are satisfiable -/
example : parseNameAddrPVal HdrFrom "<a>, <b>\r\nX".toUTF8.data 0 {} =
    (10, .ok, naResult HdrFrom {} ⟨1, 1⟩ {} ⟨0, 3⟩ {}) :=
  n4_single_comma_ignored HdrFrom "<a>, <b>\r\nX".toUTF8.data 0 0 2 3 8 8 10 {} (by decide) (by decide)
    (.none (by decide)) (run_of_check (by decide)) (by decide) (by decide) (.nil 3) (by decide)
    (.lws 4 5 8 60 (.ws 4 5 32 (by decide) (by decide) (.nil 5)) (by decide) (by decide) (by decide)
      (.ch 5 8 60 (by decide) (by decide) (by decide) (fun hc => by cases hc)
        (.ch 6 8 98 (by decide) (by decide) (by decide) (fun hc => by cases hc)
          (.ch 7 8 62 (by decide) (by decide) (by decide) (fun hc => by cases hc) (.nil 8)))))
    (.nil 8) (.crlf 8 (by decide) (by decide)) (c2 := 88) (by decide) (by decide)

/-- test (evaluation): To with two values — the tag of the SECOND value is reported with the URI of the FIRST -/
example : parseNameAddrPVal HdrTo "<a>, <b>;tag=x\r\nX".toUTF8.data 0 {} =
    (16, .ok, { uri := ⟨1, 1⟩, params := ⟨9, 5⟩, tag := ⟨13, 1⟩, v := ⟨0, 14⟩, type := HdrTo, state := .fin }) := by
  decide +kernel

/-- tests (evaluation): From with a bare URI: `a:b,c:d` is one URI; `a:b, c:d` is rejected ("bad header") -/
example : parseNameAddrPVal HdrFrom "a:b,c:d\r\nX".toUTF8.data 0 {} =
    (9, .ok, { uri := ⟨0, 7⟩, v := ⟨0, 7⟩, type := HdrFrom, state := .fin }) := by decide +kernel
example : (parseNameAddrPVal HdrFrom "a:b, c:d\r\nX".toUTF8.data 0 {}).2.1 = .bad := by decide +kernel


/-- the hypotheses of `n4_bare_comma` are satisfiable: `a:b,c:d` CR LF as a From value -/
example : parseNameAddrPVal HdrFrom "a:b,c:d\r\nX".toUTF8.data 0 {} =
    (9, .ok, naResult HdrFrom {} ⟨0, 7⟩ {} ⟨0, 7⟩ {}) :=
  n4_bare_comma HdrFrom "a:b,c:d\r\nX".toUTF8.data 0 7 9 .ok (by decide) (by decide) (c := 97) (by decide) (by decide)
    (run_of_check (by decide)) (by decide) (.eol 7 9 88 (.nil 7) (.crlf 7 (by decide) (by decide)) (by decide) (by decide))

/-! #### From / To: a comma after a parameter and white space is rejected -/

theorem n4_stepPNE_comma_single (h : Nat) (b : Buf) (i : Nat) (pf : PFromBody) (q : Bool) (hst : pf.state = stPNE q)
    (hm : multipleValsOk h = false) : naStep h b i 44 pf = .done i .badChar pf := by
  cases q <;>
  · simp only [stPNE] at hst
    unfold naStep; simp only [hst]
    unfold naStepPE
    simp +decide only [↓reduceIte]
    unfold naCommaAfterWS
    simp only [hm, Bool.false_eq_true, ↓reduceIte]

theorem n4_stepPVE_comma_single (h : Nat) (b : Buf) (i : Nat) (pf : PFromBody) (q : Bool) (hst : pf.state = stPVE q)
    (hm : multipleValsOk h = false) : naStep h b i 44 pf = .done i .badChar pf := by
  cases q <;>
  · simp only [stPVE] at hst
    unfold naStep; simp only [hst]
    unfold naStepVE
    simp +decide only [↓reduceIte]
    unfold naCommaAfterWS
    simp only [hm, Bool.false_eq_true, ↓reduceIte]

/-- **From / To: `… ;param [=value] LWS ,`** (a well-formed parameter, at least one byte of white space, a comma):
    "bad character" at the comma — whereas the same comma WITHOUT white space in front of it is taken as a byte of the
    parameter name / value -/
theorem n4_single_comma_after_ws (h : Nat) (b : Buf) (o m j w k : Nat) (L : List PSpan) (x : PSpan)
    (hfit : b.size ≤ 65535) (hmv : multipleValsOk h = false) (hh : NqHeadP b o m) (hs : NqSeps b (m + 1) L j)
    (hx : ParamAt b j x w) (hl : Lws b w k) (hwk : w < k) (hk : b[k]? = some 44) :
    (parseNameAddrPVal h b o {}).1 = k ∧ (parseNameAddrPVal h b o {}).2.1 = .badChar ∧ o < k ∧ k < b.size := by
  obtain ⟨hom, q, base, hrun⟩ := hh.run h hfit
  have := hs.le
  have hbx := hx.bounds
  obtain ⟨c0, hc0, hl0⟩ := hl.first hwk
  have hsk := skipLWS_of_lws hl hk (by decide)
  have hloop : ∃ st, runLoop (naMachine h) b o {} = (k, .badChar, st) := by
    rw [hrun, n3_seps_run h b q base hfit hs 0 {} (by omega)]
    rcases hx with ⟨ps, pe, h1, h2, h3⟩ | ⟨ps, pe, eq, vs, ve, h1, h2, h3, h4, h5, h6, h7⟩
    · have := h1.le
      rw [na_pname_run h b q base _ _ j ps w h1 h2 h3 (by omega) hfit,
        runLoop_cont (naMachine h) hc0 (by exact stepPN_lws h b w k c0 _ q rfl hl0 hsk), if_pos hwk]
      exact ⟨_, runLoop_done (naMachine h) hk (by exact n4_stepPNE_comma_single h b k _ q rfl hmv)⟩
    · have := h1.le; have := h4.le; have := h6.le; have := h7.lt
      obtain ⟨c, hc, hcl⟩ := h7.first
      rw [na_pname_run h b q base _ _ j ps pe h1 h2 h3 (by omega) hfit,
        na_peq_run h b q base _ ps pe eq vs _ h4 h5 h6 hc hcl, na_pval_run h h7 q base _ ps pe vs _,
        runLoop_cont (naMachine h) hc0 (by exact stepPV_lws h b w k c0 _ q rfl hl0 hsk), if_pos hwk]
      exact ⟨_, runLoop_done (naMachine h) hk (by exact n4_stepPVE_comma_single h b k _ q rfl hmv)⟩
  obtain ⟨st, hloop⟩ := hloop
  obtain ⟨r1, r2⟩ := n3_parse_fst_snd h b o hloop
  exact ⟨r1, r2, by omega, get?_lt hk⟩

/-- `From: <a>;tag=x ,` : the hypotheses of `n4_single_comma_after_ws` are satisfiable; "bad character" at offset 10 -/
example : (parseNameAddrPVal HdrFrom "<a>;tag=x ,<b>\r\nX".toUTF8.data 0 {}).1 = 10 ∧
    (parseNameAddrPVal HdrFrom "<a>;tag=x ,<b>\r\nX".toUTF8.data 0 {}).2.1 = .badChar ∧ 0 < 10 ∧
    10 < "<a>;tag=x ,<b>\r\nX".toUTF8.data.size :=
  n4_single_comma_after_ws HdrFrom "<a>;tag=x ,<b>\r\nX".toUTF8.data 0 3 4 9 10 [] ⟨4, 7, 8, 9⟩ (by decide) (by decide)
    (.bracket 0 2 3 {} (.none (by decide)) (run_of_check (by decide)) (by decide) (by decide) (.nil 3) (by decide))
    (.nil 4)
    (.val 4 7 7 8 9 (.nil 4) (run_of_check (by decide)) (by decide) (.nil 7) (by decide) (.nil 8)
      (Or.inl ⟨120, by decide, by decide, .nil 9⟩))
    (.ws 9 10 32 (by decide) (by decide) (.nil 10)) (by decide) (by decide)

/-- test (evaluation): without the white space the comma is a byte of the value: `From: <a>;tag=x,y` has tag `x,y` -/
example : parseNameAddrPVal HdrFrom "<a>;tag=x,y\r\nX".toUTF8.data 0 {} =
    (13, .ok, { uri := ⟨1, 1⟩, params := ⟨4, 7⟩, tag := ⟨8, 3⟩, v := ⟨0, 11⟩, type := HdrFrom, state := .fin }) := by
  decide +kernel


end Sipsp
