/-
  Sipsp.Proofs.ShiftMsg — position independence (property C11) of ParseHdrLine, ParseHeaders and ParseSIPMsg, and the
  pipelining corollary (property C06).
-/
import Sipsp.Proofs.ShiftLists
import Sipsp.Proofs.SafeMsg
import Sipsp.Proofs.FieldsLo

namespace Sipsp

/-! ### (1) the translations -/

/-- **the header-values object moved by `k`**: every typed value object through its own translation -/
def shHv (k : Nat) (hv : PHdrVals) : PHdrVals :=
  { from_ := shNa k hv.from_, to := shNa k hv.to, callid := shCi k hv.callid, cseq := shCs k hv.cseq,
    clen := shCl k hv.clen, contacts := shCt k hv.contacts, pais := shPa k hv.pais, expires := shCl k hv.expires }

/-- the name of a header: set (and moved) in every state but the initial one; in the final state the zero field
    means "not set" (the empty line that ends the header block) -/
def shHn (k : Nat) (st : HState) (f : PField) : PField :=
  match st with
  | .init | .fin => shO k f
  | _ => shF k f

/-- **a header moved by `k`**: name and value moved when set (value: zero field = not set); type, state and the
    panic flag unchanged -/
def shHdr (k : Nat) (h : Hdr) : Hdr := { h with name := shHn k h.state h.name, val := shO k h.val }

/-- the loop state of ParseHdrLine -/
def shHL (k : Nat) (st : HLσ) : HLσ := (shHdr k st.1, st.2.map (shHv k))

/-- **the header list moved by `k`**: every stored header, the first-of-type shortcuts and the header in progress;
    count and type flags unchanged -/
def shHls (k : Nat) (hl : HdrLst) : HdrLst :=
  { hl with hdrs := hl.hdrs.map (shHdr k), h := hl.h.map (shHdr k), hdr := shHdr k hl.hdr }

theorem shHv_new (k m : Nat) :
    shHv k ({ contacts := { vals := Array.replicate m {} } } : PHdrVals) = { contacts := { vals := Array.replicate m {} } } := by
  unfold shHv
  simp only [shNa_new, shCt_new, shPa_new]
  rfl

theorem shHdr_new (k : Nat) : shHdr k {} = {} := rfl

theorem shHdr_type (k : Nat) (h : Hdr) : (shHdr k h).type = h.type := rfl
theorem shHdr_state (k : Nat) (h : Hdr) : (shHdr k h).state = h.state := rfl
theorem shHdr_pnc (k : Nat) (h : Hdr) : (shHdr k h).pnc = h.pnc := rfl

theorem shHls_new (k m : Nat) : shHls k ({ hdrs := Array.replicate m {} } : HdrLst) = { hdrs := Array.replicate m {} } := by
  unfold shHls
  simp only [Array.map_replicate, shHdr_new]

/-- what a caller can read of the header-values object after an error verdict: everything but the (never reported,
    stale) saved restart offset of the name-addr value that was being parsed -/
def smHvObs (hv : PHdrVals) : PHdrVals :=
  { hv with from_ := hv.from_.obs, to := hv.to.obs, contacts := ctObsCur hv.contacts, pais := paObsCur hv.pais }

def smHLObs (st : HLσ) : HLσ := (st.1, st.2.map smHvObs)

/-- verdicts after which the result is the moved result exactly -/
def smExact (e : Err) : Prop := e = .ok ∨ e = .moreBytes ∨ e = .empty

/-- the state `x` returned with verdict `e` is the moved state `y`: exactly after OK / MoreBytes / Empty, up to the
    stale restart offset otherwise -/
def smRelHL (k : Nat) (e : Err) (x y : HLσ) : Prop := smHLObs x = smHLObs (shHL k y) ∧ (smExact e → x = shHL k y)

theorem smRelHL_refl (k : Nat) (e : Err) (y : HLσ) : smRelHL k e (shHL k y) y := ⟨rfl, fun _ => rfl⟩


/-! ### lower bounds of the typed values survive a MoreBytes suspension

  (FieldsLo proves the lower bounds after OK; the same invariants hold of the object returned with MoreBytes.) -/

/-- what a finishing step must establish: after MoreBytes, the invariant `R` at the returned offset -/
def smMoreT {σ : Type} (R : Nat → σ → Prop) : Nat → Err → σ → Prop := fun n e s => e = .moreBytes → R n s

theorem smCiStep_more (b : Buf) (i lo : Nat) (c : UInt8) (st : PCallIDBody) (hfit : b.size ≤ 65535) (hb : b[i]? = some c)
    (hlo : lo ≤ i) (h : CiLoI lo i st) :
    StepAll2 (fun j s => lo ≤ j ∧ CiLoI lo j s) (smMoreT (CiLoI lo)) (ciStep b i c st) := by
  have hlt := get?_lt hb
  have key : ∀ s1 : PCallIDBody, CiLoI lo i s1 →
      StepAll2 (fun j s => lo ≤ j ∧ CiLoI lo j s) (smMoreT (CiLoI lo)) (lwsStd b i s1 ciEOH id) := by
    intro s1 h1
    exact lwsStd_all2 b i s1 ciEOH id _ _ (by omega) (fun n a1 _ => ⟨by omega, h1.mono a1⟩)
      (fun n _ _ hh => by cases hh) (fun n a1 _ _ => h1.mono a1)
      (fun n crl _ _ _ hh => absurd hh (ciEOH_ne_more s1 i n crl))
  unfold ciStep
  by_cases hl : isLWSch c = true
  · rw [if_pos hl]
    cases hst : st.state <;> simp only
    · exact key _ h
    · refine key _ ⟨(fun hh => by cases hh), fun _ => ?_⟩
      have := h.1 hst
      show lo ≤ (PField.set st.soffs i).offs
      rw [flo_set_offs _ _ (by omega)]; exact this.1
    · exact key _ h
    · exact ⟨by omega, h.mono (by omega)⟩
  · rw [if_neg hl]
    cases hst : st.state <;> simp only
    · exact ⟨by omega, (fun _ => ⟨hlo, by show i ≤ i + 1; omega⟩), (fun hh => by rcases hh with hh | hh <;> cases hh)⟩
    · exact ⟨by omega, h.mono (by omega)⟩
    · exact (fun hh => by cases hh)
    · exact ⟨by omega, h.mono (by omega)⟩

/-- Call-ID: the lower-bound invariant holds again of the object returned with MoreBytes -/
theorem smCi_more (b : Buf) (o lo : Nat) (st : PCallIDBody) (hfit : b.size ≤ 65535) (hlo : lo ≤ o)
    (h : CiLoI lo o st) {o' : Nat} {st' : PCallIDBody} (hr : parseCallIDVal b o st = (o', .moreBytes, st')) :
    CiLoI lo o' st' := by
  unfold parseCallIDVal at hr
  split at hr
  · cases hr
  · have := runLoop_safe2 ciMachine b (fun j s => lo ≤ j ∧ CiLoI lo j s) (smMoreT (CiLoI lo)) ci_progress
      (fun i c s hb hs => smCiStep_more b i lo c s hfit hb hs.1 hs.2) (fun i s hs _ => hs.2) o st ⟨hlo, h⟩
    rw [hr] at this
    exact this rfl

theorem smClStep_more (b : Buf) (i lo : Nat) (c : UInt8) (st : PUIntBody) (hfit : b.size ≤ 65535) (hb : b[i]? = some c)
    (hlo : lo ≤ i) (h : ClLoI lo i st) :
    StepAll2 (fun j s => lo ≤ j ∧ ClLoI lo j s) (smMoreT (ClLoI lo)) (clStep b i c st) := by
  have hlt := get?_lt hb
  have key : ∀ s1 : PUIntBody, ClLoI lo i s1 →
      StepAll2 (fun j s => lo ≤ j ∧ ClLoI lo j s) (smMoreT (ClLoI lo)) (lwsStd b i s1 clEOH id) := by
    intro s1 h1
    exact lwsStd_all2 b i s1 clEOH id _ _ (by omega) (fun n a1 _ => ⟨by omega, h1.mono a1⟩)
      (fun n _ _ hh => by cases hh) (fun n a1 _ _ => h1.mono a1)
      (fun n crl _ _ _ hh => absurd hh (clEOH_ne_more s1 i n crl))
  unfold clStep
  by_cases hl : isLWSch c = true
  · rw [if_pos hl]
    cases hst : st.state <;> simp only
    · exact key _ h
    · refine key _ ⟨(fun hh => by cases hh), fun _ => ?_⟩
      have := h.1 hst
      show lo ≤ (PField.set st.soffs i).offs
      rw [flo_set_offs _ _ (by omega)]; exact this.1
    · exact key _ h
    · exact ⟨by omega, h.mono (by omega)⟩
  · rw [if_neg hl]
    by_cases hd : isDigit c = true
    · rw [if_pos hd]
      cases hst : st.state <;> simp only
      · exact ⟨by omega, (fun _ => ⟨hlo, by show i ≤ i + 1; omega⟩), (fun hh => by rcases hh with hh | hh <;> cases hh)⟩
      · split
        · exact (fun hh => by cases hh)
        · have := h.1 hst
          exact ⟨by omega, (fun _ => ⟨this.1, by show st.soffs ≤ i + 1; omega⟩),
            (fun hh => by rcases hh with hh | hh <;> cases hh)⟩
      · exact (fun hh => by cases hh)
      · exact ⟨by omega, h.mono (by omega)⟩
    · rw [if_neg hd]; exact (fun hh => by cases hh)

/-- Expires: the lower-bound invariant holds again of the object returned with MoreBytes -/
theorem smCl_more (b : Buf) (o lo : Nat) (st : PUIntBody) (hfit : b.size ≤ 65535) (hlo : lo ≤ o)
    (h : ClLoI lo o st) {o' : Nat} {st' : PUIntBody} (hr : parseUIntVal b o st = (o', .moreBytes, st')) :
    ClLoI lo o' st' := by
  unfold parseUIntVal at hr
  split at hr
  · cases hr
  · have := runLoop_safe2 clMachine b (fun j s => lo ≤ j ∧ ClLoI lo j s) (smMoreT (ClLoI lo)) cl_progress
      (fun i c s hb hs => smClStep_more b i lo c s hfit hb hs.1 hs.2) (fun i s hs _ => hs.2) o st ⟨hlo, h⟩
    rw [hr] at this
    exact this rfl

/-- Content-Length: … -/
theorem smClen_more (b : Buf) (o lo : Nat) (st : PUIntBody) (hfit : b.size ≤ 65535) (hlo : lo ≤ o)
    (h : ClLoI lo o st) {o' : Nat} {st' : PUIntBody} (hr : parseCLenVal b o st = (o', .moreBytes, st')) :
    ClLoI lo o' st' := by
  unfold parseCLenVal at hr
  rcases hp : parseUIntVal b o st with ⟨o1, e1, s1⟩
  rw [hp] at hr
  cases e1 <;> simp only at hr
  case ok => split at hr <;> cases hr
  case moreBytes => cases hr; exact smCl_more b o lo st hfit hlo h hp
  all_goals cases hr


theorem smCsStep_more (b : Buf) (i lo : Nat) (c : UInt8) (st : PCSeqBody) (hfit : b.size ≤ 65535) (hb : b[i]? = some c)
    (hlo : lo ≤ i) (h : CsLoI lo i st) :
    StepAll2 (fun j s => lo ≤ j ∧ CsLoI lo j s) (smMoreT (CsLoI lo)) (csStep b i c st) := by
  have hlt := get?_lt hb
  have key : ∀ s1 : PCSeqBody, CsLoI lo i s1 →
      StepAll2 (fun j s => lo ≤ j ∧ CsLoI lo j s) (smMoreT (CsLoI lo)) (lwsStd b i s1 (csEOH b) id) := by
    intro s1 h1
    exact lwsStd_all2 b i s1 (csEOH b) id _ _ (by omega) (fun n a1 _ => ⟨by omega, h1.mono a1⟩)
      (fun n _ _ hh => by cases hh) (fun n a1 _ _ => h1.mono a1)
      (fun n crl _ _ _ hh => absurd hh (csEOH_ne_more b s1 i n crl))
  have hmeth : st.state = .endDigit →
      lo ≤ i + 1 ∧ CsLoI lo (i + 1) { st with state := .foundMethod, soffs := i } := by
    intro hst
    obtain ⟨a1, a2, a3⟩ := h.2.1 hst
    refine ⟨by omega, (fun hh => by cases hh), (fun hh => by cases hh), (fun _ => ⟨a1, ?_, ?_, ?_⟩),
      (fun hh => by rcases hh with hh | hh <;> cases hh)⟩
    · show st.cseq.offs = st.v.offs
      rw [a2]
    · show st.cseq.offs + st.cseq.len ≤ i
      rw [a2]; exact a3
    · show i ≤ i + 1
      omega
  unfold csStep
  by_cases hl : isLWSch c = true
  · rw [if_pos hl]
    cases hst : st.state <;> simp only
    · exact key _ h
    · obtain ⟨a1, a2⟩ := h.1 hst
      have hso : (PField.set st.soffs i).offs = st.soffs := flo_set_offs _ _ (by omega)
      refine key _ ⟨(fun hh => by cases hh), (fun _ => ⟨?_, rfl, ?_⟩), (fun hh => by cases hh),
        (fun hh => by rcases hh with hh | hh <;> cases hh)⟩
      · show lo ≤ (PField.set st.soffs i).offs
        rw [hso]; exact a1
      · exact set_inside st.soffs i i a2 (Nat.le_refl _)
    · exact key _ h
    · obtain ⟨a1, a2, a3, a4⟩ := h.2.2.1 hst
      have hn := csSetMethod_nest lo i st (by omega) a1 a2 a3 a4
      exact key _ ⟨(fun hh => by cases hh), (fun hh => by cases hh), (fun hh => by cases hh),
        (fun _ => ⟨hn.lo, hn.cseqO, hn.order, hn.methE⟩)⟩
    · exact key _ h
    · exact ⟨by omega, h.mono (by omega)⟩
  · rw [if_neg hl]
    by_cases hd : isDigit c = true
    · rw [if_pos hd]
      cases hst : st.state <;> simp only
      · exact ⟨by omega, (fun _ => ⟨hlo, by show i ≤ i + 1; omega⟩), (fun hh => by cases hh), (fun hh => by cases hh),
          (fun hh => by rcases hh with hh | hh <;> cases hh)⟩
      · split
        · exact (fun hh => by cases hh)
        · have := h.1 hst
          exact ⟨by omega, (fun _ => ⟨this.1, by show st.soffs ≤ i + 1; omega⟩), (fun hh => by cases hh),
            (fun hh => by cases hh), (fun hh => by rcases hh with hh | hh <;> cases hh)⟩
      · exact hmeth hst
      · exact ⟨by omega, h.mono (by omega)⟩
      · exact (fun hh => by cases hh)
      · exact ⟨by omega, h.mono (by omega)⟩
    · rw [if_neg hd]
      cases hst : st.state <;> simp only
      · exact (fun hh => by cases hh)
      · exact (fun hh => by cases hh)
      · exact hmeth hst
      · exact ⟨by omega, h.mono (by omega)⟩
      · exact (fun hh => by cases hh)
      · exact ⟨by omega, h.mono (by omega)⟩

/-- CSeq: the lower-bound / nesting invariant holds again of the object returned with MoreBytes -/
theorem smCs_more (b : Buf) (o lo : Nat) (st : PCSeqBody) (hfit : b.size ≤ 65535) (hlo : lo ≤ o)
    (h : CsLoI lo o st) {o' : Nat} {st' : PCSeqBody} (hr : parseCSeqVal b o st = (o', .moreBytes, st')) :
    CsLoI lo o' st' := by
  unfold parseCSeqVal at hr
  split at hr
  · cases hr
  · have := runLoop_safe2 csMachine b (fun j s => lo ≤ j ∧ CsLoI lo j s) (smMoreT (CsLoI lo)) cs_progress
      (fun i c s hb hs => smCsStep_more b i lo c s hfit hb hs.1 hs.2) (fun i s hs _ => hs.2) o st ⟨hlo, h⟩
    rw [hr] at this
    exact this rfl

/-- a MoreBytes exit of a CSeq step keeps the position invariant of Shift -/
theorem smCsStep_posMore (t : Buf) (i : Nat) (c : UInt8) (st : PCSeqBody) (hP : CsPos i st)
    {o : Nat} {st' : PCSeqBody} (hs : csStep t i c st = .done o .moreBytes st') : CsPos o st' := by
  have key : ∀ s1 : PCSeqBody, CsPos i s1 → lwsStd t i s1 (csEOH t) id = .done o .moreBytes st' → CsPos o st' := by
    intro s1 h1 hq
    have e1 := lwsStd_more_state t i s1 (csEOH t) id (fun s j n crl => csEOH_ne_more t s j n crl) hq
    have e2 := lwsStd_more_ge t i s1 (csEOH t) id (fun s j n crl => csEOH_ne_more t s j n crl) hq
    subst e1
    exact ⟨fun hh => by have := h1.1 hh; omega, h1.2⟩
  unfold csStep at hs
  by_cases hl : isLWSch c = true
  · simp only [hl, ↓reduceIte] at hs
    cases hst : st.state <;> simp only [hst] at hs
    case foundDigit =>
      refine key _ ⟨fun _ => hP.1 (by rw [hst]; decide), ?_⟩ hs
      intro hh; rcases hh with hh | hh <;> cases hh
    case foundMethod =>
      exact key { csSetMethod st i with state := .fend }
        ⟨fun _ => hP.1 (by rw [hst]; decide), fun _ => by show 1 ≤ st.soffs; exact hP.2 (Or.inl hst)⟩ hs
    case fin => cases hs
    all_goals exact key st hP hs
  · simp only [hl, Bool.false_eq_true, ↓reduceIte] at hs
    by_cases hd : isDigit c = true
    · simp only [hd, ↓reduceIte] at hs
      cases hst : st.state <;> simp only [hst] at hs
      case foundDigit => split at hs <;> cases hs
      all_goals cases hs
    · simp only [hd, Bool.false_eq_true, ↓reduceIte] at hs
      cases hst : st.state <;> simp only [hst] at hs <;> cases hs

/-- CSeq: the position invariant `CsPos` holds again of the object returned with MoreBytes -/
theorem smCs_posMore (t : Buf) (o : Nat) (st : PCSeqBody) (hfit : t.size ≤ 65535) (hS : CsSafe t o st) (hP : CsPos o st)
    {o' : Nat} {st' : PCSeqBody} (hr : parseCSeqVal t o st = (o', .moreBytes, st')) : CsPos o' st' := by
  unfold parseCSeqVal at hr
  split at hr
  · cases hr
  · have := runLoop_inv csMachine t (fun i s => CsSafe t i s ∧ CsPos i s)
      (fun r => r.2.1 = .moreBytes → CsPos r.1 r.2.2)
      (by
        intro i c s i' s' hb hI hs
        refine ⟨fun _ => ?_, fun _ hh => by cases hh⟩
        have h1 := csStep_safe t i c s hfit hb hI.1
        change StepAll2 _ _ (csStep t i c s) at h1
        change csStep t i c s = _ at hs
        rw [hs] at h1
        exact ⟨h1, csStep_pos t i c s hb hI.1 hI.2 hs⟩)
      (by
        intro i c s o1 e1 s1 hb hI hs hm
        change csStep t i c s = _ at hs
        simp only at hm
        subst hm
        exact smCsStep_posMore t i c s hI.2 hs)
      (by intro i s _ hI _; exact hI.2)
      o st ⟨hS, hP⟩
    rw [hr] at this
    exact this rfl


/-! ### (2) the typed value calls inside a header line -/

theorem smSlEl_fin {t : Buf} {n : Nat} {f : PFromBody} (hf : f.state = .fin) (hout : NaOut t n f)
    (hnz : 1 ≤ f.v.offs + f.v.len) : SlEl t n 0 f :=
  ⟨hout.ho, Or.inl ⟨hf, hout⟩, fun hh => absurd hf hh, fun _ => hnz, Nat.zero_le _, Or.inr (Nat.zero_le _)⟩

theorem smSlEl_mono {t : Buf} {o o' : Nat} {pf : PFromBody} (h : SlEl t o 0 pf) (h1 : o ≤ o') (h2 : o' ≤ t.size) :
    SlEl t o' 0 pf :=
  ⟨h2, h.entry.mono h1 h2, fun hf => (h.pos hf).mono h1, h.nz, Nat.zero_le _, h.vlo⟩

/-- one name-addr value (From / To) -/
theorem smNa_call (h : Nat) (pre t : Buf) (o : Nat) (pf : PFromBody) (hfit : pre.size + t.size ≤ 65535)
    (hel : SlEl t o 0 pf) {n : Nat} {e : Err} {f : PFromBody} (hp : parseNameAddrPVal h t o pf = (n, e, f)) :
    ∃ f', parseNameAddrPVal h (pre ++ t) (pre.size + o) (shNa pre.size pf) = (pre.size + n, e, f') ∧
      f'.obs = (shNa pre.size f).obs ∧ (smExact e → f' = shNa pre.size f) ∧
      (e = .ok → f'.v = shO pre.size f.v) ∧ ((e = .ok ∨ e = .moreBytes) → SlEl t n 0 f ∧ o ≤ n ∧ n ≤ t.size) := by
  have one := sl_one h t o 0 pf (by omega) hel hp
  have hne := parseNameAddrPVal_ne_empty h t o pf
  rw [hp] at hne
  have hs := parseNameAddrPVal_shift h pre t o pf hfit hel.shiftEntry
  rw [hp] at hs
  by_cases hw : naWrote e = true
  · rw [sl_shResNa_wrote _ _ _ _ _ hw] at hs
    refine ⟨_, hs, rfl, fun _ => rfl, fun he => ?_, fun he => ?_⟩
    · subst he
      obtain ⟨f1, f2, f3, f4⟩ := one.fin (Or.inl rfl)
      rw [sl_shNa_fin_v _ _ f1, sl_shO_of_pos _ _ f4]
    · rcases he with rfl | rfl
      · obtain ⟨f1, f2, f3, f4⟩ := one.fin (Or.inl rfl)
        exact ⟨smSlEl_fin f1 one.out f4, f2, one.out.ho⟩
      · obtain ⟨m1, m2⟩ := one.more rfl
        exact ⟨m1, m2, one.out.ho⟩
  · have hw' : naWrote e = false := by simpa using hw
    rw [sl_shResNa_stale _ _ _ _ _ hw'] at hs
    refine ⟨_, hs, rfl, fun hx => ?_, fun he => ?_, fun he => ?_⟩
    · rcases hx with rfl | rfl | rfl
      · cases hw'
      · cases hw'
      · exact absurd rfl hne
    · subst he; cases hw'
    · rcases he with rfl | rfl <;> cases hw'

/-- the Call-ID value -/
theorem smCi_call (pre t : Buf) (o : Nat) (st : PCallIDBody) (hfit : pre.size + t.size ≤ 65535) (h1 : 1 ≤ o)
    (hS : CiSafe t o st) (hL : CiLoI 1 o st) {n : Nat} {e : Err} {f : PCallIDBody}
    (hp : parseCallIDVal t o st = (n, e, f)) :
    parseCallIDVal (pre ++ t) (pre.size + o) (shCi pre.size st) = (pre.size + n, e, shCi pre.size f) ∧
      (e = .ok → (shCi pre.size f).callID = shO pre.size f.callID) ∧
      ((e = .ok ∨ e = .moreBytes) → CiLoI 1 n f) ∧ o ≤ n ∧ n ≤ t.size := by
  have hrg := parseCallIDVal_range t o st hS.hi
  rw [hp] at hrg
  refine ⟨by rw [parseCallIDVal_shift pre t o st hS hfit, hp]; rfl, fun he => ?_, fun he => ?_, hrg.1, hrg.2⟩
  · subst he
    have hf := (parseCallIDVal_post t o st hS.hi hp).2.2.1
    have hlo := parseCallIDVal_lo t o 1 st (by omega) h1 hL hp
    rw [sl_shO_of_pos _ _ (by omega)]
    simp [shCi, hf]
  · rcases he with rfl | rfl
    · have hf := (parseCallIDVal_post t o st hS.hi hp).2.2.1
      have hlo := parseCallIDVal_lo t o 1 st (by omega) h1 hL hp
      exact ⟨(fun hh => by rw [hf] at hh; cases hh), fun _ => hlo⟩
    · exact smCi_more t o 1 st (by omega) h1 hL hp

/-- the Expires value -/
theorem smCl_call (pre t : Buf) (o : Nat) (st : PUIntBody) (hfit : pre.size + t.size ≤ 65535) (h1 : 1 ≤ o)
    (hS : ClSafe t o st) (hL : ClLoI 1 o st) {n : Nat} {e : Err} {f : PUIntBody}
    (hp : parseUIntVal t o st = (n, e, f)) :
    parseUIntVal (pre ++ t) (pre.size + o) (shCl pre.size st) = (pre.size + n, e, shCl pre.size f) ∧
      (e = .ok → (shCl pre.size f).sVal = shO pre.size f.sVal) ∧
      ((e = .ok ∨ e = .moreBytes) → ClLoI 1 n f) ∧ o ≤ n ∧ n ≤ t.size := by
  have hrg := parseUIntVal_range t o st hS.hi
  rw [hp] at hrg
  refine ⟨by rw [parseUIntVal_shift pre t o st hS hfit, hp]; rfl, fun he => ?_, fun he => ?_, hrg.1, hrg.2⟩
  · subst he
    have hf := (parseUIntVal_post t o st hS.hi hp).2.2.1
    have hlo := parseUIntVal_lo t o 1 st (by omega) h1 hL hp
    rw [sl_shO_of_pos _ _ (by omega)]
    simp [shCl, hf]
  · rcases he with rfl | rfl
    · have hf := (parseUIntVal_post t o st hS.hi hp).2.2.1
      have hlo := parseUIntVal_lo t o 1 st (by omega) h1 hL hp
      exact ⟨(fun hh => by rw [hf] at hh; cases hh), fun _ => hlo⟩
    · exact smCl_more t o 1 st (by omega) h1 hL hp

/-- the Content-Length value -/
theorem smClen_call (pre t : Buf) (o : Nat) (st : PUIntBody) (hfit : pre.size + t.size ≤ 65535) (h1 : 1 ≤ o)
    (hS : ClSafe t o st) (hL : ClLoI 1 o st) {n : Nat} {e : Err} {f : PUIntBody}
    (hp : parseCLenVal t o st = (n, e, f)) :
    parseCLenVal (pre ++ t) (pre.size + o) (shCl pre.size st) = (pre.size + n, e, shCl pre.size f) ∧
      (e = .ok → (shCl pre.size f).sVal = shO pre.size f.sVal) ∧
      ((e = .ok ∨ e = .moreBytes) → ClLoI 1 n f ∧ o ≤ n ∧ n ≤ t.size) := by
  refine ⟨by rw [parseCLenVal_shift pre t o st hS hfit, hp]; rfl, fun he => ?_, fun he => ?_⟩
  · subst he
    have hf := (parseCLenVal_post t o st hS.hi hp).2.2.1
    have hlo := parseCLenVal_lo t o 1 st (by omega) h1 hL hp
    rw [sl_shO_of_pos _ _ (by omega)]
    simp [shCl, hf]
  · rcases he with rfl | rfl
    · have hq := parseCLenVal_post t o st hS.hi hp
      have hlo := parseCLenVal_lo t o 1 st (by omega) h1 hL hp
      exact ⟨⟨(fun hh => by rw [hq.2.2.1] at hh; cases hh), fun _ => hlo⟩, hq.1, hq.2.1⟩
    · exact ⟨smClen_more t o 1 st (by omega) h1 hL hp, parseCLenVal_more_range t o st hS.hi hp⟩

/-- the CSeq value -/
theorem smCs_call (pre t : Buf) (o : Nat) (st : PCSeqBody) (hfit : pre.size + t.size ≤ 65535) (h1 : 1 ≤ o)
    (hS : CsSafe t o st) (hP : CsPos o st) (hL : CsLoI 1 o st) {n : Nat} {e : Err} {f : PCSeqBody}
    (hp : parseCSeqVal t o st = (n, e, f)) :
    parseCSeqVal (pre ++ t) (pre.size + o) (shCs pre.size st) = (pre.size + n, e, shCs pre.size f) ∧
      (e = .ok → (shCs pre.size f).v = shO pre.size f.v) ∧
      ((e = .ok ∨ e = .moreBytes) → CsPos n f ∧ CsLoI 1 n f ∧ o ≤ n ∧ n ≤ t.size) := by
  refine ⟨by rw [parseCSeqVal_shift pre t o st hS hP hfit, hp]; rfl, fun he => ?_, fun he => ?_⟩
  · subst he
    have hf := (parseCSeqVal_post t o st hS.hi hp).2.2.1
    have hlo := (parseCSeqVal_lo t o 1 st (by omega) h1 hL hp).lo
    rw [sl_shO_of_pos _ _ (by omega)]
    simp [shCs, hf]
  · rcases he with rfl | rfl
    · have hq := parseCSeqVal_post t o st hS.hi hp
      have hn := parseCSeqVal_lo t o 1 st (by omega) h1 hL hp
      refine ⟨⟨fun _ => by omega, fun hh => ?_⟩, ⟨fun hh => ?_, fun hh => ?_, fun hh => ?_, fun _ => hn⟩, hq.1, hq.2.1⟩
      · rcases hh with hh | hh <;> (rw [hq.2.2.1] at hh; cases hh)
      · rw [hq.2.2.1] at hh; cases hh
      · rw [hq.2.2.1] at hh; cases hh
      · rw [hq.2.2.1] at hh; cases hh
    · have hrg := parseCSeqVal_more_range t o st hS.csOK hp
      exact ⟨smCs_posMore t o st (by omega) hS hP hp, smCs_more t o 1 st (by omega) h1 hL hp, hrg.1, hrg.2⟩

/-- the Contact value list of a new header line (the object is idle: between header lines) -/
theorem smCt_start (pre t : Buf) (o : Nat) (c : PContacts) (m : Nat) (hfit : pre.size + t.size ≤ 65535)
    (ho : o ≤ t.size) (hI : CtIdle t c) :
    slCtRes pre.size
        (parseAllContactValues (pre ++ t) (pre.size + o) { shCt pre.size c with hNo := m, lastHVal := {} })
        (parseAllContactValues t o { c with hNo := m, lastHVal := {} }) ∧
      ((parseAllContactValues t o { c with hNo := m, lastHVal := {} }).2.1 = .moreBytes →
        CtShift t (parseAllContactValues t o { c with hNo := m, lastHVal := {} }).1
          (parseAllContactValues t o { c with hNo := m, lastHVal := {} }).2.2) := by
  have e : ({ shCt pre.size c with hNo := m, lastHVal := {} } : PContacts) =
      shCt pre.size { c with hNo := m, lastHVal := {} } := rfl
  rw [e, parseAllContactValues_eq_wrap, parseAllContactValues_eq_wrap, shCt_wrap, bump_wrap]
  exact contactsLoop_shift' pre t o _ hfit (CtShift.start hI o ho m)

/-- the P-Asserted-Identity value list of a new header line -/
theorem smPa_start (pre t : Buf) (o : Nat) (c : PPAIs) (m : Nat) (hfit : pre.size + t.size ≤ 65535)
    (ho : o ≤ t.size) (hI : PaIdle t c) :
    slPaRes pre.size
        (parseAllPAIValues (pre ++ t) (pre.size + o) { shPa pre.size c with hNo := m, lastHVal := {} })
        (parseAllPAIValues t o { c with hNo := m, lastHVal := {} }) ∧
      ((parseAllPAIValues t o { c with hNo := m, lastHVal := {} }).2.1 = .moreBytes →
        PaShift t (parseAllPAIValues t o { c with hNo := m, lastHVal := {} }).1
          (parseAllPAIValues t o { c with hNo := m, lastHVal := {} }).2.2) := by
  have e : ({ shPa pre.size c with hNo := m, lastHVal := {} } : PPAIs) =
      shPa pre.size { c with hNo := m, lastHVal := {} } := rfl
  rw [e, parseAllPAIValues_eq_wrap, parseAllPAIValues_eq_wrap, shPa_wrap, paBump_wrap]
  exact paisLoop_shift' pre t o _ hfit (PaShift.start hI o ho m)

/-! ### a relational version of the generic loop theorem -/

section loop
variable {σ : Type}

/-- the step `X` on the moved buffer is the moved step `Y`: continuing steps exactly, finishing steps up to `R` -/
def smStepRel (k : Nat) (sh : σ → σ) (R : Err → σ → σ → Prop) : Step σ → Step σ → Prop
  | .cont i1 s1, .cont i s => i1 = k + i ∧ s1 = sh s
  | .done o1 e1 s1, .done o e s => o1 = k + o ∧ e1 = e ∧ R e s1 s
  | _, _ => False

def smResRel (k : Nat) (R : Err → σ → σ → Prop) (r1 r : Nat × Err × σ) : Prop :=
  r1.1 = k + r.1 ∧ r1.2.1 = r.2.1 ∧ R r.2.1 r1.2.2 r.2.2

theorem smStepRel_of_eq {k : Nat} {sh : σ → σ} {R : Err → σ → σ → Prop} {X Y : Step σ}
    (hrefl : ∀ e s, R e (sh s) s) (h : X = shStep k sh Y) : smStepRel k sh R X Y := by
  subst h
  cases Y with
  | cont i s => exact ⟨rfl, rfl⟩
  | done o e s => exact ⟨rfl, rfl, hrefl e s⟩

theorem smResRel_of_eq {k : Nat} {sh : σ → σ} {R : Err → σ → σ → Prop} {r1 r : Nat × Err × σ}
    (hrefl : ∀ e s, R e (sh s) s) (h : r1 = shRes k sh r) : smResRel k R r1 r := by
  subst h
  exact ⟨rfl, rfl, hrefl _ _⟩

theorem runLoop_shiftR (m : Machine σ) (pre t : Buf) (sh : σ → σ) (R : Err → σ → σ → Prop) (Inv : Nat → σ → Prop)
    (hrefl : ∀ e s, R e (sh s) s)
    (hinv : ∀ i c st i' st', t[i]? = some c → Inv i st → m.step t i c st = .cont i' st' → i < i' → Inv i' st')
    (hstep : ∀ i c st, t[i]? = some c → Inv i st →
      smStepRel pre.size sh R (m.step (pre ++ t) (pre.size + i) c (sh st)) (m.step t i c st))
    (heob : ∀ i st, t[i]? = none → Inv i st →
      smResRel pre.size R (m.eob (pre ++ t) (pre.size + i) (sh st)) (m.eob t i st))
    (i : Nat) (st : σ) (hI : Inv i st) :
    smResRel pre.size R (runLoop m (pre ++ t) (pre.size + i) (sh st)) (runLoop m t i st) := by
  induction hk : t.size - i using Nat.strongRecOn generalizing i st with
  | _ k ih =>
    cases hb : t[i]? with
    | none =>
      rw [runLoop_none m st hb, runLoop_none m (sh st) (by rw [get?_shift]; exact hb)]
      exact heob i st hb hI
    | some c =>
      have hbB : (pre ++ t)[pre.size + i]? = some c := by rw [get?_shift]; exact hb
      have hs := hstep i c st hb hI
      cases hq : m.step t i c st with
      | done o e st' =>
        rw [hq] at hs
        cases hq' : m.step (pre ++ t) (pre.size + i) c (sh st) with
        | cont i1 s1 => rw [hq'] at hs; exact hs.elim
        | done o1 e1 s1 =>
          rw [hq'] at hs
          rw [runLoop_done m hb hq, runLoop_done m hbB hq']
          obtain ⟨rfl, rfl, h3⟩ := hs
          exact ⟨rfl, rfl, h3⟩
      | cont i' st' =>
        rw [hq] at hs
        cases hq' : m.step (pre ++ t) (pre.size + i) c (sh st) with
        | done o1 e1 s1 => rw [hq'] at hs; exact hs.elim
        | cont i1 s1 =>
          rw [hq'] at hs
          obtain ⟨rfl, rfl⟩ := hs
          rw [runLoop_cont m hb hq, runLoop_cont m hbB hq']
          by_cases hlt : i < i'
          · rw [if_pos hlt, if_pos (by omega)]
            have := get?_lt hb
            exact ih (t.size - i') (by omega) i' st' (hinv i c st i' st' hb hI hq hlt) rfl
          · rw [if_neg hlt, if_neg (by omega)]
            exact ⟨rfl, rfl, hrefl _ _⟩

end loop

end Sipsp
