/-
  Sipsp.Proofs.ShiftMsg — position independence (property C11) of ParseHdrLine, ParseHeaders and ParseSIPMsg, and the
  pipelining corollary (property C06).

  Setting as in Sipsp.Proofs.Shift / ShiftNA / ShiftLists: the text `t` is parsed at its own start (buffer `t`, offset
  `o`) and after `k = pre.size` arbitrary bytes (buffer `pre ++ t`, offset `k + o`), with `pre.size + t.size ≤ 65535`.

  (1) THE TRANSLATIONS.
  * `shHv k`: the header-values object, every typed value through its own translation (`shNa` From / To, `shCi`
    Call-ID, `shCs` CSeq, `shCl` Content-Length / Expires, `shCt` contacts, `shPa` identities); `shHv_new`.
  * `shHdr k`: a header: the value is moved unless it is the zero field (`shO`: "zero = not set"); the name is moved in
    every state between the initial and the final one, and follows the zero convention in the initial and the final
    state (the empty line that ends the block is a final header without name); type, state, panic flag unchanged.
  * `shHls k`: the header list: every stored header, the first-of-type shortcuts, the header in progress; count and type
    flags unchanged (`shHls_cur`, `shHls_setCur`, `shHls_setHdr`, `shHls_accept`, `shHls_getHdr`).
  * `shFl k`: the first line (one translation for request and status lines: `shReq` / `shRpl` of ShiftFLine according
    to the state; a finished status line is recognised by its 3-byte status-code field).
  * `shMsg k`: the message: first line, header list, values, body (once the body section is reached), the start offset
    of the message (once the first call has stored it), and — for a complete message — `bufLen` and `rawOffs`
    (`Buf = buf[0 : bufLen]`, `RawMsg = Buf[rawOffs : rawOffs + rawLen]`) grow by `k` while `rawLen`, state, panic flag do
    not change (`shMsg_init`: every Init object is its own translation; `shMsg_scalars`).

  (2)–(4) PROVED (all inputs, every flag combination, any capacity, no size bound other than the 16-bit limit):
  * `parseHdrLine_shift` (+ `_exact`, `_shiftEntry`, `_resume`), through `smParseBody` (the header-value dispatch, all
    eight typed kinds), `smHlCont` (continuation of a suspended value), `smHlAfterColon`, `smHlName`, `smHlValEnd`,
    `smHlStep` (every state of the loop) and the relational loop theorem `runLoop_shiftR`;
  * `parseHeaders_shift` (loop over lines: stored headers, count, type flags, first-of-type table);
  * `parseSIPMsg_shift` (+ `_exact`, `_ok`, `_init`, `_resume`) through `smParseFLine` (first line, every legitimate
    object), `smMsgHeaders`, `smMsgBody` (all Content-Length / flag cases), `smMsgErr`;
  * `pipeline_second_message`, `pipeline_second_message_ok`, `pipeline_nth_message` (namespace-free, for C06).
  FORM OF THE STATEMENTS. The call on `pre ++ t` at `k + o` with the moved objects returns the returned offset + k, the
  same verdict and the moved objects: EXACTLY after OK / MoreBytes / Empty (ParseHdrLine, ParseHeaders) resp. whenever the
  call does not end in the error state (ParseSIPMsg), and after an error verdict up to the saved restart offset `soffs`
  of the name-addr value that was being parsed (`smHvObs` = `PFromBody.obs` on From / To, `ctObsCur` / `paObsCur` on
  the lists; `smRelHL`, `smRelHb`, `smRelM`): that field is never reported and is stale after an error (see ShiftNA; the
  plain form is false there, a test below exhibits it). The header, the header list, the first line, the body and all
  bookkeeping are moved exactly in every case.
  LEGITIMATE OBJECTS (hypotheses). `HlAll t o (h, hb)` = the panic-freedom invariants `HlSafe` (SafeHdrLine), `hlInv`
  (HdrLineL1) + `HlSh`: outside the initial state the position is ≥ 1, a value being scanned starts at ≥ 1, a complete
  name is not the zero field, and `HvSh`: From / To satisfy `SlEl` (ShiftLists), the typed values lie at positions ≥ 1
  (`CiLoI 1`, `ClLoI 1`, `CsLoI 1` of FieldsLo, `CsPos` of Shift), a list in progress satisfies `CtShift` / `PaShift`.
  `HlsAll` (header list) and `MsgAll` (message: `msgOK2`, `MsgSafe`, not terminated, `FlSh`, `HlSh`) are built the
  same way. They hold of new objects (`HlAll_new`, `HvSh_new`, `HlSh_new`) and of every object produced by Init
  (`MsgAll_init`), are re-established after an OK line (inside `parseHeaders_shift`) and after MoreBytes at the returned
  offset, also on a grown buffer (`parseHdrLine_shiftEntry`, second part of `parseSIPMsg_shift`). For this the lower
  bounds of FieldsLo are extended to MoreBytes exits: `smCi_more`, `smCl_more`, `smClen_more`, `smCs_more`, `smCs_posMore`.
  NOT proved here: the statement for message objects that have already terminated (states Err / NoCLen / Fin, where a
  further call only reports a bug) and for objects returned with an error verdict (no invariant is re-established after
  errors, as in SafeHdrLine); that in a pipeline the result for message `i` equals the result for that message in a
  buffer of its own (needs L1 and flags under which the body is not "the rest of the buffer"); ParseHeaders from a
  suspended pair is covered through `HlsAll`, whose re-establishment after MoreBytes is proved at the message level only.
-/
import Sipsp.Proofs.ShiftLists
import Sipsp.Proofs.SafeMsg
import Sipsp.Proofs.FieldsLo

namespace Sipsp

/-! ### (1) the translations -/

/-- **the header-values object moved by `k`**: every typed value object through its own translation -/
def shHv (k : Nat) (hv : PHdrVals) : PHdrVals :=
  { from_ := shNa k hv.from_, to := shNa k hv.to, callid := shCi k hv.callid, cseq := shCs k hv.cseq,
    clen := shCl k hv.clen, contacts := shCt k hv.contacts, pais := shPa k hv.pais, expires := shCl k hv.expires }

/-- the name of a header: set (and moved) in every state but the initial one; in the final state the zero field
    means "not set" (the empty line that ends the header block) -/
def shHn (k : Nat) (st : HState) (f : PField) : PField :=
  match st with
  | .init | .fin => shO k f
  | _ => shF k f

/-- **a header moved by `k`**: name and value moved when set (value: zero field = not set); type, state and the
    panic flag unchanged -/
def shHdr (k : Nat) (h : Hdr) : Hdr := { h with name := shHn k h.state h.name, val := shO k h.val }

/-- the loop state of ParseHdrLine -/
def shHL (k : Nat) (st : HLσ) : HLσ := (shHdr k st.1, st.2.map (shHv k))

/-- **the header list moved by `k`**: every stored header, the first-of-type shortcuts and the header in progress;
    count and type flags unchanged -/
def shHls (k : Nat) (hl : HdrLst) : HdrLst :=
  { hl with hdrs := hl.hdrs.map (shHdr k), h := hl.h.map (shHdr k), hdr := shHdr k hl.hdr }

theorem shHv_new (k m : Nat) :
    shHv k ({ contacts := { vals := Array.replicate m {} } } : PHdrVals) = { contacts := { vals := Array.replicate m {} } } := by
  unfold shHv
  simp only [shNa_new, shCt_new, shPa_new]
  rfl

theorem shHdr_new (k : Nat) : shHdr k {} = {} := rfl

theorem shHdr_type (k : Nat) (h : Hdr) : (shHdr k h).type = h.type := rfl
theorem shHdr_state (k : Nat) (h : Hdr) : (shHdr k h).state = h.state := rfl
theorem shHdr_pnc (k : Nat) (h : Hdr) : (shHdr k h).pnc = h.pnc := rfl

theorem shHls_new (k m : Nat) : shHls k ({ hdrs := Array.replicate m {} } : HdrLst) = { hdrs := Array.replicate m {} } := by
  unfold shHls
  simp only [Array.map_replicate, shHdr_new]

/-- what a caller can read of the header-values object after an error verdict: everything but the (never reported,
    stale) saved restart offset of the name-addr value that was being parsed -/
def smHvObs (hv : PHdrVals) : PHdrVals :=
  { hv with from_ := hv.from_.obs, to := hv.to.obs, contacts := ctObsCur hv.contacts, pais := paObsCur hv.pais }

def smHLObs (st : HLσ) : HLσ := (st.1, st.2.map smHvObs)

/-- verdicts after which the result is the moved result exactly -/
def smExact (e : Err) : Prop := e = .ok ∨ e = .moreBytes ∨ e = .empty

/-- the state `x` returned with verdict `e` is the moved state `y`: exactly after OK / MoreBytes / Empty, up to the
    stale restart offset otherwise -/
def smRelHL (k : Nat) (e : Err) (x y : HLσ) : Prop := smHLObs x = smHLObs (shHL k y) ∧ (smExact e → x = shHL k y)

theorem smRelHL_refl (k : Nat) (e : Err) (y : HLσ) : smRelHL k e (shHL k y) y := ⟨rfl, fun _ => rfl⟩


/-! ### lower bounds of the typed values survive a MoreBytes suspension

  (FieldsLo proves the lower bounds after OK; the same invariants hold of the object returned with MoreBytes.) -/

/-- what a finishing step must establish: after MoreBytes, the invariant `R` at the returned offset -/
def smMoreT {σ : Type} (R : Nat → σ → Prop) : Nat → Err → σ → Prop := fun n e s => e = .moreBytes → R n s

theorem smCiStep_more (b : Buf) (i lo : Nat) (c : UInt8) (st : PCallIDBody) (hfit : b.size ≤ 65535) (hb : b[i]? = some c)
    (hlo : lo ≤ i) (h : CiLoI lo i st) :
    StepAll2 (fun j s => lo ≤ j ∧ CiLoI lo j s) (smMoreT (CiLoI lo)) (ciStep b i c st) := by
  have hlt := get?_lt hb
  have key : ∀ s1 : PCallIDBody, CiLoI lo i s1 →
      StepAll2 (fun j s => lo ≤ j ∧ CiLoI lo j s) (smMoreT (CiLoI lo)) (lwsStd b i s1 ciEOH id) := by
    intro s1 h1
    exact lwsStd_all2 b i s1 ciEOH id _ _ (by omega) (fun n a1 _ => ⟨by omega, h1.mono a1⟩)
      (fun n _ _ hh => by cases hh) (fun n a1 _ _ => h1.mono a1)
      (fun n crl _ _ _ hh => absurd hh (ciEOH_ne_more s1 i n crl))
  unfold ciStep
  by_cases hl : isLWSch c = true
  · rw [if_pos hl]
    cases hst : st.state <;> simp only
    · exact key _ h
    · refine key _ ⟨(fun hh => by cases hh), fun _ => ?_⟩
      have := h.1 hst
      show lo ≤ (PField.set st.soffs i).offs
      rw [flo_set_offs _ _ (by omega)]; exact this.1
    · exact key _ h
    · exact ⟨by omega, h.mono (by omega)⟩
  · rw [if_neg hl]
    cases hst : st.state <;> simp only
    · exact ⟨by omega, (fun _ => ⟨hlo, by show i ≤ i + 1; omega⟩), (fun hh => by rcases hh with hh | hh <;> cases hh)⟩
    · exact ⟨by omega, h.mono (by omega)⟩
    · exact (fun hh => by cases hh)
    · exact ⟨by omega, h.mono (by omega)⟩

/-- Call-ID: the lower-bound invariant holds again of the object returned with MoreBytes -/
theorem smCi_more (b : Buf) (o lo : Nat) (st : PCallIDBody) (hfit : b.size ≤ 65535) (hlo : lo ≤ o)
    (h : CiLoI lo o st) {o' : Nat} {st' : PCallIDBody} (hr : parseCallIDVal b o st = (o', .moreBytes, st')) :
    CiLoI lo o' st' := by
  unfold parseCallIDVal at hr
  split at hr
  · cases hr
  · have := runLoop_safe2 ciMachine b (fun j s => lo ≤ j ∧ CiLoI lo j s) (smMoreT (CiLoI lo)) ci_progress
      (fun i c s hb hs => smCiStep_more b i lo c s hfit hb hs.1 hs.2) (fun i s hs _ => hs.2) o st ⟨hlo, h⟩
    rw [hr] at this
    exact this rfl

theorem smClStep_more (b : Buf) (i lo : Nat) (c : UInt8) (st : PUIntBody) (hfit : b.size ≤ 65535) (hb : b[i]? = some c)
    (hlo : lo ≤ i) (h : ClLoI lo i st) :
    StepAll2 (fun j s => lo ≤ j ∧ ClLoI lo j s) (smMoreT (ClLoI lo)) (clStep b i c st) := by
  have hlt := get?_lt hb
  have key : ∀ s1 : PUIntBody, ClLoI lo i s1 →
      StepAll2 (fun j s => lo ≤ j ∧ ClLoI lo j s) (smMoreT (ClLoI lo)) (lwsStd b i s1 clEOH id) := by
    intro s1 h1
    exact lwsStd_all2 b i s1 clEOH id _ _ (by omega) (fun n a1 _ => ⟨by omega, h1.mono a1⟩)
      (fun n _ _ hh => by cases hh) (fun n a1 _ _ => h1.mono a1)
      (fun n crl _ _ _ hh => absurd hh (clEOH_ne_more s1 i n crl))
  unfold clStep
  by_cases hl : isLWSch c = true
  · rw [if_pos hl]
    cases hst : st.state <;> simp only
    · exact key _ h
    · refine key _ ⟨(fun hh => by cases hh), fun _ => ?_⟩
      have := h.1 hst
      show lo ≤ (PField.set st.soffs i).offs
      rw [flo_set_offs _ _ (by omega)]; exact this.1
    · exact key _ h
    · exact ⟨by omega, h.mono (by omega)⟩
  · rw [if_neg hl]
    by_cases hd : isDigit c = true
    · rw [if_pos hd]
      cases hst : st.state <;> simp only
      · exact ⟨by omega, (fun _ => ⟨hlo, by show i ≤ i + 1; omega⟩), (fun hh => by rcases hh with hh | hh <;> cases hh)⟩
      · split
        · exact (fun hh => by cases hh)
        · have := h.1 hst
          exact ⟨by omega, (fun _ => ⟨this.1, by show st.soffs ≤ i + 1; omega⟩),
            (fun hh => by rcases hh with hh | hh <;> cases hh)⟩
      · exact (fun hh => by cases hh)
      · exact ⟨by omega, h.mono (by omega)⟩
    · rw [if_neg hd]; exact (fun hh => by cases hh)

/-- Expires: the lower-bound invariant holds again of the object returned with MoreBytes -/
theorem smCl_more (b : Buf) (o lo : Nat) (st : PUIntBody) (hfit : b.size ≤ 65535) (hlo : lo ≤ o)
    (h : ClLoI lo o st) {o' : Nat} {st' : PUIntBody} (hr : parseUIntVal b o st = (o', .moreBytes, st')) :
    ClLoI lo o' st' := by
  unfold parseUIntVal at hr
  split at hr
  · cases hr
  · have := runLoop_safe2 clMachine b (fun j s => lo ≤ j ∧ ClLoI lo j s) (smMoreT (ClLoI lo)) cl_progress
      (fun i c s hb hs => smClStep_more b i lo c s hfit hb hs.1 hs.2) (fun i s hs _ => hs.2) o st ⟨hlo, h⟩
    rw [hr] at this
    exact this rfl

/-- Content-Length: … -/
theorem smClen_more (b : Buf) (o lo : Nat) (st : PUIntBody) (hfit : b.size ≤ 65535) (hlo : lo ≤ o)
    (h : ClLoI lo o st) {o' : Nat} {st' : PUIntBody} (hr : parseCLenVal b o st = (o', .moreBytes, st')) :
    ClLoI lo o' st' := by
  unfold parseCLenVal at hr
  rcases hp : parseUIntVal b o st with ⟨o1, e1, s1⟩
  rw [hp] at hr
  cases e1 <;> simp only at hr
  case ok => split at hr <;> cases hr
  case moreBytes => cases hr; exact smCl_more b o lo st hfit hlo h hp
  all_goals cases hr


theorem smCsStep_more (b : Buf) (i lo : Nat) (c : UInt8) (st : PCSeqBody) (hfit : b.size ≤ 65535) (hb : b[i]? = some c)
    (hlo : lo ≤ i) (h : CsLoI lo i st) :
    StepAll2 (fun j s => lo ≤ j ∧ CsLoI lo j s) (smMoreT (CsLoI lo)) (csStep b i c st) := by
  have hlt := get?_lt hb
  have key : ∀ s1 : PCSeqBody, CsLoI lo i s1 →
      StepAll2 (fun j s => lo ≤ j ∧ CsLoI lo j s) (smMoreT (CsLoI lo)) (lwsStd b i s1 (csEOH b) id) := by
    intro s1 h1
    exact lwsStd_all2 b i s1 (csEOH b) id _ _ (by omega) (fun n a1 _ => ⟨by omega, h1.mono a1⟩)
      (fun n _ _ hh => by cases hh) (fun n a1 _ _ => h1.mono a1)
      (fun n crl _ _ _ hh => absurd hh (csEOH_ne_more b s1 i n crl))
  have hmeth : st.state = .endDigit →
      lo ≤ i + 1 ∧ CsLoI lo (i + 1) { st with state := .foundMethod, soffs := i } := by
    intro hst
    obtain ⟨a1, a2, a3⟩ := h.2.1 hst
    refine ⟨by omega, (fun hh => by cases hh), (fun hh => by cases hh), (fun _ => ⟨a1, ?_, ?_, ?_⟩),
      (fun hh => by rcases hh with hh | hh <;> cases hh)⟩
    · show st.cseq.offs = st.v.offs
      rw [a2]
    · show st.cseq.offs + st.cseq.len ≤ i
      rw [a2]; exact a3
    · show i ≤ i + 1
      omega
  unfold csStep
  by_cases hl : isLWSch c = true
  · rw [if_pos hl]
    cases hst : st.state <;> simp only
    · exact key _ h
    · obtain ⟨a1, a2⟩ := h.1 hst
      have hso : (PField.set st.soffs i).offs = st.soffs := flo_set_offs _ _ (by omega)
      refine key _ ⟨(fun hh => by cases hh), (fun _ => ⟨?_, rfl, ?_⟩), (fun hh => by cases hh),
        (fun hh => by rcases hh with hh | hh <;> cases hh)⟩
      · show lo ≤ (PField.set st.soffs i).offs
        rw [hso]; exact a1
      · exact set_inside st.soffs i i a2 (Nat.le_refl _)
    · exact key _ h
    · obtain ⟨a1, a2, a3, a4⟩ := h.2.2.1 hst
      have hn := csSetMethod_nest lo i st (by omega) a1 a2 a3 a4
      exact key _ ⟨(fun hh => by cases hh), (fun hh => by cases hh), (fun hh => by cases hh),
        (fun _ => ⟨hn.lo, hn.cseqO, hn.order, hn.methE⟩)⟩
    · exact key _ h
    · exact ⟨by omega, h.mono (by omega)⟩
  · rw [if_neg hl]
    by_cases hd : isDigit c = true
    · rw [if_pos hd]
      cases hst : st.state <;> simp only
      · exact ⟨by omega, (fun _ => ⟨hlo, by show i ≤ i + 1; omega⟩), (fun hh => by cases hh), (fun hh => by cases hh),
          (fun hh => by rcases hh with hh | hh <;> cases hh)⟩
      · split
        · exact (fun hh => by cases hh)
        · have := h.1 hst
          exact ⟨by omega, (fun _ => ⟨this.1, by show st.soffs ≤ i + 1; omega⟩), (fun hh => by cases hh),
            (fun hh => by cases hh), (fun hh => by rcases hh with hh | hh <;> cases hh)⟩
      · exact hmeth hst
      · exact ⟨by omega, h.mono (by omega)⟩
      · exact (fun hh => by cases hh)
      · exact ⟨by omega, h.mono (by omega)⟩
    · rw [if_neg hd]
      cases hst : st.state <;> simp only
      · exact (fun hh => by cases hh)
      · exact (fun hh => by cases hh)
      · exact hmeth hst
      · exact ⟨by omega, h.mono (by omega)⟩
      · exact (fun hh => by cases hh)
      · exact ⟨by omega, h.mono (by omega)⟩

/-- CSeq: the lower-bound / nesting invariant holds again of the object returned with MoreBytes -/
theorem smCs_more (b : Buf) (o lo : Nat) (st : PCSeqBody) (hfit : b.size ≤ 65535) (hlo : lo ≤ o)
    (h : CsLoI lo o st) {o' : Nat} {st' : PCSeqBody} (hr : parseCSeqVal b o st = (o', .moreBytes, st')) :
    CsLoI lo o' st' := by
  unfold parseCSeqVal at hr
  split at hr
  · cases hr
  · have := runLoop_safe2 csMachine b (fun j s => lo ≤ j ∧ CsLoI lo j s) (smMoreT (CsLoI lo)) cs_progress
      (fun i c s hb hs => smCsStep_more b i lo c s hfit hb hs.1 hs.2) (fun i s hs _ => hs.2) o st ⟨hlo, h⟩
    rw [hr] at this
    exact this rfl

/-- a MoreBytes exit of a CSeq step keeps the position invariant of Shift -/
theorem smCsStep_posMore (t : Buf) (i : Nat) (c : UInt8) (st : PCSeqBody) (hP : CsPos i st)
    {o : Nat} {st' : PCSeqBody} (hs : csStep t i c st = .done o .moreBytes st') : CsPos o st' := by
  have key : ∀ s1 : PCSeqBody, CsPos i s1 → lwsStd t i s1 (csEOH t) id = .done o .moreBytes st' → CsPos o st' := by
    intro s1 h1 hq
    have e1 := lwsStd_more_state t i s1 (csEOH t) id (fun s j n crl => csEOH_ne_more t s j n crl) hq
    have e2 := lwsStd_more_ge t i s1 (csEOH t) id (fun s j n crl => csEOH_ne_more t s j n crl) hq
    subst e1
    exact ⟨fun hh => by have := h1.1 hh; omega, h1.2⟩
  unfold csStep at hs
  by_cases hl : isLWSch c = true
  · simp only [hl, ↓reduceIte] at hs
    cases hst : st.state <;> simp only [hst] at hs
    case foundDigit =>
      refine key _ ⟨fun _ => hP.1 (by rw [hst]; decide), ?_⟩ hs
      intro hh; rcases hh with hh | hh <;> cases hh
    case foundMethod =>
      exact key { csSetMethod st i with state := .fend }
        ⟨fun _ => hP.1 (by rw [hst]; decide), fun _ => by show 1 ≤ st.soffs; exact hP.2 (Or.inl hst)⟩ hs
    case fin => cases hs
    all_goals exact key st hP hs
  · simp only [hl, Bool.false_eq_true, ↓reduceIte] at hs
    by_cases hd : isDigit c = true
    · simp only [hd, ↓reduceIte] at hs
      cases hst : st.state <;> simp only [hst] at hs
      case foundDigit => split at hs <;> cases hs
      all_goals cases hs
    · simp only [hd, Bool.false_eq_true, ↓reduceIte] at hs
      cases hst : st.state <;> simp only [hst] at hs <;> cases hs

/-- CSeq: the position invariant `CsPos` holds again of the object returned with MoreBytes -/
theorem smCs_posMore (t : Buf) (o : Nat) (st : PCSeqBody) (hfit : t.size ≤ 65535) (hS : CsSafe t o st) (hP : CsPos o st)
    {o' : Nat} {st' : PCSeqBody} (hr : parseCSeqVal t o st = (o', .moreBytes, st')) : CsPos o' st' := by
  unfold parseCSeqVal at hr
  split at hr
  · cases hr
  · have := runLoop_inv csMachine t (fun i s => CsSafe t i s ∧ CsPos i s)
      (fun r => r.2.1 = .moreBytes → CsPos r.1 r.2.2)
      (by
        intro i c s i' s' hb hI hs
        refine ⟨fun _ => ?_, fun _ hh => by cases hh⟩
        have h1 := csStep_safe t i c s hfit hb hI.1
        change StepAll2 _ _ (csStep t i c s) at h1
        change csStep t i c s = _ at hs
        rw [hs] at h1
        exact ⟨h1, csStep_pos t i c s hb hI.1 hI.2 hs⟩)
      (by
        intro i c s o1 e1 s1 hb hI hs hm
        change csStep t i c s = _ at hs
        simp only at hm
        subst hm
        exact smCsStep_posMore t i c s hI.2 hs)
      (by intro i s _ hI _; exact hI.2)
      o st ⟨hS, hP⟩
    rw [hr] at this
    exact this rfl


/-! ### (2) the typed value calls inside a header line -/

theorem smSlEl_fin {t : Buf} {n : Nat} {f : PFromBody} (hf : f.state = .fin) (hout : NaOut t n f)
    (hnz : 1 ≤ f.v.offs + f.v.len) : SlEl t n 0 f :=
  ⟨hout.ho, Or.inl ⟨hf, hout⟩, fun hh => absurd hf hh, fun _ => hnz, Nat.zero_le _, Or.inr (Nat.zero_le _)⟩

theorem smSlEl_mono {t : Buf} {o o' : Nat} {pf : PFromBody} (h : SlEl t o 0 pf) (h1 : o ≤ o') (h2 : o' ≤ t.size) :
    SlEl t o' 0 pf :=
  ⟨h2, h.entry.mono h1 h2, fun hf => (h.pos hf).mono h1, h.nz, Nat.zero_le _, h.vlo⟩

/-- one name-addr value (From / To) -/
theorem smNa_call (h : Nat) (pre t : Buf) (o : Nat) (pf : PFromBody) (hfit : pre.size + t.size ≤ 65535)
    (hel : SlEl t o 0 pf) {n : Nat} {e : Err} {f : PFromBody} (hp : parseNameAddrPVal h t o pf = (n, e, f)) :
    ∃ f', parseNameAddrPVal h (pre ++ t) (pre.size + o) (shNa pre.size pf) = (pre.size + n, e, f') ∧
      f'.obs = (shNa pre.size f).obs ∧ (smExact e → f' = shNa pre.size f) ∧
      (e = .ok → f'.v = shO pre.size f.v) ∧ ((e = .ok ∨ e = .moreBytes) → SlEl t n 0 f ∧ o ≤ n ∧ n ≤ t.size) := by
  have one := sl_one h t o 0 pf (by omega) hel hp
  have hne := parseNameAddrPVal_ne_empty h t o pf
  rw [hp] at hne
  have hs := parseNameAddrPVal_shift h pre t o pf hfit hel.shiftEntry
  rw [hp] at hs
  by_cases hw : naWrote e = true
  · rw [sl_shResNa_wrote _ _ _ _ _ hw] at hs
    refine ⟨_, hs, rfl, fun _ => rfl, fun he => ?_, fun he => ?_⟩
    · subst he
      obtain ⟨f1, f2, f3, f4⟩ := one.fin (Or.inl rfl)
      rw [sl_shNa_fin_v _ _ f1, sl_shO_of_pos _ _ f4]
    · rcases he with rfl | rfl
      · obtain ⟨f1, f2, f3, f4⟩ := one.fin (Or.inl rfl)
        exact ⟨smSlEl_fin f1 one.out f4, f2, one.out.ho⟩
      · obtain ⟨m1, m2⟩ := one.more rfl
        exact ⟨m1, m2, one.out.ho⟩
  · have hw' : naWrote e = false := by simpa using hw
    rw [sl_shResNa_stale _ _ _ _ _ hw'] at hs
    refine ⟨_, hs, rfl, fun hx => ?_, fun he => ?_, fun he => ?_⟩
    · rcases hx with rfl | rfl | rfl
      · cases hw'
      · cases hw'
      · exact absurd rfl hne
    · subst he; cases hw'
    · rcases he with rfl | rfl <;> cases hw'

/-- the Call-ID value -/
theorem smCi_call (pre t : Buf) (o : Nat) (st : PCallIDBody) (hfit : pre.size + t.size ≤ 65535) (h1 : 1 ≤ o)
    (hS : CiSafe t o st) (hL : CiLoI 1 o st) {n : Nat} {e : Err} {f : PCallIDBody}
    (hp : parseCallIDVal t o st = (n, e, f)) :
    parseCallIDVal (pre ++ t) (pre.size + o) (shCi pre.size st) = (pre.size + n, e, shCi pre.size f) ∧
      (e = .ok → (shCi pre.size f).callID = shO pre.size f.callID) ∧
      ((e = .ok ∨ e = .moreBytes) → CiLoI 1 n f) ∧ o ≤ n ∧ n ≤ t.size := by
  have hrg := parseCallIDVal_range t o st hS.hi
  rw [hp] at hrg
  refine ⟨by rw [parseCallIDVal_shift pre t o st hS hfit, hp]; rfl, fun he => ?_, fun he => ?_, hrg.1, hrg.2⟩
  · subst he
    have hf := (parseCallIDVal_post t o st hS.hi hp).2.2.1
    have hlo := parseCallIDVal_lo t o 1 st (by omega) h1 hL hp
    rw [sl_shO_of_pos _ _ (by omega)]
    simp [shCi, hf]
  · rcases he with rfl | rfl
    · have hf := (parseCallIDVal_post t o st hS.hi hp).2.2.1
      have hlo := parseCallIDVal_lo t o 1 st (by omega) h1 hL hp
      exact ⟨(fun hh => by rw [hf] at hh; cases hh), fun _ => hlo⟩
    · exact smCi_more t o 1 st (by omega) h1 hL hp

/-- the Expires value -/
theorem smCl_call (pre t : Buf) (o : Nat) (st : PUIntBody) (hfit : pre.size + t.size ≤ 65535) (h1 : 1 ≤ o)
    (hS : ClSafe t o st) (hL : ClLoI 1 o st) {n : Nat} {e : Err} {f : PUIntBody}
    (hp : parseUIntVal t o st = (n, e, f)) :
    parseUIntVal (pre ++ t) (pre.size + o) (shCl pre.size st) = (pre.size + n, e, shCl pre.size f) ∧
      (e = .ok → (shCl pre.size f).sVal = shO pre.size f.sVal) ∧
      ((e = .ok ∨ e = .moreBytes) → ClLoI 1 n f) ∧ o ≤ n ∧ n ≤ t.size := by
  have hrg := parseUIntVal_range t o st hS.hi
  rw [hp] at hrg
  refine ⟨by rw [parseUIntVal_shift pre t o st hS hfit, hp]; rfl, fun he => ?_, fun he => ?_, hrg.1, hrg.2⟩
  · subst he
    have hf := (parseUIntVal_post t o st hS.hi hp).2.2.1
    have hlo := parseUIntVal_lo t o 1 st (by omega) h1 hL hp
    rw [sl_shO_of_pos _ _ (by omega)]
    simp [shCl, hf]
  · rcases he with rfl | rfl
    · have hf := (parseUIntVal_post t o st hS.hi hp).2.2.1
      have hlo := parseUIntVal_lo t o 1 st (by omega) h1 hL hp
      exact ⟨(fun hh => by rw [hf] at hh; cases hh), fun _ => hlo⟩
    · exact smCl_more t o 1 st (by omega) h1 hL hp

/-- the Content-Length value -/
theorem smClen_call (pre t : Buf) (o : Nat) (st : PUIntBody) (hfit : pre.size + t.size ≤ 65535) (h1 : 1 ≤ o)
    (hS : ClSafe t o st) (hL : ClLoI 1 o st) {n : Nat} {e : Err} {f : PUIntBody}
    (hp : parseCLenVal t o st = (n, e, f)) :
    parseCLenVal (pre ++ t) (pre.size + o) (shCl pre.size st) = (pre.size + n, e, shCl pre.size f) ∧
      (e = .ok → (shCl pre.size f).sVal = shO pre.size f.sVal) ∧
      ((e = .ok ∨ e = .moreBytes) → ClLoI 1 n f ∧ o ≤ n ∧ n ≤ t.size) := by
  refine ⟨by rw [parseCLenVal_shift pre t o st hS hfit, hp]; rfl, fun he => ?_, fun he => ?_⟩
  · subst he
    have hf := (parseCLenVal_post t o st hS.hi hp).2.2.1
    have hlo := parseCLenVal_lo t o 1 st (by omega) h1 hL hp
    rw [sl_shO_of_pos _ _ (by omega)]
    simp [shCl, hf]
  · rcases he with rfl | rfl
    · have hq := parseCLenVal_post t o st hS.hi hp
      have hlo := parseCLenVal_lo t o 1 st (by omega) h1 hL hp
      exact ⟨⟨(fun hh => by rw [hq.2.2.1] at hh; cases hh), fun _ => hlo⟩, hq.1, hq.2.1⟩
    · exact ⟨smClen_more t o 1 st (by omega) h1 hL hp, parseCLenVal_more_range t o st hS.hi hp⟩

/-- the CSeq value -/
theorem smCs_call (pre t : Buf) (o : Nat) (st : PCSeqBody) (hfit : pre.size + t.size ≤ 65535) (h1 : 1 ≤ o)
    (hS : CsSafe t o st) (hP : CsPos o st) (hL : CsLoI 1 o st) {n : Nat} {e : Err} {f : PCSeqBody}
    (hp : parseCSeqVal t o st = (n, e, f)) :
    parseCSeqVal (pre ++ t) (pre.size + o) (shCs pre.size st) = (pre.size + n, e, shCs pre.size f) ∧
      (e = .ok → (shCs pre.size f).v = shO pre.size f.v) ∧
      ((e = .ok ∨ e = .moreBytes) → CsPos n f ∧ CsLoI 1 n f ∧ o ≤ n ∧ n ≤ t.size) := by
  refine ⟨by rw [parseCSeqVal_shift pre t o st hS hP hfit, hp]; rfl, fun he => ?_, fun he => ?_⟩
  · subst he
    have hf := (parseCSeqVal_post t o st hS.hi hp).2.2.1
    have hlo := (parseCSeqVal_lo t o 1 st (by omega) h1 hL hp).lo
    rw [sl_shO_of_pos _ _ (by omega)]
    simp [shCs, hf]
  · rcases he with rfl | rfl
    · have hq := parseCSeqVal_post t o st hS.hi hp
      have hn := parseCSeqVal_lo t o 1 st (by omega) h1 hL hp
      refine ⟨⟨fun _ => by omega, fun hh => ?_⟩, ⟨fun hh => ?_, fun hh => ?_, fun hh => ?_, fun _ => hn⟩, hq.1, hq.2.1⟩
      · rcases hh with hh | hh <;> (rw [hq.2.2.1] at hh; cases hh)
      · rw [hq.2.2.1] at hh; cases hh
      · rw [hq.2.2.1] at hh; cases hh
      · rw [hq.2.2.1] at hh; cases hh
    · have hrg := parseCSeqVal_more_range t o st hS.csOK hp
      exact ⟨smCs_posMore t o st (by omega) hS hP hp, smCs_more t o 1 st (by omega) h1 hL hp, hrg.1, hrg.2⟩

/-- the Contact value list of a new header line (the object is idle: between header lines) -/
theorem smCt_start (pre t : Buf) (o : Nat) (c : PContacts) (m : Nat) (hfit : pre.size + t.size ≤ 65535)
    (ho : o ≤ t.size) (hI : CtIdle t c) :
    slCtRes pre.size
        (parseAllContactValues (pre ++ t) (pre.size + o) { shCt pre.size c with hNo := m, lastHVal := {} })
        (parseAllContactValues t o { c with hNo := m, lastHVal := {} }) ∧
      ((parseAllContactValues t o { c with hNo := m, lastHVal := {} }).2.1 = .moreBytes →
        CtShift t (parseAllContactValues t o { c with hNo := m, lastHVal := {} }).1
          (parseAllContactValues t o { c with hNo := m, lastHVal := {} }).2.2) := by
  have e : ({ shCt pre.size c with hNo := m, lastHVal := {} } : PContacts) =
      shCt pre.size { c with hNo := m, lastHVal := {} } := rfl
  rw [e, parseAllContactValues_eq_wrap, parseAllContactValues_eq_wrap, shCt_wrap, bump_wrap]
  exact contactsLoop_shift' pre t o _ hfit (CtShift.start hI o ho m)

/-- the P-Asserted-Identity value list of a new header line -/
theorem smPa_start (pre t : Buf) (o : Nat) (c : PPAIs) (m : Nat) (hfit : pre.size + t.size ≤ 65535)
    (ho : o ≤ t.size) (hI : PaIdle t c) :
    slPaRes pre.size
        (parseAllPAIValues (pre ++ t) (pre.size + o) { shPa pre.size c with hNo := m, lastHVal := {} })
        (parseAllPAIValues t o { c with hNo := m, lastHVal := {} }) ∧
      ((parseAllPAIValues t o { c with hNo := m, lastHVal := {} }).2.1 = .moreBytes →
        PaShift t (parseAllPAIValues t o { c with hNo := m, lastHVal := {} }).1
          (parseAllPAIValues t o { c with hNo := m, lastHVal := {} }).2.2) := by
  have e : ({ shPa pre.size c with hNo := m, lastHVal := {} } : PPAIs) =
      shPa pre.size { c with hNo := m, lastHVal := {} } := rfl
  rw [e, parseAllPAIValues_eq_wrap, parseAllPAIValues_eq_wrap, shPa_wrap, paBump_wrap]
  exact paisLoop_shift' pre t o _ hfit (PaShift.start hI o ho m)


/-! ### legitimate header values for the shift theorems -/

/-- **what the shift theorems need of the header-values object** at offset `o`, in addition to the panic-freedom
    invariant `HvSafe` (which bounds every position from above): the name-addr objects satisfy the entry conditions of
    ShiftNA / ShiftLists (`SlEl`: set positions are not zero, a completed value is not the zero field), the typed
    values lie at positions `≥ 1` (`CiLoI 1` …: a header value never starts at buffer offset 0, so "zero field = not
    set" is unambiguous for the value of the header), and a value list in progress is legitimate (`CtShift`) -/
structure HvSh (t : Buf) (o : Nat) (st : HState) (hv : PHdrVals) : Prop where
  from_ : SlEl t o 0 hv.from_
  to : SlEl t o 0 hv.to
  callid : CiLoI 1 o hv.callid
  cseqP : CsPos o hv.cseq
  cseqL : CsLoI 1 o hv.cseq
  clen : ClLoI 1 o hv.clen
  expires : ClLoI 1 o hv.expires
  ct : st = .hContact → CtShift t o hv.contacts
  pa : st = .hPAI → PaShift t o hv.pais

theorem smCsPos_mono {o o' : Nat} {st : PCSeqBody} (h : CsPos o st) (h1 : o ≤ o') : CsPos o' st :=
  ⟨fun hh => by have := h.1 hh; omega, h.2⟩

/-- moving on, in a header state that is not "inside a value list" -/
theorem HvSh.monoNV {t : Buf} {o o' : Nat} {st st' : HState} {hv : PHdrVals} (h : HvSh t o st hv) (h1 : o ≤ o')
    (h2 : o' ≤ t.size) (n1 : st' ≠ .hContact) (n2 : st' ≠ .hPAI) : HvSh t o' st' hv :=
  ⟨smSlEl_mono h.from_ h1 h2, smSlEl_mono h.to h1 h2, h.callid.mono h1, smCsPos_mono h.cseqP h1, h.cseqL.mono h1,
   h.clen.mono h1, h.expires.mono h1, fun hh => absurd hh n1, fun hh => absurd hh n2⟩

theorem smCsPos_new (o : Nat) : CsPos o {} :=
  ⟨fun hh => absurd rfl hh, fun hh => by rcases hh with hh | hh <;> cases hh⟩

/-- a new values object (any contact capacity) is legitimate at any offset, in any header state -/
theorem HvSh_new (t : Buf) (o : Nat) (ho : o ≤ t.size) (st : HState) (m : Nat) :
    HvSh t o st ({ contacts := { vals := Array.replicate m {} } } : PHdrVals) :=
  ⟨SlEl_new t o 0 ho (Nat.zero_le _), SlEl_new t o 0 ho (Nat.zero_le _), CiLoI_init 1 o _ rfl, smCsPos_new o,
   CsLoI_init 1 o _ rfl, ClLoI_init 1 o _ rfl, ClLoI_init 1 o _ rfl, fun _ => CtShift_new t o ho m,
   fun _ => PaShift_new t o ho⟩

/-! ### the header-value dispatch -/

theorem shHv_from (k : Nat) (hv : PHdrVals) : (shHv k hv).from_ = shNa k hv.from_ := rfl
theorem shHv_to (k : Nat) (hv : PHdrVals) : (shHv k hv).to = shNa k hv.to := rfl
theorem shHv_callid (k : Nat) (hv : PHdrVals) : (shHv k hv).callid = shCi k hv.callid := rfl
theorem shHv_cseq (k : Nat) (hv : PHdrVals) : (shHv k hv).cseq = shCs k hv.cseq := rfl
theorem shHv_clen (k : Nat) (hv : PHdrVals) : (shHv k hv).clen = shCl k hv.clen := rfl
theorem shHv_contacts (k : Nat) (hv : PHdrVals) : (shHv k hv).contacts = shCt k hv.contacts := rfl
theorem shHv_pais (k : Nat) (hv : PHdrVals) : (shHv k hv).pais = shPa k hv.pais := rfl
theorem shHv_expires (k : Nat) (hv : PHdrVals) : (shHv k hv).expires = shCl k hv.expires := rfl

theorem smNa_parsed (k : Nat) (pf : PFromBody) : (shNa k pf).parsed = pf.parsed := rfl
theorem smCi_parsed (k : Nat) (st : PCallIDBody) : (shCi k st).parsed = st.parsed := by
  unfold PCallIDBody.parsed; rw [shCi_state]
theorem smCl_parsed (k : Nat) (st : PUIntBody) : (shCl k st).parsed = st.parsed := by
  unfold PUIntBody.parsed; rw [shCl_state]
theorem smCs_parsed (k : Nat) (st : PCSeqBody) : (shCs k st).parsed = st.parsed := by
  unfold PCSeqBody.parsed; rw [shCs_state]

/-- the header returned by the dispatch: state and value updated -/
theorem smHdr_val (k : Nat) (h : Hdr) (S : HState) (e : Err) (V V' : PField)
    (hs : shHn k S h.name = shHn k h.state h.name) (hV : e = .ok → V' = shO k V) :
    ({ shHdr k h with state := S, val := if e == .ok then V' else (shHdr k h).val } : Hdr) =
      shHdr k { h with state := S, val := if e == .ok then V else h.val } := by
  unfold shHdr
  simp only [hs]
  by_cases he : e = .ok
  · subst he; simp only [hV rfl, beq_self_eq_true, ↓reduceIte]
  · have : (e == Err.ok) = false := by simpa using he
    simp only [this, Bool.false_eq_true, ↓reduceIte]

theorem smExact_ok_or {e : Err} (h : smExact e) (hne : e ≠ .empty) : e = .ok ∨ e = .moreBytes := by
  rcases h with h | h | h
  · exact Or.inl h
  · exact Or.inr h
  · exact absurd h hne

theorem smParseBody (pre t : Buf) (o : Nat) (h : Hdr) (hv : PHdrVals) (hfit : pre.size + t.size ≤ 65535) (h1 : 1 ≤ o)
    (ho : o ≤ t.size) (hst : h.state = .bodyStart) (hok : hvOK t o hv) (hS : HvSafe t o .bodyStart hv)
    (hX : HvSh t o .bodyStart hv) {n : Nat} {e : Err} {h2 : Hdr} {hb2 : Option PHdrVals}
    (hr : parseBody t o h (some hv) = (n, e, h2, hb2)) :
    ∃ hv2 hv2', hb2 = some hv2 ∧
      parseBody (pre ++ t) (pre.size + o) (shHdr pre.size h) (some (shHv pre.size hv)) =
        (pre.size + n, e, shHdr pre.size h2, some hv2') ∧
      smHvObs hv2' = smHvObs (shHv pre.size hv2) ∧ (smExact e → hv2' = shHv pre.size hv2) ∧
      (e = .ok → HvSh t n .fin hv2) ∧ (e = .moreBytes → HvSh t n h2.state hv2) := by
  have hn1 : HState.fin ≠ .hContact := by decide
  have hn2 : HState.fin ≠ .hPAI := by decide
  have hrange : (e = .ok ∨ e = .moreBytes) → o ≤ n ∧ n ≤ t.size := by
    intro he
    rcases he with rfl | rfl
    · have := parseBody_post t o h (some hv) hok ho hr; exact ⟨this.1, this.2.1⟩
    · have := parseBody_restart t #[] o h (some hv) ho hok hr; exact ⟨this.2.2.1, this.2.2.2.1⟩
  have hsn : ∀ S : HState, S ≠ .init → S ≠ .fin → shHn pre.size S h.name = shHn pre.size h.state h.name := by
    intro S s1 s2
    rw [hst]
    cases S <;> first | rfl | exact absurd rfl s1 | exact absurd rfl s2
  unfold parseBody parseFromVal at hr ⊢
  simp only [shHdr_type, shHv_from, shHv_to, shHv_callid, shHv_cseq, shHv_clen, shHv_contacts, shHv_pais,
    shHv_expires, smNa_parsed, smCi_parsed, smCl_parsed, smCs_parsed] at hr ⊢
  have hskip : ∀ {n : Nat} {e : Err} {h2 : Hdr} {hb2 : Option PHdrVals}, (o, Err.ok, h, some hv) = (n, e, h2, hb2) →
      ∃ hv2 hv2', hb2 = some hv2 ∧
        (pre.size + o, Err.ok, shHdr pre.size h, some (shHv pre.size hv)) = (pre.size + n, e, shHdr pre.size h2, some hv2') ∧
        smHvObs hv2' = smHvObs (shHv pre.size hv2) ∧ (smExact e → hv2' = shHv pre.size hv2) ∧
        (e = .ok → HvSh t n .fin hv2) ∧ (e = .moreBytes → HvSh t n h2.state hv2) := by
    intro n e h2 hb2 hh
    simp only [Prod.mk.injEq] at hh
    obtain ⟨rfl, rfl, rfl, rfl⟩ := hh
    exact ⟨hv, _, rfl, rfl, rfl, fun _ => rfl, fun _ => hX.monoNV (Nat.le_refl _) ho hn1 hn2, fun hh => by cases hh⟩
  by_cases h_from_ : (h.type == HdrFrom) = true
  · simp only [h_from_, ↓reduceIte] at hr ⊢
    by_cases hp : (!hv.from_.parsed) = true
    · simp only [hp, ↓reduceIte] at hr ⊢
      rcases hq : parseNameAddrPVal HdrFrom t o hv.from_ with ⟨n1, e1, f1⟩
      rw [hq] at hr; simp only [Prod.mk.injEq] at hr
      obtain ⟨rfl, rfl, rfl, rfl⟩ := hr
      obtain ⟨f', c1, c2, c3, c4, c5⟩ := smNa_call HdrFrom pre t o hv.from_ hfit hX.from_ hq
      simp only [c1]
      refine ⟨_, { shHv pre.size hv with from_ := f' }, rfl, ?_, ?_, ?_, ?_, ?_⟩
      · exact Prod.ext rfl (Prod.ext rfl (Prod.ext
          (smHdr_val pre.size h .hFrom e1 f1.v f'.v (hsn _ (by decide) (by decide)) c4) rfl))
      · unfold smHvObs shHv; simp only [c2]
      · intro hx; rw [c3 hx]; rfl
      · intro he
        obtain ⟨d1, d2, d3⟩ := c5 (Or.inl he)
        have hm := hX.monoNV d2 d3 hn1 hn2
        exact ⟨d1, hm.to, hm.callid, hm.cseqP, hm.cseqL, hm.clen, hm.expires, hm.ct, hm.pa⟩
      · intro he
        obtain ⟨d1, d2, d3⟩ := c5 (Or.inr he)
        have hm := hX.monoNV (st' := .hFrom) d2 d3 (by decide) (by decide)
        exact ⟨d1, hm.to, hm.callid, hm.cseqP, hm.cseqL, hm.clen, hm.expires, hm.ct, hm.pa⟩
    · simp only [hp, Bool.false_eq_true, ↓reduceIte] at hr ⊢
      exact hskip hr
  simp only [h_from_, Bool.false_eq_true, ↓reduceIte] at hr ⊢

  by_cases h_to : (h.type == HdrTo) = true
  · simp only [h_to, ↓reduceIte] at hr ⊢
    by_cases hp : (!hv.to.parsed) = true
    · simp only [hp, ↓reduceIte] at hr ⊢
      rcases hq : parseNameAddrPVal HdrTo t o hv.to with ⟨n1, e1, f1⟩
      rw [hq] at hr; simp only [Prod.mk.injEq] at hr
      obtain ⟨rfl, rfl, rfl, rfl⟩ := hr
      obtain ⟨f', c1, c2, c3, c4, c5⟩ := smNa_call HdrTo pre t o hv.to hfit hX.to hq
      simp only [c1]
      refine ⟨_, { shHv pre.size hv with to := f' }, rfl, ?_, ?_, ?_, ?_, ?_⟩
      · exact Prod.ext rfl (Prod.ext rfl (Prod.ext
          (smHdr_val pre.size h .hTo e1 f1.v f'.v (hsn _ (by decide) (by decide)) c4) rfl))
      · unfold smHvObs shHv; simp only [c2]
      · intro hx; rw [c3 hx]; rfl
      · intro he
        obtain ⟨d1, d2, d3⟩ := c5 (Or.inl he)
        have hm := hX.monoNV d2 d3 hn1 hn2
        exact ⟨hm.from_, d1, hm.callid, hm.cseqP, hm.cseqL, hm.clen, hm.expires, hm.ct, hm.pa⟩
      · intro he
        obtain ⟨d1, d2, d3⟩ := c5 (Or.inr he)
        have hm := hX.monoNV (st' := .hTo) d2 d3 (by decide) (by decide)
        exact ⟨hm.from_, d1, hm.callid, hm.cseqP, hm.cseqL, hm.clen, hm.expires, hm.ct, hm.pa⟩
    · simp only [hp, Bool.false_eq_true, ↓reduceIte] at hr ⊢
      exact hskip hr
  simp only [h_to, Bool.false_eq_true, ↓reduceIte] at hr ⊢
  by_cases h_callid : (h.type == HdrCallID) = true
  · simp only [h_callid, ↓reduceIte] at hr ⊢
    by_cases hp : (!hv.callid.parsed) = true
    · simp only [hp, ↓reduceIte] at hr ⊢
      rcases hq : parseCallIDVal t o hv.callid with ⟨n1, e1, f1⟩
      rw [hq] at hr; simp only [Prod.mk.injEq] at hr
      obtain ⟨rfl, rfl, rfl, rfl⟩ := hr
      obtain ⟨c1, c4, c5, _, _⟩ := smCi_call pre t o hv.callid hfit h1 hS.callid hX.callid hq
      simp only [c1]
      refine ⟨_, shHv pre.size { hv with callid := f1 }, rfl, ?_, rfl, fun _ => rfl, ?_, ?_⟩
      · exact Prod.ext rfl (Prod.ext rfl (Prod.ext
          (smHdr_val pre.size h .hCallID e1 f1.callID _ (hsn _ (by decide) (by decide)) c4) rfl))
      · intro he
        obtain ⟨d2, d3⟩ := hrange (Or.inl he)
        have hm := hX.monoNV d2 d3 hn1 hn2
        exact ⟨hm.from_, hm.to, c5 (Or.inl he), hm.cseqP, hm.cseqL, hm.clen, hm.expires, hm.ct, hm.pa⟩
      · intro he
        obtain ⟨d2, d3⟩ := hrange (Or.inr he)
        have hm := hX.monoNV (st' := .hCallID) d2 d3 (by decide) (by decide)
        exact ⟨hm.from_, hm.to, c5 (Or.inr he), hm.cseqP, hm.cseqL, hm.clen, hm.expires, hm.ct, hm.pa⟩
    · simp only [hp, Bool.false_eq_true, ↓reduceIte] at hr ⊢
      exact hskip hr
  simp only [h_callid, Bool.false_eq_true, ↓reduceIte] at hr ⊢
  by_cases h_cseq : (h.type == HdrCSeq) = true
  · simp only [h_cseq, ↓reduceIte] at hr ⊢
    by_cases hp : (!hv.cseq.parsed) = true
    · simp only [hp, ↓reduceIte] at hr ⊢
      rcases hq : parseCSeqVal t o hv.cseq with ⟨n1, e1, f1⟩
      rw [hq] at hr; simp only [Prod.mk.injEq] at hr
      obtain ⟨rfl, rfl, rfl, rfl⟩ := hr
      obtain ⟨c1, c4, c5⟩ := smCs_call pre t o hv.cseq hfit h1 hS.cseq hX.cseqP hX.cseqL hq
      simp only [c1]
      refine ⟨_, shHv pre.size { hv with cseq := f1 }, rfl, ?_, rfl, fun _ => rfl, ?_, ?_⟩
      · exact Prod.ext rfl (Prod.ext rfl (Prod.ext
          (smHdr_val pre.size h .hCSeq e1 f1.v _ (hsn _ (by decide) (by decide)) c4) rfl))
      · intro he
        obtain ⟨d0, d1, d2, d3⟩ := c5 (Or.inl he)
        have hm := hX.monoNV d2 d3 hn1 hn2
        exact ⟨hm.from_, hm.to, hm.callid, d0, d1, hm.clen, hm.expires, hm.ct, hm.pa⟩
      · intro he
        obtain ⟨d0, d1, d2, d3⟩ := c5 (Or.inr he)
        have hm := hX.monoNV (st' := .hCSeq) d2 d3 (by decide) (by decide)
        exact ⟨hm.from_, hm.to, hm.callid, d0, d1, hm.clen, hm.expires, hm.ct, hm.pa⟩
    · simp only [hp, Bool.false_eq_true, ↓reduceIte] at hr ⊢
      exact hskip hr
  simp only [h_cseq, Bool.false_eq_true, ↓reduceIte] at hr ⊢
  by_cases h_clen : (h.type == HdrCLen) = true
  · simp only [h_clen, ↓reduceIte] at hr ⊢
    by_cases hp : (!hv.clen.parsed) = true
    · simp only [hp, ↓reduceIte] at hr ⊢
      rcases hq : parseCLenVal t o hv.clen with ⟨n1, e1, f1⟩
      rw [hq] at hr; simp only [Prod.mk.injEq] at hr
      obtain ⟨rfl, rfl, rfl, rfl⟩ := hr
      obtain ⟨c1, c4, c5⟩ := smClen_call pre t o hv.clen hfit h1 hS.clen hX.clen hq
      simp only [c1]
      refine ⟨_, shHv pre.size { hv with clen := f1 }, rfl, ?_, rfl, fun _ => rfl, ?_, ?_⟩
      · exact Prod.ext rfl (Prod.ext rfl (Prod.ext
          (smHdr_val pre.size h .hCLen e1 f1.sVal _ (hsn _ (by decide) (by decide)) c4) rfl))
      · intro he
        obtain ⟨d1, d2, d3⟩ := c5 (Or.inl he)
        have hm := hX.monoNV d2 d3 hn1 hn2
        exact ⟨hm.from_, hm.to, hm.callid, hm.cseqP, hm.cseqL, d1, hm.expires, hm.ct, hm.pa⟩
      · intro he
        obtain ⟨d1, d2, d3⟩ := c5 (Or.inr he)
        have hm := hX.monoNV (st' := .hCLen) d2 d3 (by decide) (by decide)
        exact ⟨hm.from_, hm.to, hm.callid, hm.cseqP, hm.cseqL, d1, hm.expires, hm.ct, hm.pa⟩
    · simp only [hp, Bool.false_eq_true, ↓reduceIte] at hr ⊢
      exact hskip hr
  simp only [h_clen, Bool.false_eq_true, ↓reduceIte] at hr ⊢
  by_cases h_contacts : (h.type == HdrContact) = true
  · simp only [h_contacts, ↓reduceIte] at hr ⊢
    have hc0 : (if h.state != .hContact then { hv.contacts with hNo := hv.contacts.hNo + 1, lastHVal := {} } else hv.contacts) =
        { hv.contacts with hNo := hv.contacts.hNo + 1, lastHVal := {} } := by rw [hst]; rfl
    have hc0' : (if (shHdr pre.size h).state != .hContact then
          { shCt pre.size hv.contacts with hNo := (shCt pre.size hv.contacts).hNo + 1, lastHVal := {} }
        else shCt pre.size hv.contacts) =
        { shCt pre.size hv.contacts with hNo := hv.contacts.hNo + 1, lastHVal := {} } := by
      show (if h.state != .hContact then _ else _) = _
      rw [hst]; rfl
    rw [hc0] at hr
    simp only [hc0']
    obtain ⟨R, M⟩ := smCt_start pre t o hv.contacts (hv.contacts.hNo + 1) hfit ho (hS.ctI (by decide))
    rcases hq : parseAllContactValues t o { hv.contacts with hNo := hv.contacts.hNo + 1, lastHVal := {} } with ⟨n1, e1, f1⟩
    rcases hq' : parseAllContactValues (pre ++ t) (pre.size + o)
      { shCt pre.size hv.contacts with hNo := hv.contacts.hNo + 1, lastHVal := {} } with ⟨n', e', f'⟩
    rw [hq, hq'] at R
    rw [hq] at M hr
    simp only [Prod.mk.injEq] at hr
    obtain ⟨rfl, rfl, rfl, rfl⟩ := hr
    obtain ⟨r1, r2, r3, r4⟩ := R
    simp only at r1 r2 r3 r4 M
    subst r1 r2
    refine ⟨_, { shHv pre.size hv with contacts := f' }, rfl, ?_, ?_, ?_, ?_, ?_⟩
    · refine Prod.ext rfl (Prod.ext rfl (Prod.ext
        (smHdr_val pre.size h .hContact e' f1.lastHVal f'.lastHVal (hsn _ (by decide) (by decide)) ?_) rfl))
      intro he; rw [r3 (Or.inl he)]; rfl
    · unfold smHvObs shHv; simp only [r4]
    · intro hx
      rw [r3 (smExact_ok_or hx (by
        have := parseAllContactValues_ne_empty t o { hv.contacts with hNo := hv.contacts.hNo + 1, lastHVal := {} }
        rw [hq] at this; exact this))]
      rfl
    · intro he
      obtain ⟨d2, d3⟩ := hrange (Or.inl he)
      have hm := hX.monoNV d2 d3 hn1 hn2
      exact ⟨hm.from_, hm.to, hm.callid, hm.cseqP, hm.cseqL, hm.clen, hm.expires, (fun hh => by cases hh), hm.pa⟩
    · intro he
      obtain ⟨d2, d3⟩ := hrange (Or.inr he)
      have hm := hX.monoNV d2 d3 hn1 hn2
      exact ⟨hm.from_, hm.to, hm.callid, hm.cseqP, hm.cseqL, hm.clen, hm.expires, fun _ => M he, fun hh => by cases hh⟩
  simp only [h_contacts, Bool.false_eq_true, ↓reduceIte] at hr ⊢
  by_cases h_expires : (h.type == HdrExpires) = true
  · simp only [h_expires, ↓reduceIte] at hr ⊢
    by_cases hp : (!hv.expires.parsed) = true
    · simp only [hp, ↓reduceIte] at hr ⊢
      rcases hq : parseUIntVal t o hv.expires with ⟨n1, e1, f1⟩
      rw [hq] at hr; simp only [Prod.mk.injEq] at hr
      obtain ⟨rfl, rfl, rfl, rfl⟩ := hr
      obtain ⟨c1, c4, c5, d2, d3⟩ := smCl_call pre t o hv.expires hfit h1 hS.expires hX.expires hq
      simp only [c1]
      refine ⟨_, shHv pre.size { hv with expires := f1 }, rfl, ?_, rfl, fun _ => rfl, ?_, ?_⟩
      · exact Prod.ext rfl (Prod.ext rfl (Prod.ext
          (smHdr_val pre.size h .hExpires e1 f1.sVal _ (hsn _ (by decide) (by decide)) c4) rfl))
      · intro he
        have hm := hX.monoNV d2 d3 hn1 hn2
        exact ⟨hm.from_, hm.to, hm.callid, hm.cseqP, hm.cseqL, hm.clen, c5 (Or.inl he), hm.ct, hm.pa⟩
      · intro he
        have hm := hX.monoNV (st' := .hExpires) d2 d3 (by decide) (by decide)
        exact ⟨hm.from_, hm.to, hm.callid, hm.cseqP, hm.cseqL, hm.clen, c5 (Or.inr he), hm.ct, hm.pa⟩
    · simp only [hp, Bool.false_eq_true, ↓reduceIte] at hr ⊢
      exact hskip hr
  simp only [h_expires, Bool.false_eq_true, ↓reduceIte] at hr ⊢
  by_cases h_pais : (h.type == HdrPAI) = true
  · simp only [h_pais, ↓reduceIte] at hr ⊢
    have hc0 : (if h.state != .hPAI then { hv.pais with hNo := hv.pais.hNo + 1, lastHVal := {} } else hv.pais) =
        { hv.pais with hNo := hv.pais.hNo + 1, lastHVal := {} } := by rw [hst]; rfl
    have hc0' : (if (shHdr pre.size h).state != .hPAI then
          { shPa pre.size hv.pais with hNo := (shPa pre.size hv.pais).hNo + 1, lastHVal := {} }
        else shPa pre.size hv.pais) =
        { shPa pre.size hv.pais with hNo := hv.pais.hNo + 1, lastHVal := {} } := by
      show (if h.state != .hPAI then _ else _) = _
      rw [hst]; rfl
    rw [hc0] at hr
    simp only [hc0']
    obtain ⟨R, M⟩ := smPa_start pre t o hv.pais (hv.pais.hNo + 1) hfit ho (hS.paI (by decide))
    rcases hq : parseAllPAIValues t o { hv.pais with hNo := hv.pais.hNo + 1, lastHVal := {} } with ⟨n1, e1, f1⟩
    rcases hq' : parseAllPAIValues (pre ++ t) (pre.size + o)
      { shPa pre.size hv.pais with hNo := hv.pais.hNo + 1, lastHVal := {} } with ⟨n', e', f'⟩
    rw [hq, hq'] at R
    rw [hq] at M hr
    simp only [Prod.mk.injEq] at hr
    obtain ⟨rfl, rfl, rfl, rfl⟩ := hr
    obtain ⟨r1, r2, r3, r4⟩ := R
    simp only at r1 r2 r3 r4 M
    subst r1 r2
    refine ⟨_, { shHv pre.size hv with pais := f' }, rfl, ?_, ?_, ?_, ?_, ?_⟩
    · refine Prod.ext rfl (Prod.ext rfl (Prod.ext
        (smHdr_val pre.size h .hPAI e' f1.lastHVal f'.lastHVal (hsn _ (by decide) (by decide)) ?_) rfl))
      intro he; rw [r3 (Or.inl he)]; rfl
    · unfold smHvObs shHv; simp only [r4]
    · intro hx
      rw [r3 (smExact_ok_or hx (by
        have := parseAllPAIValues_ne_empty t o { hv.pais with hNo := hv.pais.hNo + 1, lastHVal := {} }
        rw [hq] at this; exact this))]
      rfl
    · intro he
      obtain ⟨d2, d3⟩ := hrange (Or.inl he)
      have hm := hX.monoNV d2 d3 hn1 hn2
      exact ⟨hm.from_, hm.to, hm.callid, hm.cseqP, hm.cseqL, hm.clen, hm.expires, hm.ct, fun hh => by cases hh⟩
    · intro he
      obtain ⟨d2, d3⟩ := hrange (Or.inr he)
      have hm := hX.monoNV d2 d3 hn1 hn2
      exact ⟨hm.from_, hm.to, hm.callid, hm.cseqP, hm.cseqL, hm.clen, hm.expires, (fun hh => by cases hh), fun _ => M he⟩
  simp only [h_pais, Bool.false_eq_true, ↓reduceIte] at hr ⊢
  exact hskip hr

/-! ### a relational version of the generic loop theorem -/

section loop
variable {σ : Type}

/-- the step `X` on the moved buffer is the moved step `Y`: continuing steps exactly, finishing steps up to `R` -/
def smStepRel (k : Nat) (sh : σ → σ) (R : Err → σ → σ → Prop) : Step σ → Step σ → Prop
  | .cont i1 s1, .cont i s => i1 = k + i ∧ s1 = sh s
  | .done o1 e1 s1, .done o e s => o1 = k + o ∧ e1 = e ∧ R e s1 s
  | _, _ => False

def smResRel (k : Nat) (R : Err → σ → σ → Prop) (r1 r : Nat × Err × σ) : Prop :=
  r1.1 = k + r.1 ∧ r1.2.1 = r.2.1 ∧ R r.2.1 r1.2.2 r.2.2

theorem smStepRel_of_eq {k : Nat} {sh : σ → σ} {R : Err → σ → σ → Prop} {X Y : Step σ}
    (hrefl : ∀ e s, R e (sh s) s) (h : X = shStep k sh Y) : smStepRel k sh R X Y := by
  subst h
  cases Y with
  | cont i s => exact ⟨rfl, rfl⟩
  | done o e s => exact ⟨rfl, rfl, hrefl e s⟩

theorem smResRel_of_eq {k : Nat} {sh : σ → σ} {R : Err → σ → σ → Prop} {r1 r : Nat × Err × σ}
    (hrefl : ∀ e s, R e (sh s) s) (h : r1 = shRes k sh r) : smResRel k R r1 r := by
  subst h
  exact ⟨rfl, rfl, hrefl _ _⟩

theorem runLoop_shiftR (m : Machine σ) (pre t : Buf) (sh : σ → σ) (R : Err → σ → σ → Prop) (Inv : Nat → σ → Prop)
    (hrefl : ∀ e s, R e (sh s) s)
    (hinv : ∀ i c st i' st', t[i]? = some c → Inv i st → m.step t i c st = .cont i' st' → i < i' → Inv i' st')
    (hstep : ∀ i c st, t[i]? = some c → Inv i st →
      smStepRel pre.size sh R (m.step (pre ++ t) (pre.size + i) c (sh st)) (m.step t i c st))
    (heob : ∀ i st, t[i]? = none → Inv i st →
      smResRel pre.size R (m.eob (pre ++ t) (pre.size + i) (sh st)) (m.eob t i st))
    (i : Nat) (st : σ) (hI : Inv i st) :
    smResRel pre.size R (runLoop m (pre ++ t) (pre.size + i) (sh st)) (runLoop m t i st) := by
  induction hk : t.size - i using Nat.strongRecOn generalizing i st with
  | _ k ih =>
    cases hb : t[i]? with
    | none =>
      rw [runLoop_none m st hb, runLoop_none m (sh st) (by rw [get?_shift]; exact hb)]
      exact heob i st hb hI
    | some c =>
      have hbB : (pre ++ t)[pre.size + i]? = some c := by rw [get?_shift]; exact hb
      have hs := hstep i c st hb hI
      cases hq : m.step t i c st with
      | done o e st' =>
        rw [hq] at hs
        cases hq' : m.step (pre ++ t) (pre.size + i) c (sh st) with
        | cont i1 s1 => rw [hq'] at hs; exact hs.elim
        | done o1 e1 s1 =>
          rw [hq'] at hs
          rw [runLoop_done m hb hq, runLoop_done m hbB hq']
          obtain ⟨rfl, rfl, h3⟩ := hs
          exact ⟨rfl, rfl, h3⟩
      | cont i' st' =>
        rw [hq] at hs
        cases hq' : m.step (pre ++ t) (pre.size + i) c (sh st) with
        | done o1 e1 s1 => rw [hq'] at hs; exact hs.elim
        | cont i1 s1 =>
          rw [hq'] at hs
          obtain ⟨rfl, rfl⟩ := hs
          rw [runLoop_cont m hb hq, runLoop_cont m hbB hq']
          by_cases hlt : i < i'
          · rw [if_pos hlt, if_pos (by omega)]
            have := get?_lt hb
            exact ih (t.size - i') (by omega) i' st' (hinv i c st i' st' hb hI hq hlt) rfl
          · rw [if_neg hlt, if_neg (by omega)]
            exact ⟨rfl, rfl, hrefl _ _⟩

end loop

/-! ### the header-line loop: invariant and steps -/

/-- **what the shift theorems need of the (header, values) pair** at loop position `i`, in addition to the
    panic-freedom invariant `HlSafe` and `hlInv`: outside the initial state the position is `≥ 1`; a value being
    scanned starts at a position `≥ 1`; a complete name is not the zero field; the values object is legitimate
    (`HvSh`). Holds for a new header with new / idle values at any offset (`HlSh_new`), and again after OK and
    after MoreBytes at the returned offset (`parseHdrLine_shift`). -/
structure HlSh (t : Buf) (i : Nat) (st : HLσ) : Prop where
  pos : st.1.state ≠ .init → 1 ≤ i
  valNz : st.1.state = .val ∨ st.1.state = .valEnd → 1 ≤ st.1.val.offs
  nameNz : st.1.state ≠ .init → st.1.state ≠ .name → st.1.state ≠ .fin → 1 ≤ st.1.name.offs + st.1.name.len
  hv : ∀ hv, st.2 = some hv → HvSh t i st.1.state hv

/-- what a step establishes: the invariant after a continuing step, and at the returned offset after OK / MoreBytes -/
def smPost (t : Buf) : Step HLσ → Prop :=
  StepAll2 (HlSh t) (fun n e st => (e = .ok ∨ e = .moreBytes) → HlSh t n st)

theorem smRelHL_mk (k : Nat) (e : Err) (H' H : Hdr) (a' a : PHdrVals) (h1 : H' = shHdr k H)
    (h2 : smHvObs a' = smHvObs (shHv k a)) (h3 : smExact e → a' = shHv k a) :
    smRelHL k e (H', some a') (H, some a) := by
  subst h1
  refine ⟨?_, fun hx => by rw [h3 hx]; rfl⟩
  unfold smHLObs shHL
  simp only [Option.map_some, h2]

/-- the header returned by a finished value parser -/
theorem smHdr_fin (k : Nat) (h : Hdr) (e : Err) (V V' : PField)
    (hs : shHn k .fin h.name = shHn k h.state h.name) (hV : e = .ok → V' = shO k V) :
    (if e == .ok then ({ shHdr k h with val := V', state := .fin } : Hdr) else shHdr k h) =
      shHdr k (if e == .ok then { h with val := V, state := .fin } else h) := by
  by_cases he : e = .ok
  · subst he
    simp only [beq_self_eq_true, ↓reduceIte]
    unfold shHdr
    simp only [hs, hV rfl]
  · have : (e == Err.ok) = false := by simpa using he
    simp only [this, Bool.false_eq_true, ↓reduceIte]

theorem smHn_fin (k : Nat) (st : HState) (f : PField) (hv : st.isVal) (hnz : 1 ≤ f.offs + f.len) :
    shHn k .fin f = shHn k st f := by
  have e1 : shHn k .fin f = shF k f := by show shO k f = _; exact sl_shO_of_pos k f hnz
  rw [e1]
  rcases hv with h | h | h | h | h | h | h | h <;> rw [h] <;> rfl

theorem smIf_state (h : Hdr) (e : Err) (V : PField) (he : e = .ok) :
    (if e == .ok then ({ h with val := V, state := .fin } : Hdr) else h).state = .fin := by
  subst he; rfl

theorem smIf_more (h : Hdr) (e : Err) (V : PField) (he : e = .moreBytes) :
    (if e == .ok then ({ h with val := V, state := .fin } : Hdr) else h) = h := by
  subst he; rfl

/-- the pair returned by a finished / suspended value parser satisfies the invariant again -/
theorem smPost_val (t : Buf) (i n : Nat) (h : Hdr) (e : Err) (V : PField) (hv2 : PHdrVals) (h1 : 1 ≤ i) (hin : e = .ok ∨ e = .moreBytes → i ≤ n)
    (hisv : h.state.isVal) (hnz : 1 ≤ h.name.offs + h.name.len)
    (hok : e = .ok → HvSh t n .fin hv2) (hmore : e = .moreBytes → HvSh t n h.state hv2) :
    (e = .ok ∨ e = .moreBytes) →
      HlSh t n ((if e == .ok then ({ h with val := V, state := .fin } : Hdr) else h), some hv2) := by
  intro he
  have hn := hin he
  rcases he with he | he
  · have hs := smIf_state h e V he
    refine ⟨fun _ => by omega, fun hh => ?_, fun _ _ hh => absurd hs hh, fun hv' hh => ?_⟩
    · simp only at hh; rw [hs] at hh; rcases hh with hh | hh <;> cases hh
    · simp only at hh ⊢; cases hh; rw [hs]; exact hok he
  · have hs := smIf_more h e V he
    refine ⟨fun _ => by omega, fun hh => ?_, fun _ _ _ => ?_, fun hv' hh => ?_⟩
    · simp only at hh; rw [hs] at hh
      exfalso
      rcases hisv with g | g | g | g | g | g | g | g <;> rw [g] at hh <;> rcases hh with hh | hh <;> cases hh
    · simp only; rw [hs]; exact hnz
    · simp only at hh ⊢; cases hh; rw [hs]; exact hmore he

theorem smHlCont (pre t : Buf) (i : Nat) (h : Hdr) (hv : PHdrVals) (hfit : pre.size + t.size ≤ 65535)
    (H : HlSafe t i (h, some hv)) (hI : hlInv t i (h, some hv)) (hX : HlSh t i (h, some hv)) (hisv : h.state.isVal) :
    smStepRel pre.size (shHL pre.size) (smRelHL pre.size)
        (hlCont (pre ++ t) (pre.size + i) (shHdr pre.size h) (some (shHv pre.size hv))) (hlCont t i h (some hv)) ∧
      smPost t (hlCont t i h (some hv)) := by
  have hi : i ≤ t.size := H.hi
  have hS : HvSafe t i h.state hv := H.hv hv rfl
  have hXv : HvSh t i h.state hv := hX.hv hv rfl
  have hok : hvOK t i hv := hI.2.2
  have hne : h.state ≠ .init := by
    intro hh; rw [hh] at hisv; unfold HState.isVal at hisv; simp at hisv
  have h1 : 1 ≤ i := hX.pos hne
  have hnz : 1 ≤ h.name.offs + h.name.len := by
    refine hX.nameNz hne ?_ ?_ <;> (intro hh; rw [hh] at hisv; unfold HState.isVal at hisv; simp at hisv)
  have hsf := smHn_fin pre.size h.state h.name hisv hnz
  have hrange : ∀ {n : Nat} {e : Err} {st' : HLσ}, hlCont t i h (some hv) = .done n e st' →
      (e = .ok ∨ e = .moreBytes) → i ≤ n ∧ n ≤ t.size := by
    intro n e st' hs
    obtain ⟨_, _, _, _, _, _, r, _⟩ := hlCont_safe t i h hv hi (by omega) hok hS hisv H.pnc H.nameF H.valF H.valIn hs
    exact r
  unfold smPost
  unfold hlCont parseFromVal at hrange ⊢
  simp only [shHdr_state, shHv_from, shHv_to, shHv_callid, shHv_cseq, shHv_clen, shHv_contacts, shHv_pais,
    shHv_expires] at hrange ⊢
  cases hst : h.state <;> simp only [hst] at hrange hS hXv ⊢
  case init | name | nameEnd | bodyStart | val | valEnd | fin =>
    rw [hst] at hisv; unfold HState.isVal at hisv; simp at hisv
  case hFrom =>
    rcases hq : parseNameAddrPVal HdrFrom t i hv.from_ with ⟨n1, e1, f1⟩
    obtain ⟨f', c1, c2, c3, c4, c5⟩ := smNa_call HdrFrom pre t i hv.from_ hfit hXv.from_ hq
    rw [hq] at hrange
    simp only [c1]
    have hr := hrange rfl
    refine ⟨⟨rfl, rfl, smRelHL_mk _ _ _ _ { shHv pre.size hv with from_ := f' } _
      (smHdr_fin pre.size h e1 f1.v f'.v hsf c4) (by unfold smHvObs shHv; simp only [c2])
      (fun hx => by rw [c3 hx]; rfl)⟩, ?_⟩
    refine smPost_val t i n1 h e1 f1.v _ h1 (fun he => (hr he).1) hisv hnz (fun he => ?_) (fun he => ?_)
    · obtain ⟨d2, d3⟩ := hr (Or.inl he)
      have hm := hXv.monoNV (st' := .fin) d2 d3 (by decide) (by decide)
      exact ⟨(c5 (Or.inl he)).1, hm.to, hm.callid, hm.cseqP, hm.cseqL, hm.clen, hm.expires, hm.ct, hm.pa⟩
    · obtain ⟨d2, d3⟩ := hr (Or.inr he)
      rw [hst]
      have hm := hXv.monoNV (st' := .hFrom) d2 d3 (by decide) (by decide)
      exact ⟨(c5 (Or.inr he)).1, hm.to, hm.callid, hm.cseqP, hm.cseqL, hm.clen, hm.expires, hm.ct, hm.pa⟩
  case hTo =>
    rcases hq : parseNameAddrPVal HdrTo t i hv.to with ⟨n1, e1, f1⟩
    obtain ⟨f', c1, c2, c3, c4, c5⟩ := smNa_call HdrTo pre t i hv.to hfit hXv.to hq
    rw [hq] at hrange
    simp only [c1]
    have hr := hrange rfl
    refine ⟨⟨rfl, rfl, smRelHL_mk _ _ _ _ { shHv pre.size hv with to := f' } _
      (smHdr_fin pre.size h e1 f1.v f'.v hsf c4) (by unfold smHvObs shHv; simp only [c2])
      (fun hx => by rw [c3 hx]; rfl)⟩, ?_⟩
    refine smPost_val t i n1 h e1 f1.v _ h1 (fun he => (hr he).1) hisv hnz (fun he => ?_) (fun he => ?_)
    · obtain ⟨d2, d3⟩ := hr (Or.inl he)
      have hm := hXv.monoNV (st' := .fin) d2 d3 (by decide) (by decide)
      exact ⟨hm.from_, (c5 (Or.inl he)).1, hm.callid, hm.cseqP, hm.cseqL, hm.clen, hm.expires, hm.ct, hm.pa⟩
    · obtain ⟨d2, d3⟩ := hr (Or.inr he)
      rw [hst]
      have hm := hXv.monoNV (st' := .hTo) d2 d3 (by decide) (by decide)
      exact ⟨hm.from_, (c5 (Or.inr he)).1, hm.callid, hm.cseqP, hm.cseqL, hm.clen, hm.expires, hm.ct, hm.pa⟩
  case hCallID =>
    rcases hq : parseCallIDVal t i hv.callid with ⟨n1, e1, f1⟩
    obtain ⟨c1, c4, c5, _, _⟩ := smCi_call pre t i hv.callid hfit h1 hS.callid hXv.callid hq
    rw [hq] at hrange
    simp only [c1]
    have hr := hrange rfl
    refine ⟨⟨rfl, rfl, smRelHL_mk _ _ _ _ (shHv pre.size { hv with callid := f1 }) _
      (smHdr_fin pre.size h e1 f1.callID _ hsf c4) rfl (fun _ => rfl)⟩, ?_⟩
    refine smPost_val t i n1 h e1 f1.callID _ h1 (fun he => (hr he).1) hisv hnz (fun he => ?_) (fun he => ?_)
    · obtain ⟨d2, d3⟩ := hr (Or.inl he)
      have hm := hXv.monoNV (st' := .fin) d2 d3 (by decide) (by decide)
      exact ⟨hm.from_, hm.to, c5 (Or.inl he), hm.cseqP, hm.cseqL, hm.clen, hm.expires, hm.ct, hm.pa⟩
    · obtain ⟨d2, d3⟩ := hr (Or.inr he)
      rw [hst]
      have hm := hXv.monoNV (st' := .hCallID) d2 d3 (by decide) (by decide)
      exact ⟨hm.from_, hm.to, c5 (Or.inr he), hm.cseqP, hm.cseqL, hm.clen, hm.expires, hm.ct, hm.pa⟩
  case hCSeq =>
    rcases hq : parseCSeqVal t i hv.cseq with ⟨n1, e1, f1⟩
    obtain ⟨c1, c4, c5⟩ := smCs_call pre t i hv.cseq hfit h1 hS.cseq hXv.cseqP hXv.cseqL hq
    rw [hq] at hrange
    simp only [c1]
    have hr := hrange rfl
    refine ⟨⟨rfl, rfl, smRelHL_mk _ _ _ _ (shHv pre.size { hv with cseq := f1 }) _
      (smHdr_fin pre.size h e1 f1.v _ hsf c4) rfl (fun _ => rfl)⟩, ?_⟩
    refine smPost_val t i n1 h e1 f1.v _ h1 (fun he => (hr he).1) hisv hnz (fun he => ?_) (fun he => ?_)
    · obtain ⟨d2, d3⟩ := hr (Or.inl he)
      have hm := hXv.monoNV (st' := .fin) d2 d3 (by decide) (by decide)
      exact ⟨hm.from_, hm.to, hm.callid, (c5 (Or.inl he)).1, (c5 (Or.inl he)).2.1, hm.clen, hm.expires, hm.ct, hm.pa⟩
    · obtain ⟨d2, d3⟩ := hr (Or.inr he)
      rw [hst]
      have hm := hXv.monoNV (st' := .hCSeq) d2 d3 (by decide) (by decide)
      exact ⟨hm.from_, hm.to, hm.callid, (c5 (Or.inr he)).1, (c5 (Or.inr he)).2.1, hm.clen, hm.expires, hm.ct, hm.pa⟩
  case hCLen =>
    rcases hq : parseCLenVal t i hv.clen with ⟨n1, e1, f1⟩
    obtain ⟨c1, c4, c5⟩ := smClen_call pre t i hv.clen hfit h1 hS.clen hXv.clen hq
    rw [hq] at hrange
    simp only [c1]
    have hr := hrange rfl
    refine ⟨⟨rfl, rfl, smRelHL_mk _ _ _ _ (shHv pre.size { hv with clen := f1 }) _
      (smHdr_fin pre.size h e1 f1.sVal _ hsf c4) rfl (fun _ => rfl)⟩, ?_⟩
    refine smPost_val t i n1 h e1 f1.sVal _ h1 (fun he => (hr he).1) hisv hnz (fun he => ?_) (fun he => ?_)
    · obtain ⟨d2, d3⟩ := hr (Or.inl he)
      have hm := hXv.monoNV (st' := .fin) d2 d3 (by decide) (by decide)
      exact ⟨hm.from_, hm.to, hm.callid, hm.cseqP, hm.cseqL, (c5 (Or.inl he)).1, hm.expires, hm.ct, hm.pa⟩
    · obtain ⟨d2, d3⟩ := hr (Or.inr he)
      rw [hst]
      have hm := hXv.monoNV (st' := .hCLen) d2 d3 (by decide) (by decide)
      exact ⟨hm.from_, hm.to, hm.callid, hm.cseqP, hm.cseqL, (c5 (Or.inr he)).1, hm.expires, hm.ct, hm.pa⟩
  case hExpires =>
    rcases hq : parseUIntVal t i hv.expires with ⟨n1, e1, f1⟩
    obtain ⟨c1, c4, c5, _, _⟩ := smCl_call pre t i hv.expires hfit h1 hS.expires hXv.expires hq
    rw [hq] at hrange
    simp only [c1]
    have hr := hrange rfl
    refine ⟨⟨rfl, rfl, smRelHL_mk _ _ _ _ (shHv pre.size { hv with expires := f1 }) _
      (smHdr_fin pre.size h e1 f1.sVal _ hsf c4) rfl (fun _ => rfl)⟩, ?_⟩
    refine smPost_val t i n1 h e1 f1.sVal _ h1 (fun he => (hr he).1) hisv hnz (fun he => ?_) (fun he => ?_)
    · obtain ⟨d2, d3⟩ := hr (Or.inl he)
      have hm := hXv.monoNV (st' := .fin) d2 d3 (by decide) (by decide)
      exact ⟨hm.from_, hm.to, hm.callid, hm.cseqP, hm.cseqL, hm.clen, c5 (Or.inl he), hm.ct, hm.pa⟩
    · obtain ⟨d2, d3⟩ := hr (Or.inr he)
      rw [hst]
      have hm := hXv.monoNV (st' := .hExpires) d2 d3 (by decide) (by decide)
      exact ⟨hm.from_, hm.to, hm.callid, hm.cseqP, hm.cseqL, hm.clen, c5 (Or.inr he), hm.ct, hm.pa⟩
  case hContact =>
    obtain ⟨R, M⟩ := parseAllContactValues_shift' pre t i hv.contacts hfit (hXv.ct rfl)
    rcases hq : parseAllContactValues t i hv.contacts with ⟨n1, e', f1⟩
    rw [hq] at R M hrange
    obtain ⟨f', hq'⟩ : ∃ f', parseAllContactValues (pre ++ t) (pre.size + i) (shCt pre.size hv.contacts) =
        (pre.size + n1, e', f') :=
      ⟨(parseAllContactValues (pre ++ t) (pre.size + i) (shCt pre.size hv.contacts)).2.2, Prod.ext R.1 (Prod.ext R.2.1 rfl)⟩
    rw [hq'] at R
    obtain ⟨_, _, r3, r4⟩ := R
    simp only at r3 r4 M
    simp only [hq']
    have hr := hrange rfl
    have hne' : e' ≠ .empty := by
      have := parseAllContactValues_ne_empty t i hv.contacts
      rw [hq] at this; exact this
    refine ⟨⟨rfl, rfl, smRelHL_mk _ _ _ _ { shHv pre.size hv with contacts := f' } _
      (smHdr_fin pre.size h e' f1.lastHVal f'.lastHVal hsf (fun he => by rw [r3 (Or.inl he)]; rfl))
      (by unfold smHvObs shHv; simp only [r4])
      (fun hx => by rw [r3 (smExact_ok_or hx hne')]; rfl)⟩, ?_⟩
    refine smPost_val t i n1 h e' f1.lastHVal _ h1 (fun he => (hr he).1) hisv hnz (fun he => ?_) (fun he => ?_)
    · obtain ⟨d2, d3⟩ := hr (Or.inl he)
      have hm := hXv.monoNV (st' := .fin) d2 d3 (by decide) (by decide)
      exact ⟨hm.from_, hm.to, hm.callid, hm.cseqP, hm.cseqL, hm.clen, hm.expires, (fun hh => by cases hh), hm.pa⟩
    · obtain ⟨d2, d3⟩ := hr (Or.inr he)
      rw [hst]
      have hm := hXv.monoNV (st' := .fin) d2 d3 (by decide) (by decide)
      exact ⟨hm.from_, hm.to, hm.callid, hm.cseqP, hm.cseqL, hm.clen, hm.expires, (fun _ => M he), (fun hh => by cases hh)⟩
  case hPAI =>
    obtain ⟨R, M⟩ := parseAllPAIValues_shift' pre t i hv.pais hfit (hXv.pa rfl)
    rcases hq : parseAllPAIValues t i hv.pais with ⟨n1, e', f1⟩
    rw [hq] at R M hrange
    obtain ⟨f', hq'⟩ : ∃ f', parseAllPAIValues (pre ++ t) (pre.size + i) (shPa pre.size hv.pais) =
        (pre.size + n1, e', f') :=
      ⟨(parseAllPAIValues (pre ++ t) (pre.size + i) (shPa pre.size hv.pais)).2.2, Prod.ext R.1 (Prod.ext R.2.1 rfl)⟩
    rw [hq'] at R
    obtain ⟨_, _, r3, r4⟩ := R
    simp only at r3 r4 M
    simp only [hq']
    have hr := hrange rfl
    have hne' : e' ≠ .empty := by
      have := parseAllPAIValues_ne_empty t i hv.pais
      rw [hq] at this; exact this
    refine ⟨⟨rfl, rfl, smRelHL_mk _ _ _ _ { shHv pre.size hv with pais := f' } _
      (smHdr_fin pre.size h e' f1.lastHVal f'.lastHVal hsf (fun he => by rw [r3 (Or.inl he)]; rfl))
      (by unfold smHvObs shHv; simp only [r4])
      (fun hx => by rw [r3 (smExact_ok_or hx hne')]; rfl)⟩, ?_⟩
    refine smPost_val t i n1 h e' f1.lastHVal _ h1 (fun he => (hr he).1) hisv hnz (fun he => ?_) (fun he => ?_)
    · obtain ⟨d2, d3⟩ := hr (Or.inl he)
      have hm := hXv.monoNV (st' := .fin) d2 d3 (by decide) (by decide)
      exact ⟨hm.from_, hm.to, hm.callid, hm.cseqP, hm.cseqL, hm.clen, hm.expires, hm.ct, (fun hh => by cases hh)⟩
    · obtain ⟨d2, d3⟩ := hr (Or.inr he)
      rw [hst]
      have hm := hXv.monoNV (st' := .fin) d2 d3 (by decide) (by decide)
      exact ⟨hm.from_, hm.to, hm.callid, hm.cseqP, hm.cseqL, hm.clen, hm.expires, (fun hh => by cases hh), (fun _ => M he)⟩

theorem smParseBody_shape (b : Buf) (o : Nat) (h : Hdr) (hb : Option PHdrVals) {n : Nat} {e : Err} {h2 : Hdr}
    {hb2 : Option PHdrVals} (hr : parseBody b o h hb = (n, e, h2, hb2)) :
    h2.name = h.name ∧ (h2 = h ∨ h2.state.isVal) := by
  unfold parseBody at hr
  cases hb with
  | none => simp only [Prod.mk.injEq] at hr; obtain ⟨_, _, rfl, _⟩ := hr; exact ⟨rfl, Or.inl rfl⟩
  | some hv =>
    repeat' split at hr
    all_goals
      (simp only [Prod.mk.injEq] at hr
       obtain ⟨_, _, rfl, _⟩ := hr
       first
         | exact ⟨rfl, Or.inl rfl⟩
         | exact ⟨rfl, Or.inr (by unfold HState.isVal; simp)⟩)

/-- the code of `hlAfterColon` after the header-value dispatch returned `r` -/
def smACk (i : Nat) (r : Nat × Err × Hdr × Option PHdrVals) : Step HLσ :=
  if r.2.2.1.state != .bodyStart then
    .done r.1 r.2.1 ((if r.2.1 == .ok then { r.2.2.1 with state := .fin } else r.2.2.1), r.2.2.2)
  else .cont i (r.2.2.1, r.2.2.2)

theorem smAC_some (b : Buf) (i : Nat) (h : Hdr) (hb : Option PHdrVals) (nm : Buf) (g : Hdr)
    (hg : h.name.get? b = some nm) (hgg : g = { h with type := getHdrType nm }) :
    hlAfterColon b i h hb = smACk i (parseBody b i g hb) := by
  subst hgg
  unfold hlAfterColon smACk
  rw [hg]

theorem smAC_none (b : Buf) (i : Nat) (h : Hdr) (hb : Option PHdrVals) (hg : h.name.get? b = none) :
    hlAfterColon b i h hb = .done i .badChar ({ h with pnc := true }, hb) := by
  unfold hlAfterColon
  rw [hg]

theorem smHlAfterColon (pre t : Buf) (i : Nat) (h : Hdr) (hb : Option PHdrVals) (hfit : pre.size + t.size ≤ 65535)
    (hi : i ≤ t.size) (h1 : 1 ≤ i) (hst : h.state = .bodyStart) (hnF : h.name.inside t.size)
    (hnz : 1 ≤ h.name.offs + h.name.len) (hok : hbOK t i hb) (hS : ∀ hv, hb = some hv → HvSafe t i .bodyStart hv)
    (hXv : ∀ hv, hb = some hv → HvSh t i .bodyStart hv) :
    smStepRel pre.size (shHL pre.size) (smRelHL pre.size)
        (hlAfterColon (pre ++ t) (pre.size + i) (shHdr pre.size h) (hb.map (shHv pre.size))) (hlAfterColon t i h hb) ∧
      smPost t (hlAfterColon t i h hb) := by
  have hnm : (shHdr pre.size h).name = shF pre.size h.name := by
    show shHn pre.size h.state h.name = _; rw [hst]; rfl
  have hgB : (shHdr pre.size h).name.get? (pre ++ t) = h.name.get? t := by
    rw [hnm, get?_shiftF pre t h.name hnF hfit]
  unfold smPost
  cases hg : h.name.get? t with
  | none =>
    rw [hg] at hgB
    rw [smAC_none _ _ _ _ hgB, smAC_none _ _ _ _ hg]
    exact ⟨⟨rfl, rfl, smRelHL_refl _ _ ({ h with pnc := true }, hb)⟩, fun hh => by rcases hh with hh | hh <;> cases hh⟩
  | some nm =>
    rw [hg] at hgB
    rw [smAC_some _ _ _ _ nm (shHdr pre.size { h with type := getHdrType nm }) hgB rfl, smAC_some _ _ _ _ nm _ hg rfl]
    have hX0 : HlSh t i ({ h with type := getHdrType nm }, hb) :=
      ⟨fun _ => h1, (fun hh => by simp only at hh; rw [hst] at hh; rcases hh with hh | hh <;> cases hh),
        fun _ _ _ => hnz, fun hv hh => by show HvSh t i h.state hv; rw [hst]; exact hXv hv hh⟩
    cases hb with
    | none =>
      have e1 : ∀ (B : Buf) (o : Nat) (g : Hdr), parseBody B o g none = (o, .ok, g, none) := by
        intro B o g; unfold parseBody; rfl
      simp only [Option.map_none, e1]
      have hs2 : ((shHdr pre.size { h with type := getHdrType nm }).state != HState.bodyStart) = false := by
        show (h.state != HState.bodyStart) = false; rw [hst]; rfl
      have hs1 : (({ h with type := getHdrType nm } : Hdr).state != HState.bodyStart) = false := by
        show (h.state != HState.bodyStart) = false; rw [hst]; rfl
      unfold smACk
      simp only [hs1, hs2, Bool.false_eq_true, ↓reduceIte]
      exact ⟨⟨rfl, rfl⟩, hX0⟩
    | some hv =>
      simp only [Option.map_some]
      rcases hp : parseBody t i { h with type := getHdrType nm } (some hv) with ⟨n, e, h2, hb2⟩
      obtain ⟨hv2, hv2', a1, a2, a3, a4, a5, a6⟩ := smParseBody pre t i { h with type := getHdrType nm } hv hfit h1 hi hst hok
        (hS hv rfl) (hXv hv rfl) hp
      subst a1
      rw [a2]
      have hsh := smParseBody_shape t i _ _ hp
      unfold smACk
      simp only
      have hstB : ((shHdr pre.size h2).state != HState.bodyStart) = (h2.state != HState.bodyStart) := rfl
      rw [hstB]
      by_cases hc : (h2.state != HState.bodyStart) = true
      · simp only [hc, ↓reduceIte]
        have hisv : h2.state.isVal := by
          rcases hsh.2 with g | g
          · rw [g] at hc; simp only at hc; rw [hst] at hc; simp at hc
          · exact g
        have hnz2 : 1 ≤ h2.name.offs + h2.name.len := by rw [hsh.1]; exact hnz
        have hrange : (e = .ok ∨ e = .moreBytes) → i ≤ n := by
          intro he
          rcases he with rfl | rfl
          · exact (parseBody_post t i _ (some hv) hok hi hp).1
          · exact (parseBody_restart t #[] i _ (some hv) hi hok hp).2.2.1
        refine ⟨⟨rfl, rfl, smRelHL_mk _ _ _ _ hv2' hv2
          (smHdr_fin pre.size h2 e h2.val _ (smHn_fin pre.size h2.state h2.name hisv hnz2) (fun _ => rfl)) a3 a4⟩, ?_⟩
        exact smPost_val t i n h2 e h2.val hv2 h1 hrange hisv hnz2 a5 a6
      · have hc' : (h2.state != HState.bodyStart) = false := by simpa using hc
        simp only [hc', Bool.false_eq_true, ↓reduceIte]
        have hk := parseBody_keep t i _ _ hp (by simpa using hc')
        obtain ⟨rfl, rfl, rfl, hb2e⟩ := hk
        cases hb2e
        rw [a4 (Or.inl rfl)]
        exact ⟨⟨rfl, rfl⟩, hX0⟩

/-! #### the name of the header -/

/-- the header after its name has been completed at `j` (`S` = the next state) -/
def smNameDone (h : Hdr) (S : HState) (j : Nat) : Hdr :=
  { h with state := S, name := h.name.extend j, pnc := h.pnc || h.name.extendPanics j }

theorem smNameDone_shift (k : Nat) (h : Hdr) (S : HState) (j : Nat) (hst : h.state = .name)
    (hS : S = .nameEnd ∨ S = .bodyStart) (hk : k + j ≤ 65535) (ho : h.name.offs ≤ j) :
    smNameDone (shHdr k h) S (k + j) = shHdr k (smNameDone h S j) := by
  have hnm : (shHdr k h).name = shF k h.name := by
    show shHn k h.state h.name = _; rw [hst]; rfl
  unfold smNameDone
  rw [hnm, extend_shift k h.name j hk ho, extendPanics_shift]
  rcases hS with rfl | rfl <;> rfl

theorem smName_none (b : Buf) (i : Nat) (h : Hdr) (hb : Option PHdrVals) (hg : b[skipTokenDelim b i 58]? = none) :
    hlName b i h hb = .done (skipTokenDelim b i 58) .moreBytes (h, hb) := by
  unfold hlName; simp only; rw [hg]

theorem smName_ws (b : Buf) (i : Nat) (h : Hdr) (hb : Option PHdrVals) (c : UInt8)
    (hg : b[skipTokenDelim b i 58]? = some c) (hw : isWS c = true) :
    hlName b i h hb =
      if (smNameDone h .nameEnd (skipTokenDelim b i 58)).name.isEmpty then
        .done (skipTokenDelim b i 58) .badChar (smNameDone h .nameEnd (skipTokenDelim b i 58), hb)
      else .cont (skipTokenDelim b i 58 + 1) (smNameDone h .nameEnd (skipTokenDelim b i 58), hb) := by
  unfold hlName smNameDone; simp only; rw [hg]; simp only [hw, ↓reduceIte]

theorem smName_colon (b : Buf) (i : Nat) (h : Hdr) (hb : Option PHdrVals) (c : UInt8)
    (hg : b[skipTokenDelim b i 58]? = some c) (hw : isWS c = false) (hc : (c == 58) = true) :
    hlName b i h hb =
      if (smNameDone h .bodyStart (skipTokenDelim b i 58)).name.isEmpty then
        .done (skipTokenDelim b i 58) .badChar (smNameDone h .bodyStart (skipTokenDelim b i 58), hb)
      else hlAfterColon b (skipTokenDelim b i 58 + 1) (smNameDone h .bodyStart (skipTokenDelim b i 58)) hb := by
  unfold hlName smNameDone; simp only; rw [hg]; simp only [hw, hc, Bool.false_eq_true, ↓reduceIte]

theorem smName_other (b : Buf) (i : Nat) (h : Hdr) (hb : Option PHdrVals) (c : UInt8)
    (hg : b[skipTokenDelim b i 58]? = some c) (hw : isWS c = false) (hc : (c == 58) = false) :
    hlName b i h hb = .done (skipTokenDelim b i 58) .badChar (h, hb) := by
  unfold hlName; simp only; rw [hg]; simp only [hw, hc, Bool.false_eq_true, ↓reduceIte]

theorem smIsEmpty_pos {f : PField} (h : ¬ f.isEmpty = true) : 1 ≤ f.len := by
  unfold PField.isEmpty at h
  have : f.len ≠ 0 := by intro h0; apply h; rw [h0]; rfl
  omega

theorem smHlName (pre t : Buf) (i : Nat) (h : Hdr) (hb : Option PHdrVals) (hfit : pre.size + t.size ≤ 65535)
    (hlt : i < t.size) (hst : h.state = .name) (hno : h.name.offs ≤ i) (hok : hbOK t i hb)
    (hS : ∀ hv, hb = some hv → HvSafe t i .name hv) (hXv : ∀ hv, hb = some hv → HvSh t i .name hv) :
    smStepRel pre.size (shHL pre.size) (smRelHL pre.size)
        (hlName (pre ++ t) (pre.size + i) (shHdr pre.size h) (hb.map (shHv pre.size))) (hlName t i h hb) ∧
      smPost t (hlName t i h hb) := by
  have hge := skipTokenDelim_ge t i 58
  have hle := skipTokenDelim_le t i 58 (Nat.le_of_lt hlt)
  have hjs : skipTokenDelim (pre ++ t) (pre.size + i) 58 = pre.size + skipTokenDelim t i 58 := skipTokenDelim_shift pre t i 58
  have hgB : (pre ++ t)[skipTokenDelim (pre ++ t) (pre.size + i) 58]? = t[skipTokenDelim t i 58]? := by
    rw [hjs, get?_shift]
  have hXm : ∀ (j : Nat) (S : HState), i ≤ j → j ≤ t.size → S ≠ .hContact → S ≠ .hPAI →
      ∀ hv, hb = some hv → HvSh t j S hv := fun j S a1 a2 a3 a4 hv hh => (hXv hv hh).monoNV a1 a2 a3 a4
  unfold smPost
  cases hg : t[skipTokenDelim t i 58]? with
  | none =>
    rw [hg] at hgB
    rw [smName_none _ _ _ _ hgB, smName_none _ _ _ _ hg, hjs]
    refine ⟨⟨rfl, rfl, smRelHL_refl _ _ (h, hb)⟩, fun _ => ?_⟩
    have hj : t.size ≤ skipTokenDelim t i 58 := by
      rcases Nat.lt_or_ge (skipTokenDelim t i 58) t.size with hh | hh
      · rw [Array.getElem?_eq_getElem hh] at hg; cases hg
      · exact hh
    exact ⟨fun _ => by omega, (fun hh => by simp only at hh; rw [hst] at hh; rcases hh with hh | hh <;> cases hh),
      (fun _ hh _ => absurd hst hh), fun hv hh => by
        show HvSh t _ h.state hv; rw [hst]; exact hXm _ _ hge hle (by decide) (by decide) hv hh⟩
  | some c =>
    rw [hg] at hgB
    have hjl := get?_lt hg
    by_cases hw : isWS c = true
    · rw [smName_ws _ _ _ _ c hgB hw, smName_ws _ _ _ _ c hg hw, hjs,
        smNameDone_shift pre.size h .nameEnd _ hst (Or.inl rfl) (by omega) (by omega)]
      have hem : (shHdr pre.size (smNameDone h .nameEnd (skipTokenDelim t i 58))).name.isEmpty =
          (smNameDone h .nameEnd (skipTokenDelim t i 58)).name.isEmpty := rfl
      rw [hem]
      by_cases he : (smNameDone h .nameEnd (skipTokenDelim t i 58)).name.isEmpty = true
      · simp only [he, ↓reduceIte]
        exact ⟨⟨rfl, rfl, smRelHL_refl _ _ (_, hb)⟩, fun hh => by rcases hh with hh | hh <;> cases hh⟩
      · simp only [he, Bool.false_eq_true, ↓reduceIte]
        refine ⟨⟨by omega, rfl⟩, ?_⟩
        have := smIsEmpty_pos he
        exact ⟨fun _ => by omega, (fun hh => by rcases hh with hh | hh <;> cases hh),
          (fun _ _ _ => by
            show 1 ≤ (smNameDone h .nameEnd (skipTokenDelim t i 58)).name.offs +
              (smNameDone h .nameEnd (skipTokenDelim t i 58)).name.len
            omega),
          fun hv hh => by
            show HvSh t _ HState.nameEnd hv
            exact hXm _ _ (by omega) (by omega) (by decide) (by decide) hv hh⟩
    · have hw' : isWS c = false := by simpa using hw
      by_cases hc : (c == 58) = true
      · rw [smName_colon _ _ _ _ c hgB hw' hc, smName_colon _ _ _ _ c hg hw' hc, hjs,
          smNameDone_shift pre.size h .bodyStart _ hst (Or.inr rfl) (by omega) (by omega)]
        have hem : (shHdr pre.size (smNameDone h .bodyStart (skipTokenDelim t i 58))).name.isEmpty =
            (smNameDone h .bodyStart (skipTokenDelim t i 58)).name.isEmpty := rfl
        rw [hem]
        by_cases he : (smNameDone h .bodyStart (skipTokenDelim t i 58)).name.isEmpty = true
        · simp only [he, ↓reduceIte]
          exact ⟨⟨rfl, rfl, smRelHL_refl _ _ (_, hb)⟩, fun hh => by rcases hh with hh | hh <;> cases hh⟩
        · simp only [he, Bool.false_eq_true, ↓reduceIte]
          have := smIsEmpty_pos he
          rw [Nat.add_assoc]
          exact smHlAfterColon pre t (skipTokenDelim t i 58 + 1) _ hb hfit (by omega) (by omega) rfl
            (extend_inside h.name _ _ (by omega) hle) (by omega) (hbOK_mono hok (by omega) (by omega))
            (fun hv hh => ((hS hv hh).mono (by omega) (by omega)).restate (by decide) (by decide) (by decide) (by decide))
            (fun hv hh => hXm _ _ (by omega) (by omega) (by decide) (by decide) hv hh)
      · have hc' : (c == 58) = false := by simpa using hc
        rw [smName_other _ _ _ _ c hgB hw' hc', smName_other _ _ _ _ c hg hw' hc', hjs]
        exact ⟨⟨rfl, rfl, smRelHL_refl _ _ (h, hb)⟩, fun hh => by rcases hh with hh | hh <;> cases hh⟩

/-! #### the end of a value token -/

theorem smHdr_restate (k : Nat) (h : Hdr) (S : HState) (hs : shHn k S h.name = shHn k h.state h.name) :
    ({ shHdr k h with state := S } : Hdr) = shHdr k { h with state := S } := by
  unfold shHdr; simp only [hs]

theorem smHn_mid (k : Nat) (S S' : HState) (f : PField) (h1 : S ≠ .init) (h2 : S ≠ .fin) (h3 : S' ≠ .init) (h4 : S' ≠ .fin) :
    shHn k S f = shHn k S' f := by
  have : ∀ X : HState, X ≠ .init → X ≠ .fin → shHn k X f = shF k f := by
    intro X a b; cases X <;> first | rfl | exact absurd rfl a | exact absurd rfl b
  rw [this S h1 h2, this S' h3 h4]

theorem smHn_toFin (k : Nat) (S : HState) (f : PField) (h1 : S ≠ .init) (hnz : 1 ≤ f.offs + f.len) :
    shHn k .fin f = shHn k S f := by
  by_cases h2 : S = .fin
  · rw [h2]
  · have : shHn k S f = shF k f := by cases S <;> first | rfl | exact absurd rfl h1 | exact absurd rfl h2
    rw [this]; exact sl_shO_of_pos k f hnz

theorem smHlValEnd (pre t : Buf) (i : Nat) (h : Hdr) (hb : Option PHdrVals)
    (hi : i ≤ t.size) (h1 : 1 ≤ i) (hst : h.state = .valEnd) (hnz : 1 ≤ h.name.offs + h.name.len)
    (hvn : 1 ≤ h.val.offs) (hXv : ∀ hv, hb = some hv → HvSh t i .valEnd hv) :
    smStepRel pre.size (shHL pre.size) (smRelHL pre.size)
        (hlValEnd (pre ++ t) (pre.size + i) (shHdr pre.size h) (hb.map (shHv pre.size))) (hlValEnd t i h hb) ∧
      smPost t (hlValEnd t i h hb) := by
  have hXm : ∀ (j : Nat) (S : HState), i ≤ j → j ≤ t.size → S ≠ .hContact → S ≠ .hPAI →
      ∀ hv, hb = some hv → HvSh t j S hv := fun j S a1 a2 a3 a4 hv hh => (hXv hv hh).monoNV a1 a2 a3 a4
  unfold smPost hlValEnd
  rw [skipLWS_shift]
  rcases hsk : skipLWS t i 0 with ⟨n, crl, e⟩
  have hr := skipLWS_range t i 0 hsk
  have hn := hr.2 hi
  have hv4 := skipLWS_verdicts t i 0 hsk
  rcases hv4 with rfl | rfl | rfl | rfl <;> simp only
  · obtain ⟨_, c, hc, _⟩ := skipLWS_ok t i 0 hsk
    have hlt := get?_lt hc
    rw [smHdr_restate pre.size h .val (by rw [hst]; rfl)]
    refine ⟨⟨by omega, rfl⟩, ?_⟩
    exact ⟨fun _ => by omega, (fun _ => hvn), (fun _ _ _ => hnz),
      fun hv hh => by
        show HvSh t _ HState.val hv
        exact hXm _ _ (by omega) (by omega) (by decide) (by decide) hv hh⟩
  · have hrg := skipLWS_eoh_range t i 0 hsk (by decide)
    rw [smHdr_restate pre.size h .fin (smHn_toFin pre.size h.state h.name (by rw [hst]; decide) hnz)]
    refine ⟨⟨by omega, rfl, smRelHL_refl _ _ (_, hb)⟩, fun _ => ?_⟩
    exact ⟨fun _ => by omega, (fun hh => by rcases hh with hh | hh <;> cases hh), (fun _ _ hh => absurd rfl hh),
      fun hv hh => by
        show HvSh t _ HState.fin hv
        exact hXm _ _ (by omega) (by omega) (by decide) (by decide) hv hh⟩
  · exact ⟨⟨rfl, rfl, smRelHL_refl _ _ (h, hb)⟩, fun hh => by rcases hh with hh | hh <;> cases hh⟩
  · refine ⟨⟨rfl, rfl, smRelHL_refl _ _ (h, hb)⟩, fun _ => ?_⟩
    exact ⟨fun _ => by omega, (fun _ => hvn), (fun _ _ _ => hnz),
      fun hv hh => by
        show HvSh t _ h.state hv
        rw [hst]
        exact hXm _ _ (by omega) (by omega) (by decide) (by decide) hv hh⟩

/-! #### one iteration of the header-line loop -/

/-- **the loop invariant of the shift theorem for ParseHdrLine**: the panic-freedom invariants of SafeHdrLine /
    HdrLineL1 plus `HlSh` -/
def HlAll (t : Buf) (i : Nat) (st : HLσ) : Prop := HlSafe t i st ∧ hlInv t i st ∧ HlSh t i st

theorem smHdr_startName (k : Nat) (h : Hdr) (i : Nat) (hk : k + i ≤ 65535) :
    ({ shHdr k h with state := .name, name := PField.set (k + i) (k + i) } : Hdr) =
      shHdr k { h with state := .name, name := PField.set i i } := by
  unfold shHdr
  simp only [shHn, set_shift k i i hk]

theorem smHdr_startVal (k : Nat) (h : Hdr) (n : Nat) (hst : h.state = .bodyStart) (hn : 1 ≤ n) (hk : k + n ≤ 65535) :
    ({ shHdr k h with state := .val, val := PField.set (k + n) (k + n) } : Hdr) =
      shHdr k { h with state := .val, val := PField.set n n } := by
  have e1 : shO k (PField.set n n) = PField.set (k + n) (k + n) := by
    rw [set_shift k n n hk, sl_shO_of_pos]
    have : (PField.set n n).offs = n := flo_set_offs n n (by omega)
    omega
  unfold shHdr
  simp only [e1, hst, shHn]

theorem smHdr_extVal (k : Nat) (h : Hdr) (j : Nat) (hst : h.state = .val) (hvn : 1 ≤ h.val.offs) (hvo : h.val.offs ≤ j)
    (hk : k + j ≤ 65535) :
    ({ shHdr k h with val := (shHdr k h).val.extend (k + j), pnc := (shHdr k h).pnc || (shHdr k h).val.extendPanics (k + j),
                      state := .valEnd } : Hdr) =
      shHdr k { h with val := h.val.extend j, pnc := h.pnc || h.val.extendPanics j, state := .valEnd } := by
  have e0 : (shHdr k h).val = shF k h.val := by
    show shO k h.val = _; exact sl_shO_of_pos k h.val (by omega)
  have e1 : shO k (h.val.extend j) = shF k (h.val.extend j) := by
    apply sl_shO_of_pos
    show 1 ≤ h.val.offs + _
    omega
  rw [e0, extend_shift k h.val j hk hvo, extendPanics_shift]
  unfold shHdr
  simp only [e1, hst, shHn]

theorem smHlStep (pre t : Buf) (i : Nat) (c : UInt8) (st : HLσ) (hfit : pre.size + t.size ≤ 65535)
    (hb : t[i]? = some c) (hA : HlAll t i st) :
    smStepRel pre.size (shHL pre.size) (smRelHL pre.size)
        (hlStep (pre ++ t) (pre.size + i) c (shHL pre.size st)) (hlStep t i c st) ∧
      smPost t (hlStep t i c st) := by
  obtain ⟨h, hbv⟩ := st
  obtain ⟨H, hI, hX⟩ := hA
  have hlt := get?_lt hb
  have hi : i ≤ t.size := H.hi
  have hok : hbOK t i hbv := hI.2.2
  have hSv : ∀ hv, hbv = some hv → HvSafe t i h.state hv := fun hv hh => H.hv hv hh
  have hXv : ∀ hv, hbv = some hv → HvSh t i h.state hv := fun hv hh => hX.hv hv hh
  have hXm : ∀ (j : Nat) (S : HState), ¬ h.state.isVal → i ≤ j → j ≤ t.size → S ≠ .hContact → S ≠ .hPAI →
      ∀ hv, hbv = some hv → HvSh t j S hv := fun j S _ a1 a2 a3 a4 hv hh => (hXv hv hh).monoNV a1 a2 a3 a4
  have hSm : ∀ (j : Nat) (S : HState), ¬ h.state.isVal → i ≤ j → j ≤ t.size → S ≠ .hContact → S ≠ .hPAI →
      ∀ hv, hbv = some hv → HvSafe t j S hv := fun j S a0 a1 a2 a3 a4 hv hh =>
    ((hSv hv hh).mono a1 a2).restate (isVal_hContact a0) (isVal_hPAI a0) a3 a4
  have hX' : HlSh t i (h, hbv) := hX
  unfold smPost hlStep
  simp only [shHL, shHdr_state]
  cases hst : h.state <;> simp only
  case init =>
    have hnv : ¬ h.state.isVal := not_isVal_of (by simp [hst])
    have hfinE : ∀ j : Nat, ({ shHdr pre.size h with state := HState.fin } : Hdr) = shHdr pre.size { h with state := .fin } :=
      fun _ => smHdr_restate pre.size h .fin (by rw [hst]; rfl)
    by_cases h13 : (c == 13) = true
    · simp only [h13, ↓reduceIte]
      rw [get?_shift1]
      cases hc1 : t[i + 1]? with
      | none => exact ⟨⟨rfl, rfl, smRelHL_refl _ _ (h, hbv)⟩, fun _ => hX'⟩
      | some c1 =>
        simp only
        rw [hfinE 0]
        by_cases h10 : (c1 == 10) = true
        · simp only [h10, ↓reduceIte]
          exact ⟨⟨by omega, rfl, smRelHL_refl _ _ (_, hbv)⟩, fun hh => by rcases hh with hh | hh <;> cases hh⟩
        · simp only [h10, Bool.false_eq_true, ↓reduceIte]
          exact ⟨⟨by omega, rfl, smRelHL_refl _ _ (_, hbv)⟩, fun hh => by rcases hh with hh | hh <;> cases hh⟩
    · simp only [h13, Bool.false_eq_true, ↓reduceIte]
      by_cases h10 : (c == 10) = true
      · simp only [h10, ↓reduceIte]
        rw [hfinE 0]
        exact ⟨⟨by omega, rfl, smRelHL_refl _ _ (_, hbv)⟩, fun hh => by rcases hh with hh | hh <;> cases hh⟩
      · simp only [h10, Bool.false_eq_true, ↓reduceIte]
        rw [smHdr_startName pre.size h i (by omega)]
        exact smHlName pre t i _ hbv hfit hlt rfl
          (by show (PField.set i i).offs ≤ i; rw [flo_set_offs i i (by omega)]; exact Nat.le_refl _) hok
          (hSm i .name hnv (Nat.le_refl _) hi (by decide) (by decide))
          (hXm i .name hnv (Nat.le_refl _) hi (by decide) (by decide))
  case name =>
    have hnv : ¬ h.state.isVal := not_isVal_of (by simp [hst])
    exact smHlName pre t i h hbv hfit hlt hst (H.nameI hst) hok
      (hSm i .name hnv (Nat.le_refl _) hi (by decide) (by decide))
      (hXm i .name hnv (Nat.le_refl _) hi (by decide) (by decide))
  case nameEnd =>
    have hnv : ¬ h.state.isVal := not_isVal_of (by simp [hst])
    have h1 : 1 ≤ i := hX.pos (by rw [hst]; decide)
    have hnz : 1 ≤ h.name.offs + h.name.len := hX.nameNz (by rw [hst]; decide) (by rw [hst]; decide) (by rw [hst]; decide)
    have hge := skipWS_ge t i
    have hle := skipWS_le t i hi
    rw [skipWS_shift, get?_shift]
    cases hg : t[skipWS t i]? with
    | none =>
      simp only
      refine ⟨⟨rfl, rfl, smRelHL_refl _ _ (h, hbv)⟩, fun _ => ?_⟩
      exact ⟨fun _ => by omega, (fun hh => by simp only at hh; rw [hst] at hh; rcases hh with hh | hh <;> cases hh),
        (fun _ _ _ => hnz), fun hv hh => by
          show HvSh t _ h.state hv
          rw [hst]; exact hXm _ _ hnv hge hle (by decide) (by decide) hv hh⟩
    | some c1 =>
      have hjl := get?_lt hg
      simp only
      by_cases hc : (c1 == 58) = true
      · simp only [hc, ↓reduceIte]
        rw [smHdr_restate pre.size h .bodyStart (by rw [hst]; rfl), Nat.add_assoc]
        exact smHlAfterColon pre t (skipWS t i + 1) _ hbv hfit (by omega) (by omega) rfl H.nameF hnz
          (hbOK_mono hok (by omega) (by omega))
          (hSm _ .bodyStart hnv (by omega) (by omega) (by decide) (by decide))
          (hXm _ .bodyStart hnv (by omega) (by omega) (by decide) (by decide))
      · simp only [hc, Bool.false_eq_true, ↓reduceIte]
        exact ⟨⟨rfl, rfl, smRelHL_refl _ _ (h, hbv)⟩, fun hh => by rcases hh with hh | hh <;> cases hh⟩
  case bodyStart =>
    have hnv : ¬ h.state.isVal := not_isVal_of (by simp [hst])
    have h1 : 1 ≤ i := hX.pos (by rw [hst]; decide)
    have hnz : 1 ≤ h.name.offs + h.name.len := hX.nameNz (by rw [hst]; decide) (by rw [hst]; decide) (by rw [hst]; decide)
    rw [skipLWS_shift]
    rcases hsk : skipLWS t i 0 with ⟨n, crl, e⟩
    have hr := skipLWS_range t i 0 hsk
    have hn := hr.2 hi
    have hv4 := skipLWS_verdicts t i 0 hsk
    rcases hv4 with rfl | rfl | rfl | rfl <;> simp only
    · obtain ⟨_, c', hc, _⟩ := skipLWS_ok t i 0 hsk
      have hlt' := get?_lt hc
      rw [smHdr_startVal pre.size h n hst (by omega) (by omega)]
      refine ⟨⟨by omega, rfl⟩, ?_⟩
      exact ⟨fun _ => by omega,
        (fun _ => by show 1 ≤ (PField.set n n).offs; rw [flo_set_offs n n (by omega)]; omega),
        (fun _ _ _ => hnz),
        fun hv hh => by
          show HvSh t _ HState.val hv
          exact hXm _ _ hnv (by omega) (by omega) (by decide) (by decide) hv hh⟩
    · have hrg := skipLWS_eoh_range t i 0 hsk (by decide)
      rw [smHdr_restate pre.size h .fin (smHn_toFin pre.size h.state h.name (by rw [hst]; decide) hnz)]
      refine ⟨⟨by omega, rfl, smRelHL_refl _ _ (_, hbv)⟩, fun _ => ?_⟩
      exact ⟨fun _ => by omega, (fun hh => by rcases hh with hh | hh <;> cases hh), (fun _ _ hh => absurd rfl hh),
        fun hv hh => by
          show HvSh t _ HState.fin hv
          exact hXm _ _ hnv (by omega) (by omega) (by decide) (by decide) hv hh⟩
    · exact ⟨⟨rfl, rfl, smRelHL_refl _ _ (h, hbv)⟩, fun hh => by rcases hh with hh | hh <;> cases hh⟩
    · refine ⟨⟨rfl, rfl, smRelHL_refl _ _ (h, hbv)⟩, fun _ => ?_⟩
      exact ⟨fun _ => by omega, (fun hh => by simp only at hh; rw [hst] at hh; rcases hh with hh | hh <;> cases hh),
        (fun _ _ _ => hnz),
        fun hv hh => by
          show HvSh t _ h.state hv
          rw [hst]
          exact hXm _ _ hnv (by omega) (by omega) (by decide) (by decide) hv hh⟩
  case val =>
    have hnv : ¬ h.state.isVal := not_isVal_of (by simp [hst])
    have h1 : 1 ≤ i := hX.pos (by rw [hst]; decide)
    have hnz : 1 ≤ h.name.offs + h.name.len := hX.nameNz (by rw [hst]; decide) (by rw [hst]; decide) (by rw [hst]; decide)
    have hvn : 1 ≤ h.val.offs := hX.valNz (Or.inl hst)
    have hvo : h.val.offs ≤ i := H.valI (Or.inl hst)
    have hge := skipToken_ge t i
    have hle := skipToken_le t i hi
    rw [skipToken_shift, get?_shift]
    cases hg : t[skipToken t i]? with
    | none =>
      simp only
      refine ⟨⟨rfl, rfl, smRelHL_refl _ _ (h, hbv)⟩, fun _ => ?_⟩
      exact ⟨fun _ => by omega, (fun _ => hvn), (fun _ _ _ => hnz), fun hv hh => by
          show HvSh t _ h.state hv
          rw [hst]; exact hXm _ _ hnv hge hle (by decide) (by decide) hv hh⟩
    | some c1 =>
      have hjl := get?_lt hg
      simp only
      rw [smHdr_extVal pre.size h (skipToken t i) hst hvn (by omega) (by omega)]
      exact smHlValEnd pre t (skipToken t i) _ hbv hle (by omega) rfl hnz
        (by show 1 ≤ (h.val.extend (skipToken t i)).offs; exact hvn)
        (hXm _ .valEnd hnv hge hle (by decide) (by decide))
  case valEnd =>
    have h1 : 1 ≤ i := hX.pos (by rw [hst]; decide)
    have hnz : 1 ≤ h.name.offs + h.name.len := hX.nameNz (by rw [hst]; decide) (by rw [hst]; decide) (by rw [hst]; decide)
    exact smHlValEnd pre t i h hbv hi h1 hst hnz (hX.valNz (Or.inr hst)) (fun hv hh => by rw [← hst]; exact hXv hv hh)
  case fin =>
    exact ⟨⟨rfl, rfl, smRelHL_refl _ _ (h, hbv)⟩, fun hh => by rcases hh with hh | hh <;> cases hh⟩
  all_goals
    (have hisv : h.state.isVal := by rw [hst]; unfold HState.isVal; simp
     cases hbv with
     | none =>
       unfold hlCont
       exact ⟨⟨rfl, rfl, smRelHL_refl pre.size .bug ({ h with pnc := true }, none)⟩,
         fun hh => by rcases hh with hh | hh <;> cases hh⟩
     | some hv => exact smHlCont pre t i h hv hfit H hI hX hisv)

/-! ### ParseHdrLine -/

theorem smHlAll_cont (pre t : Buf) (hfit : pre.size + t.size ≤ 65535) (i : Nat) (c : UInt8) (st : HLσ) (i' : Nat)
    (st' : HLσ) (hb : t[i]? = some c) (hA : HlAll t i st) (hs : hlStep t i c st = .cont i' st') : HlAll t i' st' := by
  have hlt := hl_progress t i c st i' st' hb hs
  have h1 := hlStep_safe t i c st (by omega) hb hA.1 hA.2.1
  have h2 := (smHlStep pre t i c st hfit hb hA).2
  unfold smPost at h2
  rw [hs] at h1 h2
  exact ⟨h1, hl_invCont t i c st i' st' hb hA.2.1 hs hlt, h2⟩

/-- **ParseHdrLine is position independent** (loop form) -/
theorem smHdrLoop (pre t : Buf) (o : Nat) (st : HLσ) (hfit : pre.size + t.size ≤ 65535) (hA : HlAll t o st) :
    smResRel pre.size (smRelHL pre.size) (runLoop hlMachine (pre ++ t) (pre.size + o) (shHL pre.size st))
      (runLoop hlMachine t o st) ∧
    (((runLoop hlMachine t o st).2.1 = .ok ∨ (runLoop hlMachine t o st).2.1 = .moreBytes) →
      HlSh t (runLoop hlMachine t o st).1 (runLoop hlMachine t o st).2.2) := by
  refine ⟨?_, ?_⟩
  · exact runLoop_shiftR hlMachine pre t (shHL pre.size) (smRelHL pre.size) (HlAll t) (smRelHL_refl pre.size)
      (fun i c s i' s' hb hI hs _ => smHlAll_cont pre t hfit i c s i' s' hb hI hs)
      (fun i c s hb hI => (smHlStep pre t i c s hfit hb hI).1)
      (fun i s _ _ => ⟨rfl, rfl, smRelHL_refl _ _ _⟩) o st hA
  · exact runLoop_safe2 hlMachine t (HlAll t) (fun n e s => (e = .ok ∨ e = .moreBytes) → HlSh t n s) hl_progress
      (by
        intro i c s hb hI
        have h2 := (smHlStep pre t i c s hfit hb hI).2
        change StepAll2 _ _ (hlStep t i c s)
        unfold smPost at h2
        rcases hc : hlStep t i c s with ⟨i', s'⟩ | ⟨n, e, s'⟩
        · exact smHlAll_cont pre t hfit i c s i' s' hb hI hc
        · rw [hc] at h2; exact h2)
      (fun i s hI _ => hI.2.2) o st hA

/-- **ParseHdrLine is position independent**: for a legitimate (header, values) pair (`HlAll`), the call on
    `pre ++ t` at `pre.size + o` with the moved header and values returns the moved result: offset moved by
    `pre.size`, the same verdict, and the moved header and values — exactly after OK / MoreBytes / Empty, and up to
    the stale (never reported) restart offset of the name-addr value that was being parsed after an error verdict
    (`smRelHL`). After OK and MoreBytes the returned pair satisfies the shift invariant `HlSh` again at the
    returned offset. -/
theorem parseHdrLine_shift (pre t : Buf) (o : Nat) (h : Hdr) (hb : Option PHdrVals) (hfit : pre.size + t.size ≤ 65535)
    (hA : HlAll t o (h, hb)) {o' : Nat} {e : Err} {h' : Hdr} {hb' : Option PHdrVals}
    (hr : parseHdrLine t o h hb = (o', e, h', hb')) :
    ∃ h'' hb'', parseHdrLine (pre ++ t) (pre.size + o) (shHdr pre.size h) (hb.map (shHv pre.size)) =
        (pre.size + o', e, h'', hb'') ∧
      smRelHL pre.size e (h'', hb'') (h', hb') ∧ ((e = .ok ∨ e = .moreBytes) → HlSh t o' (h', hb')) := by
  obtain ⟨R, P⟩ := smHdrLoop pre t o (h, hb) hfit hA
  unfold parseHdrLine at hr ⊢
  rcases hrl : runLoop hlMachine t o (h, hb) with ⟨o1, e1, h1, hb1⟩
  rw [hrl] at hr R P
  simp only [Prod.mk.injEq] at hr
  obtain ⟨rfl, rfl, rfl, rfl⟩ := hr
  rcases hrl' : runLoop hlMachine (pre ++ t) (pre.size + o) (shHL pre.size (h, hb)) with ⟨o2, e2, h2, hb2⟩
  rw [hrl'] at R
  obtain ⟨r1, r2, r3⟩ := R
  simp only at r1 r2 r3 P
  subst r1 r2
  have e0 : runLoop hlMachine (pre ++ t) (pre.size + o) (shHdr pre.size h, hb.map (shHv pre.size)) = (pre.size + o1, e2, h2, hb2) := hrl'
  rw [e0]
  exact ⟨h2, hb2, rfl, r3, P⟩

/-- … in the plain form after OK / MoreBytes / Empty -/
theorem parseHdrLine_shift_exact (pre t : Buf) (o : Nat) (h : Hdr) (hb : Option PHdrVals)
    (hfit : pre.size + t.size ≤ 65535) (hA : HlAll t o (h, hb)) {o' : Nat} {e : Err} {h' : Hdr} {hb' : Option PHdrVals}
    (hr : parseHdrLine t o h hb = (o', e, h', hb')) (he : smExact e) :
    parseHdrLine (pre ++ t) (pre.size + o) (shHdr pre.size h) (hb.map (shHv pre.size)) =
      (pre.size + o', e, shHdr pre.size h', hb'.map (shHv pre.size)) := by
  obtain ⟨h'', hb'', a1, a2, _⟩ := parseHdrLine_shift pre t o h hb hfit hA hr
  rw [a1]
  have := a2.2 he
  simp only [shHL, Prod.mk.injEq] at this
  rw [this.1, this.2]

/-! ### (3) the header list and ParseHeaders -/

theorem shHls_cur (k : Nat) (hl : HdrLst) : (shHls k hl).cur = shHdr k hl.cur := by
  unfold HdrLst.cur shHls
  simp only [Array.size_map]
  split
  · rename_i h; simp [h]
  · rfl

theorem shHls_setCur (k : Nat) (hl : HdrLst) (g : Hdr) : shHls k (hl.setCur g) = (shHls k hl).setCur (shHdr k g) := by
  unfold HdrLst.setCur shHls
  simp only [Array.size_map]
  split
  · simp only [Array.set!_eq_setIfInBounds, Array.map_setIfInBounds]
  · rfl

theorem shHls_setHdr (k : Nat) (hl : HdrLst) (g : Hdr) : shHls k (hl.setHdr g) = (shHls k hl).setHdr (shHdr k g) := by
  unfold HdrLst.setHdr
  have h1 : (shHls k hl).h = hl.h.map (shHdr k) := rfl
  rw [h1, Array.size_map, shHdr_type, Array.getElem?_map]
  by_cases hc : (decide (g.type ≥ 1) && decide (g.type - 1 < hl.h.size)) = true
  · rw [if_pos hc, if_pos hc]
    cases hg : hl.h[g.type - 1]? with
    | none => rfl
    | some old =>
      simp only [Option.map_some]
      have hm : (shHdr k old).missing = old.missing := rfl
      rw [hm]
      split
      · unfold shHls
        simp only [Array.set!_eq_setIfInBounds, Array.map_setIfInBounds]
      · rfl
  · rw [if_neg hc, if_neg hc]

theorem shHls_accept (k : Nat) (hl : HdrLst) (g : Hdr) : shHls k (hl.accept g) = (shHls k hl).accept (shHdr k g) := by
  unfold HdrLst.accept
  simp only
  have e1 : ({ shHls k hl with pflags := ((shHls k hl).pflags ||| 1 <<< (shHdr k g).type) % 65536 } : HdrLst) =
      shHls k { hl with pflags := (hl.pflags ||| 1 <<< g.type) % 65536 } := rfl
  rw [e1, ← shHls_setHdr]
  have e2 : ((shHls k hl).n < (shHls k hl).hdrs.size) = (hl.n < hl.hdrs.size) := by
    show (hl.n < (hl.hdrs.map _).size) = _; rw [Array.size_map]
  simp only [e2]
  split <;> rfl

/-- **a legitimate (header list, values) pair** for the shift theorem of ParseHeaders at offset `offs`: the
    hypotheses of the panic-freedom theorem `parseHeaders_safe` plus `HlSh` for the header in progress -/
structure HlsAll (t : Buf) (offs : Nat) (hl : HdrLst) (hb : Option PHdrVals) : Prop where
  ok1 : hlsOK t hl
  ok2 : hbOK t offs hb
  pend : hlsPend hl hb
  ho : offs ≤ t.size
  safe : HlsSafe t offs hl hb
  sh : HlSh t offs (hl.cur, hb)

theorem HlsAll.line {t : Buf} {offs : Nat} {hl : HdrLst} {hb : Option PHdrVals} (h : HlsAll t offs hl hb) :
    HlAll t offs (hl.cur, hb) :=
  ⟨h.safe.cur, ⟨h.ho, hlsOK_cur h.ok1, h.ok2⟩, h.sh⟩

/-- the values object returned by ParseHeaders: moved, exactly after a non-error verdict and up to the stale restart
    offset after an error -/
def smRelHb (k : Nat) (e : Err) (x y : Option PHdrVals) : Prop :=
  x.map smHvObs = (y.map (shHv k)).map smHvObs ∧ (smExact e → x = y.map (shHv k))

theorem smRelHL_split {k : Nat} {e : Err} {x y : HLσ} (h : smRelHL k e x y) :
    x.1 = shHdr k y.1 ∧ smRelHb k e x.2 y.2 := by
  obtain ⟨h1, h2⟩ := h
  unfold smHLObs shHL at h1
  simp only [Prod.mk.injEq] at h1
  refine ⟨h1.1, h1.2, fun he => ?_⟩
  have := h2 he
  rw [this]
  rfl

theorem HlSh_newLine {t : Buf} {n : Nat} {g : Hdr} {v : Option PHdrVals} (h : HlSh t n (g, v)) (hf : g.state = .fin)
    (hn : n ≤ t.size) : HlSh t n ({}, v) :=
  ⟨fun hh => absurd rfl hh, (fun hh => by rcases hh with hh | hh <;> cases hh), fun hh => absurd rfl hh,
   fun hv hh => by
     have := h.hv hv hh
     simp only [hf] at this
     show HvSh t n HState.init hv
     exact this.monoNV (Nat.le_refl _) hn (by decide) (by decide)⟩

/-- **ParseHeaders is position independent**: from a legitimate pair the call on `pre ++ t` at `pre.size + offs`
    with the moved header list and values returns the offset moved by `pre.size`, the same verdict, the moved header
    list (every stored header, the first-of-type table, counts and type flags) and the moved values (exactly after a
    non-error verdict; up to the stale restart offset of the name-addr value in progress after an error). After
    MoreBytes the header in progress and the values satisfy `HlSh` at the returned offset. -/
theorem parseHeaders_shift (pre t : Buf) (offs : Nat) (hl : HdrLst) (hb : Option PHdrVals)
    (hfit : pre.size + t.size ≤ 65535) (hA : HlsAll t offs hl hb) :
    ∃ hb'', parseHeaders (pre ++ t) (pre.size + offs) (shHls pre.size hl) (hb.map (shHv pre.size)) =
        (pre.size + (parseHeaders t offs hl hb).1, (parseHeaders t offs hl hb).2.1,
          shHls pre.size (parseHeaders t offs hl hb).2.2.1, hb'') ∧
      smRelHb pre.size (parseHeaders t offs hl hb).2.1 hb'' (parseHeaders t offs hl hb).2.2.2 ∧
      ((parseHeaders t offs hl hb).2.1 = .moreBytes →
        HlSh t (parseHeaders t offs hl hb).1 ((parseHeaders t offs hl hb).2.2.1.cur, (parseHeaders t offs hl hb).2.2.2)) := by
  induction hk : t.size - offs using Nat.strongRecOn generalizing offs hl hb with
  | _ k ih =>
    obtain ⟨hok1, hok2, hpe, ho, H, hX⟩ := hA
    rw [parseHeaders.eq_1 t offs hl hb, parseHeaders.eq_1 (pre ++ t) (pre.size + offs)]
    by_cases hlt : offs < t.size
    · rw [if_pos hlt, if_pos (by rw [Array.size_append]; omega)]
      have hI : hlOK t offs hl.cur hb := ⟨by omega, hlsOK_cur hok1, hok2⟩
      rcases hp1 : parseHdrLine t offs hl.cur hb with ⟨n1, e1, g1, v1⟩
      obtain ⟨hO, hS, hF, hN, hE⟩ := parseHdrLine_safe t offs hl.cur hb (by omega) H.cur hI hp1
      obtain ⟨g2, v2, a1, a2, a3⟩ := parseHdrLine_shift pre t offs hl.cur hb hfit ⟨H.cur, hI, hX⟩ hp1
      rw [shHls_cur, a1]
      obtain ⟨b1, b2⟩ := smRelHL_split a2
      simp only at b1 b2
      subst b1
      cases e1 <;> simp only
      case ok =>
        have hpost := parseHdrLine_post t offs hl.cur hb hI hp1 (Or.inl rfl)
        have hg : offs < n1 := parseHdrLine_ok_gt t offs hl.cur hb hI hpe.1 hp1
        rw [if_pos hg, if_pos (by omega)]
        have hv2 : v2 = v1.map (shHv pre.size) := b2.2 (Or.inl rfl)
        subst hv2
        rw [← shHls_setCur, ← shHls_accept]
        have hX1 := a3 (Or.inl rfl)
        have hcur := flo_next_cur hl g1 H.clean
        exact ih (t.size - n1) (by omega) n1 _ v1
          ⟨hlsOK_next g1 hok1, hpost.2, hlsPend_next g1 v1 hpe, hpost.1,
            H.next g1 (hS (Or.inl rfl)) (hF rfl) (by omega), by rw [hcur]; exact HlSh_newLine hX1 (hF rfl) hN⟩ rfl
      case empty =>
        have hv2 : v2 = v1.map (shHv pre.size) := b2.2 (Or.inr (Or.inr rfl))
        subst hv2
        rw [← shHls_setCur]
        by_cases hn0 : hl.n > 0
        · rw [if_pos hn0, if_pos (show (shHls pre.size hl).n > 0 from hn0)]
          exact ⟨_, rfl, ⟨rfl, fun _ => rfl⟩, fun hh => by cases hh⟩
        · rw [if_neg hn0, if_neg (show ¬ (shHls pre.size hl).n > 0 from hn0)]
          exact ⟨_, rfl, ⟨rfl, fun _ => rfl⟩, fun hh => by cases hh⟩
      case moreBytes =>
        have hv2 : v2 = v1.map (shHv pre.size) := b2.2 (Or.inr (Or.inl rfl))
        subst hv2
        rw [← shHls_setCur]
        refine ⟨_, rfl, ⟨rfl, fun _ => rfl⟩, fun _ => ?_⟩
        show HlSh t n1 ((hl.setCur g1).cur, v1)
        rw [hlSetCur_cur]
        exact a3 (Or.inr rfl)
      all_goals
        (rw [← shHls_setCur]
         exact ⟨v2, rfl, ⟨b2.1, fun hh => by rcases hh with hh | hh | hh <;> cases hh⟩, fun hh => by cases hh⟩)
    · rw [if_neg hlt, if_neg (by rw [Array.size_append]; omega)]
      exact ⟨_, rfl, ⟨rfl, fun _ => rfl⟩, fun _ => hX⟩

/-! ### (4) the first line as part of a message -/

/-- states of the request path before the line is complete -/
def smReqSt (s : FLState) : Prop := s = .reqMethod ∨ s = .reqURI ∨ s = .reqVer ∨ s = .crlf

/-- **the first-line object moved by `k`**: the request-line fields (`shReq`) or the status-line fields (`shRpl`),
    according to the state; in the final state a status line is recognised by its status-code field (3 bytes; a
    request line leaves that field at its zero value) -/
def shFl (k : Nat) (pl : PFLine) : PFLine :=
  match pl.state with
  | .init => pl
  | .rplStatus => shRpl k pl
  | .rplReason => shRpl k pl
  | .fin => if pl.statusCode.len = 0 then shReq k pl else shRpl k pl
  | _ => shReq k pl

theorem shFl_new (k : Nat) : shFl k {} = {} := rfl

/-- result of the request path: finished with OK, or still in a request state; the status-code field is untouched -/
def smReqRes (pl : PFLine) (r : Nat × Err × PFLine) : Prop :=
  r.2.2.statusCode = pl.statusCode ∧ ((r.2.1 = .ok ∧ r.2.2.state = .fin) ∨ (r.2.1 ≠ .ok ∧ smReqSt r.2.2.state))

theorem smFlCRLF_res (b : Buf) (i : Nat) (pl : PFLine) (hst : pl.state = .crlf) : smReqRes pl (flCRLF b i pl) := by
  unfold flCRLF
  rcases hs : skipCRLF b i with ⟨n, crl, e⟩
  cases e <;> simp only
  case ok => exact ⟨rfl, Or.inl ⟨rfl, rfl⟩⟩
  all_goals exact ⟨rfl, Or.inr ⟨(by intro hh; cases hh), Or.inr (Or.inr (Or.inr hst))⟩⟩

theorem smFlReqVer_res (b : Buf) (i : Nat) (pl : PFLine) (hst : pl.state = .reqVer) : smReqRes pl (flReqVer b i pl) := by
  unfold flReqVer
  simp only
  split
  · exact ⟨rfl, Or.inr ⟨(by intro hh; cases hh), Or.inr (Or.inr (Or.inl hst))⟩⟩
  · split
    · exact ⟨rfl, Or.inr ⟨(by intro hh; cases hh), Or.inr (Or.inr (Or.inl hst))⟩⟩
    · split
      · exact ⟨rfl, Or.inr ⟨(by intro hh; cases hh), Or.inr (Or.inr (Or.inl hst))⟩⟩
      · exact smFlCRLF_res b _ _ rfl

theorem smFlReqURI_res (b : Buf) (i : Nat) (pl : PFLine) (hst : pl.state = .reqURI) : smReqRes pl (flReqURI b i pl) := by
  unfold flReqURI
  simp only
  split
  · exact ⟨rfl, Or.inr ⟨(by intro hh; cases hh), Or.inr (Or.inl hst)⟩⟩
  · split
    · exact ⟨rfl, Or.inr ⟨(by intro hh; cases hh), Or.inr (Or.inl hst)⟩⟩
    · split
      · exact ⟨rfl, Or.inr ⟨(by intro hh; cases hh), Or.inr (Or.inl hst)⟩⟩
      · exact smFlReqVer_res b _ _ rfl

theorem smFlReqMethod_res (b : Buf) (i : Nat) (pl : PFLine) (hst : pl.state = .reqMethod) :
    smReqRes pl (flReqMethod b i pl) := by
  unfold flReqMethod
  simp only
  split
  · exact ⟨rfl, Or.inr ⟨(by intro hh; cases hh), Or.inl hst⟩⟩
  · split
    · exact ⟨rfl, Or.inr ⟨(by intro hh; cases hh), Or.inl hst⟩⟩
    · split
      · exact ⟨rfl, Or.inr ⟨(by intro hh; cases hh), Or.inl hst⟩⟩
      · split
        · exact ⟨rfl, Or.inr ⟨(by intro hh; cases hh), Or.inl hst⟩⟩
        · exact smFlReqURI_res b _ _ rfl

theorem smReq_eq_fl (k : Nat) (pl : PFLine) (r : Nat × Err × PFLine) (h0 : pl.statusCode.len = 0) (h : smReqRes pl r) :
    shReq k r.2.2 = shFl k r.2.2 := by
  obtain ⟨h1, h2⟩ := h
  unfold shFl
  rcases h2 with ⟨_, h2⟩ | ⟨_, h2 | h2 | h2 | h2⟩ <;> rw [h2] <;> simp only
  rw [h1, h0]; rfl

/-- result of the status-line path -/
def smRplRes (r : Nat × Err × PFLine) : Prop :=
  (r.2.1 = .ok ∧ r.2.2.state = .fin ∧ r.2.2.statusCode.len ≠ 0) ∨
    (r.2.1 ≠ .ok ∧ ((r.2.2.state = .rplStatus ∧ r.2.1 = .badChar) ∨ (r.2.2.state = .rplReason ∧ r.2.2.statusCode.len ≠ 0)))

theorem smFlRplReason_res (b : Buf) (i : Nat) (pl : PFLine) (hst : pl.state = .rplReason) (h0 : pl.statusCode.len ≠ 0) :
    smRplRes (flRplReason b i pl) := by
  unfold flRplReason
  rcases hs : skipLine b i with ⟨e, crl, err⟩
  cases err <;> simp only
  case ok => exact Or.inl ⟨rfl, rfl, h0⟩
  all_goals exact Or.inr ⟨(by intro hh; cases hh), Or.inr ⟨hst, h0⟩⟩

theorem smFlReply_res (b : Buf) (i0 : Nat) (pl : PFLine) (_hlt : i0 + 8 + 3 < 65536) : smRplRes (flReply b i0 8 pl) := by
  unfold flReply
  simp only
  split
  · split
    · exact Or.inr ⟨(by intro hh; cases hh), Or.inl ⟨rfl, rfl⟩⟩
    · refine smFlRplReason_res b _ _ rfl ?_
      show (PField.set (i0 + 8) (i0 + 8 + 3)).len ≠ 0
      unfold PField.set trunc16
      simp only
      omega
  · exact Or.inr ⟨(by intro hh; cases hh), Or.inl ⟨rfl, rfl⟩⟩

theorem smRpl_eq_fl (k : Nat) (r : Nat × Err × PFLine) (h : smRplRes r) : shRpl k r.2.2 = shFl k r.2.2 := by
  unfold shFl
  rcases h with ⟨_, h2, h3⟩ | ⟨_, ⟨h2, _⟩ | ⟨h2, _⟩⟩ <;> rw [h2] <;> simp only
  rw [if_neg h3]

/-! ### (4) the message object -/

/-- the body field: set (and moved) once the body section has been reached -/
def shMb (k : Nat) (st : MsgState) (f : PField) : PField :=
  match st with
  | .body | .fin | .noCLen => shF k f
  | _ => f

/-- `len(msg.Buf)` and the start of `RawMsg`: set (and moved) when the message is complete -/
def shMl (k : Nat) (st : MsgState) (x : Nat) : Nat :=
  match st with
  | .fin | .noCLen => x + k
  | _ => x

/-- the start offset of the message: set (and moved) by the first call -/
def shMo (k : Nat) (st : MsgState) (x : Nat) : Nat :=
  match st with
  | .init => x
  | _ => x + k

/-- **the message object moved by `k`**: first line (`shFl`), header list (`shHls`), header values (`shHv`), body, the
    start offset of the message, and — once the message is complete — the length of `Buf` and the start of `RawMsg`
    (`Buf = buf[0 : bufLen]`, `RawMsg = Buf[rawOffs : rawOffs + rawLen]`: `bufLen` and `rawOffs` grow by `k`, the length
    `rawLen` does not change); state and panic flag unchanged -/
def shMsg (k : Nat) (m : PSIPMsg) : PSIPMsg :=
  { m with fl := shFl k m.fl, pv := shHv k m.pv, hl := shHls k m.hl, body := shMb k m.state m.body,
           bufLen := shMl k m.state m.bufLen, rawOffs := shMl k m.state m.rawOffs, offs := shMo k m.state m.offs }

theorem shMsg_init (k : Nat) (m : PSIPMsg) (len : Nat) (kh kc : Nat) (hdrs cts : Option Unit) :
    shMsg k (m.init len (hdrs.map fun _ => Array.replicate kh {}) (cts.map fun _ => Array.replicate kc {})) =
      m.init len (hdrs.map fun _ => Array.replicate kh {}) (cts.map fun _ => Array.replicate kc {}) := by
  have key : ∀ a c : Nat, shMsg k (initObj len a c) = initObj len a c := by
    intro a c
    unfold shMsg initObj
    simp only [shHv_new, shHls_new, shFl_new]
    rfl
  cases hdrs <;> cases cts
  · exact key 10 10
  · exact key 10 kc
  · exact key kh 10
  · exact key kh kc

/-- the returned message is the moved message: exactly unless the call ended in the error state, where the header
    values agree up to the stale restart offset of the name-addr value that was being parsed -/
def smRelM (k : Nat) (x y : PSIPMsg) : Prop :=
  ({ x with pv := smHvObs x.pv } : PSIPMsg) = { shMsg k y with pv := smHvObs (shHv k y.pv) } ∧
    (y.state ≠ .err → x = shMsg k y)

theorem smRelM_refl (k : Nat) (y : PSIPMsg) : smRelM k (shMsg k y) y := ⟨rfl, fun _ => rfl⟩

/-- the result `r'` is the result `r` moved by `k` -/
def smResM (k : Nat) (r' r : Nat × Err × PSIPMsg) : Prop := r'.1 = k + r.1 ∧ r'.2.1 = r.2.1 ∧ smRelM k r'.2.2 r.2.2

theorem smResM_of_eq {k : Nat} {r' r : Nat × Err × PSIPMsg} (h : r' = shRes k (shMsg k) r) : smResM k r' r := by
  subst h; exact ⟨rfl, rfl, smRelM_refl k _⟩

theorem PSIPMsg.smExt {a b : PSIPMsg} (h1 : a.fl = b.fl) (h2 : a.pv = b.pv) (h3 : a.hl = b.hl) (h4 : a.body = b.body)
    (h5 : a.bufLen = b.bufLen) (h6 : a.rawOffs = b.rawOffs) (h7 : a.rawLen = b.rawLen) (h8 : a.state = b.state)
    (h9 : a.offs = b.offs) (h10 : a.pnc = b.pnc) : a = b := by
  cases a; cases b; simp_all

/-! #### the body section -/

theorem smSetBufs (pre t : Buf) (X m : PSIPMsg) (o : Nat) (S : MsgState) (hS : S = .fin ∨ S = .noCLen)
    (h1 : X.fl = shFl pre.size m.fl) (h2 : X.pv = shHv pre.size m.pv) (h3 : X.hl = shHls pre.size m.hl)
    (h4 : X.body = shF pre.size m.body) (h5 : X.offs = m.offs + pre.size) (h6 : X.pnc = m.pnc) :
    ({ X.setBufs (pre ++ t) (pre.size + o) with state := S } : PSIPMsg) =
      shMsg pre.size { m.setBufs t o with state := S } := by
  have hp1 : decide (pre.size + o > (pre ++ t).size) = decide (o > t.size) := by
    rw [Array.size_append]; exact decide_eq_decide.mpr ⟨fun h => by omega, fun h => by omega⟩
  have hp2 : decide (m.offs + pre.size > pre.size + o) = decide (m.offs > o) :=
    decide_eq_decide.mpr ⟨fun h => by omega, fun h => by omega⟩
  apply PSIPMsg.smExt
  · exact h1
  · exact h2
  · exact h3
  · show X.body = shMb pre.size S m.body
    rw [h4]; rcases hS with rfl | rfl <;> rfl
  · show pre.size + o = shMl pre.size S o
    rcases hS with rfl | rfl <;> (show _ = o + pre.size; omega)
  · show X.offs = shMl pre.size S m.offs
    rw [h5]; rcases hS with rfl | rfl <;> rfl
  · show pre.size + o - X.offs = o - m.offs
    rw [h5]; omega
  · rfl
  · show X.offs = shMo pre.size S m.offs
    rw [h5]; rcases hS with rfl | rfl <;> rfl
  · show (X.pnc || decide (pre.size + o > (pre ++ t).size) || decide (X.offs > pre.size + o)) = _
    rw [h5, h6, hp1, hp2]; rfl

theorem smMsgEnd (pre t : Buf) (X m : PSIPMsg) (o' : Nat)
    (h1 : X.fl = shFl pre.size m.fl) (h2 : X.pv = shHv pre.size m.pv) (h3 : X.hl = shHls pre.size m.hl)
    (h4 : X.body = shF pre.size m.body) (h5 : X.offs = m.offs + pre.size) (h6 : X.pnc = m.pnc)
    (hbo : m.body.offs ≤ o') (ho' : o' ≤ t.size) (hfit : pre.size + t.size ≤ 65535) :
    msgEnd X (pre ++ t) (pre.size + o') = shRes pre.size (shMsg pre.size) (msgEnd m t o') := by
  unfold msgEnd shRes
  simp only
  refine Prod.ext rfl (Prod.ext rfl ?_)
  exact smSetBufs pre t _ { m with body := m.body.extend o', pnc := m.pnc || m.body.extendPanics o' } o' .fin (Or.inl rfl)
    h1 h2 h3 (by show X.body.extend _ = _; rw [h4, extend_shift pre.size m.body o' (by omega) hbo]) h5
    (by show (X.pnc || X.body.extendPanics _) = _; rw [h4, h6, extendPanics_shift])

theorem msgBody_body_irrel (b : Buf) (o : Nat) (m : PSIPMsg) (f : PField) (flags : Nat) :
    msgBody b o { m with body := f } flags = msgBody b o m flags := by
  unfold msgBody; rfl

/-- **the body section is position independent** -/
theorem smMsgBody (pre t : Buf) (o : Nat) (m : PSIPMsg) (flags : Nat) (hst : m.state = .body) (ho : o ≤ t.size)
    (hfit : pre.size + t.size ≤ 65535) :
    msgBody (pre ++ t) (pre.size + o) (shMsg pre.size m) flags = shRes pre.size (shMsg pre.size) (msgBody t o m flags) := by
  have hset : (PField.set o o).offs = o := flo_set_offs o o (by omega)
  have hb1 : PField.set (pre.size + o) (pre.size + o) = shF pre.size (PField.set o o) := set_shift pre.size o o (by omega)
  have ho5 : (shMsg pre.size m).offs = m.offs + pre.size := by
    show shMo pre.size m.state m.offs = _; rw [hst]; rfl
  have hp : (shMsg pre.size m).pv.clen.parsed = m.pv.clen.parsed := smCl_parsed _ _
  have hu : (shMsg pre.size m).pv.clen.uiVal = m.pv.clen.uiVal := shCl_uiVal _ _
  have hsz : (pre ++ t).size = pre.size + t.size := Array.size_append ..
  have hend : ∀ (S : MsgState) (o' : Nat), o ≤ o' → o' ≤ t.size →
      msgEnd { shMsg pre.size m with body := PField.set (pre.size + o) (pre.size + o), state := S } (pre ++ t) (pre.size + o') =
        shRes pre.size (shMsg pre.size) (msgEnd { m with body := PField.set o o, state := S } t o') := by
    intro S o' a1 a2
    exact smMsgEnd pre t _ _ o' rfl rfl rfl hb1 ho5 rfl (by show (PField.set o o).offs ≤ o'; omega) a2 hfit
  have hend' : ∀ (o' : Nat), o ≤ o' → o' ≤ t.size →
      msgEnd { shMsg pre.size m with body := PField.set (pre.size + o) (pre.size + o) } (pre ++ t) (pre.size + o') =
        shRes pre.size (shMsg pre.size) (msgEnd { m with body := PField.set o o } t o') := by
    intro o' a1 a2
    exact smMsgEnd pre t _ _ o' rfl rfl rfl hb1 ho5 rfl (by show (PField.set o o).offs ≤ o'; omega) a2 hfit
  have hmore : ({ shMsg pre.size m with body := PField.set (pre.size + o) (pre.size + o) } : PSIPMsg) =
      shMsg pre.size { m with body := PField.set o o } := by
    unfold shMsg; simp only [hst, shMb, hb1]
  unfold msgBody
  simp only [hp, hu, hsz]
  by_cases f1 : hasFlag flags SIPMsgSkipBodyF = true
  · simp only [f1, ↓reduceIte]
    by_cases f2 : (hasFlag flags SIPMsgCLenReqF && !m.pv.clen.parsed) = true
    · simp only [f2, ↓reduceIte, shRes]
      refine Prod.ext rfl (Prod.ext rfl ?_)
      exact smSetBufs pre t _ { m with body := PField.set o o } o .noCLen (Or.inr rfl) rfl rfl rfl hb1 ho5 rfl
    · simp only [f2, Bool.false_eq_true, ↓reduceIte]
      exact hend .fin o (Nat.le_refl _) ho
  · simp only [f1, Bool.false_eq_true, ↓reduceIte]
    by_cases f3 : m.pv.clen.parsed = true
    · simp only [f3, ↓reduceIte]
      have hgt : (pre.size + o + m.pv.clen.uiVal > pre.size + t.size) = (o + m.pv.clen.uiVal > t.size) := by
        apply propext; constructor <;> intro h <;> omega
      simp only [hgt]
      by_cases f4 : o + m.pv.clen.uiVal > t.size
      · simp only [f4, ↓reduceIte]
        by_cases f5 : hasFlag flags SIPMsgNoMoreDataF = true
        · simp only [f5, ↓reduceIte]
          exact hend' t.size ho (Nat.le_refl _)
        · simp only [f5, Bool.false_eq_true, ↓reduceIte, shRes]
          exact Prod.ext rfl (Prod.ext rfl hmore)
      · simp only [f4, ↓reduceIte]
        rw [Nat.add_assoc]
        exact hend' (o + m.pv.clen.uiVal) (by omega) (by omega)
    · simp only [f3, Bool.false_eq_true, ↓reduceIte]
      by_cases f6 : hasFlag flags SIPMsgCLenReqF = true
      · simp only [f6, ↓reduceIte]
        exact hend' o (Nat.le_refl _) ho
      · simp only [f6, Bool.false_eq_true, ↓reduceIte]
        exact hend' t.size ho (Nat.le_refl _)

/-! #### the first line -/

/-- **a legitimate first-line object** for the shift theorem: new, or suspended on the request path (status-code
    field untouched) or in the reason phrase of a status line (status-code field set) -/
def FlSh (pl : PFLine) : Prop :=
  pl = {} ∨ (smReqSt pl.state ∧ pl.statusCode.len = 0) ∨ (pl.state = .rplReason ∧ pl.statusCode.len ≠ 0)

theorem FlSh_of_req {pl : PFLine} {r : Nat × Err × PFLine} (h0 : pl.statusCode.len = 0) (h : smReqRes pl r)
    (hm : r.2.1 = .moreBytes) : FlSh r.2.2 := by
  obtain ⟨h1, h2⟩ := h
  rcases h2 with ⟨h2, _⟩ | ⟨_, h2⟩
  · rw [hm] at h2; cases h2
  · exact Or.inr (Or.inl ⟨h2, by rw [h1]; exact h0⟩)

/-- ParseFLine on the request path -/
theorem smParseFLine_reqRes (b : Buf) (o : Nat) (pl : PFLine) (hst : smReqSt pl.state) : smReqRes pl (parseFLine b o pl) := by
  unfold parseFLine
  rcases hst with h | h | h | h <;> simp only [h]
  · exact smFlReqMethod_res b o pl h
  · exact smFlReqURI_res b o pl h
  · exact smFlReqVer_res b o pl h
  · exact smFlCRLF_res b o pl h

/-- **ParseFLine is position independent** for every legitimate first-line object, with the single translation
    `shFl`; after MoreBytes the returned object is legitimate again -/
theorem smParseFLine (pre t : Buf) (o : Nat) (pl : PFLine) (hfit : pre.size + t.size ≤ 65535) (hL : FlSh pl)
    (hS : FlSafe t o pl) :
    parseFLine (pre ++ t) (pre.size + o) (shFl pre.size pl) = shRes pre.size (shFl pre.size) (parseFLine t o pl) ∧
      ((parseFLine t o pl).2.1 = .moreBytes → FlSh (parseFLine t o pl).2.2) := by
  rcases hL with rfl | ⟨hst, h0⟩ | ⟨hst, h0⟩
  · rw [shFl_new, parseFLine_shift_new pre t o hS.ho hfit]
    have key : (if (bcPrefix sipVerSP (t.extract o (o + 8)).toList).2 then shRpl pre.size else shReq pre.size)
          (parseFLine t o {}).2.2 = shFl pre.size (parseFLine t o {}).2.2 ∧
        ((parseFLine t o {}).2.1 = .moreBytes → FlSh (parseFLine t o {}).2.2) := by
      unfold parseFLine
      simp only
      by_cases hlen : t.size - o < 14
      · simp only [hlen, ↓reduceIte]
        exact ⟨by split <;> rfl, fun _ => Or.inl rfl⟩
      · simp only [hlen, ↓reduceIte]
        rcases hp : bcPrefix sipVerSP (t.extract o (o + 8)).toList with ⟨l, ok⟩
        cases ok <;> simp only
        · have hr := smFlReqMethod_res t o { ({} : PFLine) with state := .reqMethod, method := PField.set o o } rfl
          simp only [Bool.false_eq_true, ↓reduceIte]
          exact ⟨smReq_eq_fl pre.size _ _ rfl hr, FlSh_of_req rfl hr⟩
        · have hl8 : l = 8 := by
            have hsz8 : (t.extract o (o + 8)).toList.length = 8 := by simp; omega
            unfold bcPrefix at hp
            have hle : sipVerSP.length ≤ (t.extract o (o + 8)).toList.length := by rw [hsz8]; decide
            rw [if_neg (by omega)] at hp
            have := prefixAux_true sipVerSP _ 0 l hle hp
            simpa [sipVerSP] using this
          subst hl8
          simp only [↓reduceIte]
          have hr := smFlReply_res t o {} (by have := hS.ho; omega)
          refine ⟨smRpl_eq_fl pre.size _ hr, fun hm => ?_⟩
          rcases hr with ⟨h1, _⟩ | ⟨_, ⟨_, h2⟩ | h2⟩
          · rw [hm] at h1; cases h1
          · rw [hm] at h2; cases h2
          · exact Or.inr (Or.inr h2)
    refine ⟨?_, key.2⟩
    unfold shRes
    rw [key.1]
  · have hq : pl.state = .reqMethod ∨ pl.state = .reqURI ∨ pl.state = .reqVer ∨ pl.state = .crlf := hst
    have e0 : shFl pre.size pl = shReq pre.size pl := by
      unfold shFl; rcases hq with h | h | h | h <;> rw [h]
    have hr := smParseFLine_reqRes t o pl hst
    rw [e0, parseFLine_shift_req pre t o pl hq hS hfit]
    refine ⟨?_, FlSh_of_req h0 hr⟩
    unfold shRes
    rw [smReq_eq_fl pre.size pl _ h0 hr]
  · have e0 : shFl pre.size pl = shRpl pre.size pl := by unfold shFl; rw [hst]
    have hr : smRplRes (parseFLine t o pl) := by
      unfold parseFLine; simp only [hst]; exact smFlRplReason_res t o pl hst h0
    rw [e0, parseFLine_shift_rpl pre t o pl hst hS hfit]
    refine ⟨?_, fun hm => ?_⟩
    · unfold shRes
      rw [smRpl_eq_fl pre.size _ hr]
    · rcases hr with ⟨h1, _⟩ | ⟨_, ⟨_, h2⟩ | h2⟩
      · rw [hm] at h1; cases h1
      · rw [hm] at h2; cases h2
      · exact Or.inr (Or.inr h2)

/-! #### error exits, the header section, the whole call -/

theorem shMsg_err (k : Nat) (m : PSIPMsg) (hst : m.state = .fline ∨ m.state = .headers) :
    shMsg k { m with state := .err } = { shMsg k m with state := .err } := by
  rcases hst with h | h <;> (unfold shMsg; simp only [h, shMb, shMl, shMo])

/-- the error exits: `X` is the moved `m` up to the stale restart offset, exactly when the verdict is MoreBytes -/
theorem smMsgErr (k : Nat) (X m : PSIPMsg) (o : Nat) (e : Err) (flags : Nat)
    (hst : m.state = .fline ∨ m.state = .headers)
    (hobs : ({ X with pv := smHvObs X.pv } : PSIPMsg) = { shMsg k m with pv := smHvObs (shHv k m.pv) })
    (hex : e = .moreBytes → X = shMsg k m) : smResM k (msgErr X (k + o) e flags) (msgErr m o e flags) := by
  have herr : smRelM k { X with state := .err } { m with state := .err } := by
    refine ⟨?_, fun hh => absurd rfl hh⟩
    rw [shMsg_err k m hst]
    have := congrArg (fun z : PSIPMsg => ({ z with state := MsgState.err } : PSIPMsg)) hobs
    exact this
  unfold msgErr
  by_cases h1 : (e != .moreBytes) = true
  · simp only [h1, ↓reduceIte]
    exact ⟨rfl, rfl, herr⟩
  · simp only [h1, Bool.false_eq_true, ↓reduceIte]
    by_cases h2 : hasFlag flags SIPMsgNoMoreDataF = true
    · simp only [h2, ↓reduceIte]
      exact ⟨rfl, rfl, herr⟩
    · simp only [h2, Bool.false_eq_true, ↓reduceIte]
      have he : e = .moreBytes := by simpa using h1
      rw [hex he]
      exact ⟨rfl, rfl, smRelM_refl k m⟩

theorem smGetD_exact (k : Nat) (hb : Option PHdrVals) (pv : PHdrVals) :
    (hb.map (shHv k)).getD (shHv k pv) = shHv k (hb.getD pv) := by
  cases hb <;> rfl

theorem smGetD_obs (k : Nat) (x hb : Option PHdrVals) (pv : PHdrVals)
    (h : x.map smHvObs = (hb.map (shHv k)).map smHvObs) :
    smHvObs (x.getD (shHv k pv)) = smHvObs (shHv k (hb.getD pv)) := by
  cases x <;> cases hb <;> simp only [Option.map_some, Option.map_none, Option.some.injEq] at h
  · rfl
  · cases h
  · cases h
  · exact h

/-- **a legitimate message object** for the shift theorem at offset `o`: the hypotheses of the panic-freedom theorem
    (`msgOK2`, `MsgSafe`) plus: the call has not terminated, the first line is legitimate (`FlSh`; new before the first
    call), and the header in progress and the values satisfy `HlSh`. Holds for every object produced by Init
    (`MsgAll_init`) and again after MoreBytes at the returned offset, also on a grown buffer (`parseSIPMsg_shift`). -/
structure MsgAll (t : Buf) (o : Nat) (m : PSIPMsg) : Prop where
  ok2 : msgOK2 t o m
  safe : MsgSafe t o m
  st : m.state = .init ∨ m.state = .fline ∨ m.state = .headers ∨ m.state = .body
  flNew : m.state = .init → m.fl = {}
  fl : m.state = .fline → FlSh m.fl
  sh : m.state ≠ .body → HlSh t o (m.hl.cur, some m.pv)
  idle : m.state = .init ∨ m.state = .fline → ¬ m.hl.cur.state.isVal

theorem HlSh.monoNV {t : Buf} {i j : Nat} {st : HLσ} (h : HlSh t i st) (hij : i ≤ j) (hj : j ≤ t.size)
    (hnv : ¬ st.1.state.isVal) : HlSh t j st :=
  ⟨fun hh => by have := h.pos hh; omega, h.valNz, h.nameNz,
   fun hv hh => (h.hv hv hh).monoNV hij hj (isVal_hContact hnv) (isVal_hPAI hnv)⟩

/-- what a call establishes when it returns MoreBytes: the call has not terminated, a suspended first line is
    legitimate, and (before the body section) the header in progress and the values satisfy `HlSh` -/
def smPostM (t : Buf) (r : Nat × Err × PSIPMsg) : Prop :=
  r.2.1 = .moreBytes →
    (r.2.2.state = .fline ∨ r.2.2.state = .headers ∨ r.2.2.state = .body) ∧
    (r.2.2.state = .fline → FlSh r.2.2.fl ∧ ¬ r.2.2.hl.cur.state.isVal) ∧
    (r.2.2.state ≠ .body → HlSh t r.1 (r.2.2.hl.cur, some r.2.2.pv))

/-- the header section -/
theorem smMsgHeaders (pre t : Buf) (o : Nat) (m : PSIPMsg) (flags : Nat) (hfit : pre.size + t.size ≤ 65535)
    (hst : m.state = .headers) (hA : HlsAll t o m.hl (some m.pv)) :
    smResM pre.size (msgHeaders (pre ++ t) (pre.size + o) (shMsg pre.size m) flags) (msgHeaders t o m flags) ∧
      smPostM t (msgHeaders t o m flags) := by
  obtain ⟨hb'', p1, p2, p3⟩ := parseHeaders_shift pre t o m.hl (some m.pv) hfit hA
  have hsafe := parseHeaders_safe t o m.hl (some m.pv) (by omega) hA.ok1 hA.ok2 hA.pend hA.ho hA.safe
  have hsome := parseHeaders_isSome t o m.hl m.pv
  rw [msgHeaders_eq, msgHeaders_eq]
  have e0 : parseHeaders (pre ++ t) (pre.size + o) (shMsg pre.size m).hl (some (shMsg pre.size m).pv) =
      parseHeaders (pre ++ t) (pre.size + o) (shHls pre.size m.hl) ((some m.pv).map (shHv pre.size)) := rfl
  rw [e0, p1]
  rcases hp : parseHeaders t o m.hl (some m.pv) with ⟨o1, e1, hl1, hb1⟩
  rw [hp] at p2 p3 hsafe hsome
  simp only at p2 p3 hsafe hsome
  cases hb1 with
  | none => cases hsome
  | some pv1 =>
  have ho1 : o1 ≤ t.size := hsafe.2.2.2.2
  have herr : ∀ e : Err, e ≠ .ok → e = e1 →
      smResM pre.size
        (msgErr { shMsg pre.size m with hl := shHls pre.size hl1, pv := hb''.getD (shMsg pre.size m).pv } (pre.size + o1) e flags)
        (msgErr { m with hl := hl1, pv := pv1 } o1 e flags) := by
    intro e _ he
    subst he
    refine smMsgErr pre.size _ { m with hl := hl1, pv := pv1 } o1 e flags (Or.inr hst) ?_ (fun hm => ?_)
    · have := smGetD_obs pre.size hb'' (some pv1) m.pv p2.1
      show ({ shMsg pre.size m with hl := shHls pre.size hl1, pv := smHvObs (hb''.getD (shHv pre.size m.pv)) } : PSIPMsg) = _
      rw [this]
      unfold shMsg; rfl
    · have := p2.2 (Or.inr (Or.inl hm))
      subst this
      unfold shMsg; rfl
  unfold afterHeaders
  cases e1 <;> simp only [Option.getD_some]
  case ok =>
    have hx : hb'' = (some pv1).map (shHv pre.size) := p2.2 (Or.inl rfl)
    subst hx
    have e9 : ({ shMsg pre.size m with hl := shHls pre.size hl1, pv := ((some pv1).map (shHv pre.size)).getD (shMsg pre.size m).pv, state := MsgState.body } : PSIPMsg) = { shMsg pre.size { m with hl := hl1, pv := pv1, state := .body } with body := m.body } := by
      unfold shMsg; simp only [hst, shMb, shMl, shMo]; rfl
    rw [e9, msgBody_body_irrel]
    refine ⟨smResM_of_eq (smMsgBody pre t o1 _ flags rfl ho1 hfit), fun hm => ?_⟩
    have := msgBody_resume t #[] o1 { m with hl := hl1, pv := pv1, state := .body } flags flags
      (o' := (msgBody t o1 { m with hl := hl1, pv := pv1, state := .body } flags).1)
      (m' := (msgBody t o1 { m with hl := hl1, pv := pv1, state := .body } flags).2.2) (Prod.ext rfl (Prod.ext hm rfl))
    rw [this.2.1]
    exact ⟨Or.inr (Or.inr rfl), (fun hh => by cases hh), fun hh => absurd rfl hh⟩
  case moreBytes =>
    refine ⟨herr _ (by decide) rfl, ?_⟩
    generalize hme : msgErr ({ m with hl := hl1, pv := pv1 } : PSIPMsg) o1 Err.moreBytes flags = r
    intro hm
    rcases r with ⟨o2, e2, m2⟩
    simp only at hm
    subst hm
    obtain ⟨_, rfl, rfl⟩ := msgErr_more_inv _ _ _ _ hme
    exact ⟨Or.inr (Or.inl hst), (fun hh => by rw [show ({ m with hl := hl1, pv := pv1 } : PSIPMsg).state = m.state from rfl, hst] at hh; cases hh), fun _ => p3 rfl⟩
  all_goals
    refine ⟨herr _ (by decide) rfl, ?_⟩
    generalize hme : msgErr ({ m with hl := hl1, pv := pv1 } : PSIPMsg) o1 _ flags = r
    intro hm
    rcases r with ⟨o2, e2, m2⟩
    simp only at hm
    subst hm
    exact absurd (msgErr_more_inv _ _ _ _ hme).1 (by decide)

theorem shMsg_toHeaders (k : Nat) (m : PSIPMsg) (fl1 : PFLine) (hst : m.state = .fline) :
    ({ shMsg k m with fl := shFl k fl1, state := MsgState.headers } : PSIPMsg) = shMsg k { m with fl := fl1, state := .headers } := by
  unfold shMsg; simp only [hst, shMb, shMl, shMo]

/-- the first-line section -/
theorem smMsgFLine (pre t : Buf) (o : Nat) (m : PSIPMsg) (flags : Nat) (hfit : pre.size + t.size ≤ 65535)
    (hst : m.state = .fline) (hok : msgOK2 t o m) (H : MsgSafe t o m) (hfl : FlSh m.fl)
    (hX : HlSh t o (m.hl.cur, some m.pv)) (hidle : ¬ m.hl.cur.state.isVal) :
    smResM pre.size (msgFLine (pre ++ t) (pre.size + o) (shMsg pre.size m) flags) (msgFLine t o m flags) ∧
      smPostM t (msgFLine t o m flags) := by
  obtain ⟨ho, _, hrest⟩ := hok
  obtain ⟨hls, hvs, hpe⟩ := hrest (by rw [hst]; decide)
  have hFS := H.flS (Or.inr hst)
  obtain ⟨q1, q2⟩ := smParseFLine pre t o m.fl hfit hfl hFS
  have hF := parseFLine_safe t o m.fl (by omega) hFS
  have hge := parseFLine_ge t o m.fl
  unfold msgFLine
  have e0 : (shMsg pre.size m).fl = shFl pre.size m.fl := rfl
  rw [e0, q1]
  rcases hp : parseFLine t o m.fl with ⟨o1, e1, fl1⟩
  rw [hp] at q2 hF hge
  simp only at q2 hF hge
  have herr : ∀ e : Err, smResM pre.size (msgErr { shMsg pre.size m with fl := shFl pre.size fl1 } (pre.size + o1) e flags)
      (msgErr { m with fl := fl1 } o1 e flags) := by
    intro e
    exact smMsgErr pre.size _ { m with fl := fl1 } o1 e flags (Or.inl hst) rfl (fun _ => rfl)
  have hnomore : ∀ e : Err, e ≠ .moreBytes → smPostM t (msgErr { m with fl := fl1 } o1 e flags) := by
    intro e hne
    generalize hme : msgErr ({ m with fl := fl1 } : PSIPMsg) o1 e flags = r
    intro hm
    rcases r with ⟨o2, e2, m2⟩
    simp only at hm
    subst hm
    exact absurd (msgErr_more_inv _ _ _ _ hme).1 hne
  simp only [shRes]
  cases e1 <;> simp only
  case ok =>
    rw [shMsg_toHeaders pre.size m fl1 hst]
    exact smMsgHeaders pre t o1 _ flags hfit rfl
      ⟨hls, hvOK_mono hvs hge hF.ho, hpe, hF.ho, (H.hls (Or.inr (Or.inl hst))).mono hge hF.ho, hX.monoNV hge hF.ho hidle⟩
  case moreBytes =>
    refine ⟨herr _, ?_⟩
    generalize hme : msgErr ({ m with fl := fl1 } : PSIPMsg) o1 Err.moreBytes flags = r
    intro hm
    rcases r with ⟨o2, e2, m2⟩
    simp only at hm
    subst hm
    obtain ⟨_, rfl, rfl⟩ := msgErr_more_inv _ _ _ _ hme
    exact ⟨Or.inl hst, fun _ => ⟨q2 rfl, hidle⟩, fun _ => hX.monoNV hge hF.ho hidle⟩
  all_goals exact ⟨herr _, hnomore _ (by decide)⟩

/-! #### ParseSIPMsg -/

theorem HvSh.append {t : Buf} {o : Nat} {st : HState} {hv : PHdrVals} (h : HvSh t o st hv) (s : Buf) :
    HvSh (t ++ s) o st hv :=
  ⟨h.from_.append s, h.to.append s, h.callid, h.cseqP, h.cseqL, h.clen, h.expires, fun hh => (h.ct hh).append s,
   fun hh => (h.pa hh).append s⟩

theorem HlSh.append {t : Buf} {i : Nat} {st : HLσ} (h : HlSh t i st) (s : Buf) : HlSh (t ++ s) i st :=
  ⟨h.pos, h.valNz, h.nameNz, fun hv hh => (h.hv hv hh).append s⟩

theorem shMsg_start (k : Nat) (m : PSIPMsg) (o : Nat) (hst : m.state = .init) :
    ({ shMsg k m with offs := k + o, state := MsgState.fline } : PSIPMsg) = shMsg k { m with offs := o, state := .fline } := by
  unfold shMsg; simp only [hst, shMb, shMl, shMo, Nat.add_comm]

/-- **ParseSIPMsg is position independent**: for every legitimate message object (`MsgAll`: new / produced by Init, or
    suspended by MoreBytes in the first line, in the header section or before the body), every flag combination and
    every prefix `pre` with `pre.size + t.size ≤ 65535`, the call on `pre ++ t` at `pre.size + o` with the moved object
    returns the offset moved by `pre.size`, the same verdict and the moved message object (`shMsg`: first line, every
    stored header and shortcut, every header value, body, `Buf` / `RawMsg` bookkeeping moved by exactly `pre.size`;
    status, method numbers, counts, flags, lengths and the state unchanged) — exactly, unless the call ended in the
    error state, in which case the header values agree up to the stale (never reported) restart offset of the
    name-addr value that was being parsed (`smRelM`). After MoreBytes the returned object is legitimate again at the
    returned offset on every grown buffer. -/
theorem parseSIPMsg_shift (pre t : Buf) (o : Nat) (m : PSIPMsg) (flags : Nat) (hfit : pre.size + t.size ≤ 65535)
    (hA : MsgAll t o m) :
    smResM pre.size (parseSIPMsg (pre ++ t) (pre.size + o) (shMsg pre.size m) flags) (parseSIPMsg t o m flags) ∧
      ((parseSIPMsg t o m flags).2.1 = .moreBytes →
        ∀ s : Buf, MsgAll (t ++ s) (parseSIPMsg t o m flags).1 (parseSIPMsg t o m flags).2.2) := by
  obtain ⟨hok, H, hst4, hflNew, hflS, hsh, hidle⟩ := hA
  have key : smResM pre.size (parseSIPMsg (pre ++ t) (pre.size + o) (shMsg pre.size m) flags) (parseSIPMsg t o m flags) ∧
      smPostM t (parseSIPMsg t o m flags) := by
    rcases hst4 with hst | hst | hst | hst
    · have e1 : parseSIPMsg t o m flags = msgFLine t o { m with offs := o, state := .fline } flags := by
        unfold parseSIPMsg; rw [hst]
      have e2 : parseSIPMsg (pre ++ t) (pre.size + o) (shMsg pre.size m) flags =
          msgFLine (pre ++ t) (pre.size + o) (shMsg pre.size { m with offs := o, state := .fline }) flags := by
        unfold parseSIPMsg
        have : (shMsg pre.size m).state = .init := hst
        rw [this]
        simp only
        rw [shMsg_start pre.size m o hst]
      rw [e1, e2]
      exact smMsgFLine pre t o _ flags hfit rfl
        ⟨hok.1, fun _ => hok.2.1 (Or.inl hst), fun _ => hok.2.2 (by rw [hst]; decide)⟩
        ⟨⟨H.pnc, H.fl, H.hl, H.pv, H.body⟩, H.ho, (fun _ => Nat.le_refl _), (fun _ => H.flS (Or.inl hst)),
          (fun _ => H.hls (Or.inl hst)), ⟨H.inn.fl, H.inn.hl, H.inn.pv⟩⟩
        (Or.inl (hflNew hst)) (hsh (by rw [hst]; decide)) (hidle (Or.inl hst))
    · rw [parseSIPMsg_fline t o m flags hst, parseSIPMsg_fline (pre ++ t) _ _ flags (show (shMsg pre.size m).state = .fline from hst)]
      exact smMsgFLine pre t o m flags hfit hst hok H (hflS hst) (hsh (by rw [hst]; decide)) (hidle (Or.inr hst))
    · rw [parseSIPMsg_headers t o m flags hst, parseSIPMsg_headers (pre ++ t) _ _ flags (show (shMsg pre.size m).state = .headers from hst)]
      obtain ⟨hls, hvs, hpe⟩ := hok.2.2 (by rw [hst]; decide)
      exact smMsgHeaders pre t o m flags hfit hst
        ⟨hls, hvs, hpe, hok.1, H.hls (Or.inr (Or.inr hst)), hsh (by rw [hst]; decide)⟩
    · rw [parseSIPMsg_body t o m flags hst, parseSIPMsg_body (pre ++ t) _ _ flags (show (shMsg pre.size m).state = .body from hst)]
      refine ⟨smResM_of_eq (smMsgBody pre t o m flags hst hok.1 hfit), fun hm => ?_⟩
      have := msgBody_resume t #[] o m flags flags (o' := (msgBody t o m flags).1) (m' := (msgBody t o m flags).2.2)
        (Prod.ext rfl (Prod.ext hm rfl))
      rw [this.2.1]
      exact ⟨Or.inr (Or.inr hst), (fun hh => by rw [show ({ m with body := PField.set o o } : PSIPMsg).state = m.state from rfl, hst] at hh; cases hh),
        fun hh => absurd hst hh⟩
  refine ⟨key.1, fun hm s => ?_⟩
  have hT := parseSIPMsg_safe t o m flags (by omega) hok H
  obtain ⟨p1, p2, p3⟩ := key.2 hm
  rcases hp : parseSIPMsg t o m flags with ⟨o1, e1, m1⟩
  rw [hp] at hm hT p1 p2 p3
  simp only at hm hT p1 p2 p3
  subst hm
  have hr := parseSIPMsg_resume t s o m flags flags hok (by omega) hp
  have hne : m1.state ≠ .init := by rcases p1 with h | h | h <;> rw [h] <;> decide
  exact ⟨hr.2.1, (hT.more rfl).grow (by rw [Array.size_append]; omega),
    (by rcases p1 with h | h | h; exact Or.inr (Or.inl h); exact Or.inr (Or.inr (Or.inl h)); exact Or.inr (Or.inr (Or.inr h))),
    (fun hh => absurd hh hne), (fun hh => (p2 hh).1), (fun hh => (p3 hh).append s),
    (fun hh => by rcases hh with hh | hh; exact absurd hh hne; exact (p2 hh).2)⟩

/-! ### new objects, corollaries -/

theorem HlSh_new (t : Buf) (o : Nat) (ho : o ≤ t.size) (m : Nat) :
    HlSh t o ({}, some ({ contacts := { vals := Array.replicate m {} } } : PHdrVals)) :=
  ⟨fun hh => absurd rfl hh, (fun hh => by rcases hh with hh | hh <;> cases hh), fun hh => absurd rfl hh,
   fun hv hh => by cases hh; exact HvSh_new t o ho .init m⟩

/-- a new header with new header values (any contact capacity) is a legitimate pair at any offset -/
theorem HlAll_new (t : Buf) (o : Nat) (ho : o ≤ t.size) (m : Nat) :
    HlAll t o ({}, some ({ contacts := { vals := Array.replicate m {} } } : PHdrVals)) :=
  ⟨HlSafe_new t o _ ho (fun hv hh => by cases hh; exact HvSafe_new t o ho m),
   ⟨ho, hdrOK_new t, (msgOK_init t o ho {} 0 0 m none (some ())).2.2.2⟩,
   HlSh_new t o ho m⟩

/-- **after MoreBytes the returned pair is a legitimate argument again**, at the returned offset, also once more
    bytes `s` have arrived (`hlPending`: the value a suspended header waits for is not finished yet — true of every
    pair returned with MoreBytes and of every new header) -/
theorem parseHdrLine_shiftEntry (t s : Buf) (o : Nat) (h : Hdr) (hb : Option PHdrVals) (hfit : t.size ≤ 65535)
    (hA : HlAll t o (h, hb)) (hpe : hlPending (h, hb)) {o' : Nat} {h' : Hdr} {hb' : Option PHdrVals}
    (hr : parseHdrLine t o h hb = (o', Err.moreBytes, h', hb')) :
    HlAll (t ++ s) o' (h', hb') ∧ hlPending (h', hb') := by
  have h1 := (parseHdrLine_safe t o h hb hfit hA.1 hA.2.1 hr).2.1 (Or.inr rfl)
  have h2 := parseHdrLine_resume t s o h hb hA.2.1 hpe hr
  obtain ⟨_, _, _, _, h3⟩ := parseHdrLine_shift #[] t o h hb (by simpa using hfit) hA hr
  exact ⟨⟨h1.grow (by rw [Array.size_append]; omega), h2.2.1, (h3 (Or.inr rfl)).append s⟩, h2.2.2.1⟩

/-- … hence **the resumed call is position independent too** -/
theorem parseHdrLine_shift_resume (pre t s : Buf) (o : Nat) (h : Hdr) (hb : Option PHdrVals)
    (hfit : pre.size + (t ++ s).size ≤ 65535) (hA : HlAll t o (h, hb)) (hpe : hlPending (h, hb)) {o' : Nat} {h' : Hdr}
    {hb' : Option PHdrVals} (hr : parseHdrLine t o h hb = (o', Err.moreBytes, h', hb'))
    {o'' : Nat} {e : Err} {h'' : Hdr} {hb'' : Option PHdrVals}
    (hr2 : parseHdrLine (t ++ s) o' h' hb' = (o'', e, h'', hb'')) :
    ∃ g gb, parseHdrLine (pre ++ (t ++ s)) (pre.size + o') (shHdr pre.size h') (hb'.map (shHv pre.size)) =
        (pre.size + o'', e, g, gb) ∧ smRelHL pre.size e (g, gb) (h'', hb'') := by
  have hE := (parseHdrLine_shiftEntry t s o h hb (by rw [Array.size_append] at hfit; omega) hA hpe hr).1
  obtain ⟨g, gb, a1, a2, _⟩ := parseHdrLine_shift pre (t ++ s) o' h' hb' hfit hE hr2
  exact ⟨g, gb, a1, a2⟩

/-- **every object produced by Init is legitimate** (any previous contents, caller arrays of any capacity or none) -/
theorem MsgAll_init (t : Buf) (o : Nat) (ho : o ≤ t.size) (m : PSIPMsg) (len kh kc : Nat) (hdrs cts : Option Unit) :
    MsgAll t o (m.init len (hdrs.map fun _ => Array.replicate kh {}) (cts.map fun _ => Array.replicate kc {})) := by
  have hok := msgOK2_init t o ho m len kh kc hdrs cts
  have hsafe := MsgSafe_init t o ho m len kh kc hdrs cts
  have key : ∀ a c : Nat, msgOK2 t o (initObj len a c) → MsgSafe t o (initObj len a c) → MsgAll t o (initObj len a c) := by
    intro a c h1 h2
    have hcur : (initObj len a c).hl.cur = {} := flo_cur_new a
    refine ⟨h1, h2, Or.inl rfl, fun _ => rfl, (fun hh => by cases hh), fun _ => ?_, fun _ => ?_⟩
    · rw [hcur]; exact HlSh_new t o ho c
    · rw [hcur]; unfold HState.isVal; simp
  cases hdrs <;> cases cts
  · exact key 10 10 hok hsafe
  · exact key 10 kc hok hsafe
  · exact key kh 10 hok hsafe
  · exact key kh kc hok hsafe

/-- … in the plain form whenever the call did not end in the error state -/
theorem parseSIPMsg_shift_exact (pre t : Buf) (o : Nat) (m : PSIPMsg) (flags : Nat) (hfit : pre.size + t.size ≤ 65535)
    (hA : MsgAll t o m) (hne : (parseSIPMsg t o m flags).2.2.state ≠ .err) :
    parseSIPMsg (pre ++ t) (pre.size + o) (shMsg pre.size m) flags =
      shRes pre.size (shMsg pre.size) (parseSIPMsg t o m flags) := by
  obtain ⟨r1, r2, r3⟩ := (parseSIPMsg_shift pre t o m flags hfit hA).1
  exact Prod.ext r1 (Prod.ext r2 (r3.2 hne))

/-- **from an Init object, one call**: the object is its own translation -/
theorem parseSIPMsg_shift_init (pre t : Buf) (o : Nat) (ho : o ≤ t.size) (m0 : PSIPMsg) (len kh kc : Nat)
    (hdrs cts : Option Unit) (flags : Nat) (hfit : pre.size + t.size ≤ 65535) :
    smResM pre.size
      (parseSIPMsg (pre ++ t) (pre.size + o)
        (m0.init len (hdrs.map fun _ => Array.replicate kh {}) (cts.map fun _ => Array.replicate kc {})) flags)
      (parseSIPMsg t o
        (m0.init len (hdrs.map fun _ => Array.replicate kh {}) (cts.map fun _ => Array.replicate kc {})) flags) := by
  have := (parseSIPMsg_shift pre t o _ flags hfit (MsgAll_init t o ho m0 len kh kc hdrs cts)).1
  rw [shMsg_init] at this
  exact this

/-- **the resumed call**: a message that ran out of bytes in `t` (parsed from an Init object) and is resumed at the
    returned offset with the returned object once more bytes `s` have arrived -/
theorem parseSIPMsg_shift_resume (pre t s : Buf) (o : Nat) (ho : o ≤ t.size) (m0 : PSIPMsg) (len kh kc : Nat)
    (hdrs cts : Option Unit) (flags flags' : Nat) (hfit : pre.size + (t ++ s).size ≤ 65535) {o1 : Nat} {m1 : PSIPMsg}
    (hr : parseSIPMsg t o (m0.init len (hdrs.map fun _ => Array.replicate kh {}) (cts.map fun _ => Array.replicate kc {}))
      flags = (o1, Err.moreBytes, m1)) :
    smResM pre.size (parseSIPMsg (pre ++ (t ++ s)) (pre.size + o1) (shMsg pre.size m1) flags')
      (parseSIPMsg (t ++ s) o1 m1 flags') := by
  have h1 := (parseSIPMsg_shift #[] t o _ flags (by rw [Array.size_append] at hfit; simp; omega)
    (MsgAll_init t o ho m0 len kh kc hdrs cts)).2
  rw [hr] at h1
  exact (parseSIPMsg_shift pre (t ++ s) o1 m1 flags' hfit (h1 rfl s)).1

/-- what a caller reads from the moved message: the same verdict-independent numbers and flags -/
theorem shMsg_scalars (k : Nat) (m : PSIPMsg) :
    (shMsg k m).state = m.state ∧ (shMsg k m).pnc = m.pnc ∧ (shMsg k m).rawLen = m.rawLen ∧
    (shMsg k m).hl.n = m.hl.n ∧ (shMsg k m).hl.pflags = m.hl.pflags ∧ (shMsg k m).hl.hdrs.size = m.hl.hdrs.size ∧
    (shMsg k m).body.len = m.body.len ∧ (shMsg k m).pv.clen.uiVal = m.pv.clen.uiVal ∧
    (shMsg k m).pv.cseq.cseqNo = m.pv.cseq.cseqNo ∧ (shMsg k m).pv.contacts.n = m.pv.contacts.n := by
  refine ⟨rfl, rfl, rfl, rfl, rfl, Array.size_map .., ?_, shCl_uiVal _ _, shCs_cseqNo _ _, rfl⟩
  show (shMb k m.state m.body).len = _
  unfold shMb; split <;> rfl

/-- `GetHdr(t)` of the moved header list is the moved `GetHdr(t)` -/
theorem shHls_getHdr (k : Nat) (hl : HdrLst) (ty : Nat) : (shHls k hl).getHdr ty = (hl.getHdr ty).map (shHdr k) := by
  unfold HdrLst.getHdr
  split
  · show (hl.h.map (shHdr k))[ty - 1]? = _
    rw [Array.getElem?_map]
  · rfl

theorem MsgAll.hls {t : Buf} {o : Nat} {m : PSIPMsg} (h : MsgAll t o m) (hst : m.state ≠ .body) :
    HlsAll t o m.hl (some m.pv) :=
  ⟨(h.ok2.2.2 hst).1, (h.ok2.2.2 hst).2.1, (h.ok2.2.2 hst).2.2, h.ok2.1,
   h.safe.hls (by rcases h.st with g | g | g | g
                  · exact Or.inl g
                  · exact Or.inr (Or.inl g)
                  · exact Or.inr (Or.inr g)
                  · exact absurd g hst), h.sh hst⟩

/-- **a successfully parsed message**: the moved call returns exactly the moved message -/
theorem parseSIPMsg_shift_ok (pre t : Buf) (o : Nat) (m : PSIPMsg) (flags : Nat) (hfit : pre.size + t.size ≤ 65535)
    (hA : MsgAll t o m) {o' : Nat} {m' : PSIPMsg} (hr : parseSIPMsg t o m flags = (o', .ok, m')) :
    parseSIPMsg (pre ++ t) (pre.size + o) (shMsg pre.size m) flags = (pre.size + o', .ok, shMsg pre.size m') := by
  obtain ⟨_, _, _, _, hL⟩ := parseSIPMsg_layout t o m flags (by omega) hA.ok2 hA.safe hr
  have := parseSIPMsg_shift_exact pre t o m flags hfit hA (by rw [hr]; show m'.state ≠ .err; rw [hL.state]; decide)
  rw [this, hr]; rfl

/-! ### non-vacuity (tests, `decide +kernel` on concrete inputs; the general claims are the theorems above) -/

/-- test message -/
def smExMsg : Buf :=
  "OPTIONS sip:a@b SIP/2.0\r\nFrom: <sip:x@y>\r\nCSeq: 7 OPTIONS\r\nContact: <sip:c@d>, <sip:e@f>\r\nContent-Length: 2\r\n\r\nhi".toUTF8.data

def smExInit : PSIPMsg := ({} : PSIPMsg).init 0 none none

-- the hypotheses are satisfiable: Init objects, new headers and values
example : MsgAll smExMsg 0 smExInit := MsgAll_init smExMsg 0 (Nat.zero_le _) {} 0 0 0 none none
example : HlsAll smExMsg 0 smExInit.hl (some smExInit.pv) :=
  (MsgAll_init smExMsg 0 (Nat.zero_le _) {} 0 0 0 none none).hls (by decide)
example : HlAll smExMsg 25 ({}, some ({ contacts := { vals := Array.replicate 10 {} } } : PHdrVals)) :=
  HlAll_new smExMsg 25 (by decide +kernel) 10

/-- field-wise comparison of the main components of two message objects (tests only; the structures have no
    `DecidableEq` instance) -/
def smMsgEq (a b : PSIPMsg) : Prop :=
  a.fl = b.fl ∧ a.hl.hdrs = b.hl.hdrs ∧ a.hl.h = b.hl.h ∧ a.pv.from_ = b.pv.from_ ∧ a.pv.cseq = b.pv.cseq ∧
    slCtEq a.pv.contacts b.pv.contacts ∧ a.body = b.body ∧ a.bufLen = b.bufLen ∧ a.rawOffs = b.rawOffs ∧ a.offs = b.offs

instance (a b : PSIPMsg) : Decidable (smMsgEq a b) := by unfold smMsgEq; infer_instance

-- the whole message after 3 junk bytes: OK, offset + 3, first line / headers / values / body / bookkeeping moved by 3
example :
    (parseSIPMsg smExMsg 0 smExInit 0).2.1 = Err.ok ∧
    (parseSIPMsg ("xyz".toUTF8.data ++ smExMsg) 3 smExInit 0).1 = 3 + (parseSIPMsg smExMsg 0 smExInit 0).1 ∧
    smMsgEq (parseSIPMsg ("xyz".toUTF8.data ++ smExMsg) 3 smExInit 0).2.2 (shMsg 3 (parseSIPMsg smExMsg 0 smExInit 0).2.2) := by
  decide +kernel

-- an error in a header value (From): same verdict; the stale restart offset is the only difference
example :
    (parseSIPMsg "OPTIONS sip:a@b SIP/2.0\r\nFrom: a <b<\r\n\r\n".toUTF8.data 0 smExInit 0).2.1 = Err.badChar ∧
    (parseSIPMsg ("xyz".toUTF8.data ++ "OPTIONS sip:a@b SIP/2.0\r\nFrom: a <b<\r\n\r\n".toUTF8.data) 3 smExInit 0).2.1 = Err.badChar ∧
    (parseSIPMsg ("xyz".toUTF8.data ++ "OPTIONS sip:a@b SIP/2.0\r\nFrom: a <b<\r\n\r\n".toUTF8.data) 3 smExInit 0).2.2.pv.from_ ≠
      (shMsg 3 (parseSIPMsg "OPTIONS sip:a@b SIP/2.0\r\nFrom: a <b<\r\n\r\n".toUTF8.data 0 smExInit 0).2.2).pv.from_ ∧
    (parseSIPMsg ("xyz".toUTF8.data ++ "OPTIONS sip:a@b SIP/2.0\r\nFrom: a <b<\r\n\r\n".toUTF8.data) 3 smExInit 0).2.2.pv.from_.obs =
      (shMsg 3 (parseSIPMsg "OPTIONS sip:a@b SIP/2.0\r\nFrom: a <b<\r\n\r\n".toUTF8.data 0 smExInit 0).2.2).pv.from_.obs := by
  decide +kernel

-- ParseHdrLine at offset 0 of the text (the position where "zero = not set" conventions could misfire)
example :
    (parseHdrLine "From: <sip:x@y>\r\nX".toUTF8.data 0 {} (some { contacts := { vals := Array.replicate 2 {} } })).2.1 = Err.ok ∧
    (parseHdrLine "From: <sip:x@y>\r\nX".toUTF8.data 0 {} (some { contacts := { vals := Array.replicate 2 {} } })).2.2.1.name = ⟨0, 4⟩ ∧
    (parseHdrLine ("xyz".toUTF8.data ++ "From: <sip:x@y>\r\nX".toUTF8.data) 3 {} (some { contacts := { vals := Array.replicate 2 {} } })).2.2.1 =
      shHdr 3 (parseHdrLine "From: <sip:x@y>\r\nX".toUTF8.data 0 {} (some { contacts := { vals := Array.replicate 2 {} } })).2.2.1 := by
  decide +kernel

-- a message cut inside the Contact list and resumed on the full buffer with the moved suspended object
def smExMsg3 : Buf := "OPTIONS sip:a@b SIP/2.0\r\nContact: <sip:c@d>, <sip:e@f>\r\n\r\n".toUTF8.data
def smExSusp : Nat × Err × PSIPMsg := parseSIPMsg (smExMsg3.extract 0 48) 0 smExInit 0
example :
    smExSusp.2.1 = Err.moreBytes ∧ smExSusp.2.2.state = .headers ∧ smExSusp.2.2.pv.contacts.n = 1 ∧
    (parseSIPMsg smExMsg3 smExSusp.1 smExSusp.2.2 0).2.1 = Err.ok ∧
    (parseSIPMsg ("xyz".toUTF8.data ++ smExMsg3) (3 + smExSusp.1) (shMsg 3 smExSusp.2.2) 0).1 =
      3 + (parseSIPMsg smExMsg3 smExSusp.1 smExSusp.2.2 0).1 ∧
    slCtEq (parseSIPMsg ("xyz".toUTF8.data ++ smExMsg3) (3 + smExSusp.1) (shMsg 3 smExSusp.2.2) 0).2.2.pv.contacts
      (shMsg 3 (parseSIPMsg smExMsg3 smExSusp.1 smExSusp.2.2 0).2.2).pv.contacts := by
  decide +kernel

end Sipsp

open Sipsp in
/-- **pipelined messages (property C06)**: when the first message fills `b1` exactly (ParseSIPMsg on `b1` from an
    Init object says OK at offset `o1 = b1.size`), parsing the buffer `b1 ++ b2` at offset `o1` from an Init object
    gives the result of parsing `b2` alone at offset 0 moved by `b1.size` (`smResM`): the same verdict, the returned
    offset + `b1.size`, and every field of the message object (first line, headers, values, body, `Buf` / `RawMsg`
    bookkeeping) moved by exactly `b1.size` — numbers, counts and flags unchanged. (`len` is what Init records as
    `len(msg.Buf)`; the parser never reads it.) -/
theorem pipeline_second_message (b1 b2 : Buf) (flags : Nat) (m0 : PSIPMsg) (len kh kc : Nat) (hdrs cts : Option Unit)
    (hfit : b1.size + b2.size ≤ 65535) {o1 : Nat} {m1 : PSIPMsg}
    (_h1 : parseSIPMsg b1 0 (m0.init len (hdrs.map fun _ => Array.replicate kh {}) (cts.map fun _ => Array.replicate kc {}))
      flags = (o1, Err.ok, m1))
    (ho1 : o1 = b1.size) :
    smResM o1
      (parseSIPMsg (b1 ++ b2) o1
        (m0.init len (hdrs.map fun _ => Array.replicate kh {}) (cts.map fun _ => Array.replicate kc {})) flags)
      (parseSIPMsg b2 0
        (m0.init len (hdrs.map fun _ => Array.replicate kh {}) (cts.map fun _ => Array.replicate kc {})) flags) := by
  subst ho1
  exact parseSIPMsg_shift_init b1 b2 0 (Nat.zero_le _) m0 len kh kc hdrs cts flags hfit

open Sipsp in
/-- … and when the second message parses successfully on its own, the pipelined call returns exactly the moved
    message: OK at `b1.size + o2` with `shMsg b1.size m2` -/
theorem pipeline_second_message_ok (b1 b2 : Buf) (flags : Nat) (m0 : PSIPMsg) (len kh kc : Nat) (hdrs cts : Option Unit)
    (hfit : b1.size + b2.size ≤ 65535) {o2 : Nat} {m2 : PSIPMsg}
    (h2 : parseSIPMsg b2 0 (m0.init len (hdrs.map fun _ => Array.replicate kh {}) (cts.map fun _ => Array.replicate kc {}))
      flags = (o2, Err.ok, m2)) :
    parseSIPMsg (b1 ++ b2) b1.size
        (m0.init len (hdrs.map fun _ => Array.replicate kh {}) (cts.map fun _ => Array.replicate kc {})) flags =
      (b1.size + o2, Err.ok, shMsg b1.size m2) := by
  have := parseSIPMsg_shift_ok b1 b2 0 _ flags hfit (MsgAll_init b2 0 (Nat.zero_le _) m0 len kh kc hdrs cts) h2
  rw [shMsg_init] at this
  exact this

namespace Sipsp

/-- the buffer holding the messages `l` one after the other -/
def smCat (l : List Buf) : Buf := l.foldl (· ++ ·) #[]

theorem smCat_acc (acc : Buf) (l : List Buf) : l.foldl (· ++ ·) acc = acc ++ smCat l := by
  unfold smCat
  induction l generalizing acc with
  | nil => simp
  | cons x xs ih =>
    simp only [List.foldl_cons]
    rw [ih (acc ++ x), ih (#[] ++ x)]
    simp [Array.append_assoc]

theorem smCat_append (l1 l2 : List Buf) : smCat (l1 ++ l2) = smCat l1 ++ smCat l2 := by
  show (l1 ++ l2).foldl (· ++ ·) #[] = _
  rw [List.foldl_append, smCat_acc]
  rfl

end Sipsp

open Sipsp in
/-- **any message of a pipeline**: in the buffer that holds the messages `l` one after the other, parsing at the
    offset where message `i` starts (from an Init object) gives the result of parsing the rest of the pipeline
    (messages `i, i+1, …` in a buffer of their own, at offset 0) moved by the total size of the messages before it -/
theorem pipeline_nth_message (l : List Buf) (i : Nat) (flags : Nat) (m0 : PSIPMsg) (len kh kc : Nat)
    (hdrs cts : Option Unit) (hfit : (smCat l).size ≤ 65535) :
    smResM (smCat (l.take i)).size
      (parseSIPMsg (smCat l) (smCat (l.take i)).size
        (m0.init len (hdrs.map fun _ => Array.replicate kh {}) (cts.map fun _ => Array.replicate kc {})) flags)
      (parseSIPMsg (smCat (l.drop i)) 0
        (m0.init len (hdrs.map fun _ => Array.replicate kh {}) (cts.map fun _ => Array.replicate kc {})) flags) := by
  have hl : smCat l = smCat (l.take i) ++ smCat (l.drop i) := by rw [← smCat_append, List.take_append_drop]
  rw [hl] at hfit ⊢
  rw [Array.size_append] at hfit
  exact parseSIPMsg_shift_init (smCat (l.take i)) (smCat (l.drop i)) 0 (Nat.zero_le _) m0 len kh kc hdrs cts flags hfit
