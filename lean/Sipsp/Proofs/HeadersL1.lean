/-
  Sipsp.Proofs.HeadersL1 — post-condition of ParseHdrLine on OK and L1 for ParseHeaders.
-/
import Sipsp.Proofs.Post

namespace Sipsp

/-- **post-condition of the header-value dispatch on OK** -/
theorem parseBody_post (b : Buf) (o : Nat) (h : Hdr) (hb : Option PHdrVals) (hok : hbOK b o hb) (ho : o ≤ b.size)
    {n : Nat} {h2 : Hdr} {hb2 : Option PHdrVals}
    (hr : parseBody b o h hb = (n, .ok, h2, hb2)) : o ≤ n ∧ n ≤ b.size ∧ hbOK b n hb2 := by
  unfold parseBody at hr
  cases hb with
  | none => simp only [Prod.mk.injEq] at hr; obtain ⟨rfl, _, _, rfl⟩ := hr; exact ⟨Nat.le_refl _, ho, trivial⟩
  | some hv =>
  simp only at hr
  obtain ⟨ok1, ok2, ok3, ok4, ok5⟩ := hok
  by_cases h_from_ : (h.type == HdrFrom) = true
  · simp only [h_from_, ↓reduceIte] at hr
    by_cases hp : (!hv.from_.parsed) = true
    · simp only [hp, ↓reduceIte] at hr
      rcases hq : parseFromVal b o hv.from_ with ⟨n1, e1, f1⟩
      rw [hq] at hr; simp only [Prod.mk.injEq] at hr
      obtain ⟨rfl, rfl, _, rfl⟩ := hr
      obtain ⟨h3, h1, h2⟩ := naPVal_ok_range HdrFrom b o hv.from_ ho hq (Or.inl rfl)
      exact ⟨h1, h2, Or.inl h3, naOK_mono ok2 h1 h2, csOK_mono ok3 h1 h2, ctOK_mono ok4 h1 h2, paOK_mono ok5 h1 h2⟩
    · simp only [hp, Bool.false_eq_true, ↓reduceIte, Prod.mk.injEq] at hr
      obtain ⟨rfl, _, _, rfl⟩ := hr; exact ⟨Nat.le_refl _, ho, ok1, ok2, ok3, ok4, ok5⟩
  simp only [h_from_, Bool.false_eq_true, ↓reduceIte] at hr
  by_cases h_to : (h.type == HdrTo) = true
  · simp only [h_to, ↓reduceIte] at hr
    by_cases hp : (!hv.to.parsed) = true
    · simp only [hp, ↓reduceIte] at hr
      rcases hq : parseNameAddrPVal HdrTo b o hv.to with ⟨n1, e1, f1⟩
      rw [hq] at hr; simp only [Prod.mk.injEq] at hr
      obtain ⟨rfl, rfl, _, rfl⟩ := hr
      obtain ⟨h3, h1, h2⟩ := naPVal_ok_range HdrTo b o hv.to ho hq (Or.inl rfl)
      exact ⟨h1, h2, naOK_mono ok1 h1 h2, Or.inl h3, csOK_mono ok3 h1 h2, ctOK_mono ok4 h1 h2, paOK_mono ok5 h1 h2⟩
    · simp only [hp, Bool.false_eq_true, ↓reduceIte, Prod.mk.injEq] at hr
      obtain ⟨rfl, _, _, rfl⟩ := hr; exact ⟨Nat.le_refl _, ho, ok1, ok2, ok3, ok4, ok5⟩
  simp only [h_to, Bool.false_eq_true, ↓reduceIte] at hr
  by_cases h_callid : (h.type == HdrCallID) = true
  · simp only [h_callid, ↓reduceIte] at hr
    by_cases hp : (!hv.callid.parsed) = true
    · simp only [hp, ↓reduceIte] at hr
      rcases hq : parseCallIDVal b o hv.callid with ⟨n1, e1, f1⟩
      rw [hq] at hr; simp only [Prod.mk.injEq] at hr
      obtain ⟨rfl, rfl, _, rfl⟩ := hr
      obtain ⟨h1, h2, _⟩ := parseCallIDVal_post b o hv.callid ho hq
      exact ⟨h1, h2, naOK_mono ok1 h1 h2, naOK_mono ok2 h1 h2, csOK_mono ok3 h1 h2, ctOK_mono ok4 h1 h2, paOK_mono ok5 h1 h2⟩
    · simp only [hp, Bool.false_eq_true, ↓reduceIte, Prod.mk.injEq] at hr
      obtain ⟨rfl, _, _, rfl⟩ := hr; exact ⟨Nat.le_refl _, ho, ok1, ok2, ok3, ok4, ok5⟩
  simp only [h_callid, Bool.false_eq_true, ↓reduceIte] at hr
  by_cases h_cseq : (h.type == HdrCSeq) = true
  · simp only [h_cseq, ↓reduceIte] at hr
    by_cases hp : (!hv.cseq.parsed) = true
    · simp only [hp, ↓reduceIte] at hr
      rcases hq : parseCSeqVal b o hv.cseq with ⟨n1, e1, f1⟩
      rw [hq] at hr; simp only [Prod.mk.injEq] at hr
      obtain ⟨rfl, rfl, _, rfl⟩ := hr
      obtain ⟨h1, h2, h3, _⟩ := parseCSeqVal_post b o hv.cseq ho hq
      exact ⟨h1, h2, naOK_mono ok1 h1 h2, naOK_mono ok2 h1 h2, Or.inl h3, ctOK_mono ok4 h1 h2, paOK_mono ok5 h1 h2⟩
    · simp only [hp, Bool.false_eq_true, ↓reduceIte, Prod.mk.injEq] at hr
      obtain ⟨rfl, _, _, rfl⟩ := hr; exact ⟨Nat.le_refl _, ho, ok1, ok2, ok3, ok4, ok5⟩
  simp only [h_cseq, Bool.false_eq_true, ↓reduceIte] at hr
  by_cases h_clen : (h.type == HdrCLen) = true
  · simp only [h_clen, ↓reduceIte] at hr
    by_cases hp : (!hv.clen.parsed) = true
    · simp only [hp, ↓reduceIte] at hr
      rcases hq : parseCLenVal b o hv.clen with ⟨n1, e1, f1⟩
      rw [hq] at hr; simp only [Prod.mk.injEq] at hr
      obtain ⟨rfl, rfl, _, rfl⟩ := hr
      obtain ⟨h1, h2, _⟩ := parseCLenVal_post b o hv.clen ho hq
      exact ⟨h1, h2, naOK_mono ok1 h1 h2, naOK_mono ok2 h1 h2, csOK_mono ok3 h1 h2, ctOK_mono ok4 h1 h2, paOK_mono ok5 h1 h2⟩
    · simp only [hp, Bool.false_eq_true, ↓reduceIte, Prod.mk.injEq] at hr
      obtain ⟨rfl, _, _, rfl⟩ := hr; exact ⟨Nat.le_refl _, ho, ok1, ok2, ok3, ok4, ok5⟩
  simp only [h_clen, Bool.false_eq_true, ↓reduceIte] at hr
  by_cases h_contacts : (h.type == HdrContact) = true
  · simp only [h_contacts, ↓reduceIte] at hr
    rcases hq : parseAllContactValues b o (if h.state != .hContact then { hv.contacts with hNo := hv.contacts.hNo + 1, lastHVal := {} }
                else hv.contacts) with ⟨n1, e1, f1⟩
    rw [hq] at hr; simp only [Prod.mk.injEq] at hr
    obtain ⟨rfl, rfl, _, rfl⟩ := hr
    obtain ⟨h1, h2, h3⟩ := parseAllContactValues_post b o _ (by split; exact ok4; exact ok4) ho hq
    exact ⟨h1, h2, naOK_mono ok1 h1 h2, naOK_mono ok2 h1 h2, csOK_mono ok3 h1 h2, h3, paOK_mono ok5 h1 h2⟩
  simp only [h_contacts, Bool.false_eq_true, ↓reduceIte] at hr
  by_cases h_expires : (h.type == HdrExpires) = true
  · simp only [h_expires, ↓reduceIte] at hr
    by_cases hp : (!hv.expires.parsed) = true
    · simp only [hp, ↓reduceIte] at hr
      rcases hq : parseUIntVal b o hv.expires with ⟨n1, e1, f1⟩
      rw [hq] at hr; simp only [Prod.mk.injEq] at hr
      obtain ⟨rfl, rfl, _, rfl⟩ := hr
      obtain ⟨h1, h2, _⟩ := parseUIntVal_post b o hv.expires ho hq
      exact ⟨h1, h2, naOK_mono ok1 h1 h2, naOK_mono ok2 h1 h2, csOK_mono ok3 h1 h2, ctOK_mono ok4 h1 h2, paOK_mono ok5 h1 h2⟩
    · simp only [hp, Bool.false_eq_true, ↓reduceIte, Prod.mk.injEq] at hr
      obtain ⟨rfl, _, _, rfl⟩ := hr; exact ⟨Nat.le_refl _, ho, ok1, ok2, ok3, ok4, ok5⟩
  simp only [h_expires, Bool.false_eq_true, ↓reduceIte] at hr
  by_cases h_pais : (h.type == HdrPAI) = true
  · simp only [h_pais, ↓reduceIte] at hr
    rcases hq : parseAllPAIValues b o (if h.state != .hPAI then { hv.pais with hNo := hv.pais.hNo + 1, lastHVal := {} }
                else hv.pais) with ⟨n1, e1, f1⟩
    rw [hq] at hr; simp only [Prod.mk.injEq] at hr
    obtain ⟨rfl, rfl, _, rfl⟩ := hr
    obtain ⟨h1, h2, h3⟩ := parseAllPAIValues_post b o _ (by split; exact ok5; exact ok5) ho hq
    exact ⟨h1, h2, naOK_mono ok1 h1 h2, naOK_mono ok2 h1 h2, csOK_mono ok3 h1 h2, ctOK_mono ok4 h1 h2, h3⟩
  simp only [h_pais, Bool.false_eq_true, ↓reduceIte] at hr
  simp only [Prod.mk.injEq] at hr
  obtain ⟨rfl, _, _, rfl⟩ := hr; exact ⟨Nat.le_refl _, ho, ok1, ok2, ok3, ok4, ok5⟩

theorem parseBody_ne_empty (b : Buf) (o : Nat) (h : Hdr) (hb : Option PHdrVals) :
    (parseBody b o h hb).2.1 ≠ .empty := by
  unfold parseBody
  cases hb with
  | none => intro hh; cases hh
  | some hv =>
  simp only
  by_cases h_from_ : (h.type == HdrFrom) = true
  · simp only [h_from_, ↓reduceIte]
    split
    · exact parseNameAddrPVal_ne_empty HdrFrom b o _
    · intro hh; cases hh
  simp only [h_from_, Bool.false_eq_true, ↓reduceIte]
  by_cases h_to : (h.type == HdrTo) = true
  · simp only [h_to, ↓reduceIte]
    split
    · exact parseNameAddrPVal_ne_empty HdrTo b o _
    · intro hh; cases hh
  simp only [h_to, Bool.false_eq_true, ↓reduceIte]
  by_cases h_callid : (h.type == HdrCallID) = true
  · simp only [h_callid, ↓reduceIte]
    split
    · exact parseCallIDVal_ne_empty b o _
    · intro hh; cases hh
  simp only [h_callid, Bool.false_eq_true, ↓reduceIte]
  by_cases h_cseq : (h.type == HdrCSeq) = true
  · simp only [h_cseq, ↓reduceIte]
    split
    · exact parseCSeqVal_ne_empty b o _
    · intro hh; cases hh
  simp only [h_cseq, Bool.false_eq_true, ↓reduceIte]
  by_cases h_clen : (h.type == HdrCLen) = true
  · simp only [h_clen, ↓reduceIte]
    split
    · exact parseCLenVal_ne_empty b o _
    · intro hh; cases hh
  simp only [h_clen, Bool.false_eq_true, ↓reduceIte]
  by_cases h_contacts : (h.type == HdrContact) = true
  · simp only [h_contacts, ↓reduceIte]
    exact parseAllContactValues_ne_empty b o _
  simp only [h_contacts, Bool.false_eq_true, ↓reduceIte]
  by_cases h_expires : (h.type == HdrExpires) = true
  · simp only [h_expires, ↓reduceIte]
    split
    · exact parseUIntVal_ne_empty b o _
    · intro hh; cases hh
  simp only [h_expires, Bool.false_eq_true, ↓reduceIte]
  by_cases h_pais : (h.type == HdrPAI) = true
  · simp only [h_pais, ↓reduceIte]
    exact parseAllPAIValues_ne_empty b o _
  simp only [h_pais, Bool.false_eq_true, ↓reduceIte]
  intro hh; cases hh

/-! ### post-condition of ParseHdrLine on OK -/

/-- an OK exit of the loop body returns an offset inside the buffer at which the values object is legitimate -/
def HlPost (b : Buf) (o : Nat) (e : Err) (st' : HLσ) : Prop := (e = .ok ∨ e = .empty) → o ≤ b.size ∧ hbOK b o st'.2

theorem hlAfterColon_post (b : Buf) (j : Nat) (h : Hdr) (hb : Option PHdrVals) (hj : j ≤ b.size)
    (hok : hbOK b j hb) {o : Nat} {e : Err} {st' : HLσ}
    (hs : hlAfterColon b j h hb = .done o e st') : HlPost b o e st' := by
  unfold hlAfterColon at hs
  split at hs
  · cases hs; intro hq; rcases hq with hq | hq <;> cases hq
  · rename_i nm hnm
    simp only at hs
    rcases hp : parseBody b j { h with type := getHdrType nm } hb with ⟨n, e1, h2, hb2⟩
    rw [hp] at hs
    simp only at hs
    split at hs
    · simp only [Step.done.injEq] at hs
      obtain ⟨rfl, rfl, rfl⟩ := hs
      intro hq
      rcases hq with rfl | rfl
      · have := parseBody_post b j _ hb hok hj hp
        exact ⟨this.2.1, this.2.2⟩
      · have := parseBody_ne_empty b j { h with type := getHdrType nm } hb
        rw [hp] at this; exact absurd rfl this
    · cases hs

theorem hlValEnd_post (b : Buf) (j : Nat) (h : Hdr) (hb : Option PHdrVals) (hj : j ≤ b.size)
    (hok : hbOK b j hb) {o : Nat} {e : Err} {st' : HLσ}
    (hs : hlValEnd b j h hb = .done o e st') : HlPost b o e st' := by
  unfold hlValEnd at hs
  rcases hsk : skipLWS b j 0 with ⟨n, crl, e1⟩
  rw [hsk] at hs
  have hv := skipLWS_verdicts b j 0 hsk
  rcases hv with rfl | rfl | rfl | rfl <;> simp only at hs
  · cases hs
  · simp only [Step.done.injEq] at hs
    obtain ⟨rfl, rfl, rfl⟩ := hs
    intro _
    have := skipLWS_eoh_range b j 0 hsk (by decide)
    exact ⟨by omega, hbOK_mono hok (by omega) (by omega)⟩
  · cases hs; intro hq; rcases hq with hq | hq <;> cases hq
  · cases hs; intro hq; rcases hq with hq | hq <;> cases hq

theorem hlName_post (b : Buf) (i : Nat) (h : Hdr) (hb : Option PHdrVals) (hi : i ≤ b.size)
    (hok : hbOK b i hb) {o : Nat} {e : Err} {st' : HLσ}
    (hs : hlName b i h hb = .done o e st') : HlPost b o e st' := by
  unfold hlName at hs
  have hge := skipTokenDelim_ge b i 58
  simp only at hs
  split at hs
  · cases hs; intro hq; rcases hq with hq | hq <;> cases hq
  · rename_i c hj
    have hjl := get?_lt hj
    split at hs
    · split at hs
      · cases hs; intro hq; rcases hq with hq | hq <;> cases hq
      · cases hs
    · split at hs
      · split at hs
        · cases hs; intro hq; rcases hq with hq | hq <;> cases hq
        · exact hlAfterColon_post b _ _ hb (by omega) (hbOK_mono hok (by omega) (by omega)) hs
      · cases hs; intro hq; rcases hq with hq | hq <;> cases hq

theorem hlCont_post (b : Buf) (i : Nat) (h : Hdr) (hb : Option PHdrVals) (hi : i ≤ b.size)
    (hok : hbOK b i hb) {o : Nat} {e : Err} {st' : HLσ}
    (hs : hlCont b i h hb = .done o e st') : HlPost b o e st' := by
  unfold hlCont at hs
  cases hb with
  | none => cases hs; intro hq; rcases hq with hq | hq <;> cases hq
  | some hv =>
    obtain ⟨ok1, ok2, ok3, ok4, ok5⟩ := hok
    simp only at hs
    intro hq0
    cases hst : h.state <;> simp only [hst] at hs
    case hFrom =>
      rcases hq : parseFromVal b i hv.from_ with ⟨n1, e1, f1⟩
      rw [hq] at hs
      simp only [Step.done.injEq] at hs
      obtain ⟨rfl, rfl, rfl⟩ := hs
      have hne : (parseFromVal b i hv.from_).2.1 ≠ .empty := parseNameAddrPVal_ne_empty HdrFrom b i hv.from_
      rw [hq] at hne
      by_cases hem : e1 = .empty
      · exact absurd hem hne
      have hq1 : e1 = .ok := by
        rcases hq0 with h | h
        · exact h
        · exact absurd h hem
      subst hq1
      obtain ⟨h3, h1, h2⟩ := naPVal_ok_range HdrFrom b i hv.from_ hi hq (Or.inl rfl)
      exact ⟨h2, Or.inl h3, naOK_mono ok2 h1 h2, csOK_mono ok3 h1 h2, ctOK_mono ok4 h1 h2, paOK_mono ok5 h1 h2⟩
    case hTo =>
      rcases hq : parseNameAddrPVal HdrTo b i hv.to with ⟨n1, e1, f1⟩
      rw [hq] at hs
      simp only [Step.done.injEq] at hs
      obtain ⟨rfl, rfl, rfl⟩ := hs
      have hne : (parseNameAddrPVal HdrTo b i hv.to).2.1 ≠ .empty := parseNameAddrPVal_ne_empty HdrTo b i hv.to
      rw [hq] at hne
      by_cases hem : e1 = .empty
      · exact absurd hem hne
      have hq1 : e1 = .ok := by
        rcases hq0 with h | h
        · exact h
        · exact absurd h hem
      subst hq1
      obtain ⟨h3, h1, h2⟩ := naPVal_ok_range HdrTo b i hv.to hi hq (Or.inl rfl)
      exact ⟨h2, naOK_mono ok1 h1 h2, Or.inl h3, csOK_mono ok3 h1 h2, ctOK_mono ok4 h1 h2, paOK_mono ok5 h1 h2⟩
    case hCallID =>
      rcases hq : parseCallIDVal b i hv.callid with ⟨n1, e1, f1⟩
      rw [hq] at hs
      simp only [Step.done.injEq] at hs
      obtain ⟨rfl, rfl, rfl⟩ := hs
      have hne : (parseCallIDVal b i hv.callid).2.1 ≠ .empty := parseCallIDVal_ne_empty b i hv.callid
      rw [hq] at hne
      by_cases hem : e1 = .empty
      · exact absurd hem hne
      have hq1 : e1 = .ok := by
        rcases hq0 with h | h
        · exact h
        · exact absurd h hem
      subst hq1
      obtain ⟨h1, h2, _⟩ := parseCallIDVal_post b i hv.callid hi hq
      exact ⟨h2, naOK_mono ok1 h1 h2, naOK_mono ok2 h1 h2, csOK_mono ok3 h1 h2, ctOK_mono ok4 h1 h2, paOK_mono ok5 h1 h2⟩
    case hCSeq =>
      rcases hq : parseCSeqVal b i hv.cseq with ⟨n1, e1, f1⟩
      rw [hq] at hs
      simp only [Step.done.injEq] at hs
      obtain ⟨rfl, rfl, rfl⟩ := hs
      have hne : (parseCSeqVal b i hv.cseq).2.1 ≠ .empty := parseCSeqVal_ne_empty b i hv.cseq
      rw [hq] at hne
      by_cases hem : e1 = .empty
      · exact absurd hem hne
      have hq1 : e1 = .ok := by
        rcases hq0 with h | h
        · exact h
        · exact absurd h hem
      subst hq1
      obtain ⟨h1, h2, h3, _⟩ := parseCSeqVal_post b i hv.cseq hi hq
      exact ⟨h2, naOK_mono ok1 h1 h2, naOK_mono ok2 h1 h2, Or.inl h3, ctOK_mono ok4 h1 h2, paOK_mono ok5 h1 h2⟩
    case hCLen =>
      rcases hq : parseCLenVal b i hv.clen with ⟨n1, e1, f1⟩
      rw [hq] at hs
      simp only [Step.done.injEq] at hs
      obtain ⟨rfl, rfl, rfl⟩ := hs
      have hne : (parseCLenVal b i hv.clen).2.1 ≠ .empty := parseCLenVal_ne_empty b i hv.clen
      rw [hq] at hne
      by_cases hem : e1 = .empty
      · exact absurd hem hne
      have hq1 : e1 = .ok := by
        rcases hq0 with h | h
        · exact h
        · exact absurd h hem
      subst hq1
      obtain ⟨h1, h2, _⟩ := parseCLenVal_post b i hv.clen hi hq
      exact ⟨h2, naOK_mono ok1 h1 h2, naOK_mono ok2 h1 h2, csOK_mono ok3 h1 h2, ctOK_mono ok4 h1 h2, paOK_mono ok5 h1 h2⟩
    case hContact =>
      rcases hq : parseAllContactValues b i hv.contacts with ⟨n1, e1, f1⟩
      rw [hq] at hs
      simp only [Step.done.injEq] at hs
      obtain ⟨rfl, rfl, rfl⟩ := hs
      have hne : (parseAllContactValues b i hv.contacts).2.1 ≠ .empty := parseAllContactValues_ne_empty b i hv.contacts
      rw [hq] at hne
      by_cases hem : e1 = .empty
      · exact absurd hem hne
      have hq1 : e1 = .ok := by
        rcases hq0 with h | h
        · exact h
        · exact absurd h hem
      subst hq1
      obtain ⟨h1, h2, h3⟩ := parseAllContactValues_post b i hv.contacts ok4 hi hq
      exact ⟨h2, naOK_mono ok1 h1 h2, naOK_mono ok2 h1 h2, csOK_mono ok3 h1 h2, h3, paOK_mono ok5 h1 h2⟩
    case hExpires =>
      rcases hq : parseUIntVal b i hv.expires with ⟨n1, e1, f1⟩
      rw [hq] at hs
      simp only [Step.done.injEq] at hs
      obtain ⟨rfl, rfl, rfl⟩ := hs
      have hne : (parseUIntVal b i hv.expires).2.1 ≠ .empty := parseUIntVal_ne_empty b i hv.expires
      rw [hq] at hne
      by_cases hem : e1 = .empty
      · exact absurd hem hne
      have hq1 : e1 = .ok := by
        rcases hq0 with h | h
        · exact h
        · exact absurd h hem
      subst hq1
      obtain ⟨h1, h2, _⟩ := parseUIntVal_post b i hv.expires hi hq
      exact ⟨h2, naOK_mono ok1 h1 h2, naOK_mono ok2 h1 h2, csOK_mono ok3 h1 h2, ctOK_mono ok4 h1 h2, paOK_mono ok5 h1 h2⟩
    case hPAI =>
      rcases hq : parseAllPAIValues b i hv.pais with ⟨n1, e1, f1⟩
      rw [hq] at hs
      simp only [Step.done.injEq] at hs
      obtain ⟨rfl, rfl, rfl⟩ := hs
      have hne : (parseAllPAIValues b i hv.pais).2.1 ≠ .empty := parseAllPAIValues_ne_empty b i hv.pais
      rw [hq] at hne
      by_cases hem : e1 = .empty
      · exact absurd hem hne
      have hq1 : e1 = .ok := by
        rcases hq0 with h | h
        · exact h
        · exact absurd h hem
      subst hq1
      obtain ⟨h1, h2, h3⟩ := parseAllPAIValues_post b i hv.pais ok5 hi hq
      exact ⟨h2, naOK_mono ok1 h1 h2, naOK_mono ok2 h1 h2, csOK_mono ok3 h1 h2, ctOK_mono ok4 h1 h2, h3⟩
    all_goals (cases hs; rcases hq0 with hq0 | hq0 <;> cases hq0)

theorem hlStep_post (b : Buf) (i : Nat) (c : UInt8) (st : HLσ) (hb : b[i]? = some c) (hI : hlInv b i st)
    {o : Nat} {e : Err} {st' : HLσ} (hs : hlStep b i c st = .done o e st') : HlPost b o e st' := by
  obtain ⟨h, hv⟩ := st
  obtain ⟨hi, hd, hok⟩ := hI
  have hok : hbOK b i hv := hok
  have hlt := get?_lt hb
  unfold hlStep at hs
  simp only at hs
  cases hst : h.state <;> rw [hst] at hs <;> simp only at hs
  case init =>
    split at hs
    · split at hs
      · cases hs; intro hq; rcases hq with hq | hq <;> cases hq
      · rename_i c1 h1
        have := get?_lt h1
        split at hs <;> (cases hs; intro _; exact ⟨by omega, hbOK_mono hok (by omega) (by omega)⟩)
    · split at hs
      · cases hs; intro _; exact ⟨by omega, hbOK_mono hok (by omega) (by omega)⟩
      · exact hlName_post b i _ hv hi hok hs
  case name => exact hlName_post b i h hv hi hok hs
  case nameEnd =>
    have hge := skipWS_ge b i
    split at hs
    · cases hs; intro hq; rcases hq with hq | hq <;> cases hq
    · rename_i c1 hj
      have hjl := get?_lt hj
      split at hs
      · exact hlAfterColon_post b (skipWS b i + 1) _ hv (by omega) (hbOK_mono hok (by omega) (by omega)) hs
      · cases hs; intro hq; rcases hq with hq | hq <;> cases hq
  case bodyStart =>
    rcases hsk : skipLWS b i 0 with ⟨n, crl, e1⟩
    rw [hsk] at hs
    have hvd := skipLWS_verdicts b i 0 hsk
    rcases hvd with rfl | rfl | rfl | rfl <;> simp only at hs
    · cases hs
    · simp only [Step.done.injEq] at hs
      obtain ⟨rfl, rfl, rfl⟩ := hs
      intro _
      have := skipLWS_eoh_range b i 0 hsk (by decide)
      exact ⟨by omega, hbOK_mono hok (by omega) (by omega)⟩
    · cases hs; intro hq; rcases hq with hq | hq <;> cases hq
    · cases hs; intro hq; rcases hq with hq | hq <;> cases hq
  case val =>
    have hge := skipToken_ge b i
    split at hs
    · cases hs; intro hq; rcases hq with hq | hq <;> cases hq
    · rename_i c1 hj
      have hjl := get?_lt hj
      exact hlValEnd_post b (skipToken b i) _ hv (by omega) (hbOK_mono hok (by omega) (by omega)) hs
  case valEnd => exact hlValEnd_post b i h hv hi hok hs
  case fin => cases hs; intro hq; rcases hq with hq | hq <;> cases hq
  all_goals exact hlCont_post b i h hv hi hok (by simpa only [hst] using hs)

/-- **ParseHdrLine, OK**: the returned offset is inside the buffer, and the values object is legitimate there -/
theorem parseHdrLine_post (b : Buf) (o : Nat) (h : Hdr) (hb : Option PHdrVals) (hok : hlOK b o h hb)
    {o' : Nat} {e : Err} {h' : Hdr} {hb' : Option PHdrVals} (hr : parseHdrLine b o h hb = (o', e, h', hb'))
    (he : e = .ok ∨ e = .empty) : o' ≤ b.size ∧ hbOK b o' hb' := by
  unfold parseHdrLine at hr
  rcases hrl : runLoop hlMachine b o (h, hb) with ⟨o1, e1, h1, hb1⟩
  rw [hrl] at hr
  simp only [Prod.mk.injEq] at hr
  obtain ⟨rfl, rfl, rfl, rfl⟩ := hr
  have key := runLoop_inv hlMachine b (hlInv b) (fun r => (r.2.1 = .ok ∨ r.2.1 = .empty) → r.1 ≤ b.size ∧ hbOK b r.1 r.2.2.2)
    (by
      intro i c st i' st' hb hP hs
      exact ⟨fun hlt => hl_invCont b i c st i' st' hb hP hs hlt, fun _ hq => by rcases hq with hq | hq <;> cases hq⟩)
    (by
      intro i c st o2 e2 st2 hb hP hs
      exact hlStep_post b i c st hb hP hs)
    (by
      intro i st _ _ hq
      simp only [hlMachine] at hq
      rcases hq with hq | hq <;> cases hq)
    o (h, hb) hok
  rw [hrl] at key
  exact key he

/-! ### ParseHeaders -/

/-- legitimacy of the header list w.r.t. `b`: the slots not yet filled and the scratch slot -/
def hlsOK (b : Buf) (hl : HdrLst) : Prop :=
  (∀ k, hl.n ≤ k → k < hl.hdrs.size → hdrOK b hl.hdrs[k]!) ∧ hdrOK b hl.hdr

theorem hlsOK_cur {b : Buf} {hl : HdrLst} (h : hlsOK b hl) : hdrOK b hl.cur := by
  unfold HdrLst.cur
  split
  · rename_i hlt; exact h.1 hl.n (Nat.le_refl _) hlt
  · exact h.2

theorem hlsOK_grows {b : Buf} (s : Buf) {hl : HdrLst} (h : hlsOK b hl) : hlsOK (b ++ s) hl :=
  ⟨fun k hk hk' => hdrOK_grows s (h.1 k hk hk'), hdrOK_grows s h.2⟩

theorem hdrOK_new (b : Buf) : hdrOK b {} := ⟨by decide, Nat.zero_le _⟩

theorem setHdr_hdrs (hl : HdrLst) (nh : Hdr) : (hl.setHdr nh).hdrs = hl.hdrs := by
  unfold HdrLst.setHdr; repeat' split
  all_goals rfl
theorem setHdr_n (hl : HdrLst) (nh : Hdr) : (hl.setHdr nh).n = hl.n := by
  unfold HdrLst.setHdr; repeat' split
  all_goals rfl
theorem setHdr_hdr (hl : HdrLst) (nh : Hdr) : (hl.setHdr nh).hdr = hl.hdr := by
  unfold HdrLst.setHdr; repeat' split
  all_goals rfl

theorem hlSetCur_n (hl : HdrLst) (h : Hdr) : (hl.setCur h).n = hl.n := by
  unfold HdrLst.setCur; split <;> rfl
theorem hlSetCur_size (hl : HdrLst) (h : Hdr) : (hl.setCur h).hdrs.size = hl.hdrs.size := by
  unfold HdrLst.setCur; split
  · simp
  · rfl
theorem hlSetCur_ne (hl : HdrLst) (h : Hdr) (k : Nat) (hk : hl.n ≠ k) : (hl.setCur h).hdrs[k]! = hl.hdrs[k]! := by
  unfold HdrLst.setCur; split
  · simp [Array.getElem!_eq_getD, Array.getD_eq_getD_getElem?, Array.getElem?_setIfInBounds_ne hk]
  · rfl
theorem hlSetCur_hdr_in (hl : HdrLst) (h : Hdr) (hin : hl.n < hl.hdrs.size) : (hl.setCur h).hdr = hl.hdr := by
  unfold HdrLst.setCur; rw [if_pos hin]

theorem accept_hdrs (hl : HdrLst) (h : Hdr) : (hl.accept h).hdrs = hl.hdrs := by
  unfold HdrLst.accept; dsimp only; split <;> simp only [setHdr_hdrs]
theorem accept_n (hl : HdrLst) (h : Hdr) : (hl.accept h).n = hl.n + 1 := by
  unfold HdrLst.accept; dsimp only; split <;> simp only [setHdr_n]
theorem accept_hdr (hl : HdrLst) (h : Hdr) :
    (hl.accept h).hdr = if hl.n < hl.hdrs.size then hl.hdr else {} := by
  unfold HdrLst.accept; dsimp only; split <;> simp only [setHdr_hdr]

theorem hlsOK_next {b : Buf} {hl : HdrLst} (h : Hdr) (hk : hlsOK b hl) : hlsOK b ((hl.setCur h).accept h) := by
  refine ⟨fun k hk1 hk2 => ?_, ?_⟩
  · rw [accept_n, hlSetCur_n] at hk1
    rw [accept_hdrs, hlSetCur_size] at hk2
    rw [accept_hdrs, hlSetCur_ne hl h k (by omega)]
    exact hk.1 k (by omega) hk2
  · rw [accept_hdr, hlSetCur_n, hlSetCur_size]
    split
    · rename_i hin; rw [hlSetCur_hdr_in hl h hin]; exact hk.2
    · exact hdrOK_new b

/-- **L1 for ParseHeaders** -/
theorem parseHeaders_stable (b s : Buf) (offs : Nat) (hl : HdrLst) (hb : Option PHdrVals)
    (hok1 : hlsOK b hl) (hok2 : hbOK b offs hb)
    {o' : Nat} {e : Err} {hl' : HdrLst} {hb' : Option PHdrVals}
    (hr : parseHeaders b offs hl hb = (o', e, hl', hb')) (he : e ≠ .moreBytes) :
    parseHeaders (b ++ s) offs hl hb = (o', e, hl', hb') := by
  induction hk : b.size - offs using Nat.strongRecOn generalizing offs hl hb with
  | _ k ih =>
    rw [parseHeaders] at hr ⊢
    by_cases hlt : offs < b.size
    · have hltB : offs < (b ++ s).size := by rw [Array.size_append]; omega
      rw [if_pos hlt] at hr
      rw [if_pos hltB]
      rcases hp : parseHdrLine b offs hl.cur hb with ⟨n, e1, h, hb1⟩
      rw [hp] at hr
      have hI : hlOK b offs hl.cur hb := ⟨by omega, hlsOK_cur hok1, hok2⟩
      by_cases hm : e1 = .moreBytes
      · subst hm; simp only at hr; cases hr; exact absurd rfl he
      · rw [parseHdrLine_stable b s offs hl.cur hb hI hp hm]
        cases e1 <;> simp only at hr ⊢ <;> try exact hr
        -- OK: next header line
        have hpost := parseHdrLine_post b offs hl.cur hb hI hp (Or.inl rfl)
        split at hr
        · rename_i hg
          rw [if_pos hg]
          exact ih (b.size - n) (by omega) n _ hb1 (hlsOK_next h hok1) hpost.2 hr rfl
        · rename_i hg
          rw [if_neg hg]; exact hr
    · rw [if_neg hlt] at hr; cases hr; exact absurd rfl he

/-- **ParseHeaders, OK**: the returned offset is inside the buffer -/
theorem parseHeaders_post (b : Buf) (offs : Nat) (hl : HdrLst) (hb : Option PHdrVals)
    (hok1 : hlsOK b hl) (hok2 : hbOK b offs hb)
    {o' : Nat} {hl' : HdrLst} {hb' : Option PHdrVals}
    (hr : parseHeaders b offs hl hb = (o', .ok, hl', hb')) : o' ≤ b.size ∧ hbOK b o' hb' := by
  induction hk : b.size - offs using Nat.strongRecOn generalizing offs hl hb with
  | _ k ih =>
    rw [parseHeaders] at hr
    by_cases hlt : offs < b.size
    · rw [if_pos hlt] at hr
      rcases hp : parseHdrLine b offs hl.cur hb with ⟨n, e1, h, hb1⟩
      rw [hp] at hr
      have hI : hlOK b offs hl.cur hb := ⟨by omega, hlsOK_cur hok1, hok2⟩
      cases e1 <;> simp only at hr <;> try (cases hr; done)
      case ok =>
        have hpost := parseHdrLine_post b offs hl.cur hb hI hp (Or.inl rfl)
        split at hr
        · rename_i hg
          exact ih (b.size - n) (by omega) n _ hb1 (hlsOK_next h hok1) hpost.2 hr rfl
        · cases hr
      case empty =>
        have hpost := parseHdrLine_post b offs hl.cur hb hI hp (Or.inr rfl)
        split at hr <;> cases hr
        exact hpost
    · rw [if_neg hlt] at hr; cases hr

end Sipsp
