/-
  Sipsp.Proofs.UriLink — two links from the ParseURI layout theorem (UriSpec: `parseURI_ok`, `URILayout`).

  (A) Property C18. Every URI accepted by `parseURI b {}` (len(b) ≤ 65,535; sip:, sips: and tel:) satisfies the
      hypothesis of the AdjustOffs theorems: `ULWF u len(b)` has field for field the content of `Sipsp.C18.WF`
      (`ul_parsed_wf`; `ULGood` adds: scheme at 0, computed length = len(b), sum of lengths ≤ len(b), absent
      components are zero). Composed, for ALL three schemes:
        * `ul_parsed_len` : the URI length AdjustOffs computes (furthest end of a present component) is exactly len(b);
        * `ul_relocate_parsed` : parse, then AdjustOffs onto ANY span with `Len ≥ len(b)` inside the 16-bit range:
          result true, no panic, type and port number kept, and in any buffer `b2` holding the same text at the new
          offset (`ULHolds`) `Get` on every one of the seven relocated fields returns the same bytes as `Get` on the
          original field in `b` (`ULSame`; neither panics);
        * `ul_refuse` : ANY span with `Len < len(b)`: result false, URI unchanged, no panic;
        * `ul_views_sip` / `ul_views_tel` : Long / Short / Flat / Truncate of a parsed URI (do not panic, start at the
          scheme, scheme < Short ≤ Long ≤ len(b), readable, the short view is a prefix of the long view, Long after
          Truncate = Short, Long = Flat = whole input when no trailing component is present-but-empty); for tel: the
          number (reported as user, possibly BEHIND a reported password: `tel:a:b@c`) takes the place of the host;
          `ul_short_prefix_long` : the scheme-independent summary.
  (B) Property C10, run level for the URI port: `ul_port_exact` — for every accepted URI the bytes of the reported port
      field are digits, `PortNo` is exactly their decimal value and `PortNo ≤ 65535`; `ul_port_zero`, `ul_port_numdone`
      (`NumDone`, as for Content-Length / CSeq), `ul_port_meaning` (with `Get`). Loop invariant `ULPInv` on top of `UInv`:
      in `pass0` / `port` the accumulator is `accPortL 0` of the digits since `σ.s`, in all other states before the
      parameters it is 0 (this needs the reset at '@'), from the parameters on the reported pair is final.

  This file does not import Sipsp/Properties/C18.lean (that file is meant to re-export from here); the few lines
  about `adjustOffs` that are needed (`ul_adjust_moves`, `ul_adjust_refused`) are proved here again, with the result
  of a successful call given as an equation (`= (true, ulRelocate u np.offs, false)`).

  FINAL THEOREMS (for re-export) carry `EXPORT C18` / `EXPORT C10` in their doc comment.

  History: an earlier version of the model (and of the Go code) took the LAST LISTED present component as the end of
  the URI; for `tel:a:b@c` (number behind the password) AdjustOffs then accepted spans of 7 and 8 bytes for a 9-byte
  URI and Long() = [0,7) was shorter than Short() = [0,9). Found while proving this file, repaired in the Go code
  (furthest end; Long prefers the user when it ends behind the password); the tests at the end of part (A) pin the
  repaired behaviour and the theorems now cover tel: without extra hypotheses.
  NOT proved: nothing is claimed about `Flat` when a trailing component is present but empty beyond "Long stops before
  the dangling delimiter" (see the `sip:h:` test).
-/
import Sipsp.Proofs.UriSpec
import Sipsp.Proofs.NumRun

set_option linter.unusedSimpArgs false
set_option linter.unusedVariables false

namespace Sipsp

/-! ## (A) C18: a parsed URI satisfies the hypotheses of the AdjustOffs theorems -/

/-- the components after the scheme, in the order AdjustOffs visits them -/
def ulComps (u : PsipURI) : List PField := [u.user, u.pass, u.host, u.port, u.params, u.headers]

/-- the URI length as computed by AdjustOffs (end of the last listed present component, relative to the scheme) -/
def ulLen (u : PsipURI) : Nat := (ulComps u).foldl (fun a f => ulenStep a u.scheme.offs f) u.scheme.len

/-- sum of the component lengths (first test of AdjustOffs) -/
def ulSum (u : PsipURI) : Nat :=
  u.scheme.len + u.user.len + u.pass.len + u.host.len + u.port.len + u.params.len + u.headers.len

/-- well formed w.r.t. a URI occupying `[start, start+L)`: same four fields as `Sipsp.C18.WF` -/
structure ULWF (u : PsipURI) (L : Nat) : Prop where
  lim : u.scheme.offs + L < 65536
  sch : u.scheme.len ≤ L
  inside : ∀ f ∈ ulComps u, f.offs ≠ 0 → u.scheme.offs ≤ f.offs ∧ f.offs + f.len ≤ u.scheme.offs + L
  ulen : ulLen u ≤ L

/-- one component moved from a URI starting at `start` to one starting at `offs` (absent components stay zero) -/
def ulMoved (f : PField) (start offs : Nat) : PField :=
  if f.offs != 0 then { f with offs := f.offs - start + offs } else f

/-- the whole URI moved to start at `offs` -/
def ulRelocate (u : PsipURI) (offs : Nat) : PsipURI :=
  { u with scheme := { u.scheme with offs := offs }, user := ulMoved u.user u.scheme.offs offs, pass := ulMoved u.pass u.scheme.offs offs, host := ulMoved u.host u.scheme.offs offs, port := ulMoved u.port u.scheme.offs offs, params := ulMoved u.params u.scheme.offs offs, headers := ulMoved u.headers u.scheme.offs offs }

/-! ### AdjustOffs on a well-formed URI -/

theorem ul_adjField_eq (f : PField) (start offs last L : Nat)
    (h0 : f.offs ≠ 0 → start ≤ f.offs ∧ f.offs + f.len ≤ start + L) (hl : offs + L < 65536) :
    (adjField f start offs last).1 = ulMoved f start offs ∧
    (f.offs ≠ 0 → (adjField f start offs last).2 = f.offs - start + offs + f.len) ∧
    (f.offs = 0 → (adjField f start offs last).2 = last) := by
  unfold adjField ulMoved
  by_cases hz : f.offs = 0
  · simp [hz]
  · have := h0 hz
    have hne : (f.offs != 0) = true := by simpa using hz
    simp only [hne, if_true, trunc16]
    have h1 : (f.offs + 65536 - start + offs) % 65536 = f.offs - start + offs := by
      have : f.offs + 65536 - start + offs = (f.offs - start + offs) + 65536 := by omega
      rw [this, Nat.add_mod_right]; exact Nat.mod_eq_of_lt (by omega)
    rw [h1]
    refine ⟨rfl, fun _ => ?_, fun h => absurd h hz⟩
    exact Nat.mod_eq_of_lt (by omega)

/-- a span shorter than the computed URI length is refused, nothing is changed, no panic -/
theorem ul_adjust_refused (u : PsipURI) (np : PField) (h : ulLen u > np.len) :
    u.adjustOffs np = (false, u, false) := by
  unfold PsipURI.adjustOffs
  simp only
  split
  · rfl
  · split
    · rfl
    · have : (List.foldl (fun a f => ulenStep a u.scheme.offs f) u.scheme.len
          [u.user, u.pass, u.host, u.port, u.params, u.headers]) > np.len := h
      rw [if_pos this]

/-- a span that ends past the 16-bit range (its end offset wraps) is refused, nothing is changed, no panic
    (library repair 1a8b02b; before it the code panicked after rewriting the offsets, or wrapped them) -/
theorem ul_adjust_wrap_refused (u : PsipURI) (np : PField) (ho : np.offs < 65536) (hl : np.len < 65536)
    (hw : 65536 ≤ np.offs + np.len) : u.adjustOffs np = (false, u, false) := by
  unfold PsipURI.adjustOffs
  simp only
  have : trunc16 (np.offs + np.len) < np.offs := by
    unfold trunc16
    have : (np.offs + np.len) % 65536 = np.offs + np.len - 65536 := by omega
    omega
  rw [if_pos this]

/-- a span that holds the URI: accepted, no panic, the result is the URI moved by `np.offs - start` -/
theorem ul_adjust_moves (u : PsipURI) (np : PField) (L : Nat) (hwf : ULWF u L) (hfit : L ≤ np.len)
    (hsum : ulSum u ≤ np.len) (hlim : np.offs + np.len < 65536) :
    u.adjustOffs np = (true, ulRelocate u np.offs, false) := by
  have hin := hwf.inside
  have hu := hin u.user (by simp [ulComps])
  have hp := hin u.pass (by simp [ulComps])
  have hh := hin u.host (by simp [ulComps])
  have hpo := hin u.port (by simp [ulComps])
  have hpa := hin u.params (by simp [ulComps])
  have hhd := hin u.headers (by simp [ulComps])
  have hl : np.offs + L < 65536 := by omega
  have hs1 : ¬ (trunc16 (u.scheme.len + u.user.len + u.pass.len + u.host.len + u.port.len + u.params.len +
      u.headers.len) > np.len) := by
    have : trunc16 (ulSum u) ≤ ulSum u := Nat.mod_le _ _
    unfold ulSum at this hsum; omega
  have hs2 : ¬ (List.foldl (fun a f => ulenStep a u.scheme.offs f) u.scheme.len
      [u.user, u.pass, u.host, u.port, u.params, u.headers] > np.len) := by
    have := hwf.ulen; unfold ulLen ulComps at this; omega
  have hs0 : ¬ (trunc16 (np.offs + np.len) < np.offs) := by
    have : trunc16 (np.offs + np.len) = np.offs + np.len := Nat.mod_eq_of_lt hlim
    omega
  simp only [PsipURI.adjustOffs, if_neg hs0, if_neg hs1, if_neg hs2]
  have e1 := ul_adjField_eq u.user u.scheme.offs np.offs np.offs L hu hl
  have e2 := ul_adjField_eq u.pass u.scheme.offs np.offs (adjField u.user u.scheme.offs np.offs np.offs).2 L hp hl
  have e3 := ul_adjField_eq u.host u.scheme.offs np.offs
    (adjField u.pass u.scheme.offs np.offs (adjField u.user u.scheme.offs np.offs np.offs).2).2 L hh hl
  generalize hq1 : adjField u.user u.scheme.offs np.offs np.offs = q1 at *
  generalize hq2 : adjField u.pass u.scheme.offs np.offs q1.2 = q2 at *
  generalize hq3 : adjField u.host u.scheme.offs np.offs q2.2 = q3 at *
  have e4 := ul_adjField_eq u.port u.scheme.offs np.offs q3.2 L hpo hl
  generalize hq4 : adjField u.port u.scheme.offs np.offs q3.2 = q4 at *
  have e5 := ul_adjField_eq u.params u.scheme.offs np.offs q4.2 L hpa hl
  generalize hq5 : adjField u.params u.scheme.offs np.offs q4.2 = q5 at *
  have e6 := ul_adjField_eq u.headers u.scheme.offs np.offs q5.2 L hhd hl
  generalize hq6 : adjField u.headers u.scheme.offs np.offs q5.2 = q6 at *
  -- no panic: the last end offset is inside the span
  have hend : trunc16 (np.offs + np.len) = np.offs + np.len := Nat.mod_eq_of_lt hlim
  have b1 : q1.2 ≤ np.offs + L := by
    by_cases hz : u.user.offs = 0
    · rw [e1.2.2 hz]; omega
    · rw [e1.2.1 hz]; have := hu hz; omega
  have b2 : q2.2 ≤ np.offs + L := by
    by_cases hz : u.pass.offs = 0
    · rw [e2.2.2 hz]; exact b1
    · rw [e2.2.1 hz]; have := hp hz; omega
  have b3 : q3.2 ≤ np.offs + L := by
    by_cases hz : u.host.offs = 0
    · rw [e3.2.2 hz]; exact b2
    · rw [e3.2.1 hz]; have := hh hz; omega
  have b4 : q4.2 ≤ np.offs + L := by
    by_cases hz : u.port.offs = 0
    · rw [e4.2.2 hz]; exact b3
    · rw [e4.2.1 hz]; have := hpo hz; omega
  have b5 : q5.2 ≤ np.offs + L := by
    by_cases hz : u.params.offs = 0
    · rw [e5.2.2 hz]; exact b4
    · rw [e5.2.1 hz]; have := hpa hz; omega
  have b6 : q6.2 ≤ np.offs + L := by
    by_cases hz : u.headers.offs = 0
    · rw [e6.2.2 hz]; exact b5
    · rw [e6.2.1 hz]; have := hhd hz; omega
  have hnp : decide (q6.2 > trunc16 (np.offs + np.len)) = false := by
    simp only [hend, decide_eq_false_iff_not, Nat.not_lt]
    omega
  rw [hnp, e1.1, e2.1, e3.1, e4.1, e5.1, e6.1]
  rfl

/-! ### from the layout (C14) to well-formedness -/

/-- one step of AdjustOffs' length loop for a URI starting at 0: the furthest end so far -/
theorem ul_ulenStep0 (a : Nat) (f : PField) (h : f.offs + f.len < 65536) :
    (f.offs = 0 ∧ ulenStep a 0 f = a) ∨ (f.offs ≠ 0 ∧ ulenStep a 0 f = max a (f.offs + f.len)) := by
  unfold ulenStep
  have e : (f.offs + f.len + 65536 - 0) % 65536 = f.offs + f.len := by omega
  rw [e]
  by_cases hz : f.offs = 0
  · left
    refine ⟨hz, ?_⟩
    have hne : (f.offs != 0) = false := by simp [hz]
    rw [hne]
    simp only [Bool.false_and, Bool.false_eq_true, ↓reduceIte]
  · right
    refine ⟨hz, ?_⟩
    have hne : (f.offs != 0) = true := by simpa using hz
    rw [hne]
    simp only [Bool.true_and, decide_eq_true_eq]
    split <;> omega

/-- the whole loop over six components `f1 … f6`, for a URI starting at 0 with scheme length `k`: the result is
    described step by step (`omega` does the rest) -/
theorem ul_fold6 (k : Nat) (f1 f2 f3 f4 f5 f6 : PField) (L : Nat)
    (h1 : f1.offs + f1.len ≤ L) (h2 : f2.offs + f2.len ≤ L) (h3 : f3.offs + f3.len ≤ L)
    (h4 : f4.offs + f4.len ≤ L) (h5 : f5.offs + f5.len ≤ L) (h6 : f6.offs + f6.len ≤ L) (hL : L ≤ 65535) :
    ∃ r1 r2 r3 r4 r5 r6,
      [f1, f2, f3, f4, f5, f6].foldl (fun a f => ulenStep a 0 f) k = r6 ∧
      ((f1.offs = 0 ∧ r1 = k) ∨ (f1.offs ≠ 0 ∧ r1 = max k (f1.offs + f1.len))) ∧
      ((f2.offs = 0 ∧ r2 = r1) ∨ (f2.offs ≠ 0 ∧ r2 = max r1 (f2.offs + f2.len))) ∧
      ((f3.offs = 0 ∧ r3 = r2) ∨ (f3.offs ≠ 0 ∧ r3 = max r2 (f3.offs + f3.len))) ∧
      ((f4.offs = 0 ∧ r4 = r3) ∨ (f4.offs ≠ 0 ∧ r4 = max r3 (f4.offs + f4.len))) ∧
      ((f5.offs = 0 ∧ r5 = r4) ∨ (f5.offs ≠ 0 ∧ r5 = max r4 (f5.offs + f5.len))) ∧
      ((f6.offs = 0 ∧ r6 = r5) ∨ (f6.offs ≠ 0 ∧ r6 = max r5 (f6.offs + f6.len))) := by
  refine ⟨ulenStep k 0 f1, ulenStep (ulenStep k 0 f1) 0 f2, ulenStep (ulenStep (ulenStep k 0 f1) 0 f2) 0 f3,
    ulenStep (ulenStep (ulenStep (ulenStep k 0 f1) 0 f2) 0 f3) 0 f4,
    ulenStep (ulenStep (ulenStep (ulenStep (ulenStep k 0 f1) 0 f2) 0 f3) 0 f4) 0 f5,
    ulenStep (ulenStep (ulenStep (ulenStep (ulenStep (ulenStep k 0 f1) 0 f2) 0 f3) 0 f4) 0 f5) 0 f6, rfl,
    ul_ulenStep0 _ f1 (by omega), ul_ulenStep0 _ f2 (by omega), ul_ulenStep0 _ f3 (by omega),
    ul_ulenStep0 _ f4 (by omega), ul_ulenStep0 _ f5 (by omega), ul_ulenStep0 _ f6 (by omega)⟩

/-- the arithmetic content of `URILayout`, in a form `omega` can use (`q1`, `q2`: where port / parameters end) -/
theorem URILayout.ul_facts {b : Buf} {k : Nat} {u : PsipURI} (h : URILayout b k u) :
    u.scheme = ⟨0, k⟩ ∧ 0 < u.host.len ∧
    ((u.user.offs = 0 ∧ u.user.len = 0 ∧ u.pass.offs = 0 ∧ u.pass.len = 0 ∧ u.host.offs = k) ∨
     (u.user.offs = k ∧ 0 < u.user.len ∧
       ((u.pass.offs = 0 ∧ u.pass.len = 0 ∧ u.host.offs = k + u.user.len + 1) ∨
        (u.pass.offs = k + u.user.len + 1 ∧ u.host.offs = k + u.user.len + 1 + u.pass.len + 1)))) ∧
    ∃ q1 q2, q1 = uafter (u.host.offs + u.host.len) u.port ∧ q2 = uafter q1 u.params ∧
      uafter q2 u.headers = b.size ∧
      ((u.port.offs = 0 ∧ u.port.len = 0 ∧ q1 = u.host.offs + u.host.len) ∨
       (u.port.offs = u.host.offs + u.host.len + 1 ∧ q1 = u.host.offs + u.host.len + 1 + u.port.len)) ∧
      ((u.params.offs = 0 ∧ u.params.len = 0 ∧ q2 = q1) ∨
       (u.params.offs = q1 + 1 ∧ q2 = q1 + 1 + u.params.len)) ∧
      ((u.headers.offs = 0 ∧ u.headers.len = 0 ∧ b.size = q2) ∨
       (u.headers.offs = q2 + 1 ∧ b.size = q2 + 1 + u.headers.len)) := by
  obtain ⟨hsch, hup, hhl, h1, h2, h3, hend⟩ := h
  have a0 := hup.arith
  have a1 := h1.arith
  have a2 := h2.arith
  have a3 := h3.arith
  refine ⟨hsch, hhl, ?_, _, _, rfl, rfl, hend, a1, a2, ?_⟩
  · generalize uafter (k + u.user.len) u.pass = q0 at a0
    omega
  · rw [hend] at a3
    omega

/-- bounds of all components of a laid-out URI -/
theorem URILayout.ul_bounds {b : Buf} {k : Nat} {u : PsipURI} (h : URILayout b k u) (hk : 0 < k) :
    k ≤ b.size ∧ u.host.offs ≠ 0 ∧
    u.user.offs + u.user.len ≤ b.size ∧ u.pass.offs + u.pass.len ≤ b.size ∧ u.host.offs + u.host.len ≤ b.size ∧
    u.port.offs + u.port.len ≤ b.size ∧ u.params.offs + u.params.len ≤ b.size ∧
    u.headers.offs + u.headers.len ≤ b.size ∧
    k + u.user.len + u.pass.len + u.host.len + u.port.len + u.params.len + u.headers.len ≤ b.size := by
  obtain ⟨_, hhl, hu, q1, q2, _, _, _, a1, a2, a3⟩ := h.ul_facts
  refine ⟨?_, ?_, ?_, ?_, ?_, ?_, ?_, ?_, ?_⟩ <;> omega

/-- AdjustOffs' length computation on a laid-out URI gives exactly the length of the input -/
theorem URILayout.ul_len {b : Buf} {k : Nat} {u : PsipURI} (h : URILayout b k u) (hk : 0 < k)
    (hfit : b.size ≤ 65535) : ulLen u = b.size := by
  obtain ⟨hkb, hho, b1, b2, b3, b4, b5, b6, _⟩ := h.ul_bounds hk
  obtain ⟨hsch, hhl, hu, q1, q2, _, _, _, a1, a2, a3⟩ := h.ul_facts
  obtain ⟨r1, r2, r3, r4, r5, r6, hr, s1, s2, s3, s4, s5, s6⟩ :=
    ul_fold6 k u.user u.pass u.host u.port u.params u.headers b.size b1 b2 b3 b4 b5 b6 hfit
  unfold ulLen ulComps
  simp only [hsch]
  rw [hr]
  omega

/-- **layout ⇒ well formed** (sip: / sips: shape; `k` = scheme length with its ':') -/
theorem URILayout.ul_wf {b : Buf} {k : Nat} {u : PsipURI} (h : URILayout b k u) (hk : 0 < k)
    (hfit : b.size ≤ 65535) : ULWF u b.size := by
  obtain ⟨hkb, hho, b1, b2, b3, b4, b5, b6, _⟩ := h.ul_bounds hk
  have hsch := h.1
  refine ⟨?_, ?_, ?_, ?_⟩
  · rw [hsch]; simp only; omega
  · rw [hsch]; exact hkb
  · intro f hf _
    rw [hsch]
    simp only [ulComps, List.mem_cons, List.not_mem_nil, or_false] at hf
    rcases hf with rfl | rfl | rfl | rfl | rfl | rfl <;> (constructor <;> simp only <;> omega)
  · rw [h.ul_len hk hfit]; exact Nat.le_refl _

theorem URILayout.ul_sum {b : Buf} {k : Nat} {u : PsipURI} (h : URILayout b k u) (hk : 0 < k) :
    ulSum u ≤ b.size := by
  have := (h.ul_bounds hk).2.2.2.2.2.2.2.2
  unfold ulSum
  rw [h.1]
  exact this

/-! #### the tel: report (`telSwap`: the host is handed out as user, the password field is kept) -/

/-- for tel: too the computed length is the input length (the furthest end counts, not the last listed one) -/
theorem ul_tel_len {b : Buf} {u0 : PsipURI} (h : URILayout b 4 u0) (hfit : b.size ≤ 65535) :
    ulLen (telSwap u0) = b.size := by
  obtain ⟨hkb, hho, b1, b2, b3, b4, b5, b6, _⟩ := h.ul_bounds (by omega)
  obtain ⟨hsch, hhl, hu, q1, q2, _, _, _, a1, a2, a3⟩ := h.ul_facts
  obtain ⟨r1, r2, r3, r4, r5, r6, hr, s1, s2, s3, s4, s5, s6⟩ :=
    ul_fold6 4 u0.host u0.pass ({} : PField) u0.port u0.params u0.headers b.size b3 b2 (Nat.zero_le _) b4 b5 b6 hfit
  have z1 : ({} : PField).offs = 0 := rfl
  have z2 : ({} : PField).len = 0 := rfl
  rw [z1, z2] at s3
  unfold ulLen ulComps telSwap
  simp only [hsch]
  rw [hr]
  omega

theorem ul_tel_wf {b : Buf} {u0 : PsipURI} (h : URILayout b 4 u0) (hfit : b.size ≤ 65535) :
    ULWF (telSwap u0) b.size := by
  obtain ⟨hkb, hho, b1, b2, b3, b4, b5, b6, _⟩ := h.ul_bounds (by omega)
  have hsch := h.1
  have hsch' : (telSwap u0).scheme = ⟨0, 4⟩ := hsch
  refine ⟨?_, ?_, ?_, ?_⟩
  · rw [hsch']; simp only; omega
  · rw [hsch']; exact hkb
  · intro f hf _
    rw [hsch']
    simp only [ulComps, telSwap, List.mem_cons, List.not_mem_nil, or_false] at hf
    rcases hf with rfl | rfl | rfl | rfl | rfl | rfl <;> (constructor <;> simp only <;> omega)
  · rw [ul_tel_len h hfit]; exact Nat.le_refl _

theorem ul_tel_sum {b : Buf} {u0 : PsipURI} (h : URILayout b 4 u0) : ulSum (telSwap u0) ≤ b.size := by
  have := (h.ul_bounds (by omega)).2.2.2.2.2.2.2.2
  unfold ulSum telSwap
  simp only [h.1]
  have e : ({} : PField).len = 0 := rfl
  omega

/-! ### what a parsed URI satisfies (all URI types) -/

/-- everything the relocation theorems need to know about a URI `u` parsed from the buffer `b` -/
structure ULGood (b : Buf) (u : PsipURI) : Prop where
  wf : ULWF u b.size
  len : ulLen u = b.size
  sum : ulSum u ≤ b.size
  start : u.scheme.offs = 0
  flds : ∀ f ∈ ulComps u, f.offs + f.len ≤ b.size ∧ (f.offs = 0 → f.len = 0)

theorem URILayout.ul_good {b : Buf} {k : Nat} {u : PsipURI} (h : URILayout b k u) (hk : 0 < k)
    (hfit : b.size ≤ 65535) : ULGood b u := by
  refine ⟨h.ul_wf hk hfit, h.ul_len hk hfit, h.ul_sum hk, by rw [h.1], ?_⟩
  obtain ⟨_, hhl, hu, q1, q2, _, _, _, a1, a2, a3⟩ := h.ul_facts
  intro f hf
  simp only [ulComps, List.mem_cons, List.not_mem_nil, or_false] at hf
  rcases hf with rfl | rfl | rfl | rfl | rfl | rfl <;> (constructor <;> omega)

theorem ul_tel_good {b : Buf} {u0 : PsipURI} (h : URILayout b 4 u0) (hfit : b.size ≤ 65535) :
    ULGood b (telSwap u0) := by
  refine ⟨ul_tel_wf h hfit, ul_tel_len h hfit, ul_tel_sum h, h.1 ▸ rfl, ?_⟩
  obtain ⟨_, hhl, hu, q1, q2, _, _, _, a1, a2, a3⟩ := h.ul_facts
  intro f hf
  simp only [ulComps, telSwap, List.mem_cons, List.not_mem_nil, or_false] at hf
  rcases hf with rfl | rfl | rfl | rfl | rfl | rfl <;>
    (constructor <;> first | omega | (show (0 : Nat) + 0 ≤ _; omega) | (intro _; rfl))

/-- EXPORT C18 — **the link**: every URI accepted by ParseURI (any type) is well formed for AdjustOffs -/
theorem ul_parsed_good (b : Buf) (hfit : b.size ≤ 65535) (hacc : (parseURI b {}).1 = .none) :
    ULGood b (parseURI b {}).2.2.1 := by
  obtain ⟨_, t, k, u0, hk, hl, hty, hu⟩ := (parseURI_ok b hfit).2.2 hacc
  rw [hu]
  by_cases ht : t = TELuri
  · rw [if_pos ht]
    have hk4 : k = 4 := by
      rcases hk with ⟨_, rfl, _⟩ | ⟨_, rfl, _⟩ | ⟨rfl, _, _⟩
      · rfl
      · rfl
      · exact absurd ht (by decide)
    subst hk4
    exact ul_tel_good hl hfit
  · rw [if_neg ht]
    have hk0 : 0 < k := by rcases hk with ⟨_, rfl, _⟩ | ⟨_, rfl, _⟩ | ⟨_, rfl, _⟩ <;> omega
    exact hl.ul_good hk0 hfit

/-- EXPORT C18 — the hypothesis `WF` of the C18 theorems holds for every accepted URI, with `L = len(b)` -/
theorem ul_parsed_wf (b : Buf) (hfit : b.size ≤ 65535) (hacc : (parseURI b {}).1 = .none) :
    ULWF (parseURI b {}).2.2.1 b.size := (ul_parsed_good b hfit hacc).wf

/-- EXPORT C18 — the length AdjustOffs computes for an accepted URI (any type) is exactly len(b) -/
theorem ul_parsed_len (b : Buf) (hfit : b.size ≤ 65535) (hacc : (parseURI b {}).1 = .none) :
    ulLen (parseURI b {}).2.2.1 = b.size := (ul_parsed_good b hfit hacc).len

/-! ### relocation -/

/-- the buffer `b2` holds the text `b` at position `s` -/
def ULHolds (b2 : Buf) (s : Nat) (b : Buf) : Prop := s + b.size ≤ b2.size ∧ b2.extract s (s + b.size) = b

theorem ul_extract_shift {b b2 : Buf} {s : Nat} (h : ULHolds b2 s b) (o l : Nat) (hol : o + l ≤ b.size) :
    b2.extract (s + o) (s + o + l) = b.extract o (o + l) := by
  conv => rhs; rw [← h.2]
  rw [Array.extract_extract]
  congr 1
  omega

theorem ul_get_shift {b b2 : Buf} {s : Nat} (h : ULHolds b2 s b) (hlim : s + b.size < 65536) (o l : Nat)
    (hol : o + l ≤ b.size) : PField.get? b2 ⟨s + o, l⟩ = some (b.extract o (o + l)) := by
  have h1 := h.1
  unfold PField.get? PField.endT
  simp only
  rw [trunc16_of_lt (by omega), if_pos ⟨by omega, by omega⟩, ul_extract_shift h o l hol]

theorem ul_get_inside (b : Buf) (f : PField) (hf : f.offs + f.len ≤ b.size) (hfit : b.size ≤ 65535) :
    PField.get? b f = some (b.extract f.offs (f.offs + f.len)) := field_get? b f.offs f.len hf hfit

/-- a moved component reads, in the target buffer, the bytes the original reads in the source buffer -/
theorem ul_moved_get {b b2 : Buf} {s : Nat} (h : ULHolds b2 s b) (hlim : s + b.size < 65536) (f : PField)
    (hf : f.offs + f.len ≤ b.size) (hz : f.offs = 0 → f.len = 0) :
    PField.get? b2 (ulMoved f 0 s) = some (b.extract f.offs (f.offs + f.len)) := by
  unfold ulMoved
  by_cases h0 : f.offs = 0
  · have hl := hz h0
    have hne : (f.offs != 0) = false := by simp [h0]
    rw [hne]
    simp only [Bool.false_eq_true, ↓reduceIte]
    unfold PField.get? PField.endT
    rw [h0, hl]
    simp only [Nat.add_zero, trunc16_of_lt (show 0 < 65536 by omega)]
    rw [if_pos ⟨Nat.le_refl _, Nat.zero_le _⟩, Array.extract_empty_of_stop_le_start (Nat.le_refl _),
      Array.extract_empty_of_stop_le_start (Nat.le_refl _)]
  · have hne : (f.offs != 0) = true := by simpa using h0
    rw [hne]
    simp only [↓reduceIte, Nat.sub_zero]
    rw [Nat.add_comm f.offs s]
    exact ul_get_shift h hlim f.offs f.len hf

/-- `f'` (read in `b2`) and `f` (read in `b`) denote the same bytes, `Get` panics on neither -/
def ULSame (b2 b : Buf) (f' f : PField) : Prop :=
  PField.get? b2 f' = PField.get? b f ∧ PField.get? b f = some (b.extract f.offs (f.offs + f.len)) ∧ f'.len = f.len

theorem ul_moved_len (f : PField) (a s : Nat) : (ulMoved f a s).len = f.len := by
  unfold ulMoved
  split <;> rfl

theorem ul_moved_same {b b2 : Buf} {s : Nat} (h : ULHolds b2 s b) (hlim : s + b.size < 65536) (hfit : b.size ≤ 65535)
    (f : PField) (hf : f.offs + f.len ≤ b.size ∧ (f.offs = 0 → f.len = 0)) : ULSame b2 b (ulMoved f 0 s) f := by
  have h1 := ul_moved_get h hlim f hf.1 hf.2
  have h2 := ul_get_inside b f hf.1 hfit
  exact ⟨h1.trans h2.symm, h2, ul_moved_len f 0 s⟩

/-- relocation of a good URI onto a span that holds it: accepted, no panic, result = `ulRelocate` -/
theorem ULGood.relocate {b : Buf} {u : PsipURI} (hg : ULGood b u) (np : PField) (hspan : b.size ≤ np.len)
    (hlim : np.offs + np.len < 65536) : u.adjustOffs np = (true, ulRelocate u np.offs, false) :=
  ul_adjust_moves u np b.size hg.wf hspan (Nat.le_trans hg.sum hspan) hlim

/-- … and every component of the result denotes, in a buffer that holds the same text there, the same bytes -/
theorem ULGood.same {b : Buf} {u : PsipURI} (hg : ULGood b u) (hfit : b.size ≤ 65535) (b2 : Buf) (s : Nat)
    (h : ULHolds b2 s b) (hlim : s + b.size < 65536) :
    (ulRelocate u s).uriType = u.uriType ∧ (ulRelocate u s).portNo = u.portNo ∧
    ULSame b2 b (ulRelocate u s).scheme u.scheme ∧ ULSame b2 b (ulRelocate u s).user u.user ∧
    ULSame b2 b (ulRelocate u s).pass u.pass ∧ ULSame b2 b (ulRelocate u s).host u.host ∧
    ULSame b2 b (ulRelocate u s).port u.port ∧ ULSame b2 b (ulRelocate u s).params u.params ∧
    ULSame b2 b (ulRelocate u s).headers u.headers := by
  have hst := hg.start
  have hfl := hg.flds
  have hsch : u.scheme.len ≤ b.size := hg.wf.sch
  refine ⟨rfl, rfl, ?_, ?_, ?_, ?_, ?_, ?_, ?_⟩
  · have h2 := ul_get_inside b u.scheme (by omega) hfit
    have h1 := ul_get_shift h hlim 0 u.scheme.len (by omega)
    rw [← hst] at h1
    refine ⟨?_, h2, rfl⟩
    rw [h2]
    simp only [ulRelocate]
    rw [hst] at h1 ⊢
    exact h1
  all_goals
    simp only [ulRelocate, hst]
    exact ul_moved_same h hlim hfit _ (hfl _ (by simp [ulComps]))

/-- EXPORT C18 — **parse, then relocate onto a span at least as long as the URI** (`np.Len ≥ len(b)`, inside the
    16-bit range): AdjustOffs succeeds, does not panic, keeps type and port number, and — when the target buffer
    `b2` holds the same text at `np.Offs` — every component of the relocated URI reads in `b2` exactly the bytes
    the original component reads in `b`. All URI types. -/
theorem ul_relocate_parsed (b : Buf) (hfit : b.size ≤ 65535) (hacc : (parseURI b {}).1 = .none)
    (np : PField) (hspan : b.size ≤ np.len) (hlim : np.offs + np.len < 65536) :
    ∃ u', (parseURI b {}).2.2.1.adjustOffs np = (true, u', false) ∧
      u'.scheme.offs = np.offs ∧ u'.uriType = (parseURI b {}).2.2.1.uriType ∧
      u'.portNo = (parseURI b {}).2.2.1.portNo ∧
      ∀ b2, ULHolds b2 np.offs b →
        ULSame b2 b u'.scheme (parseURI b {}).2.2.1.scheme ∧ ULSame b2 b u'.user (parseURI b {}).2.2.1.user ∧
        ULSame b2 b u'.pass (parseURI b {}).2.2.1.pass ∧ ULSame b2 b u'.host (parseURI b {}).2.2.1.host ∧
        ULSame b2 b u'.port (parseURI b {}).2.2.1.port ∧ ULSame b2 b u'.params (parseURI b {}).2.2.1.params ∧
        ULSame b2 b u'.headers (parseURI b {}).2.2.1.headers := by
  have hg := ul_parsed_good b hfit hacc
  refine ⟨_, hg.relocate np hspan hlim, rfl, rfl, rfl, fun b2 hh => ?_⟩
  exact (hg.same hfit b2 np.offs hh (by omega)).2.2

/-- EXPORT C18 — **a span shorter than the URI is refused** (sip:, sips: and tel:): result false, URI unchanged,
    no panic -/
theorem ul_refuse (b : Buf) (hfit : b.size ≤ 65535) (hacc : (parseURI b {}).1 = .none)
    (np : PField) (hshort : np.len < b.size) :
    (parseURI b {}).2.2.1.adjustOffs np = (false, (parseURI b {}).2.2.1, false) :=
  ul_adjust_refused _ np (by rw [ul_parsed_len b hfit hacc]; exact hshort)

/-! ### the Long / Short / Flat views of a parsed sip: / sips: URI -/

/-- end of the last non-empty component from the host on -/
def ulLastEnd (u : PsipURI) : Nat :=
  if u.headers.len > 0 then u.headers.offs + u.headers.len
  else if u.params.len > 0 then u.params.offs + u.params.len
  else if u.port.len > 0 then u.port.offs + u.port.len
  else u.host.offs + u.host.len

/-- end of the port if it is not empty, else of the host -/
def ulShortEnd (u : PsipURI) : Nat :=
  if u.port.len > 0 then u.port.offs + u.port.len else u.host.offs + u.host.len

theorem ul_setFrom (u : PsipURI) (f : PField) (hs : u.scheme.offs = 0) (hf : f.offs + f.len ≤ 65535) :
    setFrom u f = (⟨0, f.offs + f.len⟩, false) := by
  unfold setFrom PField.endT PField.set PField.setPanics
  rw [hs, trunc16_of_lt (show f.offs + f.len < 65536 by omega)]
  simp only [Nat.sub_zero, trunc16_of_lt (show 0 < 65536 by omega),
    trunc16_of_lt (show f.offs + f.len < 65536 by omega), Nat.not_lt_zero, decide_false]

theorem URILayout.ul_long {b : Buf} {k : Nat} {u : PsipURI} (h : URILayout b k u) (hk : 0 < k)
    (hfit : b.size ≤ 65535) : u.long = (⟨0, ulLastEnd u⟩, false) := by
  obtain ⟨hkb, hho, b1, b2, b3, b4, b5, b6, _⟩ := h.ul_bounds hk
  have hs : u.scheme.offs = 0 := by rw [h.1]
  have hhl : 0 < u.host.len := h.2.2.1
  unfold PsipURI.long ulLastEnd
  by_cases c1 : u.headers.len > 0
  · rw [if_pos c1, if_pos c1, ul_setFrom u _ hs (by omega)]
  rw [if_neg c1, if_neg c1]
  by_cases c2 : u.params.len > 0
  · rw [if_pos c2, if_pos c2, ul_setFrom u _ hs (by omega)]
  rw [if_neg c2, if_neg c2]
  by_cases c3 : u.port.len > 0
  · rw [if_pos c3, if_pos c3, ul_setFrom u _ hs (by omega)]
  rw [if_neg c3, if_neg c3, if_pos hhl, ul_setFrom u _ hs (by omega)]

theorem URILayout.ul_short {b : Buf} {k : Nat} {u : PsipURI} (h : URILayout b k u) (hk : 0 < k)
    (hfit : b.size ≤ 65535) : u.short = (⟨0, ulShortEnd u⟩, false) := by
  obtain ⟨hkb, hho, b1, b2, b3, b4, b5, b6, _⟩ := h.ul_bounds hk
  have hs : u.scheme.offs = 0 := by rw [h.1]
  have hhl : 0 < u.host.len := h.2.2.1
  unfold PsipURI.short ulShortEnd
  by_cases c3 : u.port.len > 0
  · rw [if_pos c3, if_pos c3, ul_setFrom u _ hs (by omega)]
  rw [if_neg c3, if_neg c3, if_pos hhl, ul_setFrom u _ hs (by omega)]

theorem URILayout.ul_ends {b : Buf} {k : Nat} {u : PsipURI} (h : URILayout b k u) (hk : 0 < k) :
    k < ulShortEnd u ∧ u.host.offs + u.host.len ≤ ulShortEnd u ∧ ulShortEnd u ≤ ulLastEnd u ∧ ulLastEnd u ≤ b.size ∧
    ((∀ f ∈ [u.port, u.params, u.headers], f.offs ≠ 0 → 0 < f.len) → ulLastEnd u = b.size) := by
  obtain ⟨_, hhl, hu, q1, q2, _, _, _, a1, a2, a3⟩ := h.ul_facts
  unfold ulShortEnd ulLastEnd
  refine ⟨?_, ?_, ?_, ?_, ?_⟩
  · split <;> omega
  · split <;> omega
  · repeat' split
    all_goals omega
  · repeat' split
    all_goals omega
  · intro hne
    have n1 := hne u.port (by simp)
    have n2 := hne u.params (by simp)
    have n3 := hne u.headers (by simp)
    repeat' split
    all_goals omega

/-- the views of a laid-out URI -/
theorem URILayout.ul_views {b : Buf} {k : Nat} {u : PsipURI} (h : URILayout b k u) (hk : 0 < k)
    (hfit : b.size ≤ 65535) :
    u.long = (⟨0, ulLastEnd u⟩, false) ∧ u.short = (⟨0, ulShortEnd u⟩, false) ∧
    k < ulShortEnd u ∧ u.host.offs + u.host.len ≤ ulShortEnd u ∧ ulShortEnd u ≤ ulLastEnd u ∧ ulLastEnd u ≤ b.size ∧
    PField.get? b u.long.1 = some (b.extract 0 (ulLastEnd u)) ∧
    PField.get? b u.short.1 = some (b.extract 0 (ulShortEnd u)) ∧
    (b.extract 0 (ulLastEnd u)).extract 0 (ulShortEnd u) = b.extract 0 (ulShortEnd u) ∧
    u.truncate.long = u.short ∧
    ((∀ f ∈ [u.port, u.params, u.headers], f.offs ≠ 0 → 0 < f.len) → ulLastEnd u = b.size ∧ u.flat b = some b) := by
  have hL := h.ul_long hk hfit
  have hS := h.ul_short hk hfit
  obtain ⟨e0, e1, e2, e3, e4⟩ := h.ul_ends hk
  have gL : PField.get? b ⟨0, ulLastEnd u⟩ = some (b.extract 0 (ulLastEnd u)) := by
    have := field_get? b 0 (ulLastEnd u) (by omega) hfit
    rw [Nat.zero_add] at this
    exact this
  have gS : PField.get? b ⟨0, ulShortEnd u⟩ = some (b.extract 0 (ulShortEnd u)) := by
    have := field_get? b 0 (ulShortEnd u) (by omega) hfit
    rw [Nat.zero_add] at this
    exact this
  refine ⟨hL, hS, e0, e1, e2, e3, by rw [hL]; exact gL, by rw [hS]; exact gS, ?_, ?_, ?_⟩
  · rw [Array.extract_extract]
    congr 1
    omega
  · have hhl : 0 < u.host.len := h.2.2.1
    unfold PsipURI.truncate PsipURI.long PsipURI.short
    have z : ({} : PField).len = 0 := rfl
    simp only [z, Nat.lt_irrefl, ↓reduceIte]
    by_cases c3 : u.port.len > 0
    · rw [if_pos c3, if_pos c3]
      rfl
    · rw [if_neg c3, if_neg c3, if_pos hhl, if_pos hhl]
      rfl
  · intro hne
    have hE := e4 hne
    refine ⟨hE, ?_⟩
    unfold PsipURI.flat
    rw [hL]
    simp only [Bool.false_eq_true, ↓reduceIte]
    rw [gL, hE, Array.extract_size]

/-- EXPORT C18 — **views of a parsed sip: / sips: URI**: Long and Short do not panic and start at the scheme; Short ends
    at the port (if not empty, else at the host), Long at the last non-empty component (`ulLastEnd`), so
    scheme < Short ≤ Long ≤ len(b), both can be read with `Get`, the short view is a prefix of the long view, the long
    view of the truncated URI is the short view, and when no trailing component is present-but-empty the long view
    (and `Flat`) is the whole input. -/
theorem ul_views_sip (b : Buf) (hfit : b.size ≤ 65535) (hacc : (parseURI b {}).1 = .none)
    (hsip : (parseURI b {}).2.2.1.uriType ≠ TELuri) :
    (parseURI b {}).2.2.1.long = (⟨0, ulLastEnd (parseURI b {}).2.2.1⟩, false) ∧
    (parseURI b {}).2.2.1.short = (⟨0, ulShortEnd (parseURI b {}).2.2.1⟩, false) ∧
    (parseURI b {}).2.2.1.scheme.len < ulShortEnd (parseURI b {}).2.2.1 ∧
    (parseURI b {}).2.2.1.host.offs + (parseURI b {}).2.2.1.host.len ≤ ulShortEnd (parseURI b {}).2.2.1 ∧
    ulShortEnd (parseURI b {}).2.2.1 ≤ ulLastEnd (parseURI b {}).2.2.1 ∧
    ulLastEnd (parseURI b {}).2.2.1 ≤ b.size ∧
    PField.get? b (parseURI b {}).2.2.1.long.1 = some (b.extract 0 (ulLastEnd (parseURI b {}).2.2.1)) ∧
    PField.get? b (parseURI b {}).2.2.1.short.1 = some (b.extract 0 (ulShortEnd (parseURI b {}).2.2.1)) ∧
    (b.extract 0 (ulLastEnd (parseURI b {}).2.2.1)).extract 0 (ulShortEnd (parseURI b {}).2.2.1) =
      b.extract 0 (ulShortEnd (parseURI b {}).2.2.1) ∧
    (parseURI b {}).2.2.1.truncate.long = (parseURI b {}).2.2.1.short ∧
    ((∀ f ∈ [(parseURI b {}).2.2.1.port, (parseURI b {}).2.2.1.params, (parseURI b {}).2.2.1.headers],
        f.offs ≠ 0 → 0 < f.len) →
      ulLastEnd (parseURI b {}).2.2.1 = b.size ∧ (parseURI b {}).2.2.1.flat b = some b) := by
  obtain ⟨_, t, k, u0, hk, hl, hty, hu⟩ := (parseURI_ok b hfit).2.2 hacc
  have ht : t ≠ TELuri := by
    intro ht
    apply hsip
    rw [hu, if_pos ht]
    exact hty.trans ht
  rw [hu, if_neg ht]
  have hk0 : 0 < k := by rcases hk with ⟨_, rfl, _⟩ | ⟨_, rfl, _⟩ | ⟨_, rfl, _⟩ <;> omega
  have hv := hl.ul_views hk0 hfit
  have hsl : u0.scheme.len = k := by rw [hl.1]
  rw [hsl]
  exact hv

/-! ### the views of a parsed tel: URI (no host; the number is reported as user, possibly behind a password) -/

/-- tel: — end of the last non-empty component from the number (user) on -/
def ulTelLastEnd (u : PsipURI) : Nat :=
  if u.headers.len > 0 then u.headers.offs + u.headers.len
  else if u.params.len > 0 then u.params.offs + u.params.len
  else if u.port.len > 0 then u.port.offs + u.port.len
  else u.user.offs + u.user.len

/-- tel: — end of the port if it is not empty, else of the number (user) -/
def ulTelShortEnd (u : PsipURI) : Nat :=
  if u.port.len > 0 then u.port.offs + u.port.len else u.user.offs + u.user.len

/-- Long() of a URI without host whose user is not empty and ends behind the password -/
theorem ul_long_nohost (u : PsipURI) (hs : u.scheme.offs = 0) (hh : u.host.len = 0) (hu : 0 < u.user.len)
    (b1 : u.user.offs + u.user.len ≤ 65535) (b2 : u.pass.offs + u.pass.len ≤ 65535)
    (b4 : u.port.offs + u.port.len ≤ 65535) (b5 : u.params.offs + u.params.len ≤ 65535)
    (b6 : u.headers.offs + u.headers.len ≤ 65535)
    (hp : u.pass.len > 0 → u.pass.offs + u.pass.len < u.user.offs + u.user.len) :
    u.long = (⟨0, ulTelLastEnd u⟩, false) := by
  unfold PsipURI.long ulTelLastEnd
  by_cases c1 : u.headers.len > 0
  · rw [if_pos c1, if_pos c1, ul_setFrom u _ hs b6]
  rw [if_neg c1, if_neg c1]
  by_cases c2 : u.params.len > 0
  · rw [if_pos c2, if_pos c2, ul_setFrom u _ hs b5]
  rw [if_neg c2, if_neg c2]
  by_cases c3 : u.port.len > 0
  · rw [if_pos c3, if_pos c3, ul_setFrom u _ hs b4]
  rw [if_neg c3, if_neg c3, if_neg (by omega)]
  by_cases c5 : u.pass.len > 0
  · have hlt := hp c5
    have e1 : u.user.endT = u.user.offs + u.user.len := trunc16_of_lt (by omega)
    have e2 : u.pass.endT = u.pass.offs + u.pass.len := trunc16_of_lt (by omega)
    have hc : (decide (u.user.len > 0) && decide (u.user.endT > u.pass.endT)) = true := by
      rw [e1, e2]
      simp only [Bool.and_eq_true, decide_eq_true_eq]
      exact ⟨hu, hlt⟩
    rw [if_pos c5, if_pos hc, ul_setFrom u _ hs b1]
  · rw [if_neg c5, if_pos hu, ul_setFrom u _ hs b1]

theorem ul_short_nohost (u : PsipURI) (hs : u.scheme.offs = 0) (hh : u.host.len = 0) (hu : 0 < u.user.len)
    (b1 : u.user.offs + u.user.len ≤ 65535) (b4 : u.port.offs + u.port.len ≤ 65535) :
    u.short = (⟨0, ulTelShortEnd u⟩, false) := by
  unfold PsipURI.short ulTelShortEnd
  by_cases c3 : u.port.len > 0
  · rw [if_pos c3, if_pos c3, ul_setFrom u _ hs b4]
  rw [if_neg c3, if_neg c3, if_neg (by omega), if_pos hu, ul_setFrom u _ hs b1]

/-- the views of the tel: report of a laid-out URI -/
theorem ul_tel_views {b : Buf} {u0 : PsipURI} (h : URILayout b 4 u0) (hfit : b.size ≤ 65535) :
    (telSwap u0).long = (⟨0, ulTelLastEnd (telSwap u0)⟩, false) ∧
    (telSwap u0).short = (⟨0, ulTelShortEnd (telSwap u0)⟩, false) ∧
    4 < ulTelShortEnd (telSwap u0) ∧
    (telSwap u0).user.offs + (telSwap u0).user.len ≤ ulTelShortEnd (telSwap u0) ∧
    ulTelShortEnd (telSwap u0) ≤ ulTelLastEnd (telSwap u0) ∧ ulTelLastEnd (telSwap u0) ≤ b.size ∧
    PField.get? b (telSwap u0).long.1 = some (b.extract 0 (ulTelLastEnd (telSwap u0))) ∧
    PField.get? b (telSwap u0).short.1 = some (b.extract 0 (ulTelShortEnd (telSwap u0))) ∧
    (b.extract 0 (ulTelLastEnd (telSwap u0))).extract 0 (ulTelShortEnd (telSwap u0)) =
      b.extract 0 (ulTelShortEnd (telSwap u0)) ∧
    (telSwap u0).truncate.long = (telSwap u0).short ∧
    ((∀ f ∈ [(telSwap u0).port, (telSwap u0).params, (telSwap u0).headers], f.offs ≠ 0 → 0 < f.len) →
      ulTelLastEnd (telSwap u0) = b.size ∧ (telSwap u0).flat b = some b) := by
  obtain ⟨hkb, hho, b1, b2, b3, b4, b5, b6, _⟩ := h.ul_bounds (by omega)
  obtain ⟨hsch, hhl, hu, q1, q2, _, _, _, a1, a2, a3⟩ := h.ul_facts
  have hs : (telSwap u0).scheme.offs = 0 := by show u0.scheme.offs = 0; rw [hsch]
  have hpp : (telSwap u0).pass.len > 0 →
      (telSwap u0).pass.offs + (telSwap u0).pass.len < (telSwap u0).user.offs + (telSwap u0).user.len := by
    show u0.pass.len > 0 → u0.pass.offs + u0.pass.len < u0.host.offs + u0.host.len
    omega
  have hL : (telSwap u0).long = (⟨0, ulTelLastEnd (telSwap u0)⟩, false) :=
    ul_long_nohost (telSwap u0) hs rfl hhl (show u0.host.offs + u0.host.len ≤ 65535 by omega)
      (show u0.pass.offs + u0.pass.len ≤ 65535 by omega) (show u0.port.offs + u0.port.len ≤ 65535 by omega)
      (show u0.params.offs + u0.params.len ≤ 65535 by omega)
      (show u0.headers.offs + u0.headers.len ≤ 65535 by omega) hpp
  have hS : (telSwap u0).short = (⟨0, ulTelShortEnd (telSwap u0)⟩, false) :=
    ul_short_nohost (telSwap u0) hs rfl hhl (show u0.host.offs + u0.host.len ≤ 65535 by omega)
      (show u0.port.offs + u0.port.len ≤ 65535 by omega)
  have eE : ulTelLastEnd (telSwap u0) = ulLastEnd u0 := rfl
  have eS : ulTelShortEnd (telSwap u0) = ulShortEnd u0 := rfl
  obtain ⟨e0, e1, e2, e3, e4⟩ := h.ul_ends (by omega)
  rw [← eE, ← eS] at e2
  rw [← eS] at e0 e1
  rw [← eE] at e3 e4
  have gL : PField.get? b ⟨0, ulTelLastEnd (telSwap u0)⟩ = some (b.extract 0 (ulTelLastEnd (telSwap u0))) := by
    have := field_get? b 0 (ulTelLastEnd (telSwap u0)) (by omega) hfit
    rw [Nat.zero_add] at this
    exact this
  have gS : PField.get? b ⟨0, ulTelShortEnd (telSwap u0)⟩ = some (b.extract 0 (ulTelShortEnd (telSwap u0))) := by
    have := field_get? b 0 (ulTelShortEnd (telSwap u0)) (by omega) hfit
    rw [Nat.zero_add] at this
    exact this
  refine ⟨hL, hS, e0, e1, e2, e3, by rw [hL]; exact gL, by rw [hS]; exact gS, ?_, ?_, ?_⟩
  · rw [Array.extract_extract]
    congr 1
    omega
  · have hT : (telSwap u0).truncate.long = (⟨0, ulTelLastEnd (telSwap u0).truncate⟩, false) :=
      ul_long_nohost (telSwap u0).truncate hs rfl hhl (show u0.host.offs + u0.host.len ≤ 65535 by omega)
        (show u0.pass.offs + u0.pass.len ≤ 65535 by omega) (show u0.port.offs + u0.port.len ≤ 65535 by omega)
        (show (0 : Nat) + 0 ≤ 65535 by omega) (show (0 : Nat) + 0 ≤ 65535 by omega) hpp
    rw [hT, hS]
    rfl
  · intro hne
    have hE := e4 hne
    refine ⟨hE, ?_⟩
    unfold PsipURI.flat
    rw [hL]
    simp only [Bool.false_eq_true, ↓reduceIte]
    rw [gL, hE, Array.extract_size]

/-- EXPORT C18 — **views of a parsed tel: URI**: as `ul_views_sip`, with the number (reported as user) in the place of
    the host: Long and Short do not panic and start at the scheme; Short ends at the port (if not empty, else at the
    number), Long at the last non-empty component, scheme < Short ≤ Long ≤ len(b), both readable, the short view is
    a prefix of the long view, Long after Truncate is Short, and Long = Flat = whole input when no trailing component
    is present-but-empty. Holds also when a password precedes the number (`tel:a:b@c`). -/
theorem ul_views_tel (b : Buf) (hfit : b.size ≤ 65535) (hacc : (parseURI b {}).1 = .none)
    (htel : (parseURI b {}).2.2.1.uriType = TELuri) :
    (parseURI b {}).2.2.1.long = (⟨0, ulTelLastEnd (parseURI b {}).2.2.1⟩, false) ∧
    (parseURI b {}).2.2.1.short = (⟨0, ulTelShortEnd (parseURI b {}).2.2.1⟩, false) ∧
    (parseURI b {}).2.2.1.scheme.len < ulTelShortEnd (parseURI b {}).2.2.1 ∧
    (parseURI b {}).2.2.1.user.offs + (parseURI b {}).2.2.1.user.len ≤ ulTelShortEnd (parseURI b {}).2.2.1 ∧
    ulTelShortEnd (parseURI b {}).2.2.1 ≤ ulTelLastEnd (parseURI b {}).2.2.1 ∧
    ulTelLastEnd (parseURI b {}).2.2.1 ≤ b.size ∧
    PField.get? b (parseURI b {}).2.2.1.long.1 = some (b.extract 0 (ulTelLastEnd (parseURI b {}).2.2.1)) ∧
    PField.get? b (parseURI b {}).2.2.1.short.1 = some (b.extract 0 (ulTelShortEnd (parseURI b {}).2.2.1)) ∧
    (b.extract 0 (ulTelLastEnd (parseURI b {}).2.2.1)).extract 0 (ulTelShortEnd (parseURI b {}).2.2.1) =
      b.extract 0 (ulTelShortEnd (parseURI b {}).2.2.1) ∧
    (parseURI b {}).2.2.1.truncate.long = (parseURI b {}).2.2.1.short ∧
    ((∀ f ∈ [(parseURI b {}).2.2.1.port, (parseURI b {}).2.2.1.params, (parseURI b {}).2.2.1.headers],
        f.offs ≠ 0 → 0 < f.len) →
      ulTelLastEnd (parseURI b {}).2.2.1 = b.size ∧ (parseURI b {}).2.2.1.flat b = some b) := by
  obtain ⟨_, t, k, u0, hk, hl, hty, hu⟩ := (parseURI_ok b hfit).2.2 hacc
  have ht : t = TELuri := by
    rcases hk with ⟨rfl, _, _⟩ | ⟨rfl, _, _⟩ | ⟨rfl, _, _⟩
    · rw [hu, if_neg (by decide)] at htel
      exact hty.symm.trans htel
    · rfl
    · rw [hu, if_neg (by decide)] at htel
      exact hty.symm.trans htel
  have hk4 : k = 4 := by
    rcases hk with ⟨_, rfl, _⟩ | ⟨_, rfl, _⟩ | ⟨rfl, _, _⟩
    · rfl
    · rfl
    · exact absurd ht (by decide)
  subst hk4
  rw [hu, if_pos ht]
  have hsl : (telSwap u0).scheme.len = 4 := by show u0.scheme.len = 4; rw [hl.1]
  rw [hsl]
  exact ul_tel_views hl hfit

/-- EXPORT C18 — all schemes: **the short view is a prefix of the long view** and both are prefixes of the input:
    neither panics, both start at offset 0 (the scheme), `Short.Len ≤ Long.Len ≤ len(b)` -/
theorem ul_short_prefix_long (b : Buf) (hfit : b.size ≤ 65535) (hacc : (parseURI b {}).1 = .none) :
    (parseURI b {}).2.2.1.long.2 = false ∧ (parseURI b {}).2.2.1.short.2 = false ∧
    (parseURI b {}).2.2.1.long.1.offs = 0 ∧ (parseURI b {}).2.2.1.short.1.offs = 0 ∧
    (parseURI b {}).2.2.1.short.1.len ≤ (parseURI b {}).2.2.1.long.1.len ∧
    (parseURI b {}).2.2.1.long.1.len ≤ b.size ∧
    (parseURI b {}).2.2.1.truncate.long = (parseURI b {}).2.2.1.short := by
  by_cases htel : (parseURI b {}).2.2.1.uriType = TELuri
  · obtain ⟨hL, hS, _, _, e2, e3, _, _, _, hT, _⟩ := ul_views_tel b hfit hacc htel
    rw [hL, hS]
    exact ⟨rfl, rfl, rfl, rfl, e2, e3, hS ▸ hT⟩
  · obtain ⟨hL, hS, _, _, e2, e3, _, _, _, hT, _⟩ := ul_views_sip b hfit hacc htel
    rw [hL, hS]
    exact ⟨rfl, rfl, rfl, rfl, e2, e3, hS ▸ hT⟩

/-! ### tests / non-vacuity for part (A) (closed computations, `decide +kernel`) -/

-- `ULHolds` is satisfiable: the text "sip:a@b" sits at offset 4 of "To:<sip:a@b>;x"
example : ULHolds "To:<sip:a@b>;x".toUTF8.data 4 "sip:a@b".toUTF8.data := by
  constructor <;> decide +kernel
-- the hypotheses of `ul_relocate_parsed` / `ul_refuse` are met by "sip:a@b" (7 bytes) and the spans [4,11) / [4,10)
example : ∃ u', (parseURI "sip:a@b".toUTF8.data {}).2.2.1.adjustOffs ⟨4, 7⟩ = (true, u', false) ∧ u'.scheme.offs = 4 :=
  have h := ul_relocate_parsed "sip:a@b".toUTF8.data (by decide +kernel) (by decide +kernel) ⟨4, 7⟩
    (by decide +kernel) (by decide)
  h.imp fun _ hu => ⟨hu.1, hu.2.1⟩
example : (parseURI "sip:a@b".toUTF8.data {}).2.2.1.adjustOffs ⟨4, 6⟩ =
    (false, (parseURI "sip:a@b".toUTF8.data {}).2.2.1, false) :=
  ul_refuse "sip:a@b".toUTF8.data (by decide +kernel) (by decide +kernel) ⟨4, 6⟩ (by decide +kernel)
-- test: parse "sip:u:p@h:5;a?b", relocate onto [4, 4+15)
example : ((parseURI "sip:u:p@h:5;a?b".toUTF8.data {}).2.2.1.adjustOffs ⟨4, 15⟩) =
    (true, { uriType := SIPuri, scheme := ⟨4, 4⟩, user := ⟨8, 1⟩, pass := ⟨10, 1⟩, host := ⟨12, 1⟩, port := ⟨14, 1⟩,
             params := ⟨16, 1⟩, headers := ⟨18, 1⟩, portNo := 5 }, false) := by decide +kernel
-- test: one byte too short is refused
example : ((parseURI "sip:u:p@h:5;a?b".toUTF8.data {}).2.2.1.adjustOffs ⟨4, 14⟩).1 = false := by decide +kernel
-- test: a present-but-empty port: the long view stops at the host ("sip:h", 5 of 6 bytes)
example : (parseURI "sip:h:".toUTF8.data {}).2.2.1.long = (⟨0, 5⟩, false) := by decide +kernel
-- test: "tel:a:b@c" (9 bytes) is accepted with the user (= the number) BEHIND the password. The furthest end counts:
-- spans of 8 and 7 bytes are refused, 9 is accepted, and Long() = Short() = [0,9) (this input was the witness of a
-- defect, repaired in the Go code: 8 and 7 used to be accepted and Long() was [0,7))
example : (parseURI "tel:a:b@c".toUTF8.data {}).1 = UErr.none ∧
    (parseURI "tel:a:b@c".toUTF8.data {}).2.2.1.user = ⟨8, 1⟩ ∧
    (parseURI "tel:a:b@c".toUTF8.data {}).2.2.1.pass = ⟨6, 1⟩ ∧
    ((parseURI "tel:a:b@c".toUTF8.data {}).2.2.1.adjustOffs ⟨10, 8⟩).1 = false ∧
    ((parseURI "tel:a:b@c".toUTF8.data {}).2.2.1.adjustOffs ⟨10, 7⟩).1 = false ∧
    ((parseURI "tel:a:b@c".toUTF8.data {}).2.2.1.adjustOffs ⟨10, 9⟩).1 = true ∧
    ((parseURI "tel:a:b@c".toUTF8.data {}).2.2.1.adjustOffs ⟨10, 9⟩).2.1.user = ⟨18, 1⟩ ∧
    ((parseURI "tel:a:b@c".toUTF8.data {}).2.2.1.adjustOffs ⟨10, 9⟩).2.1.pass = ⟨16, 1⟩ ∧
    (parseURI "tel:a:b@c".toUTF8.data {}).2.2.1.long = (⟨0, 9⟩, false) ∧
    (parseURI "tel:a:b@c".toUTF8.data {}).2.2.1.short = (⟨0, 9⟩, false) := by decide +kernel
-- the hypotheses of `ul_views_tel` / `ul_refuse` are met by that input
example : (parseURI "tel:a:b@c".toUTF8.data {}).2.2.1.adjustOffs ⟨10, 8⟩ =
    (false, (parseURI "tel:a:b@c".toUTF8.data {}).2.2.1, false) :=
  ul_refuse "tel:a:b@c".toUTF8.data (by decide +kernel) (by decide +kernel) ⟨10, 8⟩ (by decide +kernel)
example : (parseURI "tel:a:b@c".toUTF8.data {}).2.2.1.uriType = TELuri := by decide +kernel

/-! ## (B) C10: the port number of an accepted URI is the value of the port field -/

/-- the port number is the decimal value of the (all-digit) port field and fits 16 bits; an absent or empty port
    field has the empty digit string, of value 0 -/
def ULPortOK (b : Buf) (u : PsipURI) : Prop :=
  AllDigits (digitsOf b u.port.offs (u.port.offs + u.port.len)) ∧
  u.portNo = decOf (digitsOf b u.port.offs (u.port.offs + u.port.len)) ∧ u.portNo ≤ 65535

/-- loop invariant of `uriLoop` for the port accumulator (rides on `UInv`): in `pass0` (digits that may turn out to
    be a port) and `port` the accumulator is `accPortL 0` of the digits read since `σ.s`; once parameters / headers
    are being read the reported port is final (until an '@' discards it); everywhere else the accumulator is 0 -/
def ULPInv (b : Buf) (i : Nat) (σ : UState) : Prop :=
  match σ.st with
  | .pass0 | .port => σ.u.portNo = 0 ∧ AllDigits (digitsOf b σ.s i) ∧ σ.portNo = accPortL 0 (digitsOf b σ.s i)
  | .param0 | .param1 | .headers => ULPortOK b σ.u
  | _ => σ.portNo = 0 ∧ σ.u.portNo = 0

def ULPStepOK (b : Buf) (i : Nat) : UStep → Prop
  | .next σ' => ULPInv b (i + 1) σ'
  | .fail _ _ _ => True

theorem ul_accPortL_snoc (p : Nat) (l : List UInt8) (c : UInt8) : accPortL p (l ++ [c]) = accPort (accPortL p l) c := by
  induction l generalizing p with
  | nil => simp [accPortL]
  | cons x xs ih => simp only [List.cons_append, accPortL]; exact ih _

theorem ULPortOK.of_eq {b : Buf} {u u' : PsipURI} (h : ULPortOK b u) (hp : u'.port = u.port)
    (hn : u'.portNo = u.portNo) : ULPortOK b u' := by
  unfold ULPortOK at *
  rw [hp, hn]
  exact h

theorem ULPortOK.zero {b : Buf} {u : PsipURI} (hp : u.port = ⟨0, 0⟩) (hn : u.portNo = 0) : ULPortOK b u := by
  unfold ULPortOK
  rw [hp, hn]
  simp only [Nat.add_zero, digitsOf_self]
  exact ⟨(fun c hc => by cases hc), rfl, by omega⟩

theorem ul_digits_start (b : Buf) (j : Nat) :
    AllDigits (digitsOf b j j) ∧ (0 : Nat) = accPortL 0 (digitsOf b j j) := by
  rw [digitsOf_self]
  exact ⟨(fun c hc => by cases hc), rfl⟩

/-- closing the digit run `[s, i)`: the accumulator passed the `> 65535` test, so it is the exact value -/
theorem ul_port_close {b : Buf} {s i p : Nat} (hsi : s ≤ i) (hd : AllDigits (digitsOf b s i))
    (hp : p = accPortL 0 (digitsOf b s i)) (hle : ¬ p > 65535) :
    AllDigits (digitsOf b s (s + (i - s))) ∧ p = decOf (digitsOf b s (s + (i - s))) ∧ p ≤ 65535 := by
  have e : s + (i - s) = i := by omega
  rw [e]
  have hs := accPortL_spec (digitsOf b s i) 0
  refine ⟨hd, ?_, by omega⟩
  by_cases hbig : decFrom 0 (digitsOf b s i) > 65535
  · have := hs.2 hbig
    omega
  · rw [hp, hs.1 (by omega)]
    rfl

/-- one more digit -/
theorem ul_port_digit {b : Buf} {s i p : Nat} {c : UInt8} (hsi : s ≤ i) (hc : b[i]? = some c)
    (hdg : isDigit c = true) (hd : AllDigits (digitsOf b s i)) (hp : p = accPortL 0 (digitsOf b s i)) :
    AllDigits (digitsOf b s (i + 1)) ∧ accPort p c = accPortL 0 (digitsOf b s (i + 1)) := by
  rw [digitsOf_snoc b s i c hsi hc, ul_accPortL_snoc, ← hp]
  refine ⟨?_, rfl⟩
  intro x hx
  rcases List.mem_append.mp hx with hx | hx
  · exact hd x hx
  · simp at hx; subst hx; exact isDigit_B hdg

theorem ustep_portinv {b : Buf} {t k i : Nat} {σ : UState} {c : UInt8} (h : UInv b t k i σ) (hp : ULPInv b i σ)
    (hc : b[i]? = some c) : ULPStepOK b i (uriStep i c σ) := by
  obtain ⟨hsch, hty, hpn, hk, hi, hfit, hI⟩ := h
  have hlt := get?_lt hc
  rcases σ with ⟨st, s, fu, po, pn, eh, u, pnc⟩
  cases st <;> simp only [UStInv, Blank4, NoUP] at hI <;> simp only [ULPInv] at hp
  all_goals
    simp only [uriStep, uAtInParams]
    repeat' split
    all_goals try simp only [ULPStepOK, ULPInv, UState.setHost, UState.setUser, UState.setPass, UState.setPort,
      UState.setParams]
    all_goals try trivial
    all_goals first
      | exact hp
      | exact ⟨hp.1, hp.2⟩
      | exact ⟨rfl, hp.2⟩
      | exact ⟨rfl, rfl⟩
      | exact ⟨hp.2, ul_digits_start b (i + 1)⟩
      | exact ULPortOK.zero (by simp only [hI]) hp.2
      | exact ULPortOK.zero rfl rfl
      | exact hp.of_eq rfl rfl
      | exact ⟨hp.2, (ul_digits_start b (i + 1)).1, hp.1.trans (ul_digits_start b (i + 1)).2⟩
      | exact ⟨trivial, hp.1⟩
      | exact ⟨hp.1, ul_port_digit (by omega) hc (by assumption) hp.2.1 hp.2.2⟩
      | (have hsi : s ≤ i := by omega
         simp only [ULPortOK, uset_eq hsi (show i ≤ 65535 by omega)]
         exact ul_port_close hsi hp.2.1 hp.2.2 (by assumption))

theorem uriLoop_portinv {b : Buf} {t k : Nat} (i : Nat) (σ : UState) (h : UInv b t k i σ) (ha : ULPInv b i σ) :
    (uriLoop b i σ).1 = .none → ULPInv b b.size (uriLoop b i σ).2.2 := by
  fun_induction uriLoop b i σ with
  | case1 i σ hb =>
    have hge := get?_none_ge hb
    have hi : i ≤ b.size := h.2.2.2.2.1
    have : i = b.size := by omega
    subst this
    exact fun _ => ha
  | case2 i σ c hb σ' hstep ih =>
    have hok := uriStep_ok h hb
    have hat := ustep_portinv h ha hb
    rw [hstep] at hok hat
    exact ih hok hat
  | case3 i σ c hb e p σ' hstep =>
    have hok := uriStep_ok h hb
    rw [hstep] at hok
    exact fun h0 => absurd h0 hok.1

theorem uriFinish_portinv {b : Buf} {t k n : Nat} {σ : UState} (h : UInv b t k n σ) (hp : ULPInv b n σ) :
    (uriFinish n σ).1 = .none → ULPortOK b (uriFinish n σ).2.2.u := by
  obtain ⟨hsch, hty, hpn, hk, hi, hfit, hI⟩ := h
  rcases σ with ⟨st, s, fu, po, pn, eh, u, pnc⟩
  simp only at hty
  by_cases ht : t = TELuri
  · have hb : (t == TELuri) = true := by rw [ht]; rfl
    cases st <;> simp only [UStInv, Blank4, NoUP] at hI <;> simp only [ULPInv] at hp
    all_goals
      simp only [uriFinish, UState.setHost, UState.setUser, UState.setPass, UState.setPort,
        UState.setParams, UState.setHeaders, hty, hb, ↓reduceIte]
      repeat' split
      all_goals intro hacc
      all_goals first
        | (cases hacc; done)
        | exact hp.of_eq rfl rfl
        | exact ULPortOK.zero (by simp only [hI]) hp.2
        | (have hsi : s ≤ n := by omega
           simp only [ULPortOK, uset_eq hsi (show n ≤ 65535 by omega)]
           exact ul_port_close hsi hp.2.1 hp.2.2 (by assumption))
        | (exfalso; rename_i h1 h2; exact h1 (by cases fu <;> decide))
  · have hb : (t == TELuri) = false := by simpa using ht
    cases st <;> simp only [UStInv, Blank4, NoUP] at hI <;> simp only [ULPInv] at hp
    all_goals
      simp only [uriFinish, UState.setHost, UState.setUser, UState.setPass, UState.setPort,
        UState.setParams, UState.setHeaders, hty, hb, Bool.false_eq_true, ↓reduceIte]
      repeat' split
      all_goals intro hacc
      all_goals first
        | (cases hacc; done)
        | exact hp.of_eq rfl rfl
        | exact ULPortOK.zero (by simp only [hI]) hp.2
        | (have hsi : s ≤ n := by omega
           simp only [ULPortOK, uset_eq hsi (show n ≤ 65535 by omega)]
           exact ul_port_close hsi hp.2.1 hp.2.2 (by assumption))
        | (exfalso; rename_i h1 h2; exact h1 (by cases fu <;> decide))

theorem ustart_portinv {b : Buf} {t k : Nat} {σ0 : UState} (h : UInv b t k k σ0) (hb0 : ULPInv b k σ0) :
    (match uriLoop b k σ0 with
      | (.none, i, σ) =>
        match uriFinish i σ with
        | (e, p, σ') => (e, p, σ'.u, σ'.pnc)
      | (e, p, σ) => (e, p, σ.u, σ.pnc)).1 = .none →
    ULPortOK b (match uriLoop b k σ0 with
      | (.none, i, σ) =>
        match uriFinish i σ with
        | (e, p, σ') => (e, p, σ'.u, σ'.pnc)
      | (e, p, σ) => (e, p, σ.u, σ.pnc)).2.2.1 := by
  have hl := uriLoop_ok k σ0 h
  have hla := uriLoop_portinv k σ0 h hb0
  rcases hq : uriLoop b k σ0 with ⟨e, i, σ⟩
  rw [hq] at hl hla
  simp only at hl hla
  by_cases he : e = .none
  · subst he
    obtain ⟨hi, hinv⟩ := hl.1 rfl
    subst hi
    exact fun hacc => uriFinish_portinv hinv (hla rfl) hacc
  · intro hacc
    exfalso
    apply he
    cases e <;> first | rfl | exact hacc

/-- **the reported port number of an accepted URI is the decimal value of the reported port field** (all digits),
    and it is at most 65535; an absent or empty port field goes with port number 0 -/
theorem parseURI_portinv (b : Buf) (hfit : b.size ≤ 65535) (hacc : (parseURI b {}).1 = .none) :
    ULPortOK b (parseURI b {}).2.2.1 := by
  revert hacc
  unfold parseURI
  split
  · rename_i b0 b1 b2 b3 b4 h0 h1 h2 h3 h4
    have hsz := get?_lt h4
    simp only
    by_cases hsip : ((b3.toNat <<< 24 ||| b2.toNat <<< 16 ||| b1.toNat <<< 8 ||| b0.toNat ||| 0x20202020)
        == Gen.C.ParseURI_SchSIP) = true
    · simp only [hsip, ↓reduceIte]
      have hinv := uinv_start b SIPuri 4 .initSIP (Or.inl rfl) (by omega) (by omega) hfit
      exact fun hacc => ustart_portinv hinv ⟨rfl, rfl⟩ hacc
    simp only [hsip, Bool.false_eq_true, ↓reduceIte]
    by_cases htel : ((b3.toNat <<< 24 ||| b2.toNat <<< 16 ||| b1.toNat <<< 8 ||| b0.toNat ||| 0x20202020)
        == Gen.C.ParseURI_SchTEL) = true
    · simp only [htel, ↓reduceIte]
      have hinv := uinv_start b TELuri 4 .initTEL (Or.inr (Or.inr rfl)) (by omega) (by omega) hfit
      exact fun hacc => ustart_portinv hinv ⟨rfl, rfl⟩ hacc
    simp only [htel, Bool.false_eq_true, ↓reduceIte]
    by_cases hsips : ((b3.toNat <<< 24 ||| b2.toNat <<< 16 ||| b1.toNat <<< 8 ||| b0.toNat ||| 0x20202020)
        == Gen.C.ParseURI_SchSIPS) = true
    · simp only [hsips, ↓reduceIte]
      by_cases h58 : (b4 == 58) = true
      · simp only [h58, ↓reduceIte]
        have hinv := uinv_start b SIPSuri 5 .initSIPS (Or.inr (Or.inl rfl)) (by omega) (by omega) hfit
        exact fun hacc => ustart_portinv hinv ⟨rfl, rfl⟩ hacc
      · simp only [h58, Bool.false_eq_true, ↓reduceIte]
        intro hacc
        cases hacc
    · simp only [hsips, Bool.false_eq_true, ↓reduceIte]
      intro hacc
      cases hacc
  · intro hacc
    cases hacc

/-- EXPORT C10 — **run level, URI port**: for every URI accepted by ParseURI the bytes of the reported port field are
    digits, `PortNo` is exactly their decimal value, and `PortNo ≤ 65535` (absent / empty port: no digits, value 0) -/
theorem ul_port_exact (b : Buf) (hfit : b.size ≤ 65535) (hacc : (parseURI b {}).1 = .none) :
    AllDigits (digitsOf b (parseURI b {}).2.2.1.port.offs
      ((parseURI b {}).2.2.1.port.offs + (parseURI b {}).2.2.1.port.len)) ∧
    (parseURI b {}).2.2.1.portNo = decOf (digitsOf b (parseURI b {}).2.2.1.port.offs
      ((parseURI b {}).2.2.1.port.offs + (parseURI b {}).2.2.1.port.len)) ∧
    (parseURI b {}).2.2.1.portNo ≤ 65535 := parseURI_portinv b hfit hacc

/-- EXPORT C10 — no port or an empty port: `PortNo = 0` -/
theorem ul_port_zero (b : Buf) (hfit : b.size ≤ 65535) (hacc : (parseURI b {}).1 = .none)
    (h0 : (parseURI b {}).2.2.1.port.len = 0) : (parseURI b {}).2.2.1.portNo = 0 := by
  have h := (parseURI_portinv b hfit hacc).2.1
  rw [h0, Nat.add_zero, digitsOf_self] at h
  exact h

/-- EXPORT C10 — a non-empty port field: same phrasing as for Content-Length / CSeq (`NumDone`), plus the range -/
theorem ul_port_numdone (b : Buf) (hfit : b.size ≤ 65535) (hacc : (parseURI b {}).1 = .none)
    (hne : 0 < (parseURI b {}).2.2.1.port.len) :
    NumDone b (parseURI b {}).2.2.1.port (parseURI b {}).2.2.1.portNo ∧ (parseURI b {}).2.2.1.portNo ≤ 65535 := by
  obtain ⟨h1, h2, h3⟩ := parseURI_portinv b hfit hacc
  have hin := ((ul_parsed_good b hfit hacc).flds (parseURI b {}).2.2.1.port (by simp [ulComps])).1
  refine ⟨⟨(parseURI b {}).2.2.1.port.offs, (parseURI b {}).2.2.1.port.offs + (parseURI b {}).2.2.1.port.len,
    ?_, by omega, hin, h1, h2⟩, h3⟩
  rw [Nat.add_sub_cancel_left]

/-- EXPORT C10 — spelled out with the model's `Get`: the port field reads a non-empty digit string whose decimal
    value is `PortNo` -/
theorem ul_port_meaning (b : Buf) (hfit : b.size ≤ 65535) (hacc : (parseURI b {}).1 = .none)
    (hne : 0 < (parseURI b {}).2.2.1.port.len) :
    ∃ d, PField.get? b (parseURI b {}).2.2.1.port = some d ∧ d.size ≥ 1 ∧ AllDigits d.toList ∧
      (parseURI b {}).2.2.1.portNo = decOf d.toList ∧ (parseURI b {}).2.2.1.portNo ≤ 65535 := by
  obtain ⟨hn, hle⟩ := ul_port_numdone b hfit hacc hne
  obtain ⟨d, h1, h2, h3, h4⟩ := hn.get hfit
  exact ⟨d, h1, h2, h3, h4, hle⟩

/-! ### tests / non-vacuity for part (B) (closed computations, `decide +kernel`) -/

-- a port after a host; a port read in `pass0` ("sip:a:5060": first taken as user ':' password); an IPv6 host
example : (parseURI "sip:u@h:5060;x".toUTF8.data {}).1 = UErr.none ∧
    (parseURI "sip:u@h:5060;x".toUTF8.data {}).2.2.1.port = ⟨8, 4⟩ ∧
    (parseURI "sip:u@h:5060;x".toUTF8.data {}).2.2.1.portNo = 5060 := by decide +kernel
example : (parseURI "sip:a:5060".toUTF8.data {}).2.2.1.port = ⟨6, 4⟩ ∧
    (parseURI "sip:a:5060".toUTF8.data {}).2.2.1.portNo = 5060 := by decide +kernel
-- digits that turn out to be a password: no port, number 0
example : (parseURI "sip:u:123@h".toUTF8.data {}).1 = UErr.none ∧
    (parseURI "sip:u:123@h".toUTF8.data {}).2.2.1.port = ⟨0, 0⟩ ∧
    (parseURI "sip:u:123@h".toUTF8.data {}).2.2.1.portNo = 0 := by decide +kernel
-- an '@' after a port and parameters discards the port; the accumulator restarts from 0 (port "6", number 6)
example : (parseURI "sip:[::1]:5;x@g:6".toUTF8.data {}).1 = UErr.none ∧
    (parseURI "sip:[::1]:5;x@g:6".toUTF8.data {}).2.2.1.port = ⟨16, 1⟩ ∧
    (parseURI "sip:[::1]:5;x@g:6".toUTF8.data {}).2.2.1.portNo = 6 := by decide +kernel
-- a port above 65535 is rejected, 65535 is accepted
example : (parseURI "sip:h:65536".toUTF8.data {}).1 = UErr.port ∧
    (parseURI "sip:h:65535".toUTF8.data {}).2.2.1.portNo = 65535 := by decide +kernel
example : AllDigits (digitsOf "sip:h:65535".toUTF8.data 6 11) ∧ decOf (digitsOf "sip:h:65535".toUTF8.data 6 11) = 65535 := by
  constructor
  · intro c hc
    have : digitsOf "sip:h:65535".toUTF8.data 6 11 = [54, 53, 53, 51, 53] := by decide +kernel
    rw [this] at hc
    simp only [List.mem_cons, List.not_mem_nil, or_false] at hc
    rcases hc with h | h | h | h | h <;> (subst h; unfold IsDigitB; decide)
  · have : digitsOf "sip:h:65535".toUTF8.data 6 11 = [54, 53, 53, 51, 53] := by decide +kernel
    rw [this]
    simp only [decOf, decFrom_cons, decFrom_nil, dval_def]
    decide

end Sipsp
