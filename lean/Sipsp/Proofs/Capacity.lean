/-
  Sipsp.Proofs.Capacity — the capacity of the caller-supplied arrays does not influence the parse (contacts).
-/
import Sipsp.Proofs.ContactsL2

namespace Sipsp

/-! ### Contact values -/

/-- the wrapper's normalisation of the scratch slot before a new header line -/
def PContacts.wrap (c : PContacts) : PContacts :=
  if c.n ≥ c.vals.size && c.last.parsed then { c with last := {} } else c

/-- unused slots hold zero values -/
def CtClean (c : PContacts) : Prop :=
  (∀ k, c.n < k → k < c.vals.size → c.vals[k]! = {}) ∧ (c.n < c.vals.size → c.last = {})

/-- the first value, wherever the capacity puts it -/
def PContacts.firstOf (c : PContacts) : PFromBody := if c.vals.size > 0 then c.vals[0]! else c.first

/-- two contacts objects (with possibly different capacities) that went through the same parse -/
structure CtRel (c1 c2 : PContacts) : Prop where
  n : c1.n = c2.n
  hNo : c1.hNo = c2.hNo
  maxE : c1.maxExpires = c2.maxExpires
  minE : c1.minExpires = c2.minExpires
  lhv : c1.lastHVal = c2.lastHVal
  pnc : c1.pnc = c2.pnc
  cur : c1.cur = c2.cur
  agree : ∀ k, k < c1.n → k < c1.vals.size → k < c2.vals.size → c1.vals[k]! = c2.vals[k]!
  clean1 : CtClean c1
  clean2 : CtClean c2
  first : c1.n ≥ 1 → c1.firstOf = c2.firstOf

theorem setCur_get_n (c : PContacts) (pf : PFromBody) (h : c.n < c.vals.size) : (c.setCur pf).vals[c.n]! = pf := by
  have := setCur_cur c pf
  unfold PContacts.cur at this
  rw [setCur_n, setCur_size, if_pos h] at this
  exact this

theorem account_maxE (c : PContacts) (pf : PFromBody) :
    (c.account pf).maxExpires = if c.maxExpires < pf.expires then pf.expires else c.maxExpires := by
  unfold PContacts.account; dsimp only
  by_cases h0 : (c.n == 0) = true <;> by_cases h1 : c.lastHVal.isEmpty = true <;>
    by_cases h2 : c.maxExpires < pf.expires <;> simp only [h0, h1, h2, ↓reduceIte, Bool.false_eq_true] <;>
    (repeat' split) <;> rfl

theorem account_minE (c : PContacts) (pf : PFromBody) :
    (c.account pf).minExpires =
      if (if c.n == 0 then 4294967295 else c.minExpires) > pf.expires then pf.expires
      else (if c.n == 0 then 4294967295 else c.minExpires) := by
  unfold PContacts.account; dsimp only
  by_cases h0 : (c.n == 0) = true <;> by_cases h1 : c.lastHVal.isEmpty = true <;>
    by_cases h2 : c.maxExpires < pf.expires <;> simp only [h0, h1, h2, ↓reduceIte, Bool.false_eq_true] <;>
    (repeat' split) <;> rfl

theorem account_lhv (c : PContacts) (pf : PFromBody) :
    (c.account pf).lastHVal = if c.lastHVal.isEmpty then pf.v else c.lastHVal.extend pf.v.endT := by
  unfold PContacts.account; dsimp only
  by_cases h0 : (c.n == 0) = true <;> by_cases h1 : c.lastHVal.isEmpty = true <;>
    by_cases h2 : c.maxExpires < pf.expires <;> simp only [h0, h1, h2, ↓reduceIte, Bool.false_eq_true] <;>
    (repeat' split) <;> rfl

theorem account_pnc (c : PContacts) (pf : PFromBody) :
    (c.account pf).pnc = if c.lastHVal.isEmpty then c.pnc else (c.pnc || c.lastHVal.extendPanics pf.v.endT) := by
  unfold PContacts.account; dsimp only
  by_cases h0 : (c.n == 0) = true <;> by_cases h1 : c.lastHVal.isEmpty = true <;>
    by_cases h2 : c.maxExpires < pf.expires <;> simp only [h0, h1, h2, ↓reduceIte, Bool.false_eq_true] <;>
    (repeat' split) <;> rfl

theorem account_hNo' (c : PContacts) (pf : PFromBody) : (c.account pf).hNo = c.hNo := by
  unfold PContacts.account; dsimp only; repeat' split
  all_goals rfl

/-- the scalar bookkeeping after a value depends only on the scalars -/
theorem account_scalars (c1 c2 : PContacts) (pf : PFromBody) (hn : c1.n = c2.n) (hh : c1.hNo = c2.hNo)
    (h1 : c1.maxExpires = c2.maxExpires) (h2 : c1.minExpires = c2.minExpires) (h3 : c1.lastHVal = c2.lastHVal)
    (h4 : c1.pnc = c2.pnc) :
    (c1.account pf).n = (c2.account pf).n ∧ (c1.account pf).hNo = (c2.account pf).hNo ∧
    (c1.account pf).maxExpires = (c2.account pf).maxExpires ∧ (c1.account pf).minExpires = (c2.account pf).minExpires ∧
    (c1.account pf).lastHVal = (c2.account pf).lastHVal ∧ (c1.account pf).pnc = (c2.account pf).pnc := by
  refine ⟨by rw [account_n, account_n, hn], by rw [account_hNo', account_hNo', hh],
    by rw [account_maxE, account_maxE, h1], by rw [account_minE, account_minE, hn, h2],
    by rw [account_lhv, account_lhv, h3], by rw [account_pnc, account_pnc, h3, h4]⟩

theorem account_first (c : PContacts) (pf : PFromBody) :
    (c.account pf).first = if c.n = 0 ∧ c.vals.size = 0 then pf else c.first := by
  unfold PContacts.account; dsimp only
  by_cases h0 : (c.n == 0) = true <;> by_cases h1 : c.lastHVal.isEmpty = true <;>
    by_cases h2 : c.maxExpires < pf.expires <;> simp only [h0, h1, h2, ↓reduceIte, Bool.false_eq_true] <;>
    (repeat' split) <;> simp_all

theorem setCur_first (c : PContacts) (pf : PFromBody) : (c.setCur pf).first = c.first := by
  unfold PContacts.setCur; split <;> rfl

/-- the first value after one more value has been stored -/
theorem step_firstOf (c : PContacts) (pf : PFromBody) :
    ((c.setCur pf).account pf).firstOf = if c.n = 0 then pf else c.firstOf := by
  unfold PContacts.firstOf
  rw [account_vals, setCur_size, account_first, setCur_first, setCur_n, setCur_size]
  by_cases hs : c.vals.size > 0
  · rw [if_pos hs, if_pos hs]
    by_cases h0 : c.n = 0
    · rw [if_pos h0]
      have := setCur_get_n c pf (by omega)
      rw [h0] at this; exact this
    · rw [if_neg h0, setCur_vals_ne c pf 0 h0]
  · rw [if_neg hs, if_neg hs]
    by_cases h0 : c.n = 0
    · rw [if_pos ⟨h0, by omega⟩, if_pos h0]
    · rw [if_neg (fun hh => h0 hh.1), if_neg h0]

theorem setCur_firstOf (c : PContacts) (pf : PFromBody) (h : c.n ≥ 1) : (c.setCur pf).firstOf = c.firstOf := by
  unfold PContacts.firstOf
  rw [setCur_size, setCur_first, setCur_vals_ne c pf 0 (by omega)]

theorem setCur_scalars (c : PContacts) (pf : PFromBody) :
    (c.setCur pf).hNo = c.hNo ∧ (c.setCur pf).maxExpires = c.maxExpires ∧ (c.setCur pf).minExpires = c.minExpires ∧
    (c.setCur pf).lastHVal = c.lastHVal ∧ (c.setCur pf).pnc = c.pnc := by
  unfold PContacts.setCur; split <;> exact ⟨rfl, rfl, rfl, rfl, rfl⟩

theorem account_hNo (c : PContacts) (pf : PFromBody) : (c.account pf).hNo = c.hNo := by
  unfold PContacts.account; dsimp only; repeat' split
  all_goals rfl

/-- the object the loop goes on with after a completed value (more values follow) -/
def PContacts.next (c : PContacts) (pf : PFromBody) : PContacts :=
  if c.n < c.vals.size then (c.setCur pf).account pf else { (c.setCur pf).account pf with last := {} }

theorem next_n (c : PContacts) (pf : PFromBody) : (c.next pf).n = c.n + 1 := by
  unfold PContacts.next; split <;> simp [account_n, setCur_n]

theorem next_vals (c : PContacts) (pf : PFromBody) : (c.next pf).vals = (c.setCur pf).vals := by
  unfold PContacts.next; split <;> simp [account_vals]

theorem next_firstOf (c : PContacts) (pf : PFromBody) : (c.next pf).firstOf = ((c.setCur pf).account pf).firstOf := by
  unfold PContacts.next; split
  · rfl
  · rfl

theorem next_clean (c : PContacts) (pf : PFromBody) (h : CtClean c) : CtClean (c.next pf) ∧ (c.next pf).cur = {} := by
  have hv := next_vals c pf
  have hn := next_n c pf
  have hsz : (c.next pf).vals.size = c.vals.size := by rw [hv, setCur_size]
  have hget : ∀ k, c.n < k → k < c.vals.size → (c.next pf).vals[k]! = {} := by
    intro k h1 h2
    rw [hv, setCur_vals_ne c pf k (by omega)]; exact h.1 k h1 h2
  have hlast : c.n + 1 ≥ c.vals.size ∨ True → (¬ c.n < c.vals.size → (c.next pf).last = {}) := by
    intro _ hin; unfold PContacts.next; rw [if_neg hin]
  have hlast2 : c.n < c.vals.size → (c.next pf).last = {} := by
    intro hin
    unfold PContacts.next; rw [if_pos hin, account_last, setCur_last_in c pf hin]; exact h.2 hin
  refine ⟨⟨fun k h1 h2 => ?_, fun h1 => ?_⟩, ?_⟩
  · rw [hn] at h1; rw [hsz] at h2; exact hget k (by omega) h2
  · rw [hn, hsz] at h1; exact hlast2 (by omega)
  · unfold PContacts.cur
    rw [hn, hsz]
    split
    · rename_i hin; exact hget _ (by omega) hin
    · by_cases hin : c.n < c.vals.size
      · exact hlast2 hin
      · exact hlast (Or.inr trivial) hin

theorem CtRel.next {c1 c2 : PContacts} (h : CtRel c1 c2) (pf : PFromBody) : CtRel (c1.next pf) (c2.next pf) := by
  have s1 := setCur_scalars c1 pf
  have s2 := setCur_scalars c2 pf
  have hacc := account_scalars (c1.setCur pf) (c2.setCur pf) pf (by rw [setCur_n, setCur_n, h.n])
    (by rw [s1.1, s2.1, h.hNo]) (by rw [s1.2.1, s2.2.1, h.maxE]) (by rw [s1.2.2.1, s2.2.2.1, h.minE])
    (by rw [s1.2.2.2.1, s2.2.2.2.1, h.lhv]) (by rw [s1.2.2.2.2, s2.2.2.2.2, h.pnc])
  have key : ∀ c : PContacts, (c.next pf).hNo = ((c.setCur pf).account pf).hNo ∧
      (c.next pf).maxExpires = ((c.setCur pf).account pf).maxExpires ∧
      (c.next pf).minExpires = ((c.setCur pf).account pf).minExpires ∧
      (c.next pf).lastHVal = ((c.setCur pf).account pf).lastHVal ∧
      (c.next pf).pnc = ((c.setCur pf).account pf).pnc := by
    intro c; unfold PContacts.next; split <;> exact ⟨rfl, rfl, rfl, rfl, rfl⟩
  have k1 := key c1; have k2 := key c2
  have c1' := next_clean c1 pf h.clean1
  have c2' := next_clean c2 pf h.clean2
  refine ⟨by rw [next_n, next_n, h.n], by rw [k1.1, k2.1, hacc.2.1], by rw [k1.2.1, k2.2.1, hacc.2.2.1],
    by rw [k1.2.2.1, k2.2.2.1, hacc.2.2.2.1], by rw [k1.2.2.2.1, k2.2.2.2.1, hacc.2.2.2.2.1],
    by rw [k1.2.2.2.2, k2.2.2.2.2, hacc.2.2.2.2.2], by rw [c1'.2, c2'.2], ?agree, c1'.1, c2'.1, ?first⟩
  case first =>
    intro _
    rw [next_firstOf, next_firstOf, step_firstOf, step_firstOf, h.n]
    split
    · rfl
    · rename_i h0; exact h.first (by rw [h.n]; omega)
  intro k hk h1 h2
  rw [next_n] at hk
  rw [next_vals, setCur_size] at h1 h2
  rw [next_vals, next_vals]
  by_cases hkn : k = c1.n
  · subst hkn
    rw [setCur_get_n c1 pf h1]
    have : c1.n = c2.n := h.n
    rw [this] at h2 ⊢
    rw [setCur_get_n c2 pf h2]
  · rw [setCur_vals_ne c1 pf k (by omega), setCur_vals_ne c2 pf k (by rw [← h.n]; omega)]
    exact h.agree k (by omega) h1 h2

/-- what can be said about the two objects after the value list of one header line was parsed -/
structure CtDone (c1 c2 : PContacts) : Prop where
  n : c1.n = c2.n
  hNo : c1.hNo = c2.hNo
  maxE : c1.maxExpires = c2.maxExpires
  minE : c1.minExpires = c2.minExpires
  lhv : c1.lastHVal = c2.lastHVal
  pnc : c1.pnc = c2.pnc
  agree : ∀ k, k < c1.n → k < c1.vals.size → k < c2.vals.size → c1.vals[k]! = c2.vals[k]!
  wrapCur : c1.wrap.cur = {} ∧ c2.wrap.cur = {}
  clean1 : CtClean c1.wrap
  clean2 : CtClean c2.wrap
  /-- the last value is retrievable whatever the capacity -/
  lastV : c1.n > 0 → c1.getContact (c1.n - 1) = c2.getContact (c2.n - 1)
  /-- … and so is the first one -/
  firstV : c1.n > 0 → c1.getContact 0 = c2.getContact 0
  first : c1.n ≥ 1 → c1.firstOf = c2.firstOf

theorem wrap_scalars (c : PContacts) :
    c.wrap.n = c.n ∧ c.wrap.vals = c.vals ∧ c.wrap.hNo = c.hNo ∧ c.wrap.maxExpires = c.maxExpires ∧
    c.wrap.minExpires = c.minExpires ∧ c.wrap.lastHVal = c.lastHVal ∧ c.wrap.pnc = c.pnc := by
  unfold PContacts.wrap; split <;> exact ⟨rfl, rfl, rfl, rfl, rfl, rfl, rfl⟩

theorem wrap_firstOf (c : PContacts) : c.wrap.firstOf = c.firstOf := by
  unfold PContacts.wrap; split <;> rfl

/-- after the last value of a line: the object with the finished value stored -/
theorem done_facts (c : PContacts) (pf : PFromBody) (h : CtClean c) (hf : pf.state = .fin) :
    let c' := (c.setCur pf).account pf
    c'.wrap.cur = {} ∧ CtClean c'.wrap ∧ c'.getContact c.n = some pf ∧ c'.getContact 0 = some c'.firstOf := by
  intro c'
  have hn : c'.n = c.n + 1 := by show ((c.setCur pf).account pf).n = _; rw [account_n, setCur_n]
  have hv : c'.vals = (c.setCur pf).vals := account_vals _ _
  have hsz : c'.vals.size = c.vals.size := by rw [hv, setCur_size]
  have hl : c'.last = (c.setCur pf).last := account_last _ _
  obtain ⟨w1, w2, _⟩ := wrap_scalars c'
  have hget : ∀ k, c.n < k → k < c.vals.size → c'.vals[k]! = {} := by
    intro k h1 h2
    rw [hv, setCur_vals_ne c pf k (by omega)]; exact h.1 k h1 h2
  have hwl : c.n + 1 ≥ c.vals.size → c'.wrap.last = {} := by
    intro hge
    unfold PContacts.wrap
    by_cases hin : c.n < c.vals.size
    · have : c'.last = {} := by rw [hl, setCur_last_in c pf hin]; exact h.2 hin
      split
      · rfl
      · exact this
    · have : c'.last = pf := by rw [hl, setCur_last_out c pf hin]
      have hp : (decide (c'.n ≥ c'.vals.size) && c'.last.parsed) = true := by
        rw [this]; simp [PFromBody.parsed, hf, hn, hsz]; omega
      rw [if_pos hp]
  refine ⟨?_, ⟨fun k h1 h2 => ?_, fun h1 => ?_⟩, ?_, ?_⟩
  rotate_right
  · -- the first value
    have hfo := step_firstOf c pf
    unfold PContacts.getContact PContacts.vNo PContacts.isEmpty
    rw [hn, hsz]
    by_cases hs : c.vals.size > 0
    · have h1 : (if c.n + 1 > c.vals.size then c.vals.size else c.n + 1) > 0 := by split <;> omega
      rw [if_pos h1]
      unfold PContacts.firstOf
      rw [hsz, if_pos hs]
      have hlt : 0 < c'.vals.size := by rw [hsz]; exact hs
      rw [Array.getElem?_eq_getElem hlt]
      simp [Array.getElem!_eq_getD, Array.getD_eq_getD_getElem?, Array.getElem?_eq_getElem hlt]
    · have h1 : ¬ (if c.n + 1 > c.vals.size then c.vals.size else c.n + 1) > 0 := by split <;> omega
      rw [if_neg h1]
      have h2 : ((c.n + 1 == 0) = true) = False := by simp
      simp only [h2, ↓reduceIte, Bool.false_eq_true]
      show (if (c.n + 1 == 0 + 1) = true then some c'.last else if (0 == 0) = true then some c'.first else none) = _
      have hfo' : c'.firstOf = c'.first := by unfold PContacts.firstOf; rw [hsz, if_neg hs]
      by_cases h0 : c.n = 0
      · have : ((c.n + 1 == 0 + 1) = true) := by simp [h0]
        rw [if_pos this, hl, setCur_last_out c pf (by omega)]
        show some pf = some c'.firstOf
        rw [show c'.firstOf = (if c.n = 0 then pf else c.firstOf) from hfo, if_pos h0]
      · have : ¬ ((c.n + 1 == 0 + 1) = true) := by simp [h0]
        rw [if_neg this]
        simp [hfo']
  · unfold PContacts.cur
    rw [w1, w2, hn, hsz]
    split
    · rename_i hin; exact hget _ (by omega) hin
    · rename_i hin; exact hwl (by omega)
  · rw [w1, hn] at h1; rw [w2, hsz] at h2; rw [w2]; exact hget k (by omega) h2
  · rw [w1, w2, hn, hsz] at h1
    unfold PContacts.wrap
    have hin : c.n < c.vals.size := by omega
    have : c'.last = {} := by rw [hl, setCur_last_in c pf hin]; exact h.2 hin
    split
    · rfl
    · exact this
  · unfold PContacts.getContact PContacts.vNo PContacts.isEmpty
    rw [hn, hsz]
    by_cases hin : c.n < c.vals.size
    · have h1 : (if c.n + 1 > c.vals.size then c.vals.size else c.n + 1) > c.n := by split <;> omega
      rw [if_pos h1, hv]
      have := setCur_get_n c pf hin
      have hlt : c.n < (c.setCur pf).vals.size := by rw [setCur_size]; exact hin
      rw [Array.getElem?_eq_getElem hlt]
      simp only [Array.getElem!_eq_getD, Array.getD_eq_getD_getElem?, Array.getElem?_eq_getElem hlt, Option.getD_some] at this
      rw [this]
    · have h1 : ¬ (if c.n + 1 > c.vals.size then c.vals.size else c.n + 1) > c.n := by split <;> omega
      rw [if_neg h1]
      have h2 : ((c.n + 1 == 0) = true) = False := by simp
      simp only [h2, ↓reduceIte, beq_self_eq_true, Bool.false_eq_true]
      rw [hl, setCur_last_out c pf hin]

/-- **the value-list loop does the same whatever the capacity** -/
theorem contactsLoop_rel (b : Buf) (offs : Nat) (c1 c2 : PContacts) (h : CtRel c1 c2) :
    (contactsLoop b offs c1).1 = (contactsLoop b offs c2).1 ∧
    (contactsLoop b offs c1).2.1 = (contactsLoop b offs c2).2.1 ∧
    ((contactsLoop b offs c1).2.1 = .moreBytes → CtRel (contactsLoop b offs c1).2.2 (contactsLoop b offs c2).2.2) ∧
    ((contactsLoop b offs c1).2.1 = .ok → CtDone (contactsLoop b offs c1).2.2 (contactsLoop b offs c2).2.2) := by
  induction hk : b.size - offs using Nat.strongRecOn generalizing offs c1 c2 with
  | _ k ih =>
    rw [contactsLoop.eq_1 b offs c1, contactsLoop.eq_1 b offs c2, ← h.cur]
    rcases hp : parseOneContact b offs c1.cur with ⟨next, e1, pf⟩
    cases e1 <;> simp only
    case ok =>
      refine ⟨(by first | rfl | trivial), (by first | rfl | trivial), (fun hh => by cases hh), fun _ => ?_⟩
      have hf := (parseNameAddrPVal_post HdrContact b offs c1.cur hp (Or.inl rfl)).1
      have s1 := setCur_scalars c1 pf
      have s2 := setCur_scalars c2 pf
      have hacc := account_scalars (c1.setCur pf) (c2.setCur pf) pf (by rw [setCur_n, setCur_n, h.n])
        (by rw [s1.1, s2.1, h.hNo]) (by rw [s1.2.1, s2.2.1, h.maxE]) (by rw [s1.2.2.1, s2.2.2.1, h.minE])
        (by rw [s1.2.2.2.1, s2.2.2.2.1, h.lhv]) (by rw [s1.2.2.2.2, s2.2.2.2.2, h.pnc])
      have d1 := done_facts c1 pf h.clean1 hf
      have d2 := done_facts c2 pf h.clean2 hf
      have hfo : ((c1.setCur pf).account pf).firstOf = ((c2.setCur pf).account pf).firstOf := by
        rw [step_firstOf, step_firstOf, h.n]
        split
        · rfl
        · exact h.first (by rw [h.n]; omega)
      refine ⟨hacc.1, hacc.2.1, hacc.2.2.1, hacc.2.2.2.1, hacc.2.2.2.2.1, hacc.2.2.2.2.2, ?_, ⟨d1.1, d2.1⟩, d1.2.1, d2.2.1, ?_,
        (fun _ => by rw [d1.2.2.2, d2.2.2.2, hfo]), (fun _ => hfo)⟩
      · intro k hk h1 h2
        rw [account_n, setCur_n] at hk
        rw [account_vals, setCur_size] at h1 h2
        rw [account_vals, account_vals]
        by_cases hkn : k = c1.n
        · subst hkn
          rw [setCur_get_n c1 pf h1]
          have : c1.n = c2.n := h.n
          rw [this] at h2 ⊢
          rw [setCur_get_n c2 pf h2]
        · rw [setCur_vals_ne c1 pf k (by omega), setCur_vals_ne c2 pf k (by rw [← h.n]; omega)]
          exact h.agree k (by omega) h1 h2
      · intro _
        have e1 : ((c1.setCur pf).account pf).n - 1 = c1.n := by rw [account_n, setCur_n]; omega
        have e2 : ((c2.setCur pf).account pf).n - 1 = c2.n := by rw [account_n, setCur_n]; omega
        rw [e1, e2, d1.2.2.1, d2.2.2.1]
    case moreValues =>
      by_cases hg : offs < next ∧ next ≤ b.size
      · rw [if_pos hg, if_pos hg]
        exact ih (b.size - next) (by omega) next (c1.next pf) (c2.next pf) (h.next pf) rfl
      · rw [if_neg hg, if_neg hg]
        exact ⟨(by first | rfl | trivial), (by first | rfl | trivial), (fun hh => by cases hh), (fun hh => by cases hh)⟩
    case moreBytes =>
      refine ⟨(by first | rfl | trivial), (by first | rfl | trivial), fun _ => ?_, (fun hh => by cases hh)⟩
      have s1 := setCur_scalars c1 pf
      have s2 := setCur_scalars c2 pf
      refine ⟨by rw [setCur_n, setCur_n, h.n], by rw [s1.1, s2.1, h.hNo], by rw [s1.2.1, s2.2.1, h.maxE],
        by rw [s1.2.2.1, s2.2.2.1, h.minE], by rw [s1.2.2.2.1, s2.2.2.2.1, h.lhv], by rw [s1.2.2.2.2, s2.2.2.2.2, h.pnc],
        by rw [setCur_cur, setCur_cur], ?_, ?_, ?_, ?_⟩
      rotate_right
      · intro hn1
        rw [setCur_n] at hn1
        rw [setCur_firstOf c1 pf hn1, setCur_firstOf c2 pf (by rw [← h.n]; exact hn1)]
        exact h.first hn1
      · intro k hk h1 h2
        rw [setCur_n] at hk
        rw [setCur_size] at h1 h2
        rw [setCur_vals_ne c1 pf k (by omega), setCur_vals_ne c2 pf k (by rw [← h.n]; omega)]
        exact h.agree k hk h1 h2
      · refine ⟨fun k h1 h2 => ?_, fun h1 => ?_⟩
        · rw [setCur_n] at h1; rw [setCur_size] at h2
          rw [setCur_vals_ne c1 pf k (by omega)]; exact h.clean1.1 k h1 h2
        · rw [setCur_n, setCur_size] at h1
          rw [setCur_last_in c1 pf h1]; exact h.clean1.2 h1
      · refine ⟨fun k h1 h2 => ?_, fun h1 => ?_⟩
        · rw [setCur_n] at h1; rw [setCur_size] at h2
          rw [setCur_vals_ne c2 pf k (by omega)]; exact h.clean2.1 k h1 h2
        · rw [setCur_n, setCur_size] at h1
          rw [setCur_last_in c2 pf h1]; exact h.clean2.2 h1
    all_goals exact ⟨(by first | rfl | trivial), (by first | rfl | trivial), (fun hh => by cases hh), (fun hh => by cases hh)⟩

/-- the relation in which two contacts objects stand between calls of ParseAllContactValues -/
def CtW (c1 c2 : PContacts) : Prop := CtRel c1.wrap c2.wrap

theorem parseAllContactValues_eq_wrap (b : Buf) (offs : Nat) (c : PContacts) :
    parseAllContactValues b offs c = contactsLoop b offs c.wrap := rfl

theorem CtDone.toW {c1 c2 : PContacts} (h : CtDone c1 c2) : CtW c1 c2 := by
  obtain ⟨a1, a2, a3, a4, a5, a6, a7⟩ := wrap_scalars c1
  obtain ⟨b1, b2, b3, b4, b5, b6, b7⟩ := wrap_scalars c2
  refine ⟨by rw [a1, b1, h.n], by rw [a3, b3, h.hNo], by rw [a4, b4, h.maxE], by rw [a5, b5, h.minE],
    by rw [a6, b6, h.lhv], by rw [a7, b7, h.pnc], by rw [h.wrapCur.1, h.wrapCur.2], ?_, h.clean1, h.clean2, ?_⟩
  · intro k hk h1 h2
    rw [a1] at hk; rw [a2] at h1 ⊢; rw [b2] at h2 ⊢
    exact h.agree k hk h1 h2
  · intro hn1
    rw [a1] at hn1
    rw [wrap_firstOf, wrap_firstOf]; exact h.first hn1

theorem wrap_id_of_pending (c : PContacts) (h : c.cur.state ≠ .fin) : c.wrap = c := by
  unfold PContacts.wrap
  split
  · rename_i hc
    exfalso
    simp only [Bool.and_eq_true, decide_eq_true_eq] at hc
    have hcur : c.cur = c.last := by unfold PContacts.cur; rw [if_neg (by omega)]
    rw [hcur] at h
    exact h (by simpa [PFromBody.parsed] using hc.2)
  · rfl

theorem CtRel.toW {c1 c2 : PContacts} (h : CtRel c1 c2) (hnf : c1.cur.state ≠ .fin) : CtW c1 c2 := by
  unfold CtW
  rw [wrap_id_of_pending c1 hnf, wrap_id_of_pending c2 (by rw [← h.cur]; exact hnf)]
  exact h

/-- a new header line: the header counter is bumped and the running extent cleared -/
theorem CtW.bump {c1 c2 : PContacts} (h : CtW c1 c2) :
    CtW { c1 with hNo := c1.hNo + 1, lastHVal := {} } { c2 with hNo := c2.hNo + 1, lastHVal := {} } := by
  unfold CtW at h ⊢
  have key : ∀ c : PContacts, ({ c with hNo := c.hNo + 1, lastHVal := {} } : PContacts).wrap =
      { c.wrap with hNo := c.wrap.hNo + 1, lastHVal := {} } := by
    intro c; unfold PContacts.wrap; split <;> rfl
  rw [key c1, key c2]
  exact ⟨h.n, by show c1.wrap.hNo + 1 = c2.wrap.hNo + 1; rw [h.hNo], h.maxE, h.minE, rfl, h.pnc, h.cur, h.agree,
    h.clean1, h.clean2, h.first⟩

theorem parseAllContactValues_rel (b : Buf) (offs : Nat) (c1 c2 : PContacts) (h : CtW c1 c2) :
    (parseAllContactValues b offs c1).1 = (parseAllContactValues b offs c2).1 ∧
    (parseAllContactValues b offs c1).2.1 = (parseAllContactValues b offs c2).2.1 ∧
    ((parseAllContactValues b offs c1).2.1 = .moreBytes →
      CtRel (parseAllContactValues b offs c1).2.2 (parseAllContactValues b offs c2).2.2) ∧
    ((parseAllContactValues b offs c1).2.1 = .ok →
      CtDone (parseAllContactValues b offs c1).2.2 (parseAllContactValues b offs c2).2.2) := by
  rw [parseAllContactValues_eq_wrap, parseAllContactValues_eq_wrap]
  exact contactsLoop_rel b offs c1.wrap c2.wrap h

/-- new objects (any two capacities) are related -/
theorem CtW_new (k1 k2 : Nat) :
    CtW ({ vals := Array.replicate k1 {} } : PContacts) ({ vals := Array.replicate k2 {} } : PContacts) := by
  have hw : ∀ k, (({ vals := Array.replicate k {} } : PContacts)).wrap = { vals := Array.replicate k {} } := by
    intro k; unfold PContacts.wrap; simp [PFromBody.parsed]
  unfold CtW
  rw [hw k1, hw k2]
  have hcur : ∀ k, (({ vals := Array.replicate k {} } : PContacts)).cur = {} := by
    intro k; unfold PContacts.cur; split
    · rename_i h; simp at h; simp [h]
    · rfl
  have hclean : ∀ k, CtClean ({ vals := Array.replicate k {} } : PContacts) := by
    intro k
    refine ⟨fun j _ hj => ?_, fun _ => rfl⟩
    simp at hj; simp [hj]
  exact ⟨rfl, rfl, rfl, rfl, rfl, rfl, by rw [hcur k1, hcur k2], (fun k hk => by cases hk), hclean k1, hclean k2, (fun hh => by cases hh)⟩

end Sipsp
