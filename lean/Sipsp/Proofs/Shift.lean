/-
  Sipsp.Proofs.Shift — position independence (L3): parsing the text `t` placed after `k = pre.size` junk bytes gives
  the result of parsing `t` at 0 shifted by `k`. Generic theorem for loop parsers + lexical layer + value parsers.
-/
import Sipsp.Proofs.SafeVals
import Sipsp.Proofs.FLineSpec
import Sipsp.Proofs.Post

namespace Sipsp

variable {σ : Type}

/-! ### reading the shifted buffer -/

theorem get?_shift (pre t : Buf) (i : Nat) : (pre ++ t)[pre.size + i]? = t[i]? := by
  rw [Array.getElem?_append_right (Nat.le_add_right _ _)]
  congr 1
  omega

theorem get?_shift1 (pre t : Buf) (i : Nat) : (pre ++ t)[pre.size + i + 1]? = t[i + 1]? := by
  rw [Nat.add_assoc]; exact get?_shift pre t (i + 1)

/-! ### lexical layer -/

theorem skipCRLF_shift (pre t : Buf) (i : Nat) :
    skipCRLF (pre ++ t) (pre.size + i) =
      (pre.size + (skipCRLF t i).1, (skipCRLF t i).2.1, (skipCRLF t i).2.2) := by
  unfold skipCRLF
  rw [get?_shift1, get?_shift]
  cases h1 : t[i + 1]? <;> cases h0 : t[i]? <;> simp only
  · split <;> rfl
  · rename_i c1 c0
    split
    · split
      · exact Prod.ext (by simp only; omega) rfl
      · exact Prod.ext (by simp only; omega) rfl
    · split
      · exact Prod.ext (by simp only; omega) rfl
      · rfl

theorem skipToken_shift (pre t : Buf) (i : Nat) : skipToken (pre ++ t) (pre.size + i) = pre.size + skipToken t i := by
  fun_induction skipToken t i with
  | case1 i hb => exact skipToken_none (by rw [get?_shift]; exact hb)
  | case2 i c hb hl => exact skipToken_eq_self (by rw [get?_shift]; exact hb) hl
  | case3 i c hb hl ih =>
    rw [skipToken_step (by rw [get?_shift]; exact hb) (by simpa using hl)]
    rw [Nat.add_assoc]; exact ih

theorem skipTokenDelim_shift (pre t : Buf) (i : Nat) (d : UInt8) :
    skipTokenDelim (pre ++ t) (pre.size + i) d = pre.size + skipTokenDelim t i d := by
  fun_induction skipTokenDelim t i d with
  | case1 i hb => exact skipTokenDelim_none (by rw [get?_shift]; exact hb)
  | case2 i c hb hl => exact skipTokenDelim_eq_self (by rw [get?_shift]; exact hb) hl
  | case3 i c hb hl ih =>
    rw [skipTokenDelim_step (by rw [get?_shift]; exact hb) (by simpa using hl)]
    rw [Nat.add_assoc]; exact ih

theorem skipWS_shift (pre t : Buf) (i : Nat) : skipWS (pre ++ t) (pre.size + i) = pre.size + skipWS t i := by
  fun_induction skipWS t i with
  | case1 i hb =>
    rw [skipWS]; split
    · rfl
    · rename_i c h; rw [get?_shift, hb] at h; cases h
  | case2 i c hb hl ih =>
    rw [skipWS_step (by rw [get?_shift]; exact hb) hl, Nat.add_assoc]; exact ih
  | case3 i c hb hl => exact skipWS_eq_self (by rw [get?_shift]; exact hb) (by simpa using hl)

theorem skipLWS_shift (pre t : Buf) (i flags : Nat) :
    skipLWS (pre ++ t) (pre.size + i) flags =
      (pre.size + (skipLWS t i flags).1, (skipLWS t i flags).2.1, (skipLWS t i flags).2.2) := by
  fun_induction skipLWS t i flags with
  | case1 i hb => rw [skipLWS_none (by rw [get?_shift]; exact hb)]
  | case2 i c hb hws ih =>
    rw [skipLWS_ws (by rw [get?_shift]; exact hb) hws, Nat.add_assoc]; exact ih
  | case3 i c hb hws hcr n' crl' hs hb2 hfl =>
    have hws' : isWS c = false := by simpa using hws
    have hsB : skipCRLF (pre ++ t) (pre.size + i) = (pre.size + n', crl', .ok) := by
      rw [skipCRLF_shift, hs]
    rw [skipLWS_crlf_end (by rw [get?_shift]; exact hb) hws' hcr hsB (by rw [get?_shift]; exact hb2)]
    simp only [hfl, ↓reduceIte]
  | case4 i c hb hws hcr n' crl' hs hb2 hfl =>
    have hws' : isWS c = false := by simpa using hws
    have hsB : skipCRLF (pre ++ t) (pre.size + i) = (pre.size + n', crl', .ok) := by
      rw [skipCRLF_shift, hs]
    rw [skipLWS_crlf_end (by rw [get?_shift]; exact hb) hws' hcr hsB (by rw [get?_shift]; exact hb2)]
    have : hasFlag flags POptInputEndF = false := by simpa using hfl
    simp only [this, Bool.false_eq_true, ↓reduceIte]
  | case5 i c hb hws hcr n' crl' hs c2 hb2 hws2 ih =>
    have hws' : isWS c = false := by simpa using hws
    have hsB : skipCRLF (pre ++ t) (pre.size + i) = (pre.size + n', crl', .ok) := by
      rw [skipCRLF_shift, hs]
    rw [skipLWS_crlf_ws (by rw [get?_shift]; exact hb) hws' hcr hsB (by rw [get?_shift]; exact hb2) hws2,
      Nat.add_assoc]
    exact ih
  | case6 i c hb hws hcr n' crl' hs c2 hb2 hws2 =>
    have hws' : isWS c = false := by simpa using hws
    have hws2' : isWS c2 = false := by simpa using hws2
    have hsB : skipCRLF (pre ++ t) (pre.size + i) = (pre.size + n', crl', .ok) := by
      rw [skipCRLF_shift, hs]
    rw [skipLWS_crlf_eoh (by rw [get?_shift]; exact hb) hws' hcr hsB (by rw [get?_shift]; exact hb2) hws2']
  | case7 i c hb hws hcr n' crl' e' hne hs =>
    have hws' : isWS c = false := by simpa using hws
    have hsB : skipCRLF (pre ++ t) (pre.size + i) = (pre.size + n', crl', e') := by
      rw [skipCRLF_shift, hs]
    rw [skipLWS_crlf_err (by rw [get?_shift]; exact hb) hws' hcr hsB (by intro hh; subst hh; exact hne rfl)]
  | case8 i c hb hws hcr =>
    have hws' : isWS c = false := by simpa using hws
    have hcr' : isCRLFch c = false := by simpa using hcr
    rw [skipLWS_other (by rw [get?_shift]; exact hb) hws' hcr']

/-! ### loop parsers -/

/-- the shifted image of a step / of a result, for a state translation `sh` -/
def shStep (k : Nat) (sh : σ → σ) : Step σ → Step σ
  | .cont i st => .cont (k + i) (sh st)
  | .done o e st => .done (k + o) e (sh st)

def shRes (k : Nat) (sh : σ → σ) (r : Nat × Err × σ) : Nat × Err × σ := (k + r.1, r.2.1, sh r.2.2)

/-- **L3 (generic)**: if every step on the shifted buffer, from the translated state, is the translated step (for
    states satisfying an invariant that continuing steps preserve), then the whole loop commutes with the shift -/
theorem runLoop_shift (m : Machine σ) (pre t : Buf) (sh : σ → σ) (Inv : Nat → σ → Prop)
    (hinv : ∀ i c st i' st', t[i]? = some c → Inv i st → m.step t i c st = .cont i' st' → i < i' → Inv i' st')
    (hstep : ∀ i c st, t[i]? = some c → Inv i st →
      m.step (pre ++ t) (pre.size + i) c (sh st) = shStep pre.size sh (m.step t i c st))
    (heob : ∀ i st, t[i]? = none → Inv i st →
      m.eob (pre ++ t) (pre.size + i) (sh st) = shRes pre.size sh (m.eob t i st))
    (i : Nat) (st : σ) (hI : Inv i st) :
    runLoop m (pre ++ t) (pre.size + i) (sh st) = shRes pre.size sh (runLoop m t i st) := by
  induction hk : t.size - i using Nat.strongRecOn generalizing i st with
  | _ k ih =>
    cases hb : t[i]? with
    | none =>
      rw [runLoop_none m st hb, runLoop_none m (sh st) (by rw [get?_shift]; exact hb)]
      exact heob i st hb hI
    | some c =>
      have hbB : (pre ++ t)[pre.size + i]? = some c := by rw [get?_shift]; exact hb
      have hs := hstep i c st hb hI
      cases hq : m.step t i c st with
      | done o e st' =>
        rw [hq] at hs
        rw [runLoop_done m hb hq, runLoop_done m hbB hs]; rfl
      | cont i' st' =>
        rw [hq] at hs
        rw [runLoop_cont m hb hq, runLoop_cont m hbB hs]
        by_cases hlt : i < i'
        · rw [if_pos hlt, if_pos (by omega)]
          have := get?_lt hb
          exact ih (t.size - i') (by omega) i' st' (hinv i c st i' st' hb hI hq hlt) rfl
        · rw [if_neg hlt, if_neg (by omega)]; rfl

/-- the `lwsStd` pattern commutes with the shift when its end-of-header code does -/
theorem lwsStd_shift (pre t : Buf) (i : Nat) (st : σ) (sh : σ → σ)
    (eoh eohB : σ → Nat → Nat → Nat → Nat × Err × σ) (mb : σ → σ)
    (heoh : ∀ n crl, eohB (sh st) (pre.size + i) (pre.size + n) crl = shRes pre.size sh (eoh st i n crl))
    (hmb : mb (sh st) = sh (mb st)) :
    lwsStd (pre ++ t) (pre.size + i) (sh st) eohB mb = shStep pre.size sh (lwsStd t i st eoh mb) := by
  unfold lwsStd
  rw [skipLWS_shift]
  rcases hq : skipLWS t i 0 with ⟨n, crl, e⟩
  cases e <;> simp only [shStep]
  case eoh => rw [heoh]; rfl
  case moreBytes => rw [hmb]

/-! ### fields -/

/-- a field moved by `k` -/
def shF (k : Nat) (f : PField) : PField := ⟨f.offs + k, f.len⟩

theorem set_shift (k s e : Nat) (h : k + s ≤ 65535) : PField.set (k + s) (k + e) = shF k (PField.set s e) := by
  unfold PField.set shF trunc16
  have h1 : (k + s) % 65536 = s % 65536 + k := by
    rw [Nat.mod_eq_of_lt (by omega), Nat.mod_eq_of_lt (by omega)]; omega
  have h2 : k + e - (k + s) = e - s := by omega
  rw [h1, h2]

theorem setPanics_shift (k s e : Nat) : PField.setPanics (k + s) (k + e) = PField.setPanics s e := by
  unfold PField.setPanics
  exact decide_eq_decide.mpr ⟨fun h => by omega, fun h => by omega⟩

theorem extend_shift (k : Nat) (f : PField) (e : Nat) (h : k + e ≤ 65535) (ho : f.offs ≤ e) :
    (shF k f).extend (k + e) = shF k (f.extend e) := by
  unfold PField.extend shF trunc16
  simp only
  congr 1
  rw [Nat.mod_eq_of_lt (a := k + e) (by omega), Nat.mod_eq_of_lt (a := e) (by omega)]
  congr 1
  omega

theorem extendPanics_shift (k : Nat) (f : PField) (e : Nat) :
    (shF k f).extendPanics (k + e) = f.extendPanics e := by
  unfold PField.extendPanics shF
  exact decide_eq_decide.mpr ⟨fun h => by simp only at h; omega, fun h => by simp only; omega⟩

/-- the bytes of a moved field in the moved buffer are the bytes of the field -/
theorem get?_shiftF (pre t : Buf) (f : PField) (hin : f.inside t.size) (hfit : pre.size + t.size ≤ 65535) :
    (shF pre.size f).get? (pre ++ t) = f.get? t := by
  unfold PField.inside at hin
  unfold PField.get? PField.endT shF trunc16
  simp only
  rw [Nat.mod_eq_of_lt (a := f.offs + pre.size + f.len) (by omega), Nat.mod_eq_of_lt (a := f.offs + f.len) (by omega)]
  rw [if_pos ⟨by omega, by rw [Array.size_append]; omega⟩, if_pos ⟨by omega, hin⟩]
  congr 1
  apply Array.ext
  · simp [Array.size_extract, Array.size_append]; omega
  · intro j h1 h2
    simp only [Array.getElem_extract]
    rw [Array.getElem_append_right (by omega)]
    congr 1
    omega

/-! ### Call-ID -/

def shCi (k : Nat) (st : PCallIDBody) : PCallIDBody :=
  match st.state with
  | .init => st
  | .found => { st with soffs := st.soffs + k }
  | .fend => { st with callID := shF k st.callID, soffs := st.soffs + k }
  | .fin => { st with callID := shF k st.callID }

theorem shCi_state (k : Nat) (st : PCallIDBody) : (shCi k st).state = st.state := by
  unfold shCi; split <;> rfl

theorem ciEOH_shift (k : Nat) (st : PCallIDBody) (i n crl : Nat) (h : k + st.soffs ≤ 65535) :
    ciEOH (shCi k st) (k + i) (k + n) crl = shRes k (shCi k) (ciEOH st i n crl) := by
  unfold ciEOH shRes
  rw [shCi_state]
  cases hst : st.state <;> simp only
  case init => exact Prod.ext (by simp only; omega) (by simp [shCi, hst])
  case fin => exact Prod.ext (by simp only; omega) (by simp [shCi, hst])
  case fend => exact Prod.ext (by simp only; omega) (by simp [shCi, hst])
  case found =>
    refine Prod.ext (by simp only; omega) ?_
    simp only [shCi, hst, ciSetCallID]
    rw [Nat.add_comm st.soffs k, set_shift k st.soffs i h, setPanics_shift]

theorem ciStep_shift (pre t : Buf) (i : Nat) (c : UInt8) (st : PCallIDBody) (hS : CiSafe t i st)
    (hfit : pre.size + t.size ≤ 65535) :
    ciStep (pre ++ t) (pre.size + i) c (shCi pre.size st) = shStep pre.size (shCi pre.size) (ciStep t i c st) := by
  have hso : pre.size + st.soffs ≤ 65535 := by have := hS.soffs; have := hS.hi; omega
  unfold ciStep
  rw [shCi_state]
  by_cases hl : isLWSch c = true
  · simp only [hl, ↓reduceIte]
    cases hst : st.state <;> simp only
    case found =>
      have e1 : ({ ciSetCallID (shCi pre.size st) (pre.size + i) with state := CIState.fend } : PCallIDBody) =
          shCi pre.size { ciSetCallID st i with state := .fend } := by
        simp only [shCi, hst, ciSetCallID]
        rw [Nat.add_comm st.soffs pre.size, set_shift pre.size st.soffs i hso, setPanics_shift]
      rw [e1]
      exact lwsStd_shift pre t i _ (shCi pre.size) ciEOH ciEOH id
        (fun n crl => ciEOH_shift pre.size _ i n crl (by show pre.size + st.soffs ≤ 65535; exact hso)) rfl
    case fin => simp only [shStep]; rw [Nat.add_assoc]
    all_goals
      exact lwsStd_shift pre t i _ (shCi pre.size) ciEOH ciEOH id
        (fun n crl => ciEOH_shift pre.size _ i n crl hso) rfl
  · simp only [hl, Bool.false_eq_true, ↓reduceIte]
    cases hst : st.state <;> simp only [shStep]
    case init => rw [Nat.add_assoc]; simp [shCi, hst]; omega
    case found => rw [Nat.add_assoc]
    case fin => rw [Nat.add_assoc]

/-- **ParseCallIDVal is position independent** -/
theorem parseCallIDVal_shift (pre t : Buf) (o : Nat) (st : PCallIDBody) (hS : CiSafe t o st)
    (hfit : pre.size + t.size ≤ 65535) :
    parseCallIDVal (pre ++ t) (pre.size + o) (shCi pre.size st) =
      shRes pre.size (shCi pre.size) (parseCallIDVal t o st) := by
  unfold parseCallIDVal
  rw [shCi_state]
  split
  · rfl
  · exact runLoop_shift ciMachine pre t (shCi pre.size) (CiSafe t)
      (fun i c s i' s' hb hI hs hlt => by
        have := ciStep_safe t i c s hb hI
        change StepAll _ (ciStep t i c s) at this
        change ciStep t i c s = _ at hs
        rw [hs] at this; exact this)
      (fun i c s hb hI => ciStep_shift pre t i c s hI hfit)
      (fun i s _ _ => rfl) o st hS

/-! ### unsigned integers (Expires, Content-Length) -/

def shCl (k : Nat) (st : PUIntBody) : PUIntBody :=
  match st.state with
  | .init => st
  | .found => { st with soffs := st.soffs + k }
  | .fend => { st with sVal := shF k st.sVal, soffs := st.soffs + k }
  | .fin => { st with sVal := shF k st.sVal }

theorem shCl_state (k : Nat) (st : PUIntBody) : (shCl k st).state = st.state := by
  unfold shCl; split <;> rfl

theorem shCl_uiVal (k : Nat) (st : PUIntBody) : (shCl k st).uiVal = st.uiVal := by
  unfold shCl; split <;> rfl

theorem clEOH_shift (k : Nat) (st : PUIntBody) (i n crl : Nat) (h : k + st.soffs ≤ 65535) :
    clEOH (shCl k st) (k + i) (k + n) crl = shRes k (shCl k) (clEOH st i n crl) := by
  unfold clEOH shRes
  rw [shCl_state]
  cases hst : st.state <;> simp only
  case init => exact Prod.ext (by simp only; omega) (by simp [shCl, hst])
  case fin => exact Prod.ext (by simp only; omega) (by simp [shCl, hst])
  case fend => exact Prod.ext (by simp only; omega) (by simp [shCl, hst])
  case found =>
    refine Prod.ext (by simp only; omega) ?_
    simp only [shCl, hst, clSetSVal]
    rw [Nat.add_comm st.soffs k, set_shift k st.soffs i h, setPanics_shift]

theorem clStep_shift (pre t : Buf) (i : Nat) (c : UInt8) (st : PUIntBody) (hS : ClSafe t i st)
    (hfit : pre.size + t.size ≤ 65535) :
    clStep (pre ++ t) (pre.size + i) c (shCl pre.size st) = shStep pre.size (shCl pre.size) (clStep t i c st) := by
  have hso : pre.size + st.soffs ≤ 65535 := by have := hS.soffs; have := hS.hi; omega
  unfold clStep
  rw [shCl_state, shCl_uiVal]
  by_cases hl : isLWSch c = true
  · simp only [hl, ↓reduceIte]
    cases hst : st.state <;> simp only
    case found =>
      have e1 : ({ clSetSVal (shCl pre.size st) (pre.size + i) with state := CLState.fend } : PUIntBody) =
          shCl pre.size { clSetSVal st i with state := .fend } := by
        simp only [shCl, hst, clSetSVal]
        rw [Nat.add_comm st.soffs pre.size, set_shift pre.size st.soffs i hso, setPanics_shift]
      rw [e1]
      exact lwsStd_shift pre t i _ (shCl pre.size) clEOH clEOH id
        (fun n crl => clEOH_shift pre.size _ i n crl (by show pre.size + st.soffs ≤ 65535; exact hso)) rfl
    case fin => simp only [shStep]; rw [Nat.add_assoc]
    all_goals
      exact lwsStd_shift pre t i _ (shCl pre.size) clEOH clEOH id
        (fun n crl => clEOH_shift pre.size _ i n crl hso) rfl
  · simp only [hl, Bool.false_eq_true, ↓reduceIte]
    by_cases hd : isDigit c = true
    · simp only [hd, ↓reduceIte]
      cases hst : st.state <;> simp only [shStep]
      case init => rw [Nat.add_assoc]; simp [shCl, hst]; omega
      case found =>
        split
        · rfl
        · simp only [shStep]; rw [Nat.add_assoc]; simp [shCl, hst]
      case fin => rw [Nat.add_assoc]
    · simp only [hd, Bool.false_eq_true, ↓reduceIte, shStep]

/-- **ParseUIntVal (= ParseExpiresVal) is position independent** -/
theorem parseUIntVal_shift (pre t : Buf) (o : Nat) (st : PUIntBody) (hS : ClSafe t o st)
    (hfit : pre.size + t.size ≤ 65535) :
    parseUIntVal (pre ++ t) (pre.size + o) (shCl pre.size st) =
      shRes pre.size (shCl pre.size) (parseUIntVal t o st) := by
  unfold parseUIntVal
  rw [shCl_state]
  split
  · rfl
  · exact runLoop_shift clMachine pre t (shCl pre.size) (ClSafe t)
      (fun i c s i' s' hb hI hs hlt => by
        have := clStep_safe t i c s hb hI
        change StepAll _ (clStep t i c s) at this
        change clStep t i c s = _ at hs
        rw [hs] at this; exact this)
      (fun i c s hb hI => clStep_shift pre t i c s hI hfit)
      (fun i s _ _ => rfl) o st hS

/-- **ParseCLenVal is position independent** (its "number too big" exit points back at the value: also moved) -/
theorem parseCLenVal_shift (pre t : Buf) (o : Nat) (st : PUIntBody) (hS : ClSafe t o st)
    (hfit : pre.size + t.size ≤ 65535) :
    parseCLenVal (pre ++ t) (pre.size + o) (shCl pre.size st) =
      shRes pre.size (shCl pre.size) (parseCLenVal t o st) := by
  unfold parseCLenVal
  rw [parseUIntVal_shift pre t o st hS hfit]
  rcases hp : parseUIntVal t o st with ⟨o1, e1, s1⟩
  cases e1 <;> simp only [shRes]
  case ok =>
    have hf : s1.state = .fin := (parseUIntVal_post t o st hS.hi hp).2.2.1
    have h1 : (shCl pre.size s1).sVal = shF pre.size s1.sVal := by simp [shCl, hf]
    rw [h1, shCl_uiVal]
    show (if (decide (s1.sVal.len > MaxCLenValueSize) || decide (s1.uiVal > MaxClenValue)) = true then _ else _) = _
    split
    · exact Prod.ext (by simp only [shF]; omega) rfl
    · rfl

/-! ### CSeq -/

/-- the saved restart offset of a finished object is 0 after success and stale after the "number too big" error -/
def shSoffsFin (k s : Nat) : Nat := if s = 0 then 0 else s + k

def shCs (k : Nat) (st : PCSeqBody) : PCSeqBody :=
  match st.state with
  | .init => st
  | .foundDigit => { st with soffs := st.soffs + k }
  | .endDigit => { st with cseq := shF k st.cseq, v := shF k st.v, soffs := st.soffs + k }
  | .foundMethod => { st with cseq := shF k st.cseq, v := shF k st.v, soffs := st.soffs + k }
  | .fend => { st with cseq := shF k st.cseq, v := shF k st.v, method := shF k st.method, soffs := st.soffs + k }
  | .fin => { st with cseq := shF k st.cseq, v := shF k st.v, method := shF k st.method,
                      soffs := shSoffsFin k st.soffs }

theorem shCs_state (k : Nat) (st : PCSeqBody) : (shCs k st).state = st.state := by
  unfold shCs; split <;> rfl

theorem shCs_cseqNo (k : Nat) (st : PCSeqBody) : (shCs k st).cseqNo = st.cseqNo := by
  unfold shCs; split <;> rfl

/-- positions known to be at least 1 (so that "0 = not set" means the same in both runs) -/
def CsPos (i : Nat) (st : PCSeqBody) : Prop :=
  (st.state ≠ .init → 1 ≤ i) ∧ ((st.state = .foundMethod ∨ st.state = .fend) → 1 ≤ st.soffs)

theorem csFinish_shift (pre t : Buf) (st st' : PCSeqBody) (n crl : Nat) (hfit : pre.size + t.size ≤ 65535)
    (h1 : st'.cseq = shF pre.size st.cseq) (h2 : st'.v = shF pre.size st.v)
    (h3 : st'.method = shF pre.size st.method) (h4 : st'.soffs = st.soffs + pre.size)
    (h5 : st'.cseqNo = st.cseqNo) (h6 : st'.methodNo = st.methodNo) (h7 : st'.pnc = st.pnc)
    (hs : 1 ≤ st.soffs) (hm : st.method.inside t.size) :
    csFinish st' (pre ++ t) (pre.size + n) crl = shRes pre.size (shCs pre.size) (csFinish st t n crl) := by
  unfold csFinish shRes
  simp only
  rw [h1, h3, h5, get?_shiftF pre t st.method hm hfit]
  have hlen : (shF pre.size st.cseq).len = st.cseq.len := rfl
  rw [hlen]
  have hfinS : ∀ x : PCSeqBody, x.state = .fin → shCs pre.size x =
      { x with cseq := shF pre.size x.cseq, v := shF pre.size x.v, method := shF pre.size x.method,
               soffs := shSoffsFin pre.size x.soffs } := by
    intro x hx; unfold shCs; rw [hx]
  split
  · refine Prod.ext (by simp only [shF]; omega) (Prod.ext rfl ?_)
    simp only
    rw [hfinS _ rfl]
    have : shSoffsFin pre.size st.soffs = st.soffs + pre.size := by unfold shSoffsFin; rw [if_neg (by omega)]
    simp only [this]
    cases st; cases st'; simp_all
  · cases hg : st.method.get? t with
    | none =>
      simp only
      refine Prod.ext (by simp only; omega) (Prod.ext rfl ?_)
      simp only
      rw [hfinS _ rfl]
      simp only [shSoffsFin, ↓reduceIte]
      cases st; cases st'; simp_all
    | some nm =>
      simp only
      refine Prod.ext (by simp only; omega) (Prod.ext rfl ?_)
      simp only
      rw [hfinS _ rfl]
      simp only [shSoffsFin, ↓reduceIte]
      cases st; cases st'; simp_all

theorem csSetMethod_shift (k : Nat) (st : PCSeqBody) (i : Nat) (hst : st.state = .foundMethod)
    (h1 : k + st.soffs ≤ 65535) (h2 : k + i ≤ 65535) (hv : st.v.offs ≤ i) :
    csSetMethod (shCs k st) (k + i) =
      { csSetMethod st i with cseq := shF k st.cseq, v := shF k (st.v.extend i),
                              method := shF k (PField.set st.soffs i), soffs := st.soffs + k } := by
  simp only [shCs, hst, csSetMethod]
  rw [Nat.add_comm st.soffs k, set_shift k st.soffs i h1, setPanics_shift, extend_shift k st.v i h2 hv,
    extendPanics_shift]

theorem csEOH_shift (pre t : Buf) (st : PCSeqBody) (i n crl : Nat) (hfit : pre.size + t.size ≤ 65535)
    (hS : CsSafe t i st) (hP : CsPos i st) :
    csEOH (pre ++ t) (shCs pre.size st) (pre.size + i) (pre.size + n) crl =
      shRes pre.size (shCs pre.size) (csEOH t st i n crl) := by
  have hi := hS.hi
  have hso := hS.soffs
  unfold csEOH
  rw [shCs_state]
  cases hst : st.state <;> simp only
  case init => exact Prod.ext (by simp only [shRes]; omega) (by simp [shRes, shCs, hst])
  case foundDigit => exact Prod.ext (by simp only [shRes]; omega) (by simp [shRes, shCs, hst])
  case endDigit => exact Prod.ext (by simp only [shRes]; omega) (by simp [shRes, shCs, hst])
  case fin => exact Prod.ext (by simp only [shRes]; omega) (by simp [shRes, shCs, hst])
  case fend =>
    exact csFinish_shift pre t st (shCs pre.size st) n crl hfit (by simp [shCs, hst]) (by simp [shCs, hst])
      (by simp [shCs, hst]) (by simp [shCs, hst]) (by simp [shCs, hst]) (by simp [shCs, hst]) (by simp [shCs, hst])
      (hP.2 (Or.inr hst)) (PField.inside_mono hS.method hi)
  case foundMethod =>
    have hv : st.v.offs ≤ i := by have h0 : st.v.offs + st.v.len ≤ i := hS.v; omega
    rw [csSetMethod_shift pre.size st i hst (by omega) (by omega) hv]
    exact csFinish_shift pre t (csSetMethod st i) _ n crl hfit rfl rfl rfl rfl rfl rfl rfl
      (by show 1 ≤ st.soffs; exact hP.2 (Or.inl hst))
      (by show (PField.set st.soffs i).inside t.size; exact set_inside _ _ _ hso hi)

theorem csStep_pos (t : Buf) (i : Nat) (c : UInt8) (st : PCSeqBody) (hb : t[i]? = some c) (hS : CsSafe t i st)
    (hP : CsPos i st) {i' : Nat} {st' : PCSeqBody} (hs : csStep t i c st = .cont i' st') : CsPos i' st' := by
  have key : ∀ s1 : PCSeqBody, CsPos i s1 → (s1.state ≠ .init → 1 ≤ i) →
      lwsStd t i s1 (csEOH t) id = .cont i' st' → CsPos i' st' := by
    intro s1 h1 h2 hq
    rcases lwsStd_class t i s1 (csEOH t) id hS.hi with ⟨n, a1, a2, a3⟩ | ⟨n, crl, a1, a2, a4, a3⟩ | ⟨n, a1, a2, a3⟩ |
      ⟨n, a1, a2, a3⟩ <;> rw [a3] at hq <;> cases hq
    exact ⟨fun hh => by have := h2 hh; omega, h1.2⟩
  unfold csStep at hs
  by_cases hl : isLWSch c = true
  · simp only [hl, ↓reduceIte] at hs
    cases hst : st.state <;> simp only [hst] at hs
    case foundDigit =>
      refine key _ ⟨fun _ => hP.1 (by rw [hst]; decide), ?_⟩ (fun _ => hP.1 (by rw [hst]; decide)) hs
      intro hh; rcases hh with hh | hh <;> cases hh
    case foundMethod =>
      exact key { csSetMethod st i with state := .fend }
        ⟨fun _ => hP.1 (by rw [hst]; decide), fun _ => by show 1 ≤ st.soffs; exact hP.2 (Or.inl hst)⟩
        (fun _ => hP.1 (by rw [hst]; decide)) hs
    case fin => cases hs; exact ⟨fun _ => by omega, fun hh => by rcases hh with hh | hh <;> (rw [hst] at hh; cases hh)⟩
    all_goals exact key st hP hP.1 hs
  · simp only [hl, Bool.false_eq_true, ↓reduceIte] at hs
    have h1i : st.state ≠ .init → 1 ≤ i := hP.1
    by_cases hd : isDigit c = true
    · simp only [hd, ↓reduceIte] at hs
      cases hst : st.state <;> simp only [hst] at hs
      case foundDigit =>
        split at hs
        · cases hs
        · cases hs; exact ⟨fun _ => by omega, fun hh => by rcases hh with hh | hh <;> cases hh⟩
      case fend => cases hs
      all_goals
        (cases hs
         refine ⟨fun _ => by omega, fun _ => ?_⟩
         first
           | exact h1i (by rw [hst]; decide)
           | exact hP.2 (Or.inl hst)
           | (rename_i hh; rcases hh with hh | hh <;> first | cases hh | (rw [hst] at hh; cases hh)))
    · simp only [hd, Bool.false_eq_true, ↓reduceIte] at hs
      cases hst : st.state <;> simp only [hst] at hs
      case init => cases hs
      case foundDigit => cases hs
      case fend => cases hs
      all_goals
        (cases hs
         refine ⟨fun _ => by omega, fun _ => ?_⟩
         first
           | exact h1i (by rw [hst]; decide)
           | exact hP.2 (Or.inl hst)
           | (rename_i hh; rcases hh with hh | hh <;> first | cases hh | (rw [hst] at hh; cases hh)))

/-- the update of `case csFoundDigit` on white space -/
def csEndDigit (st : PCSeqBody) (i : Nat) : PCSeqBody :=
  { st with cseq := PField.set st.soffs i, v := PField.set st.soffs i, state := .endDigit, pnc := st.pnc || PField.setPanics st.soffs i }

theorem csStep_shift (pre t : Buf) (i : Nat) (c : UInt8) (st : PCSeqBody) (hS : CsSafe t i st) (hP : CsPos i st)
    (hfit : pre.size + t.size ≤ 65535) :
    csStep (pre ++ t) (pre.size + i) c (shCs pre.size st) = shStep pre.size (shCs pre.size) (csStep t i c st) := by
  have hi := hS.hi
  have hso := hS.soffs
  have hlws : ∀ s1 : PCSeqBody, CsSafe t i s1 → CsPos i s1 →
      lwsStd (pre ++ t) (pre.size + i) (shCs pre.size s1) (csEOH (pre ++ t)) id =
        shStep pre.size (shCs pre.size) (lwsStd t i s1 (csEOH t) id) := by
    intro s1 hS1 hP1
    exact lwsStd_shift pre t i s1 (shCs pre.size) (csEOH t) (csEOH (pre ++ t)) id
      (fun n crl => csEOH_shift pre t s1 i n crl hfit hS1 hP1) rfl
  unfold csStep
  rw [shCs_state]
  by_cases hl : isLWSch c = true
  · simp only [hl, ↓reduceIte]
    cases hst : st.state <;> simp only
    case foundDigit =>
      have hS1 : CsSafe t i (csEndDigit st i) :=
        ⟨hi, hso, set_inside _ _ _ hso (Nat.le_refl _), hS.method, set_inside _ _ _ hso (Nat.le_refl _), by
          show (st.pnc || PField.setPanics st.soffs i) = false
          rw [hS.pnc, setPanics_false _ _ hso]; rfl⟩
      have e1 : csEndDigit (shCs pre.size st) (pre.size + i) = shCs pre.size (csEndDigit st i) := by
        simp only [shCs, hst, csEndDigit]
        rw [Nat.add_comm st.soffs pre.size, set_shift pre.size st.soffs i (by omega), setPanics_shift]
      show lwsStd (pre ++ t) (pre.size + i) (csEndDigit (shCs pre.size st) (pre.size + i)) _ _ =
        shStep _ _ (lwsStd t i (csEndDigit st i) _ _)
      rw [e1]
      exact hlws _ hS1 ⟨fun _ => hP.1 (by rw [hst]; decide), fun hh => by rcases hh with hh | hh <;> cases hh⟩
    case foundMethod =>
      have hv : st.v.offs ≤ i := by have h0 : st.v.offs + st.v.len ≤ i := hS.v; omega
      have e1 : ({ csSetMethod (shCs pre.size st) (pre.size + i) with state := CSState.fend } : PCSeqBody) =
          shCs pre.size { csSetMethod st i with state := .fend } := by
        rw [csSetMethod_shift pre.size st i hst (by omega) (by omega) hv]
        simp only [shCs, csSetMethod]
      rw [e1]
      exact hlws _ (csSetMethod_safe hS .fend) ⟨fun _ => hP.1 (by rw [hst]; decide), fun _ => by
        show 1 ≤ st.soffs; exact hP.2 (Or.inl hst)⟩
    case fin => simp only [shStep]; rw [Nat.add_assoc]
    all_goals exact hlws st hS hP
  · simp only [hl, Bool.false_eq_true, ↓reduceIte]
    by_cases hd : isDigit c = true
    · simp only [hd, ↓reduceIte]
      cases hst : st.state <;> simp only [shStep]
      case init => rw [Nat.add_assoc]; simp [shCs, hst]; omega
      case foundDigit =>
        rw [shCs_cseqNo]
        split
        · rfl
        · simp only [shStep]; rw [Nat.add_assoc]; simp [shCs, hst]
      case endDigit => rw [Nat.add_assoc]; simp [shCs, hst]; omega
      case foundMethod => rw [Nat.add_assoc]
      case fin => rw [Nat.add_assoc]
    · simp only [hd, Bool.false_eq_true, ↓reduceIte]
      cases hst : st.state <;> simp only [shStep]
      case endDigit => rw [Nat.add_assoc]; simp [shCs, hst]; omega
      case foundMethod => rw [Nat.add_assoc]
      case fin => rw [Nat.add_assoc]

/-- **ParseCSeqVal is position independent** (number, method number and verdict unchanged; the three fields and the
    returned offset — also the one pointing back at an oversized number — moved by exactly `k`) -/
theorem parseCSeqVal_shift (pre t : Buf) (o : Nat) (st : PCSeqBody) (hS : CsSafe t o st) (hP : CsPos o st)
    (hfit : pre.size + t.size ≤ 65535) :
    parseCSeqVal (pre ++ t) (pre.size + o) (shCs pre.size st) =
      shRes pre.size (shCs pre.size) (parseCSeqVal t o st) := by
  unfold parseCSeqVal
  rw [shCs_state]
  split
  · rfl
  · exact runLoop_shift csMachine pre t (shCs pre.size) (fun i s => CsSafe t i s ∧ CsPos i s)
      (fun i c s i' s' hb hI hs hlt => by
        have h1 := csStep_safe t i c s (by omega) hb hI.1
        change StepAll2 _ _ (csStep t i c s) at h1
        change csStep t i c s = _ at hs
        rw [hs] at h1
        exact ⟨h1, csStep_pos t i c s hb hI.1 hI.2 hs⟩)
      (fun i c s hb hI => csStep_shift pre t i c s hI.1 hI.2 hfit)
      (fun i s _ _ => rfl) o st ⟨hS, hP⟩

end Sipsp
