/-
  Sipsp.Proofs.Lookup — the hash-bucket lookups GetHdrType / GetMethodNo find exactly the table entries.
-/
import Sipsp.Proofs.Bytes
import Sipsp.Model.Tables

namespace Sipsp

theorem byteToLower_nat : ∀ a, a < 256 → byteToLower (UInt8.ofNat a) = lowerB (UInt8.ofNat a) := by
  decide +kernel

theorem byteToLower_eq (v : UInt8) : byteToLower v = lowerB v := by
  have := byteToLower_nat v.toNat (UInt8.toNat_lt v)
  simpa using this

/-! ### case-insensitive lookup -/

theorem lookupCI_some {name : Buf} {tbl : List (List UInt8 × Nat)} {t : Nat}
    (h : lookupCI name tbl = some t) : ∃ e ∈ tbl, cmpEqL name e.1 = true ∧ e.2 = t := by
  induction tbl with
  | nil => simp [lookupCI] at h
  | cons e es ih =>
    unfold lookupCI at h
    split at h
    · rename_i hc
      exact ⟨e, List.mem_cons_self, hc, by simpa using h⟩
    · obtain ⟨e', he', h1, h2⟩ := ih h
      exact ⟨e', List.mem_cons_of_mem _ he', h1, h2⟩

theorem lookupCI_none {name : Buf} {tbl : List (List UInt8 × Nat)}
    (h : lookupCI name tbl = none) : ∀ e ∈ tbl, cmpEqL name e.1 = false := by
  induction tbl with
  | nil => simp
  | cons e es ih =>
    unfold lookupCI at h
    split at h
    · simp at h
    · rename_i hc
      intro e' he'
      rcases List.mem_cons.1 he' with rfl | hm
      · simpa using hc
      · exact ih h e' hm

/-- looking in the hash bucket is the same as looking in the whole table, provided matching entries
    have the hash of the name -/
theorem lookupCI_filter (name : Buf) (p : List UInt8 × Nat → Bool) (tbl : List (List UInt8 × Nat))
    (hp : ∀ e ∈ tbl, cmpEqL name e.1 = true → p e = true) :
    lookupCI name (tbl.filter p) = lookupCI name tbl := by
  induction tbl with
  | nil => rfl
  | cons e es ih =>
    have ih' := ih (fun e' he' => hp e' (List.mem_cons_of_mem _ he'))
    by_cases hpe : p e = true
    · rw [List.filter_cons_of_pos hpe]
      unfold lookupCI
      rw [ih']
    · have hc : cmpEqL name e.1 = false := by
        cases hcc : cmpEqL name e.1 with
        | false => rfl
        | true => exact absurd (hp e List.mem_cons_self hcc) hpe
      rw [List.filter_cons_of_neg hpe, ih']
      conv => rhs; unfold lookupCI
      simp [hc]

theorem lookupExact_some {name : Buf} {tbl : List (List UInt8 × Nat)} {t : Nat}
    (h : lookupExact name tbl = some t) : ∃ e ∈ tbl, name.toList = e.1 ∧ e.2 = t := by
  induction tbl with
  | nil => simp [lookupExact] at h
  | cons e es ih =>
    unfold lookupExact at h
    split at h
    · rename_i hc
      exact ⟨e, List.mem_cons_self, (bytesEqL_iff _ _).1 hc, by simpa using h⟩
    · obtain ⟨e', he', h1, h2⟩ := ih h
      exact ⟨e', List.mem_cons_of_mem _ he', h1, h2⟩

theorem lookupExact_none {name : Buf} {tbl : List (List UInt8 × Nat)}
    (h : lookupExact name tbl = none) : ∀ e ∈ tbl, name.toList ≠ e.1 := by
  induction tbl with
  | nil => simp
  | cons e es ih =>
    unfold lookupExact at h
    split at h
    · simp at h
    · rename_i hc
      intro e' he'
      rcases List.mem_cons.1 he' with rfl | hm
      · intro heq; exact hc ((bytesEqL_iff _ _).2 heq)
      · exact ih h e' hm

theorem lookupExact_filter (name : Buf) (p : List UInt8 × Nat → Bool) (tbl : List (List UInt8 × Nat))
    (hp : ∀ e ∈ tbl, name.toList = e.1 → p e = true) :
    lookupExact name (tbl.filter p) = lookupExact name tbl := by
  induction tbl with
  | nil => rfl
  | cons e es ih =>
    have ih' := ih (fun e' he' => hp e' (List.mem_cons_of_mem _ he'))
    by_cases hpe : p e = true
    · rw [List.filter_cons_of_pos hpe]
      unfold lookupExact
      rw [ih']
    · have hc : bytesEqL name e.1 = false := by
        cases hcc : bytesEqL name e.1 with
        | false => rfl
        | true => exact absurd (hp e List.mem_cons_self ((bytesEqL_iff _ _).1 hcc)) hpe
      rw [List.filter_cons_of_neg hpe, ih']
      conv => rhs; unfold lookupExact
      simp [hc]

/-- the hash of a name only depends on its lower-cased first byte and its length -/
theorem hashNameL_of_lower {bl bf : Nat} {c : UInt8} {rest : List UInt8} {e : List UInt8}
    (h : lowerL (c :: rest) = lowerL e) : hashNameL bl bf e = hashName bl bf c (rest.length + 1) := by
  cases e with
  | nil => simp [lowerL] at h
  | cons w ws =>
    simp only [lowerL, List.map_cons, List.cons.injEq] at h
    have hl : ws.length = rest.length := by
      have := congrArg List.length h.2
      simpa using this.symm
    simp only [hashNameL, hashName, byteToLower_eq, h.1, List.length_cons, hl]

end Sipsp
