/-
  Sipsp.Proofs.IP4Longest — IP4Prefix accepts the LONGEST group sequence at its position; ContainsIP4 reports the
  LEFTMOST position at which a group sequence starts, and the span it reports cannot be extended to the right.

  Final theorems (all against the spec predicate `IsIP4` of Sipsp.Proofs.IP4):
    * `ip4PrefixAt_longest`, `ip4Prefix_longest`      : every prefix of the text that is a group sequence is at most
                                                         as long as the accepted length;
    * `ip4PrefixAt_no_longer`, `ip4Prefix_no_longer`  : no longer prefix of the text is a group sequence;
    * `ip4Prefix_is_max`                               : the accepted length is the maximum of the lengths of the
                                                         prefixes that are group sequences (member and upper bound);
    * `ip4PrefixAt_stop_byte`, `ip4Prefix_stop_byte`  : when the scan stops at a byte (verdicts MoreValues/BadChar), the
                                                         accepted text followed by that byte is not the beginning of
                                                         ANY group sequence (the byte "cannot extend it");
    * `containsIP4_longest`, `containsIP4_no_longer`  : the span reported by ContainsIP4 cannot be extended to the right;
    * `containsIP4_leftmost`                           : no group sequence starts before the reported offset.
-/
import Sipsp.Proofs.IP4

namespace Sipsp

/-! ### the scanner never moves backwards -/

theorem ip4L_ge (l : List UInt8) (n : Nat) (st : IP4St) : n ≤ (ip4L l n st).2.1 := by
  induction l generalizing n st with
  | nil =>
    rw [ip4L]
    split <;> exact Nat.le_refl _
  | cons c cs ih =>
    rw [ip4L]
    split
    · split
      · split <;> exact Nat.le_refl _
      · exact Nat.le_trans (Nat.le_succ n) (ih (n + 1) _)
    · split
      · split
        · exact Nat.le_refl _
        · split
          · exact Nat.le_refl _
          · exact Nat.le_trans (Nat.le_succ n) (ih (n + 1) _)
      · split <;> exact Nat.le_refl _

/-! ### a group sequence at the start of the text is consumed entirely -/

/-- the scanner reads through a whole group sequence: after it, it is in a state that stands for three completed
    groups and a non-empty current group, at offset `l.length` -/
theorem ip4L_through (l t : List UInt8) (a0 a1 a2 a3 : Nat) (h : IsIP4 l a0 a1 a2 a3) :
    ∃ st' gs cur, ip4L (l ++ t) 0 {} = ip4L t l.length st' ∧ Rep st' gs cur ∧ gs.length = 3 ∧ cur ≠ [] := by
  obtain ⟨g0, g1, g2, g3, rfl, h0, h1, h2, h3, _⟩ := h
  simp only [List.append_assoc, List.cons_append]
  obtain ⟨s1, e1, r1⟩ := ip4L_group g0 (46 :: (g1 ++ 46 :: (g2 ++ 46 :: (g3 ++ t)))) 0 {} [] [] Rep_init
    h0.2.2.1 (by simpa using h0.2.1) (by simpa using h0.2.2.2)
  rw [e1]
  obtain ⟨s2, e2, r2⟩ := ip4L_dot (g1 ++ 46 :: (g2 ++ 46 :: (g3 ++ t))) _ s1 [] ([] ++ g0) r1
    (by simpa using h0.ne_nil) (by decide)
  rw [e2]
  obtain ⟨s3, e3, r3⟩ := ip4L_group g1 (46 :: (g2 ++ 46 :: (g3 ++ t))) _ s2 _ [] r2
    h1.2.2.1 (by simpa using h1.2.1) (by simpa using h1.2.2.2)
  rw [e3]
  obtain ⟨s4, e4, r4⟩ := ip4L_dot (g2 ++ 46 :: (g3 ++ t)) _ s3 _ ([] ++ g1) r3 (by simpa using h1.ne_nil) (by simp)
  rw [e4]
  obtain ⟨s5, e5, r5⟩ := ip4L_group g2 (46 :: (g3 ++ t)) _ s4 _ [] r4
    h2.2.2.1 (by simpa using h2.2.1) (by simpa using h2.2.2.2)
  rw [e5]
  obtain ⟨s6, e6, r6⟩ := ip4L_dot (g3 ++ t) _ s5 _ ([] ++ g2) r5 (by simpa using h2.ne_nil) (by simp)
  rw [e6]
  obtain ⟨s7, e7, r7⟩ := ip4L_group g3 t _ s6 _ [] r6
    h3.2.2.1 (by simpa using h3.2.1) (by simpa using h3.2.2.2)
  rw [e7]
  refine ⟨s7, _, _, ?_, r7, by simp, by simpa using h3.ne_nil⟩
  congr 1
  simp only [List.length_append, List.length_cons]
  omega

/-- **the accepted length bounds every group sequence at the start of the text** (list level) -/
theorem ip4L_longest (l t : List UInt8) (a0 a1 a2 a3 : Nat) (h : IsIP4 l a0 a1 a2 a3) :
    l.length ≤ (ip4L (l ++ t) 0 {}).2.1 := by
  obtain ⟨st', gs, cur, e, _, _, _⟩ := ip4L_through l t a0 a1 a2 a3 h
  rw [e]
  exact ip4L_ge t l.length st'

/-! ### IP4Prefix: the accepted prefix is the longest group sequence -/

/-- **IP4Prefix, longest match**: if the test at offset `p` accepts with length `n`, every prefix of the text at `p`
    that is a group sequence (four dot-separated groups of 1–3 digits, each ≤ 255) has length at most `n`.
    (With `ip4PrefixAt_sound`: the prefix of length `n` IS such a sequence, so `n` is the maximum.) -/
theorem ip4PrefixAt_longest (b : Buf) (p : Nat) {n : Nat} {e : Err} {ip : Array Nat}
    (h : ip4PrefixAt b p = (true, n, e, ip)) (l t : List UInt8) (a0 a1 a2 a3 : Nat)
    (hl : IsIP4 l a0 a1 a2 a3) (hp : b.toList.drop p = l ++ t) : l.length ≤ n := by
  rw [ip4PrefixAt_eq, hp] at h
  have := ip4L_longest l t a0 a1 a2 a3 hl
  rw [h] at this
  exact this

/-- the same, stated with `take`: no strictly longer prefix of the text at `p` is a group sequence -/
theorem ip4PrefixAt_no_longer (b : Buf) (p : Nat) {n : Nat} {e : Err} {ip : Array Nat}
    (h : ip4PrefixAt b p = (true, n, e, ip)) (m : Nat) (hm : n < m) (hmb : m ≤ (b.toList.drop p).length) :
    ¬ ∃ a0 a1 a2 a3, IsIP4 ((b.toList.drop p).take m) a0 a1 a2 a3 := by
  rintro ⟨a0, a1, a2, a3, hv⟩
  have := ip4PrefixAt_longest b p h _ ((b.toList.drop p).drop m) a0 a1 a2 a3 hv (List.take_append_drop m _).symm
  rw [List.length_take, Nat.min_eq_left hmb] at this
  omega

/-- for the whole buffer -/
theorem ip4Prefix_longest (b : Buf) {n : Nat} {e : Err} {ip : Array Nat}
    (h : ip4Prefix b = (true, n, e, ip)) (l t : List UInt8) (a0 a1 a2 a3 : Nat)
    (hl : IsIP4 l a0 a1 a2 a3) (hp : b.toList = l ++ t) : l.length ≤ n :=
  ip4PrefixAt_longest b 0 h l t a0 a1 a2 a3 hl (by simpa using hp)

theorem ip4Prefix_no_longer (b : Buf) {n : Nat} {e : Err} {ip : Array Nat}
    (h : ip4Prefix b = (true, n, e, ip)) (m : Nat) (hm : n < m) (hmb : m ≤ b.size) :
    ¬ ∃ a0 a1 a2 a3, IsIP4 (b.toList.take m) a0 a1 a2 a3 := by
  have := ip4PrefixAt_no_longer b 0 h m hm (by simpa using hmb)
  simpa using this

/-- **IP4Prefix accepts exactly the maximum**: the accepted length `n` is the length of a prefix that is a group
    sequence (with the returned bytes), and it bounds the length of every prefix that is one -/
theorem ip4Prefix_is_max (b : Buf) {n : Nat} {e : Err} {ip : Array Nat} (h : ip4Prefix b = (true, n, e, ip)) :
    (n ≤ b.size ∧ IsIP4 (b.toList.take n) ip[0]! ip[1]! ip[2]! ip[3]!) ∧
    ∀ m, m ≤ b.size → (∃ a0 a1 a2 a3, IsIP4 (b.toList.take m) a0 a1 a2 a3) → m ≤ n := by
  have hs := ip4PrefixAt_sound b 0 h
  refine ⟨⟨by simpa using hs.1, by simpa using hs.2.1⟩, fun m hmb hv => ?_⟩
  rcases Nat.lt_or_ge n m with hlt | hge
  · exact absurd hv (ip4Prefix_no_longer b h m hlt hmb)
  · exact hge

/-! ### ContainsIP4: the reported span is the leftmost match and cannot be extended to the right -/

/-- the inner loop returns the FIRST offset in its range at which IP4Prefix accepts -/
theorem containsIP4Try_some_first (b : Buf) (o d : Nat) {r : Nat × Nat × Array Nat}
    (h : containsIP4Try b o d = some r) : ∀ p, o ≤ p → p < r.1 → (ip4PrefixAt b p).1 = false := by
  fun_induction containsIP4Try b o d with
  | case1 o hlt nxt e ip hp => cases h; intro p h1 h2; exact absurd h2 (by show ¬ p < o; omega)
  | case2 o hlt hne ih =>
    intro p h1 h2
    rcases Nat.eq_or_lt_of_le h1 with rfl | h1'
    · rcases hq : ip4PrefixAt b o with ⟨ok, n1, e1, ip1⟩
      cases ok with
      | false => rfl
      | true => exact absurd hq (by intro hh; exact hne n1 e1 ip1 hh)
    · exact ih h p (by omega) h2
  | case3 o hlt => cases h

/-- an address whose first dot is the first dot at or after `i` starts inside the window tried for that dot -/
theorem window_covers (b : Buf) (i dOffs p k : Nat) (hi : i = 0 ∨ b[i - 1]? = some 46)
    (hk3 : k ≤ 3) (heq : dOffs = p + k) (hge : i ≤ dOffs)
    (hdig : ∀ j, j < k → ∃ c, b[p + j]? = some c ∧ IsDigitB c) :
    (if dOffs ≥ 3 then dOffs - 3 else i) ≤ p := by
  split
  · omega
  · rcases hi with rfl | hi
    · exact Nat.zero_le _
    · rcases Nat.lt_or_ge p i with hpi | hpi
      · exfalso
        obtain ⟨c, hc, hcd⟩ := hdig (i - 1 - p) (by omega)
        have : p + (i - 1 - p) = i - 1 := by omega
        rw [this, hi] at hc
        cases hc
        exact absurd hcd (by unfold IsDigitB; decide)
      · exact hpi

/-- **ContainsIP4, leftmost** (loop level): if the search starting at `i` (the start of the text, or just after a
    dot) reports offset `o`, then no address whose first dot is at or after `i` starts before `o` -/
theorem containsIP4Loop_leftmost (b : Buf) (i : Nat) (hi : i = 0 ∨ b[i - 1]? = some 46) {o n : Nat} {ip : Array Nat}
    (h : containsIP4Loop b i = some (o, n, ip)) :
    ∀ p l t a0 a1 a2 a3, IsIP4 l a0 a1 a2 a3 → b.toList.drop p = l ++ t →
      ∀ k, 1 ≤ k → k ≤ 3 → b[p + k]? = some 46 → (∀ j, j < k → ∃ c, b[p + j]? = some c ∧ IsDigitB c) →
        i ≤ p + k → o ≤ p := by
  fun_induction containsIP4Loop b i with
  | case1 i hlt hidx => cases h
  | case2 i hlt dOffs hidx offs r htry =>
    cases h
    intro p l t a0 a1 a2 a3 hv hp k hk1 hk3 hdot hdig hge
    obtain ⟨hd1, hd2, hd3⟩ := indexByteFrom_some b i 46 hidx
    obtain ⟨ht1, ht2, _⟩ := containsIP4Try_some b offs dOffs htry
    have ht1' : offs ≤ o := ht1
    have ht2' : o < dOffs := ht2
    have hq : dOffs ≤ p + k := by
      rcases Nat.lt_or_ge (p + k) dOffs with hlt' | hge'
      · exact absurd hdot (hd3 (p + k) hge hlt')
      · exact hge'
    rcases Nat.lt_or_ge p o with hpo | hpo
    · exfalso
      -- `p < o < dOffs ≤ p + k`: the first dot of the address at `p` is `dOffs`, and `p` was tried before `o`
      have heq : dOffs = p + k := by
        rcases Nat.eq_or_lt_of_le hq with heq | hgt
        · exact heq
        · exfalso
          obtain ⟨c, hc, hcd⟩ := hdig (dOffs - p) (by omega)
          have : p + (dOffs - p) = dOffs := by omega
          rw [this, hd2] at hc
          cases hc
          exact absurd hcd (by unfold IsDigitB; decide)
      have hoffs : offs ≤ p := window_covers b i dOffs p k hi hk3 heq hd1 hdig
      have hfalse := containsIP4Try_some_first b offs dOffs htry p hoffs hpo
      rw [ip4PrefixAt_complete b p l t a0 a1 a2 a3 hv hp] at hfalse
      cases hfalse
    · exact hpo
  | case3 i hlt dOffs hidx offs htry hg ih =>
    intro p l t a0 a1 a2 a3 hv hp k hk1 hk3 hdot hdig hge
    obtain ⟨hd1, hd2, hd3⟩ := indexByteFrom_some b i 46 hidx
    have hq : dOffs ≤ p + k := by
      rcases Nat.lt_or_ge (p + k) dOffs with hlt' | hge'
      · exact absurd hdot (hd3 (p + k) hge hlt')
      · exact hge'
    rcases Nat.eq_or_lt_of_le hq with heq | hgt
    · exfalso
      have hoffs : offs ≤ p := window_covers b i dOffs p k hi hk3 heq hd1 hdig
      have hfalse := containsIP4Try_none b offs dOffs htry p hoffs (by omega)
      rw [ip4PrefixAt_complete b p l t a0 a1 a2 a3 hv hp] at hfalse
      cases hfalse
    · exact ih (Or.inr (by simpa using hd2)) h p l t a0 a1 a2 a3 hv hp k hk1 hk3 hdot hdig (by omega)
  | case4 i hlt dOffs hidx offs htry hg => cases h
  | case5 i hlt => cases h

/-- **ContainsIP4 reports the leftmost address**: no group sequence starts at an offset before the reported one -/
theorem containsIP4_leftmost (b : Buf) {o n : Nat} {ip : Array Nat} (h : containsIP4 b = some (o, n, ip))
    (p : Nat) (l t : List UInt8) (a0 a1 a2 a3 : Nat) (hv : IsIP4 l a0 a1 a2 a3) (hp : b.toList.drop p = l ++ t) :
    o ≤ p := by
  obtain ⟨k, h1, h2, h3, h4⟩ := hv.first_dot b p hp
  exact containsIP4Loop_leftmost b 0 (Or.inl rfl) h p l t a0 a1 a2 a3 hv hp k h1 h2 h3 h4 (Nat.zero_le _)

/-- **the span reported by ContainsIP4 cannot be extended to the right**: every group sequence that starts at the
    reported offset is at most as long as the reported length -/
theorem containsIP4_longest (b : Buf) {o n : Nat} {ip : Array Nat} (h : containsIP4 b = some (o, n, ip))
    (l t : List UInt8) (a0 a1 a2 a3 : Nat) (hv : IsIP4 l a0 a1 a2 a3) (hp : b.toList.drop o = l ++ t) :
    l.length ≤ n := by
  obtain ⟨e, he⟩ := containsIP4Loop_sound b 0 h
  exact ip4PrefixAt_longest b o he l t a0 a1 a2 a3 hv hp

theorem containsIP4_no_longer (b : Buf) {o n : Nat} {ip : Array Nat} (h : containsIP4 b = some (o, n, ip))
    (m : Nat) (hm : n < m) (hmb : o + m ≤ b.size) :
    ¬ ∃ a0 a1 a2 a3, IsIP4 ((b.toList.drop o).take m) a0 a1 a2 a3 := by
  obtain ⟨e, he⟩ := containsIP4Loop_sound b 0 h
  exact ip4PrefixAt_no_longer b o he m hm (by simp only [List.length_drop, Array.length_toList]; omega)

/-! ### the byte at which the scan stops cannot extend the sequence -/

/-- a scan that stops AT a byte (any verdict except the two end-of-input ones) depends only on the text up to and
    including that byte -/
theorem ip4L_stop_local (l : List UInt8) (n0 : Nat) (st : IP4St) {r : Bool × Nat × Err × Array Nat}
    (h : ip4L l n0 st = r) (he : r.2.2.1 ≠ .ok) (he2 : r.2.2.1 ≠ .moreBytes) (u : List UInt8) :
    ip4L (l.take (r.2.1 - n0 + 1) ++ u) n0 st = r := by
  induction l generalizing n0 st with
  | nil =>
    exfalso
    rw [ip4L] at h
    split at h <;> subst h
    · exact he2 rfl
    · exact he rfl
  | cons c cs ih =>
    have hge := ip4L_ge (c :: cs) n0 st
    rw [h] at hge
    rw [ip4L] at h
    have hstop : r.2.1 = n0 → (List.take (r.2.1 - n0 + 1) (c :: cs) ++ u) = c :: u := by
      intro hh; rw [hh, Nat.sub_self]; rfl
    have hrec : n0 + 1 ≤ r.2.1 →
        (List.take (r.2.1 - n0 + 1) (c :: cs) ++ u) = c :: (List.take (r.2.1 - (n0 + 1) + 1) cs ++ u) := by
      intro hh
      have : r.2.1 - n0 + 1 = (r.2.1 - (n0 + 1) + 1) + 1 := by omega
      rw [this, List.take_succ_cons, List.cons_append]
    by_cases hd : isDigit c = true
    · rw [if_pos hd] at h
      by_cases hov : (st.digits + 1 > 3 || st.ip[st.pos]! * 10 + (c.toNat - 48) > 255) = true
      · rw [if_pos hov] at h
        by_cases hp : st.pos < 3
        · rw [if_pos hp] at h; subst h
          rw [hstop rfl, ip4L, if_pos hd, if_pos hov, if_pos hp]
        · rw [if_neg hp] at h; subst h
          rw [hstop rfl, ip4L, if_pos hd, if_pos hov, if_neg hp]
      · rw [if_neg hov] at h
        have hge' := ip4L_ge cs (n0 + 1) { st with digits := st.digits + 1, ip := st.ip.set! st.pos (st.ip[st.pos]! * 10 + (c.toNat - 48)) }
        rw [h] at hge'
        rw [hrec hge', ip4L, if_pos hd, if_neg hov]
        exact ih (n0 + 1) _ h
    · rw [if_neg hd] at h
      by_cases h46 : (c == 46) = true
      · rw [if_pos h46] at h
        by_cases hz : (st.digits == 0) = true
        · rw [if_pos hz] at h; subst h
          rw [hstop rfl, ip4L, if_neg hd, if_pos h46, if_pos hz]
        · rw [if_neg hz] at h
          by_cases hp : st.pos + 1 > 3
          · rw [if_pos hp] at h; subst h
            rw [hstop rfl, ip4L, if_neg hd, if_pos h46, if_neg hz, if_pos hp]
          · rw [if_neg hp] at h
            have hge' := ip4L_ge cs (n0 + 1) { st with pos := st.pos + 1, digits := 0, ip := st.ip.set! (st.pos + 1) 0 }
            rw [h] at hge'
            rw [hrec hge', ip4L, if_neg hd, if_pos h46, if_neg hz, if_neg hp]
            exact ih (n0 + 1) _ h
      · rw [if_neg h46] at h
        by_cases hc : (decide (st.pos < 3) || st.digits == 0) = true
        · rw [if_pos hc] at h; subst h
          rw [hstop rfl, ip4L, if_neg hd, if_neg h46, if_pos hc]
        · rw [if_neg hc] at h; subst h
          rw [hstop rfl, ip4L, if_neg hd, if_neg h46, if_neg hc]

/-- list level: an accepted scan that stopped at a byte: the accepted text plus that byte starts no group sequence -/
theorem ip4L_stop_byte (l : List UInt8) {n : Nat} {e : Err} {ip : Array Nat}
    (h : ip4L l 0 {} = (true, n, e, ip)) (he : e ≠ .ok) (u : List UInt8) (a0 a1 a2 a3 : Nat) :
    ¬ IsIP4 (l.take (n + 1) ++ u) a0 a1 a2 a3 := by
  intro hv
  have hs := ip4L_sound l 0 {} [] [] Rep_init
  rw [h] at hs
  obtain ⟨k, e1, e2, _, e4, _, e6, e7⟩ := hs rfl
  have e1' : n = 0 + k := e1
  have hk : k = n := by omega
  subst hk
  have hlt : k < l.length := by
    have e4' : e = .ok ∨ e = .moreValues ∨ e = .badChar := e4
    rcases e4' with h0 | h1 | h2
    · exact absurd h0 he
    · obtain ⟨c, hc, _⟩ := e6 h1
      exact (List.getElem?_eq_some_iff.1 hc).1
    · obtain ⟨c, hc, _⟩ := e7 h2
      exact (List.getElem?_eq_some_iff.1 hc).1
  have hmb : e ≠ .moreBytes := by
    have e4' : e = .ok ∨ e = .moreValues ∨ e = .badChar := e4
    rcases e4' with h0 | h1 | h2
    · exact absurd h0 he
    · rw [h1]; intro hh; cases hh
    · rw [h2]; intro hh; cases hh
  have hloc := ip4L_stop_local l 0 {} h he hmb u
  have hloc' : ip4L (l.take (k + 1) ++ u) 0 {} = (true, k, e, ip) := hloc
  have hlong := ip4L_longest (l.take (k + 1) ++ u) [] a0 a1 a2 a3 hv
  rw [List.append_nil, hloc'] at hlong
  have hlong' : (l.take (k + 1) ++ u).length ≤ k := hlong
  rw [List.length_append, List.length_take, Nat.min_eq_left (by omega)] at hlong'
  omega

/-- **IP4Prefix stops at the first byte that cannot extend the sequence**: when the test accepts `n` bytes and did
    not stop at the end of the input (verdict MoreValues or BadChar), the `n` accepted bytes followed by the next
    byte of the text are not the beginning of ANY four-group sequence, whatever one appends -/
theorem ip4PrefixAt_stop_byte (b : Buf) (p : Nat) {n : Nat} {e : Err} {ip : Array Nat}
    (h : ip4PrefixAt b p = (true, n, e, ip)) (he : e ≠ .ok) (u : List UInt8) (a0 a1 a2 a3 : Nat) :
    ¬ IsIP4 ((b.toList.drop p).take (n + 1) ++ u) a0 a1 a2 a3 := by
  rw [ip4PrefixAt_eq] at h
  exact ip4L_stop_byte _ h he u a0 a1 a2 a3

theorem ip4Prefix_stop_byte (b : Buf) {n : Nat} {e : Err} {ip : Array Nat}
    (h : ip4Prefix b = (true, n, e, ip)) (he : e ≠ .ok) (u : List UInt8) (a0 a1 a2 a3 : Nat) :
    ¬ IsIP4 (b.toList.take (n + 1) ++ u) a0 a1 a2 a3 := by
  have := ip4PrefixAt_stop_byte b 0 h he u a0 a1 a2 a3
  simpa using this

/-- the same for the span reported by ContainsIP4, when it does not end at the end of the text -/
theorem containsIP4_stop_byte (b : Buf) {o n : Nat} {ip : Array Nat} (h : containsIP4 b = some (o, n, ip))
    (hne : o + n < b.size) (u : List UInt8) (a0 a1 a2 a3 : Nat) :
    ¬ IsIP4 ((b.toList.drop o).take (n + 1) ++ u) a0 a1 a2 a3 := by
  obtain ⟨e, he⟩ := containsIP4Loop_sound b 0 h
  refine ip4PrefixAt_stop_byte b o he ?_ u a0 a1 a2 a3
  intro hok
  have := (ip4PrefixAt_sound b o he).2.2.2.1 hok
  simp only [List.length_drop, Array.length_toList] at this
  omega

/-! ### tests / non-vacuity (closed computations, `decide +kernel`) -/

-- the hypotheses are met by concrete runs, with each of the three verdicts
example : ip4Prefix "1.2.3.256".toUTF8.data = (true, 8, .moreValues, #[1, 2, 3, 25]) := by decide +kernel
example : ip4Prefix "1.2.3.4.5".toUTF8.data = (true, 7, .badChar, #[1, 2, 3, 4]) := by decide +kernel
example : ip4Prefix "1.2.3.0001".toUTF8.data = (true, 9, .moreValues, #[1, 2, 3, 0]) := by decide +kernel
-- the leftmost match is reported, not the first one that looks "nicest": here the match starts inside "256"
example : containsIP4 "x256.1.1.1".toUTF8.data = some (2, 8, #[56, 1, 1, 1]) := by decide +kernel
example : containsIP4 "a.1.2.3.4.5 9.9.9.9".toUTF8.data = some (2, 7, #[1, 2, 3, 4]) := by decide +kernel
-- instance of the longest-prefix theorem: "1.2.3.25" is the longest group sequence at the start of "1.2.3.256"
example : ¬ ∃ a0 a1 a2 a3, IsIP4 ("1.2.3.256".toUTF8.data.toList.take 9) a0 a1 a2 a3 :=
  ip4Prefix_no_longer "1.2.3.256".toUTF8.data (n := 8) (e := .moreValues) (ip := #[1, 2, 3, 25])
    (by decide +kernel) 9 (by decide) (by decide +kernel)

end Sipsp
