/-
  Sipsp.Proofs.CSeq — L1 / L2 for ParseCSeqVal. The end-of-header code reads the method text from the
  buffer (`GetMethodNo(pcs.Method.Get(buf))`), so stability needs the invariant that the method field lies
  inside the buffer.
-/
import Sipsp.Proofs.RunLoop2
import Sipsp.Proofs.Progress

namespace Sipsp

theorem PField.get?_app (p : PField) (b s : Buf) (h : p.endT ≤ b.size) : p.get? (b ++ s) = p.get? b := by
  unfold PField.get?
  have hs : (b ++ s).size = b.size + s.size := by simp
  by_cases h1 : p.offs ≤ p.endT
  · have c1 : p.offs ≤ p.endT ∧ p.endT ≤ (b ++ s).size := ⟨h1, by omega⟩
    have c2 : p.offs ≤ p.endT ∧ p.endT ≤ b.size := ⟨h1, h⟩
    rw [if_pos c1, if_pos c2]
    congr 1
    apply Array.ext
    · simp; omega
    · intro k hk1 hk2
      simp only [Array.getElem_extract]
      rw [Array.getElem_append_left]
  · have c1 : ¬ (p.offs ≤ p.endT ∧ p.endT ≤ (b ++ s).size) := fun hh => h1 hh.1
    have c2 : ¬ (p.offs ≤ p.endT ∧ p.endT ≤ b.size) := fun hh => h1 hh.1
    rw [if_neg c1, if_neg c2]

theorem set_endT_le (s i n : Nat) (hs : s ≤ i) (hi : i ≤ n) : (PField.set s i).endT ≤ n := by
  unfold PField.set PField.endT trunc16
  simp only
  by_cases hn : n < 65536
  · have h1 : s % 65536 = s := Nat.mod_eq_of_lt (by omega)
    have h2 : (i - s) % 65536 = i - s := Nat.mod_eq_of_lt (by omega)
    rw [h1, h2]
    have : s + (i - s) = i := by omega
    rw [this, Nat.mod_eq_of_lt (by omega)]; exact hi
  · have := Nat.mod_lt (s % 65536 + (i - s) % 65536) (by decide : 65536 > 0)
    omega

/-- loop invariant of the CSeq machine on buffer `b` -/
def csInv (b : Buf) (i : Nat) (st : PCSeqBody) : Prop :=
  i ≤ b.size ∧ (st.state = .foundMethod → st.soffs ≤ i) ∧ (st.state = .fend → st.method.endT ≤ b.size)

theorem csFinish_app (st : PCSeqBody) (b s : Buf) (n crl : Nat) (h : st.method.endT ≤ b.size) :
    csFinish st (b ++ s) n crl = csFinish st b n crl := by
  unfold csFinish
  simp only
  rw [PField.get?_app _ b s h]

theorem csEOH_app (b s : Buf) (st : PCSeqBody) (i n crl : Nat) (hi : i ≤ b.size)
    (h1 : st.state = .foundMethod → st.soffs ≤ i) (h2 : st.state = .fend → st.method.endT ≤ b.size) :
    csEOH (b ++ s) st i n crl = csEOH b st i n crl := by
  unfold csEOH
  cases hst : st.state <;> simp only
  · -- foundMethod
    apply csFinish_app
    simp only [csSetMethod]
    exact set_endT_le _ _ _ (h1 hst) hi
  · exact csFinish_app _ _ _ _ _ (h2 hst)

theorem csEOH_ne_more (b : Buf) (st : PCSeqBody) (i n crl : Nat) : (csEOH b st i n crl).2.1 ≠ Err.moreBytes := by
  unfold csEOH csFinish
  cases st.state <;> simp only <;> (repeat' split) <;> simp

/-- `lwsStd` with a buffer dependent end-of-header code -/
theorem lwsStd_stable2 {σ : Type} (b s : Buf) (i : Nat) (st : σ) (eoh eoh' : σ → Nat → Nat → Nat → Nat × Err × σ)
    (mb : σ → σ) (heq : ∀ n crl, eoh' st i n crl = eoh st i n crl)
    (h : ∀ o st', lwsStd b i st eoh mb ≠ .done o .moreBytes st') :
    lwsStd (b ++ s) i st eoh' mb = lwsStd b i st eoh mb := by
  unfold lwsStd at h ⊢
  rcases hsk : skipLWS b i 0 with ⟨n, crl, e⟩
  rw [hsk] at h
  have hne : e ≠ .moreBytes := by
    intro he; subst he; exact h n (mb st) rfl
  rw [skipLWS_stable b s i 0 hsk hne (by decide)]
  cases e <;> simp only [heq]

theorem cs_invCont (b : Buf) : InvCont csMachine b (csInv b) := by
  intro i c st i' st' hb hI hs hlt
  change csStep b i c st = .cont i' st' at hs
  have hib := get?_lt hb
  unfold csStep at hs
  -- every continuing step either keeps the state (white space) or moves one byte forward
  have key : ∀ st1 : PCSeqBody, (st1.state ≠ .foundMethod) → (st1.state = .fend → st1.method.endT ≤ b.size) →
      lwsStd b i st1 (csEOH b) id = .cont i' st' → csInv b i' st' := by
    intro st1 h1 h2 hl
    unfold lwsStd at hl
    rcases hsk : skipLWS b i 0 with ⟨n, crl, e⟩
    rw [hsk] at hl
    cases e <;> simp only at hl <;> cases hl
    have := (skipLWS_range b i 0 hsk).2 hI.1
    exact ⟨this, fun h => absurd h h1, h2⟩
  split at hs
  · cases hst : st.state <;> rw [hst] at hs <;> simp only at hs
    · exact key _ (by rw [hst]; simp) (by rw [hst]; simp) hs
    · exact key _ (by simp) (by simp) hs
    · exact key _ (by rw [hst]; simp) (by rw [hst]; simp) hs
    · refine key _ (by simp) ?_ hs
      intro _; simp only [csSetMethod]
      exact set_endT_le _ _ _ (hI.2.1 hst) hI.1
    · exact key _ (by rw [hst]; simp) (fun _ => hI.2.2 hst) hs
    · cases hs; exact ⟨by omega, by simp [hst], by simp [hst]⟩
  · split at hs
    · cases hst : st.state <;> rw [hst] at hs <;> simp only at hs <;> (try split at hs) <;> cases hs <;>
        first
          | exact ⟨by omega, by simp, by simp⟩
          | exact ⟨by omega, fun _ => by omega, by simp⟩
          | exact ⟨by omega, fun _ => by have := hI.2.1 hst; omega, by simp [hst]⟩
          | exact ⟨by omega, by simp [hst], by simp [hst]⟩
    · cases hst : st.state <;> rw [hst] at hs <;> simp only at hs <;> cases hs <;>
        first
          | exact ⟨by omega, fun _ => by omega, by simp⟩
          | exact ⟨by omega, fun _ => by have := hI.2.1 hst; omega, by simp [hst]⟩
          | exact ⟨by omega, by simp [hst], by simp [hst]⟩

theorem cs_stepStable (b s : Buf) : StepStableI csMachine b s (csInv b) := by
  intro i c st hb hI hne
  show csStep (b ++ s) i c st = csStep b i c st
  have hne' : ∀ o st', csStep b i c st ≠ .done o .moreBytes st' := hne
  have hib := get?_lt hb
  by_cases hl : isLWSch c = true
  · cases hst : st.state <;> simp only [csStep, hl, hst, if_true] at hne' ⊢
    · exact lwsStd_stable2 b s i _ _ _ id (fun n crl => csEOH_app b s _ i n crl hI.1 (by simp [hst]) (by simp [hst])) hne'
    · exact lwsStd_stable2 b s i _ _ _ id (fun n crl => csEOH_app b s _ i n crl hI.1 (by simp) (by simp)) hne'
    · exact lwsStd_stable2 b s i _ _ _ id (fun n crl => csEOH_app b s _ i n crl hI.1 (by simp [hst]) (by simp [hst])) hne'
    · refine lwsStd_stable2 b s i _ _ _ id (fun n crl => csEOH_app b s _ i n crl hI.1 (by simp) ?_) hne'
      intro _; simp only [csSetMethod]; exact set_endT_le _ _ _ (hI.2.1 hst) hI.1
    · exact lwsStd_stable2 b s i _ _ _ id (fun n crl => csEOH_app b s _ i n crl hI.1 (by simp [hst]) (fun _ => hI.2.2 hst)) hne'
  · simp only [csStep, hl, Bool.false_eq_true, if_false]

end Sipsp

namespace Sipsp

theorem csEOH_indep (b : Buf) (st : PCSeqBody) (hs : st.state ≠ .foundMethod) (j j' n crl : Nat) :
    csEOH b st j n crl = csEOH b st j' n crl := by
  unfold csEOH; cases h : st.state <;> simp_all

theorem csStep_lws (b : Buf) (j : Nat) (c : UInt8) (st : PCSeqBody) (hl : isLWSch c = true)
    (hs : st.state = .init ∨ st.state = .endDigit ∨ st.state = .fend) :
    csStep b j c st = lwsStd b j st (csEOH b) id := by
  unfold csStep; rw [if_pos hl]
  rcases hs with h | h | h <;> rw [h]

theorem cs_stepRestart (b s : Buf) :
    ∀ i c st o st', b[i]? = some c → csInv b i st → csMachine.step b i c st = .done o .moreBytes st' →
      runLoop csMachine (b ++ s) o st' = runLoop csMachine (b ++ s) i st := by
  intro i c st o st' hb hI hs
  change csStep b i c st = .done o .moreBytes st' at hs
  rw [runLoop_eq_runStep csMachine st (get?_app hb)]
  show runLoop csMachine (b ++ s) o st' = runStep csMachine (b ++ s) i (csStep (b ++ s) i c st)
  by_cases hl : isLWSch c = true
  · have key : ∀ st1 : PCSeqBody, (st1.state = .init ∨ st1.state = .endDigit ∨ st1.state = .fend) →
        lwsStd b i st1 (csEOH b) id = .done o .moreBytes st' →
        runLoop csMachine (b ++ s) o st' =
          runStep csMachine (b ++ s) i (lwsStd (b ++ s) i st1 (csEOH (b ++ s)) id) := by
      intro st1 hst1 hl1
      unfold lwsStd at hl1
      rcases hsk : skipLWS b i 0 with ⟨n, crl, e⟩
      rw [hsk] at hl1
      cases e with
      | moreBytes =>
        simp only [Step.done.injEq, true_and] at hl1
        obtain ⟨rfl, rfl⟩ := hl1
        exact lwsStd_restart csMachine b s i n crl st1 (csEOH (b ++ s)) id hb hl hsk rfl
          (fun j c' _ hl' => csStep_lws _ j c' st1 hl' hst1)
          (csEOH_indep _ st1 (by rcases hst1 with h | h | h <;> rw [h] <;> simp))
          (fun _ => rfl)
      | eoh =>
        exfalso
        have hne := csEOH_ne_more b st1 i n crl
        simp only at hl1
        injection hl1 with _ h2 _
        exact hne h2
      | _ => cases hl1
    cases hst : st.state <;> simp only [csStep, hl, hst, if_true] at hs ⊢
    · exact key st (Or.inl hst) hs
    · exact key _ (Or.inr (Or.inl rfl)) hs
    · exact key st (Or.inr (Or.inl hst)) hs
    · exact key _ (Or.inr (Or.inr rfl)) hs
    · exact key st (Or.inr (Or.inr hst)) hs
    · cases hs
  · simp only [csStep, hl, Bool.false_eq_true, if_false] at hs
    split at hs
    · cases hst : st.state <;> rw [hst] at hs <;> simp only at hs <;> (try split at hs) <;> cases hs
    · cases hst : st.state <;> rw [hst] at hs <;> simp only at hs <;> cases hs

/-- suspended CSeq objects are not final and keep the invariant -/
theorem cs_more_inv (b : Buf) (i : Nat) (st : PCSeqBody) (h0 : csInv b i st) (hnf : st.state ≠ .fin)
    {o : Nat} {st' : PCSeqBody} (h : runLoop csMachine b i st = (o, Err.moreBytes, st')) :
    csInv b o st' ∧ st'.state ≠ .fin := by
  have := runLoop_moreI csMachine b (fun i st => csInv b i st ∧ st.state ≠ .fin)
    (fun o st' => csInv b o st' ∧ st'.state ≠ .fin) ?_ ?_ ?_ i st ⟨h0, hnf⟩ h
  · exact this
  · intro i c st i' st' hb hI hs hlt
    refine ⟨cs_invCont b i c st i' st' hb hI.1 hs hlt, ?_⟩
    change csStep b i c st = .cont i' st' at hs
    unfold csStep at hs
    have key : ∀ st1 : PCSeqBody, st1.state ≠ .fin → lwsStd b i st1 (csEOH b) id = .cont i' st' → st'.state ≠ .fin := by
      intro st1 h1 hl
      unfold lwsStd at hl
      rcases hsk : skipLWS b i 0 with ⟨n, crl, e⟩
      rw [hsk] at hl
      cases e <;> simp only at hl <;> cases hl
      exact h1
    split at hs
    · cases hst : st.state <;> rw [hst] at hs <;> simp only at hs <;>
        first
          | exact key _ (by simp [hst]) hs
          | exact key _ (by simp) hs
          | exact absurd hst hI.2
    · split at hs
      · cases hst : st.state <;> rw [hst] at hs <;> simp only at hs <;> (try split at hs) <;> cases hs <;> simp_all
      · cases hst : st.state <;> rw [hst] at hs <;> simp only at hs <;> cases hs <;> simp_all
  · intro i c st o st' hb hI hs
    change csStep b i c st = .done o .moreBytes st' at hs
    have hib := get?_lt hb
    unfold csStep at hs
    have key : ∀ st1 : PCSeqBody, st1.state ≠ .fin → st1.state ≠ .foundMethod →
        (st1.state = .fend → st1.method.endT ≤ b.size) →
        lwsStd b i st1 (csEOH b) id = .done o .moreBytes st' → csInv b o st' ∧ st'.state ≠ .fin := by
      intro st1 h1 h2 h3 hl
      unfold lwsStd at hl
      rcases hsk : skipLWS b i 0 with ⟨n, crl, e⟩
      rw [hsk] at hl
      cases e with
      | moreBytes =>
        simp only [Step.done.injEq, true_and] at hl; obtain ⟨rfl, rfl⟩ := hl
        have := (skipLWS_range b i 0 hsk).2 hI.1.1
        exact ⟨⟨this, fun h => absurd h h2, h3⟩, h1⟩
      | eoh =>
        exfalso
        have hne := csEOH_ne_more b st1 i n crl
        simp only at hl
        injection hl with _ hh _
        exact hne hh
      | _ => cases hl
    split at hs
    · cases hst : st.state <;> rw [hst] at hs <;> simp only at hs
      · exact key _ (by simp [hst]) (by simp [hst]) (by simp [hst]) hs
      · exact key _ (by simp) (by simp) (by simp) hs
      · exact key _ (by simp [hst]) (by simp [hst]) (by simp [hst]) hs
      · refine key _ (by simp) (by simp) ?_ hs
        intro _; simp only [csSetMethod]; exact set_endT_le _ _ _ (hI.1.2.1 hst) hI.1.1
      · exact key _ (by simp [hst]) (by simp [hst]) (fun _ => hI.1.2.2 hst) hs
      · cases hs
    · split at hs
      · cases hst : st.state <;> rw [hst] at hs <;> simp only at hs <;> (try split at hs) <;> cases hs
      · cases hst : st.state <;> rw [hst] at hs <;> simp only at hs <;> cases hs
  · intro i st o st' _ hI h; cases h; exact hI

/-- what a caller may legitimately pass: an offset inside the buffer and a CSeq object that is new or was
    returned by an earlier call on a prefix of this buffer -/
def csOK (b : Buf) (o : Nat) (st : PCSeqBody) : Prop := st.state = .fin ∨ csInv b o st

theorem csInv_grows (b s : Buf) (o : Nat) (st : PCSeqBody) (h : csInv b o st) : csInv (b ++ s) o st := by
  have hs : (b ++ s).size = b.size + s.size := by simp
  exact ⟨by have := h.1; omega, h.2.1, fun hh => by have := h.2.2 hh; omega⟩

/-- **L1 for ParseCSeqVal** -/
theorem parseCSeqVal_stable (b s : Buf) (o : Nat) (st : PCSeqBody) (hok : csOK b o st)
    {o' : Nat} {e : Err} {st' : PCSeqBody}
    (h : parseCSeqVal b o st = (o', e, st')) (he : e ≠ .moreBytes) :
    parseCSeqVal (b ++ s) o st = (o', e, st') := by
  unfold parseCSeqVal at h ⊢
  split
  · rename_i hf; rw [if_pos hf] at h; exact h
  · rename_i hf; rw [if_neg hf] at h
    rcases hok with hok | hok
    · exact absurd hok hf
    · exact runLoop_stableI csMachine b s (csInv b) (cs_invCont b) (cs_stepStable b s) (fun _ _ => rfl) o st hok h he

/-- **L2 for ParseCSeqVal** (with the invariant re-established on the extended buffer) -/
theorem parseCSeqVal_resume (b s : Buf) (o : Nat) (st : PCSeqBody) (hok : csOK b o st)
    {o' : Nat} {st' : PCSeqBody} (h : parseCSeqVal b o st = (o', Err.moreBytes, st')) :
    parseCSeqVal (b ++ s) o' st' = parseCSeqVal (b ++ s) o st ∧ csOK (b ++ s) o' st' := by
  unfold parseCSeqVal at h ⊢
  by_cases hf : st.state = .fin
  · rw [if_pos hf] at h; cases h
  · rw [if_neg hf] at h
    rcases hok with hok | hok
    · exact absurd hok hf
    · obtain ⟨hI', hnf⟩ := cs_more_inv b o st hok hf h
      rw [if_neg hnf, if_neg hf]
      refine ⟨?_, Or.inr (csInv_grows b s o' st' hI')⟩
      exact runLoop_resumeI csMachine b s (csInv b) Eq (cs_invCont b) (cs_stepStable b s)
        (cs_stepRestart b s) (fun i st o st' _ _ h => by cases h; rfl) o st hok h

end Sipsp
