/-
  Sipsp.Proofs.HdrLineL1 — L1 (no premature verdict) for ParseHdrLine: the per-header value dispatch
  (`parseBody`), the loop body and the loop.
-/
import Sipsp.Proofs.ContactsL1
import Sipsp.Proofs.Scan
import Sipsp.Proofs.CallID
import Sipsp.Proofs.UInt

namespace Sipsp

theorem csOK_mono {b : Buf} {o o' : Nat} {st : PCSeqBody} (h : csOK b o st) (h1 : o ≤ o') (h2 : o' ≤ b.size) :
    csOK b o' st := by
  rcases h with h | h
  · exact Or.inl h
  · exact Or.inr ⟨h2, fun hh => by have := h.2.1 hh; omega, h.2.2⟩

theorem csOK_grows {b : Buf} (s : Buf) {o : Nat} {st : PCSeqBody} (h : csOK b o st) : csOK (b ++ s) o st := by
  rcases h with h | h
  · exact Or.inl h
  · exact Or.inr (csInv_grows b s o st h)

/-- legitimacy of the header-values object at offset `o` of `b` -/
def hvOK (b : Buf) (o : Nat) (hv : PHdrVals) : Prop :=
  naOK b o hv.from_ ∧ naOK b o hv.to ∧ csOK b o hv.cseq ∧ ctOK b o hv.contacts ∧ paOK b o hv.pais

def hbOK (b : Buf) (o : Nat) : Option PHdrVals → Prop
  | none => True
  | some hv => hvOK b o hv

theorem hvOK_mono {b : Buf} {o o' : Nat} {hv : PHdrVals} (h : hvOK b o hv) (h1 : o ≤ o') (h2 : o' ≤ b.size) :
    hvOK b o' hv :=
  ⟨naOK_mono h.1 h1 h2, naOK_mono h.2.1 h1 h2, csOK_mono h.2.2.1 h1 h2, ctOK_mono h.2.2.2.1 h1 h2,
   paOK_mono h.2.2.2.2 h1 h2⟩

theorem hbOK_mono {b : Buf} {o o' : Nat} {hb : Option PHdrVals} (h : hbOK b o hb) (h1 : o ≤ o') (h2 : o' ≤ b.size) :
    hbOK b o' hb := by
  cases hb with
  | none => trivial
  | some hv => exact hvOK_mono h h1 h2

theorem hvOK_grows {b : Buf} (s : Buf) {o : Nat} {hv : PHdrVals} (h : hvOK b o hv) : hvOK (b ++ s) o hv :=
  ⟨naOK_grows s h.1, naOK_grows s h.2.1, csOK_grows s h.2.2.1, ctOK_grows s h.2.2.2.1, paOK_grows s h.2.2.2.2⟩

theorem hbOK_grows {b : Buf} (s : Buf) {o : Nat} {hb : Option PHdrVals} (h : hbOK b o hb) : hbOK (b ++ s) o hb := by
  cases hb with
  | none => trivial
  | some hv => exact hvOK_grows s h

theorem parseFromVal_stable (b s : Buf) (o : Nat) (pf : PFromBody) (hok : naOK b o pf)
    {o' : Nat} {e : Err} {pf' : PFromBody} (hr : parseFromVal b o pf = (o', e, pf')) (he : e ≠ .moreBytes) :
    parseFromVal (b ++ s) o pf = (o', e, pf') := parseNameAddrPVal_stable HdrFrom b s o pf hok hr he

theorem ctOK_hno {b : Buf} {o : Nat} {c : PContacts} (h : ctOK b o c) (k : Nat) (f : PField) :
    ctOK b o { c with hNo := k, lastHVal := f } := h
theorem paOK_hno {b : Buf} {o : Nat} {c : PPAIs} (h : paOK b o c) (k : Nat) (f : PField) :
    paOK b o { c with hNo := k, lastHVal := f } := h

/-- **L1 for the header-value dispatch** -/
theorem parseBody_stable (b s : Buf) (o : Nat) (h : Hdr) (hb : Option PHdrVals) (hok : hbOK b o hb) (ho : o ≤ b.size)
    {n : Nat} {e : Err} {h2 : Hdr} {hb2 : Option PHdrVals}
    (hr : parseBody b o h hb = (n, e, h2, hb2)) (he : e ≠ .moreBytes) :
    parseBody (b ++ s) o h hb = (n, e, h2, hb2) := by
  unfold parseBody at hr ⊢
  cases hb with
  | none => exact hr
  | some hv =>
  simp only at hr ⊢
  obtain ⟨ok1, ok2, ok3, ok4, ok5⟩ := hok
  by_cases h_from_ : (h.type == HdrFrom) = true
  · simp only [h_from_, ↓reduceIte] at hr ⊢
    by_cases hp : (!hv.from_.parsed) = true
    · simp only [hp, ↓reduceIte] at hr ⊢
      rcases hq : parseFromVal b o hv.from_ with ⟨n1, e1, f1⟩
      rw [hq] at hr; simp only [Prod.mk.injEq] at hr
      obtain ⟨rfl, rfl, rfl, rfl⟩ := hr
      rw [parseFromVal_stable b s o hv.from_ ok1 hq he]
    · simp only [hp, Bool.false_eq_true, ↓reduceIte] at hr ⊢; exact hr
  simp only [h_from_, Bool.false_eq_true, ↓reduceIte] at hr ⊢
  by_cases h_to : (h.type == HdrTo) = true
  · simp only [h_to, ↓reduceIte] at hr ⊢
    by_cases hp : (!hv.to.parsed) = true
    · simp only [hp, ↓reduceIte] at hr ⊢
      rcases hq : parseNameAddrPVal HdrTo b o hv.to with ⟨n1, e1, f1⟩
      rw [hq] at hr; simp only [Prod.mk.injEq] at hr
      obtain ⟨rfl, rfl, rfl, rfl⟩ := hr
      rw [parseNameAddrPVal_stable HdrTo b s o hv.to ok2 hq he]
    · simp only [hp, Bool.false_eq_true, ↓reduceIte] at hr ⊢; exact hr
  simp only [h_to, Bool.false_eq_true, ↓reduceIte] at hr ⊢
  by_cases h_callid : (h.type == HdrCallID) = true
  · simp only [h_callid, ↓reduceIte] at hr ⊢
    by_cases hp : (!hv.callid.parsed) = true
    · simp only [hp, ↓reduceIte] at hr ⊢
      rcases hq : parseCallIDVal b o hv.callid with ⟨n1, e1, f1⟩
      rw [hq] at hr; simp only [Prod.mk.injEq] at hr
      obtain ⟨rfl, rfl, rfl, rfl⟩ := hr
      rw [parseCallIDVal_stable b s o hv.callid hq he]
    · simp only [hp, Bool.false_eq_true, ↓reduceIte] at hr ⊢; exact hr
  simp only [h_callid, Bool.false_eq_true, ↓reduceIte] at hr ⊢
  by_cases h_cseq : (h.type == HdrCSeq) = true
  · simp only [h_cseq, ↓reduceIte] at hr ⊢
    by_cases hp : (!hv.cseq.parsed) = true
    · simp only [hp, ↓reduceIte] at hr ⊢
      rcases hq : parseCSeqVal b o hv.cseq with ⟨n1, e1, f1⟩
      rw [hq] at hr; simp only [Prod.mk.injEq] at hr
      obtain ⟨rfl, rfl, rfl, rfl⟩ := hr
      rw [parseCSeqVal_stable b s o hv.cseq ok3 hq he]
    · simp only [hp, Bool.false_eq_true, ↓reduceIte] at hr ⊢; exact hr
  simp only [h_cseq, Bool.false_eq_true, ↓reduceIte] at hr ⊢
  by_cases h_clen : (h.type == HdrCLen) = true
  · simp only [h_clen, ↓reduceIte] at hr ⊢
    by_cases hp : (!hv.clen.parsed) = true
    · simp only [hp, ↓reduceIte] at hr ⊢
      rcases hq : parseCLenVal b o hv.clen with ⟨n1, e1, f1⟩
      rw [hq] at hr; simp only [Prod.mk.injEq] at hr
      obtain ⟨rfl, rfl, rfl, rfl⟩ := hr
      rw [parseCLenVal_stable b s o hv.clen hq he]
    · simp only [hp, Bool.false_eq_true, ↓reduceIte] at hr ⊢; exact hr
  simp only [h_clen, Bool.false_eq_true, ↓reduceIte] at hr ⊢
  by_cases h_contacts : (h.type == HdrContact) = true
  · simp only [h_contacts, ↓reduceIte] at hr ⊢
    rcases hq : parseAllContactValues b o (if h.state != .hContact then { hv.contacts with hNo := hv.contacts.hNo + 1, lastHVal := {} }
                else hv.contacts) with ⟨n1, e1, f1⟩
    rw [hq] at hr; simp only [Prod.mk.injEq] at hr
    obtain ⟨rfl, rfl, rfl, rfl⟩ := hr
    rw [parseAllContactValues_stable b s o _ (by split; exact ok4; exact ok4) ho hq he]
  simp only [h_contacts, Bool.false_eq_true, ↓reduceIte] at hr ⊢
  by_cases h_expires : (h.type == HdrExpires) = true
  · simp only [h_expires, ↓reduceIte] at hr ⊢
    by_cases hp : (!hv.expires.parsed) = true
    · simp only [hp, ↓reduceIte] at hr ⊢
      rcases hq : parseUIntVal b o hv.expires with ⟨n1, e1, f1⟩
      rw [hq] at hr; simp only [Prod.mk.injEq] at hr
      obtain ⟨rfl, rfl, rfl, rfl⟩ := hr
      rw [parseUIntVal_stable b s o hv.expires hq he]
    · simp only [hp, Bool.false_eq_true, ↓reduceIte] at hr ⊢; exact hr
  simp only [h_expires, Bool.false_eq_true, ↓reduceIte] at hr ⊢
  by_cases h_pais : (h.type == HdrPAI) = true
  · simp only [h_pais, ↓reduceIte] at hr ⊢
    rcases hq : parseAllPAIValues b o (if h.state != .hPAI then { hv.pais with hNo := hv.pais.hNo + 1, lastHVal := {} }
                else hv.pais) with ⟨n1, e1, f1⟩
    rw [hq] at hr; simp only [Prod.mk.injEq] at hr
    obtain ⟨rfl, rfl, rfl, rfl⟩ := hr
    rw [parseAllPAIValues_stable b s o _ (by split; exact ok5; exact ok5) ho hq he]
  simp only [h_pais, Bool.false_eq_true, ↓reduceIte] at hr ⊢
  exact hr

/-- when the dispatch leaves the header in the "body start" state, it has done nothing -/
theorem parseBody_keep (b : Buf) (o : Nat) (h : Hdr) (hb : Option PHdrVals)
    {n : Nat} {e : Err} {h2 : Hdr} {hb2 : Option PHdrVals}
    (hr : parseBody b o h hb = (n, e, h2, hb2)) (hst : h2.state = .bodyStart) :
    n = o ∧ e = .ok ∧ h2 = h ∧ hb2 = hb := by
  unfold parseBody at hr
  cases hb with
  | none => simp only [Prod.mk.injEq] at hr; obtain ⟨rfl, rfl, rfl, rfl⟩ := hr; exact ⟨rfl, rfl, rfl, rfl⟩
  | some hv =>
  simp only at hr
  by_cases h_from_ : (h.type == HdrFrom) = true
  · simp only [h_from_, ↓reduceIte] at hr
    by_cases hp : (!hv.from_.parsed) = true
    · simp only [hp, ↓reduceIte] at hr
      simp only [Prod.mk.injEq] at hr
      obtain ⟨_, _, rfl, _⟩ := hr
      cases hst
    · simp only [hp, Bool.false_eq_true, ↓reduceIte, Prod.mk.injEq] at hr
      obtain ⟨rfl, rfl, rfl, rfl⟩ := hr; exact ⟨rfl, rfl, rfl, rfl⟩
  simp only [h_from_, Bool.false_eq_true, ↓reduceIte] at hr
  by_cases h_to : (h.type == HdrTo) = true
  · simp only [h_to, ↓reduceIte] at hr
    by_cases hp : (!hv.to.parsed) = true
    · simp only [hp, ↓reduceIte] at hr
      simp only [Prod.mk.injEq] at hr
      obtain ⟨_, _, rfl, _⟩ := hr
      cases hst
    · simp only [hp, Bool.false_eq_true, ↓reduceIte, Prod.mk.injEq] at hr
      obtain ⟨rfl, rfl, rfl, rfl⟩ := hr; exact ⟨rfl, rfl, rfl, rfl⟩
  simp only [h_to, Bool.false_eq_true, ↓reduceIte] at hr
  by_cases h_callid : (h.type == HdrCallID) = true
  · simp only [h_callid, ↓reduceIte] at hr
    by_cases hp : (!hv.callid.parsed) = true
    · simp only [hp, ↓reduceIte] at hr
      simp only [Prod.mk.injEq] at hr
      obtain ⟨_, _, rfl, _⟩ := hr
      cases hst
    · simp only [hp, Bool.false_eq_true, ↓reduceIte, Prod.mk.injEq] at hr
      obtain ⟨rfl, rfl, rfl, rfl⟩ := hr; exact ⟨rfl, rfl, rfl, rfl⟩
  simp only [h_callid, Bool.false_eq_true, ↓reduceIte] at hr
  by_cases h_cseq : (h.type == HdrCSeq) = true
  · simp only [h_cseq, ↓reduceIte] at hr
    by_cases hp : (!hv.cseq.parsed) = true
    · simp only [hp, ↓reduceIte] at hr
      simp only [Prod.mk.injEq] at hr
      obtain ⟨_, _, rfl, _⟩ := hr
      cases hst
    · simp only [hp, Bool.false_eq_true, ↓reduceIte, Prod.mk.injEq] at hr
      obtain ⟨rfl, rfl, rfl, rfl⟩ := hr; exact ⟨rfl, rfl, rfl, rfl⟩
  simp only [h_cseq, Bool.false_eq_true, ↓reduceIte] at hr
  by_cases h_clen : (h.type == HdrCLen) = true
  · simp only [h_clen, ↓reduceIte] at hr
    by_cases hp : (!hv.clen.parsed) = true
    · simp only [hp, ↓reduceIte] at hr
      simp only [Prod.mk.injEq] at hr
      obtain ⟨_, _, rfl, _⟩ := hr
      cases hst
    · simp only [hp, Bool.false_eq_true, ↓reduceIte, Prod.mk.injEq] at hr
      obtain ⟨rfl, rfl, rfl, rfl⟩ := hr; exact ⟨rfl, rfl, rfl, rfl⟩
  simp only [h_clen, Bool.false_eq_true, ↓reduceIte] at hr
  by_cases h_contacts : (h.type == HdrContact) = true
  · simp only [h_contacts, ↓reduceIte, Prod.mk.injEq] at hr
    obtain ⟨_, _, rfl, _⟩ := hr
    cases hst
  simp only [h_contacts, Bool.false_eq_true, ↓reduceIte] at hr
  by_cases h_expires : (h.type == HdrExpires) = true
  · simp only [h_expires, ↓reduceIte] at hr
    by_cases hp : (!hv.expires.parsed) = true
    · simp only [hp, ↓reduceIte] at hr
      simp only [Prod.mk.injEq] at hr
      obtain ⟨_, _, rfl, _⟩ := hr
      cases hst
    · simp only [hp, Bool.false_eq_true, ↓reduceIte, Prod.mk.injEq] at hr
      obtain ⟨rfl, rfl, rfl, rfl⟩ := hr; exact ⟨rfl, rfl, rfl, rfl⟩
  simp only [h_expires, Bool.false_eq_true, ↓reduceIte] at hr
  by_cases h_pais : (h.type == HdrPAI) = true
  · simp only [h_pais, ↓reduceIte, Prod.mk.injEq] at hr
    obtain ⟨_, _, rfl, _⟩ := hr
    cases hst
  simp only [h_pais, Bool.false_eq_true, ↓reduceIte] at hr
  simp only [Prod.mk.injEq] at hr
  obtain ⟨rfl, rfl, rfl, rfl⟩ := hr; exact ⟨rfl, rfl, rfl, rfl⟩

/-! ### the loop body -/

theorem extend_endT_eq (p : PField) (j : Nat) (hp : p.offs < 65536) : (p.extend j).endT = trunc16 j := by
  unfold PField.extend PField.endT trunc16
  simp only
  have hj : j % 65536 < 65536 := Nat.mod_lt _ (by decide)
  by_cases h : p.offs ≤ j % 65536
  · have : (j % 65536 + 65536 - p.offs) % 65536 = j % 65536 - p.offs := by
      have : j % 65536 + 65536 - p.offs = (j % 65536 - p.offs) + 65536 := by omega
      rw [this, Nat.add_mod_right]; exact Nat.mod_eq_of_lt (by omega)
    rw [this]; have : p.offs + (j % 65536 - p.offs) = j % 65536 := by omega
    rw [this]; exact Nat.mod_mod _ _
  · have : (j % 65536 + 65536 - p.offs) % 65536 = j % 65536 + 65536 - p.offs := Nat.mod_eq_of_lt (by omega)
    rw [this]; have : p.offs + (j % 65536 + 65536 - p.offs) = j % 65536 + 65536 := by omega
    rw [this, Nat.add_mod_right]; exact Nat.mod_mod _ _

theorem extend_endT_le (p : PField) (j n : Nat) (hp : p.offs < 65536) (hj : j ≤ n) : (p.extend j).endT ≤ n := by
  rw [extend_endT_eq p j hp]
  unfold trunc16
  have := Nat.mod_le j 65536
  omega

/-- legitimacy of a header object w.r.t. buffer `b`: the name range is a 16-bit range inside `b` -/
def hdrOK (b : Buf) (h : Hdr) : Prop := h.name.offs < 65536 ∧ h.name.endT ≤ b.size

theorem hdrOK_grows {b : Buf} (s : Buf) {h : Hdr} (hk : hdrOK b h) : hdrOK (b ++ s) h :=
  ⟨hk.1, by rw [Array.size_append]; have := hk.2; omega⟩

/-- loop invariant of ParseHdrLine on `b` -/
def hlInv (b : Buf) (i : Nat) (st : HLσ) : Prop := i ≤ b.size ∧ hdrOK b st.1 ∧ hbOK b i st.2

theorem hlAfterColon_stable (b s : Buf) (i : Nat) (h : Hdr) (hb : Option PHdrVals) (hi : i ≤ b.size)
    (hn : h.name.endT ≤ b.size) (hok : hbOK b i hb)
    (hne : ∀ o st', hlAfterColon b i h hb ≠ .done o .moreBytes st') :
    hlAfterColon (b ++ s) i h hb = hlAfterColon b i h hb := by
  unfold hlAfterColon at hne ⊢
  rw [PField.get?_app h.name b s hn]
  cases hnm : h.name.get? b with
  | none => rfl
  | some nm =>
    simp only [hnm] at hne ⊢
    rcases hp : parseBody b i { h with type := getHdrType nm } hb with ⟨n, e, h2, hb2⟩
    rw [hp] at hne
    simp only at hne
    by_cases he : e = .moreBytes
    · exfalso
      subst he
      by_cases hst : h2.state = .bodyStart
      · have := (parseBody_keep b i _ hb hp hst).2.1
        cases this
      · have hc : (h2.state != HState.bodyStart) = true := by simpa using hst
        simp only [hc, ↓reduceIte] at hne
        exact hne n _ rfl
    · rw [parseBody_stable b s i _ hb hok hi hp he]

theorem hlValEnd_stable (b s : Buf) (i : Nat) (h : Hdr) (hb : Option PHdrVals)
    (hne : ∀ o st', hlValEnd b i h hb ≠ .done o .moreBytes st') :
    hlValEnd (b ++ s) i h hb = hlValEnd b i h hb := by
  unfold hlValEnd at hne ⊢
  rcases hsk : skipLWS b i 0 with ⟨n, crl, e⟩
  rw [hsk] at hne
  by_cases he : e = .moreBytes
  · subst he; exact absurd rfl (hne n (h, hb))
  · rw [skipLWS_stable b s i 0 hsk he (by decide)]

theorem hlName_stable (b s : Buf) (i : Nat) (h : Hdr) (hb : Option PHdrVals) (hi : i ≤ b.size)
    (hn : h.name.offs < 65536) (hok : hbOK b i hb)
    (hne : ∀ o st', hlName b i h hb ≠ .done o .moreBytes st') :
    hlName (b ++ s) i h hb = hlName b i h hb := by
  unfold hlName at hne ⊢
  simp only at hne ⊢
  cases hj : b[skipTokenDelim b i 58]? with
  | none => rw [hj] at hne; exact absurd rfl (hne _ _)
  | some c =>
    have hjl := get?_lt hj
    have hge := skipTokenDelim_ge b i 58
    rw [skipTokenDelim_stable b s i 58 hj, get?_app hj]
    rw [hj] at hne
    simp only at hne ⊢
    by_cases hws : isWS c = true
    · simp only [hws, ↓reduceIte]
    · simp only [hws, Bool.false_eq_true, ↓reduceIte] at hne ⊢
      by_cases h58 : (c == 58) = true
      · simp only [h58, ↓reduceIte] at hne ⊢
        split
        · rfl
        · rename_i hem
          simp only [hem, Bool.false_eq_true, ↓reduceIte] at hne
          exact hlAfterColon_stable b s _ _ hb (by omega)
            (extend_endT_le h.name _ b.size hn (by omega)) (hbOK_mono hok (by omega) (by omega)) hne
      · simp only [h58, Bool.false_eq_true, ↓reduceIte]

theorem hlCont_stable (b s : Buf) (i : Nat) (h : Hdr) (hb : Option PHdrVals) (hi : i ≤ b.size)
    (hok : hbOK b i hb) (hne : ∀ o st', hlCont b i h hb ≠ .done o .moreBytes st') :
    hlCont (b ++ s) i h hb = hlCont b i h hb := by
  unfold hlCont at hne ⊢
  cases hb with
  | none => rfl
  | some hv =>
    obtain ⟨ok1, ok2, ok3, ok4, ok5⟩ := hok
    simp only at hne ⊢
    cases hst : h.state <;> simp only [hst] at hne ⊢
    case hFrom =>
      rcases hq : parseFromVal b i hv.from_ with ⟨n1, e1, f1⟩
      rw [hq] at hne
      simp only at hne
      by_cases he : e1 = .moreBytes
      · subst he; exact absurd rfl (hne _ _)
      · rw [parseFromVal_stable b s i hv.from_ ok1 hq he]
    case hTo =>
      rcases hq : parseNameAddrPVal HdrTo b i hv.to with ⟨n1, e1, f1⟩
      rw [hq] at hne
      simp only at hne
      by_cases he : e1 = .moreBytes
      · subst he; exact absurd rfl (hne _ _)
      · rw [parseNameAddrPVal_stable HdrTo b s i hv.to ok2 hq he]
    case hCallID =>
      rcases hq : parseCallIDVal b i hv.callid with ⟨n1, e1, f1⟩
      rw [hq] at hne
      simp only at hne
      by_cases he : e1 = .moreBytes
      · subst he; exact absurd rfl (hne _ _)
      · rw [parseCallIDVal_stable b s i hv.callid  hq he]
    case hCSeq =>
      rcases hq : parseCSeqVal b i hv.cseq with ⟨n1, e1, f1⟩
      rw [hq] at hne
      simp only at hne
      by_cases he : e1 = .moreBytes
      · subst he; exact absurd rfl (hne _ _)
      · rw [parseCSeqVal_stable b s i hv.cseq ok3 hq he]
    case hCLen =>
      rcases hq : parseCLenVal b i hv.clen with ⟨n1, e1, f1⟩
      rw [hq] at hne
      simp only at hne
      by_cases he : e1 = .moreBytes
      · subst he; exact absurd rfl (hne _ _)
      · rw [parseCLenVal_stable b s i hv.clen  hq he]
    case hContact =>
      rcases hq : parseAllContactValues b i hv.contacts with ⟨n1, e1, f1⟩
      rw [hq] at hne
      simp only at hne
      by_cases he : e1 = .moreBytes
      · subst he; exact absurd rfl (hne _ _)
      · rw [parseAllContactValues_stable b s i hv.contacts ok4 hi hq he]
    case hExpires =>
      rcases hq : parseUIntVal b i hv.expires with ⟨n1, e1, f1⟩
      rw [hq] at hne
      simp only at hne
      by_cases he : e1 = .moreBytes
      · subst he; exact absurd rfl (hne _ _)
      · rw [parseUIntVal_stable b s i hv.expires  hq he]
    case hPAI =>
      rcases hq : parseAllPAIValues b i hv.pais with ⟨n1, e1, f1⟩
      rw [hq] at hne
      simp only at hne
      by_cases he : e1 = .moreBytes
      · subst he; exact absurd rfl (hne _ _)
      · rw [parseAllPAIValues_stable b s i hv.pais ok5 hi hq he]

theorem hl_stepStable (b s : Buf) : StepStableI hlMachine b s (hlInv b) := by
  intro i c st hb hI hne
  obtain ⟨h, hv⟩ := st
  obtain ⟨hi, ⟨hn1, hn2⟩, hok⟩ := hI
  have hlt := get?_lt hb
  change ∀ o st', hlStep b i c (h, hv) ≠ .done o .moreBytes st' at hne
  change hlStep (b ++ s) i c (h, hv) = hlStep b i c (h, hv)
  unfold hlStep at hne ⊢
  simp only at hne ⊢
  cases hst : h.state <;> simp only [hst] at hne ⊢
  case init =>
    by_cases h13 : (c == 13) = true
    · simp only [h13, ↓reduceIte] at hne ⊢
      cases h1 : b[i + 1]? with
      | none => rw [h1] at hne; exact absurd rfl (hne _ _)
      | some c1 => rw [get?_app h1]
    · simp only [h13, Bool.false_eq_true, ↓reduceIte] at hne ⊢
      by_cases h10 : (c == 10) = true
      · simp only [h10, ↓reduceIte]
      · simp only [h10, Bool.false_eq_true, ↓reduceIte] at hne ⊢
        exact hlName_stable b s i _ hv hi (by unfold PField.set trunc16; exact Nat.mod_lt _ (by decide)) hok hne
  case name => exact hlName_stable b s i h hv hi hn1 hok hne
  case nameEnd =>
    cases hj : b[skipWS b i]? with
    | none => rw [hj] at hne; exact absurd rfl (hne _ _)
    | some c1 =>
      have hjl := get?_lt hj
      have hge := skipWS_ge b i
      rw [skipWS_stable b s i hj, get?_app hj]
      rw [hj] at hne
      simp only at hne ⊢
      split
      · rename_i h58
        simp only [h58, ↓reduceIte] at hne
        exact hlAfterColon_stable b s _ _ hv (by omega) hn2 (hbOK_mono hok (by omega) (by omega)) hne
      · rfl
  case bodyStart =>
    rcases hsk : skipLWS b i 0 with ⟨n, crl, e⟩
    rw [hsk] at hne
    by_cases he : e = .moreBytes
    · subst he; exact absurd rfl (hne n (h, hv))
    · rw [skipLWS_stable b s i 0 hsk he (by decide)]
  case val =>
    cases hj : b[skipToken b i]? with
    | none => rw [hj] at hne; exact absurd rfl (hne _ _)
    | some c1 =>
      rw [skipToken_stable b s i hj, get?_app hj]
      rw [hj] at hne
      simp only at hne ⊢
      exact hlValEnd_stable b s _ _ hv hne
  case valEnd => exact hlValEnd_stable b s i h hv hne
  all_goals exact hlCont_stable b s i h hv hi hok (by simpa only [hst] using hne)

/-! ### the invariant is preserved by continuing steps -/

theorem hlAfterColon_inv (b : Buf) (j : Nat) (h : Hdr) (hb : Option PHdrVals) (hj : j ≤ b.size)
    (hd : hdrOK b h) (hok : hbOK b j hb) {i' : Nat} {st' : HLσ}
    (hs : hlAfterColon b j h hb = .cont i' st') : hlInv b i' st' := by
  unfold hlAfterColon at hs
  split at hs
  · cases hs
  · rename_i nm hnm
    simp only at hs
    rcases hp : parseBody b j { h with type := getHdrType nm } hb with ⟨n, e, h2, hb2⟩
    rw [hp] at hs
    simp only at hs
    split at hs
    · cases hs
    · rename_i hst
      cases hs
      have hst' : h2.state = .bodyStart := by simpa using hst
      obtain ⟨_, _, rfl, rfl⟩ := parseBody_keep b j _ hb hp hst'
      exact ⟨hj, hd, hok⟩

theorem hlValEnd_inv (b : Buf) (j : Nat) (h : Hdr) (hb : Option PHdrVals) (hj : j ≤ b.size)
    (hd : hdrOK b h) (hok : hbOK b j hb) {i' : Nat} {st' : HLσ}
    (hs : hlValEnd b j h hb = .cont i' st') : hlInv b i' st' := by
  unfold hlValEnd at hs
  rcases hsk : skipLWS b j 0 with ⟨n, crl, e⟩
  rw [hsk] at hs
  cases e <;> simp only at hs <;> cases hs
  obtain ⟨_, c, hc, _⟩ := skipLWS_ok b j 0 hsk
  have h1 := get?_lt hc
  have h2 := skipLWS_ok_ge b j 0 hsk
  exact ⟨by omega, hd, hbOK_mono hok (by omega) (by omega)⟩

theorem hlName_inv (b : Buf) (i : Nat) (h : Hdr) (hb : Option PHdrVals) (hi : i ≤ b.size)
    (hn : h.name.offs < 65536) (hok : hbOK b i hb) {i' : Nat} {st' : HLσ}
    (hs : hlName b i h hb = .cont i' st') : hlInv b i' st' := by
  unfold hlName at hs
  have hge := skipTokenDelim_ge b i 58
  simp only at hs
  split at hs
  · cases hs
  · rename_i c hj
    have hjl := get?_lt hj
    have hd : ∀ (st : HState) (p : Bool),
        hdrOK b ({ h with state := st, name := h.name.extend (skipTokenDelim b i 58), pnc := p } : Hdr) :=
      fun _ _ => ⟨hn, extend_endT_le h.name _ b.size hn (by omega)⟩
    split at hs
    · split at hs
      · cases hs
      · cases hs
        exact ⟨by omega, hd _ _, hbOK_mono hok (by omega) (by omega)⟩
    · split at hs
      · split at hs
        · cases hs
        · exact hlAfterColon_inv b _ _ hb (by omega) (hd _ _) (hbOK_mono hok (by omega) (by omega)) hs
      · cases hs

theorem hl_invCont (b : Buf) : InvCont hlMachine b (hlInv b) := by
  intro i c st i' st' hb hI hs _
  change hlStep b i c st = .cont i' st' at hs
  obtain ⟨h, hv⟩ := st
  obtain ⟨hi, hd, hok⟩ := hI
  have hd : hdrOK b h := hd
  have hok : hbOK b i hv := hok
  have hlt := get?_lt hb
  unfold hlStep at hs
  simp only at hs
  cases hst : h.state <;> rw [hst] at hs <;> simp only at hs
  case init =>
    split at hs
    · split at hs
      · cases hs
      · split at hs <;> cases hs
    · split at hs
      · cases hs
      · exact hlName_inv b i _ hv hi (by unfold PField.set trunc16; exact Nat.mod_lt _ (by decide)) hok hs
  case name => exact hlName_inv b i h hv hi hd.1 hok hs
  case nameEnd =>
    have hge := skipWS_ge b i
    split at hs
    · cases hs
    · rename_i c1 hj
      have hjl := get?_lt hj
      split at hs
      · exact hlAfterColon_inv b (skipWS b i + 1) _ hv (by omega) (by exact hd) (hbOK_mono hok (by omega) (by omega)) hs
      · cases hs
  case bodyStart =>
    rcases hsk : skipLWS b i 0 with ⟨n, crl, e⟩
    rw [hsk] at hs
    cases e <;> simp only at hs <;> cases hs
    obtain ⟨_, c', hc, _⟩ := skipLWS_ok b i 0 hsk
    have h1 := get?_lt hc
    have h2 := skipLWS_ok_ge b i 0 hsk
    exact ⟨by omega, hd, hbOK_mono hok (by omega) (by omega)⟩
  case val =>
    have hge := skipToken_ge b i
    split at hs
    · cases hs
    · rename_i c1 hj
      have hjl := get?_lt hj
      exact hlValEnd_inv b (skipToken b i) _ hv (by omega) (by exact hd) (hbOK_mono hok (by omega) (by omega)) hs
  case valEnd => exact hlValEnd_inv b i h hv hi hd hok hs
  case fin => cases hs
  all_goals
    (unfold hlCont at hs
     cases hv with
     | none => cases hs
     | some v => simp only [hst] at hs; first | cases hs | (split at hs; cases hs))

/-- what a caller may legitimately pass to ParseHdrLine -/
def hlOK (b : Buf) (o : Nat) (h : Hdr) (hb : Option PHdrVals) : Prop := hlInv b o (h, hb)

/-- **L1 for ParseHdrLine** -/
theorem parseHdrLine_stable (b s : Buf) (o : Nat) (h : Hdr) (hb : Option PHdrVals) (hok : hlOK b o h hb)
    {o' : Nat} {e : Err} {h' : Hdr} {hb' : Option PHdrVals}
    (hr : parseHdrLine b o h hb = (o', e, h', hb')) (he : e ≠ .moreBytes) :
    parseHdrLine (b ++ s) o h hb = (o', e, h', hb') := by
  unfold parseHdrLine at hr ⊢
  rcases hrl : runLoop hlMachine b o (h, hb) with ⟨o1, e1, h1, hb1⟩
  rw [hrl] at hr
  simp only [Prod.mk.injEq] at hr
  obtain ⟨rfl, rfl, rfl, rfl⟩ := hr
  rw [runLoop_stableI hlMachine b s (hlInv b) (hl_invCont b) (hl_stepStable b s) (fun _ _ => rfl) o _ hok hrl he]

end Sipsp
