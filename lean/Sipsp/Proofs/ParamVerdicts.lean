/-
  Sipsp.Proofs.ParamVerdicts — property C17, the REJECTED and the SUSPENDED texts of ParseTokenParam and of the list
  wrappers ParseAllURIParams / ParseAllURIHdrs: which verdicts exist, where the returned offset points, and what the
  text before it is. Calls on a NEW object / a list object in its reset state (`Fresh`), EVERY buffer, EVERY start
  offset, EVERY option word unless a hypothesis says otherwise (the 65,535-byte limit only where `ParamSound` is used).

  The description (all positions are offsets into the buffer; `Pad`, `Lws`, `PRun`, `QBody`, `Ending`, `EndTail` are
  the predicates of `ParamSpec`, `PSParam` the grammar of accepted parameters of `ParamSound`):
  * `PVHead b flags o n0 n1` : skipped empty items, white space, a complete name `[n0, n1)`;
    `PVEq … q`               : `name [LWS] =` with the `=` at `q`;
    `PVDone … j`             : a complete item `name` / `name =` / `name = token` / `name = "quoted"` ends at `j`.
  * `PVAt b flags o i st`    : the text `[o, i)` is the beginning of a parameter after which the automaton is in state
    `st` (`init` nothing yet; `name`; `fEq` = after `name LWS`; `fVal` = after `name [LWS] = [LWS]`; `val`; `quotedVal` =
    right after the opening quote; `fSep` = after `token LWS` / a complete quoted string `[LWS]`; `fNxt` = after a
    complete item, the separator, further empty items and white space).
  * `PVRej flags st c`       : the EXPLICIT set of bytes rejected in state `st` (see its doc comment);
    `PVQBad c`               : CR, LF, DEL, control bytes other than SP / HT (rejected unescaped inside quotes);
    `PVQPre b i e`           : plain bytes and complete escape pairs (an open quoted string).
  * `PVBad b flags o p`      : `PVAt … p st` and a byte of `PVRej flags st` at `p`; or an open quoted string up to `p` and
    a `PVQBad` byte at `p`; or an open quoted string up to a backslash at `p - 1` and CR / LF at `p`.
  * `PVMore b flags o r`     : `PVAt … r st` and then linear white space cut by the end of the buffer (`EndTail`: nothing, a
    lone CR / LF, CR LF); or an open quoted string up to the end of the buffer / up to a backslash that is its last byte.

  Proved:
  (1) `tokparam_verdicts` : the only verdicts of ParseTokenParam are OK, EOH, MoreValues, MoreBytes, BadChar (never
      NoCR, Bug, …); `tokparam_verdicts_desc` adds `PVMore` / `PVBad` at the returned offset.
      `tokparam_badChar_iff` : BadChar with offset `p`  ⇔  `PVBad b flags o p` (`tokparam_badChar_sound` ⇒,
      `tokparam_badChar_complete` ⇐): an error offset always points at a byte of the reject set of the state reached,
      after a text that is the beginning of a parameter; inside quotes it points at the offending byte itself (for
      backslash + CR / LF: at the CR / LF). `tokparam_badChar_prefix_extends` : that text `[o, p)` really is a proper
      prefix of a parameter of the grammar — `b[0:p]` followed by at most five explicit bytes holds a `PSParam` at `o`;
      `tokparam_badChar_local` : every buffer with the same bytes up to and including `p` is rejected at `p` — the byte at
      `p` is the first one that cannot continue any parameter.
      `pv_skipQuoted` / `PVSq` : every outcome of SkipQuoted (offset and verdict) with the text before it;
      `pv_skipLWS_ne_noCR`, `pv_skipLWS_more` : skipLWS never reports NoCR; where it asks for more bytes.
  (2) `tokparam_trichotomy` : accepted (then `PSParam`, which fixes offset, verdict, object) / MoreBytes (then `PVMore`) /
      BadChar (then `PVBad`), told apart by the verdict (`PSAcc.pv_excl`); `tokparam_moreBytes_extends` : without the
      end-of-input option a suspended text is a proper prefix of a parameter of the grammar (explicit continuation of at
      most six bytes); `tokparam_moreBytes_prefixes` : every shorter buffer also gives MoreBytes.
  (3) `uriParamsLoop_stop_iff`, `uriHdrsLoop_stop_iff` : the wrapper stops with a verdict other than OK / MoreValues / EOH
      exactly when one of the items does: the items before it are `PSParam`s reported with MoreValues (`PVItems`), offset
      and verdict are that item's, exactly the items before it are counted, the list object is the fold of `push` over
      them (on MoreBytes with the unfinished parameter kept in the current slot: `pvParamsAfter` / `pvHdrsAfter`);
      `parseAllURIParams_badChar_iff`, `parseAllURIHdrs_badChar_iff` : BadChar ⇔ items + `PVBad` at the failing item;
      `uriParamsLoop_outcome`, `uriHdrsLoop_outcome` : offset / verdict / count of every run in terms of the first item
      not reported with MoreValues; `parseAllURIParams_verdicts`, `parseAllURIHdrs_verdicts` : OK, EOH, MoreBytes, BadChar.
  (4) `tokparam_badChar_append`, `tokparam_badChar_any_schedule`, `uriparams_any_schedule`, `urihdrs_any_schedule`,
      `uriparams_badChar_any_schedule`, `urihdrs_badChar_any_schedule`, `uriparams_badChar_append`,
      `urihdrs_badChar_append` : a rejection (offset, verdict, count, list object) is unchanged by appended bytes and by
      every chunk schedule (composition with the C03 / C02 theorems; without the end-of-input option).
  The `decide +kernel` examples at the end are tests on concrete inputs / show that the hypotheses are satisfiable.

  NOT proved here: the object returned with BadChar / MoreBytes (only offset and verdict are characterised; for
  MoreBytes the resumption theorems of C02 say what the object is good for); calls on objects that are not new; an
  equivalence for MoreBytes (only: MoreBytes ⇒ `PVMore` ⇒ continuation exists); the continuation theorem with the
  end-of-input option; the continuations are parameters of `PSParam` (what ParseTokenParam accepts: `GParam` widened by
  the four shapes documented in `ParamSound`), not always of the narrower `GParam` — e.g. after `name =` the
  continuation CR LF x gives `name = <end of header>`.
  Behaviour worth knowing (no violation of the property was found; each point is pinned by a theorem / test above):
  * after `name LWS` and after a complete value, without `POptTokSpTermF`, the first byte of a second token is rejected
    although it is an allowed byte (`PVRej … fEq / fSep`): it is the first byte that cannot continue the parameter;
  * at the very start of a call the terminator is not special (`PVRej … init`): `?x` in URI-parameter mode and `,x` with
    the comma terminator are rejected at offset 0 (known, see C17);
  * inside a quoted string the error is reported by SkipQuoted: the object keeps the state "inside quotes" (it is not
    put into its error state), and `\` + CR / LF is reported at the CR / LF;
  * MoreBytes is reported at the START of the unfinished white space (not at the end of the buffer), and at the
    backslash when a backslash is the last byte.
-/
import Sipsp.Proofs.ParamSound
import Sipsp.Proofs.ShiftParams

namespace Sipsp

/-! ### lexical layer: `skipLWS` never reports "no CR"; where it asks for more bytes -/

theorem pv_skipCRLF_ne_noCR {b : Buf} {i n crl : Nat} {c : UInt8} (hb : b[i]? = some c) (hc : isCRLFch c = true) :
    skipCRLF b i ≠ (n, crl, .noCR) := by
  intro h
  unfold isCRLFch at hc
  simp only [Bool.or_eq_true, beq_iff_eq] at hc
  unfold skipCRLF at h
  rw [hb] at h
  cases h1 : b[i+1]? with
  | none =>
    rw [h1] at h
    rcases hc with rfl | rfl <;> simp at h
  | some c1 =>
    rw [h1] at h
    rcases hc with rfl | rfl
    · simp only [beq_self_eq_true, ↓reduceIte] at h
      split at h <;> cases h
    · simp at h

theorem pv_skipLWS_ne_noCR (b : Buf) (i flags : Nat) {n crl : Nat} : skipLWS b i flags ≠ (n, crl, .noCR) := by
  intro h
  fun_induction skipLWS b i flags with
  | case1 i hb => cases h
  | case2 i c hb hws ih => exact ih h
  | case3 i c hb hws hcr n' crl' hs hb2 hfl => cases h
  | case4 i c hb hws hcr n' crl' hs hb2 hfl => cases h
  | case5 i c hb hws hcr n' crl' hs c2 hb2 hws2 ih => exact ih h
  | case6 i c hb hws hcr n' crl' hs c2 hb2 hws2 => cases h
  | case7 i c hb hws hcr n' crl' e' hne hs =>
    cases h
    exact pv_skipCRLF_ne_noCR hb hcr hs
  | case8 i c hb hws hcr => cases h

/-- where `skipLWS` asks for more bytes (any option word): linear white space up to a point where the input ends
    (nothing left, a lone CR / LF as the last byte, or CR LF as the last two bytes) -/
theorem pv_skipLWS_more (b : Buf) (i flags : Nat) {n crl : Nat} (h : skipLWS b i flags = (n, crl, .moreBytes)) :
    ∃ q, Lws b i q ∧ EndTail b q := by
  fun_induction skipLWS b i flags with
  | case1 i hb => exact ⟨i, Lws.nil i, EndTail.none i hb⟩
  | case2 i c hb hws ih =>
    obtain ⟨q, h1, h2⟩ := ih h
    exact ⟨q, Lws.ws i q c hb hws h1, h2⟩
  | case3 i c hb hws hcr n' crl' hs hb2 hfl => cases h
  | case4 i c hb hws hcr n' crl' hs hb2 hfl =>
    have he := (ps_skipCRLF_eol hs).1
    refine ⟨i, Lws.nil i, ?_⟩
    cases he with
    | crlf h0 h1 => exact EndTail.crlf i h0 h1 hb2
    | cr c1 h0 h1 _ => rw [h1] at hb2; cases hb2
    | lf c1 h0 h1 => rw [h1] at hb2; cases hb2
  | case5 i c hb hws hcr n' crl' hs c2 hb2 hws2 ih =>
    obtain ⟨q, h1, h2⟩ := ih h
    exact ⟨q, Lws.fold i n' q c2 (ps_skipCRLF_eol hs).1 hb2 hws2 h1, h2⟩
  | case6 i c hb hws hcr n' crl' hs c2 hb2 hws2 => cases h
  | case7 i c hb hws hcr n' crl' e' hne hs =>
    cases h
    have hp := skipCRLF_moreBytes_pos hs
    refine ⟨i, Lws.nil i, EndTail.one i c hb hcr ?_⟩
    unfold skipCRLF at hs
    cases h1 : b[i+1]? with
    | none => rfl
    | some c1 =>
      rw [h1, hb] at hs
      simp only at hs
      repeat' (split at hs)
      all_goals cases hs
  | case8 i c hb hws hcr => cases h

/-! ### `SkipQuoted`, every outcome -/

/-- a byte that may not stand unescaped inside a quoted string: CR, LF, DEL or a control byte other than SP / HT -/
def PVQBad (c : UInt8) : Prop := c = 10 ∨ c = 13 ∨ c = 127 ∨ (c < 33 ∧ c ≠ 32 ∧ c ≠ 9)

/-- the inside of a quoted string that is still open: plain bytes and complete escape pairs from `i` to `e` -/
inductive PVQPre (b : Buf) : Nat → Nat → Prop
  | nil (i : Nat) : PVQPre b i i
  | plain (i e : Nat) (c : UInt8) : b[i]? = some c → QPlain c → PVQPre b (i + 1) e → PVQPre b i e
  | esc (i e : Nat) (c1 : UInt8) : b[i]? = some 92 → b[i + 1]? = some c1 → isCRLFch c1 = false →
      PVQPre b (i + 2) e → PVQPre b i e

theorem PVQPre.le {b : Buf} {i e : Nat} (h : PVQPre b i e) : i ≤ e := by
  induction h with
  | nil i => exact Nat.le_refl _
  | plain i e c _ _ _ ih => omega
  | esc i e c1 _ _ _ _ ih => omega

/-- everything `SkipQuoted` (started at `i`, after the opening quote) can return: offset and verdict -/
inductive PVSq (b : Buf) (i : Nat) : Nat → Err → Prop
  | ok (n : Nat) : QBody b i n → PVSq b i n .ok
  | bad (n : Nat) (c : UInt8) : PVQPre b i n → b[n]? = some c → PVQBad c → PVSq b i n .badChar
  | badEsc (m : Nat) (c : UInt8) : PVQPre b i m → b[m]? = some 92 → b[m + 1]? = some c → isCRLFch c = true →
      PVSq b i (m + 1) .badChar
  | more (n : Nat) : PVQPre b i n → b[n]? = none → PVSq b i n .moreBytes
  | moreEsc (n : Nat) : PVQPre b i n → b[n]? = some 92 → b[n + 1]? = none → PVSq b i n .moreBytes

theorem PVSq.cons_plain {b : Buf} {i n : Nat} {e : Err} {c : UInt8} (h : PVSq b (i + 1) n e) (hb : b[i]? = some c)
    (hq : QPlain c) : PVSq b i n e := by
  cases h with
  | ok n' hqb => exact PVSq.ok n (QBody.plain i n c hb hq hqb)
  | bad n' c' hp hc hbad => exact PVSq.bad n c' (PVQPre.plain i n c hb hq hp) hc hbad
  | badEsc m c' hp h92 hc hcr => exact PVSq.badEsc m c' (PVQPre.plain i m c hb hq hp) h92 hc hcr
  | more n' hp hn => exact PVSq.more n (PVQPre.plain i n c hb hq hp) hn
  | moreEsc n' hp h92 hn => exact PVSq.moreEsc n (PVQPre.plain i n c hb hq hp) h92 hn

theorem PVSq.cons_esc {b : Buf} {i n : Nat} {e : Err} {c1 : UInt8} (h : PVSq b (i + 2) n e) (hb : b[i]? = some 92)
    (h1 : b[i + 1]? = some c1) (hcr : isCRLFch c1 = false) : PVSq b i n e := by
  cases h with
  | ok n' hqb => exact PVSq.ok n (QBody.esc i n c1 hb h1 hcr hqb)
  | bad n' c' hp hc hbad => exact PVSq.bad n c' (PVQPre.esc i n c1 hb h1 hcr hp) hc hbad
  | badEsc m c' hp h92 hc hcr' => exact PVSq.badEsc m c' (PVQPre.esc i m c1 hb h1 hcr hp) h92 hc hcr'
  | more n' hp hn => exact PVSq.more n (PVQPre.esc i n c1 hb h1 hcr hp) hn
  | moreEsc n' hp h92 hn => exact PVSq.moreEsc n (PVQPre.esc i n c1 hb h1 hcr hp) h92 hn

theorem pv_sq (b : Buf) {n : Nat} {e : Err} {u : Unit} :
    ∀ (k i : Nat), b.size - i = k → runLoop sqMachine b i () = (n, e, u) → PVSq b i n e := by
  intro k
  induction k using Nat.strongRecOn with
  | _ k ih =>
    intro i hk hr
    cases hb : b[i]? with
    | none =>
      rw [runLoop_none sqMachine () hb] at hr
      simp only [sqMachine, Prod.mk.injEq] at hr
      rw [← hr.1, ← hr.2.1]
      exact PVSq.more i (PVQPre.nil i) hb
    | some c =>
      have hlt := get?_lt hb
      by_cases h34 : (c == 34) = true
      · have hstep : sqMachine.step b i c () = .done (i + 1) .ok () := by
          show sqStep b i c () = _
          unfold sqStep; simp only [h34, ↓reduceIte]
        rw [runLoop_done sqMachine hb hstep] at hr
        simp only [Prod.mk.injEq] at hr
        rw [← hr.1, ← hr.2.1]
        have : c = 34 := by simpa using h34
        rw [this] at hb
        exact PVSq.ok _ (QBody.close i hb)
      · by_cases h92 : (c == 92) = true
        · have e92 : c = 92 := by simpa using h92
          rw [e92] at hb
          cases h1 : b[i + 1]? with
          | none =>
            have hstep : sqMachine.step b i 92 () = .done i .moreBytes () := by
              show sqStep b i 92 () = _
              unfold sqStep; rw [h1]; rfl
            rw [runLoop_done sqMachine hb hstep] at hr
            simp only [Prod.mk.injEq] at hr
            rw [← hr.1, ← hr.2.1]
            exact PVSq.moreEsc i (PVQPre.nil i) hb h1
          | some c1 =>
            by_cases hcr : isCRLFch c1 = true
            · have hstep : sqMachine.step b i 92 () = .done (i + 1) .badChar () := by
                show sqStep b i 92 () = _
                unfold sqStep; rw [h1]; simp [hcr]
              rw [runLoop_done sqMachine hb hstep] at hr
              simp only [Prod.mk.injEq] at hr
              rw [← hr.1, ← hr.2.1]
              exact PVSq.badEsc i c1 (PVQPre.nil i) hb h1 hcr
            · have hcr' := ps_not_true hcr
              have hstep : sqMachine.step b i 92 () = .cont (i + 2) () := by
                show sqStep b i 92 () = _
                unfold sqStep; rw [h1]; simp [hcr']
              rw [runLoop_cont sqMachine hb hstep, if_pos (by omega)] at hr
              have := get?_lt h1
              exact (ih (b.size - (i + 2)) (by omega) (i + 2) rfl hr).cons_esc hb h1 hcr'
        · by_cases h3 : (c == 10 || c == 13 || c == 127) = true
          · have hstep : sqMachine.step b i c () = .done i .badChar () := by
              show sqStep b i c () = _
              unfold sqStep; simp only [h34, h92, h3, Bool.false_eq_true, ↓reduceIte]
            rw [runLoop_done sqMachine hb hstep] at hr
            simp only [Prod.mk.injEq] at hr
            rw [← hr.1, ← hr.2.1]
            refine PVSq.bad i c (PVQPre.nil i) hb ?_
            simp only [Bool.or_eq_true, beq_iff_eq] at h3
            rcases h3 with (h | h) | h
            · exact Or.inl h
            · exact Or.inr (Or.inl h)
            · exact Or.inr (Or.inr (Or.inl h))
          · by_cases h4 : (decide (c < 33) && c != 32 && c != 9) = true
            · have hstep : sqMachine.step b i c () = .done i .badChar () := by
                show sqStep b i c () = _
                unfold sqStep; simp only [h34, h92, h3, h4, Bool.false_eq_true, ↓reduceIte]
              rw [runLoop_done sqMachine hb hstep] at hr
              simp only [Prod.mk.injEq] at hr
              rw [← hr.1, ← hr.2.1]
              refine PVSq.bad i c (PVQPre.nil i) hb (Or.inr (Or.inr (Or.inr ?_)))
              have h4'' : (c < 33 ∧ ¬c = 32) ∧ ¬c = 9 := by simpa using h4
              exact ⟨h4''.1.1, h4''.1.2, h4''.2⟩
            · have hq : QPlain c := by
                have h3' := ps_not_true h3
                have h4' := ps_not_true h4
                simp only [Bool.or_eq_false_iff, beq_eq_false_iff_ne, ne_eq] at h3'
                refine ⟨by simpa using h34, by simpa using h92, h3'.1.1, h3'.1.2, h3'.2, ?_⟩
                intro hc
                simp only [hc, decide_true, Bool.true_and, Bool.and_eq_false_iff, bne_eq_false_iff_eq] at h4'
                exact h4'
              rw [runLoop_cont sqMachine hb (by exact sqStep_plain hq), if_pos (by omega)] at hr
              exact (ih (b.size - (i + 1)) (by omega) (i + 1) rfl hr).cons_plain hb hq

/-- [EXPORT C17] **every outcome of `SkipQuoted`**: `OK` after the closing quote of a well-formed body; `BadChar` AT a byte that may
    not stand unescaped (CR, LF, DEL, control bytes) or at a CR / LF that follows a backslash; `MoreBytes` at the end
    of the buffer or at a backslash that is the last byte — always after plain bytes and complete escape pairs -/
theorem pv_skipQuoted (b : Buf) (i : Nat) : PVSq b i (skipQuoted b i).1 (skipQuoted b i).2 := by
  unfold skipQuoted
  rcases hr : runLoop sqMachine b i () with ⟨o, e, u⟩
  exact pv_sq b _ i rfl hr

/-! ### the text read so far, by state: partial parameters -/

/-- after skipped empty items and linear white space, a complete NAME `[n0, n1)`: its first byte is an allowed byte
    other than the separator (at the start of a call the terminator is not special), the others are `PChar`s -/
def PVHead (b : Buf) (flags o n0 n1 : Nat) : Prop :=
  ∃ t c0, Pad b (tpSep flags) o t ∧ Lws b t n0 ∧ b[n0]? = some c0 ∧ tokAllowedChar c0 flags = true ∧
    c0 ≠ tpSep flags ∧ PRun b flags (n0 + 1) n1 ∧ n0 < n1

/-- `name [LWS] =`, the `=` at `q` -/
def PVEq (b : Buf) (flags o q : Nat) : Prop :=
  ∃ n0 n1, PVHead b flags o n0 n1 ∧ Lws b n1 q ∧ b[q]? = some 61

/-- a complete item `name`, `name =`, `name = token`, `name = "quoted"` ends at `j` -/
inductive PVDone (b : Buf) (flags o : Nat) : Nat → Prop
  | name (n0 n1 : Nat) : PVHead b flags o n0 n1 → PVDone b flags o n1
  | empty (q : Nat) : PVEq b flags o q → PVDone b flags o (q + 1)
  | tok (q v0 v1 : Nat) : PVEq b flags o q → Lws b (q + 1) v0 → PRun b flags v0 v1 → v0 < v1 → PVDone b flags o v1
  | quo (q v0 qe : Nat) : PVEq b flags o q → Lws b (q + 1) v0 → b[v0]? = some 34 → QBody b (v0 + 1) qe →
      PVDone b flags o qe

/-- **the text `[o, i)` is the beginning of a parameter**, and the automaton is in state `st` after it:
    `init` nothing but empty items and white space; `name` inside / right after a name; `fEq` after `name LWS`;
    `fVal` after `name [LWS] = [LWS]`; `val` inside / right after a token value; `quotedVal` right after the opening
    quote; `fSep` after `token LWS` or after a complete quoted string `[LWS]`; `fNxt` after a complete item, the
    separator, further empty items and white space. -/
inductive PVAt (b : Buf) (flags o : Nat) : Nat → TPState → Prop
  | init (t i : Nat) : Pad b (tpSep flags) o t → Lws b t i → PVAt b flags o i .init
  | name (n0 i : Nat) : PVHead b flags o n0 i → PVAt b flags o i .name
  | fEq (n0 n1 i : Nat) : PVHead b flags o n0 n1 → Lws b n1 i → n1 < i → PVAt b flags o i .fEq
  | fVal (q i : Nat) : PVEq b flags o q → Lws b (q + 1) i → PVAt b flags o i .fVal
  | val (q v0 i : Nat) : PVEq b flags o q → Lws b (q + 1) v0 → PRun b flags v0 i → v0 < i → PVAt b flags o i .val
  | quotedVal (q v0 : Nat) : PVEq b flags o q → Lws b (q + 1) v0 → b[v0]? = some 34 →
      PVAt b flags o (v0 + 1) .quotedVal
  | fSepTok (q v0 v1 i : Nat) : PVEq b flags o q → Lws b (q + 1) v0 → PRun b flags v0 v1 → v0 < v1 → Lws b v1 i →
      v1 < i → PVAt b flags o i .fSep
  | fSepQuo (q v0 qe i : Nat) : PVEq b flags o q → Lws b (q + 1) v0 → b[v0]? = some 34 → QBody b (v0 + 1) qe →
      Lws b qe i → PVAt b flags o i .fSep
  | fNxt (j s t i : Nat) : PVDone b flags o j → Lws b j s → b[s]? = some (tpSep flags) →
      Pad b (tpSep flags) (s + 1) t → Lws b t i → PVAt b flags o i .fNxt

/-- **the bytes that are rejected in each state** (explicit sets):
    * `init`: not allowed, not white space / line end, not the separator;
    * `name`: `BadCh` (not allowed, not white space, not separator, not terminator) and not `=`;
    * `fEq` (after `name LWS`): not white space, not `=`, not separator, not terminator, and — unless the white-space
      terminator `POptTokSpTermF` is set — ANY other byte, allowed or not (a second token);
    * `fVal`: `BadCh` and not `"` (so: a second `=`, …);
    * `val`, `fNxt`: `BadCh`;
    * `fSep` (after a value): like `fEq` without the `=` clause. -/
def PVRej (flags : Nat) (st : TPState) (c : UInt8) : Prop :=
  match st with
  | .init => tokAllowedChar c flags = false ∧ isLWSch c = false ∧ c ≠ tpSep flags
  | .name => BadCh flags c ∧ c ≠ 61
  | .fEq => isLWSch c = false ∧ c ≠ 61 ∧ c ≠ tpSep flags ∧ (c = tpTerm flags → tpTerm flags = 0) ∧
      (tokAllowedChar c flags = true → hasFlag flags POptTokSpTermF = false)
  | .fVal => BadCh flags c ∧ c ≠ 34
  | .val => BadCh flags c
  | .fSep => isLWSch c = false ∧ c ≠ tpSep flags ∧ (c = tpTerm flags → tpTerm flags = 0) ∧
      (tokAllowedChar c flags = true → hasFlag flags POptTokSpTermF = false)
  | .fNxt => BadCh flags c
  | _ => False

/-- **`BadChar` at `p`**: the text `[o, p)` is the beginning of a parameter and the byte at `p` is one of those rejected
    after it — outside quotes (`byte`), a byte that may not stand in a quoted string (`quoted`), or a CR / LF after a
    backslash (`quotedEsc`: the error offset is that of the CR / LF, not of the backslash) -/
inductive PVBad (b : Buf) (flags o p : Nat) : Prop
  | byte (st : TPState) (c : UInt8) : PVAt b flags o p st → b[p]? = some c → PVRej flags st c → PVBad b flags o p
  | quoted (q v0 : Nat) (c : UInt8) : PVEq b flags o q → Lws b (q + 1) v0 → b[v0]? = some 34 →
      PVQPre b (v0 + 1) p → b[p]? = some c → PVQBad c → PVBad b flags o p
  | quotedEsc (q v0 m : Nat) (c : UInt8) : PVEq b flags o q → Lws b (q + 1) v0 → b[v0]? = some 34 →
      PVQPre b (v0 + 1) m → b[m]? = some 92 → p = m + 1 → b[p]? = some c → isCRLFch c = true → PVBad b flags o p

/-- **`MoreBytes` at `r`**: the text `[o, r)` is the beginning of a parameter and the rest of the buffer is linear white
    space cut short by the end of the buffer (`lws`), or `r` is the end of the buffer / a backslash that is the last
    byte, inside an open quoted string (`quoted`, `quotedEsc`) -/
inductive PVMore (b : Buf) (flags o r : Nat) : Prop
  | lws (st : TPState) (q : Nat) : PVAt b flags o r st → st ≠ .quotedVal → Lws b r q → EndTail b q → PVMore b flags o r
  | quoted (q v0 : Nat) : PVEq b flags o q → Lws b (q + 1) v0 → b[v0]? = some 34 → PVQPre b (v0 + 1) r →
      b[r]? = none → PVMore b flags o r
  | quotedEsc (q v0 : Nat) : PVEq b flags o q → Lws b (q + 1) v0 → b[v0]? = some 34 → PVQPre b (v0 + 1) r →
      b[r]? = some 92 → b[r + 1]? = none → PVMore b flags o r

theorem Pad.pv_snoc {b : Buf} {sep : UInt8} {i t s : Nat} (h : Pad b sep i t) (hl : Lws b t s)
    (hs : b[s]? = some sep) : Pad b sep i (s + 1) := by
  induction h with
  | nil i => exact Pad.item i s (s + 1) hl hs (Pad.nil _)
  | item i s' n hl' hs' _ ih => exact Pad.item i s' (s + 1) hl' hs' (ih hl)

theorem PRun.pv_snoc {b : Buf} {flags i j : Nat} {c : UInt8} (h : PRun b flags i j) (hb : b[j]? = some c)
    (hc : PChar flags c) : PRun b flags i (j + 1) := by
  intro k h1 h2
  by_cases hk : k = j
  · subst hk; exact ⟨c, hb, hc⟩
  · exact h k h1 (by omega)

theorem PVHead.pv_snoc {b : Buf} {flags o n0 n1 : Nat} {c : UInt8} (h : PVHead b flags o n0 n1) (hb : b[n1]? = some c)
    (hc : PChar flags c) : PVHead b flags o n0 (n1 + 1) := by
  obtain ⟨t, c0, h1, h2, h3, h4, h5, h6, h7⟩ := h
  exact ⟨t, c0, h1, h2, h3, h4, h5, h6.pv_snoc hb hc, by omega⟩

/-! inversion of `PVAt`, one lemma per state -/

theorem PVAt.inv_init {b : Buf} {flags o i : Nat} (h : PVAt b flags o i .init) :
    ∃ t, Pad b (tpSep flags) o t ∧ Lws b t i := by
  cases h; exact ⟨_, by assumption, by assumption⟩

theorem PVAt.inv_name {b : Buf} {flags o i : Nat} (h : PVAt b flags o i .name) : ∃ n0, PVHead b flags o n0 i := by
  cases h; exact ⟨_, by assumption⟩

theorem PVAt.inv_fEq {b : Buf} {flags o i : Nat} (h : PVAt b flags o i .fEq) :
    ∃ n0 n1, PVHead b flags o n0 n1 ∧ Lws b n1 i ∧ n1 < i := by
  cases h; exact ⟨_, _, by assumption, by assumption, by assumption⟩

theorem PVAt.inv_fVal {b : Buf} {flags o i : Nat} (h : PVAt b flags o i .fVal) :
    ∃ q, PVEq b flags o q ∧ Lws b (q + 1) i := by
  cases h; exact ⟨_, by assumption, by assumption⟩

theorem PVAt.inv_val {b : Buf} {flags o i : Nat} (h : PVAt b flags o i .val) :
    ∃ q v0, PVEq b flags o q ∧ Lws b (q + 1) v0 ∧ PRun b flags v0 i ∧ v0 < i := by
  cases h; exact ⟨_, _, by assumption, by assumption, by assumption, by assumption⟩

theorem PVAt.inv_quotedVal {b : Buf} {flags o i : Nat} (h : PVAt b flags o i .quotedVal) :
    ∃ q v0, PVEq b flags o q ∧ Lws b (q + 1) v0 ∧ b[v0]? = some 34 ∧ i = v0 + 1 := by
  cases h; exact ⟨_, _, by assumption, by assumption, by assumption, rfl⟩

theorem PVAt.inv_fSep {b : Buf} {flags o i : Nat} (h : PVAt b flags o i .fSep) :
    ∃ j, PVDone b flags o j ∧ Lws b j i := by
  cases h
  · exact ⟨_, PVDone.tok _ _ _ (by assumption) (by assumption) (by assumption) (by assumption), by assumption⟩
  · exact ⟨_, PVDone.quo _ _ _ (by assumption) (by assumption) (by assumption) (by assumption), by assumption⟩

theorem PVAt.inv_fNxt {b : Buf} {flags o i : Nat} (h : PVAt b flags o i .fNxt) :
    ∃ j s t, PVDone b flags o j ∧ Lws b j s ∧ b[s]? = some (tpSep flags) ∧ Pad b (tpSep flags) (s + 1) t ∧ Lws b t i := by
  cases h; exact ⟨_, _, _, by assumption, by assumption, by assumption, by assumption, by assumption⟩

/-- the state after linear white space -/
def pvNext : TPState → TPState
  | .name => .fEq
  | .val => .fSep
  | s => s

theorem PVAt.lws_next {b : Buf} {flags o i n : Nat} {st : TPState} (h : PVAt b flags o i st) (hl : Lws b i n)
    (hlt : i < n) (hnq : st ≠ .quotedVal) :
    PVAt b flags o n (pvNext st) := by
  cases h with
  | init t i hp hl' => exact PVAt.init t n hp (hl'.ps_trans hl)
  | name n0 i hh => exact PVAt.fEq n0 i n hh hl hlt
  | fEq n0 n1 i hh hl' hlt' => exact PVAt.fEq n0 n1 n hh (hl'.ps_trans hl) (by omega)
  | fVal q i he hl' => exact PVAt.fVal q n he (hl'.ps_trans hl)
  | val q v0 i he hl' hr hv => exact PVAt.fSepTok q v0 i n he hl' hr hv hl hlt
  | quotedVal q v0 he hl' h34 => exact absurd rfl hnq
  | fSepTok q v0 v1 i he hl' hr hv hl2 hlt2 => exact PVAt.fSepTok q v0 v1 n he hl' hr hv (hl2.ps_trans hl) (by omega)
  | fSepQuo q v0 qe i he hl' h34 hq hl2 => exact PVAt.fSepQuo q v0 qe n he hl' h34 hq (hl2.ps_trans hl)
  | fNxt j s t i hd hl1 hs hp hl2 => exact PVAt.fNxt j s t n hd hl1 hs hp (hl2.ps_trans hl)

/-! ### one iteration keeps the description -/

/-- what a result means: an accepting verdict, or `MoreBytes` / `BadChar` with their descriptions; nothing else -/
def PVQ (b : Buf) (flags o r : Nat) (e : Err) : Prop :=
  e = .ok ∨ e = .eoh ∨ e = .moreValues ∨ (e = .moreBytes ∧ PVMore b flags o r) ∨ (e = .badChar ∧ PVBad b flags o r)

theorem PVQ.ok {b : Buf} {flags o r : Nat} : PVQ b flags o r .ok := Or.inl rfl
theorem PVQ.eoh {b : Buf} {flags o r : Nat} : PVQ b flags o r .eoh := Or.inr (Or.inl rfl)
theorem PVQ.mv {b : Buf} {flags o r : Nat} : PVQ b flags o r .moreValues := Or.inr (Or.inr (Or.inl rfl))
theorem PVQ.more {b : Buf} {flags o r : Nat} (h : PVMore b flags o r) : PVQ b flags o r .moreBytes :=
  Or.inr (Or.inr (Or.inr (Or.inl ⟨rfl, h⟩)))
theorem PVQ.bad {b : Buf} {flags o r : Nat} (h : PVBad b flags o r) : PVQ b flags o r .badChar :=
  Or.inr (Or.inr (Or.inr (Or.inr ⟨rfl, h⟩)))

def PVStepOK (b : Buf) (flags o : Nat) : Step PTokParam → Prop
  | .cont i' p' => PVAt b flags o i' p'.state
  | .done o' e _ => PVQ b flags o o' e

theorem PVAt.live {b : Buf} {flags o i : Nat} {st : TPState} (h : PVAt b flags o i st) :
    st ≠ .err ∧ st ≠ .fin ∧ st ≠ .initNxtVal := by
  cases h <;> decide

theorem pv_tpEOH_eoh (p : PTokParam) (n crl : Nat) (h : p.state ≠ .quotedVal ∧ p.state ≠ .err ∧ p.state ≠ .fin) :
    (tpEOH p n crl).2.1 = .eoh := by
  unfold tpEOH
  cases hst : p.state with
  | quotedVal => exact absurd hst h.1
  | err => exact absurd hst h.2.1
  | fin => exact absurd hst h.2.2
  | _ => rfl

theorem pv_tpMoreBytes_quoted (b : Buf) (flags : Nat) (p : PTokParam) (n : Nat) (hst : p.state = .quotedVal) :
    tpMoreBytes b flags p n = (n, .moreBytes, p) := by
  unfold tpMoreBytes
  split
  · simp only [hst]
  · rfl

theorem pv_tpMoreBytes (b : Buf) (flags : Nat) (p : PTokParam) (i : Nat)
    (h : p.state ≠ .quotedVal ∧ p.state ≠ .err ∧ p.state ≠ .fin) :
    (tpMoreBytes b flags p i).2.1 = .eoh ∨ tpMoreBytes b flags p i = (i, .moreBytes, p) := by
  unfold tpMoreBytes
  by_cases hf : hasFlag flags POptInputEndF = true
  · left
    rw [if_pos hf]
    cases hst : p.state with
    | quotedVal => exact absurd hst h.1
    | err => exact absurd hst h.2.1
    | fin => exact absurd hst h.2.2
    | name =>
      exact pv_tpEOH_eoh _ _ _ (by
        show p.state ≠ _ ∧ p.state ≠ _ ∧ p.state ≠ _
        rw [hst]; decide)
    | val =>
      exact pv_tpEOH_eoh _ _ _ (by
        show p.state ≠ _ ∧ p.state ≠ _ ∧ p.state ≠ _
        rw [hst]; decide)
    | _ => exact pv_tpEOH_eoh _ _ _ h
  · right
    rw [if_neg hf]

theorem pv_term_imp {flags : Nat} {c : UInt8} (ht : (c == tpTerm flags && tpTerm flags != 0) = false) :
    c = tpTerm flags → tpTerm flags = 0 := by
  intro hc
  rw [← hc] at ht ⊢
  simpa using ht

theorem pv_spTermSep_ok (b : Buf) (offs i : Nat) (p : PTokParam) :
    ∃ o' p', tpSpTermSep b offs i p = .done o' .ok p' := by
  unfold tpSpTermSep
  simp only
  repeat' split
  all_goals exact ⟨_, _, rfl⟩

theorem pv_spTermEq_ok (offs i : Nat) (p : PTokParam) : ∃ o' p', tpSpTermEq offs i p = .done o' .ok p' := by
  unfold tpSpTermEq
  split <;> exact ⟨_, _, rfl⟩

/-- the white-space pattern keeps the description: the loop continues after linear white space, or stops with
    `EOH` / `MoreBytes`; never with `NoCR` -/
theorem pv_lws_step {b : Buf} {flags o i : Nat} {c : UInt8} {p : PTokParam} (upd : PTokParam → PTokParam)
    (hb : b[i]? = some c) (hl : isLWSch c = true) (hP : PVAt b flags o i p.state)
    (hne : p.state ≠ .quotedVal ∧ p.state ≠ .err ∧ p.state ≠ .fin)
    (hupd : (upd p).state = pvNext p.state) :
    PVStepOK b flags o (tpLWS b flags i p upd) := by
  have hupd_ne : (upd p).state ≠ .quotedVal ∧ (upd p).state ≠ .err ∧ (upd p).state ≠ .fin := by
    obtain ⟨h1, h2, h3⟩ := hne
    rw [hupd]
    cases hst : p.state <;> first
      | exact absurd hst h1
      | exact absurd hst h2
      | exact absurd hst h3
      | decide
  rcases hsk : skipLWS b i flags with ⟨n, crl, r⟩
  rcases skipLWS_verdicts b i flags hsk with rfl | rfl | rfl | rfl
  · rw [tpLWS_ok p upd hsk]
    show PVAt b flags o n (upd p).state
    rw [hupd]
    have hlw := ps_skipLWS_ok_lws b i flags hsk
    obtain ⟨_, c', hc', hl'⟩ := skipLWS_ok b i flags hsk
    have hlt : i < n := by
      have := hlw.le
      rcases Nat.lt_or_ge i n with h | h
      · exact h
      · have : i = n := by omega
        subst this
        rw [hb] at hc'; cases hc'
        rw [hl] at hl'; cases hl'
    exact hP.lws_next hlw hlt hne.1
  · rw [tpLWS_eoh p upd hsk]
    show PVQ b flags o _ _
    exact Or.inr (Or.inl (pv_tpEOH_eoh _ _ _ hupd_ne))
  · exact absurd hsk (pv_skipLWS_ne_noCR b i flags)
  · rw [tpLWS_more p upd hsk]
    rcases pv_tpMoreBytes b flags p i hne with h | h
    · show PVQ b flags o _ _
      exact Or.inr (Or.inl h)
    · rw [h]
      show PVQ b flags o i .moreBytes
      obtain ⟨q, hq, hend⟩ := pv_skipLWS_more b i flags hsk
      exact PVQ.more (PVMore.lws p.state q hP hne.1 hq hend)

theorem pv_badCh {flags : Nat} {c : UInt8} (hal : tokAllowedChar c flags = false) (hl : isLWSch c = false)
    (hs : (c == tpSep flags) = false) (ht : (c == tpTerm flags && tpTerm flags != 0) = false) : BadCh flags c :=
  ⟨hal, hl, by simpa using hs, pv_term_imp ht⟩

/-- **one iteration of ParseTokenParam keeps the description of the text read so far**, and when it stops with
    `BadChar` / `MoreBytes` the description of the rejected / suspended text holds at the returned offset -/
theorem pv_step {b : Buf} {flags o offs i : Nat} {c : UInt8} {p : PTokParam} (hb : b[i]? = some c)
    (hP : PVAt b flags o i p.state) : PVStepOK b flags o (tpStep flags offs b i c p) := by
  cases hst : p.state with
  | init =>
    have hP' := hP
    rw [hst] at hP'
    have hstart : p.state.isStart := Or.inl hst
    by_cases hl : isLWSch c = true
    · rw [tpStep_start_lws hstart hl]
      exact pv_lws_step id hb hl hP (by rw [hst]; decide) (by rw [hst]; exact hst)
    · have hl' := ps_not_true hl
      obtain ⟨t, hp, hlw⟩ := hP'.inv_init
      by_cases hs : (c == tpSep flags) = true
      · rw [tpStep_start_sep hstart hl' hs]
        have hc : c = tpSep flags := by simpa using hs
        rw [hc] at hb
        show PVAt b flags o (i + 1) p.state
        rw [hst]
        exact PVAt.init (i + 1) (i + 1) (hp.pv_snoc hlw hb) (Lws.nil _)
      · have hs' := ps_not_true hs
        by_cases hal : tokAllowedChar c flags = true
        · rw [tpStep_init_char (Or.inl hst) hl' hs' hal]
          show PVAt b flags o (i + 1) .name
          exact PVAt.name i (i + 1)
            ⟨t, c, hp, hlw, hb, hal, by simpa using hs', (fun k h1 h2 => by omega), by omega⟩
        · rw [tpStep_start_bad (Or.inl hst) hl' hs' (ps_not_true hal)]
          exact PVQ.bad (PVBad.byte .init c hP' hb ⟨ps_not_true hal, hl', by simpa using hs'⟩)
  | name =>
    have hP' := hP
    rw [hst] at hP'
    obtain ⟨n0, hh⟩ := hP'.inv_name
    by_cases hl : isLWSch c = true
    · rw [tpStep_name_lws hst hl]
      exact pv_lws_step _ hb hl hP (by rw [hst]; decide) (by rw [hst]; rfl)
    · have hl' := ps_not_true hl
      by_cases h61 : (c == 61) = true
      · rw [tpStep_name_eq hst hl' h61]
        have e61 : c = 61 := by simpa using h61
        rw [e61] at hb
        show PVAt b flags o (i + 1) .fVal
        exact PVAt.fVal i (i + 1) ⟨n0, i, hh, Lws.nil i, hb⟩ (Lws.nil _)
      · have h61' := ps_not_true h61
        by_cases ht : (c == tpTerm flags && tpTerm flags != 0) = true
        · rw [tpStep_name_term hst hl' h61' ht]
          exact PVQ.ok
        · have ht' := ps_not_true ht
          by_cases hs : (c == tpSep flags) = true
          · rw [tpStep_name_sep hst hl' h61' ht' hs]
            have hc : c = tpSep flags := by simpa using hs
            rw [hc] at hb
            show PVAt b flags o (i + 1) .fNxt
            exact PVAt.fNxt i i (i + 1) (i + 1) (PVDone.name n0 i hh) (Lws.nil i) hb (Pad.nil _) (Lws.nil _)
          · have hs' := ps_not_true hs
            by_cases hal : tokAllowedChar c flags = true
            · rw [tpStep_name_char hst hl' h61' ht' hs' hal]
              show PVAt b flags o (i + 1) p.state
              rw [hst]
              exact PVAt.name n0 (i + 1) (hh.pv_snoc hb (ps_pchar hal hs' ht'))
            · rw [tpStep_name_bad hst hl' h61' ht' hs' (ps_not_true hal)]
              exact PVQ.bad (PVBad.byte .name c hP' hb
                ⟨pv_badCh (ps_not_true hal) hl' hs' ht', by simpa using h61'⟩)
  | fEq =>
    have hP' := hP
    rw [hst] at hP'
    obtain ⟨n0, n1, hh, hlw, hlt⟩ := hP'.inv_fEq
    by_cases hl : isLWSch c = true
    · rw [tpStep_fEq_lws hst hl]
      exact pv_lws_step id hb hl hP (by rw [hst]; decide) (by rw [hst]; exact hst)
    · have hl' := ps_not_true hl
      by_cases h61 : (c == 61) = true
      · rw [tpStep_fEq_eq hst hl' h61]
        have e61 : c = 61 := by simpa using h61
        rw [e61] at hb
        show PVAt b flags o (i + 1) .fVal
        exact PVAt.fVal i (i + 1) ⟨n0, n1, hh, hlw, hb⟩ (Lws.nil _)
      · have h61' := ps_not_true h61
        by_cases ht : (c == tpTerm flags && tpTerm flags != 0) = true
        · rw [tpStep_fEq_term hst hl' h61' ht]
          exact PVQ.ok
        · have ht' := ps_not_true ht
          by_cases hs : (c == tpSep flags) = true
          · rw [tpStep_fEq_sep hst hl' h61' ht' hs]
            have hc : c = tpSep flags := by simpa using hs
            rw [hc] at hb
            show PVAt b flags o (i + 1) .fNxt
            exact PVAt.fNxt n1 i (i + 1) (i + 1) (PVDone.name n0 n1 hh) hlw hb (Pad.nil _) (Lws.nil _)
          · have hs' := ps_not_true hs
            by_cases hal : tokAllowedChar c flags = true
            · rw [tpStep_fEq_char hst hl' h61' ht' hs' hal]
              by_cases hsp : hasFlag flags POptTokSpTermF = true
              · rw [if_pos hsp]
                obtain ⟨o', p', h⟩ := pv_spTermEq_ok offs i p
                rw [h]
                exact PVQ.ok
              · rw [if_neg hsp]
                exact PVQ.bad (PVBad.byte .fEq c hP' hb
                  ⟨hl', by simpa using h61', by simpa using hs', pv_term_imp ht', fun _ => ps_not_true hsp⟩)
            · rw [tpStep_fEq_bad hst hl' h61' ht' hs' (ps_not_true hal)]
              exact PVQ.bad (PVBad.byte .fEq c hP' hb
                ⟨hl', by simpa using h61', by simpa using hs', pv_term_imp ht', fun h => absurd h hal⟩)
  | fVal =>
    have hP' := hP
    rw [hst] at hP'
    obtain ⟨q, he, hlw⟩ := hP'.inv_fVal
    by_cases hl : isLWSch c = true
    · rw [tpStep_fVal_lws hst hl]
      exact pv_lws_step id hb hl hP (by rw [hst]; decide) (by rw [hst]; exact hst)
    · have hl' := ps_not_true hl
      by_cases h34 : (c == 34) = true
      · rw [tpStep_fVal_quote hst hl' h34]
        have e34 : c = 34 := by simpa using h34
        rw [e34] at hb
        show PVAt b flags o (i + 1) .quotedVal
        exact PVAt.quotedVal q i he hlw hb
      · have h34' := ps_not_true h34
        by_cases ht : (c == tpTerm flags && tpTerm flags != 0) = true
        · rw [tpStep_fVal_term hst hl' h34' ht]
          exact PVQ.ok
        · have ht' := ps_not_true ht
          by_cases hs : (c == tpSep flags) = true
          · rw [tpStep_fVal_sep hst hl' h34' ht' hs]
            have hc : c = tpSep flags := by simpa using hs
            rw [hc] at hb
            show PVAt b flags o (i + 1) .fNxt
            exact PVAt.fNxt (q + 1) i (i + 1) (i + 1) (PVDone.empty q he) hlw hb (Pad.nil _) (Lws.nil _)
          · have hs' := ps_not_true hs
            by_cases hal : tokAllowedChar c flags = true
            · rw [tpStep_fVal_char hst hl' h34' ht' hs' hal]
              show PVAt b flags o (i + 1) .val
              refine PVAt.val q i (i + 1) he hlw (fun k h1 h2 => ?_) (by omega)
              have : k = i := by omega
              rw [this]
              exact ⟨c, hb, ps_pchar hal hs' ht'⟩
            · rw [tpStep_fVal_bad hst hl' h34' ht' hs' (ps_not_true hal)]
              exact PVQ.bad (PVBad.byte .fVal c hP' hb
                ⟨pv_badCh (ps_not_true hal) hl' hs' ht', by simpa using h34'⟩)
  | val =>
    have hP' := hP
    rw [hst] at hP'
    obtain ⟨q, v0, he, hlw, hr, hv⟩ := hP'.inv_val
    by_cases hl : isLWSch c = true
    · rw [tpStep_val_lws hst hl]
      exact pv_lws_step _ hb hl hP (by rw [hst]; decide) (by rw [hst]; rfl)
    · have hl' := ps_not_true hl
      by_cases ht : (c == tpTerm flags && tpTerm flags != 0) = true
      · rw [tpStep_val_term hst hl' ht]
        exact PVQ.ok
      · have ht' := ps_not_true ht
        by_cases hs : (c == tpSep flags) = true
        · rw [tpStep_val_sep hst hl' ht' hs]
          have hc : c = tpSep flags := by simpa using hs
          rw [hc] at hb
          show PVAt b flags o (i + 1) .fNxt
          exact PVAt.fNxt i i (i + 1) (i + 1) (PVDone.tok q v0 i he hlw hr hv) (Lws.nil i) hb (Pad.nil _) (Lws.nil _)
        · have hs' := ps_not_true hs
          by_cases hal : tokAllowedChar c flags = true
          · rw [tpStep_val_char hst hl' ht' hs' hal]
            show PVAt b flags o (i + 1) p.state
            rw [hst]
            exact PVAt.val q v0 (i + 1) he hlw (hr.pv_snoc hb (ps_pchar hal hs' ht')) (by omega)
          · rw [tpStep_val_bad hst hl' ht' hs' (ps_not_true hal)]
            exact PVQ.bad (PVBad.byte .val c hP' hb (pv_badCh (ps_not_true hal) hl' hs' ht'))
  | quotedVal =>
    have hP' := hP
    rw [hst] at hP'
    obtain ⟨q, v0, he, hlw, h34, hi⟩ := hP'.inv_quotedVal
    have hsq := pv_skipQuoted b i
    rcases hq : skipQuoted b i with ⟨n, r⟩
    rw [hq] at hsq
    simp only at hsq
    unfold tpStep
    simp only [hst]
    rw [hq]
    rw [hi] at hsq
    cases hsq with
    | ok n' hqb =>
      show PVAt b flags o n .fSep
      exact PVAt.fSepQuo q v0 n n he hlw h34 hqb (Lws.nil n)
    | bad n' c' hpre hc hbad =>
      exact PVQ.bad (PVBad.quoted q v0 c' he hlw h34 hpre hc hbad)
    | badEsc m c' hpre h92 hc hcr =>
      exact PVQ.bad (PVBad.quotedEsc q v0 m c' he hlw h34 hpre h92 rfl hc hcr)
    | more n' hpre hn =>
      show PVStepOK b flags o (stepOfRes (tpMoreBytes b flags p n))
      rw [pv_tpMoreBytes_quoted b flags p n hst]
      exact PVQ.more (PVMore.quoted q v0 he hlw h34 hpre hn)
    | moreEsc n' hpre h92 hn =>
      show PVStepOK b flags o (stepOfRes (tpMoreBytes b flags p n))
      rw [pv_tpMoreBytes_quoted b flags p n hst]
      exact PVQ.more (PVMore.quotedEsc q v0 he hlw h34 hpre h92 hn)
  | fSep =>
    have hP' := hP
    rw [hst] at hP'
    obtain ⟨j, hd, hlw⟩ := hP'.inv_fSep
    by_cases hl : isLWSch c = true
    · rw [tpStep_fSep_lws hst hl]
      exact pv_lws_step id hb hl hP (by rw [hst]; decide) (by rw [hst]; exact hst)
    · have hl' := ps_not_true hl
      by_cases ht : (c == tpTerm flags && tpTerm flags != 0) = true
      · rw [tpStep_fSep_term hst hl' ht]
        exact PVQ.ok
      · have ht' := ps_not_true ht
        by_cases hs : (c == tpSep flags) = true
        · rw [tpStep_fSep_sep hst hl' ht' hs]
          have hc : c = tpSep flags := by simpa using hs
          rw [hc] at hb
          show PVAt b flags o (i + 1) .fNxt
          exact PVAt.fNxt j i (i + 1) (i + 1) hd hlw hb (Pad.nil _) (Lws.nil _)
        · have hs' := ps_not_true hs
          by_cases hal : tokAllowedChar c flags = true
          · rw [tpStep_fSep_char hst hl' ht' hs' hal]
            by_cases hsp : hasFlag flags POptTokSpTermF = true
            · rw [if_pos hsp]
              obtain ⟨o', p', h⟩ := pv_spTermSep_ok b offs i p
              rw [h]
              exact PVQ.ok
            · rw [if_neg hsp]
              exact PVQ.bad (PVBad.byte .fSep c hP' hb
                ⟨hl', by simpa using hs', pv_term_imp ht', fun _ => ps_not_true hsp⟩)
          · rw [tpStep_fSep_bad hst hl' ht' hs' (ps_not_true hal)]
            exact PVQ.bad (PVBad.byte .fSep c hP' hb
              ⟨hl', by simpa using hs', pv_term_imp ht', fun h => absurd h hal⟩)
  | fNxt =>
    have hP' := hP
    rw [hst] at hP'
    have hstart : p.state.isStart := Or.inr (Or.inr hst)
    obtain ⟨j, s, t, hd, hl1, hs0, hp, hlw⟩ := hP'.inv_fNxt
    by_cases hl : isLWSch c = true
    · rw [tpStep_start_lws hstart hl]
      exact pv_lws_step id hb hl hP (by rw [hst]; decide) (by rw [hst]; exact hst)
    · have hl' := ps_not_true hl
      by_cases hs : (c == tpSep flags) = true
      · rw [tpStep_start_sep hstart hl' hs]
        have hc : c = tpSep flags := by simpa using hs
        rw [hc] at hb
        show PVAt b flags o (i + 1) p.state
        rw [hst]
        exact PVAt.fNxt j s (i + 1) (i + 1) hd hl1 hs0 (hp.pv_snoc hlw hb) (Lws.nil _)
      · have hs' := ps_not_true hs
        by_cases ht : (c == tpTerm flags && tpTerm flags != 0) = true
        · rw [tpStep_fNxt_term hst hl' hs' ht]
          exact PVQ.ok
        · have ht' := ps_not_true ht
          by_cases hal : tokAllowedChar c flags = true
          · rw [tpStep_fNxt_char hst hl' hs' ht' hal]
            exact PVQ.mv
          · rw [tpStep_fNxt_bad hst hl' hs' ht' (ps_not_true hal)]
            exact PVQ.bad (PVBad.byte .fNxt c hP' hb (pv_badCh (ps_not_true hal) hl' hs' ht'))
  | initNxtVal => rw [hst] at hP; cases hP
  | err => rw [hst] at hP; cases hP
  | fin => rw [hst] at hP; cases hP

/-- **the whole loop**: from a point where the text read so far is the beginning of a parameter, the result is an
    accepting verdict, `MoreBytes` with `PVMore` at the returned offset, or `BadChar` with `PVBad` at the returned
    offset — nothing else (no `NoCR`, no `Bug`, no loop artefact) -/
theorem pv_run (flags offs : Nat) (b : Buf) (o i : Nat) (p : PTokParam) (hP : PVAt b flags o i p.state) :
    PVQ b flags o (runLoop (tpMachine flags offs) b i p).1 (runLoop (tpMachine flags offs) b i p).2.1 := by
  apply runLoop_inv (tpMachine flags offs) b (fun i p => PVAt b flags o i p.state)
    (fun r => PVQ b flags o r.1 r.2.1)
  · intro i c p i' p' hb hP hs
    have hlt := tp_progress flags offs b i c p i' p' hb hs
    refine ⟨fun _ => ?_, fun hn => absurd hlt hn⟩
    have h := pv_step (offs := offs) hb hP
    rw [show tpStep flags offs b i c p = .cont i' p' from hs] at h
    exact h
  · intro i c p o' e p' hb hP hs
    have h := pv_step (offs := offs) hb hP
    rw [show tpStep flags offs b i c p = .done o' e p' from hs] at h
    exact h
  · intro i p hb hP
    show PVQ b flags o (tpMoreBytes b flags p i).1 (tpMoreBytes b flags p i).2.1
    by_cases hq : p.state = .quotedVal
    · rw [pv_tpMoreBytes_quoted b flags p i hq]
      have hP' := hP
      rw [hq] at hP'
      obtain ⟨q, v0, he, hlw, h34, hi⟩ := hP'.inv_quotedVal
      refine PVQ.more (PVMore.quoted q v0 he hlw h34 ?_ hb)
      rw [hi]
      exact PVQPre.nil _
    · have hne : p.state ≠ .quotedVal ∧ p.state ≠ .err ∧ p.state ≠ .fin := ⟨hq, hP.live.1, hP.live.2.1⟩
      rcases pv_tpMoreBytes b flags p i hne with h | h
      · exact Or.inr (Or.inl h)
      · rw [h]
        exact PVQ.more (PVMore.lws p.state i hP hq (Lws.nil i) (EndTail.none i hb))
  · exact hP

/-- [EXPORT C17] (1) **the complete list of verdicts of ParseTokenParam on a new object, every buffer, offset and option word**:
    `OK`, `EOH`, `MoreValues`, `MoreBytes`, `BadChar` and nothing else; `MoreBytes` comes with `PVMore` and `BadChar`
    with `PVBad` at the returned offset -/
theorem tokparam_verdicts_desc (b : Buf) (o flags : Nat) :
    PVQ b flags o (parseTokenParam b o {} flags).1 (parseTokenParam b o {} flags).2.1 := by
  rw [parseTokenParam_run flags b o {} (by decide)]
  exact pv_run flags o b o o {} (PVAt.init o o (Pad.nil o) (Lws.nil o))

/-- [EXPORT C17] (1) the verdict list alone -/
theorem tokparam_verdicts (b : Buf) (o flags : Nat) :
    (parseTokenParam b o {} flags).2.1 = .ok ∨ (parseTokenParam b o {} flags).2.1 = .eoh ∨
    (parseTokenParam b o {} flags).2.1 = .moreValues ∨ (parseTokenParam b o {} flags).2.1 = .moreBytes ∨
    (parseTokenParam b o {} flags).2.1 = .badChar := by
  rcases tokparam_verdicts_desc b o flags with h | h | h | h | h
  · exact Or.inl h
  · exact Or.inr (Or.inl h)
  · exact Or.inr (Or.inr (Or.inl h))
  · exact Or.inr (Or.inr (Or.inr (Or.inl h.1)))
  · exact Or.inr (Or.inr (Or.inr (Or.inr h.1)))

/-- [EXPORT C17] (1) **a rejection points at a rejectable byte**: `BadChar` at `p` ⇒ the text `[o, p)` is the beginning of a
    parameter and the byte at `p` is one of those rejected in the state reached (`PVBad`) -/
theorem tokparam_badChar_sound {b : Buf} {o flags p : Nat} {p' : PTokParam}
    (h : parseTokenParam b o {} flags = (p, .badChar, p')) : PVBad b flags o p := by
  have := tokparam_verdicts_desc b o flags
  rw [h] at this
  rcases this with h | h | h | h | h
  · cases h
  · cases h
  · cases h
  · cases h.1
  · exact h.2

/-- [EXPORT C17] (2) `MoreBytes` at `r` ⇒ the text `[o, r)` is the beginning of a parameter and the rest of the buffer is unfinished
    white space or an open quoted string (`PVMore`) -/
theorem tokparam_moreBytes_sound {b : Buf} {o flags r : Nat} {p' : PTokParam}
    (h : parseTokenParam b o {} flags = (r, .moreBytes, p')) : PVMore b flags o r := by
  have := tokparam_verdicts_desc b o flags
  rw [h] at this
  rcases this with h | h | h | h | h
  · cases h
  · cases h
  · cases h
  · exact h.2
  · cases h.1

/-! ### the converse: every text of the description is rejected at that very byte -/

section conv
variable (flags offs : Nat) (b : Buf) (o : Nat) (p0 : PTokParam)

/-- the loop started at `o` with `p0` comes to position `i` in state `st` (with some object) -/
def PVReach (i : Nat) (st : TPState) : Prop :=
  ∃ p, p.state = st ∧ runLoop (tpMachine flags offs) b o p0 = runLoop (tpMachine flags offs) b i p

variable {flags offs b o p0}

theorem PVReach.cont {i i' : Nat} {st st' : TPState} {c : UInt8} (h : PVReach flags offs b o p0 i st)
    (hb : b[i]? = some c) (hlt : i < i')
    (hs : ∀ p, p.state = st → ∃ p', p'.state = st' ∧ tpStep flags offs b i c p = .cont i' p') :
    PVReach flags offs b o p0 i' st' := by
  obtain ⟨p, hp, hr⟩ := h
  obtain ⟨p', hp', hstep⟩ := hs p hp
  refine ⟨p', hp', ?_⟩
  rw [hr, runLoop_cont (tpMachine flags offs) hb (show (tpMachine flags offs).step b i c p = _ from hstep),
    if_pos hlt]

theorem pv_lws_of_state {i : Nat} {p : PTokParam}
    (hne : p.state ≠ .quotedVal ∧ p.state ≠ .err ∧ p.state ≠ .fin) :
    ∃ upd : PTokParam → PTokParam, (upd p).state = pvNext p.state ∧
      ∀ c, isLWSch c = true → tpStep flags offs b i c p = tpLWS b flags i p upd := by
  cases hst : p.state with
  | init => exact ⟨id, hst, fun c hc => tpStep_start_lws (Or.inl hst) hc⟩
  | initNxtVal => exact ⟨id, hst, fun c hc => tpStep_start_lws (Or.inr (Or.inl hst)) hc⟩
  | fNxt => exact ⟨id, hst, fun c hc => tpStep_start_lws (Or.inr (Or.inr hst)) hc⟩
  | name => exact ⟨_, rfl, fun c hc => tpStep_name_lws hst hc⟩
  | fEq => exact ⟨id, hst, fun c hc => tpStep_fEq_lws hst hc⟩
  | fVal => exact ⟨id, hst, fun c hc => tpStep_fVal_lws hst hc⟩
  | val => exact ⟨_, rfl, fun c hc => tpStep_val_lws hst hc⟩
  | fSep => exact ⟨id, hst, fun c hc => tpStep_fSep_lws hst hc⟩
  | quotedVal => exact absurd hst hne.1
  | err => exact absurd hst hne.2.1
  | fin => exact absurd hst hne.2.2

theorem PVReach.lws {i n : Nat} {st : TPState} {c : UInt8} (h : PVReach flags offs b o p0 i st) (hl : Lws b i n)
    (hlt : i < n) (hn : b[n]? = some c) (hc : isLWSch c = false)
    (hne : st ≠ .quotedVal ∧ st ≠ .err ∧ st ≠ .fin) : PVReach flags offs b o p0 n (pvNext st) := by
  obtain ⟨p, hp, hr⟩ := h
  obtain ⟨upd, hu, hstep⟩ := pv_lws_of_state (flags := flags) (offs := offs) (b := b) (i := i) (p := p)
    (by rw [hp]; exact hne)
  refine ⟨upd p, by rw [hu, hp], ?_⟩
  rw [hr, tp_lws_ok flags offs b hl hlt hn hc p upd hstep]

theorem PVReach.lws_id {i n : Nat} {st : TPState} {c : UInt8} (h : PVReach flags offs b o p0 i st) (hl : Lws b i n)
    (hn : b[n]? = some c) (hc : isLWSch c = false)
    (hne : st ≠ .quotedVal ∧ st ≠ .err ∧ st ≠ .fin) (hid : pvNext st = st) : PVReach flags offs b o p0 n st := by
  by_cases hlt : i < n
  · have := h.lws hl hlt hn hc hne
    rw [hid] at this
    exact this
  · have := hl.le
    have : i = n := by omega
    subst this
    exact h

theorem pv_reach_head {n0 n1 : Nat} (hst0 : p0.state = .init) (h : PVHead b flags o n0 n1) :
    PVReach flags offs b o p0 n1 .name := by
  obtain ⟨t, c0, hp, hl, hb, hal, hs, hr, hlt⟩ := h
  have r1 : PVReach flags offs b o p0 t .init := ⟨p0, hst0, tp_pad flags offs b hp p0 (Or.inl hst0)⟩
  have r2 : PVReach flags offs b o p0 n0 .init := r1.lws_id hl hb (allowed_not_lws hal) (by decide) rfl
  have r3 : PVReach flags offs b o p0 (n0 + 1) .name :=
    r2.cont hb (by omega) (fun p hp =>
      ⟨_, rfl, tpStep_init_char (Or.inl hp) (allowed_not_lws hal) (by simpa using hs) hal⟩)
  obtain ⟨p, hp', hr'⟩ := r3
  exact ⟨p, hp', by rw [hr', tp_name_run flags offs b (by omega) hr p hp']⟩

theorem pv_reach_eq {q : Nat} (hst0 : p0.state = .init) (h : PVEq b flags o q) :
    PVReach flags offs b o p0 (q + 1) .fVal := by
  obtain ⟨n0, n1, hh, hl, h61⟩ := h
  have r1 : PVReach flags offs b o p0 n1 .name := pv_reach_head hst0 hh
  by_cases hlt : n1 < q
  · have r2 : PVReach flags offs b o p0 q .fEq := r1.lws hl hlt h61 (by decide) (by decide)
    exact r2.cont h61 (by omega) (fun p hp => ⟨_, rfl, tpStep_fEq_eq hp (by decide) (by decide)⟩)
  · have := hl.le
    have : n1 = q := by omega
    subst this
    exact r1.cont h61 (by omega) (fun p hp => ⟨_, rfl, tpStep_name_eq hp (by decide) (by decide)⟩)

theorem pv_reach_fVal {q i : Nat} {c : UInt8} (hst0 : p0.state = .init) (h : PVEq b flags o q) (hl : Lws b (q + 1) i)
    (hb : b[i]? = some c) (hc : isLWSch c = false) : PVReach flags offs b o p0 i .fVal :=
  (pv_reach_eq hst0 h).lws_id hl hb hc (by decide) rfl

theorem pv_reach_tok {q v0 v1 : Nat} (hst0 : p0.state = .init) (h : PVEq b flags o q) (hl : Lws b (q + 1) v0)
    (hr : PRun b flags v0 v1) (hv : v0 < v1) : PVReach flags offs b o p0 v1 .val := by
  obtain ⟨c, hc, hpc⟩ := hr v0 (Nat.le_refl _) hv
  have hf := hpc.facts
  have r1 : PVReach flags offs b o p0 v0 .fVal := pv_reach_fVal hst0 h hl hc hf.hl
  have r2 : PVReach flags offs b o p0 (v0 + 1) .val :=
    r1.cont hc (by omega) (fun p hp => ⟨_, rfl, tpStep_fVal_char hp hf.hl hf.h34 hf.ht hf.hs hpc.1⟩)
  obtain ⟨p, hp', hr'⟩ := r2
  exact ⟨p, hp', by rw [hr', tp_val_run flags offs b (by omega) (fun k h1 h2 => hr k (by omega) h2) p hp']⟩

theorem pv_reach_quote {q v0 : Nat} (hst0 : p0.state = .init) (h : PVEq b flags o q) (hl : Lws b (q + 1) v0)
    (h34 : b[v0]? = some 34) : PVReach flags offs b o p0 (v0 + 1) .quotedVal := by
  have r1 : PVReach flags offs b o p0 v0 .fVal := pv_reach_fVal hst0 h hl h34 (by decide)
  exact r1.cont h34 (by omega) (fun p hp => ⟨_, rfl, tpStep_fVal_quote hp (by decide) (by decide)⟩)

theorem pv_reach_quo {q v0 qe : Nat} (hst0 : p0.state = .init) (h : PVEq b flags o q) (hl : Lws b (q + 1) v0)
    (h34 : b[v0]? = some 34) (hqb : QBody b (v0 + 1) qe) : PVReach flags offs b o p0 qe .fSep := by
  have r2 : PVReach flags offs b o p0 (v0 + 1) .quotedVal := pv_reach_quote hst0 h hl h34
  have hq := skipQuoted_of_qbody hqb
  obtain ⟨c1, hc1⟩ := skipQuoted_ok_first b (v0 + 1) hq
  exact r2.cont hc1 (skipQuoted_ok_gt b (v0 + 1) hq) (fun p hp => ⟨_, rfl, tpStep_quoted_ok hp hq⟩)

theorem pv_reach_sep {j s : Nat} (hst0 : p0.state = .init) (hd : PVDone b flags o j) (hl : Lws b j s)
    (hs : b[s]? = some (tpSep flags)) : PVReach flags offs b o p0 (s + 1) .fNxt := by
  have hf := sep_facts flags
  cases hd with
  | name n0 n1 hh =>
    have r1 : PVReach flags offs b o p0 j .name := pv_reach_head hst0 hh
    by_cases hlt : j < s
    · have r2 : PVReach flags offs b o p0 s .fEq := r1.lws hl hlt hs hf.hl (by decide)
      exact r2.cont hs (by omega) (fun p hp => ⟨_, rfl, tpStep_fEq_sep hp hf.hl hf.h61 hf.ht hf.hs⟩)
    · have := hl.le
      have : j = s := by omega
      subst this
      exact r1.cont hs (by omega) (fun p hp => ⟨_, rfl, tpStep_name_sep hp hf.hl hf.h61 hf.ht hf.hs⟩)
  | empty q he =>
    have r2 : PVReach flags offs b o p0 s .fVal := pv_reach_fVal hst0 he hl hs hf.hl
    exact r2.cont hs (by omega) (fun p hp => ⟨_, rfl, tpStep_fVal_sep hp hf.hl hf.h34 hf.ht hf.hs⟩)
  | tok q v0 v1 he hl0 hr hv =>
    have r1 : PVReach flags offs b o p0 j .val := pv_reach_tok hst0 he hl0 hr hv
    by_cases hlt : j < s
    · have r2 : PVReach flags offs b o p0 s .fSep := r1.lws hl hlt hs hf.hl (by decide)
      exact r2.cont hs (by omega) (fun p hp => ⟨_, rfl, tpStep_fSep_sep hp hf.hl hf.ht hf.hs⟩)
    · have := hl.le
      have : j = s := by omega
      subst this
      exact r1.cont hs (by omega) (fun p hp => ⟨_, rfl, tpStep_val_sep hp hf.hl hf.ht hf.hs⟩)
  | quo q v0 qe he hl0 h34 hqb =>
    have r1 : PVReach flags offs b o p0 j .fSep := pv_reach_quo hst0 he hl0 h34 hqb
    have r2 : PVReach flags offs b o p0 s .fSep := r1.lws_id hl hs hf.hl (by decide) rfl
    exact r2.cont hs (by omega) (fun p hp => ⟨_, rfl, tpStep_fSep_sep hp hf.hl hf.ht hf.hs⟩)

/-- **every position of the description is reached by the loop** (the byte at `i` is not white space: the loop jumps
    over white space in one step) -/
theorem pv_reach_at {i : Nat} {st : TPState} {c : UInt8} (hst0 : p0.state = .init) (h : PVAt b flags o i st)
    (hb : b[i]? = some c) (hc : st ≠ .quotedVal → isLWSch c = false) : PVReach flags offs b o p0 i st := by
  cases h with
  | init t i hp hl =>
    have r1 : PVReach flags offs b o p0 t .init := ⟨p0, hst0, tp_pad flags offs b hp p0 (Or.inl hst0)⟩
    exact r1.lws_id hl hb (hc (by decide)) (by decide) rfl
  | name n0 i hh => exact pv_reach_head hst0 hh
  | fEq n0 n1 i hh hl hlt =>
    exact (pv_reach_head (offs := offs) hst0 hh).lws hl hlt hb (hc (by decide)) (by decide)
  | fVal q i he hl => exact pv_reach_fVal hst0 he hl hb (hc (by decide))
  | val q v0 i he hl hr hv => exact pv_reach_tok hst0 he hl hr hv
  | quotedVal q v0 he hl h34 => exact pv_reach_quote hst0 he hl h34
  | fSepTok q v0 v1 i he hl hr hv hl2 hlt2 =>
    exact (pv_reach_tok (offs := offs) hst0 he hl hr hv).lws hl2 hlt2 hb (hc (by decide)) (by decide)
  | fSepQuo q v0 qe i he hl h34 hqb hl2 =>
    exact (pv_reach_quo (offs := offs) hst0 he hl h34 hqb).lws_id hl2 hb (hc (by decide)) (by decide) rfl
  | fNxt j s t i hd hl1 hs hp hl2 =>
    obtain ⟨p, hp', hr⟩ := pv_reach_sep (offs := offs) hst0 hd hl1 hs
    have r2 : PVReach flags offs b o p0 t .fNxt :=
      ⟨p, hp', by rw [hr, tp_pad flags offs b hp p (Or.inr (Or.inr hp'))]⟩
    exact r2.lws_id hl2 hb (hc (by decide)) (by decide) rfl

end conv

theorem pv_term_false {flags : Nat} {c : UInt8} (h : c = tpTerm flags → tpTerm flags = 0) :
    (c == tpTerm flags && tpTerm flags != 0) = false := by
  cases hc : c == tpTerm flags with
  | false => rfl
  | true =>
    rw [beq_iff_eq] at hc
    rw [h hc]; rfl

theorem pv_rej_not_lws {flags : Nat} {st : TPState} {c : UInt8} (h : PVRej flags st c) : isLWSch c = false := by
  cases st with
  | init => exact h.2.1
  | name => exact h.1.2.1
  | fEq => exact h.1
  | fVal => exact h.1.2.1
  | val => exact h.2.1
  | fSep => exact h.1
  | fNxt => exact h.2.1
  | initNxtVal => exact h.elim
  | quotedVal => exact h.elim
  | err => exact h.elim
  | fin => exact h.elim

/-- a byte of the reject set of a state is rejected by the step function at its own offset -/
theorem pv_rej_step {flags offs : Nat} {b : Buf} {i : Nat} {c : UInt8} {p : PTokParam} {st : TPState}
    (hst : p.state = st) (h : PVRej flags st c) : ∃ p', tpStep flags offs b i c p = .done i .badChar p' := by
  cases st with
  | init =>
    obtain ⟨ha, hl, hs⟩ := h
    exact ⟨_, tpStep_start_bad (Or.inl hst) hl (by simpa using hs) ha⟩
  | name =>
    obtain ⟨hbad, h61⟩ := h
    exact ⟨_, tpStep_name_bad hst hbad.2.1 (by simpa using h61) hbad.ht hbad.hs hbad.1⟩
  | fEq =>
    obtain ⟨hl, h61, hs, ht, hsp⟩ := h
    have h61' : (c == 61) = false := by simpa using h61
    have hs' : (c == tpSep flags) = false := by simpa using hs
    by_cases hal : tokAllowedChar c flags = true
    · refine ⟨{ p with state := .err }, ?_⟩
      rw [tpStep_fEq_char hst hl h61' (pv_term_false ht) hs' hal, if_neg (by rw [hsp hal]; decide)]
    · exact ⟨_, tpStep_fEq_bad hst hl h61' (pv_term_false ht) hs' (ps_not_true hal)⟩
  | fVal =>
    obtain ⟨hbad, h34⟩ := h
    exact ⟨_, tpStep_fVal_bad hst hbad.2.1 (by simpa using h34) hbad.ht hbad.hs hbad.1⟩
  | val => exact ⟨_, tpStep_val_bad hst h.2.1 h.ht h.hs h.1⟩
  | fSep =>
    obtain ⟨hl, hs, ht, hsp⟩ := h
    have hs' : (c == tpSep flags) = false := by simpa using hs
    by_cases hal : tokAllowedChar c flags = true
    · refine ⟨{ p with state := .err }, ?_⟩
      rw [tpStep_fSep_char hst hl (pv_term_false ht) hs' hal, if_neg (by rw [hsp hal]; decide)]
    · exact ⟨_, tpStep_fSep_bad hst hl (pv_term_false ht) hs' (ps_not_true hal)⟩
  | fNxt => exact ⟨_, tpStep_fNxt_bad hst h.2.1 h.hs h.ht h.1⟩
  | initNxtVal => exact h.elim
  | quotedVal => exact h.elim
  | err => exact h.elim
  | fin => exact h.elim

theorem pv_sqStep_bad {b : Buf} {i : Nat} {c : UInt8} (h : PVQBad c) : sqStep b i c () = .done i .badChar () := by
  unfold sqStep
  rcases h with h | h | h | ⟨h1, h2, h3⟩
  · subst h; rfl
  · subst h; rfl
  · subst h; rfl
  · have e34 : (c == 34) = false := by
      cases hc : c == 34 with
      | false => rfl
      | true => rw [beq_iff_eq] at hc; subst hc; exact absurd h1 (by decide)
    have e92 : (c == 92) = false := by
      cases hc : c == 92 with
      | false => rfl
      | true => rw [beq_iff_eq] at hc; subst hc; exact absurd h1 (by decide)
    have e4 : (decide (c < 33) && c != 32 && c != 9) = true := by simp [h1, h2, h3]
    simp only [e34, e92, e4, Bool.false_eq_true, ↓reduceIte]
    split <;> rfl

theorem pv_sq_bad_run {b : Buf} {i n : Nat} {c : UInt8} (h : PVQPre b i n) (hc : b[n]? = some c) (hbad : PVQBad c) :
    runLoop sqMachine b i () = (n, .badChar, ()) := by
  induction h with
  | nil i => exact runLoop_done sqMachine hc (by exact pv_sqStep_bad hbad)
  | plain i e c0 h0 hq _ ih =>
    rw [runLoop_cont sqMachine h0 (by exact sqStep_plain hq), if_pos (by omega)]; exact ih hc
  | esc i e c1 h0 h1 hcr _ ih =>
    have hs : sqMachine.step b i 92 () = .cont (i + 2) () := by
      show sqStep b i 92 () = _
      unfold sqStep
      rw [h1]
      simp [hcr]
    rw [runLoop_cont sqMachine h0 hs, if_pos (by omega)]; exact ih hc

theorem pv_sq_badEsc_run {b : Buf} {i m : Nat} {c : UInt8} (h : PVQPre b i m) (h92 : b[m]? = some 92)
    (hc : b[m + 1]? = some c) (hcr : isCRLFch c = true) :
    runLoop sqMachine b i () = (m + 1, .badChar, ()) := by
  induction h with
  | nil i =>
    have hs : sqMachine.step b i 92 () = .done (i + 1) .badChar () := by
      show sqStep b i 92 () = _
      unfold sqStep
      rw [hc]
      simp [hcr]
    exact runLoop_done sqMachine h92 hs
  | plain i e c0 h0 hq _ ih =>
    rw [runLoop_cont sqMachine h0 (by exact sqStep_plain hq), if_pos (by omega)]; exact ih h92 hc
  | esc i e c1 h0 h1 hcr1 _ ih =>
    have hs : sqMachine.step b i 92 () = .cont (i + 2) () := by
      show sqStep b i 92 () = _
      unfold sqStep
      rw [h1]
      simp [hcr1]
    rw [runLoop_cont sqMachine h0 hs, if_pos (by omega)]; exact ih h92 hc

theorem PVQPre.first {b : Buf} {i e : Nat} {c : UInt8} (h : PVQPre b i e) (he : b[e]? = some c) :
    ∃ c1, b[i]? = some c1 := by
  cases h with
  | nil => exact ⟨c, he⟩
  | plain i' e' c0 h0 _ _ => exact ⟨c0, h0⟩
  | esc i' e' c1 h0 _ _ _ => exact ⟨92, h0⟩

/-- [EXPORT C17] (1) **completeness of the description**: every text of the shape `PVBad … p` is rejected with `BadChar` at `p` -/
theorem tokparam_badChar_complete {b : Buf} {o flags p : Nat} (h : PVBad b flags o p) :
    (parseTokenParam b o {} flags).1 = p ∧ (parseTokenParam b o {} flags).2.1 = .badChar := by
  rw [parseTokenParam_run flags b o {} (by decide)]
  cases h with
  | byte st c hP hb hrej =>
    obtain ⟨p1, hp1, hr⟩ := pv_reach_at (offs := o) (p0 := {}) rfl hP hb (fun _ => pv_rej_not_lws hrej)
    obtain ⟨p', hstep⟩ := pv_rej_step (offs := o) (b := b) (i := p) hp1 hrej
    rw [hr, runLoop_done (tpMachine flags o) hb (show (tpMachine flags o).step b p c p1 = _ from hstep)]
    exact ⟨rfl, rfl⟩
  | quoted q v0 c he hl h34 hpre hc hbad =>
    obtain ⟨p1, hp1, hr⟩ := pv_reach_quote (offs := o) (p0 := {}) rfl he hl h34
    obtain ⟨c1, hc1⟩ := hpre.first hc
    have hq : skipQuoted b (v0 + 1) = (p, .badChar) := by
      unfold skipQuoted; rw [pv_sq_bad_run hpre hc hbad]
    have hstep : (tpMachine flags o).step b (v0 + 1) c1 p1 = .done p .badChar p1 := by
      show tpStep flags o b (v0 + 1) c1 p1 = _
      unfold tpStep; simp only [hp1]; rw [hq]
    rw [hr, runLoop_done (tpMachine flags o) hc1 hstep]
    exact ⟨rfl, rfl⟩
  | quotedEsc q v0 m c he hl h34 hpre h92 hpm hc hcr =>
    subst hpm
    obtain ⟨p1, hp1, hr⟩ := pv_reach_quote (offs := o) (p0 := {}) rfl he hl h34
    obtain ⟨c1, hc1⟩ := hpre.first h92
    have hq : skipQuoted b (v0 + 1) = (m + 1, .badChar) := by
      unfold skipQuoted; rw [pv_sq_badEsc_run hpre h92 hc hcr]
    have hstep : (tpMachine flags o).step b (v0 + 1) c1 p1 = .done (m + 1) .badChar p1 := by
      show tpStep flags o b (v0 + 1) c1 p1 = _
      unfold tpStep; simp only [hp1]; rw [hq]
    rw [hr, runLoop_done (tpMachine flags o) hc1 hstep]
    exact ⟨rfl, rfl⟩

/-- [EXPORT C17] (1) **`BadChar` at `p`, exactly**: for every buffer, offset and option word, ParseTokenParam on a new object returns
    `BadChar` with offset `p` IFF the text `[o, p)` is the beginning of a parameter (`PVAt` / an open quoted string) and
    the byte at `p` belongs to the explicit reject set of the state reached (`PVRej`, `PVQBad`, CR / LF after a
    backslash): the error offset always points at the first byte that cannot continue -/
theorem tokparam_badChar_iff (b : Buf) (o flags p : Nat) :
    ((parseTokenParam b o {} flags).1 = p ∧ (parseTokenParam b o {} flags).2.1 = .badChar) ↔ PVBad b flags o p := by
  constructor
  · rintro ⟨h1, h2⟩
    rcases hr : parseTokenParam b o {} flags with ⟨p1, e, p'⟩
    rw [hr] at h1 h2
    simp only at h1 h2
    subst h1 h2
    exact tokparam_badChar_sound hr
  · exact tokparam_badChar_complete

/-! ### (2) accepted / suspended / rejected -/

theorem PSAcc.pv_excl {e : Err} (h : PSAcc e) : e ≠ .moreBytes ∧ e ≠ .badChar := by
  rcases h with h | h | h <;> (subst h; exact ⟨by decide, by decide⟩)

/-- [EXPORT C17] (2) **trichotomy**: for every buffer within the 65,535-byte limit, every offset and every option word, a call on a new
    object ends in exactly one of three ways (they are told apart by the verdict):
    * accepted — `OK` / `MoreValues` / `EOH`, and then the text is a parameter of the grammar `PSParam` of
      `ParamSound`, which fixes offset, verdict and the whole object;
    * suspended — `MoreBytes` at `r`, and then `[o, r)` is the beginning of a parameter and the rest of the buffer is
      white space cut by the end of the buffer or an open quoted string (`PVMore`);
    * rejected — `BadChar` at `p`, and then `[o, p)` is the beginning of a parameter and the byte at `p` belongs to the
      reject set of the state reached (`PVBad`; by `tokparam_badChar_iff` this is an equivalence). -/
theorem tokparam_trichotomy (b : Buf) (o flags : Nat) (hfit : b.size ≤ 65535) :
    (PSAcc (parseTokenParam b o {} flags).2.1 ∧
      PSParam b flags {} o (parseTokenParam b o {} flags).1 (parseTokenParam b o {} flags).2.1
        (parseTokenParam b o {} flags).2.2) ∨
    ((parseTokenParam b o {} flags).2.1 = .moreBytes ∧ PVMore b flags o (parseTokenParam b o {} flags).1) ∨
    ((parseTokenParam b o {} flags).2.1 = .badChar ∧ PVBad b flags o (parseTokenParam b o {} flags).1) := by
  rcases hr : parseTokenParam b o {} flags with ⟨o', e, p'⟩
  have hd := tokparam_verdicts_desc b o flags
  rw [hr] at hd
  simp only at hd ⊢
  rcases hd with h | h | h | h | h
  · exact Or.inl ⟨Or.inl h, parseTokenParam_sound hfit hr (Or.inl h)⟩
  · exact Or.inl ⟨Or.inr (Or.inr h), parseTokenParam_sound hfit hr (Or.inr (Or.inr h))⟩
  · exact Or.inl ⟨Or.inr (Or.inl h), parseTokenParam_sound hfit hr (Or.inr (Or.inl h))⟩
  · exact Or.inr (Or.inl h)
  · exact Or.inr (Or.inr h)

/-- [EXPORT C17] (2) without the end-of-input option, `MoreBytes` means that **no byte so far is rejectable and nothing is complete**:
    every shorter buffer (every prefix of `b`) also gives `MoreBytes` -/
theorem tokparam_moreBytes_prefixes {b1 s : Buf} {o flags : Nat} (hf : hasFlag flags POptInputEndF = false)
    (h : (parseTokenParam (b1 ++ s) o {} flags).2.1 = .moreBytes) :
    (parseTokenParam b1 o {} flags).2.1 = .moreBytes := by
  rcases hr : parseTokenParam b1 o {} flags with ⟨o', e, p'⟩
  by_cases he : e = .moreBytes
  · exact he
  · have := parseTokenParam_stable b1 s o {} flags hf hr he
    rw [this] at h
    exact absurd h he

/-! ### (3) the list wrappers: where and how they stop -/

/-- the items BEFORE the one at which a list wrapper stops: parameters of the grammar reported with `MoreValues`, one
    after the other from `o` to `o1` (possibly none) -/
inductive PVItems (b : Buf) (flags : Nat) : Nat → List PTokParam → Nat → Prop
  | nil (o : Nat) : PVItems b flags o [] o
  | cons (o next : Nat) (tp : PTokParam) (rest : List PTokParam) (o1 : Nat) :
      PSParam b flags {} o next .moreValues tp → PVItems b flags next rest o1 → PVItems b flags o (tp :: rest) o1

/-- every text decomposes: items reported with `MoreValues`, then a call that returns something else -/
theorem pv_items_exist (b : Buf) (flags : Nat) (hfit : b.size ≤ 65535) :
    ∀ (k o : Nat), b.size - o = k →
      ∃ tps o1, PVItems b flags o tps o1 ∧ (parseTokenParam b o1 {} flags).2.1 ≠ .moreValues := by
  intro k
  induction k using Nat.strongRecOn with
  | _ k ih =>
    intro o hk
    rcases hp : parseTokenParam b o {} flags with ⟨next, e, tp⟩
    by_cases he : e = .moreValues
    · subst he
      have hP := parseTokenParam_sound hfit hp (Or.inr (Or.inl rfl))
      obtain ⟨hlt, hle⟩ := hP.ps_more_range
      obtain ⟨tps, o1, h1, h2⟩ := ih (b.size - next) (by omega) next rfl
      exact ⟨tp :: tps, o1, PVItems.cons o next tp tps o1 hP h1, h2⟩
    · exact ⟨[], o, PVItems.nil o, by rw [hp]; exact he⟩

theorem pv_setIfInBounds_self {α : Type} (a : Array α) (n : Nat) (x : α) (h : a[n]? = some x) :
    a.setIfInBounds n x = a := by
  apply Array.ext_getElem?
  intro i
  rw [Array.getElem?_setIfInBounds]
  split
  · rename_i hni
    subst hni
    have hlt : n < a.size := by
      rcases Nat.lt_or_ge n a.size with h' | h'
      · exact h'
      · rw [Array.getElem?_eq_none h'] at h; cases h
    rw [if_pos hlt, h]
  · rfl

theorem URIParamsLst.Fresh.pv_setCur {l : URIParamsLst} (h : l.Fresh) : l.setCur {} = l := by
  unfold URIParamsLst.setCur
  split
  · rename_i hlt
    have h1 : l.params[l.n]? = some l.params[l.n] := Array.getElem?_eq_getElem hlt
    have h2 : l.params[l.n] = {} := h.1 l.n _ (Nat.le_refl _) h1
    rw [h2] at h1
    have : l.params.set! l.n {} = l.params := pv_setIfInBounds_self _ _ _ h1
    rw [this]
  · have := h.2
    cases l
    simp only at this ⊢
    rw [this]

theorem URIHdrsLst.Fresh.pv_setCur {l : URIHdrsLst} (h : l.Fresh) : l.setCur {} = l := by
  unfold URIHdrsLst.setCur
  split
  · rename_i hlt
    have h1 : l.hdrs[l.n]? = some l.hdrs[l.n] := Array.getElem?_eq_getElem hlt
    have h2 : l.hdrs[l.n] = {} := h.1 l.n _ (Nat.le_refl _) h1
    rw [h2] at h1
    have : l.hdrs.set! l.n {} = l.hdrs := pv_setIfInBounds_self _ _ _ h1
    rw [this]
  · have := h.2
    cases l
    simp only at this ⊢
    rw [this]

theorem pv_beq_moreBytes {e : Err} (h : e ≠ .moreBytes) : (e == Err.moreBytes) = false := by
  cases e <;> first | rfl | exact absurd rfl h

/-- the wrapper loop at the item where it stops (a verdict other than `OK` / `MoreValues` / `EOH`): nothing more is
    counted; on `MoreBytes` the unfinished parameter is kept in the current slot, on an error the slot is reset -/
theorem pv_uriParamsLoop_stop (b : Buf) (o : Nat) (l : URIParamsLst) (flags vNo next : Nat) (e : Err) (tp : PTokParam)
    (hf : l.Fresh) (hp : parseTokenParam b o {} flags = (next, e, tp)) (hna : ¬ PSAcc e) :
    uriParamsLoop b o l flags vNo =
      (next, vNo, e, if e = .moreBytes then l.setCur { param := tp } else l) := by
  have hcur : l.cur = {} := hf.cur
  rw [uriParamsLoop]
  simp only [hcur, hp, ps_not_acc hna, Bool.false_eq_true, ↓reduceIte]
  by_cases hm : e = .moreBytes
  · subst hm
    simp only [beq_self_eq_true, ↓reduceIte]
  · rw [if_neg hm]
    simp only [pv_beq_moreBytes hm, Bool.false_eq_true, ↓reduceIte]
    rw [hf.pv_setCur]

theorem pv_uriHdrsLoop_stop (b : Buf) (o : Nat) (l : URIHdrsLst) (flags vNo next : Nat) (e : Err) (tp : PTokParam)
    (hf : l.Fresh) (hp : parseTokenParam b o {} flags = (next, e, tp)) (hna : ¬ PSAcc e) :
    uriHdrsLoop b o l flags vNo = (next, vNo, e, if e = .moreBytes then l.setCur tp else l) := by
  have hcur : l.cur = {} := hf.cur
  rw [uriHdrsLoop]
  simp only [hcur, hp, ps_not_acc hna, Bool.false_eq_true, ↓reduceIte]
  by_cases hm : e = .moreBytes
  · subst hm
    simp only [beq_self_eq_true, ↓reduceIte]
  · rw [if_neg hm]
    simp only [pv_beq_moreBytes hm, Bool.false_eq_true, ↓reduceIte]
    rw [hf.pv_setCur]

theorem URIParamsLst.Fresh.pv_foldl {l : URIParamsLst} (h : l.Fresh) (items : List URIParam) :
    (items.foldl URIParamsLst.push l).Fresh := by
  induction items generalizing l with
  | nil => exact h
  | cons x rest ih => exact ih (h.push x)

theorem URIHdrsLst.Fresh.pv_foldl {l : URIHdrsLst} (h : l.Fresh) (items : List PTokParam) :
    (items.foldl URIHdrsLst.push l).Fresh := by
  induction items generalizing l with
  | nil => exact h
  | cons x rest ih => exact ih (h.push x)

/-- the wrapper loop walks over the items before the stop: each is counted and pushed with the type of its name -/
theorem pv_uriParamsLoop_items {b : Buf} {flags o o1 : Nat} {tps : List PTokParam} (hfit : b.size ≤ 65535)
    (H : PVItems b flags o tps o1) :
    ∀ (l : URIParamsLst) (vNo : Nat), l.Fresh →
      uriParamsLoop b o l flags vNo =
        uriParamsLoop b o1 ((tps.map (typed b)).foldl URIParamsLst.push l) flags (vNo + tps.length) := by
  induction H with
  | nil o => intro l vNo _; rfl
  | cons o next tp rest o1 hg _ ih =>
    intro l vNo hf
    have hp := parseTokenParam_complete hfit hg
    have hnm := ps_name_get hfit hp hg.ps_acc
    obtain ⟨hlt, hle⟩ := hg.ps_more_range
    have hcur : l.cur.param = {} := by rw [hf.cur]
    rw [uriParamsLoop_more b o l flags vNo next tp _ (by rw [hcur]; exact hp) hnm hlt (by omega),
      ih _ _ (hf.push _)]
    simp only [List.length_cons, List.map_cons, List.foldl_cons]
    have : vNo + 1 + rest.length = vNo + (rest.length + 1) := by omega
    rw [this]
    rfl

theorem pv_uriHdrsLoop_items {b : Buf} {flags o o1 : Nat} {tps : List PTokParam} (hfit : b.size ≤ 65535)
    (H : PVItems b flags o tps o1) :
    ∀ (l : URIHdrsLst) (vNo : Nat), l.Fresh →
      uriHdrsLoop b o l flags vNo = uriHdrsLoop b o1 (tps.foldl URIHdrsLst.push l) flags (vNo + tps.length) := by
  induction H with
  | nil o => intro l vNo _; rfl
  | cons o next tp rest o1 hg _ ih =>
    intro l vNo hf
    have hp := parseTokenParam_complete hfit hg
    obtain ⟨hlt, hle⟩ := hg.ps_more_range
    rw [uriHdrsLoop_more b o l flags vNo next tp (by rw [hf.cur]; exact hp) hlt (by omega), ih _ _ (hf.push _)]
    simp only [List.length_cons, List.foldl_cons]
    have : vNo + 1 + rest.length = vNo + (rest.length + 1) := by omega
    rw [this]

/-- the list object after the items `tps`, the wrapper having stopped with verdict `e` at a parameter `tp` -/
def pvParamsAfter (b : Buf) (l : URIParamsLst) (tps : List PTokParam) (e : Err) (tp : PTokParam) : URIParamsLst :=
  if e = .moreBytes then ((tps.map (typed b)).foldl URIParamsLst.push l).setCur { param := tp }
  else (tps.map (typed b)).foldl URIParamsLst.push l

def pvHdrsAfter (l : URIHdrsLst) (tps : List PTokParam) (e : Err) (tp : PTokParam) : URIHdrsLst :=
  if e = .moreBytes then (tps.foldl URIHdrsLst.push l).setCur tp else tps.foldl URIHdrsLst.push l

/-- [EXPORT C17] (3) **the loop of ParseAllURIParams stops with a verdict other than OK / MoreValues / EOH exactly when one of the
    items does**: the items before it are parameters of the grammar reported with `MoreValues`; offset and verdict are
    those of that item; the items before it — and only they — are counted and pushed with the type of their names -/
theorem uriParamsLoop_stop_iff {b : Buf} {flags o o' n vNo : Nat} {e : Err} {r : URIParamsLst} (hfit : b.size ≤ 65535)
    (l : URIParamsLst) (hl : l.Fresh) (hna : ¬ PSAcc e) :
    uriParamsLoop b o l flags vNo = (o', n, e, r) ↔
      ∃ tps o1 tp, PVItems b flags o tps o1 ∧ parseTokenParam b o1 {} flags = (o', e, tp) ∧
        n = vNo + tps.length ∧ r = pvParamsAfter b l tps e tp := by
  constructor
  · intro h
    obtain ⟨tps, o1, H, hmv⟩ := pv_items_exist b flags hfit _ o rfl
    rcases hp : parseTokenParam b o1 {} flags with ⟨o2, e2, tp2⟩
    rw [hp] at hmv
    rw [pv_uriParamsLoop_items hfit H l vNo hl] at h
    have hf2 := hl.pv_foldl (tps.map (typed b))
    by_cases ha : PSAcc e2
    · exfalso
      have hnm := ps_name_get hfit hp ha
      have he2 : e2 = .ok ∨ e2 = .eoh := by
        rcases ha with h1 | h1 | h1
        · exact Or.inl h1
        · exact absurd h1 hmv
        · exact Or.inr h1
      rw [uriParamsLoop_last b o1 _ flags _ o2 e2 tp2 _ (by rw [hf2.cur]; exact hp) he2 hnm] at h
      simp only [Prod.mk.injEq] at h
      rw [← h.2.2.1] at hna
      exact hna ha
    · rw [pv_uriParamsLoop_stop b o1 _ flags _ o2 e2 tp2 hf2 hp ha] at h
      simp only [Prod.mk.injEq] at h
      obtain ⟨h1, h2, h3, h4⟩ := h
      subst h1 h2 h3
      exact ⟨tps, o1, tp2, H, hp, rfl, h4.symm⟩
  · rintro ⟨tps, o1, tp, H, hp, hn, hr⟩
    rw [pv_uriParamsLoop_items hfit H l vNo hl,
      pv_uriParamsLoop_stop b o1 _ flags _ o' e tp (hl.pv_foldl _) hp hna, hn, hr]
    rfl

/-- [EXPORT C17] (3) the same for the loop of ParseAllURIHdrs -/
theorem uriHdrsLoop_stop_iff {b : Buf} {flags o o' n vNo : Nat} {e : Err} {r : URIHdrsLst} (hfit : b.size ≤ 65535)
    (l : URIHdrsLst) (hl : l.Fresh) (hna : ¬ PSAcc e) :
    uriHdrsLoop b o l flags vNo = (o', n, e, r) ↔
      ∃ tps o1 tp, PVItems b flags o tps o1 ∧ parseTokenParam b o1 {} flags = (o', e, tp) ∧
        n = vNo + tps.length ∧ r = pvHdrsAfter l tps e tp := by
  constructor
  · intro h
    obtain ⟨tps, o1, H, hmv⟩ := pv_items_exist b flags hfit _ o rfl
    rcases hp : parseTokenParam b o1 {} flags with ⟨o2, e2, tp2⟩
    rw [hp] at hmv
    rw [pv_uriHdrsLoop_items hfit H l vNo hl] at h
    have hf2 := hl.pv_foldl tps
    by_cases ha : PSAcc e2
    · exfalso
      have he2 : e2 = .ok ∨ e2 = .eoh := by
        rcases ha with h1 | h1 | h1
        · exact Or.inl h1
        · exact absurd h1 hmv
        · exact Or.inr h1
      rw [uriHdrsLoop_last b o1 _ flags _ o2 e2 tp2 (by rw [hf2.cur]; exact hp) he2] at h
      simp only [Prod.mk.injEq] at h
      rw [← h.2.2.1] at hna
      exact hna ha
    · rw [pv_uriHdrsLoop_stop b o1 _ flags _ o2 e2 tp2 hf2 hp ha] at h
      simp only [Prod.mk.injEq] at h
      obtain ⟨h1, h2, h3, h4⟩ := h
      subst h1 h2 h3
      exact ⟨tps, o1, tp2, H, hp, rfl, h4.symm⟩
  · rintro ⟨tps, o1, tp, H, hp, hn, hr⟩
    rw [pv_uriHdrsLoop_items hfit H l vNo hl,
      pv_uriHdrsLoop_stop b o1 _ flags _ o' e tp (hl.pv_foldl _) hp hna, hn, hr]
    rfl

/-- [EXPORT C17] (3) **ParseAllURIParams returns `BadChar` iff one of the items is rejected**: the items before it are parameters of
    the grammar (separator ';' added by the wrapper), the error offset is that of the rejected item (`PVBad`: it points
    at the first byte that cannot continue), N counts exactly the items before it, and the list object is the one an
    accepted list of those items leaves (each pushed with the type of its name; N, Types, slots as in `uri_param_list`) -/
theorem parseAllURIParams_badChar_iff {b : Buf} {flags o o' n : Nat} {r : URIParamsLst} (hfit : b.size ≤ 65535)
    (l : URIParamsLst) (hl : l.Fresh) :
    parseAllURIParams b o l flags = (o', n, .badChar, r) ↔
      ∃ tps o1, PVItems b (flags ||| POptParamSemiSepF) o tps o1 ∧ PVBad b (flags ||| POptParamSemiSepF) o1 o' ∧
        n = tps.length ∧ r = (tps.map (typed b)).foldl URIParamsLst.push l := by
  unfold parseAllURIParams
  rw [uriParamsLoop_stop_iff hfit l hl (by intro h; rcases h with h | h | h <;> cases h)]
  constructor
  · rintro ⟨tps, o1, tp, H, hp, hn, hr⟩
    refine ⟨tps, o1, H, tokparam_badChar_sound hp, by omega, ?_⟩
    rw [hr]; unfold pvParamsAfter; rw [if_neg (by decide)]
  · rintro ⟨tps, o1, H, hbad, hn, hr⟩
    obtain ⟨h1, h2⟩ := tokparam_badChar_complete hbad
    rcases hp : parseTokenParam b o1 {} (flags ||| POptParamSemiSepF) with ⟨o2, e2, tp2⟩
    rw [hp] at h1 h2
    simp only at h1 h2
    subst h1 h2
    refine ⟨tps, o1, tp2, H, hp, by omega, ?_⟩
    rw [hr]; unfold pvParamsAfter; rw [if_neg (by decide)]

/-- [EXPORT C17] (3) the same for ParseAllURIHdrs (separator '&') -/
theorem parseAllURIHdrs_badChar_iff {b : Buf} {flags o o' n : Nat} {r : URIHdrsLst} (hfit : b.size ≤ 65535)
    (l : URIHdrsLst) (hl : l.Fresh) :
    parseAllURIHdrs b o l flags = (o', n, .badChar, r) ↔
      ∃ tps o1, PVItems b (flags ||| POptParamAmpSepF ||| POptTokURIHdrF) o tps o1 ∧
        PVBad b (flags ||| POptParamAmpSepF ||| POptTokURIHdrF) o1 o' ∧
        n = tps.length ∧ r = tps.foldl URIHdrsLst.push l := by
  unfold parseAllURIHdrs
  rw [uriHdrsLoop_stop_iff hfit l hl (by intro h; rcases h with h | h | h <;> cases h)]
  constructor
  · rintro ⟨tps, o1, tp, H, hp, hn, hr⟩
    refine ⟨tps, o1, H, tokparam_badChar_sound hp, by omega, ?_⟩
    rw [hr]; unfold pvHdrsAfter; rw [if_neg (by decide)]
  · rintro ⟨tps, o1, H, hbad, hn, hr⟩
    obtain ⟨h1, h2⟩ := tokparam_badChar_complete hbad
    rcases hp : parseTokenParam b o1 {} (flags ||| POptParamAmpSepF ||| POptTokURIHdrF) with ⟨o2, e2, tp2⟩
    rw [hp] at h1 h2
    simp only at h1 h2
    subst h1 h2
    refine ⟨tps, o1, tp2, H, hp, by omega, ?_⟩
    rw [hr]; unfold pvHdrsAfter; rw [if_neg (by decide)]

/-- [EXPORT C17] (3) **the complete list of verdicts of the wrappers** on a list object in its reset state: `OK`, `EOH`, `MoreBytes`,
    `BadChar`; and the verdict and the offset are those of the first item that is not reported with `MoreValues` -/
theorem uriParamsLoop_outcome {b : Buf} {flags : Nat} (hfit : b.size ≤ 65535) (o : Nat) (l : URIParamsLst)
    (hl : l.Fresh) (vNo : Nat) :
    ∃ tps o1, PVItems b flags o tps o1 ∧ (parseTokenParam b o1 {} flags).2.1 ≠ .moreValues ∧
      (uriParamsLoop b o l flags vNo).1 = (parseTokenParam b o1 {} flags).1 ∧
      (uriParamsLoop b o l flags vNo).2.2.1 = (parseTokenParam b o1 {} flags).2.1 ∧
      (uriParamsLoop b o l flags vNo).2.1 =
        vNo + tps.length + (if (parseTokenParam b o1 {} flags).2.1 = .ok ∨ (parseTokenParam b o1 {} flags).2.1 = .eoh
          then 1 else 0) := by
  obtain ⟨tps, o1, H, hmv⟩ := pv_items_exist b flags hfit _ o rfl
  refine ⟨tps, o1, H, hmv, ?_⟩
  rcases hp : parseTokenParam b o1 {} flags with ⟨o2, e2, tp2⟩
  rw [hp] at hmv
  rw [pv_uriParamsLoop_items hfit H l vNo hl]
  have hf2 := hl.pv_foldl (tps.map (typed b))
  by_cases ha : PSAcc e2
  · have hnm := ps_name_get hfit hp ha
    have he2 : e2 = .ok ∨ e2 = .eoh := by
      rcases ha with h1 | h1 | h1
      · exact Or.inl h1
      · exact absurd h1 hmv
      · exact Or.inr h1
    rw [uriParamsLoop_last b o1 _ flags _ o2 e2 tp2 _ (by rw [hf2.cur]; exact hp) he2 hnm]
    exact ⟨rfl, rfl, by simp only [if_pos he2]⟩
  · rw [pv_uriParamsLoop_stop b o1 _ flags _ o2 e2 tp2 hf2 hp ha]
    have : ¬ (e2 = .ok ∨ e2 = .eoh) := by
      intro h
      rcases h with h | h
      · exact ha (Or.inl h)
      · exact ha (Or.inr (Or.inr h))
    exact ⟨rfl, rfl, by simp only [if_neg this, Nat.add_zero]⟩

/-- [EXPORT C17] (3) the same for the loop of ParseAllURIHdrs -/
theorem uriHdrsLoop_outcome {b : Buf} {flags : Nat} (hfit : b.size ≤ 65535) (o : Nat) (l : URIHdrsLst)
    (hl : l.Fresh) (vNo : Nat) :
    ∃ tps o1, PVItems b flags o tps o1 ∧ (parseTokenParam b o1 {} flags).2.1 ≠ .moreValues ∧
      (uriHdrsLoop b o l flags vNo).1 = (parseTokenParam b o1 {} flags).1 ∧
      (uriHdrsLoop b o l flags vNo).2.2.1 = (parseTokenParam b o1 {} flags).2.1 ∧
      (uriHdrsLoop b o l flags vNo).2.1 =
        vNo + tps.length + (if (parseTokenParam b o1 {} flags).2.1 = .ok ∨ (parseTokenParam b o1 {} flags).2.1 = .eoh
          then 1 else 0) := by
  obtain ⟨tps, o1, H, hmv⟩ := pv_items_exist b flags hfit _ o rfl
  refine ⟨tps, o1, H, hmv, ?_⟩
  rcases hp : parseTokenParam b o1 {} flags with ⟨o2, e2, tp2⟩
  rw [hp] at hmv
  rw [pv_uriHdrsLoop_items hfit H l vNo hl]
  have hf2 := hl.pv_foldl tps
  by_cases ha : PSAcc e2
  · have he2 : e2 = .ok ∨ e2 = .eoh := by
      rcases ha with h1 | h1 | h1
      · exact Or.inl h1
      · exact absurd h1 hmv
      · exact Or.inr h1
    rw [uriHdrsLoop_last b o1 _ flags _ o2 e2 tp2 (by rw [hf2.cur]; exact hp) he2]
    exact ⟨rfl, rfl, by simp only [if_pos he2]⟩
  · rw [pv_uriHdrsLoop_stop b o1 _ flags _ o2 e2 tp2 hf2 hp ha]
    have : ¬ (e2 = .ok ∨ e2 = .eoh) := by
      intro h
      rcases h with h | h
      · exact ha (Or.inl h)
      · exact ha (Or.inr (Or.inr h))
    exact ⟨rfl, rfl, by simp only [if_neg this, Nat.add_zero]⟩

/-- [EXPORT C17] (3) ParseAllURIParams on a list object in its reset state returns `OK`, `EOH`, `MoreBytes` or `BadChar`, nothing else -/
theorem parseAllURIParams_verdicts {b : Buf} (hfit : b.size ≤ 65535) (o : Nat) (l : URIParamsLst) (hl : l.Fresh)
    (flags : Nat) :
    (parseAllURIParams b o l flags).2.2.1 = .ok ∨ (parseAllURIParams b o l flags).2.2.1 = .eoh ∨
    (parseAllURIParams b o l flags).2.2.1 = .moreBytes ∨ (parseAllURIParams b o l flags).2.2.1 = .badChar := by
  unfold parseAllURIParams
  obtain ⟨tps, o1, _, hmv, _, h2, _⟩ := uriParamsLoop_outcome (flags := flags ||| POptParamSemiSepF) hfit o l hl 0
  rw [h2]
  rcases tokparam_verdicts b o1 (flags ||| POptParamSemiSepF) with h | h | h | h | h
  · exact Or.inl h
  · exact Or.inr (Or.inl h)
  · exact absurd h hmv
  · exact Or.inr (Or.inr (Or.inl h))
  · exact Or.inr (Or.inr (Or.inr h))

/-- [EXPORT C17] (3) ParseAllURIHdrs on a list object in its reset state returns `OK`, `EOH`, `MoreBytes` or `BadChar`, nothing else -/
theorem parseAllURIHdrs_verdicts {b : Buf} (hfit : b.size ≤ 65535) (o : Nat) (l : URIHdrsLst) (hl : l.Fresh)
    (flags : Nat) :
    (parseAllURIHdrs b o l flags).2.2.1 = .ok ∨ (parseAllURIHdrs b o l flags).2.2.1 = .eoh ∨
    (parseAllURIHdrs b o l flags).2.2.1 = .moreBytes ∨ (parseAllURIHdrs b o l flags).2.2.1 = .badChar := by
  unfold parseAllURIHdrs
  obtain ⟨tps, o1, _, hmv, _, h2, _⟩ :=
    uriHdrsLoop_outcome (flags := flags ||| POptParamAmpSepF ||| POptTokURIHdrF) hfit o l hl 0
  rw [h2]
  rcases tokparam_verdicts b o1 (flags ||| POptParamAmpSepF ||| POptTokURIHdrF) with h | h | h | h | h
  · exact Or.inl h
  · exact Or.inr (Or.inl h)
  · exact absurd h hmv
  · exact Or.inr (Or.inr (Or.inl h))
  · exact Or.inr (Or.inr (Or.inr h))

/-! ### (4) a rejection is final: appended bytes, chunk schedules -/

/-- [EXPORT C17] (4) a rejected text stays rejected, at the same byte, whatever is appended (no end-of-input option: that option is a
    statement about where the input ends) — composition with C03 (`stable_tokparam`) -/
theorem tokparam_badChar_append {b : Buf} {o flags p : Nat} (hf : hasFlag flags POptInputEndF = false)
    (h : PVBad b flags o p) (s : Buf) :
    (parseTokenParam (b ++ s) o {} flags).1 = p ∧ (parseTokenParam (b ++ s) o {} flags).2.1 = .badChar ∧
      PVBad (b ++ s) flags o p := by
  obtain ⟨h1, h2⟩ := tokparam_badChar_complete h
  rcases hr : parseTokenParam b o {} flags with ⟨p1, e, p'⟩
  rw [hr] at h1 h2
  simp only at h1 h2
  subst h1 h2
  have := parseTokenParam_stable b s o {} flags hf hr (by decide)
  rw [this]
  exact ⟨rfl, rfl, tokparam_badChar_sound this⟩

/-- [EXPORT C17] (4) **a rejection under every chunk schedule** — composition with C02 (`schedule_tokparam`): the complete buffer `B`
    (the last of the growing prefixes) holds a text rejected at `p`; the chain of resumed calls, however the input was
    cut, returns `BadChar` at `p` with the very object of the one-shot call -/
theorem tokparam_badChar_any_schedule (flags : Nat) (hf : hasFlag flags POptInputEndF = false) (o p : Nat)
    (bs : List Buf) (hne : bs ≠ []) (hg : Growing bs) (h : PVBad (bs.getLast hne) flags o p) :
    resumeRun (fun b o p => parseTokenParam b o p flags) o {} bs =
      (p, .badChar, (parseTokenParam (bs.getLast hne) o {} flags).2.2) := by
  obtain ⟨h1, h2⟩ := tokparam_badChar_complete h
  rcases hr : parseTokenParam (bs.getLast hne) o {} flags with ⟨p1, e, p'⟩
  rw [hr] at h1 h2
  simp only at h1 h2
  subst h1 h2
  exact tokparam_any_schedule flags hf o {} bs hne hg hr

/-- [EXPORT C17] the same for every verdict of ParseAllURIParams: what ONE call on the complete buffer returns — offset, verdict,
    number of values, list object — is what the chain of resumed calls returns (the numbers of values of the calls
    added up), under every chunk schedule -/
theorem uriparams_any_schedule (flags o : Nat) (bs : List Buf) (hne : bs ≠ []) (hg : Growing bs)
    (hf : hasFlag flags POptInputEndF = false) (ho : ∀ b ∈ bs.head?, o ≤ b.size) (l : URIParamsLst) (hl : l.Fresh)
    {o' n : Nat} {e : Err} {r : URIParamsLst}
    (hone : parseAllURIParams (bs.getLast hne) o l flags = (o', n, e, r)) :
    resumeRun (uriParamsParser flags) o (0, l) bs = (o', e, (n, r)) := by
  have hall := spGrowing_head_le hg ho
  rw [parseAllURIParams_schedule flags hf o l bs hg (fun b hb => ⟨hl.sp_plOK b, ho b hb⟩),
    spOneShotRun_stable (uriParamsParser flags) o (0, l) bs hne hg
      (fun b hb s hv => by
        rcases hp : parseAllURIParams b o l flags with ⟨o1, n1, e1, l1⟩
        have hv' : e1 ≠ .moreBytes := by
          unfold uriParamsParser at hv; simp only [hp] at hv; exact hv
        have := parseAllURIParams_stable b s o l flags hf (hl.sp_plOK b) (hall b hb) hp hv'
        unfold uriParamsParser
        simp only [hp, this])]
  unfold uriParamsParser
  simp only [hone, Nat.zero_add]

/-- [EXPORT C17] the same for every verdict of ParseAllURIHdrs -/
theorem urihdrs_any_schedule (flags o : Nat) (bs : List Buf) (hne : bs ≠ []) (hg : Growing bs)
    (hf : hasFlag flags POptInputEndF = false) (ho : ∀ b ∈ bs.head?, o ≤ b.size) (l : URIHdrsLst) (hl : l.Fresh)
    {o' n : Nat} {e : Err} {r : URIHdrsLst}
    (hone : parseAllURIHdrs (bs.getLast hne) o l flags = (o', n, e, r)) :
    resumeRun (uriHdrsParser flags) o (0, l) bs = (o', e, (n, r)) := by
  have hall := spGrowing_head_le hg ho
  rw [parseAllURIHdrs_schedule flags hf o l bs hg (fun b hb => ⟨hl.sp_hlClean, ho b hb⟩),
    spOneShotRun_stable (uriHdrsParser flags) o (0, l) bs hne hg
      (fun b hb s hv => by
        rcases hp : parseAllURIHdrs b o l flags with ⟨o1, n1, e1, l1⟩
        have hv' : e1 ≠ .moreBytes := by
          unfold uriHdrsParser at hv; simp only [hp] at hv; exact hv
        have := parseAllURIHdrs_stable b s o l flags hf hl.sp_hlClean (hall b hb) hp hv'
        unfold uriHdrsParser
        simp only [hp, this])]
  unfold uriHdrsParser
  simp only [hone, Nat.zero_add]

/-- [EXPORT C17] (4) **a rejected list under every chunk schedule and with appended bytes**: the complete buffer holds `tps` items of
    the grammar followed by an item rejected at `o'`; however the input is cut, the chain of resumed ParseAllURIParams
    calls returns `BadChar` at `o'`, the values counted over all calls add up to the number of items before the
    rejected one, and the list object holds exactly those items -/
theorem uriparams_badChar_any_schedule (flags o o1 o' : Nat) (tps : List PTokParam) (bs : List Buf) (hne : bs ≠ [])
    (hg : Growing bs) (hf : hasFlag flags POptInputEndF = false) (hfit : (bs.getLast hne).size ≤ 65535)
    (ho : ∀ b ∈ bs.head?, o ≤ b.size) (l : URIParamsLst) (hl : l.Fresh)
    (H : PVItems (bs.getLast hne) (flags ||| POptParamSemiSepF) o tps o1)
    (hbad : PVBad (bs.getLast hne) (flags ||| POptParamSemiSepF) o1 o') :
    resumeRun (uriParamsParser flags) o (0, l) bs =
      (o', .badChar, (tps.length, (tps.map (typed (bs.getLast hne))).foldl URIParamsLst.push l)) :=
  uriparams_any_schedule flags o bs hne hg hf ho l hl
    ((parseAllURIParams_badChar_iff hfit l hl).2 ⟨tps, o1, H, hbad, rfl, rfl⟩)

/-- [EXPORT C17] (4) the same for ParseAllURIHdrs -/
theorem urihdrs_badChar_any_schedule (flags o o1 o' : Nat) (tps : List PTokParam) (bs : List Buf) (hne : bs ≠ [])
    (hg : Growing bs) (hf : hasFlag flags POptInputEndF = false) (hfit : (bs.getLast hne).size ≤ 65535)
    (ho : ∀ b ∈ bs.head?, o ≤ b.size) (l : URIHdrsLst) (hl : l.Fresh)
    (H : PVItems (bs.getLast hne) (flags ||| POptParamAmpSepF ||| POptTokURIHdrF) o tps o1)
    (hbad : PVBad (bs.getLast hne) (flags ||| POptParamAmpSepF ||| POptTokURIHdrF) o1 o') :
    resumeRun (uriHdrsParser flags) o (0, l) bs = (o', .badChar, (tps.length, tps.foldl URIHdrsLst.push l)) :=
  urihdrs_any_schedule flags o bs hne hg hf ho l hl
    ((parseAllURIHdrs_badChar_iff hfit l hl).2 ⟨tps, o1, H, hbad, rfl, rfl⟩)

/-- [EXPORT C17] (4) a rejected list stays rejected whatever is appended (C03: `stable_uriparams`) -/
theorem uriparams_badChar_append {b : Buf} {flags o o' n : Nat} {r : URIParamsLst}
    (hf : hasFlag flags POptInputEndF = false) (l : URIParamsLst) (hl : l.Fresh) (ho : o ≤ b.size)
    (h : parseAllURIParams b o l flags = (o', n, .badChar, r)) (s : Buf) :
    parseAllURIParams (b ++ s) o l flags = (o', n, .badChar, r) :=
  parseAllURIParams_stable b s o l flags hf (hl.sp_plOK b) ho h (by decide)

/-- [EXPORT C17] (4) the same for ParseAllURIHdrs (C03: `stable_urihdrs`) -/
theorem urihdrs_badChar_append {b : Buf} {flags o o' n : Nat} {r : URIHdrsLst}
    (hf : hasFlag flags POptInputEndF = false) (l : URIHdrsLst) (hl : l.Fresh) (ho : o ≤ b.size)
    (h : parseAllURIHdrs b o l flags = (o', n, .badChar, r)) (s : Buf) :
    parseAllURIHdrs (b ++ s) o l flags = (o', n, .badChar, r) :=
  parseAllURIHdrs_stable b s o l flags hf hl.sp_hlClean ho h (by decide)

/-! ### the text read so far really is the beginning of a parameter: explicit continuations -/

/-- the buffers `b` and `b'` hold the same bytes below `n` -/
def PVAgree (b b' : Buf) (n : Nat) : Prop := ∀ k, k < n → b'[k]? = b[k]?

theorem PVAgree.mono {b b' : Buf} {n m : Nat} (h : PVAgree b b' n) (hm : m ≤ n) : PVAgree b b' m :=
  fun k hk => h k (by omega)

theorem PVAgree.get {b b' : Buf} {n k : Nat} {c : UInt8} (h : PVAgree b b' n) (hk : k < n) (hb : b[k]? = some c) :
    b'[k]? = some c := by rw [h k hk]; exact hb

theorem PVAgree.append (b s : Buf) : PVAgree b (b ++ s) b.size :=
  fun _ hk => Array.getElem?_append_left hk

theorem Eol.pv_agree {b b' : Buf} {p e : Nat} (h : Eol b p e) (ha : PVAgree b b' (e + 1)) : Eol b' p e := by
  cases h with
  | crlf h0 h1 => exact Eol.crlf p (ha.get (by omega) h0) (ha.get (by omega) h1)
  | cr c h0 h1 hc => exact Eol.cr p c (ha.get (by omega) h0) (ha.get (by omega) h1) hc
  | lf c h0 h1 => exact Eol.lf p c (ha.get (by omega) h0) (ha.get (by omega) h1)

theorem Lws.pv_agree {b b' : Buf} {i n : Nat} (h : Lws b i n) (ha : PVAgree b b' n) : Lws b' i n := by
  induction h with
  | nil i => exact Lws.nil i
  | ws i n c hc hw hrest ih =>
    have := hrest.le
    exact Lws.ws i n c (ha.get (by omega) hc) hw (ih ha)
  | fold i e n c2 he hc hw hrest ih =>
    have := hrest.le
    exact Lws.fold i e n c2 (he.pv_agree (ha.mono (by omega))) (ha.get (by omega) hc) hw (ih ha)

theorem Pad.pv_agree {b b' : Buf} {sep : UInt8} {i n : Nat} (h : Pad b sep i n) (ha : PVAgree b b' n) :
    Pad b' sep i n := by
  induction h with
  | nil i => exact Pad.nil i
  | item i s n hl hs hrest ih =>
    have := hrest.le
    exact Pad.item i s n (hl.pv_agree (ha.mono (by omega))) (ha.get (by omega) hs) (ih ha)

theorem PRun.pv_agree {b b' : Buf} {flags i j : Nat} (h : PRun b flags i j) (ha : PVAgree b b' j) :
    PRun b' flags i j := by
  intro k h1 h2
  obtain ⟨c, hc, hp⟩ := h k h1 h2
  exact ⟨c, ha.get h2 hc, hp⟩

theorem QBody.pv_agree {b b' : Buf} {i e : Nat} (h : QBody b i e) (ha : PVAgree b b' e) : QBody b' i e := by
  induction h with
  | close i h0 => exact QBody.close i (ha.get (by omega) h0)
  | plain i e c h0 hq hrest ih =>
    have := hrest.lt
    exact QBody.plain i e c (ha.get (by omega) h0) hq (ih ha)
  | esc i e c1 h0 h1 hcr hrest ih =>
    have := hrest.lt
    exact QBody.esc i e c1 (ha.get (by omega) h0) (ha.get (by omega) h1) hcr (ih ha)

theorem PVQPre.pv_agree {b b' : Buf} {i e : Nat} (h : PVQPre b i e) (ha : PVAgree b b' e) : PVQPre b' i e := by
  induction h with
  | nil i => exact PVQPre.nil i
  | plain i e c h0 hq hrest ih =>
    have := hrest.le
    exact PVQPre.plain i e c (ha.get (by omega) h0) hq (ih ha)
  | esc i e c1 h0 h1 hcr hrest ih =>
    have := hrest.le
    exact PVQPre.esc i e c1 (ha.get (by omega) h0) (ha.get (by omega) h1) hcr (ih ha)

theorem PVHead.pv_agree {b b' : Buf} {flags o n0 n1 : Nat} (h : PVHead b flags o n0 n1) (ha : PVAgree b b' n1) :
    PVHead b' flags o n0 n1 := by
  obtain ⟨t, c0, h1, h2, h3, h4, h5, h6, h7⟩ := h
  have := h2.le
  exact ⟨t, c0, h1.pv_agree (ha.mono (by omega)), h2.pv_agree (ha.mono (by omega)), ha.get h7 h3, h4, h5,
    h6.pv_agree ha, h7⟩

theorem PVHead.lt {b : Buf} {flags o n0 n1 : Nat} (h : PVHead b flags o n0 n1) : o ≤ n0 ∧ n0 < n1 := by
  obtain ⟨t, c0, h1, h2, _, _, _, _, h7⟩ := h
  have := h1.le
  have := h2.le
  exact ⟨by omega, h7⟩

theorem PVEq.pv_agree {b b' : Buf} {flags o q : Nat} (h : PVEq b flags o q) (ha : PVAgree b b' (q + 1)) :
    PVEq b' flags o q := by
  obtain ⟨n0, n1, h1, h2, h3⟩ := h
  have := h2.le
  exact ⟨n0, n1, h1.pv_agree (ha.mono (by omega)), h2.pv_agree (ha.mono (by omega)), ha.get (by omega) h3⟩

theorem PVDone.pv_agree {b b' : Buf} {flags o j : Nat} (h : PVDone b flags o j) (ha : PVAgree b b' j) :
    PVDone b' flags o j := by
  cases h with
  | name n0 n1 hh => exact PVDone.name n0 j (hh.pv_agree ha)
  | empty q he => exact PVDone.empty q (he.pv_agree ha)
  | tok q v0 v1 he hl hr hv =>
    have := hl.le
    exact PVDone.tok q v0 j (he.pv_agree (ha.mono (by omega))) (hl.pv_agree (ha.mono (by omega))) (hr.pv_agree ha) hv
  | quo q v0 qe he hl h34 hqb =>
    have := hl.le
    have := hqb.lt
    exact PVDone.quo q v0 j (he.pv_agree (ha.mono (by omega))) (hl.pv_agree (ha.mono (by omega)))
      (ha.get (by omega) h34) (hqb.pv_agree ha)

theorem PVAt.pv_agree {b b' : Buf} {flags o i : Nat} {st : TPState} (h : PVAt b flags o i st) (ha : PVAgree b b' i) :
    PVAt b' flags o i st := by
  cases h with
  | init t i hp hl =>
    have := hl.le
    exact PVAt.init t i (hp.pv_agree (ha.mono (by omega))) (hl.pv_agree ha)
  | name n0 i hh => exact PVAt.name n0 i (hh.pv_agree ha)
  | fEq n0 n1 i hh hl hlt => exact PVAt.fEq n0 n1 i (hh.pv_agree (ha.mono (by omega))) (hl.pv_agree ha) hlt
  | fVal q i he hl =>
    have := hl.le
    exact PVAt.fVal q i (he.pv_agree (ha.mono (by omega))) (hl.pv_agree ha)
  | val q v0 i he hl hr hv =>
    have := hl.le
    exact PVAt.val q v0 i (he.pv_agree (ha.mono (by omega))) (hl.pv_agree (ha.mono (by omega))) (hr.pv_agree ha) hv
  | quotedVal q v0 he hl h34 =>
    have := hl.le
    exact PVAt.quotedVal q v0 (he.pv_agree (ha.mono (by omega))) (hl.pv_agree (ha.mono (by omega)))
      (ha.get (by omega) h34)
  | fSepTok q v0 v1 i he hl hr hv hl2 hlt2 =>
    have := hl.le
    exact PVAt.fSepTok q v0 v1 i (he.pv_agree (ha.mono (by omega))) (hl.pv_agree (ha.mono (by omega)))
      (hr.pv_agree (ha.mono (by omega))) hv (hl2.pv_agree ha) hlt2
  | fSepQuo q v0 qe i he hl h34 hqb hl2 =>
    have := hl.le
    have := hqb.lt
    have := hl2.le
    exact PVAt.fSepQuo q v0 qe i (he.pv_agree (ha.mono (by omega))) (hl.pv_agree (ha.mono (by omega)))
      (ha.get (by omega) h34) (hqb.pv_agree (ha.mono (by omega))) (hl2.pv_agree ha)
  | fNxt j s t i hd hl1 hs hp hl2 =>
    have := hl1.le
    have := hp.le
    have := hl2.le
    exact PVAt.fNxt j s t i (hd.pv_agree (ha.mono (by omega))) (hl1.pv_agree (ha.mono (by omega)))
      (ha.get (by omega) hs) (hp.pv_agree (ha.mono (by omega))) (hl2.pv_agree ha)

/-- [EXPORT C17] **a complete item followed by one of the endings of the grammar is a parameter of the grammar** (`PSParam`; the
    object reported is the one `PSParam` fixes) -/
theorem PVDone.psParam {b : Buf} {flags o j o' : Nat} {e : Err} {st : TPState} (hd : PVDone b flags o j)
    (hE : Ending b flags j o' e st) : ∃ p', PSParam b flags {} o o' e p' := by
  cases hd with
  | name n0 n1 hh =>
    obtain ⟨t, c0, h1, h2, h3, h4, h5, h6, h7⟩ := hh
    exact ⟨_, PSParam.named o t n0 j o' c0 e _ h1 h2 h3 h4 h5 h6 h7
      (PSAfterName.close j o' e st (PSClose.ending _ _ _ _ hE))⟩
  | empty q he =>
    obtain ⟨n0, n1, ⟨t, c0, h1, h2, h3, h4, h5, h6, h7⟩, hlq, h61⟩ := he
    have key : ∃ p', PSValue b flags (psAfterEq (psNamed {} n0) n1 q) (q + 1) o' e p' := by
      cases hE with
      | sep s o'' e' st' hl hs hA => exact ⟨_, PSValue.emptySep (q + 1) s o' e st hl hs hA⟩
      | term u hl hu hne => exact ⟨_, PSValue.emptyTerm (q + 1) o' hl hu hne⟩
      | eoh x e2 c2 hl he2 h2 hw =>
        have := he2.gt
        have e1 : x + (o' - x) = o' := by omega
        have := PSValue.noValue (p := psAfterEq (psNamed {} n0) n1 q) (q + 1) x x (o' - x) hl
          (PSEnd.eoh (flags := flags) x o' c2 he2 h2 hw)
        rw [e1] at this
        exact ⟨_, this⟩
      | inputEnd x hf hl hend =>
        exact ⟨_, PSValue.noValue (p := psAfterEq (psNamed {} n0) n1 q) (q + 1) x b.size 0 hl
          (PSEnd.inputEnd x hf hend)⟩
    obtain ⟨p', hV⟩ := key
    exact ⟨p', PSParam.named o t n0 n1 o' c0 e p' h1 h2 h3 h4 h5 h6 h7 (PSAfterName.value n1 q o' e p' hlq h61 hV)⟩
  | tok q v0 v1 he hl hr hv =>
    obtain ⟨n0, n1, ⟨t, c0, h1, h2, h3, h4, h5, h6, h7⟩, hlq, h61⟩ := he
    exact ⟨_, PSParam.named o t n0 n1 o' c0 e _ h1 h2 h3 h4 h5 h6 h7
      (PSAfterName.value n1 q o' e _ hlq h61
        (PSValue.token (q + 1) v0 j o' e st hl hr hv (PSClose.ending _ _ _ _ hE)))⟩
  | quo q v0 qe he hl h34 hqb =>
    obtain ⟨n0, n1, ⟨t, c0, h1, h2, h3, h4, h5, h6, h7⟩, hlq, h61⟩ := he
    exact ⟨_, PSParam.named o t n0 n1 o' c0 e _ h1 h2 h3 h4 h5 h6 h7
      (PSAfterName.value n1 q o' e _ hlq h61
        (PSValue.quoted (q + 1) v0 j o' e st hl h34 hqb (PSClose.ending _ _ _ _ hE)))⟩

/-- CR LF and a byte that is not white space, at `m`: the end of the header -/
def PVTail (B : Buf) (m : Nat) : Prop := B[m]? = some 13 ∧ B[m + 1]? = some 10 ∧ B[m + 2]? = some 120

theorem PVTail.ending {B : Buf} {flags j m : Nat} (hl : Lws B j m) (ht : PVTail B m) :
    Ending B flags j (m + 2) .eoh .fin :=
  Ending.eoh j m (m + 2) 120 hl (Eol.crlf m ht.1 ht.2.1) ht.2.2 (by decide)

/-- in every state but the two that need one more byte first, the end of the header completes the parameter -/
theorem pv_complete_eol {B : Buf} {flags o m : Nat} {st : TPState} (h : PVAt B flags o m st)
    (hst : st ≠ .init ∧ st ≠ .quotedVal) (ht : PVTail B m) : ∃ p', PSParam B flags {} o (m + 2) .eoh p' := by
  cases h with
  | init t i hp hl => exact absurd rfl hst.1
  | name n0 i hh => exact (PVDone.name n0 m hh).psParam (ht.ending (Lws.nil m))
  | fEq n0 n1 i hh hl hlt => exact (PVDone.name n0 n1 hh).psParam (ht.ending hl)
  | fVal q i he hl => exact (PVDone.empty q he).psParam (ht.ending hl)
  | val q v0 i he hl hr hv => exact (PVDone.tok q v0 m he hl hr hv).psParam (ht.ending (Lws.nil m))
  | quotedVal q v0 he hl h34 => exact absurd rfl hst.2
  | fSepTok q v0 v1 i he hl hr hv hl2 hlt2 => exact (PVDone.tok q v0 v1 he hl hr hv).psParam (ht.ending hl2)
  | fSepQuo q v0 qe i he hl h34 hqb hl2 => exact (PVDone.quo q v0 qe he hl h34 hqb).psParam (ht.ending hl2)
  | fNxt j s t i hd hl1 hs hp hl2 =>
    exact hd.psParam (Ending.sep j s (m + 2) .eoh .fin hl1 hs
      (AfterSep.eoh (s + 1) t m (m + 2) 120 hp hl2 (Eol.crlf m ht.1 ht.2.1) ht.2.2 (by decide)))

theorem pv_allowed_a (flags : Nat) : tokAllowedChar 97 flags = true := by
  unfold tokAllowedChar; simp

theorem pv_a_ne_sep (flags : Nat) : (97 : UInt8) ≠ tpSep flags := by
  rcases tpSep_cases flags with h | h <;> (rw [h]; decide)

/-- before a name: a name byte, then the end of the header -/
theorem pv_complete_init {B : Buf} {flags o m : Nat} (h : PVAt B flags o m .init) (ha : B[m]? = some 97)
    (ht : PVTail B (m + 1)) : ∃ p', PSParam B flags {} o (m + 3) .eoh p' := by
  obtain ⟨t, hp, hl⟩ := h.inv_init
  have hh : PVHead B flags o m (m + 1) :=
    ⟨t, 97, hp, hl, ha, pv_allowed_a flags, pv_a_ne_sep flags, (fun k h1 h2 => by omega), by omega⟩
  exact pv_complete_eol (PVAt.name m (m + 1) hh) (by decide) ht

theorem PVQPre.pv_close {b : Buf} {i r : Nat} (h : PVQPre b i r) (hq : b[r]? = some 34) : QBody b i (r + 1) := by
  induction h with
  | nil i => exact QBody.close i hq
  | plain i e c h0 hp _ ih => exact QBody.plain i (e + 1) c h0 hp (ih hq)
  | esc i e c1 h0 h1 hcr _ ih => exact QBody.esc i (e + 1) c1 h0 h1 hcr (ih hq)

theorem PVQPre.pv_snoc_esc {b : Buf} {i m : Nat} {c1 : UInt8} (h : PVQPre b i m) (h92 : b[m]? = some 92)
    (h1 : b[m + 1]? = some c1) (hcr : isCRLFch c1 = false) : PVQPre b i (m + 2) := by
  induction h with
  | nil i => exact PVQPre.esc i (i + 2) c1 h92 h1 hcr (PVQPre.nil _)
  | plain i e c h0 hp _ ih => exact PVQPre.plain i (e + 2) c h0 hp (ih h92 h1)
  | esc i e c2 h0 h2 hcr2 _ ih => exact PVQPre.esc i (e + 2) c2 h0 h2 hcr2 (ih h92 h1)

/-- inside an open quoted string: the closing quote, then the end of the header -/
theorem pv_complete_quoted {B : Buf} {flags o q v0 r : Nat} (he : PVEq B flags o q) (hl : Lws B (q + 1) v0)
    (h34 : B[v0]? = some 34) (hpre : PVQPre B (v0 + 1) r) (hq : B[r]? = some 34) (ht : PVTail B (r + 1)) :
    ∃ p', PSParam B flags {} o (r + 3) .eoh p' :=
  (PVDone.quo q v0 (r + 1) he hl h34 (hpre.pv_close hq)).psParam (ht.ending (Lws.nil _))

theorem pv_get_app (b1 s : Buf) (k : Nat) : (b1 ++ s)[b1.size + k]? = s[k]? := by
  rw [Array.getElem?_append_right (by omega), Nat.add_sub_cancel_left]

/-- the bytes appended to a text that stops in state `st` to complete it: `a CR LF x` before a name, `" CR LF x` right
    after an opening quote, `CR LF x` everywhere else -/
def pvExt (st : TPState) : Buf :=
  match st with
  | .init => #[97, 13, 10, 120]
  | .quotedVal => #[34, 13, 10, 120]
  | _ => #[13, 10, 120]

theorem pv_complete_end_eol {b : Buf} {flags o : Nat} {st : TPState} (h : PVAt b flags o b.size st)
    (hst : st ≠ .init ∧ st ≠ .quotedVal) : ∃ o' p', PSParam (b ++ #[13, 10, 120]) flags {} o o' .eoh p' := by
  have hB := h.pv_agree (PVAgree.append b #[13, 10, 120])
  refine ⟨_, pv_complete_eol hB hst ⟨?_, ?_, ?_⟩⟩
  · exact pv_get_app b _ 0
  · exact pv_get_app b _ 1
  · exact pv_get_app b _ 2

/-- **a text that stops at the end of the buffer in state `st` becomes a parameter of the grammar when `pvExt st` is
    appended** (end of the header: verdict `EOH`) -/
theorem pv_complete_at_end {b : Buf} {flags o : Nat} {st : TPState} (h : PVAt b flags o b.size st) :
    ∃ o' p', PSParam (b ++ pvExt st) flags {} o o' .eoh p' := by
  cases st with
  | init =>
    have hB := h.pv_agree (PVAgree.append b (pvExt .init))
    exact ⟨_, pv_complete_init hB (pv_get_app b _ 0) ⟨pv_get_app b _ 1, pv_get_app b _ 2, pv_get_app b _ 3⟩⟩
  | quotedVal =>
    have hB := h.pv_agree (PVAgree.append b (pvExt .quotedVal))
    obtain ⟨q, v0, he, hl, h34, hi⟩ := hB.inv_quotedVal
    have hpre : PVQPre (b ++ pvExt .quotedVal) (v0 + 1) b.size := by rw [hi]; exact PVQPre.nil _
    exact ⟨_, pv_complete_quoted he hl h34 hpre (pv_get_app b _ 0)
      ⟨pv_get_app b _ 1, pv_get_app b _ 2, pv_get_app b _ 3⟩⟩
  | name => exact pv_complete_end_eol h (by decide)
  | fEq => exact pv_complete_end_eol h (by decide)
  | fVal => exact pv_complete_end_eol h (by decide)
  | val => exact pv_complete_end_eol h (by decide)
  | fSep => exact pv_complete_end_eol h (by decide)
  | fNxt => exact pv_complete_end_eol h (by decide)
  | initNxtVal => exact absurd rfl h.live.2.2
  | err => exact absurd rfl h.live.1
  | fin => exact absurd rfl h.live.2.1

theorem PVAgree.trans {b b1 b2 : Buf} {n : Nat} (h1 : PVAgree b b1 n) (h2 : PVAgree b1 b2 n) : PVAgree b b2 n :=
  fun k hk => (h2 k hk).trans (h1 k hk)

theorem pv_agree_extract (b : Buf) (p : Nat) (hp : p ≤ b.size) :
    (b.extract 0 p).size = p ∧ PVAgree b (b.extract 0 p) p := by
  have hsz : (b.extract 0 p).size = p := by rw [Array.size_extract]; omega
  refine ⟨hsz, fun k hk => ?_⟩
  rw [Array.getElem?_extract, if_pos (by omega), Nat.zero_add]

theorem Lws.pv_le_size {b : Buf} {i n : Nat} (h : Lws b i n) (hi : i ≤ b.size) : n ≤ b.size := by
  induction h with
  | nil i => exact hi
  | ws i n c hc _ _ ih => have := get?_lt hc; exact ih (by omega)
  | fold i e n c2 _ hc _ _ ih => have := get?_lt hc; exact ih (by omega)

/-- [EXPORT C17] (1) **the text before a rejected byte is a proper prefix of a parameter of the grammar**: if `BadChar` is reported at
    `p`, there is a buffer `B` with the same bytes below `p` that holds a parameter of the grammar `PSParam` at `o`
    (accepted with `EOH`); `B` is `b[0:p]` followed by at most five bytes (`a`, `"`, CR LF `x`) -/
theorem tokparam_badChar_prefix_extends {b : Buf} {flags o p : Nat} (h : PVBad b flags o p) :
    ∃ B o' p', PVAgree b B p ∧ PSParam B flags {} o o' .eoh p' := by
  cases h with
  | byte st c hP hb hrej =>
    obtain ⟨hsz, hag⟩ := pv_agree_extract b p (by have := get?_lt hb; omega)
    have hP1 : PVAt (b.extract 0 p) flags o (b.extract 0 p).size st := by
      rw [hsz]; exact hP.pv_agree hag
    obtain ⟨o', p', H⟩ := pv_complete_at_end hP1
    refine ⟨_, o', p', hag.trans ?_, H⟩
    have := PVAgree.append (b.extract 0 p) (pvExt st)
    rw [hsz] at this
    exact this
  | quoted q v0 c he hl h34 hpre hc hbad =>
    obtain ⟨hsz, hag⟩ := pv_agree_extract b p (by have := get?_lt hc; omega)
    have hag2 : PVAgree b (b.extract 0 p ++ #[34, 13, 10, 120]) p := by
      refine hag.trans ?_
      have := PVAgree.append (b.extract 0 p) #[34, 13, 10, 120]
      rw [hsz] at this
      exact this
    have hle := hpre.le
    have hl1 := hl.le
    have g : ∀ k, (b.extract 0 p ++ #[34, 13, 10, 120])[p + k]? = (#[34, 13, 10, 120] : Buf)[k]? := by
      intro k
      have := pv_get_app (b.extract 0 p) #[34, 13, 10, 120] k
      rw [hsz] at this
      exact this
    refine ⟨_, _, _, hag2, (pv_complete_quoted (he.pv_agree (hag2.mono (by omega))) (hl.pv_agree (hag2.mono (by omega)))
      (hag2.get (by omega) h34) (hpre.pv_agree hag2) (g 0) ⟨g 1, g 2, g 3⟩).choose_spec⟩
  | quotedEsc q v0 m c he hl h34 hpre h92 hpm hc hcr =>
    subst hpm
    obtain ⟨hsz, hag⟩ := pv_agree_extract b (m + 1) (by have := get?_lt hc; omega)
    have hag2 : PVAgree b (b.extract 0 (m + 1) ++ #[97, 34, 13, 10, 120]) (m + 1) := by
      refine hag.trans ?_
      have := PVAgree.append (b.extract 0 (m + 1)) #[97, 34, 13, 10, 120]
      rw [hsz] at this
      exact this
    have hle := hpre.le
    have hl1 := hl.le
    have g : ∀ k, (b.extract 0 (m + 1) ++ #[97, 34, 13, 10, 120])[m + 1 + k]? =
        (#[97, 34, 13, 10, 120] : Buf)[k]? := by
      intro k
      have := pv_get_app (b.extract 0 (m + 1)) #[97, 34, 13, 10, 120] k
      rw [hsz] at this
      exact this
    have hpre2 := (hpre.pv_agree (hag2.mono (by omega))).pv_snoc_esc (hag2.get (by omega) h92) (g 0) (by decide)
    refine ⟨_, _, _, hag2, (pv_complete_quoted (he.pv_agree (hag2.mono (by omega)))
      (hl.pv_agree (hag2.mono (by omega))) (hag2.get (by omega) h34) hpre2 (g 1) ⟨g 2, g 3, g 4⟩).choose_spec⟩

theorem PVBad.pv_agree {b b' : Buf} {flags o p : Nat} (h : PVBad b flags o p) (ha : PVAgree b b' (p + 1)) :
    PVBad b' flags o p := by
  cases h with
  | byte st c hP hb hrej =>
    exact PVBad.byte st c (hP.pv_agree (ha.mono (by omega))) (ha.get (by omega) hb) hrej
  | quoted q v0 c he hl h34 hpre hc hbad =>
    have := hpre.le
    have := hl.le
    exact PVBad.quoted q v0 c (he.pv_agree (ha.mono (by omega))) (hl.pv_agree (ha.mono (by omega)))
      (ha.get (by omega) h34) (hpre.pv_agree (ha.mono (by omega))) (ha.get (by omega) hc) hbad
  | quotedEsc q v0 m c he hl h34 hpre h92 hpm hc hcr =>
    subst hpm
    have := hpre.le
    have := hl.le
    exact PVBad.quotedEsc q v0 m c (he.pv_agree (ha.mono (by omega))) (hl.pv_agree (ha.mono (by omega)))
      (ha.get (by omega) h34) (hpre.pv_agree (ha.mono (by omega))) (ha.get (by omega) h92) rfl
      (ha.get (by omega) hc) hcr

/-- [EXPORT C17] (1) **the rejected byte cannot continue ANY parameter**: if `BadChar` is reported at `p` on `b`, then EVERY buffer
    with the same bytes up to and including `p` — whatever follows — is rejected with `BadChar` at `p` (so none of them is
    accepted or suspended). With `tokparam_badChar_prefix_extends` (the bytes before `p` CAN be continued to a parameter):
    the error offset is that of the first byte that cannot continue a parameter of the grammar. -/
theorem tokparam_badChar_local {b b' : Buf} {flags o p : Nat} (h : PVBad b flags o p) (ha : PVAgree b b' (p + 1)) :
    (parseTokenParam b' o {} flags).1 = p ∧ (parseTokenParam b' o {} flags).2.1 = .badChar :=
  tokparam_badChar_complete (h.pv_agree ha)

/-- the rest of the buffer of a suspended call — white space cut by the end of the buffer — becomes complete linear
    white space when one space is appended -/
theorem pv_endTail_space {b : Buf} {q : Nat} (hq : q ≤ b.size) (hend : EndTail b q) :
    Lws (b ++ #[32]) q (b.size + 1) := by
  have hag := PVAgree.append b #[32]
  have g0 : (b ++ #[32])[b.size]? = some 32 := pv_get_app b #[32] 0
  cases hend with
  | none h0 =>
    have := get?_none_ge h0
    have e : q = b.size := by omega
    subst e
    exact Lws.ws _ _ 32 g0 (by decide) (Lws.nil _)
  | one c h0 hcr h1 =>
    have h2 := get?_lt h0
    have h3 := get?_none_ge h1
    have e : b.size = q + 1 := by omega
    rw [e] at g0 hag ⊢
    have hq0 := hag.get (by omega) h0
    unfold isCRLFch at hcr
    simp only [Bool.or_eq_true, beq_iff_eq] at hcr
    rcases hcr with rfl | rfl
    · exact Lws.fold q (q + 1) (q + 1 + 1) 32 (Eol.cr q 32 hq0 g0 (by decide)) g0 (by decide) (Lws.nil _)
    · exact Lws.fold q (q + 1) (q + 1 + 1) 32 (Eol.lf q 32 hq0 g0) g0 (by decide) (Lws.nil _)
  | crlf h0 h1 h2 =>
    have h3 := get?_lt h1
    have h4 := get?_none_ge h2
    have e : b.size = q + 2 := by omega
    rw [e] at g0 hag ⊢
    exact Lws.fold q (q + 2) (q + 2 + 1) 32 (Eol.crlf q (hag.get (by omega) h0) (hag.get (by omega) h1)) g0
      (by decide) (Lws.nil _)

/-- [EXPORT C17] (2) **a suspended text is a proper prefix of a parameter of the grammar** (no end-of-input option, start offset inside
    the buffer): if the call returns `MoreBytes`, there are bytes `s` (at most six: a space, `a`, `"`, CR LF `x`) such that
    `b ++ s` holds a parameter of the grammar `PSParam` at `o`, accepted with `EOH` -/
theorem tokparam_moreBytes_extends {b : Buf} {flags o r : Nat} {p' : PTokParam} (ho : o ≤ b.size)
    (hf : hasFlag flags POptInputEndF = false) (h : parseTokenParam b o {} flags = (r, .moreBytes, p')) :
    ∃ s o' p'', PSParam (b ++ s) flags {} o o' .eoh p'' := by
  have hr := (parseTokenParam_range b o {} flags hf ho h).2
  cases tokparam_moreBytes_sound h with
  | lws st q hP hnq hlw hend =>
    have hq := hlw.pv_le_size hr
    have hrq := hlw.le
    have hag := PVAgree.append b #[32]
    have hsz : (b ++ #[32]).size = b.size + 1 := by rw [Array.size_append]; rfl
    have hlw0 : Lws (b ++ #[32]) r (b ++ #[32]).size := by
      rw [hsz]
      exact (hlw.pv_agree (hag.mono hq)).ps_trans (pv_endTail_space hq hend)
    have hP0 : PVAt (b ++ #[32]) flags o (b ++ #[32]).size (pvNext st) :=
      (hP.pv_agree (hag.mono hr)).lws_next hlw0 (by omega) hnq
    obtain ⟨o', p'', H⟩ := pv_complete_at_end hP0
    exact ⟨#[32] ++ pvExt (pvNext st), o', p'', by rw [← Array.append_assoc]; exact H⟩
  | quoted q v0 he hl h34 hpre hn =>
    have h1 := get?_none_ge hn
    have e : r = b.size := by omega
    subst e
    have hag := PVAgree.append b #[34, 13, 10, 120]
    have hle := hpre.le
    have hl1 := hl.le
    exact ⟨#[34, 13, 10, 120], _, (pv_complete_quoted (he.pv_agree (hag.mono (by omega)))
      (hl.pv_agree (hag.mono (by omega))) (hag.get (by omega) h34) (hpre.pv_agree hag) (pv_get_app b _ 0)
      ⟨pv_get_app b _ 1, pv_get_app b _ 2, pv_get_app b _ 3⟩)⟩
  | quotedEsc q v0 he hl h34 hpre h92 hn =>
    have h1 := get?_none_ge hn
    have h2 := get?_lt h92
    have e : b.size = r + 1 := by omega
    have hag := PVAgree.append b #[97, 34, 13, 10, 120]
    have hle := hpre.le
    have hl1 := hl.le
    have g : ∀ k, (b ++ #[97, 34, 13, 10, 120])[r + 1 + k]? = (#[97, 34, 13, 10, 120] : Buf)[k]? := by
      intro k
      have := pv_get_app b #[97, 34, 13, 10, 120] k
      rw [e] at this
      exact this
    have hpre2 := (hpre.pv_agree (hag.mono (by omega))).pv_snoc_esc (hag.get (by omega) h92) (g 0) (by decide)
    exact ⟨#[97, 34, 13, 10, 120], _, (pv_complete_quoted (he.pv_agree (hag.mono (by omega)))
      (hl.pv_agree (hag.mono (by omega))) (hag.get (by omega) h34) hpre2 (g 1) ⟨g 2, g 3, g 4⟩)⟩

/-! ### tests on concrete inputs (evaluation of the model) / the hypotheses are satisfiable -/

/-- test: a second token after `name SP` without the white-space terminator is rejected AT its first byte, although that
    byte is an allowed byte -/
example : (parseTokenParam "a b".toUTF8.data 0 {} 0).1 = 2 ∧ (parseTokenParam "a b".toUTF8.data 0 {} 0).2.1 = .badChar := by
  decide +kernel

/-- non-vacuity of `tokparam_badChar_complete` / `tokparam_badChar_iff`: the same text meets `PVBad` (state `fEq`) -/
example : PVBad "a b".toUTF8.data 0 0 2 := by
  have hsep : tpSep 0 = 59 := by decide
  have hterm : tpTerm 0 = 0 := by decide
  refine PVBad.byte .fEq 98
    (PVAt.fEq 0 1 2
      ⟨0, 97, Pad.nil 0, Lws.nil 0, by decide, by decide, by rw [hsep]; decide, (fun k h1 h2 => by omega), by omega⟩
      (Lws.ws 1 2 32 (by decide) (by decide) (Lws.nil 2)) (by omega)) (by decide) ?_
  exact ⟨by decide, by decide, by rw [hsep]; decide, fun _ => hterm, fun _ => by decide⟩

/-- test: a CR after a backslash inside a quoted string: the error offset is that of the CR (5), not of the backslash -/
example : (parseTokenParam "a=\"x\\\rz".toUTF8.data 0 {} 0).1 = 5 ∧
    (parseTokenParam "a=\"x\\\rz".toUTF8.data 0 {} 0).2.1 = .badChar := by decide +kernel

/-- non-vacuity of the `quotedEsc` shape -/
example : PVBad "a=\"x\\\rz".toUTF8.data 0 0 5 := by
  have hsep : tpSep 0 = 59 := by decide
  refine PVBad.quotedEsc 1 2 4 13
    ⟨0, 1, ⟨0, 97, Pad.nil 0, Lws.nil 0, by decide, by decide, by rw [hsep]; decide, (fun k h1 h2 => by omega),
      by omega⟩, Lws.nil 1, by decide⟩
    (Lws.nil 2) (by decide) ?_ (by decide) rfl (by decide) (by decide)
  exact PVQPre.plain 3 4 120 (by decide) (by unfold QPlain; decide) (PVQPre.nil 4)

/-- tests: a control byte inside quotes; a second `=`; a bad byte after a separator and white space with a fold -/
example : (parseTokenParam "a=\"x\ny\"".toUTF8.data 0 {} 0).1 = 4 ∧
    (parseTokenParam "a=\"x\ny\"".toUTF8.data 0 {} 0).2.1 = .badChar := by decide +kernel
example : (parseTokenParam "a==b".toUTF8.data 0 {} 0).1 = 2 ∧
    (parseTokenParam "a==b".toUTF8.data 0 {} 0).2.1 = .badChar := by decide +kernel
example : (parseTokenParam "a; \r\n {".toUTF8.data 0 {} 0).1 = 6 ∧
    (parseTokenParam "a; \r\n {".toUTF8.data 0 {} 0).2.1 = .badChar := by decide +kernel

/-- tests: `MoreBytes` is reported at the START of unfinished white space, and at a backslash that is the last byte -/
example : (parseTokenParam "a = b \r\n".toUTF8.data 0 {} 0).1 = 5 ∧
    (parseTokenParam "a = b \r\n".toUTF8.data 0 {} 0).2.1 = .moreBytes := by decide +kernel
example : (parseTokenParam "a=\"bc\\".toUTF8.data 0 {} 0).1 = 5 ∧
    (parseTokenParam "a=\"bc\\".toUTF8.data 0 {} 0).2.1 = .moreBytes := by decide +kernel

/-- non-vacuity of `tokparam_moreBytes_extends` -/
example : ∃ s o' p'', PSParam ("a = b \r\n".toUTF8.data ++ s) 0 {} 0 o' .eoh p'' := by
  have h1 : (parseTokenParam "a = b \r\n".toUTF8.data 0 {} 0).2.1 = .moreBytes := by decide +kernel
  rcases hr : parseTokenParam "a = b \r\n".toUTF8.data 0 {} 0 with ⟨r, e, p'⟩
  rw [hr] at h1
  simp only at h1
  subst h1
  exact tokparam_moreBytes_extends (by decide) (by decide) hr

/-- test / non-vacuity of `parseAllURIParams_badChar_iff` (URI-parameter mode, end-of-input option: flags 72): the
    second item of `a;b{` is rejected at offset 3, one item is counted -/
example : ∃ tps o1, PVItems "a;b{".toUTF8.data (72 ||| POptParamSemiSepF) 0 tps o1 ∧
    PVBad "a;b{".toUTF8.data (72 ||| POptParamSemiSepF) o1 3 ∧ tps.length = 1 := by
  have hl : ({ params := Array.replicate 4 {} } : URIParamsLst).Fresh := by
    refine ⟨fun i x _ hx => ?_, rfl⟩
    rw [Array.getElem?_replicate] at hx
    split at hx
    · cases hx; rfl
    · cases hx
  have h1 : (parseAllURIParams "a;b{".toUTF8.data 0 { params := Array.replicate 4 {} } 72).1 = 3 := by decide +kernel
  have h2 : (parseAllURIParams "a;b{".toUTF8.data 0 { params := Array.replicate 4 {} } 72).2.1 = 1 := by decide +kernel
  have h3 : (parseAllURIParams "a;b{".toUTF8.data 0 { params := Array.replicate 4 {} } 72).2.2.1 = .badChar := by
    decide +kernel
  rcases hr : parseAllURIParams "a;b{".toUTF8.data 0 { params := Array.replicate 4 {} } 72 with ⟨a, n, e, r⟩
  rw [hr] at h1 h2 h3
  simp only at h1 h2 h3
  subst h1 h2 h3
  obtain ⟨tps, o1, H, hbad, hn, _⟩ := (parseAllURIParams_badChar_iff (by decide) _ hl).1 hr
  exact ⟨tps, o1, H, hbad, hn.symm⟩

end Sipsp
