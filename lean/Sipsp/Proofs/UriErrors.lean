/-
  Sipsp.Proofs.UriErrors — ParseURI: the REJECTIONS (property C14, clause "rejected URIs report an error position
  inside the input").  Completes `Sipsp.Proofs.UriComplete` (acceptance ↔ grammar, seven rejection shapes).

  PROVED (all for the model `parseURI b {}`; final theorems carry EXPORT C14):
  (0) the exits of the automaton as tables, exact: `UeTable σ c e` ↔ `uriStep` fails on byte `c` in state `σ` with
      code `e`, always at the current position (`ue_step_table`, `ue_table_step`); `UeFinTable` / `ue_finish`: the
      verdict of the end-of-input switch per state.  `ue_loop_stop` / `ue_run_cases`: a run ends in the end-of-input
      switch or at a byte rejected by the table, in a state satisfying all loop invariants (`UeInv` = `UInv`,
      `ULPInv`, `UcSInv` of the earlier files plus `UeXInv`, new: how `pass1` / `port` are entered, and what
      `errHeaders` means).
  (1) rejection shapes with code AND position, hypotheses on the text in the `Uc*` vocabulary (`parseURI_err_*`):
        `first_char`     `:` / `]` right behind the scheme                      ErrURIBadChar at it
        `user_bracket`   `[` / `]` in the first token (user or host name)       ErrURIBadChar at it
        `pass_char`      `[` / `]` / second `:` behind `token:`                 ErrURIBadChar at it
        `pass_no_at`     `token:text` (text not a number) then `;` / `?`        ErrURIBadChar at the `;` / `?`
        `pass_end`       `token:text` (text not a number) up to the end         ErrURIPort at the END
        `host_at`        second '@' (or `&`) in the host name behind '@'        ErrURIBadChar at it
        `second_at`      '@' in parameters / headers behind user-info@host[:port], and `;` in such headers
                                                                                  ErrURIBadChar at it
        `committed_at`   the same behind `token:digits;` / `token:digits?`      ErrURIBadChar at it
        `headers_semi`   `;` in the headers, no user-info, no `:`, no '@' after   ErrURIHeaders at the END
      (bytes behind a closing `]` other than `: ; ?` are ErrURIHost in the code, not BadChar: that exit is
      `parseURI_err_bracket_junk` of UriComplete.)
  (2) totality: `parseURI_total` — every input ≤ 65,535 bytes is accepted (then a text of `UcURI` / `UcTelURI`),
      or too short, or without scheme (always position 4), or rejected behind a scheme either at its END with the
      whole text described (`UeEndShape`) or at the byte at the reported position, with the text in front of it
      described (`UeShape`, one alternative per group of exits).  Corollaries: `parseURI_reject_inside` — a
      position inside the input is 4 with ErrURIScheme, or points at a byte of the explicit set `UeByte` for that
      code (`: ] [ ; ? @ &` for BadChar; `: ; ? & @ [` or anything but `: ; ?` right behind `]` for Host; a
      non-digit for Port); `parseURI_reject_end` — the rejections reported at the end: TooShort, Host (nothing
      behind '@', `[` never closed), Port (number above 65535; or `token:text` with a non-digit in the text: the
      `sip:h:12x` case), Headers (`?` at `q`, `;` at `j > q`).  ErrURIBad / ErrURIBug are never returned.
  (3) `parseURI_case_stable`: inputs that differ only in bit 0x20 of the first four bytes (letter case of the
      scheme) get the same result, whatever it is.
  INNOCENT POSITIONS (reported, pinned as tests): (a) ErrURIScheme is always at 4, whichever byte is wrong;
  (b) `token:text` without '@' and with a non-digit in `text`: ErrURIPort at the END (`sip:h:12x` → 9), or
  ErrURIBadChar at a following `;` / `?` (`sip:u:pw;x` → 8), never at the non-digit; (c) ErrURIHeaders is reported
  at the END, the `;` lies inside (`sip:h?a;b` → 9); with a user-info the same `;` is ErrURIBadChar at the `;`;
  (d) `sip:u:1;x@h`: the '@' is rejected (position 9) because the `;` behind `u:1` committed `u` as host.
  The end shapes are exact: `parseURI_end_shape_rejects` (every alternative of `UeEndShape` but the ErrURIHeaders one
  implies the rejection with that code at the end).
  NOT proved: the converse of `UeShape` as one statement (each alternative but the last is the hypothesis of a
  `parseURI_err_*` theorem here or in UriComplete, so it does imply the rejection; the last alternative — '@' / `;`
  in parameters / headers — and the ErrURIHeaders alternative of `UeEndShape` only record a necessary condition: the
  reason why the user part counts as settled, e.g. two `:` in a `;`-user as in `sip:h;a:b:c@d`, is not spelled out);
  `headers_semi` does not cover a port in front of the `?`, nor a `:` behind the last `;`.
-/
import Sipsp.Proofs.UriComplete

set_option linter.unusedSimpArgs false
set_option linter.unusedVariables false

namespace Sipsp

/-! ### the rejection table of the automaton -/

/-- the exits of `uriStep`: in the state `σ`, the byte `c` is rejected with the code `e`. -/
def UeTable (σ : UState) (c : UInt8) (e : UErr) : Prop :=
  match σ.st with
  | .initSIP | .initSIPS | .initTEL => e = .badChar ∧ (c = 58 ∨ c = 93)
  | .user => e = .badChar ∧ (c = 91 ∨ c = 93)
  | .pass0 => (e = .port ∧ (c = 59 ∨ c = 63) ∧ σ.portNo > 65535) ∨ (e = .badChar ∧ (c = 91 ∨ c = 93 ∨ c = 58))
  | .pass1 => e = .badChar ∧ (c = 59 ∨ c = 63 ∨ c = 91 ∨ c = 93 ∨ c = 58)
  | .host0 => e = .host ∧ (c = 58 ∨ c = 59 ∨ c = 63 ∨ c = 38 ∨ c = 64)
  | .host1 => e = .badChar ∧ (c = 38 ∨ c = 64)
  | .host61 => e = .host ∧ (c = 91 ∨ c = 64 ∨ c = 59 ∨ c = 63 ∨ c = 38)
  | .host6E => e = .host ∧ c ≠ 58 ∧ c ≠ 59 ∧ c ≠ 63
  | .port => e = .port ∧ isDigit c = false ∧ ((c = 59 ∨ c = 63) → σ.portNo > 65535)
  | .param0 | .param1 => e = .badChar ∧ c = 64 ∧ σ.foundUser = true
  | .headers => e = .badChar ∧ ((c = 64 ∧ σ.foundUser = true) ∨ (c = 59 ∧ (σ.foundUser = true ∨ σ.passOffs ≠ 0)))
  | _ => False

theorem ue_step_table {i p : Nat} {c : UInt8} {e : UErr} {σ σ' : UState} (h : uriStep i c σ = .fail e p σ') :
    p = i ∧ UeTable σ c e := by
  rcases σ with ⟨st, s, fu, po, pn, eh, u, pnc⟩
  cases st <;> simp only [uriStep, uAtInParams] at h <;> simp only [UeTable]
  all_goals
    repeat' split at h
    all_goals first
      | (cases h; done)
      | (cases h; simp_all; done)
      | (cases h; simp only [UState.setPort, Bool.or_eq_true, beq_iff_eq, Bool.not_eq_true, or_assoc] at *; simp_all; done)

theorem ue_table_step {i : Nat} {c : UInt8} {e : UErr} {σ : UState} (h : UeTable σ c e) :
    ∃ σ', uriStep i c σ = .fail e i σ' := by
  rcases σ with ⟨st, s, fu, po, pn, eh, u, pnc⟩
  cases st <;> simp only [UeTable] at h <;> simp only [uriStep, uAtInParams]
  all_goals
    repeat' split
    all_goals try simp only [UState.setPort, Bool.or_eq_true, beq_iff_eq, Bool.not_eq_true, or_assoc] at *
    all_goals first
      | (exfalso; simp_all; done)
      | (simp_all; done)
      | (rcases h with ⟨rfl, _, _⟩ | ⟨_, h | h | h⟩
         · exact ⟨_, rfl⟩
         all_goals (exfalso; subst h; simp_all (config := {decide := true}); done))
      | (exfalso
         rcases h with ⟨_, h, _⟩ | ⟨_, h | h | h⟩
         · simp_all
         all_goals (subst h; simp_all (config := {decide := true}); done))

/-! ### two more facts about the states: how `pass1` and `port` are entered -/

/-- a text that is not all digits: some byte in `[s, p)` is not a digit -/
def UeNonDigit (b : Buf) (s p : Nat) : Prop := ∃ j c, s ≤ j ∧ j < p ∧ b[j]? = some c ∧ isDigit c = false

theorem ue_into {i : Nat} {c : UInt8} {σ σ' : UState} (h : uriStep i c σ = .next σ') :
    (σ'.st = .pass1 → σ'.s = σ.s ∧ (σ.st = .pass1 ∨ (σ.st = .pass0 ∧ isDigit c = false))) ∧
    (σ'.st = .port → (σ.st = .port ∧ σ'.u = σ.u ∧ σ'.s = σ.s ∧ σ'.foundUser = σ.foundUser) ∨
      ((σ.st = .host1 ∨ σ.st = .host6E) ∧ σ'.u.host = PField.set σ.s i ∧ σ'.foundUser = σ.foundUser)) := by
  rcases σ with ⟨st, s, fu, po, pn, eh, u, pnc⟩
  cases st <;> simp only [uriStep, uAtInParams] at h
  all_goals
    repeat' split at h
    all_goals first
      | (cases h; done)
      | (cases h; simp_all [UState.setHost, UState.setUser, UState.setPass, UState.setPort, UState.setParams]; done)

theorem ue_into_eh {i : Nat} {c : UInt8} {σ σ' : UState} (h : uriStep i c σ = .next σ')
    (heh : σ'.errHeaders = true) :
    (σ.errHeaders = true ∧ (σ.st = .headers → σ'.st = .headers ∧ σ'.s = σ.s)) ∨
    (σ.st = .headers ∧ c = 59 ∧ σ'.st = .headers ∧ σ'.s = σ.s) := by
  rcases σ with ⟨st, s, fu, po, pn, eh, u, pnc⟩
  cases st <;> simp only [uriStep, uAtInParams] at h
  all_goals
    repeat' split at h
    all_goals first
      | (cases h; done)
      | (cases h; simp_all [UState.setHost, UState.setUser, UState.setPass, UState.setPort, UState.setParams]; done)

/-- in `pass1` a non-digit has been read behind the `:`; in `port` the host is one of the forms that lead there: a
    name behind the '@' of a user-info, or `[…]` (behind the scheme or behind such an '@'); the flag `errHeaders` is
    only set while reading headers, and then a `;` has been read in them -/
def UeXInv (b : Buf) (k i : Nat) (σ : UState) : Prop :=
  (σ.st = .pass1 → UeNonDigit b σ.s i) ∧
  (σ.st = .port → ∃ hs, UcHostAt b k hs ∧ ((k < hs ∧ UcNameHost b hs (σ.u.host.offs + σ.u.host.len)) ∨
    UcBrHost b hs (σ.u.host.offs + σ.u.host.len))) ∧
  (σ.errHeaders = true → σ.st = .headers ∧ ∃ j, σ.s ≤ j ∧ j < i ∧ b[j]? = some 59)

theorem UcUinfo.hostAt {b : Buf} {k hs : Nat} {us pw : PField} (h : UcUinfo b k us pw hs) :
    UcHostAt b k hs ∧ k < hs := by
  obtain ⟨a, rfl, hat, hu⟩ := h
  refine ⟨Or.inr ⟨a, us, pw, rfl, hat, hu⟩, ?_⟩
  rcases hu with hu | hu
  · have := hu.lt; omega
  · have := hu.lt; omega

theorem ue_xinv_step {b : Buf} {t k i : Nat} {c : UInt8} {σ σ' : UState} (h : UInv b t k i σ)
    (hs : UcSInv b k i σ) (hx : UeXInv b k i σ) (hc : b[i]? = some c) (hstep : uriStep i c σ = .next σ') :
    UeXInv b k (i + 1) σ' := by
  have hlt := get?_lt hc
  have hfit : b.size ≤ 65535 := h.2.2.2.2.2.1
  have hI := h.2.2.2.2.2.2
  obtain ⟨h1, h2⟩ := ue_into hstep
  refine ⟨fun hst' => ?_, fun hst' => ?_, fun heh' => ?_⟩
  · obtain ⟨hs', hor⟩ := h1 hst'
    rw [hs']
    rcases hor with hst | ⟨hst, hd⟩
    · obtain ⟨j, c', a1, a2, a3, a4⟩ := hx.1 hst
      exact ⟨j, c', a1, by omega, a3, a4⟩
    · simp only [UStInv, hst] at hI
      exact ⟨i, c, hI.2.2.2.2.2.2.1, by omega, hc, hd⟩
  · rcases h2 hst' with ⟨hst, hu, _, _⟩ | ⟨hst, hho, _⟩
    · rw [hu]
      exact hx.2.1 hst
    · rcases hst with hst | hst
      · simp only [UStInv, hst] at hI
        simp only [UcSInv, hst] at hs
        have hsi : σ.s < i := hI.2.1
        rw [hho, uset_eq (Nat.le_of_lt hsi) (by omega)]
        have e : σ.s + (i - σ.s) = i := by omega
        simp only [e]
        obtain ⟨hat, hk⟩ := hs.1.hostAt
        exact ⟨σ.s, hat, Or.inl ⟨hk, hsi, hs.2.1, hs.2.2⟩⟩
      · simp only [UStInv, hst] at hI
        simp only [UcSInv, hst] at hs
        have hsi : σ.s < i := hI.1
        rw [hho, uset_eq (Nat.le_of_lt hsi) (by omega)]
        have e : σ.s + (i - σ.s) = i := by omega
        simp only [e]
        refine ⟨σ.s, ?_, Or.inr hs.2⟩
        by_cases hfu : σ.foundUser = true
        · exact (hs.1 hfu).hostAt.1
        · have : σ.foundUser = false := by simpa using hfu
          exact Or.inl (hI.2.2.2 this).2.2
  · rcases ue_into_eh hstep heh' with ⟨heh, hkeep⟩ | ⟨hst, _, hst', hs'⟩
    · obtain ⟨hst, j, a1, a2, a3⟩ := hx.2.2 heh
      obtain ⟨hst', hs'⟩ := hkeep hst
      rw [hs']
      exact ⟨hst', j, a1, by omega, a3⟩
    · rename_i h59
      subst h59
      simp only [UStInv, hst] at hI
      rw [hs']
      exact ⟨hst', i, hI.2.2.2.2.2.2.1, by omega, hc⟩

/-! ### where the loop stops -/

/-- the loop invariants of UriSpec / UriLink / UriComplete together, and `UeXInv` -/
def UeInv (b : Buf) (t k i : Nat) (σ : UState) : Prop :=
  UInv b t k i σ ∧ ULPInv b i σ ∧ UcSInv b k i σ ∧ UeXInv b k i σ

/-- the loop either reaches the end of the input with the invariants, or stops at a byte `c` at position `p` that the
    step function rejects in a state `σp` satisfying the invariants -/
theorem ue_loop_stop {b : Buf} {t k : Nat} (i : Nat) (σ : UState) (h : UeInv b t k i σ) :
    ((uriLoop b i σ).1 = .none ∧ (uriLoop b i σ).2.1 = b.size ∧ UeInv b t k b.size (uriLoop b i σ).2.2) ∨
    ((uriLoop b i σ).1 ≠ .none ∧ i ≤ (uriLoop b i σ).2.1 ∧
      ∃ c σp, b[(uriLoop b i σ).2.1]? = some c ∧ UeInv b t k (uriLoop b i σ).2.1 σp ∧
        uriStep (uriLoop b i σ).2.1 c σp = .fail (uriLoop b i σ).1 (uriLoop b i σ).2.1 (uriLoop b i σ).2.2) := by
  fun_induction uriLoop b i σ with
  | case1 i σ hb =>
    have hge := get?_none_ge hb
    have hi : i ≤ b.size := h.1.2.2.2.2.1
    have : i = b.size := by omega
    subst this
    exact Or.inl ⟨rfl, rfl, h⟩
  | case2 i σ c hb σ' hstep ih =>
    have hok := uriStep_ok h.1 hb
    have hpo := ustep_portinv h.1 h.2.1 hb
    have hat := ucs_step h.1 h.2.1 h.2.2.1 hb
    rw [hstep] at hok hat hpo
    rcases ih ⟨hok, hpo, hat, ue_xinv_step h.1 h.2.2.1 h.2.2.2 hb hstep⟩ with h1 | ⟨h1, h2, h3⟩
    · exact Or.inl h1
    · exact Or.inr ⟨h1, by omega, h3⟩
  | case3 i σ c hb e p σ' hstep =>
    have hok := uriStep_ok h.1 hb
    rw [hstep] at hok
    obtain ⟨hne, hp, hpn⟩ := hok
    subst hp
    exact Or.inr ⟨hne, Nat.le_refl _, c, σ, hb, h, hstep⟩

/-! ### the end-of-input switch -/

/-- the code reported by `uriFinish` in the state `σ` (states that satisfy the loop invariant) -/
def UeFinTable (σ : UState) (e : UErr) : Prop :=
  match σ.st with
  | .initSIP | .initSIPS | .initTEL => e = .tooShort
  | .pass0 => (e = .port ∧ σ.portNo > 65535) ∨ (e = .none ∧ σ.portNo ≤ 65535)
  | .pass1 => e = .port
  | .host0 | .host61 => e = .host
  | .port => (e = .port ∧ σ.portNo > 65535) ∨ (e = .none ∧ σ.portNo ≤ 65535)
  | .headers => (e = .headers ∧ σ.errHeaders = true) ∨ (e = .none ∧ σ.errHeaders = false)
  | .user | .host1 | .host6E | .param0 | .param1 => e = .none
  | _ => False

theorem ue_finish {b : Buf} {t k n : Nat} {σ : UState} (h : UInv b t k n σ) :
    (uriFinish n σ).2.1 = n ∧ UeFinTable σ (uriFinish n σ).1 := by
  obtain ⟨hsch, hty, hp, hk, hi, hfit, hI⟩ := h
  rcases σ with ⟨st, s, fu, po, pn, eh, u, pnc⟩
  cases st <;> simp only [UStInv] at hI <;> simp only [UeFinTable, uriFinish, UState.setPort, UState.setHost,
    UState.setParams, UState.setHeaders]
  all_goals
    repeat' split
    all_goals first
      | (simp_all; done)
      | (by_cases ht : (u.uriType == TELuri) = true <;> by_cases hbig : pn > 65535 <;>
          simp only [ht, hbig, ↓reduceIte, Bool.false_eq_true] <;> simp_all <;> omega)
      | (cases eh <;> by_cases ht : (u.uriType == TELuri) = true <;>
          simp only [ht, ↓reduceIte, Bool.false_eq_true] <;> simp_all)

/-! ### a run from behind the scheme: accepted / rejected at the end / rejected at a byte -/

theorem ue_inv_init {b : Buf} {t k : Nat} {σ : UState} (hi : UcInitSt σ t k) (hk : 0 < k) (hk2 : k ≤ b.size)
    (hfit : b.size ≤ 65535) : UeInv b t k k σ := by
  obtain ⟨hst, hfu, hpo, hpn, heh, hp, hu⟩ := hi
  refine ⟨⟨by rw [hu], by rw [hu], hp, hk, hk2, hfit, ?_⟩, ?_, ?_, ?_⟩
  · unfold UStInv
    rcases hst with hst | hst | hst <;> rw [hst] <;> simp [NoUP, Blank4, hu, hfu, hpo]
  · unfold ULPInv
    rcases hst with hst | hst | hst <;> rw [hst] <;> simp [hu, hpn]
  · unfold UcSInv
    rcases hst with hst | hst | hst <;> rw [hst] <;> trivial
  · rcases hst with hst | hst | hst <;>
      exact ⟨(fun h => by rw [hst] at h; cases h), (fun h => by rw [hst] at h; cases h),
        (fun h => by rw [heh] at h; cases h)⟩

theorem ue_run_of_loop_ok {b : Buf} {i j : Nat} {σ σ' : UState} (h : uriLoop b i σ = (.none, j, σ')) :
    ucRun b i σ = ucProj (uriFinish j σ') := by
  unfold ucRun
  rw [h]
  rfl

theorem ue_run_of_loop_err {b : Buf} {i p : Nat} {e : UErr} {σ σ' : UState} (h : uriLoop b i σ = (e, p, σ'))
    (he : e ≠ .none) : ucRun b i σ = (e, p, σ'.u, σ'.pnc) := by
  unfold ucRun
  rw [h]
  cases e <;> first | rfl | exact absurd rfl he

/-- what a run of the automaton from behind the scheme returns: the verdict of the end-of-input switch in a state
    satisfying the invariants, or the rejection of the byte at `p` by the step function -/
theorem ue_run_cases {b : Buf} {t k : Nat} {σ0 : UState} (h : UeInv b t k k σ0) :
    (∃ σ, UeInv b t k b.size σ ∧ UeFinTable σ (ucRun b k σ0).1 ∧ (ucRun b k σ0).2.1 = b.size) ∨
    (∃ c σp, (ucRun b k σ0).1 ≠ .none ∧ k ≤ (ucRun b k σ0).2.1 ∧ b[(ucRun b k σ0).2.1]? = some c ∧
      UeInv b t k (ucRun b k σ0).2.1 σp ∧ UeTable σp c (ucRun b k σ0).1) := by
  rcases ue_loop_stop k σ0 h with ⟨h1, h2, h3⟩ | ⟨h1, h2, c, σp, h3, h4, h5⟩
  · rcases hq : uriLoop b k σ0 with ⟨e, i, σ⟩
    rw [hq] at h1 h2 h3
    simp only at h1 h2 h3
    subst h1 h2
    have hf := ue_finish h3.1
    rw [ue_run_of_loop_ok hq]
    exact Or.inl ⟨σ, h3, hf.2, hf.1⟩
  · rcases hq : uriLoop b k σ0 with ⟨e, i, σ⟩
    rw [hq] at h1 h2 h3 h4 h5
    simp only at h1 h2 h3 h4 h5
    rw [ue_run_of_loop_err hq h1]
    exact Or.inr ⟨c, σp, h1, h2, h3, h4, (ue_step_table h5).2⟩

/-! ### (1) the remaining rejection shapes: error code and position -/

/-- `:` or `]` right behind the scheme: `ErrURIBadChar` at that byte -/
theorem ue_err_first {b : Buf} {t k : Nat} {c : UInt8} {σ : UState} (hi : UcInitSt σ t k) (hc : b[k]? = some c)
    (hcc : c = 58 ∨ c = 93) : UcErrAt (ucRun b k σ) .badChar k := by
  refine uc_err_fail (σ' := σ) hc ?_ (by decide)
  rcases hi.1 with hst | hst | hst <;> rcases hcc with rfl | rfl <;> simp +decide only [uriStep, hst, ↓reduceIte]

/-- `[` or `]` inside the first token behind the scheme (user or host name): `ErrURIBadChar` at that byte -/
theorem ue_err_user_br {b : Buf} {t k p : Nat} {c : UInt8} {σ : UState} (hi : UcInitSt σ t k)
    (hh : UcFirstTok b k p) (hc : b[p]? = some c) (hcc : c = 91 ∨ c = 93) : UcErrAt (ucRun b k σ) .badChar p := by
  have hlt := get?_lt hc
  obtain ⟨hlt', hf, hall⟩ := hh
  obtain ⟨c0, hc0⟩ : ∃ c, b[k]? = some c := ⟨b[k]'(by omega), Array.getElem?_eq_getElem (by omega)⟩
  rw [ucRun_next hc0 (uc_init_first hi.1 (hf k (Nat.le_refl _) (by omega) c0 hc0)),
    ucRun_stay (σ := { σ with st := .user, s := k }) (by omega) (by omega) hall (fun m c hf => uc_user_tok rfl hf)]
  refine uc_err_fail (σ' := { σ with st := .user, s := k }) hc ?_ (by decide)
  rcases hcc with rfl | rfl <;> simp +decide only [uriStep, ↓reduceIte]

/-- reading what follows `token:` — still only digits (`pass0`), or a non-digit has been seen (`pass1`) -/
def UePwSt (b : Buf) (s m : Nat) (σ : UState) : Prop :=
  σ.st = .pass1 ∨ (σ.st = .pass0 ∧ UcAll b s m isDigit)

theorem ue_pw_step {b : Buf} {s m : Nat} {c : UInt8} {σ : UState} (h : UePwSt b s m σ) (hc : b[m]? = some c)
    (hf : ucTok c = true) : ∃ σ', uriStep m c σ = .next σ' ∧ UePwSt b s (m + 1) σ' := by
  simp only [ucTok, Bool.not_eq_true', Bool.or_eq_false_iff] at hf
  obtain ⟨⟨⟨⟨⟨h1, h2⟩, h3⟩, h4⟩, h5⟩, h6⟩ := hf
  rcases h with hst | ⟨hst, hall⟩
  · exact ⟨σ, by simp only [uriStep, hst, h1, h2, h3, h4, h5, h6, Bool.false_eq_true, ↓reduceIte, Bool.or_self],
      Or.inl hst⟩
  · by_cases hd : isDigit c = true
    · exact ⟨{ σ with portNo := accPort σ.portNo c }, uc_digit_step (Or.inr hst) hd, Or.inr ⟨hst, hall.snoc hc hd⟩⟩
    · refine ⟨{ σ with portNo := 0, st := .pass1 }, ?_, Or.inl rfl⟩
      simp only [uriStep, hst, hd, h1, h2, h3, h4, h5, h6, Bool.false_eq_true, ↓reduceIte, Bool.or_self]

theorem ue_pw_run {b : Buf} {s p : Nat} {σ : UState} (hst : σ.st = .pass0) (hsp : s ≤ p) (hp : p ≤ b.size)
    (hall : UcAll b s p ucTok) : ∃ σ', ucRun b s σ = ucRun b p σ' ∧ UePwSt b s p σ' :=
  ucRun_scan (f := ucTok) (fun m σ' => UePwSt b s m σ') hp (p - s) s σ (by omega) hall
    (Or.inr ⟨hst, UcAll.nil b _ (Nat.le_refl _)⟩) (fun m c σ1 _ _ hc hf h1 => ue_pw_step h1 hc hf)

theorem UePwSt.pass1 {b : Buf} {s p : Nat} {σ : UState} (h : UePwSt b s p σ) (hn : UeNonDigit b s p) :
    σ.st = .pass1 := by
  rcases h with h | ⟨_, hall⟩
  · exact h
  · obtain ⟨j, c, h1, h2, h3, h4⟩ := hn
    rw [hall j h1 h2 c h3] at h4
    cases h4

/-- `token:` and password bytes up to `p`, then
    * `[`, `]` or a second `:` — `ErrURIBadChar` at that byte;
    * `;` or `?` when the text behind the `:` is not a number (a password that is not followed by '@') —
      `ErrURIBadChar` at that byte;
    * the end of the input when the text behind the `:` is not a number — `ErrURIPort` at the END of the input
      (not at the first non-digit: this is the `sip:h:12x` case). -/
theorem ue_err_pass {b : Buf} {t k ue p : Nat} {σ : UState} (hi : UcInitSt σ t k)
    (hh : UcFirstTok b k ue) (h58 : b[ue]? = some 58) (hp : ue + 1 ≤ p) (hall : UcAll b (ue + 1) p ucTok) :
    (∀ c, b[p]? = some c → (c = 91 ∨ c = 93 ∨ c = 58) → UcErrAt (ucRun b k σ) .badChar p) ∧
    (∀ c, b[p]? = some c → (c = 59 ∨ c = 63) → UeNonDigit b (ue + 1) p → UcErrAt (ucRun b k σ) .badChar p) ∧
    (p = b.size → UeNonDigit b (ue + 1) p → UcErrAt (ucRun b k σ) .port p) := by
  obtain ⟨σp, hr, hst, _⟩ := uc_run_to_pass0 (σ := σ) (k := k) ⟨Or.inr ⟨hi.1, rfl⟩, hi.2.2.2.1⟩ hh h58
  refine ⟨fun c hc hcc => ?_, fun c hc hcc hn => ?_, fun he hn => ?_⟩
  · have hlt := get?_lt hc
    obtain ⟨σ', hr2, hs'⟩ := ue_pw_run hst hp (by omega) hall
    rw [hr, hr2]
    refine uc_err_fail (σ' := σ') hc ?_ (by decide)
    rcases hs' with hs' | ⟨hs', _⟩ <;> rcases hcc with rfl | rfl | rfl <;>
      simp +decide only [uriStep, hs', ↓reduceIte]
  · have hlt := get?_lt hc
    obtain ⟨σ', hr2, hs'⟩ := ue_pw_run hst hp (by omega) hall
    rw [hr, hr2]
    refine uc_err_fail (σ' := σ') hc ?_ (by decide)
    have h1 := hs'.pass1 hn
    rcases hcc with rfl | rfl <;> simp +decide only [uriStep, h1, ↓reduceIte]
  · obtain ⟨σ', hr2, hs'⟩ := ue_pw_run hst hp (by omega) hall
    rw [hr, hr2, ucRun_end' he]
    have h1 := hs'.pass1 hn
    simp only [uriFinish, h1, beq_self_eq_true, Bool.or_true, ↓reduceIte]
    exact ⟨rfl, rfl⟩

/-- a host name behind the '@' of a user-info, then a second `@` or an `&`: `ErrURIBadChar` at that byte -/
theorem ue_err_host1 {b : Buf} {k hs p : Nat} {c : UInt8} {σ : UState} (h : UcHostSt σ k hs) (hk : k < hs)
    (hh : UcNameHost b hs p) (hc : b[p]? = some c) (hcc : c = 64 ∨ c = 38) : UcErrAt (ucRun b hs σ) .badChar p := by
  have hlt := get?_lt hc
  obtain ⟨hlt', hf, hall⟩ := hh
  obtain ⟨hst, hpn⟩ := h
  have hst0 : σ.st = .host0 := by
    rcases hst with ⟨h, _⟩ | ⟨_, h⟩
    · exact h
    · omega
  obtain ⟨c0, hc0⟩ : ∃ c, b[hs]? = some c := ⟨b[hs]'(by omega), Array.getElem?_eq_getElem (by omega)⟩
  rw [ucRun_next hc0 (uc_host0_first hst0 (hf hs (Nat.le_refl _) (by omega) c0 hc0)),
    ucRun_stay (σ := { σ with st := .host1 }) (by omega) (by omega) hall (fun m c hf => uc_host1_stay rfl hf)]
  refine uc_err_fail (σ' := { σ with st := .host1 }) hc ?_ (by decide)
  rcases hcc with rfl | rfl <;> simp +decide only [uriStep, ↓reduceIte]

/-! #### a second '@' (or a `;` in the headers) once the user part is settled (`foundUser`) -/

/-- reading parameters (`hd = false`) or headers (`hd = true`) with the user part settled -/
def UeFuSt (σ : UState) (hd : Bool) : Prop :=
  σ.foundUser = true ∧ ((hd = false ∧ (σ.st = .param0 ∨ σ.st = .param1)) ∨ (hd = true ∧ σ.st = .headers))

theorem ue_fu_par_step {i : Nat} {c : UInt8} {σ : UState} (h : UeFuSt σ false) (hc : ucPar c = true) :
    ∃ σ', uriStep i c σ = .next σ' ∧ UeFuSt σ' false := by
  simp only [ucPar, Bool.not_eq_true', Bool.or_eq_false_iff] at hc
  obtain ⟨h63, h64⟩ := hc
  rcases σ with ⟨st, s0, fu, po, pn, eh, u0, pnc⟩
  obtain ⟨hfu, hst⟩ := h
  simp only at hfu hst
  subst hfu
  rcases hst with ⟨_, hst⟩ | ⟨hh, _⟩
  · rcases hst with rfl | rfl <;>
    · simp only [uriStep, h63, h64, Bool.false_eq_true, ↓reduceIte]
      repeat' split
      all_goals exact ⟨_, rfl, by simp [UeFuSt]⟩
  · cases hh

theorem ue_fu_par_q {i : Nat} {σ : UState} (h : UeFuSt σ false) :
    ∃ σ', uriStep i 63 σ = .next σ' ∧ UeFuSt σ' true := by
  rcases σ with ⟨st, s0, fu, po, pn, eh, u0, pnc⟩
  obtain ⟨hfu, hst⟩ := h
  simp only at hfu hst
  subst hfu
  rcases hst with ⟨_, hst⟩ | ⟨hh, _⟩
  · rcases hst with rfl | rfl <;>
    · by_cases hpo : (po != 0) = true <;>
      · simp +decide only [uriStep, UState.setParams, hpo, ↓reduceIte]
        exact ⟨_, rfl, by simp [UeFuSt]⟩
  · cases hh

theorem ue_fu_hdr_step {i : Nat} {c : UInt8} {σ : UState} (h : UeFuSt σ true) (hc : ucHdr c = true) :
    ∃ σ', uriStep i c σ = .next σ' ∧ UeFuSt σ' true := by
  simp only [ucHdr, Bool.not_eq_true', Bool.or_eq_false_iff] at hc
  obtain ⟨h59, h64⟩ := hc
  rcases σ with ⟨st, s0, fu, po, pn, eh, u0, pnc⟩
  obtain ⟨hfu, hst⟩ := h
  simp only at hfu hst
  subst hfu
  rcases hst with ⟨hh, _⟩ | ⟨_, rfl⟩
  · cases hh
  · simp only [uriStep, h59, h64, Bool.false_eq_true, ↓reduceIte]
    repeat' split
    all_goals exact ⟨_, rfl, by simp [UeFuSt]⟩

/-- with the user part settled, an '@' in the parameters / headers and a `;` in the headers are rejected -/
theorem ue_fu_reject {i : Nat} {c : UInt8} {σ : UState} {hd : Bool} (h : UeFuSt σ hd)
    (hc : c = 64 ∨ (c = 59 ∧ hd = true)) : uriStep i c σ = .fail .badChar i σ := by
  rcases σ with ⟨st, s0, fu, po, pn, eh, u0, pnc⟩
  obtain ⟨hfu, hst⟩ := h
  simp only at hfu hst
  subst hfu
  rcases hst with ⟨rfl, hst⟩ | ⟨rfl, rfl⟩
  · rcases hc with rfl | ⟨_, hh⟩
    · rcases hst with rfl | rfl <;> simp +decide only [uriStep, uAtInParams, ↓reduceIte]
    · cases hh
  · rcases hc with rfl | ⟨rfl, _⟩ <;> simp +decide only [uriStep, uAtInParams, Bool.true_or, ↓reduceIte]

/-- the text from the first `;` / `?` behind host and port (at `e`) up to `p`: parameters (`hd = false`: `;` and
    parameter bytes), or headers (`hd = true`: `?` and header bytes, possibly behind `;` parameters) -/
def UePHTo (b : Buf) (e p : Nat) (hd : Bool) : Prop :=
  (hd = false ∧ b[e]? = some 59 ∧ e + 1 ≤ p ∧ UcAll b (e + 1) p ucPar) ∨
  (hd = true ∧ b[e]? = some 63 ∧ e + 1 ≤ p ∧ UcAll b (e + 1) p ucHdr) ∨
  (hd = true ∧ b[e]? = some 59 ∧ ∃ q, e + 1 ≤ q ∧ UcAll b (e + 1) q ucPar ∧ b[q]? = some 63 ∧ q + 1 ≤ p ∧
    UcAll b (q + 1) p ucHdr)

theorem ue_fu_run_par {b : Buf} {i p : Nat} {σ : UState} (h : UeFuSt σ false) (hip : i ≤ p) (hp : p ≤ b.size)
    (hall : UcAll b i p ucPar) : ∃ σ', ucRun b i σ = ucRun b p σ' ∧ UeFuSt σ' false :=
  ucRun_scan (f := ucPar) (fun _ σ' => UeFuSt σ' false) hp (p - i) i σ (by omega) hall h
    (fun m c σ1 _ _ _ hf h1 => ue_fu_par_step h1 hf)

theorem ue_fu_run_hdr {b : Buf} {i p : Nat} {σ : UState} (h : UeFuSt σ true) (hip : i ≤ p) (hp : p ≤ b.size)
    (hall : UcAll b i p ucHdr) : ∃ σ', ucRun b i σ = ucRun b p σ' ∧ UeFuSt σ' true :=
  ucRun_scan (f := ucHdr) (fun _ σ' => UeFuSt σ' true) hp (p - i) i σ (by omega) hall h
    (fun m c σ1 _ _ _ hf h1 => ue_fu_hdr_step h1 hf)

/-- from the `;` / `?` at `e` (whose step settles or keeps the user part settled) to `p` -/
theorem ue_fu_run {b : Buf} {e p : Nat} {σ : UState} {hd : Bool} (hp : p ≤ b.size)
    (g59 : ∃ σ', uriStep e 59 σ = .next σ' ∧ UeFuSt σ' false)
    (g63 : ∃ σ', uriStep e 63 σ = .next σ' ∧ UeFuSt σ' true)
    (h : UePHTo b e p hd) : ∃ σ', ucRun b e σ = ucRun b p σ' ∧ UeFuSt σ' hd := by
  rcases h with ⟨rfl, hc, hle, hall⟩ | ⟨rfl, hc, hle, hall⟩ | ⟨rfl, hc, q, hle, hall, hq, hle2, hall2⟩
  · obtain ⟨σ1, hs1, hf1⟩ := g59
    obtain ⟨σ2, hr2, hf2⟩ := ue_fu_run_par hf1 hle hp hall
    exact ⟨σ2, by rw [ucRun_next hc hs1, hr2], hf2⟩
  · obtain ⟨σ1, hs1, hf1⟩ := g63
    obtain ⟨σ2, hr2, hf2⟩ := ue_fu_run_hdr hf1 hle hp hall
    exact ⟨σ2, by rw [ucRun_next hc hs1, hr2], hf2⟩
  · obtain ⟨σ1, hs1, hf1⟩ := g59
    have hqlt := get?_lt hq
    obtain ⟨σ2, hr2, hf2⟩ := ue_fu_run_par hf1 hle (by omega) hall
    obtain ⟨σ3, hs3, hf3⟩ := ue_fu_par_q (i := q) hf2
    obtain ⟨σ4, hr4, hf4⟩ := ue_fu_run_hdr hf3 hle2 hp hall2
    exact ⟨σ4, by rw [ucRun_next hc hs1, hr2, ucRun_next hq hs3, hr4], hf4⟩

/-- an '@' that leads to the host start settles the user part -/
theorem ue_at_found {i : Nat} {σ σ' : UState} (h : uriStep i 64 σ = .next σ') (hst : σ'.st = .host0) :
    σ'.foundUser = true := by
  rcases σ with ⟨st, s, fu, po, pn, eh, u, pnc⟩
  cases st <;> simp +decide only [uriStep, uAtInParams, ↓reduceIte] at h
  all_goals
    repeat' split at h
    all_goals first
      | (cases h; done)
      | (cases h; rfl)
      | (cases h; cases hst)

/-- the user-info runs of UriComplete, with the fact that the user part is settled behind the '@' -/
theorem ue_run_uinfo {b : Buf} {k a t : Nat} {σ : UState} {us pw : PField} (hi : UcInitSt σ t k)
    (hfit : b.size ≤ 65535) (hat : b[a]? = some 64) (hu : UcUserPlain b k a us pw ∨ UcUserBack b k a us pw) :
    ∃ σ', ucRun b k σ = ucRun b (a + 1) σ' ∧ UcHost0St σ' a t k us pw ∧ σ'.foundUser = true := by
  have halt := get?_lt hat
  rcases hu with hu | hu
  · obtain ⟨ue, ⟨hlt, hf, hall⟩, rfl, hrest⟩ := hu
    obtain ⟨hst, hfu, hpo, hpn, heh, hp, hu0⟩ := hi
    have hue : ue ≤ a := by
      rcases hrest with ⟨h, _⟩ | ⟨_, h, _⟩ <;> omega
    obtain ⟨c, hc⟩ : ∃ c, b[k]? = some c := ⟨b[k]'(by omega), Array.getElem?_eq_getElem (by omega)⟩
    rw [ucRun_next hc (uc_init_first hst (hf k (Nat.le_refl _) (by omega) c hc)),
      ucRun_stay (σ := { σ with st := .user, s := k }) (by omega) (by omega) hall (fun m c hf => uc_user_tok rfl hf)]
    rcases hrest with ⟨rfl, rfl⟩ | ⟨h58, hle, rfl, hall2⟩
    · obtain ⟨σ', hs', hh⟩ := uc_user_at (σ := { σ with st := .user, s := k }) (i := ue) (k := k) rfl rfl
        (Nat.le_of_lt hlt) (by omega) hpn heh hp hu0
      exact ⟨σ', ucRun_next hat hs', hh, ue_at_found hs' hh.1⟩
    · obtain ⟨σ1, hs1, hh1⟩ := uc_user_colon (σ := { σ with st := .user, s := k }) (i := ue) (k := k) rfl rfl
        (Nat.le_of_lt hlt) (by omega) heh hp hu0
      obtain ⟨σ2, hr2, hh2⟩ := ucRun_scan (f := ucTok) (fun _ σ' => UcPassSt σ' (ue + 1) _) (Nat.le_of_lt halt)
        (a - (ue + 1)) (ue + 1) σ1 (by omega) hall2 hh1 (fun m c σ2 _ _ _ hf h1 => uc_pass_step h1 hf)
      obtain ⟨σ3, hs3, hh3⟩ := uc_pass_at hh2 hle (by omega)
      exact ⟨σ3, by rw [ucRun_next h58 hs1, hr2, ucRun_next hat hs3], hh3, ue_at_found hs3 hh3.1⟩
  · obtain ⟨d, ue, hh, hd, hle, hall, rfl, hrest⟩ := hu
    have hkd := hh.lt
    have hue : ue ≤ a := by
      rcases hrest with ⟨h, _⟩ | ⟨_, h, _⟩ <;> omega
    obtain ⟨c, hc, hdc⟩ : ∃ c, (c = 59 ∨ c = 63) ∧ b[d]? = some c := by
      rcases hd with h | h
      · exact ⟨59, Or.inl rfl, h⟩
      · exact ⟨63, Or.inr rfl, h⟩
    obtain ⟨σ1, hr1, hb1⟩ := uc_run_back_head hi hfit (by omega) hh hc hdc
    obtain ⟨σ2, hr2, hb2⟩ := ucRun_scan (f := ucW1) (fun m σ' => UcBackSt σ' t k m) (show ue ≤ b.size by omega)
      (ue - (d + 1)) (d + 1) σ1 (by omega) hall hb1 (fun m c σ2 _ _ _ hf h1 => uc_back_step h1 hf)
    rcases hrest with ⟨rfl, rfl⟩ | ⟨h58, hle2, rfl, hall2⟩
    · obtain ⟨σ3, hs3, hh3⟩ := uc_back_at hb2 (by omega) (by omega)
      exact ⟨σ3, by rw [hr1, hr2, ucRun_next hat hs3], hh3, ue_at_found hs3 hh3.1⟩
    · obtain ⟨σ3, hs3, hb3⟩ := uc_back_colon hb2 (by omega)
      obtain ⟨σ4, hr4, hb4⟩ := ucRun_scan (f := ucW2) (fun _ σ' => UcBack2St σ' t k ue) (Nat.le_of_lt halt)
        (a - (ue + 1)) (ue + 1) σ3 (by omega) hall2 hb3 (fun m c σ5 _ _ _ hf h1 => uc_back2_step h1 hf)
      obtain ⟨σ5, hs5, hh5⟩ := uc_back2_at hb4 (by omega) (by omega) hle2 (by omega)
      exact ⟨σ5, by rw [hr1, hr2, ucRun_next h58 hs3, hr4, ucRun_next hat hs5], hh5, ue_at_found hs5 hh5.1⟩

/-- `;` / `?` behind a host, or behind its port of value ≤ 65535: a settled user part stays settled -/
theorem ue_gate_fu {e : Nat} {σ : UState}
    (hst : σ.st = .host1 ∨ σ.st = .host6E ∨ (σ.st = .port ∧ σ.portNo ≤ 65535)) (hfu : σ.foundUser = true) :
    (∃ σ', uriStep e 59 σ = .next σ' ∧ UeFuSt σ' false) ∧ (∃ σ', uriStep e 63 σ = .next σ' ∧ UeFuSt σ' true) := by
  rcases σ with ⟨st, s0, fu, po, pn, eh, u0, pnc⟩
  simp only at hst hfu
  subst hfu
  rcases hst with rfl | rfl | ⟨rfl, hpn⟩
  · constructor <;>
    · simp +decide only [uriStep, UState.setHost, ↓reduceIte]
      exact ⟨_, rfl, by simp [UeFuSt]⟩
  · constructor <;>
    · simp +decide only [uriStep, UState.setHost, ↓reduceIte]
      exact ⟨_, rfl, by simp [UeFuSt]⟩
  · have e3 : ¬ pn > 65535 := by omega
    constructor <;>
    · simp +decide only [uriStep, UState.setPort, e3, ↓reduceIte]
      exact ⟨_, rfl, by simp [UeFuSt]⟩

/-- `;` / `?` behind `token:digits` (value ≤ 65535) with no '@' seen: the token is committed as the host, the
    digits as the port, and the user part is settled (as absent) -/
theorem ue_gate_pass0 {e : Nat} {σ : UState} (hst : σ.st = .pass0) (hpn : σ.portNo ≤ 65535) :
    (∃ σ', uriStep e 59 σ = .next σ' ∧ UeFuSt σ' false) ∧ (∃ σ', uriStep e 63 σ = .next σ' ∧ UeFuSt σ' true) := by
  rcases σ with ⟨st, s0, fu, po, pn, eh, u0, pnc⟩
  simp only at hst hpn
  subst hst
  have e3 : ¬ pn > 65535 := by omega
  constructor <;>
  · simp +decide only [uriStep, UState.setPort, e3, ↓reduceIte]
    exact ⟨_, rfl, by simp [UeFuSt]⟩

/-- the optional port between the end `he` of the host and the first `;` / `?` at `e`: nothing, or `:` and digits
    of value ≤ 65535 -/
def UePortTo (b : Buf) (he e : Nat) : Prop :=
  e = he ∨ (b[he]? = some 58 ∧ he + 1 ≤ e ∧ UcAll b (he + 1) e isDigit ∧ decOf (digitsOf b (he + 1) e) ≤ 65535)

theorem ue_found_from_host {b : Buf} {he e p : Nat} {hd : Bool} {c : UInt8} {σ : UState}
    (hst : σ.st = .host1 ∨ σ.st = .host6E) (hfu : σ.foundUser = true) (hpn : σ.portNo = 0)
    (hpo : UePortTo b he e) (hph : UePHTo b e p hd) (hc : b[p]? = some c) (hcc : c = 64 ∨ (c = 59 ∧ hd = true)) :
    UcErrAt (ucRun b he σ) .badChar p := by
  have hlt := get?_lt hc
  rcases hpo with rfl | ⟨h58, hle, hall, hval⟩
  · obtain ⟨g1, g2⟩ := ue_gate_fu (e := e) (σ := σ) (by rcases hst with h | h; exact Or.inl h; exact Or.inr (Or.inl h)) hfu
    obtain ⟨σ2, hr2, hf2⟩ := ue_fu_run (Nat.le_of_lt hlt) g1 g2 hph
    rw [hr2]
    exact uc_err_fail hc (ue_fu_reject hf2 hcc) (by decide)
  · have he' : e < b.size := by
      rcases hph with ⟨_, h, _⟩ | ⟨_, h, _⟩ | ⟨_, h, _⟩ <;> exact get?_lt h
    have hstep : uriStep he 58 σ = .next { σ.setHost σ.s he with st := .port, s := he + 1 } := by
      rcases hst with hst | hst <;> simp +decide only [uriStep, hst, ↓reduceIte]
    rw [ucRun_next h58 hstep, uc_run_digits (Or.inl rfl) hle (Nat.le_of_lt he') hall]
    obtain ⟨g1, g2⟩ := ue_gate_fu (e := e)
      (σ := { ({ σ.setHost σ.s he with st := .port, s := he + 1 } : UState) with
        portNo := accPortL ({ σ.setHost σ.s he with st := .port, s := he + 1 } : UState).portNo (digitsOf b (he + 1) e) })
      (Or.inr (Or.inr ⟨rfl, by simp only [UState.setHost, hpn]; rw [uc_acc_val hval]; exact hval⟩))
      (by simp only [UState.setHost, hfu])
    obtain ⟨σ2, hr2, hf2⟩ := ue_fu_run (Nat.le_of_lt hlt) g1 g2 hph
    rw [hr2]
    exact uc_err_fail hc (ue_fu_reject hf2 hcc) (by decide)

/-- **a second '@' (or a `;` in the headers) behind `user-info@host[:port]`**: with the text up to `p` being
    parameters / headers of the grammar, an '@' at `p` — or a `;` at `p` inside the headers — is `ErrURIBadChar`
    at `p` -/
theorem ue_err_found_uinfo {b : Buf} {t k a he e p : Nat} {hd : Bool} {c : UInt8} {σ : UState} {us pw : PField}
    (hi : UcInitSt σ t k) (hfit : b.size ≤ 65535) (hat : b[a]? = some 64)
    (hu : UcUserPlain b k a us pw ∨ UcUserBack b k a us pw)
    (hh : UcNameHost b (a + 1) he ∨ UcBrHost b (a + 1) he) (hpo : UePortTo b he e) (hph : UePHTo b e p hd)
    (hc : b[p]? = some c) (hcc : c = 64 ∨ (c = 59 ∧ hd = true)) : UcErrAt (ucRun b k σ) .badChar p := by
  have hlt := get?_lt hc
  have he' : e < b.size := by
    rcases hph with ⟨_, h, _⟩ | ⟨_, h, _⟩ | ⟨_, h, _⟩ <;> exact get?_lt h
  have hhe : he ≤ b.size := by
    rcases hpo with rfl | ⟨h, _⟩
    · omega
    · have := get?_lt h; omega
  obtain ⟨σ', hr, ⟨g1, g2, g3, g4, g5, g6⟩, hfu⟩ := ue_run_uinfo hi hfit hat hu
  rw [hr]
  rcases hh with ⟨hlt', hf, hall⟩ | hbr
  · obtain ⟨c0, hc0⟩ : ∃ c, b[a + 1]? = some c := ⟨b[a + 1]'(by omega), Array.getElem?_eq_getElem (by omega)⟩
    rw [ucRun_next hc0 (uc_host0_first g1 (hf (a + 1) (Nat.le_refl _) (by omega) c0 hc0)),
      ucRun_stay (σ := { σ' with st := .host1 }) (by omega) hhe hall (fun m c hf => uc_host1_stay rfl hf)]
    exact ue_found_from_host (σ := { σ' with st := .host1 }) (Or.inl rfl) hfu g3 hpo hph hc hcc
  · have hstep : uriStep (a + 1) 91 σ' = .next { σ' with st := .host61 } := by
      simp +decide only [uriStep, g1, ↓reduceIte]
    rw [ucRun_next hbr.1 hstep, uc_run_br rfl hbr hhe]
    exact ue_found_from_host (σ := { σ' with st := .host6E }) (Or.inr rfl) hfu g3 hpo hph hc hcc

/-- **an '@' (or a `;` in the headers) behind `token:digits;…` / `token:digits?…`**: the `;` / `?` behind the digits
    (value ≤ 65535) has committed the token as host and the digits as port, so a later '@' is `ErrURIBadChar`
    (`sip:u:1;x@h`) -/
theorem ue_err_found_pass0 {b : Buf} {t k ue e p : Nat} {hd : Bool} {c : UInt8} {σ : UState}
    (hi : UcInitSt σ t k) (hh : UcFirstTok b k ue) (h58 : b[ue]? = some 58) (hle : ue + 1 ≤ e)
    (hall : UcAll b (ue + 1) e isDigit) (hval : decOf (digitsOf b (ue + 1) e) ≤ 65535) (hph : UePHTo b e p hd)
    (hc : b[p]? = some c) (hcc : c = 64 ∨ (c = 59 ∧ hd = true)) : UcErrAt (ucRun b k σ) .badChar p := by
  have hlt := get?_lt hc
  have he' : e < b.size := by
    rcases hph with ⟨_, h, _⟩ | ⟨_, h, _⟩ | ⟨_, h, _⟩ <;> exact get?_lt h
  obtain ⟨σp, hr, hst, hpn⟩ := uc_run_to_pass0 (σ := σ) (k := k) ⟨Or.inr ⟨hi.1, rfl⟩, hi.2.2.2.1⟩ hh h58
  rw [hr, uc_run_digits (Or.inr hst) hle (Nat.le_of_lt he') hall]
  obtain ⟨g1, g2⟩ := ue_gate_pass0 (e := e) (σ := { σp with portNo := accPortL σp.portNo (digitsOf b (ue + 1) e) })
    hst (by simp only [hpn]; rw [uc_acc_val hval]; exact hval)
  obtain ⟨σ2, hr2, hf2⟩ := ue_fu_run (Nat.le_of_lt hlt) g1 g2 hph
  rw [hr2]
  exact uc_err_fail hc (ue_fu_reject hf2 hcc) (by decide)

/-! #### `;` inside the headers while the user part is still undecided (no '@', no `:` seen) -/

/-- parameter byte of a text that may still become a user part: not `@`, `?`, `:` -/
def ucNc (c : UInt8) : Bool := !(c == 64 || c == 63 || c == 58)

/-- reading parameters (`hd = false`) or headers (`hd = true`) with no '@' seen and no `:` remembered -/
def UeUnd (σ : UState) (hd : Bool) : Prop :=
  σ.foundUser = false ∧ σ.passOffs = 0 ∧
  ((hd = false ∧ (σ.st = .param0 ∨ σ.st = .param1)) ∨ (hd = true ∧ σ.st = .headers))

/-- `;` / `?` right behind a host without user-info and without port (first token, or `[…]`) -/
theorem ue_gate_und {e : Nat} {σ : UState} (hst : σ.st = .user ∨ σ.st = .host6E) (hfu : σ.foundUser = false)
    (hpo : σ.passOffs = 0) :
    (∃ σ', uriStep e 59 σ = .next σ' ∧ UeUnd σ' false) ∧ (∃ σ', uriStep e 63 σ = .next σ' ∧ UeUnd σ' true) := by
  rcases σ with ⟨st, s0, fu, po, pn, eh, u0, pnc⟩
  simp only at hst hfu hpo
  subst hfu hpo
  rcases hst with rfl | rfl <;>
  · constructor <;>
    · simp +decide only [uriStep, UState.setHost, ↓reduceIte]
      exact ⟨_, rfl, by simp [UeUnd]⟩

theorem ue_und_par_step {i : Nat} {c : UInt8} {σ : UState} (h : UeUnd σ false) (hc : ucNc c = true) :
    ∃ σ', uriStep i c σ = .next σ' ∧ UeUnd σ' false := by
  simp only [ucNc, Bool.not_eq_true', Bool.or_eq_false_iff] at hc
  obtain ⟨⟨h64, h63⟩, h58⟩ := hc
  rcases σ with ⟨st, s0, fu, po, pn, eh, u0, pnc⟩
  obtain ⟨hfu, hpo, hst⟩ := h
  simp only at hfu hpo hst
  subst hfu hpo
  rcases hst with ⟨_, hst⟩ | ⟨hh, _⟩
  · rcases hst with rfl | rfl <;>
    · simp +decide only [uriStep, h63, h64, h58, Bool.false_eq_true, ↓reduceIte]
      repeat' split
      all_goals exact ⟨_, rfl, by simp [UeUnd]⟩
  · cases hh

theorem ue_und_par_q {i : Nat} {σ : UState} (h : UeUnd σ false) :
    ∃ σ', uriStep i 63 σ = .next σ' ∧ UeUnd σ' true := by
  rcases σ with ⟨st, s0, fu, po, pn, eh, u0, pnc⟩
  obtain ⟨hfu, hpo, hst⟩ := h
  simp only at hfu hpo hst
  subst hfu hpo
  rcases hst with ⟨_, hst⟩ | ⟨hh, _⟩
  · rcases hst with rfl | rfl <;>
    · simp +decide only [uriStep, UState.setParams, ↓reduceIte]
      exact ⟨_, rfl, by simp [UeUnd]⟩
  · cases hh

/-- in the headers, undecided: once a `;` has been read in `[s, m)` the flag `errHeaders` is set -/
def UeHeSt (b : Buf) (s m : Nat) (σ : UState) : Prop :=
  UeUnd σ true ∧ ((∃ j, s ≤ j ∧ j < m ∧ b[j]? = some 59) → σ.errHeaders = true)

theorem ue_he_step {b : Buf} {s m : Nat} {c : UInt8} {σ : UState} (h : UeHeSt b s m σ) (hc : b[m]? = some c)
    (hf : ucW1 c = true) : ∃ σ', uriStep m c σ = .next σ' ∧ UeHeSt b s (m + 1) σ' := by
  simp only [ucW1, Bool.not_eq_true', Bool.or_eq_false_iff] at hf
  obtain ⟨h64, h58⟩ := hf
  obtain ⟨⟨hfu, hpo, hst⟩, herr⟩ := h
  have hst' : σ.st = .headers := by
    rcases hst with ⟨hh, _⟩ | ⟨_, h⟩
    · cases hh
    · exact h
  by_cases h59 : c = 59
  · subst h59
    refine ⟨{ σ with errHeaders := true }, ?_, ⟨hfu, hpo, Or.inr ⟨rfl, hst'⟩⟩, fun _ => rfl⟩
    simp +decide only [uriStep, hst', hfu, hpo, ↓reduceIte]
  · have e59 : (c == 59) = false := by simpa using h59
    refine ⟨σ, ?_, ⟨hfu, hpo, hst⟩, fun ⟨j, h1, h2, h3⟩ => herr ⟨j, h1, ?_, h3⟩⟩
    · simp +decide only [uriStep, hst', hfu, hpo, h64, h58, e59, Bool.false_eq_true, ↓reduceIte]
      split <;> rfl
    · by_cases hjm : j = m
      · subst hjm
        rw [hc] at h3
        cases h3
        exact absurd rfl h59
      · omega

/-- **`;` inside the headers of a URI without user-info** (host = first token or `[…]`, no port; optional `;`
    parameters without `:`; then `?`): when no '@' and no `:` follows, the `;` makes the whole URI
    `ErrURIHeaders`, reported at the END of the input (not at the `;`) -/
theorem ue_err_hdr_semi {b : Buf} {t k he q : Nat} {σ : UState} (hi : UcInitSt σ t k)
    (hh : UcFirstTok b k he ∨ UcBrHost b k he)
    (hq : (q = he ∧ b[he]? = some 63) ∨ (b[he]? = some 59 ∧ he + 1 ≤ q ∧ UcAll b (he + 1) q ucNc ∧ b[q]? = some 63))
    (hall : UcAll b (q + 1) b.size ucW1) (hsemi : ∃ j, q + 1 ≤ j ∧ j < b.size ∧ b[j]? = some 59) :
    UcErrAt (ucRun b k σ) .headers b.size := by
  obtain ⟨hst, hfu, hpo, hpn, heh, hp, hu0⟩ := hi
  have hqlt : q < b.size := by
    rcases hq with ⟨_, h⟩ | ⟨_, _, _, h⟩
    · have := get?_lt h; omega
    · exact get?_lt h
  have hhe : he ≤ q := by
    rcases hq with ⟨h, _⟩ | ⟨_, h, _⟩ <;> omega
  -- up to the end of the host
  obtain ⟨σh, hr, hsth, hfuh, hpoh⟩ : ∃ σh, ucRun b k σ = ucRun b he σh ∧ (σh.st = .user ∨ σh.st = .host6E) ∧
      σh.foundUser = false ∧ σh.passOffs = 0 := by
    rcases hh with ⟨hlt, hf, hall'⟩ | hbr
    · obtain ⟨c0, hc0⟩ : ∃ c, b[k]? = some c := ⟨b[k]'(by omega), Array.getElem?_eq_getElem (by omega)⟩
      exact ⟨{ σ with st := .user, s := k }, by
        rw [ucRun_next hc0 (uc_init_first hst (hf k (Nat.le_refl _) (by omega) c0 hc0)),
          ucRun_stay (σ := { σ with st := .user, s := k }) (by omega) (by omega) hall' (fun m c hf => uc_user_tok rfl hf)],
        Or.inl rfl, hfu, hpo⟩
    · have hstep : uriStep k 91 σ = .next { σ with st := .host61, s := k } := by
        rcases hst with hst | hst | hst <;> simp +decide only [uriStep, hst, ↓reduceIte]
      exact ⟨{ σ with st := .host6E, s := k }, by rw [ucRun_next hbr.1 hstep, uc_run_br rfl hbr (by omega)],
        Or.inr rfl, hfu, hpo⟩
  obtain ⟨g1, g2⟩ := ue_gate_und (e := he) hsth hfuh hpoh
  -- to the headers
  obtain ⟨σq, hr2, hund⟩ : ∃ σq, ucRun b he σh = ucRun b (q + 1) σq ∧ UeUnd σq true := by
    rcases hq with ⟨rfl, h63⟩ | ⟨h59, hle, hall', h63⟩
    · obtain ⟨σ1, hs1, hu1⟩ := g2
      exact ⟨σ1, ucRun_next h63 hs1, hu1⟩
    · obtain ⟨σ1, hs1, hu1⟩ := g1
      obtain ⟨σ2, hr2, hu2⟩ := ucRun_scan (f := ucNc) (fun _ σ' => UeUnd σ' false) (Nat.le_of_lt hqlt) (q - (he + 1))
        (he + 1) σ1 (by omega) hall' hu1 (fun m c σ2 _ _ _ hf h1 => ue_und_par_step h1 hf)
      obtain ⟨σ3, hs3, hu3⟩ := ue_und_par_q (i := q) hu2
      exact ⟨σ3, by rw [ucRun_next h59 hs1, hr2, ucRun_next h63 hs3], hu3⟩
  obtain ⟨σe, hr3, hue, herr⟩ := ucRun_scan (f := ucW1) (fun m σ' => UeHeSt b (q + 1) m σ') (Nat.le_refl _)
    (b.size - (q + 1)) (q + 1) σq (by omega) hall ⟨hund, fun ⟨j, h1, h2, _⟩ => absurd h2 (by omega)⟩
    (fun m c σ2 _ _ hc hf h1 => ue_he_step h1 hc hf)
  have hste : σe.st = .headers := by
    rcases hue.2.2 with ⟨hh, _⟩ | ⟨_, h⟩
    · cases hh
    · exact h
  rw [hr, hr2, hr3, ucRun_end' rfl]
  simp only [uriFinish, hste, UState.setHeaders, herr hsemi, ↓reduceIte]
  exact ⟨rfl, rfl⟩

/-! ### (2) the text in front of a rejected byte -/

/-- the text in front of a rejected byte `c` at `p`, one alternative per group of exits of the automaton:
    right behind the scheme; `[` `]` in the first token; behind `token:` (password / port); where a host must
    start and inside a host name, behind the '@' of a user-info; inside / behind `[…]`; in the port behind such a
    host; in the parameters / headers -/
def UeShape (b : Buf) (k p : Nat) (c : UInt8) (e : UErr) : Prop :=
  (p = k ∧ e = .badChar ∧ (c = 58 ∨ c = 93)) ∨
  (UcFirstTok b k p ∧ e = .badChar ∧ (c = 91 ∨ c = 93)) ∨
  (∃ ue, UcFirstTok b k ue ∧ b[ue]? = some 58 ∧ ue + 1 ≤ p ∧ UcAll b (ue + 1) p ucTok ∧
    ((e = .badChar ∧ (c = 91 ∨ c = 93 ∨ c = 58)) ∨
     (e = .badChar ∧ (c = 59 ∨ c = 63) ∧ UeNonDigit b (ue + 1) p) ∨
     (e = .port ∧ (c = 59 ∨ c = 63) ∧ UcAll b (ue + 1) p isDigit ∧ decOf (digitsOf b (ue + 1) p) > 65535))) ∨
  (∃ hs, UcHostAt b k hs ∧ k < hs ∧
    ((p = hs ∧ e = .host ∧ (c = 58 ∨ c = 59 ∨ c = 63 ∨ c = 38 ∨ c = 64)) ∨
     (UcNameHost b hs p ∧ e = .badChar ∧ (c = 64 ∨ c = 38)))) ∨
  (∃ hs, UcHostAt b k hs ∧
    ((b[hs]? = some 91 ∧ hs + 1 ≤ p ∧ UcAll b (hs + 1) p ucBrIn ∧ e = .host ∧
        (c = 91 ∨ c = 64 ∨ c = 59 ∨ c = 63 ∨ c = 38)) ∨
     (UcBrHost b hs p ∧ e = .host ∧ c ≠ 58 ∧ c ≠ 59 ∧ c ≠ 63))) ∨
  (∃ hs he, UcHostAt b k hs ∧ ((k < hs ∧ UcNameHost b hs he) ∨ UcBrHost b hs he) ∧ b[he]? = some 58 ∧ he + 1 ≤ p ∧
    UcAll b (he + 1) p isDigit ∧ e = .port ∧ isDigit c = false ∧
    ((c = 59 ∨ c = 63) → decOf (digitsOf b (he + 1) p) > 65535)) ∨
  (e = .badChar ∧ ∃ d, k < d ∧ d < p ∧
    ((c = 64 ∧ (b[d]? = some 59 ∨ b[d]? = some 63)) ∨ (c = 59 ∧ b[d]? = some 63)))

theorem ue_acc_big {l : List UInt8} (h : accPortL 0 l > 65535) : decOf l > 65535 := by
  rcases Nat.lt_or_ge 65535 (decOf l) with h1 | h1
  · exact h1
  · have := (accPortL_spec l 0).1 h1
    unfold decOf at h1
    omega

theorem ue_host_ge {b : Buf} {k pH : Nat} {us pw : PField} (h : UserPart b k us pw pH) : k ≤ pH := by
  rcases h.arith with ⟨_, _, _, _, h⟩ | ⟨_, _, h, h2⟩
  · omega
  · rcases h2 with ⟨_, _, h3⟩ | ⟨_, h3⟩ <;> omega

/-- **the text in front of a rejected byte**: a state satisfying the invariants in which the byte is rejected
    pins down the shape of the input up to that byte -/
theorem ue_shape_of_table {b : Buf} {t k p : Nat} {c : UInt8} {e : UErr} {σ : UState} (h : UeInv b t k p σ)
    (hc : b[p]? = some c) (ht : UeTable σ c e) : UeShape b k p c e := by
  obtain ⟨hinv, hpi, hs, hx⟩ := h
  have hI := hinv.2.2.2.2.2.2
  have hk : 0 < k := hinv.2.2.2.1
  rcases hst : σ.st with _ | _ | _ | _ | _ | _ | _ | _ | _ | _ | _ | _ | _ | _ | _ | _ | _ | _ <;>
    simp only [UeTable, hst] at ht <;> simp only [UStInv, hst] at hI <;> simp only [UcSInv, hst] at hs <;>
    simp only [ULPInv, hst] at hpi
  case initSIP => exact Or.inl ⟨hI.1, ht.1, ht.2⟩
  case initSIPS => exact Or.inl ⟨hI.1, ht.1, ht.2⟩
  case initTEL => exact Or.inl ⟨hI.1, ht.1, ht.2⟩
  case user => exact Or.inr (Or.inl ⟨⟨hI.2.1, hs.1, hs.2⟩, ht.1, ht.2⟩)
  case pass0 =>
    obtain ⟨_, _, huo, hul, h58, hss, hsp, _⟩ := hI
    refine Or.inr (Or.inr (Or.inl ⟨k + σ.u.user.len, hs.1, h58, by omega, ?_, ?_⟩))
    · rw [← hss]; exact hs.2.mono uc_digit_tok
    · rcases ht with ⟨he, hcc, hbig⟩ | ⟨he, hcc⟩
      · refine Or.inr (Or.inr ⟨he, hcc, by rw [← hss]; exact hs.2, ?_⟩)
        rw [← hss]
        apply ue_acc_big
        rw [← hpi.2.2]
        exact hbig
      · exact Or.inl ⟨he, hcc⟩
  case pass1 =>
    obtain ⟨_, _, huo, hul, h58, hss, hsp, _⟩ := hI
    refine Or.inr (Or.inr (Or.inl ⟨k + σ.u.user.len, hs.1, h58, by omega, by rw [← hss]; exact hs.2, ?_⟩))
    have hnd := hx.1 hst
    rw [hss] at hnd
    rcases ht.2 with hcc | hcc | hcc | hcc | hcc
    · exact Or.inr (Or.inl ⟨ht.1, Or.inl hcc, hnd⟩)
    · exact Or.inr (Or.inl ⟨ht.1, Or.inr hcc, hnd⟩)
    · exact Or.inl ⟨ht.1, Or.inl hcc⟩
    · exact Or.inl ⟨ht.1, Or.inr (Or.inl hcc)⟩
    · exact Or.inl ⟨ht.1, Or.inr (Or.inr hcc)⟩
  case host0 =>
    obtain ⟨hat, hlt⟩ := hs.hostAt
    exact Or.inr (Or.inr (Or.inr (Or.inl ⟨σ.s, hat, hlt, Or.inl ⟨hI.2.1.symm, ht.1, ht.2⟩⟩)))
  case host1 =>
    obtain ⟨hat, hlt⟩ := hs.1.hostAt
    exact Or.inr (Or.inr (Or.inr (Or.inl ⟨σ.s, hat, hlt, Or.inr ⟨⟨hI.2.1, hs.2.1, hs.2.2⟩, ht.1,
      ht.2.elim Or.inr Or.inl⟩⟩)))
  case host61 =>
    have hat : UcHostAt b k σ.s := by
      by_cases hfu : σ.foundUser = true
      · exact (hs.1 hfu).hostAt.1
      · have : σ.foundUser = false := by simpa using hfu
        exact Or.inl (hI.2.2.2 this).2.2
    exact Or.inr (Or.inr (Or.inr (Or.inr (Or.inl ⟨σ.s, hat, Or.inl ⟨hs.2.2.1, hs.2.1, hs.2.2.2, ht.1, ht.2⟩⟩))))
  case host6E =>
    have hat : UcHostAt b k σ.s := by
      by_cases hfu : σ.foundUser = true
      · exact (hs.1 hfu).hostAt.1
      · have : σ.foundUser = false := by simpa using hfu
        exact Or.inl (hI.2.2.2 this).2.2
    exact Or.inr (Or.inr (Or.inr (Or.inr (Or.inl ⟨σ.s, hat, Or.inr ⟨hs.2, ht.1, ht.2⟩⟩))))
  case port =>
    obtain ⟨hsx, hat, hh⟩ := hx.2.1 hst
    obtain ⟨_, _, h58, hss, hsp, _⟩ := hI
    refine Or.inr (Or.inr (Or.inr (Or.inr (Or.inr (Or.inl ⟨hsx, _, hat, hh, h58, by omega, by rw [← hss]; exact hs.2.1,
      ht.1, ht.2.1, fun hcc => ?_⟩)))))
    rw [← hss]
    apply ue_acc_big
    rw [← hpi.2.2]
    exact ht.2.2 hcc
  case param0 =>
    obtain ⟨hup, hhl, hsep, h59, hss, hsp, _⟩ := hI
    have := ue_host_ge hup
    have := hsep.le_uafter
    exact Or.inr (Or.inr (Or.inr (Or.inr (Or.inr (Or.inr ⟨ht.1, _, by omega, by omega,
      Or.inl ⟨ht.2.1, Or.inl h59⟩⟩)))))
  case param1 =>
    obtain ⟨hup, hhl, hsep, h59, hss, hsp, _⟩ := hI
    have := ue_host_ge hup
    have := hsep.le_uafter
    exact Or.inr (Or.inr (Or.inr (Or.inr (Or.inr (Or.inr ⟨ht.1, _, by omega, by omega,
      Or.inl ⟨ht.2.1, Or.inl h59⟩⟩)))))
  case headers =>
    obtain ⟨hup, hhl, hsep, hsep2, h63, hss, hsp, _⟩ := hI
    have := ue_host_ge hup
    have := hsep.le_uafter
    have := hsep2.le_uafter
    refine Or.inr (Or.inr (Or.inr (Or.inr (Or.inr (Or.inr ⟨ht.1,
      uafter (uafter (σ.u.host.offs + σ.u.host.len) σ.u.port) σ.u.params, by omega, by omega, ?_⟩)))))
    rcases ht.2 with ⟨hcc, _⟩ | ⟨hcc, _⟩
    · exact Or.inl ⟨hcc, Or.inr h63⟩
    · exact Or.inr ⟨hcc, h63⟩
  all_goals exact absurd ht id

/-- the whole text of an input that is rejected at its END (position = length), one alternative per group of
    exits of the end-of-input switch: nothing behind the scheme; `token:text` without '@' where the text is not a
    number, or is a number above 65535; a host that is missing behind '@' / a `[` that is never closed; a port
    above 65535; a `;` in the headers -/
def UeEndShape (b : Buf) (k : Nat) (e : UErr) : Prop :=
  (b.size = k ∧ e = .tooShort) ∨
  (∃ ue, UcFirstTok b k ue ∧ b[ue]? = some 58 ∧ UcAll b (ue + 1) b.size ucTok ∧ e = .port ∧
    (UeNonDigit b (ue + 1) b.size ∨
     (UcAll b (ue + 1) b.size isDigit ∧ decOf (digitsOf b (ue + 1) b.size) > 65535))) ∨
  (∃ hs, UcHostAt b k hs ∧ e = .host ∧
    ((hs = b.size ∧ k < hs) ∨ (b[hs]? = some 91 ∧ UcAll b (hs + 1) b.size ucBrIn))) ∨
  (∃ hs he, UcHostAt b k hs ∧ ((k < hs ∧ UcNameHost b hs he) ∨ UcBrHost b hs he) ∧ b[he]? = some 58 ∧
    UcAll b (he + 1) b.size isDigit ∧ decOf (digitsOf b (he + 1) b.size) > 65535 ∧ e = .port) ∨
  (e = .headers ∧ ∃ q j, k < q ∧ q < j ∧ j < b.size ∧ b[q]? = some 63 ∧ b[j]? = some 59)

/-- **the text of an input rejected at its end** -/
theorem ue_end_shape {b : Buf} {t k : Nat} {e : UErr} {σ : UState} (h : UeInv b t k b.size σ)
    (ht : UeFinTable σ e) (he : e ≠ .none) : UeEndShape b k e := by
  obtain ⟨hinv, hpi, hs, hx⟩ := h
  have hI := hinv.2.2.2.2.2.2
  have hk : 0 < k := hinv.2.2.2.1
  rcases hst : σ.st with _ | _ | _ | _ | _ | _ | _ | _ | _ | _ | _ | _ | _ | _ | _ | _ | _ | _ <;>
    simp only [UeFinTable, hst] at ht <;> simp only [UStInv, hst] at hI <;> simp only [UcSInv, hst] at hs <;>
    simp only [ULPInv, hst] at hpi
  case initSIP => exact Or.inl ⟨hI.1, ht⟩
  case initSIPS => exact Or.inl ⟨hI.1, ht⟩
  case initTEL => exact Or.inl ⟨hI.1, ht⟩
  case user => exact absurd ht he
  case host1 => exact absurd ht he
  case host6E => exact absurd ht he
  case param0 => exact absurd ht he
  case param1 => exact absurd ht he
  case pass0 =>
    obtain ⟨_, _, huo, hul, h58, hss, hsp, _⟩ := hI
    rcases ht with ⟨he', hbig⟩ | ⟨he', _⟩
    · refine Or.inr (Or.inl ⟨k + σ.u.user.len, hs.1, h58, by rw [← hss]; exact hs.2.mono uc_digit_tok, he',
        Or.inr ⟨by rw [← hss]; exact hs.2, ?_⟩⟩)
      rw [← hss]
      apply ue_acc_big
      rw [← hpi.2.2]
      exact hbig
    · exact absurd he' he
  case pass1 =>
    obtain ⟨_, _, huo, hul, h58, hss, hsp, _⟩ := hI
    have hnd := hx.1 hst
    rw [hss] at hnd
    exact Or.inr (Or.inl ⟨k + σ.u.user.len, hs.1, h58, by rw [← hss]; exact hs.2, ht, Or.inl hnd⟩)
  case host0 =>
    obtain ⟨hat, hlt⟩ := hs.hostAt
    exact Or.inr (Or.inr (Or.inl ⟨σ.s, hat, ht, Or.inl ⟨hI.2.1, hlt⟩⟩))
  case host61 =>
    have hat : UcHostAt b k σ.s := by
      by_cases hfu : σ.foundUser = true
      · exact (hs.1 hfu).hostAt.1
      · have : σ.foundUser = false := by simpa using hfu
        exact Or.inl (hI.2.2.2 this).2.2
    exact Or.inr (Or.inr (Or.inl ⟨σ.s, hat, ht, Or.inr ⟨hs.2.2.1, hs.2.2.2⟩⟩))
  case port =>
    obtain ⟨hsx, hat, hh⟩ := hx.2.1 hst
    obtain ⟨_, _, h58, hss, hsp, _⟩ := hI
    rcases ht with ⟨he', hbig⟩ | ⟨he', _⟩
    · refine Or.inr (Or.inr (Or.inr (Or.inl ⟨hsx, _, hat, hh, h58, by rw [← hss]; exact hs.2.1, ?_, he'⟩)))
      rw [← hss]
      apply ue_acc_big
      rw [← hpi.2.2]
      exact hbig
    · exact absurd he' he
  case headers =>
    obtain ⟨hup, hhl, hsep, hsep2, h63, hss, hsp, _⟩ := hI
    have := ue_host_ge hup
    have := hsep.le_uafter
    have := hsep2.le_uafter
    rcases ht with ⟨he', heh⟩ | ⟨he', _⟩
    · obtain ⟨_, j, a1, a2, a3⟩ := hx.2.2 heh
      exact Or.inr (Or.inr (Or.inr (Or.inr ⟨he', uafter (uafter (σ.u.host.offs + σ.u.host.len) σ.u.port) σ.u.params,
        j, by omega, by omega, a2, h63, a3⟩)))
    · exact absurd he' he
  all_goals exact absurd ht id

/-! ### `parseURI`: totality -/

/-- with the scheme in place and at least five bytes, `parseURI` is the automaton run from behind the scheme
    (for `sips:` the run may start at the very end of the input) -/
theorem ue_parse_run {b : Buf} {t k : Nat} (h : UcScheme b t k) (h5 : 5 ≤ b.size) :
    ∃ σ, UcInitSt σ t k ∧ parseURI b {} = ucRun b k σ ∧ 0 < k ∧ k ≤ b.size := by
  obtain ⟨b4, h4⟩ : ∃ c, b[4]? = some c := ⟨b[4]'(by omega), Array.getElem?_eq_getElem (by omega)⟩
  rcases h with ⟨rfl, rfl, b0, b1, b2, b3, h0, h1, h2, h3, hl⟩ | ⟨rfl, rfl, b0, b1, b2, b3, h0, h1, h2, h3, hl⟩ |
    ⟨rfl, rfl, ⟨b0, b1, b2, b3, h0, h1, h2, h3, hl⟩, h4'⟩
  · refine ⟨_, ucStart_init SIPuri 4 .initSIP (Or.inl rfl) (by omega), ?_, by omega, by omega⟩
    rw [uc_parse_unfold h0 h1 h2 h3 h4, if_pos ((ucWord_eq b0 b1 b2 b3 115 105 112 58 (by omega) (by omega) (by omega) (by omega)).mpr hl)]
  · refine ⟨_, ucStart_init TELuri 4 .initTEL (Or.inr (Or.inr rfl)) (by omega), ?_, by omega, by omega⟩
    have hw := (ucWord_eq b0 b1 b2 b3 116 101 108 58 (by omega) (by omega) (by omega) (by omega)).mpr hl
    rw [uc_parse_unfold h0 h1 h2 h3 h4, if_neg (by rw [hw]; decide), if_pos hw]
  · refine ⟨_, ucStart_init SIPSuri 5 .initSIPS (Or.inr (Or.inl rfl)) (by omega), ?_, by omega, by omega⟩
    have hw := (ucWord_eq b0 b1 b2 b3 115 105 112 115 (by omega) (by omega) (by omega) (by omega)).mpr hl
    rw [uc_parse_unfold h0 h1 h2 h3 h4', if_neg (by rw [hw]; decide), if_neg (by rw [hw]; decide), if_pos ⟨hw, rfl⟩]

/-- **EXPORT C14 — totality of the description of `ParseURI`**: for every input of at most 65,535 bytes
    at least one of four things happens (the four are mutually exclusive by the error code / position):
    * it is ACCEPTED, consumed to the end, and is a text of the grammar (`UcURI` or `UcTelURI`);
    * it has fewer than five bytes: `ErrURITooShort` at the end;
    * it has no known scheme: `ErrURIScheme` at position 4 (always 4: the position is not that of an offending
      byte unless the scheme is `sips` without its `:`);
    * behind a scheme of `k` bytes it is REJECTED, either at its END (position = length) with the whole text
      described by `UeEndShape`, or at the byte `c` at the reported position `p ≥ k`, which the automaton rejects
      in the state it has reached: `UeShape` gives the text in front of `p`, the byte and the code. -/
theorem parseURI_total (b : Buf) (hfit : b.size ≤ 65535) :
    ((parseURI b {}).1 = .none ∧ (parseURI b {}).2.1 = b.size ∧ ((∃ u, UcURI b u) ∨ (∃ u, UcTelURI b u))) ∨
    ((parseURI b {}).1 = .tooShort ∧ (parseURI b {}).2.1 = b.size ∧ b.size < 5) ∨
    ((parseURI b {}).1 = .scheme ∧ (parseURI b {}).2.1 = 4 ∧ 5 ≤ b.size ∧
      ¬ UcSchSip b ∧ ¬ UcSchTel b ∧ ¬ UcSchSips b) ∨
    (∃ t k, UcScheme b t k ∧ (parseURI b {}).1 ≠ .none ∧
      (((parseURI b {}).2.1 = b.size ∧ UeEndShape b k (parseURI b {}).1) ∨
       (∃ c, k ≤ (parseURI b {}).2.1 ∧ b[(parseURI b {}).2.1]? = some c ∧
          UeShape b k (parseURI b {}).2.1 c (parseURI b {}).1))) := by
  by_cases h5 : b.size < 5
  · rw [parseURI_err_short b h5]
    exact Or.inr (Or.inl ⟨rfl, rfl, h5⟩)
  have h5' : 5 ≤ b.size := by omega
  by_cases hsch : ∃ t k, UcScheme b t k
  · obtain ⟨t, k, hsch⟩ := hsch
    obtain ⟨σ0, hi, hr, hk, hk2⟩ := ue_parse_run hsch h5'
    have hinv := ue_inv_init hi hk hk2 hfit
    by_cases hacc : (parseURI b {}).1 = .none
    · refine Or.inl ⟨hacc, ((parseURI_ok b hfit).2.2 hacc).1, ?_⟩
      by_cases htel : (parseURI b {}).2.2.1.uriType = TELuri
      · exact Or.inr ((parseURI_tel_iff b hfit).mp ⟨hacc, htel⟩)
      · exact Or.inl ((parseURI_ok_iff b hfit).mp ⟨hacc, htel⟩)
    · refine Or.inr (Or.inr (Or.inr ⟨t, k, hsch, hacc, ?_⟩))
      rw [hr] at hacc ⊢
      rcases ue_run_cases hinv with ⟨σ, hσ, hft, hp⟩ | ⟨c, σp, _, hkp, hc, hσ, htb⟩
      · exact Or.inl ⟨hp, ue_end_shape hσ hft hacc⟩
      · exact Or.inr ⟨c, hkp, hc, ue_shape_of_table hσ hc htb⟩
  · have h1 : ¬ UcSchSip b := fun h => hsch ⟨SIPuri, 4, Or.inl ⟨rfl, rfl, h⟩⟩
    have h2 : ¬ UcSchTel b := fun h => hsch ⟨TELuri, 4, Or.inr (Or.inl ⟨rfl, rfl, h⟩)⟩
    have h3 : ¬ UcSchSips b := fun h => hsch ⟨SIPSuri, 5, Or.inr (Or.inr ⟨rfl, rfl, h⟩)⟩
    rw [parseURI_err_scheme b h5' h1 h2 h3]
    exact Or.inr (Or.inr (Or.inl ⟨rfl, rfl, h5', h1, h2, h3⟩))

/-- the bytes the automaton can reject, by error code: `ErrURIBadChar` — one of `: ] [ ; ? @ &`; `ErrURIHost` — one
    of `: ; ? & @ [`, or any byte other than `: ; ?` right behind a `]`; `ErrURIPort` — a byte that is not a digit
    (`;` / `?` only behind digits of value above 65535). No other code is reported inside the input, except
    `ErrURIScheme`, always at position 4. -/
def UeByte (b : Buf) (p : Nat) (c : UInt8) (e : UErr) : Prop :=
  (e = .badChar ∧ (c = 58 ∨ c = 93 ∨ c = 91 ∨ c = 59 ∨ c = 63 ∨ c = 64 ∨ c = 38)) ∨
  (e = .host ∧ ((c = 58 ∨ c = 59 ∨ c = 63 ∨ c = 38 ∨ c = 64 ∨ c = 91) ∨
    (1 ≤ p ∧ b[p - 1]? = some 93 ∧ c ≠ 58 ∧ c ≠ 59 ∧ c ≠ 63))) ∨
  (e = .port ∧ isDigit c = false)

theorem UeShape.byte {b : Buf} {k p : Nat} {c : UInt8} {e : UErr} (h : UeShape b k p c e) : UeByte b p c e := by
  rcases h with ⟨_, he, hc⟩ | ⟨_, he, hc⟩ | ⟨ue, _, _, _, _, hh⟩ | ⟨hs, _, _, hh⟩ | ⟨hs, _, hh⟩ |
    ⟨hs, he', _, _, _, _, _, he, hc, _⟩ | ⟨he, d, _, _, hh⟩
  · rcases hc with rfl | rfl <;> exact Or.inl ⟨he, by decide⟩
  · rcases hc with rfl | rfl <;> exact Or.inl ⟨he, by decide⟩
  · rcases hh with ⟨he, hc⟩ | ⟨he, hc, _⟩ | ⟨he, hc, _⟩
    · rcases hc with rfl | rfl | rfl <;> exact Or.inl ⟨he, by decide⟩
    · rcases hc with rfl | rfl <;> exact Or.inl ⟨he, by decide⟩
    · rcases hc with rfl | rfl <;> exact Or.inr (Or.inr ⟨he, by decide⟩)
  · rcases hh with ⟨_, he, hc⟩ | ⟨_, he, hc⟩
    · rcases hc with rfl | rfl | rfl | rfl | rfl <;> exact Or.inr (Or.inl ⟨he, Or.inl (by decide)⟩)
    · rcases hc with rfl | rfl <;> exact Or.inl ⟨he, by decide⟩
  · rcases hh with ⟨_, _, _, he, hc⟩ | ⟨hbr, he, h1, h2, h3⟩
    · rcases hc with rfl | rfl | rfl | rfl | rfl <;> exact Or.inr (Or.inl ⟨he, Or.inl (by decide)⟩)
    · exact Or.inr (Or.inl ⟨he, Or.inr ⟨by have := hbr.2.1; omega, hbr.2.2.1, h1, h2, h3⟩⟩)
  · exact Or.inr (Or.inr ⟨he, hc⟩)
  · rcases hh with ⟨rfl, _⟩ | ⟨rfl, _⟩ <;> exact Or.inl ⟨he, by decide⟩

/-- **EXPORT C14 — a position inside the input points at an offending byte**: when `ParseURI` rejects an input
    (≤ 65,535 bytes) at a position `p < len`, then either the code is `ErrURIScheme` and `p = 4`, or the byte at `p`
    is one of the bytes the automaton rejects with that code (`UeByte`: a finite set for `ErrURIBadChar`; for
    `ErrURIHost` a finite set or any byte but `: ; ?` right behind `]`; a non-digit for `ErrURIPort`).  The codes
    `ErrURITooShort` and `ErrURIHeaders` are only ever reported at the end of the input, and `ErrURIBad` /
    `ErrURIBug` never. -/
theorem parseURI_reject_inside (b : Buf) (hfit : b.size ≤ 65535) (hrej : (parseURI b {}).1 ≠ .none)
    (hp : (parseURI b {}).2.1 < b.size) :
    ((parseURI b {}).1 = .scheme ∧ (parseURI b {}).2.1 = 4) ∨
    ∃ c, b[(parseURI b {}).2.1]? = some c ∧ UeByte b (parseURI b {}).2.1 c (parseURI b {}).1 := by
  rcases parseURI_total b hfit with ⟨h, _⟩ | ⟨_, h, _⟩ | ⟨h1, h2, _⟩ | ⟨t, k, _, _, ⟨h, _⟩ | ⟨c, _, hc, hsh⟩⟩
  · exact absurd h hrej
  · omega
  · exact Or.inl ⟨h1, h2⟩
  · omega
  · exact Or.inr ⟨c, hc, hsh.byte⟩

/-- **EXPORT C14 — rejections at the end of the input**: when the reported position is the length of the input, the
    code is `ErrURITooShort`, `ErrURIHost`, `ErrURIPort` or `ErrURIHeaders`, and the whole input has one of the
    shapes of `UeEndShape`.  These are the only rejections whose position is not that of an offending byte (the
    scheme error aside); in particular `ErrURIPort` at the end covers `token:text` without '@' where `text` holds a
    non-digit somewhere (`sip:h:12x`), and `ErrURIHeaders` is reported at the end although the offending `;` lies
    inside. -/
theorem parseURI_reject_end (b : Buf) (hfit : b.size ≤ 65535) (hrej : (parseURI b {}).1 ≠ .none)
    (hp : (parseURI b {}).2.1 = b.size) :
    ((parseURI b {}).1 = .tooShort ∧ b.size < 5) ∨ ∃ t k, UcScheme b t k ∧ UeEndShape b k (parseURI b {}).1 := by
  rcases parseURI_total b hfit with ⟨h, _⟩ | ⟨h, _, h5⟩ | ⟨_, h2, h5, _⟩ | ⟨t, k, hsch, _, ⟨_, h⟩ | ⟨c, _, hc, _⟩⟩
  · exact absurd h hrej
  · exact Or.inl ⟨h, h5⟩
  · omega
  · exact Or.inr ⟨t, k, hsch, h⟩
  · have := get?_lt hc
    omega

/-! ### (1) the rejection shapes, for `parseURI` -/

/-- **EXPORT C14 — `:` or `]` right behind the scheme** (where neither a port nor a password can start):
    `ErrURIBadChar` at that byte -/
theorem parseURI_err_first_char (b : Buf) {t k : Nat} {c : UInt8} (hsch : UcScheme b t k) (hc : b[k]? = some c)
    (hcc : c = 58 ∨ c = 93) : UcErrAt (parseURI b {}) .badChar k := by
  obtain ⟨σ, hi, hr⟩ := uc_parse_run hsch (get?_lt hc)
  rw [hr]
  exact ue_err_first hi hc hcc

/-- **EXPORT C14 — `[` or `]` inside the first token** behind the scheme (a user, or a host name without
    user-info): `ErrURIBadChar` at that byte -/
theorem parseURI_err_user_bracket (b : Buf) {t k p : Nat} {c : UInt8} (hsch : UcScheme b t k)
    (hh : UcFirstTok b k p) (hc : b[p]? = some c) (hcc : c = 91 ∨ c = 93) : UcErrAt (parseURI b {}) .badChar p := by
  obtain ⟨σ, hi, hr⟩ := uc_parse_run hsch (by have := get?_lt hc; have := hh.1; omega)
  rw [hr]
  exact ue_err_user_br hi hh hc hcc

/-- **EXPORT C14 — `[`, `]` or a second `:` in a password** (`token:` and bytes without `@ : ; ? [ ]` up to `p`):
    `ErrURIBadChar` at that byte -/
theorem parseURI_err_pass_char (b : Buf) {t k ue p : Nat} {c : UInt8} (hsch : UcScheme b t k)
    (hh : UcFirstTok b k ue) (h58 : b[ue]? = some 58) (hp : ue + 1 ≤ p) (hall : UcAll b (ue + 1) p ucTok)
    (hc : b[p]? = some c) (hcc : c = 91 ∨ c = 93 ∨ c = 58) : UcErrAt (parseURI b {}) .badChar p := by
  obtain ⟨σ, hi, hr⟩ := uc_parse_run hsch (by have := get?_lt h58; have := hh.1; omega)
  rw [hr]
  exact (ue_err_pass hi hh h58 hp hall).1 c hc hcc

/-- **EXPORT C14 — a password that is not followed by '@'**: `token:text` where `text` (no `@ : ; ? [ ]`) holds a
    non-digit, then `;` or `?`: `ErrURIBadChar` at the `;` / `?` -/
theorem parseURI_err_pass_no_at (b : Buf) {t k ue p : Nat} {c : UInt8} (hsch : UcScheme b t k)
    (hh : UcFirstTok b k ue) (h58 : b[ue]? = some 58) (hp : ue + 1 ≤ p) (hall : UcAll b (ue + 1) p ucTok)
    (hnd : UeNonDigit b (ue + 1) p) (hc : b[p]? = some c) (hcc : c = 59 ∨ c = 63) :
    UcErrAt (parseURI b {}) .badChar p := by
  obtain ⟨σ, hi, hr⟩ := uc_parse_run hsch (by have := get?_lt h58; have := hh.1; omega)
  rw [hr]
  exact (ue_err_pass hi hh h58 hp hall).2.1 c hc hcc hnd

/-- **EXPORT C14 — a password that is not followed by anything**: `token:text` up to the end of the input where
    `text` (no `@ : ; ? [ ]`) holds a non-digit: `ErrURIPort`, reported at the END of the input and not at the
    non-digit (`sip:h:12x` → 9) -/
theorem parseURI_err_pass_end (b : Buf) {t k ue : Nat} (hsch : UcScheme b t k)
    (hh : UcFirstTok b k ue) (h58 : b[ue]? = some 58) (hall : UcAll b (ue + 1) b.size ucTok)
    (hnd : UeNonDigit b (ue + 1) b.size) : UcErrAt (parseURI b {}) .port b.size := by
  have := get?_lt h58
  obtain ⟨σ, hi, hr⟩ := uc_parse_run hsch (by have := hh.1; omega)
  rw [hr]
  exact (ue_err_pass hi hh h58 (by omega) hall).2.2 rfl hnd

/-- **EXPORT C14 — a second '@' (or an `&`) in the host name** behind the '@' of a user-info: `ErrURIBadChar` at
    that byte -/
theorem parseURI_err_host_at (b : Buf) (hfit : b.size ≤ 65535) {t k hs p : Nat} {c : UInt8} (hsch : UcScheme b t k)
    (hat : UcHostAt b k hs) (hk : k < hs) (hh : UcNameHost b hs p) (hc : b[p]? = some c) (hcc : c = 64 ∨ c = 38) :
    UcErrAt (parseURI b {}) .badChar p := by
  obtain ⟨σ, hs', hr⟩ := uc_parse_host_at hsch hfit (hat.lt (Or.inl hk)) hat
  rw [hr]
  exact ue_err_host1 hs' hk hh hc hcc

/-- **EXPORT C14 — a second '@' behind `user-info@host[:port]`, or a `;` in its headers**: with the text between
    the host (and port ≤ 65535) and `p` being `;` parameters (no `?`, no `@`) and / or `?` headers (no `;`, no `@`),
    an '@' at `p`, or a `;` at `p` when `p` lies in the headers, is `ErrURIBadChar` at `p` -/
theorem parseURI_err_second_at (b : Buf) (hfit : b.size ≤ 65535) {t k a he e p : Nat} {hd : Bool} {c : UInt8}
    {us pw : PField} (hsch : UcScheme b t k) (hat : b[a]? = some 64)
    (hu : UcUserPlain b k a us pw ∨ UcUserBack b k a us pw)
    (hh : UcNameHost b (a + 1) he ∨ UcBrHost b (a + 1) he) (hpo : UePortTo b he e) (hph : UePHTo b e p hd)
    (hc : b[p]? = some c) (hcc : c = 64 ∨ (c = 59 ∧ hd = true)) : UcErrAt (parseURI b {}) .badChar p := by
  have hka : k < a := by
    rcases hu with hu | hu
    · exact hu.lt
    · exact hu.lt
  obtain ⟨σ, hi, hr⟩ := uc_parse_run hsch (by have := get?_lt hat; omega)
  rw [hr]
  exact ue_err_found_uinfo hi hfit hat hu hh hpo hph hc hcc

/-- **EXPORT C14 — an '@' behind `token:digits;` / `token:digits?`** (value ≤ 65535): the `;` / `?` has committed the
    token as host and the digits as port, so an '@' further on (or a `;` in the headers) is `ErrURIBadChar` at that
    byte (`sip:u:1;x@h` → 9) -/
theorem parseURI_err_committed_at (b : Buf) {t k ue e p : Nat} {hd : Bool} {c : UInt8} (hsch : UcScheme b t k)
    (hh : UcFirstTok b k ue) (h58 : b[ue]? = some 58) (hle : ue + 1 ≤ e) (hall : UcAll b (ue + 1) e isDigit)
    (hval : decOf (digitsOf b (ue + 1) e) ≤ 65535) (hph : UePHTo b e p hd) (hc : b[p]? = some c)
    (hcc : c = 64 ∨ (c = 59 ∧ hd = true)) : UcErrAt (parseURI b {}) .badChar p := by
  obtain ⟨σ, hi, hr⟩ := uc_parse_run hsch (by have := get?_lt h58; have := hh.1; omega)
  rw [hr]
  exact ue_err_found_pass0 hi hh h58 hle hall hval hph hc hcc

/-- **EXPORT C14 — `;` inside the headers of a URI without user-info** (host = first token or `[…]`, no port, optional
    `;` parameters without `:`, then `?` at `q`): when neither '@' nor `:` follows, a `;` anywhere in the headers
    gives `ErrURIHeaders`, reported at the END of the input (`sip:h?a;b` → 9) -/
theorem parseURI_err_headers_semi (b : Buf) {t k he q : Nat} (hsch : UcScheme b t k)
    (hh : UcFirstTok b k he ∨ UcBrHost b k he)
    (hq : (q = he ∧ b[he]? = some 63) ∨ (b[he]? = some 59 ∧ he + 1 ≤ q ∧ UcAll b (he + 1) q ucNc ∧ b[q]? = some 63))
    (hall : UcAll b (q + 1) b.size ucW1) (hsemi : ∃ j, q + 1 ≤ j ∧ j < b.size ∧ b[j]? = some 59) :
    UcErrAt (parseURI b {}) .headers b.size := by
  obtain ⟨j, _, hj, _⟩ := hsemi
  obtain ⟨σ, hi, hr⟩ := uc_parse_run hsch (by
    rcases hh with h | h
    · have := h.1; rcases hq with ⟨_, h'⟩ | ⟨h', _⟩ <;> (have := get?_lt h'; omega)
    · have := h.2.1; rcases hq with ⟨_, h'⟩ | ⟨h', _⟩ <;> (have := get?_lt h'; omega))
  rw [hr]
  exact ue_err_hdr_semi hi hh hq hall ⟨j, by assumption, hj, by assumption⟩

/-- **EXPORT C14 — the end shapes are exact** (all but the `ErrURIHeaders` one, which only records a necessary
    condition): an input of such a shape is rejected with that code at its end -/
theorem parseURI_end_shape_rejects (b : Buf) (hfit : b.size ≤ 65535) {t k : Nat} {e : UErr} (hsch : UcScheme b t k)
    (h5 : 5 ≤ b.size) (h : UeEndShape b k e) (hne : e ≠ .headers) : UcErrAt (parseURI b {}) e b.size := by
  rcases h with ⟨hk, rfl⟩ | ⟨ue, hft, h58, hall, rfl, hnd | ⟨hdig, hbig⟩⟩ | ⟨hs, hat, rfl, ⟨rfl, hk⟩ | ⟨h91, hall⟩⟩ |
    ⟨hs, he, hat, hh, h58, hall, hbig, rfl⟩ | ⟨rfl, _⟩
  · obtain ⟨σ, hi, hr, _, _⟩ := ue_parse_run hsch h5
    rw [hr, ← hk, ucRun_end' rfl]
    rcases hi.1 with hst | hst | hst <;> simp only [uriFinish, hst] <;> exact ⟨rfl, rfl⟩
  · exact parseURI_err_pass_end b hsch hft h58 hall hnd
  · have := get?_lt h58
    exact parseURI_err_port_big b hfit hsch (Or.inl rfl) (Or.inr (Or.inr ⟨rfl, hft⟩)) h58 (by omega) hdig hbig
      (Or.inl rfl)
  · exact parseURI_err_empty_host b hfit hsch hat hk (Or.inl rfl)
  · have := get?_lt h91
    exact parseURI_err_bracket_open b hfit hsch hat h91 (by omega) hall (Or.inl rfl)
  · have := get?_lt h58
    refine parseURI_err_port_big b hfit hsch hat ?_ h58 (by omega) hall hbig (Or.inl rfl)
    rcases hh with hh | hh
    · exact Or.inl hh
    · exact Or.inr (Or.inl hh)
  · exact absurd rfl hne

/-! ### (3) the letter case of the scheme does not matter -/

theorem ue_loop_congr {b b' : Buf} (i : Nat) (σ : UState) (h : ∀ j, i ≤ j → b[j]? = b'[j]?) :
    uriLoop b i σ = uriLoop b' i σ := by
  fun_induction uriLoop b i σ with
  | case1 i σ hb =>
    rw [uc_loop_end (b := b') (by rw [← h i (Nat.le_refl _)]; exact hb)]
  | case2 i σ c hb σ' hstep ih =>
    rw [uc_loop_next (b := b') (by rw [← h i (Nat.le_refl _)]; exact hb) hstep]
    exact ih (fun j hj => h j (by omega))
  | case3 i σ c hb e p σ' hstep =>
    rw [uc_loop_fail (b := b') (by rw [← h i (Nat.le_refl _)]; exact hb) hstep]

theorem ue_run_congr {b b' : Buf} (i : Nat) (σ : UState) (h : ∀ j, i ≤ j → b[j]? = b'[j]?) :
    ucRun b i σ = ucRun b' i σ := by
  unfold ucRun
  rw [ue_loop_congr i σ h]

/-- `b'` is `b` up to the letter case of the scheme: same length, each of the first four bytes agrees after OR-ing
    0x20 into it (which is what the scheme test does: `S` ~ `s`, …), every other byte is the same -/
def UeSameScheme (b b' : Buf) : Prop :=
  b.size = b'.size ∧ (∀ i c c', i < 4 → b[i]? = some c → b'[i]? = some c' → ucLow c = ucLow c') ∧
  (∀ i, 4 ≤ i → b[i]? = b'[i]?)

/-- **EXPORT C14 — the letter case of the scheme does not matter**: two inputs that differ only in the case of the
    scheme letters (`sip:` / `SIP:` / `sIpS:` …) get the same verdict — the same error code, the same position, the
    same components, for every input, accepted or rejected -/
theorem parseURI_case_stable (b b' : Buf) (h : UeSameScheme b b') : parseURI b {} = parseURI b' {} := by
  obtain ⟨hsz, hlow, hrest⟩ := h
  by_cases h5 : b.size < 5
  · rw [parseURI_err_short b h5, parseURI_err_short b' (by omega), hsz]
  obtain ⟨b0, h0⟩ : ∃ c, b[0]? = some c := ⟨b[0]'(by omega), Array.getElem?_eq_getElem (by omega)⟩
  obtain ⟨b1, h1⟩ : ∃ c, b[1]? = some c := ⟨b[1]'(by omega), Array.getElem?_eq_getElem (by omega)⟩
  obtain ⟨b2, h2⟩ : ∃ c, b[2]? = some c := ⟨b[2]'(by omega), Array.getElem?_eq_getElem (by omega)⟩
  obtain ⟨b3, h3⟩ : ∃ c, b[3]? = some c := ⟨b[3]'(by omega), Array.getElem?_eq_getElem (by omega)⟩
  obtain ⟨b4, h4⟩ : ∃ c, b[4]? = some c := ⟨b[4]'(by omega), Array.getElem?_eq_getElem (by omega)⟩
  obtain ⟨c0, g0⟩ : ∃ c, b'[0]? = some c := ⟨b'[0]'(by omega), Array.getElem?_eq_getElem (by omega)⟩
  obtain ⟨c1, g1⟩ : ∃ c, b'[1]? = some c := ⟨b'[1]'(by omega), Array.getElem?_eq_getElem (by omega)⟩
  obtain ⟨c2, g2⟩ : ∃ c, b'[2]? = some c := ⟨b'[2]'(by omega), Array.getElem?_eq_getElem (by omega)⟩
  obtain ⟨c3, g3⟩ : ∃ c, b'[3]? = some c := ⟨b'[3]'(by omega), Array.getElem?_eq_getElem (by omega)⟩
  have g4 : b'[4]? = some b4 := by rw [← hrest 4 (Nat.le_refl _)]; exact h4
  have hw : ucWord b0 b1 b2 b3 = ucWord c0 c1 c2 c3 := by
    unfold ucWord
    rw [hlow 0 b0 c0 (by omega) h0 g0, hlow 1 b1 c1 (by omega) h1 g1, hlow 2 b2 c2 (by omega) h2 g2,
      hlow 3 b3 c3 (by omega) h3 g3]
  rw [uc_parse_unfold h0 h1 h2 h3 h4, uc_parse_unfold g0 g1 g2 g3 g4, hw,
    ue_run_congr 4 (ucStart SIPuri .initSIP 4) (fun j hj => hrest j hj),
    ue_run_congr 4 (ucStart TELuri .initTEL 4) (fun j hj => hrest j hj),
    ue_run_congr 5 (ucStart SIPSuri .initSIPS 5) (fun j hj => hrest j (by omega))]

/-! ### tests / non-vacuity (closed computations, `decide +kernel`; every theorem above is applied to a concrete
    input, so its hypotheses are satisfiable) -/

/-- checker for `UeSameScheme` (tests only) -/
def ueSameB (b b' : Buf) : Bool :=
  b.size == b'.size &&
  (List.range 4).all (fun i => match b[i]?, b'[i]? with
    | some c, some c' => ucLow c == ucLow c'
    | _, _ => true) &&
  (List.range b.size).all (fun i => i < 4 || b[i]? == b'[i]?)

theorem ueSame_of_check {b b' : Buf} (h : ueSameB b b' = true) : UeSameScheme b b' := by
  simp only [ueSameB, Bool.and_eq_true, beq_iff_eq, List.all_eq_true, List.mem_range, Bool.or_eq_true,
    decide_eq_true_eq] at h
  obtain ⟨⟨hsz, h4⟩, hr⟩ := h
  refine ⟨hsz, fun i c c' hi hc hc' => ?_, fun i hi => ?_⟩
  · have := h4 i hi
    rw [hc, hc'] at this
    simpa using this
  · by_cases hlt : i < b.size
    · rcases hr i hlt with h | h
      · omega
      · exact h
    · rw [Array.getElem?_eq_none (by omega), Array.getElem?_eq_none (by omega)]

theorem ue_test_sip (b : Buf) (h0 : b[0]? = some 115) (h1 : b[1]? = some 105) (h2 : b[2]? = some 112)
    (h3 : b[3]? = some 58) : UcScheme b SIPuri 4 :=
  Or.inl ⟨rfl, rfl, 115, 105, 112, 58, h0, h1, h2, h3, by decide, by decide, by decide, by decide⟩

-- pins: code and position of the rejections this file is about
example : (["sip::h", "sip:]h", "sip:u[x@h", "sip:u]x", "sip:u:p[w@h", "sip:u:12:3@h", "sip:u:pw;x", "sip:u:pw?x",
    "sip:u@h@x", "sip:u@h&x", "sip:u@h;p@x", "sip:u@h:5060;p?a@x", "sip:u@h?a;b", "sip:u:1;x@h", "sip:u:1?x;y",
    "sip:h?a:b;c", "sip:h;a:b:c@d", "sip:h;a:b;c@d"].map
      (fun s => ((parseURI s.toUTF8.data {}).1, (parseURI s.toUTF8.data {}).2.1))) =
    [(.badChar, 4), (.badChar, 4), (.badChar, 5), (.badChar, 5), (.badChar, 7), (.badChar, 8), (.badChar, 8),
     (.badChar, 8), (.badChar, 7), (.badChar, 7), (.badChar, 9), (.badChar, 16), (.badChar, 9), (.badChar, 9),
     (.badChar, 9), (.badChar, 9), (.badChar, 11), (.badChar, 11)] := by decide +kernel
-- the rejections reported at the END of the input although the offending byte lies inside (the "innocent
-- position" cases): a password without '@' (`ErrURIPort`), a `;` in the headers (`ErrURIHeaders`)
example : (["sip:h:12x", "sip:u:pw", "sip:h?a;b", "sip:h;p?a;b", "sip:[::1]?a;b;c", "sips:"].map
      (fun s => ((parseURI s.toUTF8.data {}).1, (parseURI s.toUTF8.data {}).2.1, s.toUTF8.data.size))) =
    [(.port, 9, 9), (.port, 8, 8), (.headers, 9, 9), (.headers, 11, 11), (.headers, 15, 15), (.tooShort, 5, 5)] := by
  decide +kernel
-- … while the same `;` is harmless when an '@' follows (it then belongs to the user), and a bad port behind
-- `user@host` IS reported at the offending byte
example : (parseURI "sip:h?a;b@c".toUTF8.data {}).1 = .none ∧ (parseURI "sip:u@h:12x".toUTF8.data {}).2.1 = 10 := by
  decide +kernel
-- the scheme error is always reported at position 4
example : (parseURI "http://x".toUTF8.data {}).2.1 = 4 ∧ (parseURI "sipsx:h".toUTF8.data {}).2.1 = 4 := by
  decide +kernel

example : UcErrAt (parseURI "sip::h".toUTF8.data {}) .badChar 4 :=
  parseURI_err_first_char _ (ue_test_sip _ (by decide +kernel) (by decide +kernel) (by decide +kernel)
    (by decide +kernel)) (c := 58) (by decide +kernel) (Or.inl rfl)
example : UcErrAt (parseURI "sip:u[x@h".toUTF8.data {}) .badChar 5 :=
  parseURI_err_user_bracket _ (ue_test_sip _ (by decide +kernel) (by decide +kernel) (by decide +kernel)
    (by decide +kernel)) ⟨by decide, ucAll_of_check (by decide +kernel), ucAll_of_check (by decide +kernel)⟩
    (c := 91) (by decide +kernel) (Or.inl rfl)
example : UcErrAt (parseURI "sip:u:12:3@h".toUTF8.data {}) .badChar 8 :=
  parseURI_err_pass_char _ (ue_test_sip _ (by decide +kernel) (by decide +kernel) (by decide +kernel)
    (by decide +kernel)) (ue := 5)
    ⟨by decide, ucAll_of_check (by decide +kernel), ucAll_of_check (by decide +kernel)⟩ (by decide +kernel)
    (by decide) (ucAll_of_check (by decide +kernel)) (c := 58) (by decide +kernel) (Or.inr (Or.inr rfl))
example : UcErrAt (parseURI "sip:u:pw;x".toUTF8.data {}) .badChar 8 :=
  parseURI_err_pass_no_at _ (ue_test_sip _ (by decide +kernel) (by decide +kernel) (by decide +kernel)
    (by decide +kernel)) (ue := 5)
    ⟨by decide, ucAll_of_check (by decide +kernel), ucAll_of_check (by decide +kernel)⟩ (by decide +kernel)
    (by decide) (ucAll_of_check (by decide +kernel)) ⟨6, 112, by decide, by decide, by decide +kernel, by decide⟩
    (c := 59) (by decide +kernel) (Or.inl rfl)
example : UcErrAt (parseURI "sip:h:12x".toUTF8.data {}) .port "sip:h:12x".toUTF8.data.size :=
  parseURI_err_pass_end _ (ue_test_sip _ (by decide +kernel) (by decide +kernel) (by decide +kernel)
    (by decide +kernel)) (ue := 5)
    ⟨by decide, ucAll_of_check (by decide +kernel), ucAll_of_check (by decide +kernel)⟩ (by decide +kernel)
    (ucAll_of_check (by decide +kernel)) ⟨8, 120, by decide, by decide +kernel, by decide +kernel, by decide⟩
example : UcErrAt (parseURI "sip:u@h@x".toUTF8.data {}) .badChar 7 :=
  parseURI_err_host_at _ (by decide +kernel) (ue_test_sip _ (by decide +kernel) (by decide +kernel)
    (by decide +kernel) (by decide +kernel)) (hs := 6)
    (Or.inr ⟨5, ⟨4, 1⟩, ⟨0, 0⟩, rfl, by decide +kernel,
      Or.inl ⟨5, ⟨by decide, ucAll_of_check (by decide +kernel), ucAll_of_check (by decide +kernel)⟩, rfl,
        Or.inl ⟨rfl, rfl⟩⟩⟩)
    (by decide) ⟨by decide, ucAll_of_check (by decide +kernel), ucAll_of_check (by decide +kernel)⟩
    (c := 64) (by decide +kernel) (Or.inl rfl)
example : UcErrAt (parseURI "sip:u@h;p@x".toUTF8.data {}) .badChar 9 :=
  parseURI_err_second_at _ (by decide +kernel) (ue_test_sip _ (by decide +kernel) (by decide +kernel)
    (by decide +kernel) (by decide +kernel)) (a := 5) (he := 7) (e := 7) (hd := false) (us := ⟨4, 1⟩) (pw := ⟨0, 0⟩)
    (by decide +kernel)
    (Or.inl ⟨5, ⟨by decide, ucAll_of_check (by decide +kernel), ucAll_of_check (by decide +kernel)⟩, rfl,
      Or.inl ⟨rfl, rfl⟩⟩)
    (Or.inl ⟨by decide, ucAll_of_check (by decide +kernel), ucAll_of_check (by decide +kernel)⟩)
    (Or.inl rfl) (Or.inl ⟨rfl, by decide +kernel, by decide, ucAll_of_check (by decide +kernel)⟩)
    (c := 64) (by decide +kernel) (Or.inl rfl)
example : UcErrAt (parseURI "sip:u@h?a;b".toUTF8.data {}) .badChar 9 :=
  parseURI_err_second_at _ (by decide +kernel) (ue_test_sip _ (by decide +kernel) (by decide +kernel)
    (by decide +kernel) (by decide +kernel)) (a := 5) (he := 7) (e := 7) (hd := true) (us := ⟨4, 1⟩) (pw := ⟨0, 0⟩)
    (by decide +kernel)
    (Or.inl ⟨5, ⟨by decide, ucAll_of_check (by decide +kernel), ucAll_of_check (by decide +kernel)⟩, rfl,
      Or.inl ⟨rfl, rfl⟩⟩)
    (Or.inl ⟨by decide, ucAll_of_check (by decide +kernel), ucAll_of_check (by decide +kernel)⟩)
    (Or.inl rfl) (Or.inr (Or.inl ⟨rfl, by decide +kernel, by decide, ucAll_of_check (by decide +kernel)⟩))
    (c := 59) (by decide +kernel) (Or.inr ⟨rfl, rfl⟩)
example : UcErrAt (parseURI "sip:u:1;x@h".toUTF8.data {}) .badChar 9 :=
  parseURI_err_committed_at _ (ue_test_sip _ (by decide +kernel) (by decide +kernel) (by decide +kernel)
    (by decide +kernel)) (ue := 5) (e := 7) (hd := false)
    ⟨by decide, ucAll_of_check (by decide +kernel), ucAll_of_check (by decide +kernel)⟩ (by decide +kernel)
    (by decide) (ucAll_of_check (by decide +kernel)) (by decide +kernel)
    (Or.inl ⟨rfl, by decide +kernel, by decide, ucAll_of_check (by decide +kernel)⟩)
    (c := 64) (by decide +kernel) (Or.inl rfl)
example : UcErrAt (parseURI "sip:h?a;b".toUTF8.data {}) .headers "sip:h?a;b".toUTF8.data.size :=
  parseURI_err_headers_semi _ (ue_test_sip _ (by decide +kernel) (by decide +kernel) (by decide +kernel)
    (by decide +kernel)) (he := 5) (q := 5)
    (Or.inl ⟨by decide, ucAll_of_check (by decide +kernel), ucAll_of_check (by decide +kernel)⟩)
    (Or.inl ⟨rfl, by decide +kernel⟩) (ucAll_of_check (by decide +kernel))
    ⟨7, by decide, by decide +kernel, by decide +kernel⟩
-- (3): `SIP:` / `sIp:` instead of `sip:`, and `sIpS:` instead of `sips:`: same verdict
example : parseURI "SIP:h:12x".toUTF8.data {} = parseURI "sip:h:12x".toUTF8.data {} :=
  parseURI_case_stable _ _ (ueSame_of_check (by decide +kernel))
example : parseURI "sIpS:u@h@x".toUTF8.data {} = parseURI "sips:u@h@x".toUTF8.data {} :=
  parseURI_case_stable _ _ (ueSame_of_check (by decide +kernel))
-- (2): the hypotheses of the totality corollaries are met
example := parseURI_reject_inside "sip:u@h@x".toUTF8.data (by decide +kernel) (by decide +kernel) (by decide +kernel)
example := parseURI_reject_end "sip:h:12x".toUTF8.data (by decide +kernel) (by decide +kernel) (by decide +kernel)

end Sipsp
