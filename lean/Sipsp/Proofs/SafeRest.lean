/-
  Sipsp.Proofs.SafeRest — property C04 (no panic, offsets inside the buffer, dereferenceable fields) for the
  stand-alone functions the message parser does not call.  All theorems are for ALL inputs they quantify over;
  `hfit : b.size ≤ 65535` is the documented size limit (needed wherever a field is read back with `Get`).

  Final theorems (to be re-exported in Properties/C04.lean):
  (1) ParseTokenParam — EVERY flag combination (`POptInputEndF`, `POptTokSpTermF` included), every offset inside
      the buffer, every legitimate object (`SrTpIn o p`: the three fields end at or before the offset, no panic
      recorded; `SrTpIn.new`: new objects at every offset):
      * `parseTokenParam_safe` : result satisfies `SrTpT`: offset in `[o, len]`, `pnc = false`, fields all / name /
        val inside the buffer, and ending at or before the returned offset unless the call ended on the
        `POptTokSpTermF` exit; in particular the object is again legitimate after MoreBytes / MoreValues;
      * `parseTokenParam_never_panics` : the same spelled out, with `Get` on the three fields returning a slice.
  (2) ParseAllURIParams / ParseAllURIHdrs — every flag combination, lists of any capacity:
      * `parseAllURIParams_safe` (`uriParamsLoop_safe`), `parseAllURIHdrs_safe` (`uriHdrsLoop_safe`): offset in
        `[offs, len]`, list `pnc = false`, every slot's token parameter has `pnc = false` and fields inside the
        buffer (`SrPlIn b.size` / `SrHlIn b.size`), after every verdict except OK (so after MoreBytes) the list is
        legitimate at the returned offset;
      * legitimacy `SrPlIn o l` / `SrHlIn o l`: `srPlIn_new`, `srHlIn_new` (new lists, any capacity, any offset),
        `SrPlIn.reset`, `SrHlIn.reset`, `srPlIn_reset_clean`, `srHlIn_reset_clean` (Reset).
  (3) comparison functions never return `none` (= never panic):
      * `uriParamsEq_some`, `uriHdrsEq_some` : any two buffers within the limit, any offsets inside them;
      * `uriParamsLstEq_some`, `uriHdrsLstEq_some` : lists whose slots lie inside their buffers;
      * `uriCmpShort_some`, `uriCmp_some` : URI objects whose seven fields are readable (`SrUriGet`), any flags;
        `srUriGet_parse` : every URI accepted by ParseURI (sip, sips, tel) is such an object;
      * `uriParseCmp_some` : URIParseCmp on any two raw byte strings within the limit.
  (4) signatures:
      * `ip6PrefixAt_safe`, `containsIP6_safe`, `getCallIDSig_safe` : the IPv6 scanner never indexes outside its
        8-word arrays (invariant `SrIp6Inv`: word index tied to the colon count), GetCallIDSig never panics;
      * `getViaBrSig_safe` : GetViaBrSig never panics (values within the limit);
      * `getMsgSig_safe` : GetMsgSig's panic flag is false when Call-ID, From tag and the value of every header
        slot of type Via lie inside `msg.Buf`; `getMsgSig_after_parse` : these hold after a successful ParseSIPMsg
        call, given that the unfilled header slots hold no Via header.
      (`getStrCharsSig`, `getHdrSigId`, `ip4Prefix` are total functions without a panic site: nothing to prove.)

  NOT proved here: that ParseSIPMsg leaves the header slots it did not fill zero (hypothesis `hun` of
  `getMsgSig_after_parse`; GetMsgSig ranges over the whole array); panic-freedom of URICmp for hand-made URI objects
  (only `SrUriGet` objects); AdjustOffs / Flat / Long / Short (relocation, views); the lookups are total functions.
-/
import Sipsp.Proofs.SafeVals
import Sipsp.Proofs.UriListsL
import Sipsp.Proofs.UriSpec
import Sipsp.Proofs.SigSpec
import Sipsp.Proofs.SafeMsg
import Sipsp.Proofs.IP4
import Sipsp.Proofs.Layout

namespace Sipsp

/-! ### skipLWS with any flags: the end-of-header exit stays inside the buffer -/

theorem srSkipLWS_eoh_le (b : Buf) (i flags : Nat) {n crl : Nat} (h : skipLWS b i flags = (n, crl, .eoh)) :
    i ≤ n ∧ n + crl ≤ b.size := by
  fun_induction skipLWS b i flags with
  | case1 i hb => cases h
  | case2 i c hb hws ih => have := ih h; omega
  | case3 i c hb hws hcr n' crl' hs hb2 hfl =>
    cases h
    have h1 := (skipCRLF_range hs).2.2.1 rfl
    have h2 := skipCRLF_ok_gt hs
    omega
  | case4 i c hb hws hcr n' crl' hs hb2 hfl => cases h
  | case5 i c hb hws hcr n' crl' hs c2 hb2 hws2 ih =>
    have := ih h; have := skipCRLF_ok_gt hs; omega
  | case6 i c hb hws hcr n' crl' hs c2 hb2 hws2 =>
    cases h
    have h1 := (skipCRLF_range hs).2.2.1 rfl
    omega
  | case7 i c hb hws hcr n' crl' e' hne hs =>
    cases h
    have := skipCRLF_verdicts hs
    simp at this
  | case8 i c hb hws hcr => cases h

/-! ### ParseTokenParam -/

/-- the three reported fields of a token-parameter object end at or before `o`; no panic recorded -/
structure SrTpIn (o : Nat) (p : PTokParam) : Prop where
  all : p.all.inside o
  name : p.name.inside o
  val : p.val.inside o
  pnc : p.pnc = false

theorem SrTpIn.mono {o o' : Nat} {p : PTokParam} (h : SrTpIn o p) (hle : o ≤ o') : SrTpIn o' p :=
  ⟨PField.inside_mono h.all hle, PField.inside_mono h.name hle, PField.inside_mono h.val hle, h.pnc⟩

theorem SrTpIn.new (o : Nat) : SrTpIn o {} :=
  ⟨PField.inside_zero o, PField.inside_zero o, PField.inside_zero o, rfl⟩

theorem SrTpIn.st {o : Nat} {p : PTokParam} (h : SrTpIn o p) (x : TPState) : SrTpIn o { p with state := x } :=
  ⟨h.all, h.name, h.val, h.pnc⟩

theorem SrTpIn.en {i e : Nat} {p : PTokParam} (h : SrTpIn i p) (hle : i ≤ e) : SrTpIn e (p.extName e) := by
  have hn : p.name.offs ≤ e := by have := h.name; unfold PField.inside at this; omega
  exact ⟨PField.inside_mono h.all hle, extend_inside _ _ _ hn (Nat.le_refl _), PField.inside_mono h.val hle,
    by show (p.pnc || p.name.extendPanics e) = false; rw [h.pnc, extendPanics_false _ _ hn]; rfl⟩

theorem SrTpIn.ea {i e : Nat} {p : PTokParam} (h : SrTpIn i p) (hle : i ≤ e) : SrTpIn e (p.extAll e) := by
  have hn : p.all.offs ≤ e := by have := h.all; unfold PField.inside at this; omega
  exact ⟨extend_inside _ _ _ hn (Nat.le_refl _), PField.inside_mono h.name hle, PField.inside_mono h.val hle,
    by show (p.pnc || p.all.extendPanics e) = false; rw [h.pnc, extendPanics_false _ _ hn]; rfl⟩

theorem SrTpIn.ev {i e : Nat} {p : PTokParam} (h : SrTpIn i p) (hle : i ≤ e) : SrTpIn e (p.extVal e) := by
  have hn : p.val.offs ≤ e := by have := h.val; unfold PField.inside at this; omega
  exact ⟨PField.inside_mono h.all hle, PField.inside_mono h.name hle, extend_inside _ _ _ hn (Nat.le_refl _),
    by show (p.pnc || p.val.extendPanics e) = false; rw [h.pnc, extendPanics_false _ _ hn]; rfl⟩

theorem SrTpIn.sv {i : Nat} {p : PTokParam} (h : SrTpIn i p) : SrTpIn i { p with val := PField.set i i } :=
  ⟨h.all, h.name, set_inside _ _ _ (Nat.le_refl _) (Nat.le_refl _), h.pnc⟩

theorem SrTpIn.sna {i : Nat} {p : PTokParam} (h : SrTpIn i p) (x : TPState) :
    SrTpIn i { p with state := x, name := PField.set i i, all := PField.set i i } :=
  ⟨set_inside _ _ _ (Nat.le_refl _) (Nat.le_refl _), set_inside _ _ _ (Nat.le_refl _) (Nat.le_refl _), h.val, h.pnc⟩

/-- loop invariant of ParseTokenParam (call started at `o0`): the position lies in `[o0, len]`, the reported
    fields end at or before it, no panic so far.  This is also the legitimacy condition for the object passed in:
    new objects satisfy it at every offset, and it holds again at the offset returned with MoreBytes / MoreValues. -/
structure SrTpSafe (b : Buf) (o0 i : Nat) (p : PTokParam) : Prop where
  lo : o0 ≤ i
  hi : i ≤ b.size
  fl : SrTpIn i p

/-- what ParseTokenParam guarantees on return, whatever the verdict: the offset lies in `[o0, len]`, no panic, the
    reported fields lie inside the buffer; unless the call ended on the `POptTokSpTermF` exit (verdict OK, the
    offset may then point at the white space before the next token) the fields even end at or before the offset. -/
structure SrTpT (b : Buf) (flags o0 o : Nat) (e : Err) (p : PTokParam) : Prop where
  lo : o0 ≤ o
  hi : o ≤ b.size
  out : SrTpIn b.size p
  tight : e ≠ .ok ∨ hasFlag flags POptTokSpTermF = false → SrTpIn o p

theorem SrTpT.of_in {b : Buf} {flags o0 o : Nat} {e : Err} {p : PTokParam} (h1 : o0 ≤ o) (h2 : o ≤ b.size)
    (h : SrTpIn o p) : SrTpT b flags o0 o e p := ⟨h1, h2, h.mono h2, fun _ => h⟩

theorem SrTpT.of_safe {b : Buf} {flags o0 o : Nat} {e : Err} {p : PTokParam} (h : SrTpSafe b o0 o p) :
    SrTpT b flags o0 o e p := SrTpT.of_in h.lo h.hi h.fl

theorem srTpEOH_T (b : Buf) (flags o0 : Nat) (p : PTokParam) (n crl : Nat) (h1 : o0 ≤ n + crl)
    (h2 : n + crl ≤ b.size) (h : SrTpIn (n + crl) p) :
    SrTpT b flags o0 (tpEOH p n crl).1 (tpEOH p n crl).2.1 (tpEOH p n crl).2.2 := by
  unfold tpEOH
  split <;> first | exact SrTpT.of_in h1 h2 h | exact SrTpT.of_in h1 h2 (h.st _)

theorem srTpMoreBytes_T (b : Buf) (flags o0 i : Nat) (p : PTokParam) (h : SrTpSafe b o0 i p) :
    SrTpT b flags o0 (tpMoreBytes b flags p i).1 (tpMoreBytes b flags p i).2.1 (tpMoreBytes b flags p i).2.2 := by
  have hlo := h.lo
  have hhi := h.hi
  unfold tpMoreBytes
  split
  · split
    all_goals first
      | exact srTpEOH_T b flags o0 p b.size 0 (by omega) (by omega) (h.fl.mono (by omega))
      | exact srTpEOH_T b flags o0 _ b.size 0 (by omega) (by omega)
          (((h.fl.en (Nat.le_refl _)).ea (Nat.le_refl _)).mono (by omega))
      | exact srTpEOH_T b flags o0 _ b.size 0 (by omega) (by omega)
          (((h.fl.ev (Nat.le_refl _)).ea (Nat.le_refl _)).mono (by omega))
      | exact SrTpT.of_safe h
  · exact SrTpT.of_safe h

/-- the white-space pattern of ParseTokenParam -/
theorem srTpLWS_all (b : Buf) (flags o0 i : Nat) (p : PTokParam) (upd : PTokParam → PTokParam)
    (h : SrTpSafe b o0 i p) (hu : SrTpIn i (upd p)) :
    StepAll2 (SrTpSafe b o0) (SrTpT b flags o0) (tpLWS b flags i p upd) := by
  have hlo := h.lo
  have hhi := h.hi
  unfold tpLWS
  rcases hsk : skipLWS b i flags with ⟨n, crl, e⟩
  have hr := skipLWS_range b i flags hsk
  have hrn := hr.2 hhi
  cases e <;> simp only [stepOfRes]
  case moreBytes => exact srTpMoreBytes_T b flags o0 i p h
  case ok => exact ⟨by omega, hrn, hu.mono hr.1⟩
  case eoh =>
    have he := srSkipLWS_eoh_le b i flags hsk
    exact srTpEOH_T b flags o0 (upd p) n crl (by omega) he.2 (hu.mono (by omega))
  all_goals exact SrTpT.of_in (by omega) hrn (hu.mono hr.1)

theorem srTpSpTerm_T (b : Buf) (flags o0 i j : Nat) (p : PTokParam) (h : SrTpSafe b o0 i p) (h1 : o0 ≤ j) (h2 : j ≤ i)
    (hsp : hasFlag flags POptTokSpTermF = true) : SrTpT b flags o0 j .ok { p with state := .fin } :=
  ⟨h1, by have := h.hi; omega, (h.fl.mono h.hi).st _,
    fun hh => hh.elim (fun h3 => absurd rfl h3) (fun h3 => by rw [hsp] at h3; cases h3)⟩

theorem srTpStep_safe (flags o0 : Nat) (b : Buf) (i : Nat) (c : UInt8) (p : PTokParam) (hb : b[i]? = some c)
    (h : SrTpSafe b o0 i p) : StepAll2 (SrTpSafe b o0) (SrTpT b flags o0) (tpStep flags o0 b i c p) := by
  have hlt := get?_lt hb
  have hlo := h.lo
  have hf := h.fl
  have hii : i ≤ i := Nat.le_refl i
  have his : i ≤ i + 1 := Nat.le_succ i
  unfold tpStep
  simp only
  cases hst : p.state <;> simp only
  case quotedVal =>
    rcases hq : skipQuoted b i with ⟨n, e⟩
    have h2 := skipQuoted_range b i (by omega) hq
    cases e <;> simp only [stepOfRes]
    case moreBytes => exact srTpMoreBytes_T b flags o0 n p ⟨by omega, h2.2, hf.mono h2.1⟩
    case ok => exact ⟨by omega, h2.2, ((hf.ev h2.1).ea (Nat.le_refl _)).st _⟩
    case eoh => exact srTpEOH_T b flags o0 p n 0 (by omega) h2.2 (hf.mono h2.1)
    all_goals exact SrTpT.of_in (by omega) h2.2 (hf.mono h2.1)
  case err => exact ⟨by omega, by omega, hf.mono (by omega)⟩
  case fin => exact ⟨by omega, by omega, hf.mono (by omega)⟩
  all_goals
    by_cases hl : isLWSch c = true
    · simp only [hl, ↓reduceIte]
      first
        | exact srTpLWS_all b flags o0 i p id h hf
        | exact srTpLWS_all b flags o0 i p _ h (((hf.en hii).ea hii).st _)
        | exact srTpLWS_all b flags o0 i p _ h (((hf.ev hii).ea hii).st _)
    · simp only [hl, Bool.false_eq_true, ↓reduceIte]
      repeat' split
      all_goals first
        | exact ⟨by omega, by omega, hf.mono his⟩
        | exact ⟨by omega, by omega, (hf.st _).mono his⟩
        | exact ⟨by omega, by omega, (hf.sna _).mono his⟩
        | exact ⟨by omega, by omega, ((hf.en hii).ea his).st _⟩
        | exact ⟨by omega, by omega, (((hf.en hii).ea hii).st _).mono his⟩
        | exact ⟨by omega, by omega, (((hf.ev hii).ea hii).st _).mono his⟩
        | exact ⟨by omega, by omega, ((hf.sv.ea hii).st _).mono his⟩
        | exact SrTpT.of_in hlo (by omega) (hf.st _)
        | exact SrTpT.of_in hlo (by omega) (hf.sv.st _)
        | exact SrTpT.of_in hlo (by omega) (((hf.en hii).ea hii).st _)
        | exact SrTpT.of_in hlo (by omega) (((hf.ev hii).ea hii).st _)
        | (unfold tpSpTermEq; split
           · exact srTpSpTerm_T b flags o0 i (i - 1) p h (by omega) (by omega) (by assumption)
           · exact srTpSpTerm_T b flags o0 i i p h hlo hii (by assumption))
        | (unfold tpSpTermSep; simp only; repeat' split
           all_goals first
             | exact srTpSpTerm_T b flags o0 i (i - 1) p h (by omega) (by omega) (by assumption)
             | exact srTpSpTerm_T b flags o0 i i p h hlo hii (by assumption))

/-- **ParseTokenParam, every flag combination, every legitimate object, every offset inside the buffer**: the
    returned offset lies in `[o, len]`, no panic is recorded, the fields `all` / `name` / `val` lie inside the buffer
    (and end at or before the returned offset, unless the call ended on the `POptTokSpTermF` exit). -/
theorem parseTokenParam_safe (b : Buf) (o : Nat) (p : PTokParam) (flags : Nat) (ho : o ≤ b.size) (h : SrTpIn o p) :
    SrTpT b flags o (parseTokenParam b o p flags).1 (parseTokenParam b o p flags).2.1
      (parseTokenParam b o p flags).2.2 := by
  unfold parseTokenParam
  split
  · exact SrTpT.of_in (Nat.le_refl _) ho h
  · exact runLoop_safe2 (tpMachine flags o) b (SrTpSafe b o) (SrTpT b flags o) (tp_progress flags o)
      (fun i c st hb hs => srTpStep_safe flags o b i c st hb hs)
      (fun i st hs => srTpMoreBytes_T b flags o i st hs) o p ⟨Nat.le_refl _, ho, h⟩

/-- the same spelled out for a caller: within the documented 65,535-byte limit `Get` on the three fields returns a
    slice; after MoreBytes / MoreValues (in fact after every verdict except OK) the returned object is a legitimate
    argument at the returned offset -/
theorem parseTokenParam_never_panics (b : Buf) (o : Nat) (p : PTokParam) (flags : Nat) (hfit : b.size ≤ 65535)
    (ho : o ≤ b.size) (h : SrTpIn o p) :
    (parseTokenParam b o p flags).2.2.pnc = false ∧
    o ≤ (parseTokenParam b o p flags).1 ∧ (parseTokenParam b o p flags).1 ≤ b.size ∧
    (∃ x, (parseTokenParam b o p flags).2.2.all.get? b = some x) ∧
    (∃ x, (parseTokenParam b o p flags).2.2.name.get? b = some x) ∧
    (∃ x, (parseTokenParam b o p flags).2.2.val.get? b = some x) ∧
    ((parseTokenParam b o p flags).2.1 ≠ .ok →
      SrTpIn (parseTokenParam b o p flags).1 (parseTokenParam b o p flags).2.2) := by
  have hT := parseTokenParam_safe b o p flags ho h
  exact ⟨hT.out.pnc, hT.lo, hT.hi, field_get?_some b _ hT.out.all hfit, field_get?_some b _ hT.out.name hfit,
    field_get?_some b _ hT.out.val hfit, fun hne => hT.tight (Or.inl hne)⟩

/-- non-vacuity: new objects are legitimate at every offset -/
example (o : Nat) : SrTpIn o {} := SrTpIn.new o
/-- test: a parameter with a value, end of input flagged -/
example : (parseTokenParam "a=b;c".toUTF8.toList.toArray 0 {} POptInputEndF).2.1 = .moreValues := by decide +kernel

/-! ### ParseAllURIParams -/

/-- every element slot of a URI-parameter list (used or not) and its scratch element hold token parameters whose
    fields end at or before `o` and that recorded no panic; the list recorded no panic.  New lists of any capacity
    satisfy it at every offset; `Reset()` keeps it. -/
structure SrPlIn (o : Nat) (l : URIParamsLst) : Prop where
  pnc : l.pnc = false
  arr : ∀ k, k < l.params.size → SrTpIn o l.params[k]!.param
  tmp : SrTpIn o l.tmp.param

theorem SrPlIn.mono {o o' : Nat} {l : URIParamsLst} (h : SrPlIn o l) (hle : o ≤ o') : SrPlIn o' l :=
  ⟨h.pnc, fun k hk => (h.arr k hk).mono hle, h.tmp.mono hle⟩

theorem SrPlIn.cur {o : Nat} {l : URIParamsLst} (h : SrPlIn o l) : SrTpIn o l.cur.param := by
  unfold URIParamsLst.cur
  split
  · rename_i hin; exact h.arr _ hin
  · exact h.tmp

theorem SrPlIn.setCur {o : Nat} {l : URIParamsLst} (h : SrPlIn o l) (p : URIParam) (hp : SrTpIn o p.param) :
    SrPlIn o (l.setCur p) := by
  refine ⟨by rw [pSetCur_pnc]; exact h.pnc, fun k hk => ?_, ?_⟩
  · rw [pSetCur_size] at hk
    by_cases hkn : l.n = k
    · subst hkn; rw [pSetCur_get_n l p hk]; exact hp
    · rw [pSetCur_get_ne l p k hkn]; exact h.arr k hk
  · by_cases hin : l.n < l.params.size
    · rw [pSetCur_tmp_in l p hin]; exact h.tmp
    · rw [pSetCur_tmp_out l p hin]; exact hp

theorem SrPlIn.next {o : Nat} {l : URIParamsLst} (h : SrPlIn o l) (tp : PTokParam) (t : Nat) (hp : SrTpIn o tp) :
    SrPlIn o (l.next tp t) := by
  have hs := h.setCur { param := tp, t := t } hp
  refine ⟨by rw [pNext_pnc]; exact h.pnc, fun k hk => ?_, ?_⟩
  · rw [pNext_params]; rw [pNext_size, ← pSetCur_size l { param := tp, t := t }] at hk; exact hs.arr k hk
  · by_cases hin : l.n < l.params.size
    · rw [pNext_tmp_in l tp t hin]; exact h.tmp
    · rw [pNext_tmp_out l tp t hin]; exact SrTpIn.new o

theorem SrPlIn.setPnc {o : Nat} {l : URIParamsLst} (h : SrPlIn o l) : SrPlIn o { l with pnc := false } :=
  ⟨rfl, h.arr, h.tmp⟩

theorem srPlIn_new (o k : Nat) : SrPlIn o ({ params := Array.replicate k {} } : URIParamsLst) := by
  refine ⟨rfl, fun j hj => ?_, SrTpIn.new o⟩
  simp only [Array.size_replicate] at hj
  have : (Array.replicate k ({} : URIParam))[j]! = {} := by simp [hj]
  rw [this]; exact SrTpIn.new o

/-- `Reset()` keeps the condition (used slots are zeroed, the others are untouched) -/
theorem SrPlIn.reset {o : Nat} {l : URIParamsLst} (h : SrPlIn o l) : SrPlIn o l.reset := by
  refine ⟨rfl, fun k hk => ?_, SrTpIn.new o⟩
  have hsz : l.reset.params.size = l.params.size := clearUpToP_size _ _ _
  rw [hsz] at hk
  show SrTpIn o (clearUpToP l.params {} l.n)[k]!.param
  rw [clearUpToP_get _ _ _ _ hk]
  split
  · exact SrTpIn.new o
  · exact h.arr k hk

/-- `Reset()` of a clean list (unused slots zero, whatever the used slots hold, e.g. fields of another buffer)
    satisfies the condition at every offset -/
theorem srPlIn_reset_clean (o : Nat) {l : URIParamsLst} (h : plClean l) : SrPlIn o l.reset := by
  refine ⟨rfl, fun k hk => ?_, SrTpIn.new o⟩
  have hsz : l.reset.params.size = l.params.size := clearUpToP_size _ _ _
  rw [hsz] at hk
  show SrTpIn o (clearUpToP l.params {} l.n)[k]!.param
  rw [clearUpToP_get _ _ _ _ hk]
  split
  · exact SrTpIn.new o
  · rw [h.1 k (by omega) hk]; exact SrTpIn.new o

/-- what the URI-parameter loop guarantees on return (call started at `o0`) -/
structure SrPlT (b : Buf) (o0 : Nat) (r : Nat × Nat × Err × URIParamsLst) : Prop where
  lo : o0 ≤ r.1
  hi : r.1 ≤ b.size
  out : SrPlIn b.size r.2.2.2
  tight : r.2.2.1 ≠ .ok → SrPlIn r.1 r.2.2.2

theorem uriParamsLoop_safe (b : Buf) (flags : Nat) (hfit : b.size ≤ 65535) (offs : Nat) (l : URIParamsLst) (vNo : Nat)
    (ho : offs ≤ b.size) (h : SrPlIn offs l) : SrPlT b offs (uriParamsLoop b offs l flags vNo) := by
  revert ho h
  induction offs, l, vNo using uriParamsLoop_induct b flags with
  | step offs l vNo ih =>
    intro ho h
    rcases hp : parseTokenParam b offs l.cur.param flags with ⟨next, e1, tp⟩
    have hT := parseTokenParam_safe b offs l.cur.param flags ho h.cur
    rw [hp] at hT
    have hlo : offs ≤ next := hT.lo
    have hhi : next ≤ b.size := hT.hi
    have hout : SrTpIn b.size tp := hT.out
    have htight : e1 ≠ .ok → SrTpIn next tp := fun hne => hT.tight (Or.inl hne)
    obtain ⟨nm, hnm⟩ := field_get?_some b tp.name hout.name hfit
    by_cases hm : e1 = .moreBytes
    · subst hm
      rw [uriParamsLoop_eq_more hp]
      have := (h.mono hlo).setCur { l.cur with param := tp } (htight (by decide))
      exact ⟨hlo, hhi, this.mono hhi, fun _ => this⟩
    by_cases hv : e1 = .moreValues
    · subst hv
      have hn := (h.mono hlo).next tp (uriParamResolve nm) (htight (by decide))
      rw [uriParamsLoop_mv hp hnm]
      split
      · rename_i hg
        have := ih next tp nm hp hnm hg hhi hn
        exact ⟨by have := this.lo; omega, this.hi, this.out, this.tight⟩
      · exact ⟨hlo, hhi, hn.mono hhi, fun _ => hn⟩
    by_cases hk : e1 = .ok
    · subst hk
      rw [uriParamsLoop_eq_last hp (Or.inl rfl) hnm]
      exact ⟨hlo, hhi, (h.mono ho).next tp _ hout, fun hne => absurd rfl hne⟩
    by_cases he : e1 = .eoh
    · subst he
      rw [uriParamsLoop_eq_last hp (Or.inr rfl) hnm]
      have hn := (h.mono hlo).next tp (uriParamResolve nm) (htight (by decide))
      exact ⟨hlo, hhi, hn.mono hhi, fun _ => hn⟩
    · rw [uriParamsLoop_err hp hk hv he hm]
      have := (h.mono hlo).setCur {} (SrTpIn.new next)
      exact ⟨hlo, hhi, this.mono hhi, fun _ => this⟩

/-- **ParseAllURIParams, every flag combination, new / reset / suspended lists of any capacity**: the offset lies
    in `[offs, len]`, neither the list nor any element recorded a panic, the fields of every slot lie inside the
    buffer; after every verdict except OK the list is a legitimate argument at the returned offset (MoreBytes). -/
theorem parseAllURIParams_safe (b : Buf) (offs : Nat) (l : URIParamsLst) (flags : Nat) (hfit : b.size ≤ 65535)
    (ho : offs ≤ b.size) (h : SrPlIn offs l) : SrPlT b offs (parseAllURIParams b offs l flags) :=
  uriParamsLoop_safe b _ hfit offs l 0 ho h

/-! ### ParseAllURIHdrs -/

structure SrHlIn (o : Nat) (l : URIHdrsLst) : Prop where
  arr : ∀ k, k < l.hdrs.size → SrTpIn o l.hdrs[k]!
  tmp : SrTpIn o l.tmp

theorem SrHlIn.mono {o o' : Nat} {l : URIHdrsLst} (h : SrHlIn o l) (hle : o ≤ o') : SrHlIn o' l :=
  ⟨fun k hk => (h.arr k hk).mono hle, h.tmp.mono hle⟩

theorem SrHlIn.cur {o : Nat} {l : URIHdrsLst} (h : SrHlIn o l) : SrTpIn o l.cur := by
  unfold URIHdrsLst.cur
  split
  · rename_i hin; exact h.arr _ hin
  · exact h.tmp

theorem hSetCur_tmp_out' (l : URIHdrsLst) (p : PTokParam) (h : ¬ l.n < l.hdrs.size) : (l.setCur p).tmp = p := by
  unfold URIHdrsLst.setCur; rw [if_neg h]

theorem SrHlIn.setCur {o : Nat} {l : URIHdrsLst} (h : SrHlIn o l) (p : PTokParam) (hp : SrTpIn o p) :
    SrHlIn o (l.setCur p) := by
  refine ⟨fun k hk => ?_, ?_⟩
  · rw [hSetCur_size] at hk
    by_cases hkn : l.n = k
    · subst hkn; rw [hSetCur_get_n l p hk]; exact hp
    · rw [hSetCur_get_ne l p k hkn]; exact h.arr k hk
  · by_cases hin : l.n < l.hdrs.size
    · rw [hSetCur_tmp_in l p hin]; exact h.tmp
    · rw [hSetCur_tmp_out' l p hin]; exact hp

theorem SrHlIn.next {o : Nat} {l : URIHdrsLst} (h : SrHlIn o l) (tp : PTokParam) (hp : SrTpIn o tp) :
    SrHlIn o (l.next tp) := by
  have hs := h.setCur tp hp
  refine ⟨fun k hk => ?_, ?_⟩
  · rw [hNext_hdrs]; rw [hNext_size, ← hSetCur_size l tp] at hk; exact hs.arr k hk
  · by_cases hin : l.n < l.hdrs.size
    · rw [hNext_tmp_in l tp hin]; exact h.tmp
    · rw [hNext_tmp_out l tp hin]; exact SrTpIn.new o

theorem srHlIn_new (o k : Nat) : SrHlIn o ({ hdrs := Array.replicate k {} } : URIHdrsLst) := by
  refine ⟨fun j hj => ?_, SrTpIn.new o⟩
  simp only [Array.size_replicate] at hj
  have : (Array.replicate k ({} : PTokParam))[j]! = {} := by simp [hj]
  rw [this]; exact SrTpIn.new o

theorem SrHlIn.reset {o : Nat} {l : URIHdrsLst} (h : SrHlIn o l) : SrHlIn o l.reset := by
  refine ⟨fun k hk => ?_, SrTpIn.new o⟩
  have hsz : l.reset.hdrs.size = l.hdrs.size := clearUpToP_size _ _ _
  rw [hsz] at hk
  show SrTpIn o (clearUpToP l.hdrs {} l.n)[k]!
  rw [clearUpToP_get _ _ _ _ hk]
  split
  · exact SrTpIn.new o
  · exact h.arr k hk

theorem srHlIn_reset_clean (o : Nat) {l : URIHdrsLst} (h : hlClean l) : SrHlIn o l.reset := by
  refine ⟨fun k hk => ?_, SrTpIn.new o⟩
  have hsz : l.reset.hdrs.size = l.hdrs.size := clearUpToP_size _ _ _
  rw [hsz] at hk
  show SrTpIn o (clearUpToP l.hdrs {} l.n)[k]!
  rw [clearUpToP_get _ _ _ _ hk]
  split
  · exact SrTpIn.new o
  · rw [h.1 k (by omega) hk]; exact SrTpIn.new o

structure SrHlT (b : Buf) (o0 : Nat) (r : Nat × Nat × Err × URIHdrsLst) : Prop where
  lo : o0 ≤ r.1
  hi : r.1 ≤ b.size
  out : SrHlIn b.size r.2.2.2
  tight : r.2.2.1 ≠ .ok → SrHlIn r.1 r.2.2.2

theorem uriHdrsLoop_safe (b : Buf) (flags : Nat) (offs : Nat) (l : URIHdrsLst) (vNo : Nat)
    (ho : offs ≤ b.size) (h : SrHlIn offs l) : SrHlT b offs (uriHdrsLoop b offs l flags vNo) := by
  revert ho h
  induction offs, l, vNo using uriHdrsLoop_induct b flags with
  | step offs l vNo ih =>
    intro ho h
    rcases hp : parseTokenParam b offs l.cur flags with ⟨next, e1, tp⟩
    have hT := parseTokenParam_safe b offs l.cur flags ho h.cur
    rw [hp] at hT
    have hlo : offs ≤ next := hT.lo
    have hhi : next ≤ b.size := hT.hi
    have hout : SrTpIn b.size tp := hT.out
    have htight : e1 ≠ .ok → SrTpIn next tp := fun hne => hT.tight (Or.inl hne)
    by_cases hm : e1 = .moreBytes
    · subst hm
      rw [uriHdrsLoop_eq_more hp]
      have := (h.mono hlo).setCur tp (htight (by decide))
      exact ⟨hlo, hhi, this.mono hhi, fun _ => this⟩
    by_cases hv : e1 = .moreValues
    · subst hv
      have hn := (h.mono hlo).next tp (htight (by decide))
      rw [uriHdrsLoop_mv hp]
      split
      · rename_i hg
        have := ih next tp hp hg hhi hn
        exact ⟨by have := this.lo; omega, this.hi, this.out, this.tight⟩
      · exact ⟨hlo, hhi, hn.mono hhi, fun _ => hn⟩
    by_cases hk : e1 = .ok
    · subst hk
      rw [uriHdrsLoop_eq_last hp (Or.inl rfl)]
      exact ⟨hlo, hhi, (h.mono ho).next tp hout, fun hne => absurd rfl hne⟩
    by_cases he : e1 = .eoh
    · subst he
      rw [uriHdrsLoop_eq_last hp (Or.inr rfl)]
      have hn := (h.mono hlo).next tp (htight (by decide))
      exact ⟨hlo, hhi, hn.mono hhi, fun _ => hn⟩
    · rw [uriHdrsLoop_err hp hk hv he hm]
      have := (h.mono hlo).setCur {} (SrTpIn.new next)
      exact ⟨hlo, hhi, this.mono hhi, fun _ => this⟩

/-- **ParseAllURIHdrs, every flag combination, new / reset / suspended lists of any capacity** -/
theorem parseAllURIHdrs_safe (b : Buf) (offs : Nat) (l : URIHdrsLst) (flags : Nat)
    (ho : offs ≤ b.size) (h : SrHlIn offs l) : SrHlT b offs (parseAllURIHdrs b offs l flags) :=
  uriHdrsLoop_safe b _ offs l 0 ho h

/-! ### comparison functions: URIParamsEq, URIHdrsEq, URICmpShort, URICmp, URIParseCmp never panic -/

/-- both fields the comparison functions read from a stored token parameter can be dereferenced -/
def SrTpGet (b : Buf) (p : PTokParam) : Prop := (∃ x, p.name.get? b = some x) ∧ (∃ x, p.val.get? b = some x)

theorem SrTpIn.toGet {b : Buf} {p : PTokParam} (h : SrTpIn b.size p) (hfit : b.size ≤ 65535) : SrTpGet b p :=
  ⟨field_get?_some b _ h.name hfit, field_get?_some b _ h.val hfit⟩

theorem srParamsEqInner_some (p1 : URIParam) (b1 b2 : Buf) (h1 : SrTpGet b1 p1.param) (l : List URIParam)
    (hl : ∀ p2 ∈ l, SrTpGet b2 p2.param) : ∃ r, paramsEqInner p1 b1 b2 l = some r := by
  induction l with
  | nil => exact ⟨true, rfl⟩
  | cons p2 rest ih =>
    have ih' := ih (fun q hq => hl q (List.mem_cons_of_mem _ hq))
    obtain ⟨⟨n1, hn1⟩, ⟨v1, hv1⟩⟩ := h1
    obtain ⟨⟨n2, hn2⟩, ⟨v2, hv2⟩⟩ := hl p2 List.mem_cons_self
    unfold paramsEqInner
    simp only [hn1, hn2, hv1, hv2]
    split
    · split
      · rename_i hh; split at hh <;> cases hh
      · exact ⟨_, rfl⟩
      · exact ih'
    · exact ih'

theorem srParamsEqOuter_some (b1 b2 : Buf) (l2 : List URIParam) (h2 : ∀ p2 ∈ l2, SrTpGet b2 p2.param)
    (l1 : List URIParam) (h1 : ∀ p1 ∈ l1, SrTpGet b1 p1.param) : ∃ r, paramsEqOuter b1 b2 l2 l1 = some r := by
  induction l1 with
  | nil => exact ⟨true, rfl⟩
  | cons p1 rest ih =>
    obtain ⟨r, hr⟩ := srParamsEqInner_some p1 b1 b2 (h1 p1 List.mem_cons_self) l2 h2
    unfold paramsEqOuter
    rw [hr]
    cases r
    · exact ⟨_, rfl⟩
    · exact ih (fun q hq => h1 q (List.mem_cons_of_mem _ hq))

theorem SrPlIn.mem_get {b : Buf} {l : URIParamsLst} (h : SrPlIn b.size l) (hfit : b.size ≤ 65535) (m : Nat) :
    ∀ p ∈ (l.params.toList).take m, SrTpGet b p.param := by
  intro p hp
  have hp' : p ∈ l.params := Array.mem_toList_iff.mp (List.mem_of_mem_take hp)
  obtain ⟨k, hk, rfl⟩ := Array.mem_iff_getElem.mp hp'
  have := h.arr k hk
  rw [getElem!_pos l.params k hk] at this
  exact this.toGet hfit

/-- `URIParamsLstEq` on lists whose slots lie inside their buffers never panics -/
theorem uriParamsLstEq_some (l1 : URIParamsLst) (b1 : Buf) (l2 : URIParamsLst) (b2 : Buf)
    (hf1 : b1.size ≤ 65535) (hf2 : b2.size ≤ 65535) (h1 : SrPlIn b1.size l1) (h2 : SrPlIn b2.size l2) :
    ∃ r, uriParamsLstEq l1 b1 l2 b2 = some r := by
  unfold uriParamsLstEq
  simp only
  split
  · exact ⟨_, rfl⟩
  · exact srParamsEqOuter_some b1 b2 _ (h2.mem_get hf2 _) _ (h1.mem_get hf1 _)

/-- **URIParamsEq never panics**: any two buffers within the 65,535-byte limit, any offsets inside them -/
theorem uriParamsEq_some (b1 : Buf) (o1 : Nat) (b2 : Buf) (o2 : Nat) (hf1 : b1.size ≤ 65535) (hf2 : b2.size ≤ 65535)
    (ho1 : o1 ≤ b1.size) (ho2 : o2 ≤ b2.size) : ∃ r, uriParamsEq b1 o1 b2 o2 = some r := by
  unfold uriParamsEq
  simp only
  have hT1 := parseAllURIParams_safe b1 o1 { params := Array.replicate 100 {} } (POptTokURIParamF ||| POptInputEndF) hf1
    ho1 (srPlIn_new o1 100)
  have hT2 := parseAllURIParams_safe b2 o2 { params := Array.replicate 100 {} } (POptTokURIParamF ||| POptInputEndF) hf2
    ho2 (srPlIn_new o2 100)
  rcases hp1 : parseAllURIParams b1 o1 { params := Array.replicate 100 {} } (POptTokURIParamF ||| POptInputEndF) with
    ⟨n1, v1, e1, l1⟩
  rcases hp2 : parseAllURIParams b2 o2 { params := Array.replicate 100 {} } (POptTokURIParamF ||| POptInputEndF) with
    ⟨n2, v2, e2, l2⟩
  rw [hp1] at hT1
  rw [hp2] at hT2
  have hl1 : SrPlIn b1.size l1 := hT1.out
  have hl2 : SrPlIn b2.size l2 := hT2.out
  simp only [hl1.pnc, hl2.pnc, Bool.false_eq_true, ↓reduceIte]
  split
  · exact ⟨_, rfl⟩
  · split
    · exact ⟨_, rfl⟩
    · obtain ⟨r, hr⟩ := uriParamsLstEq_some l1 b1 l2 b2 hf1 hf2 hl1 hl2
      rw [hr]; exact ⟨_, rfl⟩

theorem srHdrsEqInner_some (h1 : PTokParam) (b1 b2 : Buf) (hg1 : SrTpGet b1 h1) (l : List PTokParam)
    (hl : ∀ h2 ∈ l, SrTpGet b2 h2) : ∃ r, hdrsEqInner h1 b1 b2 l = some r := by
  induction l with
  | nil => exact ⟨false, rfl⟩
  | cons h2 rest ih =>
    have ih' := ih (fun q hq => hl q (List.mem_cons_of_mem _ hq))
    obtain ⟨⟨n1, hn1⟩, ⟨v1, hv1⟩⟩ := hg1
    obtain ⟨⟨n2, hn2⟩, ⟨v2, hv2⟩⟩ := hl h2 List.mem_cons_self
    unfold hdrsEqInner
    simp only [hn1, hn2, hv1, hv2]
    split
    · exact ⟨_, rfl⟩
    · exact ih'

theorem srHdrsEqOuter_some (b1 b2 : Buf) (l2 : List PTokParam) (h2 : ∀ p2 ∈ l2, SrTpGet b2 p2)
    (l1 : List PTokParam) (h1 : ∀ p1 ∈ l1, SrTpGet b1 p1) : ∃ r, hdrsEqOuter b1 b2 l2 l1 = some r := by
  induction l1 with
  | nil => exact ⟨true, rfl⟩
  | cons p1 rest ih =>
    obtain ⟨r, hr⟩ := srHdrsEqInner_some p1 b1 b2 (h1 p1 List.mem_cons_self) l2 h2
    unfold hdrsEqOuter
    rw [hr]
    cases r
    · exact ⟨_, rfl⟩
    · exact ih (fun q hq => h1 q (List.mem_cons_of_mem _ hq))

theorem SrHlIn.mem_get {b : Buf} {l : URIHdrsLst} (h : SrHlIn b.size l) (hfit : b.size ≤ 65535) (m : Nat) :
    ∀ p ∈ (l.hdrs.toList).take m, SrTpGet b p := by
  intro p hp
  have hp' : p ∈ l.hdrs := Array.mem_toList_iff.mp (List.mem_of_mem_take hp)
  obtain ⟨k, hk, rfl⟩ := Array.mem_iff_getElem.mp hp'
  have := h.arr k hk
  rw [getElem!_pos l.hdrs k hk] at this
  exact this.toGet hfit

/-- `URIHdrsLstEq` on lists whose slots lie inside their buffers never panics -/
theorem uriHdrsLstEq_some (l1 : URIHdrsLst) (b1 : Buf) (l2 : URIHdrsLst) (b2 : Buf)
    (hf1 : b1.size ≤ 65535) (hf2 : b2.size ≤ 65535) (h1 : SrHlIn b1.size l1) (h2 : SrHlIn b2.size l2) :
    ∃ r, uriHdrsLstEq l1 b1 l2 b2 = some r := by
  unfold uriHdrsLstEq
  split
  · exact ⟨_, rfl⟩
  · exact srHdrsEqOuter_some b1 b2 _ (h2.mem_get hf2 _) _ (h1.mem_get hf1 _)

/-- **URIHdrsEq never panics** -/
theorem uriHdrsEq_some (b1 : Buf) (o1 : Nat) (b2 : Buf) (o2 : Nat) (hf1 : b1.size ≤ 65535) (hf2 : b2.size ≤ 65535)
    (ho1 : o1 ≤ b1.size) (ho2 : o2 ≤ b2.size) : ∃ r, uriHdrsEq b1 o1 b2 o2 = some r := by
  unfold uriHdrsEq
  simp only
  have hT1 := parseAllURIHdrs_safe b1 o1 { hdrs := Array.replicate 100 {} } (POptTokURIHdrF ||| POptInputEndF)
    ho1 (srHlIn_new o1 100)
  have hT2 := parseAllURIHdrs_safe b2 o2 { hdrs := Array.replicate 100 {} } (POptTokURIHdrF ||| POptInputEndF)
    ho2 (srHlIn_new o2 100)
  rcases hp1 : parseAllURIHdrs b1 o1 { hdrs := Array.replicate 100 {} } (POptTokURIHdrF ||| POptInputEndF) with
    ⟨n1, v1, e1, l1⟩
  rcases hp2 : parseAllURIHdrs b2 o2 { hdrs := Array.replicate 100 {} } (POptTokURIHdrF ||| POptInputEndF) with
    ⟨n2, v2, e2, l2⟩
  rw [hp1] at hT1
  rw [hp2] at hT2
  have hl1 : SrHlIn b1.size l1 := hT1.out
  have hl2 : SrHlIn b2.size l2 := hT2.out
  simp only
  split
  · exact ⟨_, rfl⟩
  · split
    · exact ⟨_, rfl⟩
    · obtain ⟨r, hr⟩ := uriHdrsLstEq_some l1 b1 l2 b2 hf1 hf2 hl1 hl2
      rw [hr]; exact ⟨_, rfl⟩

/-- `Get` works on all seven fields of the URI object -/
def SrUriGet (b : Buf) (u : PsipURI) : Prop :=
  ∀ f ∈ [u.scheme, u.user, u.pass, u.host, u.port, u.params, u.headers], ∃ x, f.get? b = some x

/-- every URI accepted by ParseURI (sip, sips or tel) has readable fields -/
theorem srUriGet_parse (b : Buf) (hfit : b.size ≤ 65535) (hacc : (parseURI b {}).1 = .none) :
    SrUriGet b (parseURI b {}).2.2.1 := by
  obtain ⟨_, t, k, u0, hk, hl, hty, hu⟩ := (parseURI_ok b hfit).2.2 hacc
  have hk0 : 0 < k := by rcases hk with ⟨_, rfl, _⟩ | ⟨_, rfl, _⟩ | ⟨_, rfl, _⟩ <;> decide
  have hg := hl.get hk0 hfit
  rw [hu]
  intro f hf
  by_cases ht : t = TELuri
  · rw [if_pos ht] at hf
    simp only [telSwap, List.mem_cons, List.not_mem_nil, or_false] at hf
    rcases hf with rfl | rfl | rfl | rfl | rfl | rfl | rfl
    · exact ⟨_, hg _ (by simp)⟩
    · exact ⟨_, hg _ (by simp)⟩
    · exact ⟨_, hg _ (by simp)⟩
    · exact ⟨_, field_get? b 0 0 (Nat.zero_le _) hfit⟩
    · exact ⟨_, hg _ (by simp)⟩
    · exact ⟨_, hg _ (by simp)⟩
    · exact ⟨_, hg _ (by simp)⟩
  · rw [if_neg ht] at hf
    exact ⟨_, hg f hf⟩

/-- **URICmpShort never panics** on URI objects whose fields are readable (any flags) -/
theorem uriCmpShort_some (u1 : PsipURI) (b1 : Buf) (u2 : PsipURI) (b2 : Buf) (flags : Nat)
    (h1 : SrUriGet b1 u1) (h2 : SrUriGet b2 u2) : ∃ r, uriCmpShort u1 b1 u2 b2 flags = some r := by
  obtain ⟨x1, hx1⟩ := h1 u1.user (by simp)
  obtain ⟨y1, hy1⟩ := h1 u1.pass (by simp)
  obtain ⟨z1, hz1⟩ := h1 u1.host (by simp)
  obtain ⟨x2, hx2⟩ := h2 u2.user (by simp)
  obtain ⟨y2, hy2⟩ := h2 u2.pass (by simp)
  obtain ⟨z2, hz2⟩ := h2 u2.host (by simp)
  unfold uriCmpShort
  simp only [hx1, hy1, hz1, hx2, hy2, hz2]
  repeat' split
  all_goals first
    | exact ⟨_, rfl⟩
    | (rename_i hh; repeat' (split at hh)
       all_goals cases hh)

theorem srGet?_size_le {b x : Buf} {f : PField} (h : f.get? b = some x) : x.size ≤ b.size := by
  unfold PField.get? at h
  split at h
  · cases h; simp only [Array.size_extract]; omega
  · cases h

/-- **URICmp never panics** on URI objects whose fields are readable, buffers within the 65,535-byte limit -/
theorem uriCmp_some (u1 : PsipURI) (b1 : Buf) (u2 : PsipURI) (b2 : Buf) (flags : Nat)
    (hf1 : b1.size ≤ 65535) (hf2 : b2.size ≤ 65535)
    (h1 : SrUriGet b1 u1) (h2 : SrUriGet b2 u2) : ∃ r, uriCmp u1 b1 u2 b2 flags = some r := by
  obtain ⟨r0, hr0⟩ := uriCmpShort_some u1 b1 u2 b2 flags h1 h2
  obtain ⟨p1, hp1⟩ := h1 u1.params (by simp)
  obtain ⟨q1, hq1⟩ := h1 u1.headers (by simp)
  obtain ⟨p2, hp2⟩ := h2 u2.params (by simp)
  obtain ⟨q2, hq2⟩ := h2 u2.headers (by simp)
  obtain ⟨rp, hrp⟩ := uriParamsEq_some p1 0 p2 0 (by have := srGet?_size_le hp1; omega)
    (by have := srGet?_size_le hp2; omega) (Nat.zero_le _) (Nat.zero_le _)
  obtain ⟨rh, hrh⟩ := uriHdrsEq_some q1 0 q2 0 (by have := srGet?_size_le hq1; omega)
    (by have := srGet?_size_le hq2; omega) (Nat.zero_le _) (Nat.zero_le _)
  unfold uriCmp
  simp only [hr0, hp1, hp2, hq1, hq2, hrp, hrh, Option.map_some]
  repeat' split
  all_goals first
    | exact ⟨_, rfl⟩
    | (rename_i hh; repeat' (split at hh)
       all_goals cases hh)

/-- **URIParseCmp never panics**: any two raw URIs within the 65,535-byte limit, any flags -/
theorem uriParseCmp_some (raw1 raw2 : Buf) (flags : Nat) (hf1 : raw1.size ≤ 65535) (hf2 : raw2.size ≤ 65535) :
    ∃ r, uriParseCmp raw1 raw2 flags = some r := by
  have hk1 := parseURI_ok raw1 hf1
  have hk2 := parseURI_ok raw2 hf2
  have hg1 := srUriGet_parse raw1 hf1
  have hg2 := srUriGet_parse raw2 hf2
  unfold uriParseCmp
  rcases hp1 : parseURI raw1 {} with ⟨e1, n1, u1, c1⟩
  rcases hp2 : parseURI raw2 {} with ⟨e2, n2, u2, c2⟩
  rw [hp1] at hk1 hg1
  rw [hp2] at hk2 hg2
  have hc1 : c1 = false := hk1.2.1
  have hc2 : c2 = false := hk2.2.1
  subst hc1; subst hc2
  simp only [Bool.false_eq_true, ↓reduceIte]
  split
  · exact ⟨_, rfl⟩
  · rename_i he1
    split
    · exact ⟨_, rfl⟩
    · rename_i he2
      have e1n : e1 = .none := by simpa using he1
      have e2n : e2 = .none := by simpa using he2
      obtain ⟨r, hr⟩ := uriCmp_some u1 raw1 u2 raw2 flags hf1 hf2 (hg1 e1n) (hg2 e2n)
      rw [hr]; exact ⟨_, rfl⟩

/-! ### signatures: the IPv6 scanner never indexes outside its 8-word buffers -/

/-- loop invariant of `IP6Prefix`: the word index is tied to the number of colons seen -/
structure SrIp6Inv (st : IP6St) : Prop where
  pnc : st.pnc = false
  one : st.use2 = false → st.i = st.colonsNo ∧ st.colonsNo ≤ 7
  two : st.use2 = true → st.i + 1 ≤ st.colonsNo ∧ st.colonsNo ≤ 8

/-- what holds of the state handed to the code after the loop -/
structure SrIp6End (st : IP6St) : Prop where
  pnc : st.pnc = false
  two : st.use2 = true → st.i ≤ 7

def SrIp6Exit : IP6Exit → Prop
  | .loopEnd _ st => SrIp6End st
  | .gotoEnd _ st => SrIp6End st
  | .ret _ _ => True

theorem SrIp6Inv.toEnd {st : IP6St} (h : SrIp6Inv st) : SrIp6End st :=
  ⟨h.pnc, fun h2 => by have := h.two h2; omega⟩

theorem ip6Loop_safe (b : Buf) (o : Nat) (st : IP6St) (h : SrIp6Inv st) : SrIp6Exit (ip6Loop b o st) := by
  fun_induction ip6Loop b o st with
  | case1 o st hb => exact h.toEnd
  | case2 o st c hb hc st1 hg =>
    exact ⟨h.pnc, fun hu => by have := h.two hu; simp only [st1]; omega⟩
  | case3 => trivial
  | case4 o st c hb hc st1 hg hfc hu ih =>
    apply ih
    have hu' : st.use2 = false := by simpa [st1] using hu
    have h1 := h.one hu'
    refine ⟨h.pnc, (fun hh => by cases hh), fun _ => ?_⟩
    simp only [st1, hu', Bool.and_eq_true, Bool.or_eq_true, decide_eq_true_eq, not_and, not_or] at hg hfc ⊢
    simp only [hfc] at hg
    simp at hg
    omega
  | case5 o st c hb hc st1 hg hfc ih =>
    apply ih
    have hfc' : st.foundColon = false := by simpa [st1] using hfc
    refine ⟨h.pnc, fun hu => ?_, fun hu => ?_⟩
    · have hu' : st.use2 = false := hu
      have h1 := h.one hu'
      simp only [st1, hu', hfc'] at hg ⊢
      simp at hg
      omega
    · have hu' : st.use2 = true := hu
      have h2 := h.two hu'
      simp only [st1, hu', hfc'] at hg ⊢
      simp at hg
      omega
  | case6 o st c hb hc v hv st1 hd => exact ⟨h.pnc, fun hu => by have := h.two hu; simp only [st1]; omega⟩
  | case7 o st c hb hc v hv st1 hd hi =>
    exfalso
    have hi' : st.i ≥ 8 := hi
    cases hu : st.use2
    · have := h.one hu; omega
    · have := h.two hu; omega
  | case8 o st c hb hc v hv st1 hd hi hu ih => exact ih ⟨h.pnc, h.one, h.two⟩
  | case9 o st c hb hc v hv st1 hd hi hu ih => exact ih ⟨h.pnc, h.one, h.two⟩
  | case10 o st c hb hc v hv hbr => exact ⟨h.pnc, h.toEnd.two⟩
  | case11 o st c hb hc v hv hbr => exact ⟨h.pnc, h.toEnd.two⟩

theorem ip6End_safe (b : Buf) (start o : Nat) (st : IP6St) (hp : st.pnc = false) (hi : st.use2 = true → st.i ≤ 8) :
    (ip6End b start o st).2.2.2.2 = false := by
  have hq : (st.use2 && decide (st.i > 8)) = false := by
    cases hu : st.use2
    · rfl
    · have := hi hu; simp; omega
  unfold ip6End
  simp only [hq, hp, Bool.or_false]
  repeat' split
  all_goals first
    | rfl
    | (rename_i hh; repeat' (split at hh)
       all_goals first | (cases hh; rfl) | cases hh)

theorem srIp6Core (b : Buf) (start : Nat) (br : Bool) :
    (match ip6Loop b (if br then start + 1 else start) ({ bracketSt := br } : IP6St) with
      | .ret o e => (false, o - start, e, ({ bracketSt := br } : IP6St).a1, false)
      | .gotoEnd o st => ip6End b start o st
      | .loopEnd o st => ip6End b start o (if !st.foundColon then { st with i := st.i + 1 } else st)).2.2.2.2
      = false := by
  have h0 : SrIp6Inv ({ bracketSt := br } : IP6St) :=
    ⟨rfl, fun _ => ⟨rfl, Nat.zero_le _⟩, fun hh => by cases hh⟩
  have hs := ip6Loop_safe b (if br then start + 1 else start) { bracketSt := br } h0
  cases hl : ip6Loop b (if br then start + 1 else start) { bracketSt := br } with
  | ret o e => rfl
  | gotoEnd o st =>
    rw [hl] at hs
    exact ip6End_safe b start o st hs.pnc (fun hu => by have := hs.two hu; omega)
  | loopEnd o st =>
    rw [hl] at hs
    simp only
    split
    · exact ip6End_safe b start o _ hs.pnc (fun hu => by have := hs.two hu; show st.i + 1 ≤ 8; omega)
    · exact ip6End_safe b start o st hs.pnc (fun hu => by have := hs.two hu; omega)

/-- **IP6Prefix never panics** (any buffer, any start position) -/
theorem ip6PrefixAt_safe (b : Buf) (start : Nat) : (ip6PrefixAt b start).2.2.2.2 = false := by
  unfold ip6PrefixAt
  exact srIp6Core b start _

theorem containsIP6Try_safe (b : Buf) (o dOffs : Nat) :
    ∀ r, containsIP6Try b o dOffs = some r → r.2.2.2 = false := by
  fun_induction containsIP6Try b o dOffs with
  | case1 o hlt nxt e a p hp =>
    intro r hr; cases hr
    have := ip6PrefixAt_safe b o; rw [hp] at this; exact this
  | case2 o hlt x1 x2 x3 hp =>
    intro r hr
    have := ip6PrefixAt_safe b o; rw [hp] at this; cases this
  | case3 o hlt hn1 hn2 ih => exact ih
  | case4 o hlt => intro r hr; cases hr

theorem containsIP6Loop_safe (b : Buf) (i : Nat) :
    ∀ r, containsIP6Loop b i = some r → r.2.2.2 = false := by
  fun_induction containsIP6Loop b i with
  | case1 => intro r hr; cases hr
  | case2 i hlt dOffs hidx offs r0 htry => intro r hr; cases hr; exact containsIP6Try_safe b _ _ _ htry
  | case3 i hlt dOffs hidx offs htry hlt2 ih => exact ih
  | case4 => intro r hr; cases hr
  | case5 => intro r hr; cases hr

/-- **ContainsIP6 never panics** -/
theorem containsIP6_safe (b : Buf) : ∀ r, containsIP6 b = some r → r.2.2.2 = false :=
  containsIP6Loop_safe b 0

/-- **GetCallIDSig never panics**, whatever the Call-ID bytes -/
theorem getCallIDSig_safe (cid : Buf) : (getCallIDSig cid).2.2 = false := by
  unfold getCallIDSig
  cases h4 : containsIP4 cid with
  | some r => rfl
  | none =>
    cases h6 : containsIP6 cid with
    | none => rfl
    | some r =>
      have := containsIP6_safe cid r h6
      obtain ⟨o, l, a, p⟩ := r
      simp only at this
      subst this
      rfl

theorem viaBrLoop_safe (b : Buf) (hfit : b.size ≤ 65535) (offs : Nat) (ho : offs ≤ b.size) :
    (viaBrLoop b offs).2.2 = false := by
  fun_induction viaBrLoop b offs with
  | case1 offs next e p hp hpnc =>
    have := (parseTokenParam_never_panics b offs {} viaBrFlags hfit ho (SrTpIn.new offs)).1
    rw [hp] at this
    rw [this] at hpnc; cases hpnc
  | case2 offs next e p hp hpnc he isBranch hbr =>
    exfalso
    have := (parseTokenParam_never_panics b offs {} viaBrFlags hfit ho (SrTpIn.new offs)).2.2.2.2.1
    rw [hp] at this
    obtain ⟨x, hx⟩ := this
    simp only [isBranch, hx] at hbr
    split at hbr <;> cases hbr
  | case3 offs next e p hp hpnc he isBranch hbr hlen hv =>
    exfalso
    have := (parseTokenParam_never_panics b offs {} viaBrFlags hfit ho (SrTpIn.new offs)).2.2.2.2.2.1
    rw [hp] at this
    obtain ⟨x, hx⟩ := this
    rw [hx] at hv; cases hv
  | case4 => rfl
  | case5 => rfl
  | case6 => rfl
  | case7 offs next e p hp hpnc he isBranch hbr hmv hg ih => exact ih hg.2
  | case8 => rfl
  | case9 => rfl
  | case10 => rfl

/-- **GetViaBrSig never panics** (Via values within the 65,535-byte limit) -/
theorem getViaBrSig_safe (b : Buf) (hfit : b.size ≤ 65535) : (getViaBrSig b).2.2 = false := by
  unfold getViaBrSig
  cases h : indexByteFrom b 0 59 with
  | none => rfl
  | some o =>
    have := (indexByteFrom_some b 0 59 h).2.1
    exact viaBrLoop_safe b hfit (o + 1) (by have := get?_lt this; omega)

theorem srViaPnc_false (mbuf : Buf) (hfit : mbuf.size ≤ 65535) (h : Hdr)
    (hv : h.type = HdrVia → h.val.inside mbuf.size) : (hdrKey mbuf h).viaPnc = false := by
  unfold SigKey.viaPnc hdrKey
  simp only
  split
  · rename_i hvia
    obtain ⟨v, hget⟩ := field_get?_some mbuf h.val (hv (by simpa using hvia)) hfit
    rw [hget]
    exact getViaBrSig_safe v (by have := srGet?_size_le hget; omega)
  · rfl

/-- the header loop of GetMsgSig records no panic when the value of every header slot of type Via lies inside
    `msg.Buf` -/
theorem msgSigLoop_safe (mbuf : Buf) (hfit : mbuf.size ≤ 65535) (pflags : Nat) (hs : List Hdr)
    (hv : ∀ h ∈ hs, h.type = HdrVia → h.val.inside mbuf.size) (st : SigLoopSt) (hp : st.pnc = false) :
    (msgSigLoop mbuf pflags hs st).1.pnc = false := by
  induction hs generalizing st with
  | nil => exact hp
  | cons h rest ih =>
    have ihr := ih (fun x hx => hv x (List.mem_cons_of_mem _ hx))
    have hstep : (sigStep (hdrKey mbuf h) st).pnc = false := by
      show (st.pnc || (hdrKey mbuf h).viaPnc) = false
      rw [hp, srViaPnc_false mbuf hfit h (hv h List.mem_cons_self)]; rfl
    rw [msgSigLoop_cons]
    split
    · split
      · exact hstep
      · split
        · exact hstep
        · exact ihr _ hstep
    · exact ihr st hp

/-- **GetMsgSig never panics** when the Call-ID, the From tag and the value of every header slot of type Via lie
    inside `msg.Buf` (= the first `bufLen` bytes of the buffer), within the 65,535-byte limit -/
theorem getMsgSig_safe (m : PSIPMsg) (b : Buf) (hfit : b.size ≤ 65535) (hlen : m.bufLen ≤ b.size)
    (hcid : m.pv.callid.callID.inside m.bufLen) (htag : m.pv.from_.tag.inside m.bufLen)
    (hvia : ∀ k, k < m.hl.hdrs.size → m.hl.hdrs[k]!.type = HdrVia → m.hl.hdrs[k]!.val.inside m.bufLen) :
    (getMsgSigCore m b).2.2 = false := by
  cases hreq : m.request
  · rw [getMsgSig_reply m b hreq]
  · have hsz : (b.extract 0 m.bufLen).size = m.bufLen := by simp only [Array.size_extract]; omega
    have hfit' : (b.extract 0 m.bufLen).size ≤ 65535 := by omega
    obtain ⟨cid, hc⟩ := field_get?_some (b.extract 0 m.bufLen) _ (by rw [hsz]; exact hcid) hfit'
    obtain ⟨tag, ht⟩ := field_get?_some (b.extract 0 m.bufLen) _ (by rw [hsz]; exact htag) hfit'
    rw [getMsgSig_request m b hreq cid tag hc ht]
    show (msgSigLoop (b.extract 0 m.bufLen) m.hl.pflags m.hl.hdrs.toList (sigInit m.fl.methodNo cid tag)).1.pnc = false
    apply msgSigLoop_safe _ hfit'
    · intro h hh hty
      have hh' : h ∈ m.hl.hdrs := Array.mem_toList_iff.mp hh
      obtain ⟨k, hk, rfl⟩ := Array.mem_iff_getElem.mp hh'
      have := hvia k hk
      rw [getElem!_pos m.hl.hdrs k hk] at this
      rw [hsz]; exact this hty
    · exact getCallIDSig_safe cid

/-- **GetMsgSig after a successful ParseSIPMsg** (one call on any legitimate object): no panic, provided the
    header slots the parser did not fill hold no Via header (they are zero in every object produced by Init /
    Reset; that the parser leaves them zero is not proved here). -/
theorem getMsgSig_after_parse (b : Buf) (o : Nat) (m : PSIPMsg) (flags : Nat) (hfit : b.size ≤ 65535)
    (hok : msgOK2 b o m) (H : MsgSafe b o m) {o' : Nat} {m' : PSIPMsg}
    (hr : parseSIPMsg b o m flags = (o', .ok, m'))
    (hun : ∀ k, m'.hl.n ≤ k → k < m'.hl.hdrs.size → m'.hl.hdrs[k]!.type ≠ HdrVia) :
    (getMsgSigCore m' b).2.2 = false := by
  obtain ⟨h, _, _, hle, hL⟩ := parseSIPMsg_layout b o m flags hfit hok H hr
  have hT := parseSIPMsg_safe b o m flags hfit hok H
  rw [hr] at hT
  have hin : MsgRelIn b o' m' := (hT.inn rfl).1
  have hbl : m'.bufLen = o' := hL.bufLen
  apply getMsgSig_safe m' b hfit (by omega)
  · rw [hbl]; exact hin.pv.callid
  · rw [hbl]; exact hin.pv.from_.tag
  · intro k hk hty
    rcases Nat.lt_or_ge k m'.hl.n with hkn | hkn
    · rw [hbl]; exact (hin.hl.stored k hkn hk).2
    · exact absurd hty (hun k hkn hk)

/-! ### tests / non-vacuity (closed computations, `decide +kernel`) -/

/-- test message for the examples below -/
def srTestMsg : Buf :=
  "INVITE sip:a SIP/2.0\r\nVia: x;branch=z9hG4bKabcdefgh\r\nCall-ID: 1@1.2.3.4\r\nFrom: <sip:a>;tag=1\r\n\r\n".toUTF8.data

/-- non-vacuity of `getMsgSig_after_parse`: all its hypotheses hold for a concrete request parsed into an object
    produced by Init (the last hypothesis — unused slots hold no Via — checked by computation) -/
example : (getMsgSigCore (parseSIPMsg srTestMsg 0 (({} : PSIPMsg).init 0 none none) 0).2.2 srTestMsg).2.2 = false := by
  have he : (parseSIPMsg srTestMsg 0 (({} : PSIPMsg).init 0 none none) 0).2.1 = .ok := by decide +kernel
  have hr : parseSIPMsg srTestMsg 0 (({} : PSIPMsg).init 0 none none) 0 =
      ((parseSIPMsg srTestMsg 0 (({} : PSIPMsg).init 0 none none) 0).1, .ok,
       (parseSIPMsg srTestMsg 0 (({} : PSIPMsg).init 0 none none) 0).2.2) :=
    congrArg (fun e => ((parseSIPMsg srTestMsg 0 (({} : PSIPMsg).init 0 none none) 0).1, e,
       (parseSIPMsg srTestMsg 0 (({} : PSIPMsg).init 0 none none) 0).2.2)) he
  have hun : ∀ k, k < 10 → ((parseSIPMsg srTestMsg 0 (({} : PSIPMsg).init 0 none none) 0).2.2.hl.n ≤ k →
      (parseSIPMsg srTestMsg 0 (({} : PSIPMsg).init 0 none none) 0).2.2.hl.hdrs[k]!.type ≠ HdrVia) := by
    decide +kernel
  have hsz : (parseSIPMsg srTestMsg 0 (({} : PSIPMsg).init 0 none none) 0).2.2.hl.hdrs.size = 10 := by decide +kernel
  exact getMsgSig_after_parse srTestMsg 0 _ 0 (by decide +kernel)
    (msgOK2_init srTestMsg 0 (Nat.zero_le _) {} 0 0 0 none none)
    (MsgSafe_init srTestMsg 0 (Nat.zero_le _) {} 0 0 0 none none) hr
    (fun k h1 h2 => hun k (by omega) h1)
/-- test: the message above is a request with a Via branch, a Call-ID containing an IPv4 address and a From tag -/
example : (getMsgSigCore (parseSIPMsg srTestMsg 0 (({} : PSIPMsg).init 0 none none) 0).2.2 srTestMsg).2.1 = .ok := by
  decide +kernel
/-- tests: comparison of two URIs with parameters and headers; a list with less room than parameters -/
example : (uriParseCmp "sip:u@h;a=b?x=y".toUTF8.data "sip:u@H;A=b?X=y".toUTF8.data 0).map (·.1) = some true := by
  decide +kernel
example : (parseAllURIParams "a=b;c=d;e".toUTF8.data 0 { params := Array.replicate 1 {} } POptInputEndF).2.2.1 = .eoh := by
  decide +kernel

end Sipsp
